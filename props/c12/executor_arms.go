package c12

import (
	"context"
	"fmt"
	"os"
	"path/filepath"
	"strings"
	"sync"
	"time"

	remoteexecution "github.com/bazelbuild/remote-apis/build/bazel/remote/execution/v2"
	"github.com/buildbarn/bb-remote-execution/pkg/builder"
	"github.com/buildbarn/bb-remote-execution/pkg/proto/remoteworker"
	runner_pb "github.com/buildbarn/bb-remote-execution/pkg/proto/runner"
	"github.com/buildbarn/bb-storage/pkg/digest"
	"github.com/buildbarn/bb-storage/pkg/filesystem"
	"github.com/buildbarn/bb-storage/pkg/filesystem/path"

	"golang.org/x/sys/unix"
	"google.golang.org/grpc/codes"
	"google.golang.org/grpc/status"
	"google.golang.org/protobuf/types/known/durationpb"

	"verif/internal/ev"
	"verif/internal/vclock"
	"verif/internal/wexec"
)

// Every way LocalBuildExecutor.Execute / CheckReadiness can end, on top of
// the monitored creator stack: whatever the exit path, the action's build
// directory is closed and removed, the invoker ends up idle and the root is
// empty; failures are reported, not swallowed.

// anyError stands for "any non-OK status".
const anyError = codes.Code(1000)

type arm struct {
	name    string
	want    codes.Code
	getsDir bool // a build directory is handed out
	runs    bool // the runner is invoked
}

var executeArms = []arm{
	{"ok", codes.OK, true, true},
	{"no-action", codes.InvalidArgument, false, false},
	{"bad-timeout", codes.InvalidArgument, false, false},
	{"no-timeout", codes.InvalidArgument, false, false},
	{"bad-action-digest", anyError, false, false},
	{"get-dir-fails", anyError, false, false},
	{"close-fails", anyError, true, true},
	{"mkdir-root-fails", anyError, true, false},
	{"enter-root-fails", anyError, true, false},
	{"bad-input-root-digest", anyError, true, false},
	{"missing-input-root", codes.NotFound, true, false},
	{"bad-command-digest", anyError, true, false},
	{"missing-command", codes.NotFound, true, false},
	{"bad-output-path", anyError, true, false},
	{"output-parent-is-file", anyError, true, false},
	{"mkdir-tmp-fails", anyError, true, false},
	{"mkdir-server-logs-fails", anyError, true, false},
	{"runner-error", codes.Internal, true, true},
	{"cancelled", codes.Canceled, true, true},
	{"io-error", codes.Internal, true, true},
	{"upload-stdout-fails", anyError, true, true},
	{"upload-server-log-fails", anyError, true, true},
	{"upload-stderr-fails", anyError, true, true},
	{"upload-output-fails", anyError, true, true},
	// only with character devices configured:
	{"mkdir-dev-fails", anyError, true, false},
	{"enter-dev-fails", anyError, true, false},
	{"mknod-fails", anyError, true, false},
}

var readinessArms = []arm{
	{"ready-ok", codes.OK, true, true},
	{"ready-runner-fails", codes.Unavailable, true, true},
	{"ready-get-dir-fails", anyError, false, false},
	{"ready-mkdir-fails", anyError, true, false},
}

type armsCfg struct {
	Case        int  `json:"case"`
	Executors   int  `json:"executors"`
	RealCleaner bool `json:"real_directory_cleaner"`
	CharDevices bool `json:"character_devices"`
}

func canMknod() bool {
	dir, err := os.MkdirTemp("", "verif-c12-mknod-")
	if err != nil {
		return false
	}
	defer os.RemoveAll(dir)
	return unix.Mknod(filepath.Join(dir, "null"), unix.S_IFCHR|0o666, int(unix.Mkdev(1, 3))) == nil
}

func executorArms(r *ev.Run, cfg armsCfg) {
	r.Case("executor-arms %+v", cfg)
	st, err := newStack(r, stackCfg{Case: cfg.Case, Mode: "executor", RealCleaner: cfg.RealCleaner, DirFaultAt: -1, CleanFaultAt: -1}, scn{"executor-arms", cfg})
	if err != nil {
		r.Inconclusive("cannot set up temp dir: %v", err)
		return
	}
	mknodWorks := !cfg.CharDevices || canMknod()

	type running struct {
		arm     string
		id      int
		reached bool
		release chan struct{}
	}
	var rmu sync.Mutex
	byAction := map[string]*running{}
	failPut := map[string]bool{}
	st.store.Hook = func(op string, d digest.Digest) error {
		if op != "Put" {
			return nil
		}
		rmu.Lock()
		defer rmu.Unlock()
		if failPut[d.GetKey(digest.KeyWithoutInstance)] {
			return status.Error(codes.Internal, "scripted storage failure")
		}
		return nil
	}
	readyFail := map[string]bool{}
	run := &wexec.Runner{
		RunFunc: func(ctx context.Context, req *runner_pb.RunRequest) (*runner_pb.RunResponse, error) {
			rmu.Lock()
			ru := byAction[req.Arguments[0]]
			ru.reached = true
			rmu.Unlock()
			root := filepath.Join(st.dir, req.InputRootDirectory)
			for _, p := range []string{root, filepath.Join(st.dir, req.TemporaryDirectory), filepath.Join(st.dir, req.ServerLogsDirectory)} {
				if fi, err := os.Stat(p); err != nil || !fi.IsDir() {
					st.violation("runner-sees-incomplete-build-directory", fmt.Sprintf("%s: %v", p, err))
				}
			}
			want := []string{"nested"}
			if cfg.CharDevices {
				want = []string{"dev", "nested"}
				if fi, err := os.Lstat(filepath.Join(root, "dev", "null")); err != nil || fi.Mode()&os.ModeCharDevice == 0 {
					st.violation("character-device-missing-in-input-root", fmt.Sprintf("%v", err))
				}
			}
			var have []string
			ents, _ := os.ReadDir(root)
			for _, e := range ents {
				have = append(have, e.Name())
			}
			if strings.Join(have, ",") != strings.Join(want, ",") {
				st.violation("input-root-not-as-requested-at-start", fmt.Sprintf("input root of %s contains %v, expected %v", req.Arguments[0], have, want))
			}
			if req.EnvironmentVariables["FROM_WORKER"] != "w" || req.EnvironmentVariables["SHARED"] != "command" || req.EnvironmentVariables["FROM_COMMAND"] != "c" {
				st.violation("runner-environment-wrong", fmt.Sprintf("%v", req.EnvironmentVariables))
			}
			st.m.duringUse("runner")
			os.WriteFile(filepath.Join(st.dir, req.StdoutPath), []byte("out of "+req.Arguments[0]), 0o644)
			os.WriteFile(filepath.Join(st.dir, req.StderrPath), []byte("err of "+req.Arguments[0]), 0o644)
			os.WriteFile(filepath.Join(root, "output"), []byte("data of "+req.Arguments[0]), 0o644)
			os.MkdirAll(filepath.Join(st.dir, req.TemporaryDirectory, "scratch", "deep"), 0o755)
			os.MkdirAll(filepath.Join(st.dir, req.ServerLogsDirectory, "sub"), 0o755)
			os.WriteFile(filepath.Join(st.dir, req.ServerLogsDirectory, "log"), []byte("log of "+req.Arguments[0]), 0o644)
			os.WriteFile(filepath.Join(st.dir, req.ServerLogsDirectory, "sub", "more"), []byte("more"), 0o644)
			switch ru.arm {
			case "runner-error":
				return nil, status.Error(codes.Internal, "scripted runner failure")
			case "cancelled":
				close(ru.release)
				<-ctx.Done()
				return nil, wexec.ContextError(ctx)
			case "io-error":
				st.mu.Lock()
				el := st.loggers[ru.id]
				st.mu.Unlock()
				if el == nil {
					st.violation("io-error-hook-not-installed", "the executor did not install an error logger on the build directory")
					return nil, status.Error(codes.Internal, "no hook")
				}
				el.Log(status.Error(codes.Internal, "scripted file system failure"))
				el.Log(status.Error(codes.DataLoss, "a second failure that must not replace the first"))
				select {
				case <-ctx.Done():
				case <-time.After(watchdog):
					st.violation("io-error-does-not-stop-the-action", "the run context was not cancelled after an I/O error was logged")
				}
				return nil, wexec.ContextError(ctx)
			}
			return &runner_pb.RunResponse{ExitCode: 0}, nil
		},
		ReadyFunc: func(ctx context.Context, req *runner_pb.CheckReadinessRequest) error {
			if fi, err := os.Stat(filepath.Join(st.dir, req.Path)); err != nil || !fi.IsDir() {
				st.violation("readiness-directory-missing", fmt.Sprintf("%s: %v", req.Path, err))
			}
			st.m.duringUse("readiness")
			id, _ := ctx.Value(actionKey{}).(int)
			rmu.Lock()
			fail := readyFail[fmt.Sprint(id)]
			byAction[fmt.Sprintf("ready-%d", id)].reached = true
			rmu.Unlock()
			if fail {
				return status.Error(codes.Unavailable, "runner not ready")
			}
			return nil
		},
	}
	var devices map[path.Component]filesystem.DeviceNumber
	if cfg.CharDevices {
		devices = map[path.Component]filesystem.DeviceNumber{path.MustNewComponent("null"): filesystem.NewDeviceNumberFromMajorMinor(1, 3)}
	}
	executor := builder.NewLocalBuildExecutor(st.store, st, run, vclock.New(1000), time.Hour, devices, 1<<20, map[string]string{"FROM_WORKER": "w", "SHARED": "worker"}, false)
	emptyRoot := st.store.PutProto(&remoteexecution.Directory{})
	fileBlob := st.store.PutBytes([]byte("x"))
	rootWithFile := st.store.PutProto(&remoteexecution.Directory{Files: []*remoteexecution.FileNode{{Name: "nested", Digest: fileBlob.GetProto()}}})

	judge := func(a arm, id int, key, label string, code codes.Code, msg string) {
		st.logf("%s (%s) ends with %v %q", label, a.name, code, msg)
		want, runs, getsDir := a.want, a.runs, a.getsDir
		if cfg.CharDevices && !mknodWorks && a.runs && !strings.HasPrefix(a.name, "ready") {
			// Character devices cannot be created here: every action that
			// gets that far fails there, before the runner.
			want, runs = anyError, false
		}
		switch {
		case want == anyError && code == codes.OK:
			st.violation("executor-failure-not-reported arm="+a.name, fmt.Sprintf("%s: response status is OK although %s was injected", label, a.name))
		case want != anyError && code != want:
			st.violation("executor-outcome-unexpected arm="+a.name, fmt.Sprintf("%s: status %v %q, expected %v", label, code, msg, want))
		}
		if a.name == "io-error" && mknodWorks && !strings.Contains(msg, "scripted file system failure") {
			st.violation("io-error-not-reported-first", fmt.Sprintf("%s: %q", label, msg))
		}
		st.mu.Lock()
		handed := st.handed[id]
		stillLive := ""
		for name, owner := range st.live {
			if owner == id {
				stillLive = name
			}
		}
		st.mu.Unlock()
		rmu.Lock()
		reached := byAction[key].reached
		rmu.Unlock()
		if stillLive != "" {
			st.violation("action-ended-without-closing-its-build-directory arm="+a.name, fmt.Sprintf("%s returned while directory %q is still open", label, stillLive))
		}
		if (handed > 0) != getsDir || handed > 1 {
			st.violation("build-directory-acquisition-unexpected arm="+a.name, fmt.Sprintf("%s: %d build directories were handed out, expected one=%v", label, handed, getsDir))
		}
		if reached != runs {
			st.violation("runner-invocation-unexpected arm="+a.name, fmt.Sprintf("%s: runner invoked=%v, expected %v", label, reached, runs))
		}
		st.r.Situation("executor-arm-" + a.name)
	}

	var wg sync.WaitGroup
	for e := 0; e < cfg.Executors; e++ {
		wg.Add(1)
		go func(e int) {
			defer wg.Done()
			rng := r.Rand(70, uint64(cfg.Case), uint64(e))
			order := rng.Perm(len(executeArms) + len(readinessArms))
			for i, k := range order {
				id := e*1000 + i
				if k >= len(executeArms) {
					a := readinessArms[k-len(executeArms)]
					key := fmt.Sprintf("ready-%d", id)
					rmu.Lock()
					byAction[key] = &running{arm: a.name, id: id}
					readyFail[fmt.Sprint(id)] = a.name == "ready-runner-fails"
					rmu.Unlock()
					st.mu.Lock()
					switch a.name {
					case "ready-get-dir-fails":
						st.actionFault[id] = "get-dir"
					case "ready-mkdir-fails":
						st.actionFault[id] = "mkdir:check_readiness"
					}
					st.mu.Unlock()
					err := executor.CheckReadiness(context.WithValue(context.Background(), actionKey{}, id))
					judge(a, id, key, key, status.Code(err), fmt.Sprint(err))
					continue
				}
				a := executeArms[k]
				if strings.Contains(a.name, "dev-fails") || a.name == "mknod-fails" {
					if !cfg.CharDevices {
						continue
					}
				}
				name := fmt.Sprintf("c%d-e%d-a%d", cfg.Case, e, i)
				cmd := &remoteexecution.Command{
					Arguments:            []string{name},
					OutputPaths:          []string{"output", "nested/dir/out"},
					EnvironmentVariables: []*remoteexecution.Command_EnvironmentVariable{{Name: "SHARED", Value: "command"}, {Name: "FROM_COMMAND", Value: "c"}},
				}
				if a.name == "bad-output-path" {
					cmd.OutputPaths = []string{"../../outside"}
				}
				action := &remoteexecution.Action{
					CommandDigest:   st.store.PutProto(cmd).GetProto(),
					InputRootDigest: emptyRoot.GetProto(),
					Timeout:         durationpb.New(time.Hour),
					DoNotCache:      (e+i)%2 == 0,
					// The salt keeps the actions of concurrently running
					// executors distinct even on arms that replace the
					// command digest: two equal cacheable actions at once
					// legitimately collide on the digest-named directory.
					Salt: []byte(name),
				}
				request := &remoteworker.DesiredState_Executing{Action: action}
				fault := ""
				switch a.name {
				case "no-action":
					request.Action = nil
				case "bad-timeout":
					action.Timeout = &durationpb.Duration{Seconds: 5, Nanos: -7}
				case "no-timeout":
					action.Timeout = nil
				case "get-dir-fails":
					fault = "get-dir"
				case "close-fails":
					fault = "close"
				case "mkdir-root-fails":
					fault = "mkdir:root"
				case "enter-root-fails":
					fault = "enter:root"
				case "mkdir-tmp-fails":
					fault = "mkdir:tmp"
				case "mkdir-server-logs-fails":
					fault = "mkdir:server_logs"
				case "mkdir-dev-fails":
					fault = "mkdir:dev"
				case "enter-dev-fails":
					fault = "enter:dev"
				case "mknod-fails":
					fault = "mknod:null"
				case "upload-stderr-fails":
					rmu.Lock()
					failPut[wexec.DigestOf([]byte("err of "+name)).GetKey(digest.KeyWithoutInstance)] = true
					rmu.Unlock()
				case "upload-output-fails":
					rmu.Lock()
					failPut[wexec.DigestOf([]byte("data of "+name)).GetKey(digest.KeyWithoutInstance)] = true
					rmu.Unlock()
				case "bad-input-root-digest":
					action.InputRootDigest = &remoteexecution.Digest{Hash: "zz", SizeBytes: 1}
				case "missing-input-root":
					action.InputRootDigest = wexec.DigestOf([]byte("absent root " + name)).GetProto()
				case "bad-command-digest":
					action.CommandDigest = &remoteexecution.Digest{Hash: "zz", SizeBytes: 1}
				case "missing-command":
					action.CommandDigest = wexec.DigestOf([]byte("absent " + name)).GetProto()
				case "output-parent-is-file":
					action.InputRootDigest = rootWithFile.GetProto()
				case "upload-stdout-fails":
					rmu.Lock()
					failPut[wexec.DigestOf([]byte("out of "+name)).GetKey(digest.KeyWithoutInstance)] = true
					rmu.Unlock()
				case "upload-server-log-fails":
					rmu.Lock()
					failPut[wexec.DigestOf([]byte("log of "+name)).GetKey(digest.KeyWithoutInstance)] = true
					rmu.Unlock()
				}
				if request.Action != nil {
					request.ActionDigest = st.store.PutProto(action).GetProto()
				}
				if a.name == "bad-action-digest" {
					request.ActionDigest = &remoteexecution.Digest{Hash: "not a hash", SizeBytes: 3}
				}
				st.mu.Lock()
				if fault != "" {
					st.actionFault[id] = fault
				}
				st.mu.Unlock()
				ctx, cancel := context.WithCancel(context.WithValue(context.Background(), actionKey{}, id))
				ru := &running{arm: a.name, id: id, release: make(chan struct{})}
				rmu.Lock()
				byAction[name] = ru
				rmu.Unlock()
				if a.name == "cancelled" {
					go func() {
						select {
						case <-ru.release:
						case <-ctx.Done():
						}
						cancel()
					}()
				}
				updates := make(chan *remoteworker.CurrentState_Executing, 10)
				go func() {
					for range updates {
					}
				}()
				resp := executor.Execute(ctx, nil, nil, wexec.DigestFunction, request, updates)
				close(updates)
				cancel()
				judge(a, id, name, "execution "+name, codes.Code(resp.GetStatus().GetCode()), resp.GetStatus().GetMessage())
				if a.name == "ok" && mknodWorks {
					if resp.GetResult().GetStdoutDigest() == nil || len(resp.GetServerLogs()) != 2 {
						st.violation("successful-action-result-incomplete", fmt.Sprintf("stdout digest %v, server logs %v", resp.GetResult().GetStdoutDigest(), resp.GetServerLogs()))
					}
				}
			}
		}(e)
	}
	done := make(chan struct{})
	go func() { wg.Wait(); close(done) }()
	select {
	case <-done:
	case <-time.After(3 * watchdog):
		r.Inconclusive("executor-arms case %d did not finish", cfg.Case)
		return
	}
	st.finish(true)
	if cfg.CharDevices {
		if mknodWorks {
			st.r.Situation("character-devices-created")
		} else {
			st.r.Situation("character-device-creation-refused")
		}
	}
	r.Hash(ev.HashOf("executor-arms", cfg.Executors, cfg.RealCleaner, cfg.CharDevices, mknodWorks, st.m.calls.Load()), true)
}
