package c12

import (
	"context"
	"fmt"
	"math/rand/v2"
	"runtime"
	"sync"
	"sync/atomic"
	"time"

	"github.com/anishathalye/porcupine"
	"github.com/buildbarn/bb-remote-execution/pkg/cleaner"
	"github.com/buildbarn/bb-storage/pkg/util"

	"google.golang.org/grpc/codes"
	"google.golang.org/grpc/status"

	"verif/internal/ev"
)

const watchdog = 40 * time.Second

// cleanPlan scripts one invocation of the instrumented cleaner.
type cleanPlan struct {
	Yields   int  `json:"yields"`
	Fail     bool `json:"fail"`
	Block    bool `json:"block"`
	HonorCtx bool `json:"honor_ctx"`
}

type blockedClean struct {
	idx     int
	release chan struct{}
}

type opKey struct{}

// opRec is one call at the boundary of the invoker (or of the clean runner).
type opRec struct {
	Kind   string `json:"kind"`
	Client int    `json:"client"`
	Call   int64  `json:"call"`
	Ret    int64  `json:"ret"`
	Err    string `json:"err,omitempty"`
	// Cleans lists the outcomes ("ok"/"fail: ...") of the cleaner calls made
	// on behalf of this operation, Trace additionally the base calls.
	Cleans    []string `json:"cleans,omitempty"`
	Trace     []string `json:"trace,omitempty"`
	Cancelled bool     `json:"cancelled,omitempty"`

	err      error
	cleanErr []error
	done     chan struct{}
	cancel   context.CancelFunc
}

// monitor carries the overlap counters and the history of one scenario.
type monitor struct {
	r        *ev.Run
	scenario any

	users    atomic.Int64
	cleaning atomic.Int64
	calls    atomic.Int64
	tick     atomic.Int64
	planFn   func(idx int) cleanPlan
	inner    cleaner.Cleaner // optional real cleaner run inside the instrumented one
	blocked  chan *blockedClean

	mu   sync.Mutex
	ops  []*opRec
	vios int
}

// scn tags a scenario configuration with its kind, so that a witness can be
// replayed.
type scn struct {
	Type string `json:"type"`
	Cfg  any    `json:"cfg"`
}

func newMonitor(r *ev.Run, scenario any, planFn func(int) cleanPlan) *monitor {
	return &monitor{r: r, scenario: scenario, planFn: planFn, blocked: make(chan *blockedClean, 64)}
}

func (m *monitor) violation(sig, detail string) {
	m.mu.Lock()
	m.vios++
	ops := make([]opRec, 0, len(m.ops))
	for _, o := range m.ops {
		select {
		case <-o.done:
			ops = append(ops, *o)
		default:
			ops = append(ops, opRec{Kind: o.Kind, Client: o.Client, Call: o.Call, Ret: -1})
		}
	}
	m.mu.Unlock()
	if len(ops) > 200 {
		ops = ops[len(ops)-200:]
	}
	m.r.Violation("C12 "+sig, detail, map[string]any{"scenario": m.scenario, "detail": detail, "history": ops})
}

func (m *monitor) checkInsideCleaner(where string, n int64) {
	if u := m.users.Load(); u != 0 {
		m.violation("cleaner-runs-while-action-running at="+where, fmt.Sprintf("cleaner active (%s) while %d user(s) hold the environment", where, u))
	}
	if n != 1 {
		m.violation("two-cleaners-overlap at="+where, fmt.Sprintf("%d cleaner calls active at once (%s)", n, where))
	}
}

// clean is the instrumented cleaner.Cleaner.
func (m *monitor) clean(ctx context.Context) error {
	op, _ := ctx.Value(opKey{}).(*opRec)
	idx := int(m.calls.Add(1)) - 1
	n := m.cleaning.Add(1)
	m.checkInsideCleaner("entry", n)
	plan := m.planFn(idx)
	var err error
	if m.inner != nil {
		err = m.inner(ctx)
	}
	for i := 0; i < plan.Yields; i++ {
		runtime.Gosched()
		m.checkInsideCleaner("middle", m.cleaning.Load())
	}
	if plan.Block {
		b := &blockedClean{idx: idx, release: make(chan struct{})}
		m.blocked <- b
		if plan.HonorCtx {
			select {
			case <-b.release:
			case <-ctx.Done():
			}
		} else {
			<-b.release
		}
		m.checkInsideCleaner("after-gate", m.cleaning.Load())
	}
	if plan.Fail {
		err = status.Errorf(codes.Internal, "scripted failure of clean #%d", idx)
	}
	if plan.HonorCtx && ctx.Err() != nil {
		err = util.StatusFromContext(ctx)
	}
	m.checkInsideCleaner("exit", m.cleaning.Load())
	if op != nil {
		if err != nil {
			op.Cleans = append(op.Cleans, "fail: "+err.Error())
			op.Trace = append(op.Trace, "clean:fail")
		} else {
			op.Cleans = append(op.Cleans, "ok")
			op.Trace = append(op.Trace, "clean:ok")
		}
		op.cleanErr = append(op.cleanErr, err)
	}
	m.cleaning.Add(-1)
	return err
}

func (m *monitor) begin(kind string, client int) (*opRec, context.Context) {
	op := &opRec{Kind: kind, Client: client, done: make(chan struct{})}
	ctx, cancel := context.WithCancel(context.WithValue(context.Background(), opKey{}, op))
	op.cancel = cancel
	m.mu.Lock()
	m.ops = append(m.ops, op)
	m.mu.Unlock()
	op.Call = m.tick.Add(1)
	return op, ctx
}

func (m *monitor) end(op *opRec, err error) {
	op.err = err
	if err != nil {
		op.Err = err.Error()
	}
	op.Ret = m.tick.Add(1)
	close(op.done)
}

// enterUse / leaveUse bracket the time an action holds the environment.
func (m *monitor) enterUse(where string) {
	m.users.Add(1)
	if c := m.cleaning.Load(); c != 0 {
		m.violation("action-running-while-cleaner-runs at="+where, fmt.Sprintf("an action holds the environment while %d cleaner call(s) are active", c))
	}
}

func (m *monitor) duringUse(where string) {
	if c := m.cleaning.Load(); c != 0 {
		m.violation("action-running-while-cleaner-runs at="+where, fmt.Sprintf("an action holds the environment while %d cleaner call(s) are active", c))
	}
}

func (m *monitor) leaveUse() { m.users.Add(-1) }

// acquire calls Acquire and judges its outcome; it returns whether the
// caller now holds the invoker.
func (m *monitor) acquire(inv *cleaner.IdleInvoker, op *opRec, ctx context.Context) bool {
	err := inv.Acquire(ctx)
	cancelled := ctx.Err() != nil
	op.Cancelled = cancelled
	cleanFailed := len(op.cleanErr) > 0 && op.cleanErr[0] != nil
	switch {
	case err == nil && cleanFailed:
		m.violation("acquired-although-cleaning-failed", fmt.Sprintf("Acquire returned nil although its cleaner call failed: %v", op.cleanErr[0]))
	case err != nil && !cleanFailed && !cancelled:
		m.violation("acquire-failed-without-cause", fmt.Sprintf("Acquire returned %v although its context was not cancelled and no cleaner call of its own failed (cleans=%v)", err, op.Cleans))
	case err != nil && len(op.cleanErr) == 0 && status.Code(err) != codes.Canceled:
		m.violation("acquire-failed-with-foreign-error", fmt.Sprintf("Acquire returned %v without having cleaned", err))
	}
	if len(op.cleanErr) > 1 {
		m.violation("acquire-cleaned-twice", fmt.Sprintf("one Acquire call invoked the cleaner %d times", len(op.cleanErr)))
	}
	if err == nil {
		m.enterUse("after-acquire")
	}
	m.end(op, err)
	return err == nil
}

func (m *monitor) release(inv *cleaner.IdleInvoker, op *opRec, ctx context.Context) {
	m.leaveUse()
	err := inv.Release(ctx)
	if len(op.cleanErr) > 1 {
		m.violation("release-cleaned-twice", fmt.Sprintf("one Release call invoked the cleaner %d times", len(op.cleanErr)))
	}
	m.end(op, err)
}

// ---------------------------------------------------------------------
// porcupine model of the invoker: a use counter; the cleaner runs exactly at
// the 0->1 attempt and at the 1->0 transition.

type invIn struct{ acquire bool }
type invOut struct{ ok, cleaned, cleanFailed bool }

var invokerModel = porcupine.Model{
	Init: func() interface{} { return 0 },
	Step: func(state, input, output interface{}) (bool, interface{}) {
		count := state.(int)
		in, out := input.(invIn), output.(invOut)
		if in.acquire {
			if !out.cleaned {
				if out.ok {
					return count > 0, count + 1
				}
				return true, count // gave up while waiting
			}
			if count != 0 {
				return false, count
			}
			if out.cleanFailed {
				return !out.ok, 0
			}
			return out.ok, 1
		}
		if count == 0 {
			return false, count
		}
		return out.cleaned == (count == 1), count - 1
	},
	DescribeOperation: func(input, output interface{}) string {
		return fmt.Sprintf("%+v -> %+v", input, output)
	},
}

// checkLinearizable runs porcupine on the completed acquire/release calls.
func (m *monitor) checkLinearizable() {
	m.mu.Lock()
	var hist []porcupine.Operation
	for _, o := range m.ops {
		select {
		case <-o.done:
		default:
			continue
		}
		if o.Kind != "acquire" && o.Kind != "release" {
			continue
		}
		out := invOut{ok: o.err == nil, cleaned: len(o.cleanErr) > 0}
		if out.cleaned {
			out.cleanFailed = o.cleanErr[0] != nil
		}
		hist = append(hist, porcupine.Operation{ClientId: o.Client, Input: invIn{acquire: o.Kind == "acquire"}, Call: o.Call, Output: out, Return: o.Ret})
	}
	m.mu.Unlock()
	m.r.Count("porcupine_operations", len(hist))
	switch porcupine.CheckOperationsTimeout(invokerModel, hist, 20*time.Second) {
	case porcupine.Illegal:
		m.violation("invoker-history-not-linearizable", "no sequential order of the Acquire/Release calls explains where the cleaner ran (cleaner must run exactly at 0->1 attempts and 1->0 transitions)")
	case porcupine.Unknown:
		m.r.Inconclusive("porcupine timed out on a history of %d operations", len(hist))
	}
}

// probeIdle checks at a quiescent point that nobody holds the invoker any
// more: the next Acquire has to clean.
func (m *monitor) probeIdle(inv *cleaner.IdleInvoker, where string) {
	op, ctx := m.begin("acquire", 99)
	before := m.calls.Load()
	if m.acquire(inv, op, ctx) {
		if m.calls.Load() == before {
			m.violation("invoker-still-held-after-all-users-left where="+where, "a probing Acquire at a quiescent point did not clean: some user was never released")
		}
		op2, ctx2 := m.begin("release", 99)
		m.release(inv, op2, ctx2)
		if len(op2.cleanErr) == 0 {
			m.violation("invoker-still-held-after-all-users-left where="+where, "the Release of the probing Acquire did not clean: some user was never released")
		}
	}
}

// ---------------------------------------------------------------------
// Stress rounds.

type stressCfg struct {
	Round      int  `json:"round"`
	Goroutines int  `json:"goroutines"`
	OpsEach    int  `json:"ops_each"`
	FailPct    int  `json:"fail_pct"`
	CancelPct  int  `json:"cancel_pct"`
	Procs      int  `json:"gomaxprocs"`
	Porcupine  bool `json:"porcupine"`
}

func stressRound(r *ev.Run, cfg stressCfg) {
	r.Case("invoker-stress %+v", cfg)
	prev := runtime.GOMAXPROCS(cfg.Procs)
	defer runtime.GOMAXPROCS(prev)
	var planMu sync.Mutex
	prng := r.Rand(21, uint64(cfg.Round))
	m := newMonitor(r, scn{"invoker-stress", cfg}, func(idx int) cleanPlan {
		planMu.Lock()
		defer planMu.Unlock()
		return cleanPlan{Yields: prng.IntN(12), Fail: prng.IntN(100) < cfg.FailPct, HonorCtx: prng.IntN(4) == 0}
	})
	inv := cleaner.NewIdleInvoker(m.clean)
	var wg sync.WaitGroup
	var acqFail, relFail, cancels atomic.Int64
	for g := 0; g < cfg.Goroutines; g++ {
		wg.Add(1)
		go func(g int) {
			defer wg.Done()
			rng := r.Rand(22, uint64(cfg.Round), uint64(g))
			for i := 0; i < cfg.OpsEach; i++ {
				op, ctx := m.begin("acquire", g)
				var cwg sync.WaitGroup
				if rng.IntN(100) < cfg.CancelPct {
					cwg.Add(1)
					yields := rng.IntN(30)
					go func() {
						defer cwg.Done()
						for y := 0; y < yields; y++ {
							runtime.Gosched()
						}
						op.cancel()
					}()
				}
				held := m.acquire(inv, op, ctx)
				cwg.Wait()
				if !held {
					if op.Cancelled && len(op.cleanErr) == 0 {
						cancels.Add(1)
					} else {
						acqFail.Add(1)
					}
					continue
				}
				for y := rng.IntN(8); y > 0; y-- {
					runtime.Gosched()
					m.duringUse("use")
				}
				op2, ctx2 := m.begin("release", g)
				m.release(inv, op2, ctx2)
				if op2.err != nil {
					relFail.Add(1)
				}
				op.cancel()
				op2.cancel()
			}
		}(g)
	}
	done := make(chan struct{})
	go func() { wg.Wait(); close(done) }()
	select {
	case <-done:
	case <-time.After(watchdog):
		buf := make([]byte, 1<<20)
		buf = buf[:runtime.Stack(buf, true)]
		r.Inconclusive("invoker stress round %d did not finish; goroutines:\n%s", cfg.Round, trunc(string(buf), 6000))
		return
	}
	m.planFn = func(int) cleanPlan { return cleanPlan{} }
	m.probeIdle(inv, "stress")
	if cfg.Porcupine {
		m.checkLinearizable()
	}
	if acqFail.Load() > 0 {
		r.SituationN("clean-failure-on-acquire", int(acqFail.Load()))
	}
	if relFail.Load() > 0 {
		r.SituationN("clean-failure-on-release", int(relFail.Load()))
	}
	if cancels.Load() > 0 {
		r.SituationN("waiter-cancelled-during-clean", int(cancels.Load()))
	}
	r.Count("invoker_calls", len(m.ops))
	r.Count("cleaner_calls", int(m.calls.Load()))
	m.mu.Lock()
	parts := make([]any, 0, 3*len(m.ops))
	for _, o := range m.ops {
		parts = append(parts, o.Kind, o.err == nil, len(o.cleanErr))
	}
	m.mu.Unlock()
	r.Hash(ev.HashOf(parts...), acqFail.Load()+relFail.Load()+cancels.Load() > 0)
}

func trunc(s string, n int) string {
	if len(s) > n {
		return s[:n]
	}
	return s
}

// ---------------------------------------------------------------------
// Stepped scenarios with fault enumeration over the cleaner's outcomes.

type scriptStep struct {
	Op     string `json:"op"` // "A" acquire, "R" release
	Thread int    `json:"thread"`
}

type steppedCfg struct {
	Script   int          `json:"script"`
	Steps    []scriptStep `json:"steps"`
	FaultAt  int          `json:"fault_at"` // cleaner call index, -1 none
	Fault    string       `json:"fault"`    // fail, block-ok, block-fail, block-cancel-waiter
	Waiters  int          `json:"waiters"`
	ViaClean string       `json:"via"`
}

func genScript(rng *rand.Rand) []scriptStep {
	var steps []scriptStep
	held := map[int]bool{}
	n := 4 + rng.IntN(9)
	for i := 0; i < n; i++ {
		th := rng.IntN(4)
		if held[th] {
			steps = append(steps, scriptStep{"R", th})
			held[th] = false
		} else {
			steps = append(steps, scriptStep{"A", th})
			held[th] = true
		}
	}
	for th := 0; th < 4; th++ {
		if held[th] {
			steps = append(steps, scriptStep{"R", th})
		}
	}
	return steps
}

// runStepped plays one script; it returns the number of cleaner calls.
func runStepped(r *ev.Run, cfg steppedCfg) int {
	r.Case("invoker-stepped script=%d fault=%s@%d waiters=%d", cfg.Script, cfg.Fault, cfg.FaultAt, cfg.Waiters)
	m := newMonitor(r, scn{"invoker-stepped", cfg}, func(idx int) cleanPlan {
		if idx != cfg.FaultAt {
			return cleanPlan{Yields: idx % 3}
		}
		switch cfg.Fault {
		case "fail":
			return cleanPlan{Fail: true}
		case "block-ok", "block-cancel-waiter":
			return cleanPlan{Block: true}
		case "block-fail":
			return cleanPlan{Block: true, Fail: true}
		}
		return cleanPlan{}
	})
	inv := cleaner.NewIdleInvoker(m.clean)
	held := map[int]*opRec{}
	nontrivial := false
	inconclusive := func(what string) {
		buf := make([]byte, 1<<20)
		buf = buf[:runtime.Stack(buf, true)]
		r.Inconclusive("stepped invoker scenario %+v: %s; goroutines:\n%s", cfg, what, trunc(string(buf), 6000))
	}
	// waitOp waits until op returned; a blocked cleaner is dealt with on
	// the way. false = watchdog.
	var extra []*opRec
	var waitOp func(op *opRec) bool
	handleBlock := func(b *blockedClean, blockedOp *opRec) bool {
		nontrivial = true
		// While the cleaner is held at the gate, other threads try to
		// acquire; they have to wait for the cleaning to finish.
		var waiters []*opRec
		for w := 0; w < cfg.Waiters; w++ {
			op, ctx := m.begin("acquire", 10+w)
			waiters = append(waiters, op)
			go func(op *opRec, ctx context.Context) { m.acquire(inv, op, ctx) }(op, ctx)
		}
		for y := 0; y < 50; y++ {
			runtime.Gosched()
		}
		for _, w := range waiters {
			select {
			case <-w.done:
				if w.err == nil {
					m.violation("acquired-while-cleaner-running", "an Acquire issued while a cleaner call was in flight returned nil before that call finished")
				}
			default:
			}
		}
		if cfg.Fault == "block-cancel-waiter" && len(waiters) > 0 {
			w := waiters[0]
			w.cancel()
			select {
			case <-w.done:
				r.Situation("waiter-cancelled-during-clean")
				if w.err == nil {
					m.violation("cancelled-waiter-acquired", "an Acquire whose context was cancelled while a cleaner call was still in flight returned nil")
				}
			case <-time.After(watchdog):
				inconclusive("cancelled waiter did not return while the cleaner was held")
				close(b.release)
				return false
			}
			waiters = waiters[1:]
		}
		if blockedOp.Kind == "release" && len(waiters) >= 2 {
			r.Situation("acquirers-racing-after-release-clean")
		}
		close(b.release)
		if !waitOp(blockedOp) {
			return false
		}
		for _, w := range waiters {
			if !waitOp(w) {
				return false
			}
			if w.err == nil {
				extra = append(extra, w)
			}
		}
		return true
	}
	waitOp = func(op *opRec) bool {
		for {
			select {
			case <-op.done:
				return true
			case b := <-m.blocked:
				if !handleBlock(b, op) {
					return false
				}
			case <-time.After(watchdog):
				inconclusive("operation did not return")
				return false
			}
		}
	}
	ok := true
	for _, st := range cfg.Steps {
		if !ok {
			break
		}
		switch st.Op {
		case "A":
			if held[st.Thread] != nil {
				continue
			}
			op, ctx := m.begin("acquire", st.Thread)
			go func() { m.acquire(inv, op, ctx) }()
			if ok = waitOp(op); ok && op.err == nil {
				held[st.Thread] = op
			} else if ok {
				r.Situation("clean-failure-on-acquire")
				nontrivial = true
			}
		case "R":
			if held[st.Thread] == nil {
				continue
			}
			held[st.Thread] = nil
			op, ctx := m.begin("release", st.Thread)
			go func() { m.release(inv, op, ctx) }()
			if ok = waitOp(op); ok && op.err != nil {
				r.Situation("clean-failure-on-release")
				nontrivial = true
			}
		}
	}
	if ok {
		for th, h := range held {
			if h != nil {
				op, ctx := m.begin("release", th)
				go func() { m.release(inv, op, ctx) }()
				if !waitOp(op) {
					ok = false
					break
				}
			}
		}
		for _, w := range extra {
			op, ctx := m.begin("release", w.Client)
			go func() { m.release(inv, op, ctx) }()
			if !waitOp(op) {
				ok = false
				break
			}
		}
	}
	calls := int(m.calls.Load())
	if ok {
		m.probeIdle(inv, "stepped")
		m.checkLinearizable()
	}
	m.mu.Lock()
	parts := make([]any, 0, 3*len(m.ops)+2)
	parts = append(parts, cfg.Fault, cfg.FaultAt)
	for _, o := range m.ops {
		parts = append(parts, o.Kind, o.err == nil, len(o.cleanErr))
	}
	if r.WantSample() && nontrivial {
		ops := make([]opRec, 0, len(m.ops))
		for _, o := range m.ops {
			ops = append(ops, *o)
		}
		r.Sample(map[string]any{"scenario": cfg, "history": ops})
	}
	m.mu.Unlock()
	r.Hash(ev.HashOf(parts...), nontrivial)
	r.Count("invoker_calls", len(m.ops))
	r.Count("cleaner_calls", calls)
	return calls
}
