package c14

import (
	"fmt"
	"regexp"
	"runtime"
	"strings"
	"sync"
	"sync/atomic"
	"time"

	"verif/internal/ev"
)

// A round runs a set of worker functions concurrently and decides whether
// they all terminate (hang policy of DESIGN 3.5).
//
// The wall clock is only used to decide WHEN to look; the verdict comes from
// a goroutine dump: a hang is a violation only if every unfinished worker is
// blocked on a mutex (or channel) inside /repo code and no worker of the round
// is runnable, i.e. nothing exists that could ever release them, and this
// picture is unchanged (no progress) across two further looks. Anything else
// that does not finish is inconclusive.

type roundVerdict int

const (
	roundFinished roundVerdict = iota
	roundDeadlocked
	roundStuck // did not finish, but not a provable deadlock
)

var (
	stallBeforeFirstLook = 8 * time.Second
	lookInterval         = 2 * time.Second
	giveUpAfter          = 90 * time.Second
)

const workerMarker = "verif/props/c14.roundWorker"

// roundWorker is the entry point of every worker goroutine; its name is how
// the goroutine dump classifier recognises workers.
//
//go:noinline
func roundWorker(f func(), wg *sync.WaitGroup, finished *atomic.Int64, ids *sync.Map) {
	defer wg.Done()
	defer finished.Add(1)
	ids.Store(curGoroutineID(), true)
	f()
}

func curGoroutineID() string {
	var buf [64]byte
	s := string(buf[:runtime.Stack(buf[:], false)])
	s = strings.TrimPrefix(s, "goroutine ")
	if i := strings.IndexByte(s, ' '); i > 0 {
		return s[:i]
	}
	return "?"
}

type goroutineInfo struct {
	id     string
	header string
	state  string
	stack  string
}

var goroutineHeader = regexp.MustCompile(`^goroutine (\d+) (?:gp=\S+ m=\S+(?: mp=\S+)? )?\[([^\]]*)\]:`)

func parseDump(dump string) []goroutineInfo {
	var out []goroutineInfo
	for _, block := range strings.Split(dump, "\n\n") {
		block = strings.TrimSpace(block)
		first, _, _ := strings.Cut(block, "\n")
		m := goroutineHeader.FindStringSubmatch(first)
		if m == nil {
			continue
		}
		state := m[2]
		if i := strings.Index(state, ","); i >= 0 {
			state = state[:i]
		}
		out = append(out, goroutineInfo{id: m[1], header: first, state: state, stack: block})
	}
	return out
}

// classify inspects the workers of the current round in a goroutine dump.
func classify(dump string, ids *sync.Map) (deadlock bool, blockedIn string, summary string) {
	workers, blocked := 0, 0
	var sites []string
	for _, g := range parseDump(dump) {
		if !strings.Contains(g.stack, workerMarker) {
			continue
		}
		if _, mine := ids.Load(g.id); !mine {
			continue // a worker left behind by an earlier round that hung
		}
		workers++
		inRepo := strings.Contains(g.stack, "github.com/buildbarn/bb-remote-execution/")
		switch g.state {
		case "sync.Mutex.Lock", "sync.RWMutex.Lock", "sync.RWMutex.RLock", "semacquire", "chan receive", "chan send", "select", "sync.Cond.Wait", "sync.WaitGroup.Wait":
			if inRepo {
				blocked++
				sites = append(sites, g.state+" in "+firstRepoFrame(g.stack))
			}
		}
	}
	summary = fmt.Sprintf("%d unfinished workers, %d blocked inside /repo code: %v", workers, blocked, sites)
	if workers > 0 && blocked == workers {
		site := ""
		if len(sites) > 0 {
			site = sites[0]
		}
		return true, site, summary
	}
	return false, "", summary
}

var addrRE = regexp.MustCompile(`\(0x[0-9a-f][^)]*\)|\(\.\.\.\)|\(\{[^)]*\)`)

func firstRepoFrame(stack string) string {
	for _, line := range strings.Split(stack, "\n") {
		if strings.HasPrefix(line, "github.com/buildbarn/bb-remote-execution/") {
			line = strings.TrimPrefix(line, "github.com/buildbarn/bb-remote-execution/")
			if i := strings.Index(line, "("); i > 0 {
				// keep "pkg/x.(*T).Method", drop arguments
				j := strings.LastIndex(line, "(")
				if j > i || !strings.HasPrefix(line[i:], "(*") {
					line = line[:j]
				}
			}
			return addrRE.ReplaceAllString(line, "")
		}
	}
	return "?"
}

func allStacks() string {
	buf := make([]byte, 1<<20)
	for {
		n := runtime.Stack(buf, true)
		if n < len(buf) {
			return string(buf[:n])
		}
		buf = make([]byte, 2*len(buf))
	}
}

// runRound runs the workers and applies the hang policy. progress must be
// incremented by the workers after every completed call.
func runRound(r *ev.Run, name string, witness any, progress *atomic.Int64, workers []func()) roundVerdict {
	var wg sync.WaitGroup
	var finished atomic.Int64
	done := make(chan struct{})
	var ids sync.Map
	for _, w := range workers {
		wg.Add(1)
		go roundWorker(w, &wg, &finished, &ids)
	}
	go func() { wg.Wait(); close(done) }()

	start := time.Now()
	last := progress.Load()
	lastChange := time.Now()
	deadlockLooks := 0
	tick := time.NewTicker(250 * time.Millisecond)
	defer tick.Stop()
	for {
		select {
		case <-done:
			return roundFinished
		case <-tick.C:
		}
		if p := progress.Load(); p != last {
			last, lastChange, deadlockLooks = p, time.Now(), 0
			continue
		}
		stalled := time.Since(lastChange)
		if stalled < stallBeforeFirstLook+time.Duration(deadlockLooks)*lookInterval {
			continue
		}
		dump := allStacks()
		isDeadlock, site, summary := classify(dump, &ids)
		if isDeadlock {
			deadlockLooks++
			if deadlockLooks >= 3 {
				r.Violation("C14 hang round="+name+" blocked="+site,
					fmt.Sprintf("round %s: %d of %d workers finished, no call completed for %v; %s", name, finished.Load(), len(workers), stalled.Round(time.Second), summary),
					map[string]any{"seed": r.Seed(), "round": name, "case": witness, "goroutines": strings.Split(dump, "\n")})
				return roundDeadlocked
			}
			continue
		}
		deadlockLooks = 0
		if time.Since(start) > giveUpAfter && stalled > 30*time.Second {
			r.Inconclusive("round %s did not finish within %v (no progress for %v) but the goroutine dump does not prove a deadlock: %s", name, giveUpAfter, stalled.Round(time.Second), summary)
			return roundStuck
		}
	}
}
