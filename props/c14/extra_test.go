package c14

import (
	"bytes"
	"context"
	"fmt"
	"io"
	"runtime"
	"strings"
	"sync"
	"sync/atomic"
	"time"

	"github.com/buildbarn/bb-remote-execution/pkg/filesystem/pool"
	"github.com/buildbarn/bb-remote-execution/pkg/filesystem/virtual"
	"github.com/buildbarn/bb-storage/pkg/filesystem"
	"github.com/buildbarn/bb-storage/pkg/filesystem/path"
	"github.com/buildbarn/bb-storage/pkg/random"
	nfs "github.com/buildbarn/go-xdr/pkg/protocols/nfsv4"

	"verif/internal/ev"
	"verif/internal/vfsh"
)

// ---- lock-taking entry points no wired tree reaches ---------------------------------

// probeUnwrappedFile drives Link/Unlink of a pool-backed file that is not
// wrapped by a handle allocator (the wrappers keep their own link count and
// never forward Link()).
func probeUnwrappedFile(r *ev.Run, rc *reach) {
	r.Case("unwrapped-file-probe")
	env := vfsh.NewEnv(vfsh.Config{Allocator: "nfs"})
	alloc := virtual.NewPoolBackedFileAllocator(env.Pool, env.Log, vfsh.DefaultAttributesSetter, virtual.NoNamedAttributesFactory)
	leaf, err := alloc.NewFile(pool.ZeroHoleSource, false, 0, 0)
	if err != nil {
		panic(err)
	}
	p := &smallProbe{r: r, rc: rc, pkg: "virtual", probe: func() []string {
		if free, known := virtual.VerifLockProbeLeaf(leaf); known && !free {
			return []string{"file.lock"}
		}
		return nil
	}}
	do := func(name string, f func() string) {
		if !p.dead {
			p.after(name, f())
		}
	}
	do("fileBackedFile.Link", func() string { return vfsh.StatusName(leaf.Link()) })
	do("fileBackedFile.Unlink", func() string { leaf.Unlink(); return "OK" })
	do("fileBackedFile.Unlink(last)", func() string { leaf.Unlink(); return "OK" })
	do("fileBackedFile.Link", func() string { return vfsh.StatusName(leaf.Link()) })
	r.Hash(ev.HashOf("unwrapped-file", len(p.log)), true)
}

// probeHandleAllocators drives every entry point of the NFS handle allocator
// that takes the lock of the handle pool, including the ones only bb_clientd
// style trees use (resolvable allocators, stateless directories), and every
// arm of ResolveHandle.
func probeHandleAllocators(r *ev.Run, rc *reach) {
	r.Case("nfs-handle-allocator-probe")
	a := virtual.NewNFSHandleAllocator(random.NewFastSingleThreadedGenerator())
	dir := vfsh.NewEnv(vfsh.Config{Allocator: "fuse"}).Root
	p := &smallProbe{r: r, rc: rc, pkg: "virtual", probe: func() []string {
		if !virtual.VerifLockProbeNFSHandleAllocator(a) {
			return []string{"nfsHandlePool.lock"}
		}
		return nil
	}}
	ctx := context.Background()
	fhOf := func(n virtual.Node) []byte {
		var at virtual.Attributes
		n.VirtualGetAttributes(ctx, virtual.AttributesMaskFileHandle|virtual.AttributesMaskInodeNumber|virtual.AttributesMaskLinkCount|virtual.AttributesMaskFileType|virtual.AttributesMaskChangeID, &at)
		return append([]byte(nil), at.GetFileHandle()...)
	}
	resolve := func(what string, fh []byte) string {
		_, st := a.ResolveHandle(bytes.NewBuffer(fh))
		s := vfsh.StatusName(st)
		if st == virtual.StatusErrBadHandle {
			s = "EBADHANDLE"
		}
		p.after("ResolveHandle("+what+")", s)
		return s
	}
	special := func() virtual.LinkableLeaf { return virtual.NewSpecialFile(filesystem.FileTypeFIFO, nil) }
	resolved := 0
	var resolvable virtual.ResolvableHandleAllocator
	var resolver virtual.HandleResolver = func(rd io.ByteReader) (virtual.DirectoryChild, virtual.Status) {
		resolved++
		return virtual.DirectoryChild{}.FromLeaf(resolvable.New(virtual.ByteSliceID("id")).AsLeaf(special())), virtual.StatusOK
	}
	resolvable = a.New().AsResolvableAllocator(resolver)
	p.after("AsResolvableAllocator(stateful)", "OK")
	resLeaf := resolvable.New(virtual.ByteSliceID("id")).AsLeaf(special())
	sd := a.New().AsStatelessDirectory(dir)
	p.after("AsStatelessDirectory(stateful)", "OK")
	sa := a.New().AsStatelessAllocator()
	p.after("AsStatelessAllocator(stateful)", "OK")
	sd2 := sa.New(virtual.ByteSliceID("dir")).AsStatelessDirectory(dir)
	p.after("AsStatelessDirectory(stateless)", "OK")
	sd3 := sa.New(virtual.ByteSliceID("dir")).AsStatelessDirectory(dir) // reuse of an existing directory
	p.after("AsStatelessDirectory(stateless, existing)", "OK")
	sa.New(virtual.ByteSliceID("res")).AsResolvableAllocator(resolver)
	p.after("AsResolvableAllocator(stateless)", "OK")
	sl1 := sa.New(virtual.ByteSliceID("leaf")).AsLinkableLeaf(special())
	p.after("AsLinkableLeaf(stateless)", "OK")
	sl2 := sa.New(virtual.ByteSliceID("leaf")).AsLinkableLeaf(special()) // reuse: link count 2
	p.after("AsLinkableLeaf(stateless, existing)", "OK")
	dh := a.New().AsStatefulDirectory(dir)
	p.after("AsStatefulDirectory", "OK")
	var dhAttrs virtual.Attributes
	dh.GetAttributes(virtual.AttributesMaskFileHandle, &dhAttrs)
	stateful := a.New().AsLinkableLeaf(special())
	p.after("AsLinkableLeaf(stateful)", "OK")

	want := func(what, got, want string) {
		if got != want {
			r.Violation("C14 handle-allocator-probe resolve="+what+" want="+want+" got="+got, "ResolveHandle gave an unexpected answer; the probe sequence assumes it", map[string]any{"log": p.log})
		}
	}
	want("stateful directory", resolve("stateful directory", dhAttrs.GetFileHandle()), "OK")
	want("stateless directory", resolve("stateless directory", fhOf(sd)), "OK")
	want("stateless directory", resolve("stateless directory", fhOf(sd2)), "OK")
	_ = sd3
	want("stateful leaf", resolve("stateful leaf", fhOf(stateful)), "OK")
	want("stateless leaf", resolve("stateless leaf", fhOf(sl1)), "OK")
	want("resolvable", resolve("resolvable", fhOf(resLeaf)), "OK")
	want("unknown", resolve("unknown", []byte{1, 2, 3, 4, 5, 6, 7, 8}), "ESTALE")
	want("short", resolve("short", []byte{1, 2, 3}), "EBADHANDLE")
	if resolved == 0 {
		r.Violation("C14 handle-allocator-probe resolver-not-called", "", nil)
	}
	// Link/unlink of both kinds of leaves, down to zero and beyond.
	p.after("nfsStatefulLinkableLeaf.Link", vfsh.StatusName(stateful.Link()))
	stateful.Unlink()
	p.after("nfsStatefulLinkableLeaf.Unlink(links remain)", "OK")
	stateful.Unlink()
	p.after("nfsStatefulLinkableLeaf.Unlink(last)", "OK")
	p.after("nfsStatefulLinkableLeaf.Link", vfsh.StatusName(stateful.Link()))
	want("stateful leaf", resolve("stateful leaf (unlinked)", fhOf(stateful)), "ESTALE")
	p.after("nfsStatelessLinkableLeaf.Link", vfsh.StatusName(sl1.Link()))
	sl1.Unlink()
	p.after("nfsStatelessLinkableLeaf.Unlink(links remain)", "OK")
	sl2.Unlink()
	sl1.Unlink()
	p.after("nfsStatelessLinkableLeaf.Unlink(last)", "OK")
	p.after("nfsStatelessLinkableLeaf.Link", vfsh.StatusName(sl1.Link()))
	want("stateless leaf", resolve("stateless leaf (unlinked)", fhOf(sl1)), "ESTALE")
	dh.Release()
	p.after("nfsStatefulDirectoryHandle.Release", "OK")
	want("stateful directory", resolve("stateful directory (released)", dhAttrs.GetFileHandle()), "ESTALE")
	r.Hash(ev.HashOf("handle-allocator", len(p.log)), true)
}

// ---- gated NFS scenarios: calls that drop the program lock and wait -----------------

type nfsGatedFetcher struct {
	reached chan struct{}
	gate    chan struct{}
	once    sync.Once
}

func (f *nfsGatedFetcher) FetchContents(virtual.FileReadMonitorFactory) (map[path.Component]virtual.InitialChild, error) {
	f.once.Do(func() { close(f.reached) })
	<-f.gate
	return map[path.Component]virtual.InitialChild{}, nil
}
func (f *nfsGatedFetcher) VirtualApply(any) bool { return false }

// waitGoroutine waits until goroutine id is in the given state inside the
// given function (goroutine dump), or done is closed.
func waitGoroutine(id, state, frame string, done <-chan struct{}) bool {
	header := "goroutine " + id + " ["
	buf := make([]byte, 1<<18)
	for start := time.Now(); time.Since(start) < 30*time.Second; {
		select {
		case <-done:
			return false
		default:
		}
		n := runtime.Stack(buf, true)
		if n == len(buf) {
			buf = make([]byte, 2*len(buf))
			continue
		}
		dump := string(buf[:n])
		if i := strings.Index(dump, header); i >= 0 {
			block := dump[i:]
			if j := strings.Index(block, "\n\n"); j >= 0 {
				block = block[:j]
			}
			if strings.HasPrefix(block[len(header):], state) && strings.Contains(block, frame) {
				return true
			}
		}
		time.Sleep(50 * time.Microsecond)
	}
	return false
}

// nfsGatedRound:
//
//	v4.0  OPEN #1 of an open-owner is parked inside VirtualOpenChild (the
//	      directory is being fetched): the transaction is in progress and the
//	      program lock is dropped. OPEN #2 of the SAME open-owner has to wait
//	      for the transaction (waitForCurrentTransactionCompletion: leave,
//	      wait, enter). Meanwhile another client's COMPOUND must get through.
//	v4.1  COMPOUND #1 on a slot is parked inside LOOKUP; an identical
//	      retransmission on the same slot and sequence has to wait for the
//	      original's result (opSequence: leave, wait). Meanwhile a COMPOUND on
//	      another slot must get through.
//
// Then the gate opens and everything has to return; all locks are probed.
func nfsGatedRound(r *ev.Run, rc *reach, i int) roundVerdict {
	minor := uint32(i % 2)
	r.Case("nfs-gated round=%d minor=%d", i, minor)
	w := newNFSWorld(i%4 >= 2)
	fetcher := &nfsGatedFetcher{reached: make(chan struct{}), gate: make(chan struct{})}
	if err := w.env.Root.CreateChildren(map[path.Component]virtual.InitialChild{path.MustNewComponent("lazy"): virtual.InitialChild{}.FromDirectory(fetcher)}, false); err != nil {
		panic(err)
	}
	c := newClient(w, minor, "gated", 2)
	c.register()
	otherClient := newClient(w, minor, "bystander", 1)
	otherClient.register()
	res := c.run(1, putfh(nil), &nfs.NfsArgop4_OP_LOOKUP{Oplookup: nfs.Lookup4args{Objname: "lazy"}}, &nfs.NfsArgop4_OP_GETFH{})
	if res.Status != nfs.NFS4_OK {
		panic("c14: cannot look up the lazy directory: " + statName(res.Status))
	}
	lazyFH := res.Resarray[len(res.Resarray)-1].(*nfs.NfsResop4_OP_GETFH).Opgetfh.(*nfs.Getfh4res_NFS4_OK).Resok4.Object

	var progress atomic.Int64
	var results [2]*nfs.Compound4res
	ids := make(chan string, 2)
	firstDone, secondDone := make(chan struct{}), make(chan struct{})
	openArgs := func(seq uint32) nfs.NfsArgop4 {
		return &nfs.NfsArgop4_OP_OPEN{Opopen: nfs.Open4args{Seqid: seq, ShareAccess: nfs.OPEN4_SHARE_ACCESS_BOTH, ShareDeny: nfs.OPEN4_SHARE_DENY_NONE,
			Owner: nfs.OpenOwner4{Clientid: c.id, Owner: []byte("owner")}, Openhow: &nfs.Openflag4_OPEN4_CREATE{How: &nfs.Createhow4_UNCHECKED4{}}, Claim: &nfs.OpenClaim4_CLAIM_NULL{File: "f"}}}
	}
	seqOp := func(slot, seq uint32) nfs.NfsArgop4 {
		return &nfs.NfsArgop4_OP_SEQUENCE{Opsequence: nfs.Sequence4args{SaSessionid: c.session, SaSequenceid: seq, SaSlotid: slot, SaCachethis: true}}
	}
	call := func(n int) *nfs.Compound4res {
		if minor == 0 {
			// Both OPENs use the open-owner's first seqid values.
			return w.compound(0, putfh(lazyFH), openArgs(uint32(n)))
		}
		return w.compound(1, seqOp(0, c.slotSeq[0]+1), putfh(lazyFH), &nfs.NfsArgop4_OP_LOOKUP{Oplookup: nfs.Lookup4args{Objname: "x"}})
	}
	waitFrame, waitState := "waitForCurrentTransactionCompletion", "chan receive"
	if minor == 1 {
		waitFrame = "opSequence"
	}
	parkedSecond, bystanderOK := false, false
	workers := []func(){
		func() { ids <- "first:" + curGoroutineID(); results[0] = call(0); close(firstDone); progress.Add(1) },
		func() {
			<-fetcher.reached // the first call is parked in the fetcher
			ids <- "second:" + curGoroutineID()
			results[1] = call(1)
			close(secondDone)
			progress.Add(1)
		},
		func() {
			// the driver
			var second string
			for k := 0; k < 2; k++ {
				if id := <-ids; strings.HasPrefix(id, "second:") {
					second = strings.TrimPrefix(id, "second:")
				}
			}
			parkedSecond = waitGoroutine(second, waitState, waitFrame, secondDone)
			progress.Add(1)
			// Somebody else's request must not be held up.
			b := otherClient.run(0, putfh(nil), &nfs.NfsArgop4_OP_GETATTR{Opgetattr: nfs.Getattr4args{AttrRequest: dirAttrRequest}})
			bystanderOK = b.Status == nfs.NFS4_OK
			progress.Add(1)
			close(fetcher.gate)
		},
	}
	v := runRound(r, "nfs-gated", map[string]any{"round": i, "minor": minor}, &progress, workers)
	if v != roundFinished {
		return v
	}
	for n, res := range results {
		rc.add(fmt.Sprintf("nfs4%d.%s(gated call %d)", minor, lastOp(res), n+1), statName(res.Status), 1)
	}
	if parkedSecond {
		r.Situation(fmt.Sprintf("nfs4%d-second-call-waited-for-the-first-with-the-program-lock-dropped", minor))
	}
	if !bystanderOK {
		r.Violation(fmt.Sprintf("C14 nfs-gated bystander-request-failed minor=%d", minor), "a COMPOUND of another client did not succeed while an OPEN/LOOKUP was parked inside the file system", nil)
	}
	if minor == 1 && parkedSecond && (results[0].Status != results[1].Status || len(results[0].Resarray) != len(results[1].Resarray)) {
		r.Violation("C14 nfs-gated in-flight-duplicate-got-another-result", fmt.Sprintf("original %s (%d results), duplicate %s (%d results)", statName(results[0].Status), len(results[0].Resarray), statName(results[1].Status), len(results[1].Resarray)), nil)
	}
	held, _ := w.probe([]virtual.Directory{w.env.Root}, nil)
	if len(held) > 0 {
		r.Violation(leakSig(fmt.Sprintf("nfsv4.%d", minor), "gated-round", "-", lockKind(held)),
			fmt.Sprintf("nfs gated round %d: after all COMPOUNDs returned the following locks are still held: %v", i, held),
			witness{Seed: r.Seed(), Phase: "nfs-gated", Case: i, Held: held})
	}
	r.Hash(ev.HashOf("nfs-gated", i, minor, statName(results[0].Status), statName(results[1].Status), parkedSecond), parkedSecond)
	return v
}
