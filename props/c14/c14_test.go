// Package c14 checks property C14: no call leaves a lock behind and
// concurrent calls never deadlock.
//
//  1. Lock-leak probes (deterministic). Stepped histories with extra weight on
//     error returns are run against the in-memory directory tree, pool-backed
//     files, handle allocators, both NFSv4 programs + OpenedFilesPool, the
//     IdleInvoker, the bitmap sector allocator, LockPile and the scheduler.
//     After EVERY call into the code under test every lock of every object
//     ever seen is probed with TryLock+Unlock (verif-tagged hooks). A held
//     lock at such a quiescent point is a violation naming the function and
//     the status it had just returned; the case is abandoned at once, because
//     any further call on that object would block for ever.
//  2. Termination (concurrent). Stress rounds aimed at lock-order inversions;
//     judged by the hang policy (goroutine dump), followed by the same probes.
//  3. Reach. Every (function, status) pair after which the probes ran is
//     counted and listed in the evidence.
package c14

import (
	"encoding/json"
	"errors"
	"fmt"
	"os"
	"sort"
	"strings"
	"sync"
	"sync/atomic"
	"testing"
	"time"

	"github.com/buildbarn/bb-remote-execution/pkg/filesystem/virtual"

	"verif/internal/ev"
	"verif/internal/vfsh"
)

type witness struct {
	Seed    uint64      `json:"seed"`
	Phase   string      `json:"phase"`
	Case    int         `json:"case"`
	Cfg     string      `json:"cfg,omitempty"`
	Fn      string      `json:"function"`
	Status  string      `json:"status"`
	Held    []string    `json:"held_locks"`
	History []vfsh.Step `json:"history,omitempty"`
	Log     []string    `json:"log,omitempty"`
	// Round is only read back: hang witnesses (watch_test.go) carry the
	// name of the round instead of a phase.
	Round string `json:"round,omitempty"`
}

// reach accumulates fn/status pairs after which probes were executed.
type reach struct {
	mu sync.Mutex
	m  map[string]int
}

func (c *reach) add(fn, status string, n int) {
	c.mu.Lock()
	c.m[fn+"/"+status] += n
	c.mu.Unlock()
}

var errorStatuses = []string{vfsh.EIO, vfsh.ENOENT, vfsh.EEXIST, vfsh.EISDIR, vfsh.ENOTDIR, vfsh.ENOTEMPTY, vfsh.EPERM, vfsh.ESTALE, vfsh.ESYMLINK, vfsh.EFETCH, vfsh.EINVAL, vfsh.EXDEV, "ENXIO"}

func isErrorStatus(s string) bool {
	return s != vfsh.OK && s != "true" && s != "false" && s != "-" && s != "*"
}

// leakSig builds the stable signature of a leaked lock.
func leakSig(pkg, fn, status, lock string) string {
	return fmt.Sprintf("C14 leaked-lock pkg=%s fn=%s status=%s lock=%s", pkg, fn, status, lock)
}

func vfsConfigs() []vfsh.Config {
	var out []vfsh.Config
	for _, ci := range []bool{false, true} {
		for _, hidden := range []bool{false, true} {
			for _, alloc := range []string{"nfs", "fuse"} {
				out = append(out, vfsh.Config{CaseInsensitive: ci, HiddenPattern: hidden, Allocator: alloc})
			}
		}
	}
	return out
}

// probeVFS probes every lock of every object the executor has ever seen.
func probeVFS(x *vfsh.Exec) (held []string, probes int) {
	dh, dn := x.ProbeDirectoryLocks()
	for _, id := range dh {
		held = append(held, fmt.Sprintf("directory(node %d, deleted=%v).lock", id, x.M.Nodes[id].Deleted))
	}
	lh, ln := x.ProbeLeafLocks()
	for _, id := range lh {
		held = append(held, fmt.Sprintf("file(node %d).lock", id))
	}
	probes = dn + ln + 1
	if a := x.Env.NFSAlloc; a != nil {
		if !virtual.VerifLockProbeNFSHandleAllocator(a) {
			held = append(held, "nfsHandlePool.lock")
		}
	}
	if a := x.Env.FUSEAlloc; a != nil {
		if !virtual.VerifLockProbeFUSEHandleAllocator(a) {
			held = append(held, "fuseHandleOptions.removalNotifiersLock")
		}
	}
	return held, probes
}

func lockKind(held []string) string {
	k := held[0]
	if i := strings.Index(k, "("); i > 0 {
		j := strings.Index(k, ")")
		k = k[:i] + k[j+1:]
	}
	return k
}

// runVFSProbeCase runs one stepped history with lock probes after every call.
func runVFSProbeCase(r *ev.Run, rc *reach, i int, progress *atomic.Int64) {
	cfgs := vfsConfigs()
	cfg := cfgs[i%len(cfgs)]
	cfg.Shuffle = (i/len(cfgs))%2 == 1
	rng := r.Rand(14, 1, uint64(i))
	steps := 60 + rng.IntN(200)
	r.Case("vfs-probe case=%d cfg=%s steps=%d", i, cfg, steps)

	env := vfsh.NewEnv(cfg)
	x := vfsh.NewExec(env)
	gen := &vfsh.Gen{M: x.M, R: rng, P: vfsh.Profile{Faults: true, LeafIO: true, Extra: true, MaxDirs: 8, MaxNames: 7}}
	diverged := false
	x.Mismatch = func(rule string, op vfsh.Op, detail string) {
		// Differences with the reference model are property C13's
		// business. The history is abandoned because the generator can
		// no longer predict which paths are reached.
		diverged = true
	}
	probes, leaked := 0, false
	curFn := ""
	// The FUSE removal notifier runs inside the call. The kernel may call
	// back into the file system from there, so no directory lock may be
	// held at that point.
	if cfg.Allocator == "fuse" {
		env.OnRemoval = func(parentIno uint64, name string) {
			if held, _ := x.ProbeDirectoryLocks(); len(held) > 0 && !leaked {
				leaked = true
				r.Violation("C14 removal-notifier-called-with-directory-lock-held fn="+curFn,
					fmt.Sprintf("cfg=%s case=%d: NotifyRemoval(%q) was invoked while the mutex of directory node(s) %v was held", cfg, i, name, held),
					witness{Seed: r.Seed(), Phase: "vfs-probe", Case: i, Cfg: cfg.String(), Fn: curFn, Status: "(in call)", Held: []string{fmt.Sprint(held)}, History: append([]vfsh.Step(nil), x.Hist...)})
			}
			r.Count("removal_notifier_probes", 1)
		}
	}
	x.AfterCall = func(fn, status string) bool {
		progress.Add(1)
		held, n := probeVFS(x)
		probes += n
		if isErrorStatus(status) {
			r.Situation("probed-after-error-return:" + status)
		}
		if len(held) > 0 {
			leaked = true
			h := x.Hist
			if len(h) > 300 {
				h = h[len(h)-300:]
			}
			r.Violation(leakSig("virtual", fn, status, lockKind(held)),
				fmt.Sprintf("cfg=%s case=%d: after %s returned %s the following locks are still held: %v (last operation %s)", cfg, i, fn, status, held, lastVFSOp(x)),
				witness{Seed: r.Seed(), Phase: "vfs-probe", Case: i, Cfg: cfg.String(), Fn: fn, Status: status, Held: held, History: append([]vfsh.Step(nil), h...)})
			return false
		}
		return true
	}
	for s := 0; s < steps && !diverged; s++ {
		op := gen.Next()
		curFn = op.K
		if !x.Do(op) {
			break
		}
	}
	if !diverged && !x.Aborted {
		x.FinalCompare()
	}
	calls := 0
	for k, n := range x.Calls {
		fn, st, _ := strings.Cut(k, "/")
		rc.add("virtual."+fn, st, n)
		calls += n
	}
	r.Count("vfs_probe_calls", calls)
	r.Count("vfs_lock_probes", probes)
	if diverged {
		r.Count("vfs_probe_cases_abandoned_after_model_divergence(C13)", 1)
	}
	errs := 0
	hs := []any{cfg.String()}
	for _, st := range x.Hist {
		hs = append(hs, st.Op.K, st.Got)
		if isErrorStatus(st.Got) {
			errs++
		}
	}
	r.Hash(ev.HashOf(hs...), errs > 0)
	if i < 2 && r.WantSample() {
		h := x.Hist
		if len(h) > 40 {
			h = h[:40]
		}
		r.Sample(map[string]any{"phase": "vfs-probe", "cfg": cfg.String(), "case": i, "history": h})
	}
}

func lastVFSOp(x *vfsh.Exec) string {
	if len(x.Hist) == 0 {
		return "-"
	}
	return x.Hist[len(x.Hist)-1].Op.String()
}

func TestCheck(t *testing.T) {
	r := ev.Start("C14")
	defer r.Finish()
	r.SetRule("probe cases: PRNG(seed,phase,i)-generated stepped histories (VFS: 60-260 operations over <=8 directories in 8 configurations with ~25% of operations aimed at error returns: " +
		"deleted directories, failing InitialContentsFetcher / FileAllocator / symlink factory / pool I/O, stale leaves; NFSv4.0/4.1: scripted and random COMPOUNDs incl. bad state IDs, seqids, lease expiry; " +
		"named attributes (tree wired by virtualBuildDirectory.InstallHooks): the product {NFS, FUSE allocator} x {file, directory owner} x 9 kinds of attribute directory contents x every route that drops the owner x {one, two hard links} x {close before, after the unlink} with PRNG-drawn calls into the attribute directory in between, plus concurrent rounds of owner removal racing calls inside the attribute directories; " +
		"IdleInvoker, sector allocator, LockPile, scheduler: scripted call sequences incl. every error return reachable through the public API; scheduler additionally through the stepped scheduler harness internal/sched with profile C14: calls gated in the authorizer, cancellations, blocking Synchronize/TerminateWorkers, clock advances, queue lock probed at every quiescent point); after every call all locks of all objects ever seen are probed with TryLock; " +
		"stress rounds: 8-24 goroutines x 40-120 calls on <=4 directories with opposite-direction and parent/child renames, removal of directories being entered, bulk removal racing creation, READDIR/LOOKUP with locked attributes, NFS OPEN/CLOSE/I/O racing lease expiry; " +
		"non-trivial = the case probed after at least one error return (probe cases) or overlapped the targeted calls (stress rounds); distinct = hash of (configuration, calls, statuses)")
	r.Assume("a probe is TryLock+Unlock at a quiescent point (no call in flight on the probed objects); a lock found held there can never be released by anyone")
	r.Assume("only the control-flow paths the workloads execute are judged; the (function,status) pairs reached are listed as counters 'reach <pkg>.<fn>/<status>'")
	r.Assume("a hang is a violation only if a goroutine dump shows every unfinished worker blocked inside /repo code on a lock/channel with no runnable worker left, unchanged over three looks; other non-termination is inconclusive")
	r.Assume("scheduler phase: quiescence and the hang verdict (hang:scheduler-goroutines-blocked, scheduler-lock-held-at-quiescence) are those of the shared stepped scheduler harness (internal/sched); divergences it reports for other properties are not C14 verdicts")
	r.Assume("NFSv4.1 in-flight duplicates of one slot/sequence are only issued as one identical retransmission in the gated NFS rounds (their replies are property C19)")
	for _, s := range errorStatuses {
		r.Floor("probed-after-error-return:"+s, 20)
	}

	rc := &reach{m: map[string]int{}}
	defer func() {
		rc.mu.Lock()
		keys := make([]string, 0, len(rc.m))
		for k := range rc.m {
			keys = append(keys, k)
		}
		sort.Strings(keys)
		for _, k := range keys {
			r.Count("reach "+k, rc.m[k])
		}
		rc.mu.Unlock()
	}()

	if rf := r.ReplayFile(); rf != "" {
		var w struct {
			Witness witness `json:"witness"`
		}
		b, err := os.ReadFile(rf)
		if err == nil {
			// Hang witnesses describe their case as an object, not as a
			// number: a type mismatch in one field is not a reason to give up.
			var typeErr *json.UnmarshalTypeError
			if err = json.Unmarshal(b, &w); errors.As(err, &typeErr) {
				err = nil
			}
		}
		if err != nil {
			t.Fatalf("cannot read replay file %s: %v", rf, err)
		}
		for _, s := range errorStatuses {
			r.Floor("probed-after-error-return:"+s, 0)
		}
		replay(r, rc, w.Witness)
		return
	}

	// Phase 1: deterministic lock-leak probes.
	timed(r, "vfs-probe", func() {
		nVFS := r.Pick(320, 6400)
		guardedCases(r, "vfs-probe-case", nVFS, func(i int, progress *atomic.Int64) { runVFSProbeCase(r, rc, i, progress) })
	})
	timed(r, "small-object-probes", func() { runSmallObjectProbes(r, rc) })
	timed(r, "nfs-probe", func() { runNFSProbes(r, rc) })

	// Phase 1b/2b: named attribute directories (stepped cases with the
	// same probes, then concurrent rounds under the hang policy).
	runNamedAttributesPhase(r, rc)

	// Phase 2: termination under concurrency.
	runStress(r, rc)

	// Phase 3: the scheduler, driven through the stepped scheduler harness
	// (internal/sched, profile "C14"): gated KillOperations, cancellations,
	// blocking Synchronize / TerminateWorkers and clock advances; the queue
	// lock is probed at every quiescent point and a call that is still
	// blocked on a mutex after the grace period is a deadlock.
	timed(r, "scheduler-stepped", func() { runSchedulerPhase(r) })
}

// timed records how long a phase took (reporting only; no verdict depends on it).
func timed(r *ev.Run, name string, f func()) {
	t0 := time.Now()
	f()
	r.Count("phase_wall_ms "+name, int(time.Since(t0).Milliseconds()))
}

func replay(r *ev.Run, rc *reach, w witness) {
	if w.Phase == "" && strings.HasPrefix(w.Round, "named-attributes") {
		w.Phase = "named-attributes"
	}
	switch w.Phase {
	case "vfs-probe":
		var progress atomic.Int64
		runVFSProbeCase(r, rc, w.Case, &progress)
	case "named-attributes", "named-attributes-stress":
		// Fully determined by the seed, and short.
		runNamedAttributesPhase(r, rc)
	default:
		// Other phases are short and fully determined by the seed.
		runSmallObjectProbes(r, rc)
		runNFSProbes(r, rc)
		runStress(r, rc)
	}
}

// guardedCases runs stepped cases on 8 workers. A stepped case is single
// threaded, but a call can still block for ever inside the code under test
// (a function that leaves a lock behind and takes it again later in the same
// call). Every case therefore runs under the hang policy as a round of one
// worker; after three hangs the remaining cases are skipped.
func guardedCases(r *ev.Run, name string, n int, f func(i int, progress *atomic.Int64)) {
	var hangs, skipped atomic.Int64
	parallel(8, n, func(i int) {
		if hangs.Load() >= 3 {
			skipped.Add(1)
			return
		}
		var progress atomic.Int64
		if runRound(r, name, map[string]any{"case": i}, &progress, []func(){func() { f(i, &progress) }}) != roundFinished {
			hangs.Add(1)
		}
	})
	if skipped.Load() > 0 {
		r.Count(name+"s_skipped_after_three_hangs", int(skipped.Load()))
	}
}

func parallel(workers, n int, f func(i int)) {
	ch := make(chan int)
	var wg sync.WaitGroup
	for w := 0; w < workers; w++ {
		wg.Add(1)
		go func() {
			defer wg.Done()
			for i := range ch {
				f(i)
			}
		}()
	}
	for i := 0; i < n; i++ {
		ch <- i
	}
	close(ch)
	wg.Wait()
}
