package c14

import (
	"context"
	"fmt"
	"math/rand/v2"
	"strings"
	"sync"
	"sync/atomic"
	"time"

	"github.com/buildbarn/bb-remote-execution/pkg/filesystem/virtual"
	"github.com/buildbarn/bb-remote-execution/pkg/filesystem/virtual/nfsv4"
	"github.com/buildbarn/bb-storage/pkg/filesystem/path"
	"github.com/buildbarn/bb-storage/pkg/random"
	"github.com/buildbarn/go-xdr/pkg/protocols/rpcv2"

	nfs "github.com/buildbarn/go-xdr/pkg/protocols/nfsv4"

	"verif/internal/ev"
	"verif/internal/vfsh"
)

// nfsWorld is one directory tree served by both NFSv4 programs, wired as in
// pkg/filesystem/virtual/configuration.
type nfsWorld struct {
	env  *vfsh.Env
	ofp  *nfsv4.OpenedFilesPool
	prog [2]nfs.Nfs4Program // index = minor version
	ctx  context.Context

	// onCompound, if set, runs after every COMPOUND (lock probes). Once it
	// has set dead, no further COMPOUND reaches the server: a call on an
	// object whose lock was left behind would block for ever.
	onCompound func(minor uint32, res *nfs.Compound4res)
	dead       atomic.Bool
}

const (
	enforcedLease  = 120 * time.Second
	announcedLease = 60 * time.Second
)

func newNFSWorld(caseInsensitive bool) *nfsWorld {
	env := vfsh.NewEnv(vfsh.Config{Allocator: "nfs", CaseInsensitive: caseInsensitive})
	w := &nfsWorld{env: env, ctx: context.Background()}
	w.ofp = nfsv4.NewOpenedFilesPool(env.NFSAlloc.ResolveHandle)
	sec := []nfs.Secinfo4{&nfs.Secinfo4_default{Flavor: rpcv2.AUTH_NONE}}
	w.prog[0] = nfsv4.NewNFS40Program(env.Root, w.ofp, random.NewFastSingleThreadedGenerator(), nfs.Verifier4{1, 2, 3, 4, 5, 6, 7, 8},
		[4]byte{9, 9, 9, 9}, env.Clock, enforcedLease, announcedLease, path.UNIXFormat, sec)
	w.prog[1] = nfsv4.NewNFS41Program(env.Root, w.ofp, nfs.ServerOwner4{SoMinorId: 1, SoMajorId: []byte("verif")}, []byte("scope"),
		&nfs.ChannelAttrs4{CaMaxrequestsize: 1 << 20, CaMaxresponsesize: 1 << 20, CaMaxresponsesizeCached: 1 << 16, CaMaxoperations: 100, CaMaxrequests: 16},
		random.NewFastSingleThreadedGenerator(), nfs.Verifier4{1, 2, 3, 4, 5, 6, 7, 8}, env.Clock, enforcedLease, announcedLease, path.UNIXFormat, sec)
	return w
}

// probe returns the locks of the NFS layer and of everything below it that
// are held right now.
func (w *nfsWorld) probe(dirs []virtual.Directory, leaves []virtual.Leaf) (held []string, probes int) {
	for v, p := range w.prog {
		h, n, _ := nfsv4.VerifLockProbeProgram(p)
		for _, s := range h {
			held = append(held, fmt.Sprintf("nfs4%d:%s", v, s))
		}
		probes += n
	}
	h, n := nfsv4.VerifLockProbeOpenedFilesPool(w.ofp)
	held = append(held, h...)
	probes += n + 1
	if !virtual.VerifLockProbeNFSHandleAllocator(w.env.NFSAlloc) {
		held = append(held, "nfsHandlePool.lock")
	}
	for _, d := range dirs {
		if free, known := virtual.VerifLockProbeDirectory(d); known {
			probes++
			if !free {
				held = append(held, "directory.lock")
			}
		}
	}
	for _, l := range leaves {
		if free, known := virtual.VerifLockProbeLeaf(l); known {
			probes++
			if !free {
				held = append(held, "file.lock")
			}
		}
	}
	return held, probes
}

func (w *nfsWorld) compound(minor uint32, ops ...nfs.NfsArgop4) *nfs.Compound4res {
	if w.dead.Load() {
		return &nfs.Compound4res{Status: nfs.NFS4ERR_DELAY, Tag: "not sent"}
	}
	res, err := w.prog[minor].NfsV4Nfsproc4Compound(w.ctx, &nfs.Compound4args{Tag: "c14", Minorversion: minor, Argarray: ops})
	if err != nil {
		panic("c14: COMPOUND returned a Go error: " + err.Error())
	}
	if w.onCompound != nil {
		w.onCompound(minor, res)
	}
	return res
}

// lastOp names the operation that decided the status of a COMPOUND.
func lastOp(res *nfs.Compound4res) string {
	if len(res.Resarray) == 0 {
		return "COMPOUND"
	}
	return nfs.NfsOpnum4_name[res.Resarray[len(res.Resarray)-1].GetResop()]
}

func statName(s nfs.Nfsstat4) string {
	return strings.TrimPrefix(strings.TrimPrefix(nfs.Nfsstat4_name[s], "NFS4ERR_"), "NFS4_")
}

func putfh(fh []byte) nfs.NfsArgop4 {
	if fh == nil {
		return &nfs.NfsArgop4_OP_PUTROOTFH{}
	}
	return &nfs.NfsArgop4_OP_PUTFH{Opputfh: nfs.Putfh4args{Object: fh}}
}

// openState is what a client remembers about one open file.
type openState struct {
	owner   string
	file    string
	fh      []byte
	stateID nfs.Stateid4
	lockID  *nfs.Stateid4
	lockSeq uint32
	closed  bool
}

// nfsClient is a small client-side protocol model for either minor version.
type nfsClient struct {
	w         *nfsWorld
	minor     uint32
	name      string
	id        uint64
	verifier  byte
	ownerSeq  map[string]uint32 // 4.0 open-owner seqids
	session   [16]byte
	slotSeq   []uint32
	slotMu    []sync.Mutex
	opens     []*openState
	symlinkFH []byte
}

func newClient(w *nfsWorld, minor uint32, name string, slots int) *nfsClient {
	return &nfsClient{w: w, minor: minor, name: name, ownerSeq: map[string]uint32{}, slotSeq: make([]uint32, slots), slotMu: make([]sync.Mutex, slots)}
}

// run executes ops as one COMPOUND (prefixed by SEQUENCE on slot for 4.1).
func (c *nfsClient) run(slot int, ops ...nfs.NfsArgop4) *nfs.Compound4res {
	if c.minor == 0 {
		return c.w.compound(0, ops...)
	}
	c.slotMu[slot].Lock()
	defer c.slotMu[slot].Unlock()
	c.slotSeq[slot]++
	all := append([]nfs.NfsArgop4{&nfs.NfsArgop4_OP_SEQUENCE{Opsequence: nfs.Sequence4args{SaSessionid: c.session, SaSequenceid: c.slotSeq[slot], SaSlotid: uint32(slot), SaHighestSlotid: uint32(len(c.slotSeq) - 1), SaCachethis: true}}}, ops...)
	res := c.w.compound(1, all...)
	if len(res.Resarray) > 0 {
		if s, ok := res.Resarray[0].(*nfs.NfsResop4_OP_SEQUENCE); ok {
			if _, ok := s.Opsequence.(*nfs.Sequence4res_NFS4_OK); !ok {
				// The sequence was not consumed.
				c.slotSeq[slot]--
			}
		}
	}
	return res
}

// register establishes the client (and, for 4.1, a session).
func (c *nfsClient) register() []*nfs.Compound4res {
	c.verifier++
	var out []*nfs.Compound4res
	if c.minor == 0 {
		res := c.w.compound(0, &nfs.NfsArgop4_OP_SETCLIENTID{Opsetclientid: nfs.Setclientid4args{
			Client:   nfs.NfsClientId4{Verifier: nfs.Verifier4{c.verifier}, Id: []byte(c.name)},
			Callback: nfs.CbClient4{CbProgram: 1, CbLocation: nfs.Clientaddr4{NaRNetid: "tcp", NaRAddr: "127.0.0.1.1.1"}},
		}})
		out = append(out, res)
		if res.Status == nfs.NFS4_OK {
			ok := res.Resarray[0].(*nfs.NfsResop4_OP_SETCLIENTID).Opsetclientid.(*nfs.Setclientid4res_NFS4_OK)
			c.id = ok.Resok4.Clientid
			out = append(out, c.w.compound(0, &nfs.NfsArgop4_OP_SETCLIENTID_CONFIRM{OpsetclientidConfirm: nfs.SetclientidConfirm4args{Clientid: c.id, SetclientidConfirm: ok.Resok4.SetclientidConfirm}}))
		}
		c.ownerSeq = map[string]uint32{}
		c.opens = nil
		return out
	}
	res := c.w.compound(1, &nfs.NfsArgop4_OP_EXCHANGE_ID{OpexchangeId: nfs.ExchangeId4args{
		EiaClientowner: nfs.ClientOwner4{CoVerifier: nfs.Verifier4{c.verifier}, CoOwnerid: []byte(c.name)}, EiaStateProtect: &nfs.StateProtect4A_SP4_NONE{}}})
	out = append(out, res)
	if res.Status != nfs.NFS4_OK {
		return out
	}
	ok := res.Resarray[0].(*nfs.NfsResop4_OP_EXCHANGE_ID).OpexchangeId.(*nfs.ExchangeId4res_NFS4_OK)
	c.id = ok.EirResok4.EirClientid
	res = c.w.compound(1, &nfs.NfsArgop4_OP_CREATE_SESSION{OpcreateSession: nfs.CreateSession4args{CsaClientid: c.id, CsaSequence: ok.EirResok4.EirSequenceid,
		CsaForeChanAttrs: nfs.ChannelAttrs4{CaMaxrequestsize: 1 << 20, CaMaxresponsesize: 1 << 20, CaMaxresponsesizeCached: 1 << 16, CaMaxoperations: 64, CaMaxrequests: uint32(len(c.slotSeq))}}})
	out = append(out, res)
	if res.Status == nfs.NFS4_OK {
		c.session = res.Resarray[0].(*nfs.NfsResop4_OP_CREATE_SESSION).OpcreateSession.(*nfs.CreateSession4res_NFS4_OK).CsrResok4.CsrSessionid
		for i := range c.slotSeq {
			c.slotSeq[i] = 0
		}
		out = append(out, c.run(0, &nfs.NfsArgop4_OP_RECLAIM_COMPLETE{OpreclaimComplete: nfs.ReclaimComplete4args{}}))
	}
	c.opens = nil
	return out
}

func sizeZeroAttrs() nfs.Fattr4 {
	return nfs.Fattr4{Attrmask: nfs.Bitmap4{1 << nfs.FATTR4_SIZE}, AttrVals: []byte{0, 0, 0, 0, 0, 0, 0, 0}}
}

// open issues OPEN (CLAIM_NULL) in directory dirFH. mangle: 0 = valid,
// 1 = wrong seqid (4.0), 2 = unknown client id.
func (c *nfsClient) open(slot int, dirFH []byte, owner, file string, create int, access uint32, mangle int) (*nfs.Compound4res, *openState) {
	var how nfs.Openflag4 = &nfs.Openflag4_default{}
	switch create {
	case 1:
		how = &nfs.Openflag4_OPEN4_CREATE{How: &nfs.Createhow4_UNCHECKED4{Createattrs: sizeZeroAttrs()}}
	case 2:
		how = &nfs.Openflag4_OPEN4_CREATE{How: &nfs.Createhow4_GUARDED4{Createattrs: nfs.Fattr4{}}}
	}
	seq := c.ownerSeq[owner]
	id := c.id
	switch mangle {
	case 1:
		seq += 7
	case 2:
		id ^= 0x5555
	}
	res := c.run(slot, putfh(dirFH), &nfs.NfsArgop4_OP_OPEN{Opopen: nfs.Open4args{Seqid: seq, ShareAccess: access, ShareDeny: nfs.OPEN4_SHARE_DENY_NONE,
		Owner: nfs.OpenOwner4{Clientid: id, Owner: []byte(owner)}, Openhow: how, Claim: &nfs.OpenClaim4_CLAIM_NULL{File: file}}}, &nfs.NfsArgop4_OP_GETFH{})
	var openRes nfs.Open4res
	for _, r := range res.Resarray {
		if o, ok := r.(*nfs.NfsResop4_OP_OPEN); ok {
			openRes = o.Opopen
		}
	}
	if c.minor == 0 && openRes != nil && mangle == 0 {
		// RFC 7530 9.1.7: the seqid advances unless the error is one of
		// the listed ones.
		switch openRes.GetStatus() {
		case nfs.NFS4ERR_STALE_CLIENTID, nfs.NFS4ERR_STALE_STATEID, nfs.NFS4ERR_BAD_STATEID, nfs.NFS4ERR_BAD_SEQID, nfs.NFS4ERR_BADXDR, nfs.NFS4ERR_RESOURCE, nfs.NFS4ERR_NOFILEHANDLE, nfs.NFS4ERR_MOVED:
		default:
			c.ownerSeq[owner]++
		}
	}
	if res.Status != nfs.NFS4_OK {
		return res, nil
	}
	okRes := openRes.(*nfs.Open4res_NFS4_OK)
	st := &openState{owner: owner, file: file, stateID: okRes.Resok4.Stateid}
	st.fh = res.Resarray[len(res.Resarray)-1].(*nfs.NfsResop4_OP_GETFH).Opgetfh.(*nfs.Getfh4res_NFS4_OK).Resok4.Object
	// The same owner opening the same file again upgrades the existing state.
	for _, o := range c.opens {
		if !o.closed && o.owner == owner && string(o.fh) == string(st.fh) {
			o.stateID = st.stateID
			st = o
		}
	}
	if st.lockID == nil && !contains(c.opens, st) {
		c.opens = append(c.opens, st)
	}
	if c.minor == 0 && okRes.Resok4.Rflags&nfs.OPEN4_RESULT_CONFIRM != 0 {
		cres := c.run(slot, putfh(st.fh), &nfs.NfsArgop4_OP_OPEN_CONFIRM{OpopenConfirm: nfs.OpenConfirm4args{OpenStateid: st.stateID, Seqid: c.ownerSeq[owner]}})
		c.ownerSeq[owner]++
		if cres.Status == nfs.NFS4_OK {
			st.stateID = cres.Resarray[1].(*nfs.NfsResop4_OP_OPEN_CONFIRM).OpopenConfirm.(*nfs.OpenConfirm4res_NFS4_OK).Resok4.OpenStateid
		}
		return cres, st
	}
	return res, st
}

func contains(l []*openState, s *openState) bool {
	for _, x := range l {
		if x == s {
			return true
		}
	}
	return false
}

func mangleStateID(s nfs.Stateid4, how int) nfs.Stateid4 {
	switch how {
	case 1:
		s.Other[11] ^= 0xff
	case 2:
		s.Seqid += 5
	case 3:
		if s.Seqid > 1 {
			s.Seqid--
		}
	}
	return s
}

func (c *nfsClient) ioStateID(st *openState, mangle int) nfs.Stateid4 {
	switch mangle {
	case 4: // anonymous state ID: the server opens the file for the duration of the call
		return nfs.Stateid4{}
	case 5: // READ bypass state ID
		s := nfs.Stateid4{Seqid: 0xffffffff}
		for i := range s.Other {
			s.Other[i] = 0xff
		}
		return s
	case 6: // the lock state ID of the owner, if it has one
		if st.lockID != nil {
			s := *st.lockID
			if c.minor == 1 {
				s.Seqid = 0
			}
			return s
		}
	}
	s := st.stateID
	if c.minor == 1 {
		// 4.1: seqid zero means "the current one".
		s.Seqid = 0
	}
	return mangleStateID(s, mangle)
}

func (c *nfsClient) write(slot int, st *openState, mangle int) *nfs.Compound4res {
	return c.run(slot, putfh(st.fh), &nfs.NfsArgop4_OP_WRITE{Opwrite: nfs.Write4args{Stateid: c.ioStateID(st, mangle), Offset: 3, Stable: nfs.FILE_SYNC4, Data: []byte("hello world")}})
}

func (c *nfsClient) read(slot int, st *openState, mangle int) *nfs.Compound4res {
	return c.run(slot, putfh(st.fh), &nfs.NfsArgop4_OP_READ{Opread: nfs.Read4args{Stateid: c.ioStateID(st, mangle), Offset: 0, Count: 64}})
}

func (c *nfsClient) setattrSize(slot int, st *openState, size byte) *nfs.Compound4res {
	return c.run(slot, putfh(st.fh), &nfs.NfsArgop4_OP_SETATTR{Opsetattr: nfs.Setattr4args{Stateid: c.ioStateID(st, 0),
		ObjAttributes: nfs.Fattr4{Attrmask: nfs.Bitmap4{1 << nfs.FATTR4_SIZE}, AttrVals: []byte{0, 0, 0, 0, 0, 0, 0, size}}}})
}

func (c *nfsClient) lock(slot int, st *openState, lockType nfs.NfsLockType4, off, length uint64, mangle int) *nfs.Compound4res {
	var locker nfs.Locker4
	if st.lockID == nil {
		locker = &nfs.Locker4_TRUE{OpenOwner: nfs.OpenToLockOwner4{OpenSeqid: c.ownerSeq[st.owner], OpenStateid: mangleStateID(st.stateID, mangle), LockSeqid: 0,
			LockOwner: nfs.LockOwner4{Clientid: c.id, Owner: []byte("lock-" + st.owner)}}}
	} else {
		locker = &nfs.Locker4_FALSE{LockOwner: nfs.ExistLockOwner4{LockStateid: mangleStateID(*st.lockID, mangle), LockSeqid: st.lockSeq}}
	}
	res := c.run(slot, putfh(st.fh), &nfs.NfsArgop4_OP_LOCK{Oplock: nfs.Lock4args{Locktype: lockType, Offset: off, Length: length, Locker: locker}})
	if len(res.Resarray) > 0 {
		if l, ok := res.Resarray[len(res.Resarray)-1].(*nfs.NfsResop4_OP_LOCK); ok {
			switch r := l.Oplock.(type) {
			case *nfs.Lock4res_NFS4_OK:
				if st.lockID == nil && c.minor == 0 {
					c.ownerSeq[st.owner]++
				}
				if st.lockID != nil {
					st.lockSeq++
				} else {
					st.lockSeq = 1
				}
				id := r.Resok4.LockStateid
				st.lockID = &id
			case *nfs.Lock4res_NFS4ERR_DENIED:
				if c.minor == 0 && mangle == 0 {
					if st.lockID == nil {
						c.ownerSeq[st.owner]++
					} else {
						st.lockSeq++
					}
				}
			default:
				if c.minor == 0 && mangle == 0 {
					switch l.Oplock.GetStatus() {
					case nfs.NFS4ERR_STALE_CLIENTID, nfs.NFS4ERR_STALE_STATEID, nfs.NFS4ERR_BAD_STATEID, nfs.NFS4ERR_BAD_SEQID, nfs.NFS4ERR_BADXDR, nfs.NFS4ERR_RESOURCE, nfs.NFS4ERR_NOFILEHANDLE, nfs.NFS4ERR_MOVED, nfs.NFS4ERR_EXPIRED, nfs.NFS4ERR_OLD_STATEID:
					default:
						if st.lockID == nil {
							c.ownerSeq[st.owner]++
						} else {
							st.lockSeq++
						}
					}
				}
			}
		}
	}
	return res
}

func (c *nfsClient) lockt(slot int, st *openState, off, length uint64) *nfs.Compound4res {
	return c.run(slot, putfh(st.fh), &nfs.NfsArgop4_OP_LOCKT{Oplockt: nfs.Lockt4args{Locktype: nfs.WRITE_LT, Offset: off, Length: length, Owner: nfs.LockOwner4{Clientid: c.id, Owner: []byte("lock-" + st.owner)}}})
}

func (c *nfsClient) locku(slot int, st *openState, off, length uint64) *nfs.Compound4res {
	if st.lockID == nil {
		return nil
	}
	res := c.run(slot, putfh(st.fh), &nfs.NfsArgop4_OP_LOCKU{Oplocku: nfs.Locku4args{Locktype: nfs.WRITE_LT, Seqid: st.lockSeq, LockStateid: *st.lockID, Offset: off, Length: length}})
	if res.Status == nfs.NFS4_OK {
		id := res.Resarray[len(res.Resarray)-1].(*nfs.NfsResop4_OP_LOCKU).Oplocku.(*nfs.Locku4res_NFS4_OK).LockStateid
		st.lockID = &id
	}
	if c.minor == 0 && res.Status != nfs.NFS4ERR_BAD_STATEID && res.Status != nfs.NFS4ERR_BAD_SEQID && res.Status != nfs.NFS4ERR_STALE_STATEID && res.Status != nfs.NFS4ERR_EXPIRED && res.Status != nfs.NFS4ERR_OLD_STATEID {
		st.lockSeq++
	}
	return res
}

func (c *nfsClient) close(slot int, st *openState, mangle int) *nfs.Compound4res {
	res := c.run(slot, putfh(st.fh), &nfs.NfsArgop4_OP_CLOSE{Opclose: nfs.Close4args{Seqid: c.ownerSeq[st.owner], OpenStateid: mangleStateID(st.stateID, mangle)}})
	if c.minor == 0 && mangle == 0 {
		switch res.Status {
		case nfs.NFS4ERR_STALE_CLIENTID, nfs.NFS4ERR_STALE_STATEID, nfs.NFS4ERR_BAD_STATEID, nfs.NFS4ERR_BAD_SEQID, nfs.NFS4ERR_EXPIRED, nfs.NFS4ERR_OLD_STATEID:
		default:
			c.ownerSeq[st.owner]++
		}
	}
	if res.Status == nfs.NFS4_OK {
		st.closed = true
	}
	return res
}

func (c *nfsClient) downgrade(slot int, st *openState) *nfs.Compound4res {
	res := c.run(slot, putfh(st.fh), &nfs.NfsArgop4_OP_OPEN_DOWNGRADE{OpopenDowngrade: nfs.OpenDowngrade4args{OpenStateid: st.stateID, Seqid: c.ownerSeq[st.owner], ShareAccess: nfs.OPEN4_SHARE_ACCESS_READ, ShareDeny: nfs.OPEN4_SHARE_DENY_NONE}})
	if c.minor == 0 {
		switch res.Status {
		case nfs.NFS4ERR_STALE_CLIENTID, nfs.NFS4ERR_STALE_STATEID, nfs.NFS4ERR_BAD_STATEID, nfs.NFS4ERR_BAD_SEQID, nfs.NFS4ERR_EXPIRED, nfs.NFS4ERR_OLD_STATEID:
		default:
			c.ownerSeq[st.owner]++
		}
	}
	if res.Status == nfs.NFS4_OK {
		st.stateID = res.Resarray[len(res.Resarray)-1].(*nfs.NfsResop4_OP_OPEN_DOWNGRADE).OpopenDowngrade.(*nfs.OpenDowngrade4res_NFS4_OK).Resok4.OpenStateid
	}
	return res
}

var dirAttrRequest = nfs.Bitmap4{1<<nfs.FATTR4_TYPE | 1<<nfs.FATTR4_CHANGE | 1<<nfs.FATTR4_SIZE | 1<<nfs.FATTR4_FILEID}

// dirOp issues one directory-level COMPOUND against directory dirFH.
func (c *nfsClient) dirOp(slot int, dirFH []byte, rng *rand.Rand, names []string, otherDir []byte) *nfs.Compound4res {
	name := names[rng.IntN(len(names))]
	name2 := names[rng.IntN(len(names))]
	switch rng.IntN(10) {
	case 0:
		return c.run(slot, putfh(dirFH), &nfs.NfsArgop4_OP_CREATE{Opcreate: nfs.Create4args{Objtype: &nfs.Createtype4_NF4DIR{}, Objname: name}})
	case 1:
		res := c.run(slot, putfh(dirFH), &nfs.NfsArgop4_OP_CREATE{Opcreate: nfs.Create4args{Objtype: &nfs.Createtype4_NF4LNK{Linkdata: []byte("target")}, Objname: name}}, &nfs.NfsArgop4_OP_GETFH{})
		if res.Status == nfs.NFS4_OK {
			c.symlinkFH = res.Resarray[len(res.Resarray)-1].(*nfs.NfsResop4_OP_GETFH).Opgetfh.(*nfs.Getfh4res_NFS4_OK).Resok4.Object
		}
		return res
	case 8:
		if c.symlinkFH != nil {
			// The handle of a symbolic link is resolved through the
			// table of stateless leaves (it is stale once every
			// link with that target is gone).
			return c.run(slot, putfh(c.symlinkFH), &nfs.NfsArgop4_OP_READLINK{}, &nfs.NfsArgop4_OP_GETATTR{Opgetattr: nfs.Getattr4args{AttrRequest: dirAttrRequest}})
		}
		return c.run(slot, putfh(dirFH), &nfs.NfsArgop4_OP_GETATTR{Opgetattr: nfs.Getattr4args{AttrRequest: dirAttrRequest}})
	case 2:
		return c.run(slot, putfh(dirFH), &nfs.NfsArgop4_OP_REMOVE{Opremove: nfs.Remove4args{Target: name}})
	case 3:
		return c.run(slot, putfh(dirFH), &nfs.NfsArgop4_OP_SAVEFH{}, putfh(otherDir), &nfs.NfsArgop4_OP_RENAME{Oprename: nfs.Rename4args{Oldname: name, Newname: name2}})
	case 4:
		return c.run(slot, putfh(otherDir), &nfs.NfsArgop4_OP_SAVEFH{}, putfh(dirFH), &nfs.NfsArgop4_OP_RENAME{Oprename: nfs.Rename4args{Oldname: name, Newname: name2}})
	case 5:
		return c.run(slot, putfh(dirFH), &nfs.NfsArgop4_OP_READDIR{Opreaddir: nfs.Readdir4args{Dircount: 4096, Maxcount: 8192, AttrRequest: dirAttrRequest}})
	case 6:
		return c.run(slot, putfh(dirFH), &nfs.NfsArgop4_OP_LOOKUP{Oplookup: nfs.Lookup4args{Objname: name}}, &nfs.NfsArgop4_OP_GETATTR{Opgetattr: nfs.Getattr4args{AttrRequest: dirAttrRequest}})
	case 7:
		return c.run(slot, putfh(dirFH), &nfs.NfsArgop4_OP_LOOKUP{Oplookup: nfs.Lookup4args{Objname: name}}, &nfs.NfsArgop4_OP_SAVEFH{}, putfh(otherDir), &nfs.NfsArgop4_OP_LINK{Oplink: nfs.Link4args{Newname: name2}})
	default:
		return c.run(slot, putfh(dirFH), &nfs.NfsArgop4_OP_LOOKUP{Oplookup: nfs.Lookup4args{Objname: name}}, &nfs.NfsArgop4_OP_LOOKUPP{})
	}
}

// hostile issues one protocol-level oddity whose error return has its own
// unlock path in the server: bad slots, misordered and replayed sequences,
// oversized compounds, unknown sessions and clients, reclaim opens.
func (c *nfsClient) hostile(rng *rand.Rand, dirFH []byte) []*nfs.Compound4res {
	getattr := &nfs.NfsArgop4_OP_GETATTR{Opgetattr: nfs.Getattr4args{AttrRequest: dirAttrRequest}}
	if c.minor == 1 {
		seq := func(session [16]byte, slot, seqid uint32) nfs.NfsArgop4 {
			return &nfs.NfsArgop4_OP_SEQUENCE{Opsequence: nfs.Sequence4args{SaSessionid: session, SaSequenceid: seqid, SaSlotid: slot, SaCachethis: true}}
		}
		switch rng.IntN(10) {
		case 9: // OPEN by file handle (CLAIM_FH) and a reclaim nobody can claim
			live := c.liveOpens()
			if len(live) == 0 {
				return nil
			}
			st := live[rng.IntN(len(live))]
			open := func(owner string, claim nfs.OpenClaim4) *nfs.Compound4res {
				return c.run(0, putfh(st.fh), &nfs.NfsArgop4_OP_OPEN{Opopen: nfs.Open4args{ShareAccess: nfs.OPEN4_SHARE_ACCESS_READ, ShareDeny: nfs.OPEN4_SHARE_DENY_NONE,
					Owner: nfs.OpenOwner4{Clientid: c.id, Owner: []byte(owner)}, Openhow: &nfs.Openflag4_default{}, Claim: claim}})
			}
			res := open(st.owner, &nfs.OpenClaim4_CLAIM_FH{})
			if res.Status == nfs.NFS4_OK {
				if ok, isOK := res.Resarray[len(res.Resarray)-1].(*nfs.NfsResop4_OP_OPEN).Opopen.(*nfs.Open4res_NFS4_OK); isOK {
					st.stateID = ok.Resok4.Stateid
				}
			}
			return []*nfs.Compound4res{res, open("nobody", &nfs.OpenClaim4_CLAIM_PREVIOUS{DelegateType: nfs.OPEN_DELEGATE_NONE})}
		case 7: // BIND_CONN_TO_SESSION, known and unknown session
			bad := c.session
			bad[5] ^= 0xff
			return []*nfs.Compound4res{
				c.w.compound(1, &nfs.NfsArgop4_OP_BIND_CONN_TO_SESSION{OpbindConnToSession: nfs.BindConnToSession4args{BctsaSessid: c.session, BctsaDir: nfs.CDFC4_FORE}}),
				c.w.compound(1, &nfs.NfsArgop4_OP_BIND_CONN_TO_SESSION{OpbindConnToSession: nfs.BindConnToSession4args{BctsaSessid: bad, BctsaDir: nfs.CDFC4_FORE}}),
			}
		case 8: // FREE_STATEID of lock states (with or without locks held) and of an unknown state
			var out []*nfs.Compound4res
			for _, st := range c.liveOpens() {
				if st.lockID != nil {
					res := c.run(0, &nfs.NfsArgop4_OP_FREE_STATEID{OpfreeStateid: nfs.FreeStateid4args{FsaStateid: *st.lockID}})
					if res.Status == nfs.NFS4_OK {
						st.lockID = nil
					}
					out = append(out, res)
					break
				}
			}
			return append(out, c.run(0, &nfs.NfsArgop4_OP_FREE_STATEID{OpfreeStateid: nfs.FreeStateid4args{FsaStateid: nfs.Stateid4{Seqid: 1, Other: [12]byte{9, 9, 9}}}}))
		case 0: // slot outside the session
			return []*nfs.Compound4res{c.w.compound(1, seq(c.session, 99, 1), putfh(nil))}
		case 1: // sequence far ahead
			return []*nfs.Compound4res{c.w.compound(1, seq(c.session, 0, c.slotSeq[0]+2), putfh(nil))}
		case 2: // replay of the last request of the slot (cached reply or false retry)
			return []*nfs.Compound4res{c.w.compound(1, seq(c.session, 0, c.slotSeq[0]), putfh(nil), getattr)}
		case 3: // more operations than the channel allows
			ops := []nfs.NfsArgop4{seq(c.session, 0, c.slotSeq[0]+1)}
			for i := 0; i < 101; i++ {
				ops = append(ops, putfh(nil))
			}
			return []*nfs.Compound4res{c.w.compound(1, ops...)}
		case 4: // unknown session
			bad := c.session
			bad[3] ^= 0xff
			return []*nfs.Compound4res{c.w.compound(1, seq(bad, 0, 1), putfh(nil))}
		case 5: // no SEQUENCE at all
			return []*nfs.Compound4res{c.w.compound(1, putfh(nil), getattr)}
		default: // CREATE_SESSION replay / misordered, unknown client
			return []*nfs.Compound4res{
				c.w.compound(1, &nfs.NfsArgop4_OP_CREATE_SESSION{OpcreateSession: nfs.CreateSession4args{CsaClientid: c.id, CsaSequence: 77}}),
				c.w.compound(1, &nfs.NfsArgop4_OP_CREATE_SESSION{OpcreateSession: nfs.CreateSession4args{CsaClientid: c.id ^ 0x77, CsaSequence: 1}}),
				c.w.compound(1, &nfs.NfsArgop4_OP_DESTROY_CLIENTID{OpdestroyClientid: nfs.DestroyClientid4args{DcaClientid: c.id ^ 0x77}}),
			}
		}
	}
	switch rng.IntN(6) {
	case 0:
		return []*nfs.Compound4res{c.w.compound(0, &nfs.NfsArgop4_OP_SETCLIENTID_CONFIRM{OpsetclientidConfirm: nfs.SetclientidConfirm4args{Clientid: c.id, SetclientidConfirm: nfs.Verifier4{0xde, 0xad}}})}
	case 1:
		return []*nfs.Compound4res{c.w.compound(0, &nfs.NfsArgop4_OP_RENEW{Oprenew: nfs.Renew4args{Clientid: c.id ^ 0x1234}})}
	case 2:
		return []*nfs.Compound4res{c.w.compound(0, &nfs.NfsArgop4_OP_RELEASE_LOCKOWNER{OpreleaseLockowner: nfs.ReleaseLockowner4args{LockOwner: nfs.LockOwner4{Clientid: c.id, Owner: []byte("lock-o1")}}})}
	case 3:
		live := c.liveOpens()
		if len(live) == 0 {
			return nil
		}
		st := live[rng.IntN(len(live))]
		res := c.w.compound(0, putfh(st.fh), &nfs.NfsArgop4_OP_OPEN{Opopen: nfs.Open4args{Seqid: c.ownerSeq[st.owner], ShareAccess: nfs.OPEN4_SHARE_ACCESS_READ, ShareDeny: nfs.OPEN4_SHARE_DENY_NONE,
			Owner: nfs.OpenOwner4{Clientid: c.id, Owner: []byte(st.owner)}, Openhow: &nfs.Openflag4_default{}, Claim: &nfs.OpenClaim4_CLAIM_PREVIOUS{DelegateType: nfs.OPEN_DELEGATE_NONE}}})
		switch res.Status {
		case nfs.NFS4ERR_STALE_CLIENTID, nfs.NFS4ERR_STALE_STATEID, nfs.NFS4ERR_BAD_STATEID, nfs.NFS4ERR_BAD_SEQID, nfs.NFS4ERR_BADXDR, nfs.NFS4ERR_RESOURCE, nfs.NFS4ERR_NOFILEHANDLE, nfs.NFS4ERR_MOVED, nfs.NFS4ERR_STALE:
		default:
			c.ownerSeq[st.owner]++
			if ok, isOK := res.Resarray[len(res.Resarray)-1].(*nfs.NfsResop4_OP_OPEN).Opopen.(*nfs.Open4res_NFS4_OK); isOK {
				st.stateID = ok.Resok4.Stateid
			}
		}
		return []*nfs.Compound4res{res}
	case 4: // share deny is not supported
		return []*nfs.Compound4res{c.w.compound(0, putfh(dirFH), &nfs.NfsArgop4_OP_OPEN{Opopen: nfs.Open4args{Seqid: c.ownerSeq["o1"] + 9, ShareAccess: nfs.OPEN4_SHARE_ACCESS_READ, ShareDeny: nfs.OPEN4_SHARE_DENY_BOTH,
			Owner: nfs.OpenOwner4{Clientid: c.id, Owner: []byte("o1")}, Openhow: &nfs.Openflag4_default{}, Claim: &nfs.OpenClaim4_CLAIM_NULL{File: "f0"}}})}
	default: // operations without a file handle, unsupported minor version
		return []*nfs.Compound4res{c.w.compound(0, getattr), c.w.compound(0, &nfs.NfsArgop4_OP_LOOKUP{Oplookup: nfs.Lookup4args{Objname: "x"}})}
	}
}

func (c *nfsClient) liveOpens() []*openState {
	var out []*openState
	for _, o := range c.opens {
		if !o.closed {
			out = append(out, o)
		}
	}
	return out
}

// mkdirFH creates a directory below the root and returns its file handle.
func (c *nfsClient) mkdirFH(slot int, name string) []byte {
	res := c.run(slot, putfh(nil), &nfs.NfsArgop4_OP_CREATE{Opcreate: nfs.Create4args{Objtype: &nfs.Createtype4_NF4DIR{}, Objname: name}}, &nfs.NfsArgop4_OP_GETFH{})
	if res.Status != nfs.NFS4_OK {
		res = c.run(slot, putfh(nil), &nfs.NfsArgop4_OP_LOOKUP{Oplookup: nfs.Lookup4args{Objname: name}}, &nfs.NfsArgop4_OP_GETFH{})
	}
	if res.Status != nfs.NFS4_OK {
		return nil
	}
	return res.Resarray[len(res.Resarray)-1].(*nfs.NfsResop4_OP_GETFH).Opgetfh.(*nfs.Getfh4res_NFS4_OK).Resok4.Object
}

// step performs one pseudo-random client action and returns the results of
// the COMPOUNDs it issued.
func (c *nfsClient) step(rng *rand.Rand, slot int, dirs [][]byte, hostile bool) []*nfs.Compound4res {
	files := []string{"f0", "f1", "f2"}
	names := []string{"f0", "f1", "x", "y", "sub"}
	owners := []string{"o1", "o2"}
	dir := dirs[rng.IntN(len(dirs))]
	other := dirs[rng.IntN(len(dirs))]
	live := c.liveOpens()
	mangle := 0
	if hostile && rng.IntN(4) == 0 {
		mangle = 1 + rng.IntN(3)
	}
	ioMangle := mangle
	if hostile && rng.IntN(3) == 0 {
		ioMangle = 4 + rng.IntN(3)
	}
	one := func(r *nfs.Compound4res) []*nfs.Compound4res {
		if r == nil {
			return nil
		}
		return []*nfs.Compound4res{r}
	}
	k := rng.IntN(20)
	switch {
	case k <= 3 || len(live) == 0:
		m := 0
		if hostile && rng.IntN(6) == 0 {
			m = 1 + rng.IntN(2)
		}
		access := []uint32{nfs.OPEN4_SHARE_ACCESS_READ, nfs.OPEN4_SHARE_ACCESS_WRITE, nfs.OPEN4_SHARE_ACCESS_BOTH}[rng.IntN(3)]
		r, _ := c.open(slot, dir, owners[rng.IntN(2)], files[rng.IntN(3)], rng.IntN(3), access, m)
		return one(r)
	case k <= 6:
		return one(c.write(slot, live[rng.IntN(len(live))], ioMangle))
	case k <= 8:
		return one(c.read(slot, live[rng.IntN(len(live))], ioMangle))
	case k == 9:
		return one(c.setattrSize(slot, live[rng.IntN(len(live))], byte(rng.IntN(40))))
	case k <= 11:
		lt := []nfs.NfsLockType4{nfs.READ_LT, nfs.WRITE_LT}[rng.IntN(2)]
		length := uint64(1+rng.IntN(3)) * 10
		if hostile && rng.IntN(8) == 0 {
			length = 0 // invalid range
		}
		return one(c.lock(slot, live[rng.IntN(len(live))], lt, uint64(rng.IntN(4))*10, length, mangle))
	case k == 12:
		st := live[rng.IntN(len(live))]
		tl, ul := uint64(100), uint64(10)
		if hostile && rng.IntN(4) == 0 {
			tl, ul = 0, 0
		}
		return append(one(c.lockt(slot, st, 0, tl)), one(c.locku(slot, st, uint64(rng.IntN(4))*10, ul))...)
	case k <= 14:
		return one(c.close(slot, live[rng.IntN(len(live))], mangle))
	case k == 15:
		return one(c.downgrade(slot, live[rng.IntN(len(live))]))
	case k == 16 && c.minor == 0:
		return one(c.run(slot, &nfs.NfsArgop4_OP_RENEW{Oprenew: nfs.Renew4args{Clientid: c.id}}))
	case k == 16:
		st := live[rng.IntN(len(live))]
		if st.lockID != nil {
			return one(c.run(slot, &nfs.NfsArgop4_OP_TEST_STATEID{OptestStateid: nfs.TestStateid4args{TsStateids: []nfs.Stateid4{st.stateID, *st.lockID, mangleStateID(st.stateID, 1)}}}))
		}
		return one(c.run(slot, &nfs.NfsArgop4_OP_TEST_STATEID{OptestStateid: nfs.TestStateid4args{TsStateids: []nfs.Stateid4{st.stateID, mangleStateID(st.stateID, 1)}}}))
	default:
		return one(c.dirOp(slot, dir, rng, names, other))
	}
}

// ---- deterministic probes -------------------------------------------------------

func runNFSProbeCase(r *ev.Run, rc *reach, i int, progress *atomic.Int64) {
	rng := r.Rand(14, 5, uint64(i))
	minor := uint32(i % 2)
	steps := 60 + rng.IntN(120)
	r.Case("nfs-probe case=%d minor=%d steps=%d", i, minor, steps)
	w := newNFSWorld(i%4 >= 2)
	clients := []*nfsClient{newClient(w, minor, "client-a", 2), newClient(w, minor, "client-b", 2)}
	var log []string
	dead := false
	probes := 0
	errs := 0
	var dirs []virtual.Directory
	var leaves []virtual.Leaf
	collect := func() {
		// All directories and files currently reachable (cheap: the tree is tiny).
		dirs, leaves = dirs[:0], leaves[:0]
		var walk func(d virtual.PrepopulatedDirectory, depth int)
		walk = func(d virtual.PrepopulatedDirectory, depth int) {
			dirs = append(dirs, d)
			if depth > 3 {
				return
			}
			ds, ls, err := d.LookupAllChildren()
			if err != nil {
				return
			}
			for _, e := range ds {
				walk(e.Child, depth+1)
			}
			for _, e := range ls {
				leaves = append(leaves, e.Child)
			}
		}
		walk(w.env.Root, 0)
	}
	w.onCompound = func(minor uint32, res *nfs.Compound4res) {
		progress.Add(1)
		fn, st := lastOp(res), statName(res.Status)
		log = append(log, fmt.Sprintf("v4.%d %s -> %s", minor, fn, st))
		rc.add(fmt.Sprintf("nfs4%d.%s", minor, fn), st, 1)
		if res.Status != nfs.NFS4_OK {
			errs++
			r.Situation("probed-after-error-return:nfsv4")
		}
		held, n := w.probe(dirs, leaves)
		probes += n
		if len(held) > 0 {
			dead = true
			w.dead.Store(true)
			l := log
			if len(l) > 200 {
				l = l[len(l)-200:]
			}
			r.Violation(leakSig(fmt.Sprintf("nfsv4.%d", minor), fn, st, lockKind(held)),
				fmt.Sprintf("case=%d: after a v4.%d COMPOUND ending in %s returned %s the following locks are still held: %v", i, minor, fn, st, held),
				witness{Seed: r.Seed(), Phase: "nfs-probe", Case: i, Fn: fn, Status: st, Held: held, Log: append([]string(nil), l...)})
		}
	}
	after := func(results []*nfs.Compound4res) {}
	for _, c := range clients {
		after(c.register())
	}
	fhs := [][]byte{nil}
	for _, name := range []string{"A", "B"} {
		if fh := clients[0].mkdirFH(0, name); fh != nil {
			fhs = append(fhs, fh)
		}
	}
	collect()
	for s := 0; s < steps && !dead; s++ {
		c := clients[rng.IntN(len(clients))]
		switch k := rng.IntN(40); {
		case k == 0:
			// Lease expiry: everything the clients hold is reclaimed by
			// the next COMPOUND that enters the server.
			w.env.Clock.Advance(enforcedLease+time.Second, nil)
			r.Situation("nfs-lease-expired")
			after([]*nfs.Compound4res{c.run(0, putfh(nil), &nfs.NfsArgop4_OP_GETATTR{Opgetattr: nfs.Getattr4args{AttrRequest: dirAttrRequest}})})
			for _, c := range clients {
				after(c.register())
			}
		case k == 1:
			after(c.register()) // re-registration with a new verifier drops all state
		case k == 2:
			w.env.Clock.Advance(time.Duration(1+rng.IntN(50))*time.Second, nil)
		case k <= 6:
			after(c.hostile(rng, fhs[rng.IntN(len(fhs))]))
		case k == 7 && minor == 1 && rng.IntN(3) == 0:
			after([]*nfs.Compound4res{w.compound(1, &nfs.NfsArgop4_OP_DESTROY_SESSION{OpdestroySession: nfs.DestroySession4args{DsaSessionid: c.session}})})
			after(c.register())
		default:
			after(c.step(rng, rng.IntN(2), fhs, true))
		}
		if s%8 == 0 && !dead {
			collect()
		}
	}
	r.Count("nfs_probe_compounds", len(log))
	r.Count("nfs_lock_probes", probes)
	hs := make([]any, 0, len(log)+1)
	for _, l := range log {
		hs = append(hs, l)
	}
	r.Hash(ev.HashOf(hs...), errs > 0)
	if i < 2 && r.WantSample() {
		l := log
		if len(l) > 40 {
			l = l[:40]
		}
		r.Sample(map[string]any{"phase": "nfs-probe", "case": i, "compounds": l})
	}
}

func runNFSProbes(r *ev.Run, rc *reach) {
	n := r.Pick(160, 3200)
	guardedCases(r, "nfs-probe-case", n, func(i int, progress *atomic.Int64) { runNFSProbeCase(r, rc, i, progress) })
	r.Floor("probed-after-error-return:nfsv4", 200)
	r.Floor("nfs-lease-expired", 20)
}

// ---- concurrent rounds -------------------------------------------------------------

// nfsStressRound: several clients (4.0) or several slots of a few clients
// (4.1) issue COMPOUNDs concurrently on two shared directories and three
// files while another goroutine moves the clock past the lease.
func nfsStressRound(r *ev.Run, rc *reach, i int) roundVerdict {
	rng := r.Rand(14, 6, uint64(i))
	minor := uint32(i % 2)
	nClients := 2 + rng.IntN(3)
	iters := 40 + rng.IntN(60)
	r.Case("nfs-stress round=%d minor=%d clients=%d iterations=%d", i, minor, nClients, iters)
	w := newNFSWorld(false)
	setup := newClient(w, minor, "setup", 1)
	setup.register()
	fhs := [][]byte{nil}
	for _, name := range []string{"A", "B"} {
		if fh := setup.mkdirFH(0, name); fh != nil {
			fhs = append(fhs, fh)
		}
	}
	var progress atomic.Int64
	var expiries atomic.Int64
	var inFlight, overlapped atomic.Int64
	var mu sync.Mutex
	statuses := map[string]int{}
	var workers []func()
	for ci := 0; ci < nClients; ci++ {
		c := newClient(w, minor, fmt.Sprintf("client-%d", ci), 1)
		c.register()
		wr := r.Rand(14, 6, uint64(i), uint64(ci))
		workers = append(workers, func() {
			local := map[string]int{}
			for it := 0; it < iters; it++ {
				if inFlight.Add(1) > 1 {
					overlapped.Add(1)
				}
				results := c.step(wr, 0, fhs, true)
				inFlight.Add(-1)
				for _, res := range results {
					local[fmt.Sprintf("nfs4%d.%s/%s", minor, lastOp(res), statName(res.Status))]++
					switch res.Status {
					case nfs.NFS4ERR_EXPIRED, nfs.NFS4ERR_STALE_CLIENTID, nfs.NFS4ERR_BADSESSION, nfs.NFS4ERR_STALE_STATEID:
						// The lease expired underneath us: start over.
						c.register()
					}
				}
				progress.Add(1)
			}
			mu.Lock()
			for k, n := range local {
				statuses[k] += n
			}
			mu.Unlock()
		})
	}
	workers = append(workers, func() {
		// Lease expiry racing I/O.
		for it := 0; it < iters/8; it++ {
			w.env.Clock.Advance(enforcedLease+time.Second, nil)
			expiries.Add(1)
			setup.run(0, putfh(nil), &nfs.NfsArgop4_OP_GETATTR{Opgetattr: nfs.Getattr4args{AttrRequest: dirAttrRequest}})
			progress.Add(1)
			for k := 0; k < 200; k++ {
				yieldNow()
			}
		}
	})
	v := runRound(r, "nfs", map[string]any{"round": i, "minor": minor, "clients": nClients}, &progress, workers)
	for k, n := range statuses {
		fn, st, _ := strings.Cut(k, "/")
		rc.add(fn+"(concurrent)", st, n)
	}
	r.Count("nfs_stress_compounds", int(progress.Load()))
	r.SituationN("nfs-compounds-overlapped", int(overlapped.Load()))
	r.SituationN("nfs-lease-expiry-racing-io", int(expiries.Load()))
	if v != roundFinished {
		return v
	}
	// Quiescent: nothing may be held any more.
	var dirs []virtual.Directory
	var leaves []virtual.Leaf
	ds, ls, _ := w.env.Root.LookupAllChildren()
	dirs = append(dirs, w.env.Root)
	for _, e := range ds {
		dirs = append(dirs, e.Child)
		_, l2, _ := e.Child.LookupAllChildren()
		for _, e2 := range l2 {
			leaves = append(leaves, e2.Child)
		}
	}
	for _, e := range ls {
		leaves = append(leaves, e.Child)
	}
	if held, _ := w.probe(dirs, leaves); len(held) > 0 {
		r.Violation(leakSig(fmt.Sprintf("nfsv4.%d", minor), "concurrent-round", "-", lockKind(held)),
			fmt.Sprintf("nfs stress round %d: after all COMPOUNDs returned the following locks are still held: %v", i, held),
			witness{Seed: r.Seed(), Phase: "nfs-stress", Case: i, Held: held})
	}
	r.Hash(ev.HashOf("nfs-stress", i, minor, nClients, len(statuses)), overlapped.Load() > 0)
	return v
}
