package c14

import (
	"context"
	"fmt"
	"math/rand/v2"
	"runtime"
	"strings"
	"sync"
	"sync/atomic"

	"github.com/buildbarn/bb-remote-execution/pkg/cleaner"
	"github.com/buildbarn/bb-remote-execution/pkg/filesystem/virtual"
	"github.com/buildbarn/bb-storage/pkg/filesystem/path"

	"verif/internal/ev"
	"verif/internal/vfsh"
)

func yieldNow() { runtime.Gosched() }

// vfsStress is one small tree shared by all goroutines of a round:
//
//	root/A, root/B          fixed directories (never renamed or removed)
//	S                       a directory that is moved between root, A and B
//	                        under the name "s", removed and re-created
//	f0..f3                  files that are moved between all directories
//
// A and B are never moved, S is only ever placed directly below root, A or B
// and nothing but files is moved into S, so no directory can become its own
// ancestor (the code documents the missing cycle check as a TODO).
type vfsStress struct {
	env   *vfsh.Env
	root  virtual.PrepopulatedDirectory
	a, b  virtual.PrepopulatedDirectory
	known sync.Map // every directory object ever seen -> struct{}
	// counters of overlapping targeted calls
	renameAB, renameBA atomic.Int64
	entering, removing atomic.Int64
	bulk, creating     atomic.Int64
	listing            atomic.Int64
}

func pc(name string) path.Component { return path.MustNewComponent(name) }

func (s *vfsStress) note(d virtual.Directory) {
	if d != nil {
		s.known.LoadOrStore(d, struct{}{})
	}
}

func newVFSStress(cfg vfsh.Config) *vfsStress {
	env := vfsh.NewEnv(cfg)
	s := &vfsStress{env: env, root: env.Root}
	s.note(env.Root)
	var err error
	if s.a, err = env.Root.CreateAndEnterPrepopulatedDirectory(pc("A")); err != nil {
		panic(err)
	}
	if s.b, err = env.Root.CreateAndEnterPrepopulatedDirectory(pc("B")); err != nil {
		panic(err)
	}
	s.note(s.a)
	s.note(s.b)
	return s
}

// overlapCounter counts how often a call of kind x ran while a call of kind y
// was in flight.
type overlap struct {
	mine, other *atomic.Int64
}

func (o overlap) enter() bool {
	o.mine.Add(1)
	return o.other.Load() > 0
}
func (o overlap) leave() { o.mine.Add(-1) }

type stressStats struct {
	mu       sync.Mutex
	statuses map[string]int
	overlaps map[string]int
}

func (st *stressStats) merge(statuses, overlaps map[string]int) {
	st.mu.Lock()
	for k, n := range statuses {
		st.statuses[k] += n
	}
	for k, n := range overlaps {
		st.overlaps[k] += n
	}
	st.mu.Unlock()
}

// worker runs iters pseudo-random calls of the given flavour.
func (s *vfsStress) worker(rng *rand.Rand, flavour string, iters int, progress *atomic.Int64, stats *stressStats) func() {
	return func() {
		ctx := context.Background()
		statuses := map[string]int{}
		overlaps := map[string]int{}
		files := []string{"f0", "f1", "f2", "f3"}
		fixed := []virtual.PrepopulatedDirectory{s.root, s.a, s.b}
		pickFixed := func() virtual.PrepopulatedDirectory { return fixed[rng.IntN(3)] }
		// where S might be right now
		lookupS := func() virtual.PrepopulatedDirectory {
			for _, d := range []virtual.PrepopulatedDirectory{fixed[rng.IntN(3)], s.a, s.b, s.root} {
				if child, err := d.LookupChild(pc("s")); err == nil {
					if cd, _ := child.GetPair(); cd != nil {
						s.note(cd)
						return cd
					}
				}
			}
			return nil
		}
		anyDir := func() virtual.PrepopulatedDirectory {
			if rng.IntN(3) == 0 {
				if d := lookupS(); d != nil {
					return d
				}
			}
			return pickFixed()
		}
		count := func(fn string, st string) { statuses["virtual."+fn+"(concurrent)/"+st]++ }
		ops := map[string][]func(){}
		add := func(fl string, f func()) { ops[fl] = append(ops[fl], f) }

		renameFile := func(from, to virtual.PrepopulatedDirectory, o *overlap, key string) {
			if o != nil {
				if o.enter() {
					overlaps[key]++
				}
				defer o.leave()
			}
			_, _, st := from.VirtualRename(ctx, pc(files[rng.IntN(4)]), to, pc(files[rng.IntN(4)]))
			count("VirtualRename", vfsh.StatusName(st))
		}
		create := func(d virtual.PrepopulatedDirectory) {
			o := overlap{&s.creating, &s.bulk}
			if o.enter() {
				overlaps["creation-racing-bulk-removal"]++
			}
			defer o.leave()
			switch rng.IntN(4) {
			case 0:
				var a virtual.Attributes
				leaf, _, _, st := d.VirtualOpenChild(ctx, pc(files[rng.IntN(4)]), virtual.ShareMaskWrite, (&virtual.Attributes{}).SetPermissions(virtual.PermissionsRead), &virtual.OpenExistingOptions{}, vfsh.MaskBasic, &a)
				count("VirtualOpenChild", vfsh.StatusName(st))
				if st == virtual.StatusOK {
					leaf.VirtualWrite(ctx, []byte("x"), 0)
					leaf.VirtualClose(virtual.ShareMaskWrite)
				}
			case 1:
				var a virtual.Attributes
				child, _, st := d.VirtualMkdir(ctx, pc([]string{"m", "n"}[rng.IntN(2)]), &virtual.Attributes{}, vfsh.MaskLocked, &a)
				count("VirtualMkdir", vfsh.StatusName(st))
				s.note(child)
			case 2:
				leaf, err := s.env.NewLeaf(vfsh.KFile, "")
				if err != nil {
					panic(err)
				}
				err = d.CreateChildren(map[path.Component]virtual.InitialChild{
					pc(files[rng.IntN(4)]): virtual.InitialChild{}.FromLeaf(leaf),
					pc("lazy"):             virtual.InitialChild{}.FromDirectory(s.env.NewFetcher(&vfsh.LazySpec{ID: 1, Children: map[string]*vfsh.LazyChild{"z": {Kind: vfsh.KFIFO}}, Failures: rng.IntN(2)})),
				}, rng.IntN(2) == 0)
				count("CreateChildren", vfsh.ErrName(err))
				if err != nil {
					leaf.Unlink()
				}
			default:
				var a virtual.Attributes
				_, _, st := d.VirtualMknod(ctx, pc(files[rng.IntN(4)]), (&virtual.Attributes{}).SetFileType(vfsh.KindFileType(vfsh.KFIFO)), vfsh.MaskBasic, &a)
				count("VirtualMknod", vfsh.StatusName(st))
			}
		}
		list := func(d virtual.PrepopulatedDirectory) {
			o := overlap{&s.listing, &s.removing}
			if o.enter() {
				overlaps["listing-with-attributes-racing-removal"]++
			}
			defer o.leave()
			switch rng.IntN(4) {
			case 0, 1:
				rep := &countingReporter{limit: 1 + rng.IntN(6)}
				st := d.VirtualReadDir(ctx, uint64(rng.IntN(3)), vfsh.MaskLocked, rep)
				count("VirtualReadDir", vfsh.StatusName(st))
			case 2:
				var a virtual.Attributes
				child, st := d.VirtualLookup(ctx, pc([]string{"s", "A", "B", "m", "f0", "lazy"}[rng.IntN(6)]), vfsh.MaskLocked, &a)
				count("VirtualLookup", vfsh.StatusName(st))
				if st == virtual.StatusOK {
					cd, _ := child.GetPair()
					s.note(cd)
				}
			default:
				ds, _, err := d.LookupAllChildren()
				count("LookupAllChildren", vfsh.ErrName(err))
				for _, e := range ds {
					s.note(e.Child)
				}
			}
		}

		// opposite: files are renamed A->B and B->A at the same time.
		add("opposite", func() { renameFile(s.a, s.b, &overlap{&s.renameAB, &s.renameBA}, "opposite-direction-renames") })
		add("opposite", func() { renameFile(s.b, s.a, &overlap{&s.renameBA, &s.renameAB}, "opposite-direction-renames") })
		add("opposite", func() { renameFile(pickFixed(), pickFixed(), nil, "") })
		add("opposite", func() { create(pickFixed()) })
		add("opposite", func() { list(pickFixed()) })

		// parent-child: S moves between root, A and B while files move
		// between S and its (former) parents and S is listed and looked up
		// with attributes that need its lock.
		moveS := func() {
			from, to := pickFixed(), pickFixed()
			o := overlap{&s.renameAB, &s.listing}
			if o.enter() {
				overlaps["directory-rename-racing-listing-with-attributes"]++
			}
			defer o.leave()
			_, _, st := from.VirtualRename(ctx, pc("s"), to, pc("s"))
			count("VirtualRename(dir)", vfsh.StatusName(st))
		}
		add("parent-child", moveS)
		add("parent-child", moveS)
		add("parent-child", func() {
			if d := lookupS(); d != nil {
				renameFile(pickFixed(), d, &overlap{&s.renameBA, &s.renameAB}, "parent-to-child-rename-racing-directory-rename")
			}
		})
		add("parent-child", func() {
			if d := lookupS(); d != nil {
				renameFile(d, pickFixed(), &overlap{&s.renameBA, &s.renameAB}, "parent-to-child-rename-racing-directory-rename")
			}
		})
		add("parent-child", func() { list(pickFixed()) })
		add("parent-child", func() { create(anyDir()) })
		enter := func() {
			o := overlap{&s.entering, &s.removing}
			if o.enter() {
				overlaps["enter-racing-removal"]++
			}
			defer o.leave()
			d, err := pickFixed().CreateAndEnterPrepopulatedDirectory(pc("s"))
			count("CreateAndEnterPrepopulatedDirectory", vfsh.ErrName(err))
			if err == nil {
				s.note(d)
				// use the directory that may be removed underneath us
				var a virtual.Attributes
				leaf, _, _, st := d.VirtualOpenChild(ctx, pc(files[rng.IntN(4)]), virtual.ShareMaskRead, (&virtual.Attributes{}).SetPermissions(virtual.PermissionsRead), &virtual.OpenExistingOptions{}, vfsh.MaskBasic, &a)
				count("VirtualOpenChild", vfsh.StatusName(st))
				if st == virtual.StatusOK {
					leaf.VirtualClose(virtual.ShareMaskRead)
				}
				d2, err := d.CreateAndEnterPrepopulatedDirectory(pc("deep"))
				count("CreateAndEnterPrepopulatedDirectory", vfsh.ErrName(err))
				if err == nil {
					s.note(d2)
				}
			}
		}
		remove := func() {
			o := overlap{&s.removing, &s.entering}
			if o.enter() {
				overlaps["removal-racing-enter"]++
			}
			defer o.leave()
			d := pickFixed()
			switch rng.IntN(4) {
			case 0:
				_, st := d.VirtualRemove(ctx, pc("s"), true, rng.IntN(2) == 0)
				count("VirtualRemove", vfsh.StatusName(st))
			case 1:
				count("RemoveAll", vfsh.ErrName(d.RemoveAll(pc("s"))))
			case 2:
				count("Remove", vfsh.ErrName(d.Remove(pc([]string{"s", "f0", "f1"}[rng.IntN(3)]))))
			default:
				_, st := d.VirtualRemove(ctx, pc(files[rng.IntN(4)]), false, true)
				count("VirtualRemove", vfsh.StatusName(st))
			}
		}
		// enter-remove: a directory is removed while others enter it.
		add("enter-remove", enter)
		add("enter-remove", enter)
		add("enter-remove", remove)
		add("enter-remove", remove)
		add("enter-remove", func() { list(pickFixed()) })
		add("enter-remove", moveS)

		bulk := func() {
			o := overlap{&s.bulk, &s.creating}
			if o.enter() {
				overlaps["bulk-removal-racing-creation"]++
			}
			defer o.leave()
			switch rng.IntN(5) {
			case 0, 1:
				d := []virtual.PrepopulatedDirectory{s.a, s.b}[rng.IntN(2)]
				count("RemoveAllChildren", vfsh.ErrName(d.RemoveAllChildren(false)))
			case 2:
				if d := lookupS(); d != nil {
					count("RemoveAllChildren(forbid)", vfsh.ErrName(d.RemoveAllChildren(true)))
				}
			case 3:
				d := pickFixed()
				err := d.FilterChildren(func(node virtual.InitialChild, remove virtual.ChildRemover) bool {
					if rng.IntN(3) == 0 {
						remove()
					}
					return rng.IntN(20) != 0
				})
				count("FilterChildren", vfsh.ErrName(err))
			default:
				count("RemoveAll", vfsh.ErrName(pickFixed().RemoveAll(pc([]string{"m", "n", "lazy", "s"}[rng.IntN(4)]))))
			}
		}
		// bulk: RemoveAllChildren / RemoveAll / FilterChildren racing creations.
		add("bulk", bulk)
		add("bulk", bulk)
		add("bulk", func() { create(anyDir()) })
		add("bulk", func() { create(anyDir()) })
		add("bulk", enter)
		add("bulk", func() { list(anyDir()) })

		mine := ops[flavour]
		if flavour == "mixed" {
			for _, fl := range []string{"opposite", "parent-child", "enter-remove", "bulk"} {
				mine = append(mine, ops[fl]...)
			}
		}
		for it := 0; it < iters; it++ {
			mine[rng.IntN(len(mine))]()
			progress.Add(1)
			if rng.IntN(4) == 0 {
				yieldNow()
			}
		}
		stats.merge(statuses, overlaps)
	}
}

type countingReporter struct {
	limit, n int
}

func (r *countingReporter) ReportEntry(nextCookie uint64, name path.Component, child virtual.DirectoryChild, a *virtual.Attributes) bool {
	if r.n >= r.limit {
		return false
	}
	r.n++
	return true
}

var stressFlavours = []string{"opposite", "parent-child", "enter-remove", "bulk", "mixed"}

func vfsStressRound(r *ev.Run, rc *reach, i int) roundVerdict {
	rng := r.Rand(14, 7, uint64(i))
	flavour := stressFlavours[i%len(stressFlavours)]
	nWorkers := 8 + rng.IntN(17)
	iters := 40 + rng.IntN(81)
	procs := []int{2, 4, 16}[(i/len(stressFlavours))%3]
	cfg := vfsConfigs()[rng.IntN(8)]
	r.Case("vfs-stress round=%d flavour=%s cfg=%s goroutines=%d iterations=%d GOMAXPROCS=%d", i, flavour, cfg, nWorkers, iters, procs)
	old := runtime.GOMAXPROCS(procs)
	defer runtime.GOMAXPROCS(old)

	s := newVFSStress(cfg)
	// Seed some content.
	for k, d := range []virtual.PrepopulatedDirectory{s.a, s.b, s.root} {
		leaf, _ := s.env.NewLeaf(vfsh.KFile, "")
		d.CreateChildren(map[path.Component]virtual.InitialChild{pc(fmt.Sprintf("f%d", k)): virtual.InitialChild{}.FromLeaf(leaf)}, true)
	}
	if d, err := s.a.CreateAndEnterPrepopulatedDirectory(pc("s")); err == nil {
		s.note(d)
	}
	var progress atomic.Int64
	stats := &stressStats{statuses: map[string]int{}, overlaps: map[string]int{}}
	workers := make([]func(), nWorkers)
	for w := range workers {
		workers[w] = s.worker(r.Rand(14, 7, uint64(i), uint64(w)), flavour, iters, &progress, stats)
	}
	v := runRound(r, "vfs-"+flavour, map[string]any{"round": i, "flavour": flavour, "cfg": cfg.String(), "goroutines": nWorkers, "iterations": iters, "gomaxprocs": procs}, &progress, workers)
	for k, n := range stats.statuses {
		fn, st, _ := strings.Cut(k, "/")
		rc.add(fn, st, n)
	}
	total := 0
	for k, n := range stats.overlaps {
		r.SituationN("overlap:"+k, n)
		total += n
	}
	r.Count("vfs_stress_calls", int(progress.Load()))
	if v != roundFinished {
		return v
	}
	r.Situation("stress-round-finished:" + flavour)
	// Quiescent: every directory ever seen must be unlocked.
	var held []string
	probes := 0
	s.known.Range(func(k, _ any) bool {
		if free, known := virtual.VerifLockProbeDirectory(k.(virtual.Directory)); known {
			probes++
			if !free {
				held = append(held, "directory.lock")
			}
		}
		return true
	})
	if a := s.env.NFSAlloc; a != nil && !virtual.VerifLockProbeNFSHandleAllocator(a) {
		held = append(held, "nfsHandlePool.lock")
	}
	if a := s.env.FUSEAlloc; a != nil && !virtual.VerifLockProbeFUSEHandleAllocator(a) {
		held = append(held, "fuseHandleOptions.removalNotifiersLock")
	}
	r.Count("vfs_stress_lock_probes", probes)
	if len(held) > 0 {
		r.Violation(leakSig("virtual", "concurrent-round:"+flavour, "-", held[0]),
			fmt.Sprintf("vfs stress round %d (%s): after all calls returned %d locks are still held: %v", i, flavour, len(held), held),
			witness{Seed: r.Seed(), Phase: "vfs-stress", Case: i, Cfg: cfg.String(), Held: held})
	}
	r.Hash(ev.HashOf("vfs-stress", i, flavour, cfg.String(), nWorkers, len(stats.statuses), total > 0), total > 0)
	return v
}

// idleInvokerRound: Acquire/Release from many goroutines with failing and
// slow cleaners and cancelled waiters.
func idleInvokerRound(r *ev.Run, rc *reach, i int) roundVerdict {
	rng := r.Rand(14, 8, uint64(i))
	nWorkers := 8 + rng.IntN(17)
	iters := 30 + rng.IntN(50)
	r.Case("cleaner-stress round=%d goroutines=%d iterations=%d", i, nWorkers, iters)
	var cleans, cleaning atomic.Int64
	var overlapped atomic.Bool
	var failEvery atomic.Int64
	ii := cleaner.NewIdleInvoker(func(ctx context.Context) error {
		if cleaning.Add(1) != 1 {
			overlapped.Store(true)
		}
		n := cleans.Add(1)
		for k := 0; k < 3; k++ {
			yieldNow()
		}
		cleaning.Add(-1)
		if n%3 == 0 {
			failEvery.Add(1)
			return context.DeadlineExceeded
		}
		return nil
	})
	var progress atomic.Int64
	var cancelled atomic.Int64
	workers := make([]func(), nWorkers)
	for w := range workers {
		wr := r.Rand(14, 8, uint64(i), uint64(w))
		workers[w] = func() {
			for it := 0; it < iters; it++ {
				ctx, cancel := context.WithCancel(context.Background())
				if wr.IntN(4) == 0 {
					cancel()
				}
				if err := ii.Acquire(ctx); err == nil {
					yieldNow()
					ii.Release(context.Background())
				} else if ctx.Err() != nil {
					cancelled.Add(1)
				}
				cancel()
				progress.Add(1)
			}
		}
	}
	v := runRound(r, "cleaner", map[string]any{"round": i, "goroutines": nWorkers}, &progress, workers)
	rc.add("cleaner.Acquire+Release(concurrent)", "*", int(progress.Load()))
	r.SituationN("cleaner-stress-cleans", int(cleans.Load()))
	r.SituationN("cleaner-stress-cancelled-acquires", int(cancelled.Load()))
	if v != roundFinished {
		return v
	}
	if !ii.VerifLockProbe() {
		r.Violation(leakSig("cleaner", "concurrent-round", "-", "IdleInvoker.lock"), "IdleInvoker lock held after all goroutines finished", witness{Seed: r.Seed(), Phase: "cleaner-stress", Case: i})
	}
	r.Hash(ev.HashOf("cleaner-stress", i, nWorkers, failEvery.Load() > 0, cancelled.Load() > 0), cancelled.Load() > 0)
	return v
}

func runStress(r *ev.Run, rc *reach) {
	// A family of rounds is abandoned after its second hang: every further
	// round would most likely block on the same defect, and the goroutines
	// of a hung round can never be reclaimed.
	timed(r, "vfs-stress", func() {
		nVFS := r.Pick(60, 1200)
		hangs := 0
		for i := 0; i < nVFS && hangs < 2; i++ {
			if vfsStressRound(r, rc, i) != roundFinished {
				hangs++
			}
		}
		if hangs >= 2 {
			r.Count("vfs_stress_rounds_skipped_after_two_hangs", 1)
		}
	})
	timed(r, "file-stress", func() {
		n := r.Pick(8, 160)
		hangs := 0
		for i := 0; i < n && hangs < 2; i++ {
			if fileStressRound(r, rc, i) != roundFinished {
				hangs++
			}
		}
	})
	timed(r, "nfs-gated", func() {
		n := r.Pick(24, 480)
		hangs := 0
		for i := 0; i < n && hangs < 2; i++ {
			if nfsGatedRound(r, rc, i) != roundFinished {
				hangs++
			}
		}
	})
	timed(r, "nfs-stress", func() {
		nNFS := r.Pick(30, 600)
		hangs := 0
		for i := 0; i < nNFS && hangs < 2; i++ {
			if nfsStressRound(r, rc, i) != roundFinished {
				hangs++
			}
		}
	})
	timed(r, "lockpile+cleaner-stress", func() {
		nSmall := r.Pick(10, 200)
		hangs := 0
		for i := 0; i < 2*nSmall && hangs < 2; i++ {
			if lockPileRound(r, rc, i) != roundFinished {
				hangs++
			}
		}
		hangs = 0
		for i := 0; i < nSmall && hangs < 2; i++ {
			if idleInvokerRound(r, rc, i) != roundFinished {
				hangs++
			}
		}
	})
	r.Floor("file-stress:persistency-node-applies-racing-mutators", 100000)
	r.Floor("file-stress:calls-overlapping-the-other-side-on-the-same-file", 10000)
	r.Floor("stress-round-finished:file", 3)
	r.Floor("nfs40-second-call-waited-for-the-first-with-the-program-lock-dropped", 5)
	r.Floor("nfs41-second-call-waited-for-the-first-with-the-program-lock-dropped", 5)
	r.Floor("lockpile-backoff", 20)
	r.Floor("overlap:opposite-direction-renames", 50)
	r.Floor("overlap:parent-to-child-rename-racing-directory-rename", 20)
	r.Floor("overlap:enter-racing-removal", 20)
	r.Floor("overlap:bulk-removal-racing-creation", 20)
	r.Floor("overlap:listing-with-attributes-racing-removal", 20)
	r.Floor("nfs-compounds-overlapped", 50)
	r.Floor("nfs-lease-expiry-racing-io", 10)
	for _, f := range stressFlavours {
		r.Floor("stress-round-finished:"+f, 3)
	}
}
