package c14

import (
	"bytes"
	"context"
	"fmt"
	"math/rand/v2"
	"regexp"
	"runtime"
	"sort"
	"strings"
	"sync"
	"sync/atomic"

	"github.com/buildbarn/bb-remote-execution/pkg/builder"
	"github.com/buildbarn/bb-remote-execution/pkg/filesystem/virtual"
	"github.com/buildbarn/bb-storage/pkg/filesystem"
	"github.com/buildbarn/bb-storage/pkg/filesystem/path"
	"github.com/buildbarn/bb-storage/pkg/random"

	"verif/internal/ev"
	"verif/internal/vclock"
	"verif/internal/vfsh"
)

// Named attribute directories (NFSv4 OPENATTR).
//
// The trees of the other phases are built with NoNamedAttributesFactory, so no
// file or directory of theirs ever owns a named attribute directory. Here the
// tree is wired by the real virtualBuildDirectory.InstallHooks(): files,
// directories, named attribute directories and the attribute files inside
// them all obtain their handles from ONE stateful handle allocator. When the
// last reference of an owner goes away (fileBackedFile.releaseReferencesLocked
// / inMemoryPrepopulatedDirectory.markDeleted -> NamedAttributes.Release), its
// attribute directory and every attribute file are torn down from inside the
// call that dropped the reference, i.e. with the parent directory's mutex, the
// file's lock and (transiently) the attribute directory's mutex held, and the
// handle allocator is re-entered for every node torn down.
//
//  1. Stepped cases (deterministic product, PRNG-drawn details): an owner
//     (pool-backed file or directory) gets an attribute directory with one of
//     nine kinds of contents and is then dropped by every route the directory
//     API has (VirtualRemove, Remove, RemoveAll, rename over it, removal of an
//     ancestor, bulk removal, overwrite, replacement, FilterChildren, clean-up
//     of hidden files of a removed parent), with and without a second hard
//     link, closing the descriptor before or after the unlink. All locks of
//     all objects ever seen are probed after every call; every case runs under
//     the hang policy as a round of one worker.
//  2. Concurrent rounds: owners are created, given attributes, linked and
//     removed while other goroutines work inside their attribute directories
//     and look them up with the has-named-attributes attribute; judged by the
//     hang policy, followed by the same probes.

const (
	naMaskLeaf = vfsh.MaskBasic | virtual.AttributesMaskHasNamedAttributes | virtual.AttributesMaskIsInNamedAttributeDirectory |
		virtual.AttributesMaskChangeID | virtual.AttributesMaskSizeBytes
	naMaskDir = vfsh.MaskLocked | virtual.AttributesMaskHasNamedAttributes | virtual.AttributesMaskIsInNamedAttributeDirectory
)

var naHidden = regexp.MustCompile(`^\._`)

type naTracked struct {
	what string
	dir  virtual.Directory
	leaf virtual.Leaf
}

// naWorld is one tree wired like a build directory of bb_worker.
type naWorld struct {
	alloc   string
	pool    *vfsh.FakePool
	log     *vfsh.ErrLog
	nfs     *virtual.NFSStatefulHandleAllocator
	fuse    *virtual.FUSEStatefulHandleAllocator
	handles virtual.StatefulHandleAllocator
	root    virtual.PrepopulatedDirectory

	mu      sync.Mutex
	tracked []naTracked
	seen    map[any]bool

	// FUSE only: removal notifications delivered, and how many of them
	// arrived while the mutex of a tracked directory was held. Only
	// maintained by the stepped cases (one call in flight at a time).
	stepped           bool
	notifications     atomic.Int64
	notificationsHeld atomic.Int64
}

func newNAWorld(alloc string, stepped bool) *naWorld {
	w := &naWorld{alloc: alloc, pool: &vfsh.FakePool{}, log: &vfsh.ErrLog{}, seen: map[any]bool{}, stepped: stepped}
	switch alloc {
	case "fuse":
		w.fuse = virtual.NewFUSEHandleAllocator(random.FastThreadSafeGenerator)
		w.fuse.RegisterRemovalNotifier(func(parent uint64, name path.Component) {
			if !w.stepped {
				return
			}
			w.notifications.Add(1)
			for _, t := range w.snapshot() {
				if t.dir != nil {
					if free, known := virtual.VerifLockProbeDirectory(t.dir); known && !free {
						w.notificationsHeld.Add(1)
						break
					}
				}
			}
		})
		w.handles = w.fuse
	default:
		w.nfs = virtual.NewNFSHandleAllocator(random.NewFastSingleThreadedGenerator())
		w.handles = w.nfs
	}
	setter := vfsh.DefaultAttributesSetter
	clk := vclock.New(1_700_000_000)
	symlinks := virtual.NewHandleAllocatingSymlinkFactory(virtual.NewBaseSymlinkFactory(setter), w.handles.New(), path.UNIXFormat)
	// The root exists before the hooks are installed (as in bb_worker), so
	// it does not support named attributes itself; everything created below
	// it afterwards does.
	w.root = virtual.NewInMemoryPrepopulatedDirectory(
		virtual.NewHandleAllocatingFileAllocator(
			virtual.NewPoolBackedFileAllocator(w.pool, w.log, setter, virtual.NoNamedAttributesFactory),
			w.handles),
		symlinks, w.log, w.handles, sort.Sort, naHidden.MatchString, clk,
		virtual.CaseSensitiveComponentNormalizer, setter, virtual.NoNamedAttributesFactory)
	bd := builder.NewVirtualBuildDirectory(w.root, nil, nil, symlinks, virtual.BaseCharacterDeviceFactory, w.handles, setter, clk)
	bd.InstallHooks(w.pool, w.log)
	w.trackDir("directory(/)", w.root)
	return w
}

func (w *naWorld) snapshot() []naTracked {
	w.mu.Lock()
	defer w.mu.Unlock()
	return append([]naTracked(nil), w.tracked...)
}

func (w *naWorld) trackDir(what string, d virtual.Directory) {
	if d == nil {
		return
	}
	w.mu.Lock()
	if !w.seen[d] {
		w.seen[d] = true
		w.tracked = append(w.tracked, naTracked{what: what, dir: d})
	}
	w.mu.Unlock()
}

func (w *naWorld) trackLeaf(what string, l virtual.Leaf) {
	if l == nil {
		return
	}
	w.mu.Lock()
	if !w.seen[l] {
		w.seen[l] = true
		w.tracked = append(w.tracked, naTracked{what: what, leaf: l})
	}
	w.mu.Unlock()
}

// probe probes every lock of every object ever seen. Quiescent points only.
func (w *naWorld) probe() (held []string, probes int) {
	for _, t := range w.snapshot() {
		if t.dir != nil {
			if free, known := virtual.VerifLockProbeDirectory(t.dir); known {
				probes++
				if !free {
					held = append(held, t.what+".lock")
				}
			}
		} else if free, known := virtual.VerifLockProbeLeaf(t.leaf); known {
			probes++
			if !free {
				held = append(held, t.what+".lock")
			}
		}
	}
	probes++
	if w.nfs != nil && !virtual.VerifLockProbeNFSHandleAllocator(w.nfs) {
		held = append(held, "nfsHandlePool.lock")
	}
	if w.fuse != nil && !virtual.VerifLockProbeFUSEHandleAllocator(w.fuse) {
		held = append(held, "fuseHandleOptions.removalNotifiersLock")
	}
	return held, probes
}

// ---- stepped cases ----------------------------------------------------------------

type naCase struct {
	Index   int    `json:"index"`
	Alloc   string `json:"allocator"`
	Owner   string `json:"owner"`
	Content string `json:"attribute_directory"`
	Links   string `json:"hard_links,omitempty"`
	Order   string `json:"order,omitempty"`
	Route   string `json:"route"`
}

func (c naCase) String() string {
	return fmt.Sprintf("alloc=%s owner=%s attribute-directory=%s links=%s order=%s route=%s", c.Alloc, c.Owner, c.Content, c.Links, c.Order, c.Route)
}

var (
	naContents = []string{
		"none",            // never opened: OPENATTR without createdir fails
		"empty-unentered", // created, never looked into (contents not initialised)
		"emptied",         // an attribute was created and removed again
		"one",             // one attribute file
		"several",         // two to four attribute files
		"open-attribute",  // an attribute file is still open when the owner goes away
		"linked-out",      // an attribute file also has a hard link in the ordinary tree
		"nested",          // holds the last link of a file that owns an attribute directory itself
		"subdirectory",    // holds a directory with a file in it
	}
	naFileRoutes = []string{
		"VirtualRemove",
		"Remove",
		"RemoveAll",
		"VirtualRename-over(same directory)",
		"VirtualRename-over(other directory)",
		"RemoveAll(ancestor)",
		"RemoveAllChildren(parent,false)",
		"RemoveAllChildren(parent,true)",
		"CreateChildren(overwrite)",
		"CreateAndEnterPrepopulatedDirectory(replace)",
		"FilterChildren(remove)",
		"VirtualRemove(parent holding it under a hidden name)",
		"Remove(parent holding it under a hidden name)",
		"VirtualRename-directory-over(parent holding it under a hidden name)",
	}
	naLinks      = []string{"single", "second-link-removed-first", "second-link-removed-last"}
	naOrders     = []string{"close-then-unlink", "unlink-then-close"}
	naDirRoutes  = []string{"VirtualRemove", "Remove", "RemoveAll", "VirtualRename-directory-over", "RemoveAll(ancestor)", "RemoveAllChildren(self,true)", "RemoveAllChildren(parent,true)", "RemoveAllChildren(parent,false)", "CreateChildren(overwrite)"}
	naAllocators = []string{"nfs", "fuse"}
)

func naCases() []naCase {
	var out []naCase
	for _, alloc := range naAllocators {
		for _, content := range naContents {
			for _, route := range naFileRoutes {
				for _, links := range naLinks {
					for _, order := range naOrders {
						out = append(out, naCase{Alloc: alloc, Owner: "file", Content: content, Links: links, Order: order, Route: route})
					}
				}
			}
			for _, route := range naDirRoutes {
				out = append(out, naCase{Alloc: alloc, Owner: "directory", Content: content, Route: route})
			}
		}
	}
	for i := range out {
		out[i].Index = i
	}
	return out
}

func naHasEntries(content string) bool {
	switch content {
	case "none", "empty-unentered", "emptied":
		return false
	}
	return true
}

// naStepper runs one stepped case.
type naStepper struct {
	r        *ev.Run
	rc       *reach
	c        naCase
	w        *naWorld
	rng      *rand.Rand
	ctx      context.Context
	progress *atomic.Int64
	log      []string
	dead     bool
	errs     int
	probes   int
}

// after records that fn returned st and probes all locks. It returns false
// once a lock was found held: every further call could block for ever.
func (s *naStepper) after(fn, st string) bool {
	s.progress.Add(1)
	if s.dead {
		return false
	}
	s.log = append(s.log, fn+" -> "+st)
	s.rc.add("virtual."+fn+"(named-attributes)", st, 1)
	if isErrorStatus(st) {
		s.errs++
		s.r.Situation("named-attributes:probed-after-error-return:" + st)
	}
	held, n := s.w.probe()
	s.probes += n
	if len(held) > 0 {
		s.dead = true
		s.r.Violation(leakSig("virtual", fn+"(named-attributes)", st, lockKind(held)),
			fmt.Sprintf("named-attributes case %d (%s): after %s returned %s the following locks are still held: %v", s.c.Index, s.c, fn, st, held),
			witness{Seed: s.r.Seed(), Phase: "named-attributes", Case: s.c.Index, Cfg: s.c.String(), Fn: fn, Status: st, Held: held, Log: append([]string(nil), s.log...)})
		return false
	}
	return true
}

func (s *naStepper) status(fn string, st virtual.Status) bool {
	return s.after(fn, vfsh.StatusName(st))
}
func (s *naStepper) err(fn string, err error) bool { return s.after(fn, vfsh.ErrName(err)) }

var naCreate = (&virtual.Attributes{}).SetPermissions(virtual.PermissionsRead | virtual.PermissionsWrite)

// createFile creates (exclusively) and returns an open file.
func (s *naStepper) createFile(what string, d virtual.Directory, name string, share virtual.ShareMask) virtual.Leaf {
	if s.dead {
		return nil
	}
	var a virtual.Attributes
	leaf, _, _, st := d.VirtualOpenChild(s.ctx, pc(name), share, naCreate, nil, naMaskLeaf, &a)
	if st == virtual.StatusOK {
		s.w.trackLeaf(what, leaf)
	}
	if !s.status("VirtualOpenChild(create)", st) || st != virtual.StatusOK {
		return nil
	}
	_, st = leaf.VirtualWrite(s.ctx, []byte("value"), 0)
	s.status("VirtualWrite", st)
	return leaf
}

func (s *naStepper) closeLeaf(l virtual.Leaf, share virtual.ShareMask) {
	if s.dead || l == nil {
		return
	}
	l.VirtualClose(share)
	s.after("VirtualClose", vfsh.OK)
}

func (s *naStepper) enter(what string, d virtual.PrepopulatedDirectory, name string) virtual.PrepopulatedDirectory {
	if s.dead {
		return nil
	}
	child, err := d.CreateAndEnterPrepopulatedDirectory(pc(name))
	if err == nil {
		s.w.trackDir(what, child)
	}
	s.err("CreateAndEnterPrepopulatedDirectory", err)
	return child
}

func (s *naStepper) openAttrs(what string, n virtual.Node, create bool) virtual.Directory {
	if s.dead {
		return nil
	}
	var a virtual.Attributes
	ad, st := n.VirtualOpenNamedAttributes(s.ctx, create, naMaskDir|virtual.AttributesMaskFileHandle, &a)
	if st == virtual.StatusOK {
		s.w.trackDir(what, ad)
	}
	s.status(fmt.Sprintf("VirtualOpenNamedAttributes(createdir=%v)", create), st)
	if st != virtual.StatusOK {
		return nil
	}
	return ad
}

func (s *naStepper) remove(fn string, d virtual.Directory, name string, dir, leaf bool) virtual.Status {
	if s.dead {
		return virtual.StatusErrIO
	}
	_, st := d.VirtualRemove(s.ctx, pc(name), dir, leaf)
	s.status(fn, st)
	return st
}

func (s *naStepper) link(d virtual.Directory, name string, l virtual.Leaf) {
	if s.dead {
		return
	}
	var a virtual.Attributes
	_, st := d.VirtualLink(s.ctx, pc(name), l, naMaskLeaf, &a)
	s.status("VirtualLink", st)
}

// naContentState is what populate() leaves behind for the later steps.
type naContentState struct {
	ad        virtual.Directory
	names     []string
	openAttr  virtual.Leaf // descriptor to close after the owner is gone
	linkedOut bool         // q/attr-link has to be removed after the owner is gone
	nested    virtual.Leaf
	nestedAD  virtual.Directory
}

// populate gives owner an attribute directory with the requested contents.
func (s *naStepper) populate(owner virtual.Node, q virtual.PrepopulatedDirectory) *naContentState {
	cs := &naContentState{}
	if s.c.Content == "none" {
		s.openAttrs("attribute-directory(of owner)", owner, false) // ENOENT
		return cs
	}
	if s.rng.IntN(2) == 0 {
		s.openAttrs("attribute-directory(of owner)", owner, false) // ENOENT first
	}
	cs.ad = s.openAttrs("attribute-directory(of owner)", owner, true)
	if cs.ad == nil {
		return cs
	}
	if s.rng.IntN(2) == 0 {
		s.openAttrs("attribute-directory(of owner)", owner, s.rng.IntN(2) == 0) // the existing one
	}
	attrName := func(k int) string {
		return []string{"user.comment", "user.mime_type", "com.apple.ResourceFork", "security.selinux", "trusted.overlay"}[(k+s.rng.IntN(5))%5] + fmt.Sprint(k)
	}
	addAttr := func(k int) virtual.Leaf {
		name := attrName(k)
		l := s.createFile(fmt.Sprintf("attribute-file(%d)", k), cs.ad, name, virtual.ShareMaskWrite)
		if l != nil {
			cs.names = append(cs.names, name)
			s.r.Situation("named-attributes:attribute-file-created")
		}
		return l
	}
	switch s.c.Content {
	case "empty-unentered":
	case "emptied":
		if l := addAttr(0); l != nil {
			s.closeLeaf(l, virtual.ShareMaskWrite)
			if s.remove("VirtualRemove(attribute)", cs.ad, cs.names[0], false, true) == virtual.StatusOK {
				s.r.Situation("named-attributes:attribute-file-removed")
			}
			cs.names = nil
		}
	case "one":
		s.closeLeaf(addAttr(0), virtual.ShareMaskWrite)
	case "several":
		for k, n := 0, 2+s.rng.IntN(3); k < n; k++ {
			s.closeLeaf(addAttr(k), virtual.ShareMaskWrite)
		}
		if len(cs.names) > 2 && s.rng.IntN(2) == 0 {
			if s.remove("VirtualRemove(attribute)", cs.ad, cs.names[0], false, true) == virtual.StatusOK {
				s.r.Situation("named-attributes:attribute-file-removed")
				cs.names = cs.names[1:]
			}
		}
	case "open-attribute":
		cs.openAttr = addAttr(0)
	case "linked-out":
		if l := addAttr(0); l != nil {
			s.closeLeaf(l, virtual.ShareMaskWrite)
			s.link(q, "attr-link", l)
			cs.linkedOut = true
		}
	case "nested":
		// A file that owns an attribute directory itself and whose only
		// link lives in this attribute directory: tearing down the owner
		// tears down that file and its attributes from the inside.
		if g := s.createFile("file(nested)", q, "g", virtual.ShareMaskWrite); g != nil {
			if gad := s.openAttrs("attribute-directory(of nested)", g, true); gad != nil {
				s.closeLeaf(s.createFile("attribute-file(of nested)", gad, "user.inner", virtual.ShareMaskWrite), virtual.ShareMaskWrite)
				cs.nestedAD = gad
			}
			s.closeLeaf(g, virtual.ShareMaskWrite)
			s.link(cs.ad, "user.nested", g)
			s.remove("VirtualRemove", q, "g", false, true)
			cs.nested = g
			cs.names = append(cs.names, "user.nested")
		}
	case "subdirectory":
		if !s.dead {
			var a virtual.Attributes
			sub, _, st := cs.ad.VirtualMkdir(s.ctx, pc("sub"), &virtual.Attributes{}, naMaskDir, &a)
			if st == virtual.StatusOK {
				s.w.trackDir("directory(inside attribute directory)", sub)
			}
			if s.status("VirtualMkdir(in attribute directory)", st) && st == virtual.StatusOK {
				s.closeLeaf(s.createFile("attribute-file(in subdirectory)", sub, "deep", virtual.ShareMaskWrite), virtual.ShareMaskWrite)
				cs.names = append(cs.names, "sub")
			}
		}
		s.closeLeaf(addAttr(1), virtual.ShareMaskWrite)
	}
	return cs
}

// noise issues a few PRNG-chosen calls that take the attribute directory's
// mutex from the outside or fail inside it.
func (s *naStepper) noise(owner virtual.Node, ownerName string, p virtual.Directory, cs *naContentState) {
	for k, n := 0, 2+s.rng.IntN(5); k < n && !s.dead; k++ {
		var a virtual.Attributes
		switch s.rng.IntN(12) {
		case 0:
			owner.VirtualGetAttributes(s.ctx, naMaskLeaf, &a)
			s.after("VirtualGetAttributes(has-named-attributes)", vfsh.OK)
		case 1:
			_, st := p.VirtualLookup(s.ctx, pc(ownerName), naMaskDir, &a)
			s.status("VirtualLookup(has-named-attributes)", st)
		case 2:
			s.status("VirtualReadDir(has-named-attributes)", p.VirtualReadDir(s.ctx, 0, naMaskDir, &countingReporter{limit: 8}))
		case 3:
			if cs.ad != nil {
				s.status("VirtualReadDir(attribute directory)", cs.ad.VirtualReadDir(s.ctx, 0, naMaskLeaf, &countingReporter{limit: 8}))
			}
		case 4:
			if cs.ad != nil {
				name := "user.absent"
				if len(cs.names) > 0 && s.rng.IntN(2) == 0 {
					name = cs.names[s.rng.IntN(len(cs.names))]
				}
				_, st := cs.ad.VirtualLookup(s.ctx, pc(name), naMaskLeaf|virtual.AttributesMaskLastDataModificationTime, &a)
				s.status("VirtualLookup(attribute)", st)
			}
		case 5:
			if cs.ad != nil && len(cs.names) > 0 {
				_, _, _, st := cs.ad.VirtualOpenChild(s.ctx, pc(cs.names[0]), virtual.ShareMaskRead, naCreate, nil, naMaskLeaf, &a)
				s.status("VirtualOpenChild(attribute, exclusive)", st) // EEXIST / EISDIR
			}
		case 6:
			if cs.ad != nil {
				s.remove("VirtualRemove(attribute)", cs.ad, "user.absent", true, true) // ENOENT
			}
		case 7:
			if cs.ad != nil {
				// Attribute directories and attributes cannot have
				// attributes themselves.
				_, st := cs.ad.VirtualOpenNamedAttributes(s.ctx, s.rng.IntN(2) == 0, naMaskDir, &a)
				s.status("VirtualOpenNamedAttributes(on attribute directory)", st)
				if len(cs.names) > 0 {
					if child, st := cs.ad.VirtualLookup(s.ctx, pc(cs.names[0]), naMaskLeaf, &a); st == virtual.StatusOK {
						s.status("VirtualLookup(attribute)", st)
						_, n := child.GetPair()
						if n != nil && !s.dead {
							_, st := n.VirtualOpenNamedAttributes(s.ctx, true, naMaskDir, &a)
							s.status("VirtualOpenNamedAttributes(on attribute)", st)
						}
					}
				}
			}
		case 8:
			if cs.ad != nil {
				// The file allocator fails with the attribute
				// directory's mutex held.
				s.w.pool.FailNewFile.Store(1)
				_, _, _, st := cs.ad.VirtualOpenChild(s.ctx, pc("user.unlucky"), virtual.ShareMaskWrite, naCreate, nil, naMaskLeaf, &a)
				s.w.pool.FailNewFile.Store(0)
				s.status("VirtualOpenChild(attribute, allocator fails)", st)
			}
		case 9:
			if cs.ad != nil {
				cs.ad.VirtualGetAttributes(s.ctx, naMaskDir, &a)
				s.after("VirtualGetAttributes(attribute directory)", vfsh.OK)
				if s.w.nfs != nil && !s.dead {
					var fh virtual.Attributes
					cs.ad.VirtualGetAttributes(s.ctx, virtual.AttributesMaskFileHandle, &fh)
					_, st := s.w.nfs.ResolveHandle(bytes.NewBuffer(fh.GetFileHandle()))
					s.status("ResolveHandle(attribute directory)", st)
				}
			}
		case 10:
			if cs.ad != nil && len(cs.names) > 0 && s.c.Content != "nested" {
				from := cs.names[len(cs.names)-1]
				_, _, st := cs.ad.VirtualRename(s.ctx, pc(from), cs.ad, pc("user.renamed"))
				if s.status("VirtualRename(attribute)", st) && st == virtual.StatusOK {
					_, _, st = cs.ad.VirtualRename(s.ctx, pc("user.renamed"), cs.ad, pc(from))
					s.status("VirtualRename(attribute)", st)
				}
			}
		default:
			// The root predates the hooks: no named attributes.
			_, st := s.w.root.VirtualOpenNamedAttributes(s.ctx, s.rng.IntN(2) == 0, naMaskDir, &a)
			s.status("VirtualOpenNamedAttributes(unsupported)", st)
		}
	}
}

// tornDown asks the attribute directory whether it has been deleted. The
// question initialises a directory that was never looked into, so it is only
// asked once the tear-down is expected to have happened.
func (s *naStepper) tornDown(ad virtual.Directory) bool {
	if s.dead {
		return false
	}
	err := ad.(virtual.PrepopulatedDirectory).CreateChildren(map[path.Component]virtual.InitialChild{}, false)
	s.err("CreateChildren(nothing, attribute directory)", err)
	return vfsh.ErrName(err) == vfsh.ENOENT
}

// resolvable tells whether the NFS handle of the attribute directory still
// resolves (a non-mutating view of "not torn down yet").
func (s *naStepper) resolvable(ad virtual.Directory) (bool, bool) {
	if s.w.nfs == nil || s.dead {
		return false, false
	}
	var fh virtual.Attributes
	ad.VirtualGetAttributes(s.ctx, virtual.AttributesMaskFileHandle, &fh)
	_, st := s.w.nfs.ResolveHandle(bytes.NewBuffer(fh.GetFileHandle()))
	s.status("ResolveHandle(attribute directory)", st)
	return st == virtual.StatusOK, true
}

// checkTeardown compares the state of the attribute directory with what the
// reference counts predict. A difference is not a C14 verdict (lifetimes are
// property C16); it is counted so that a wrong prediction cannot feed the
// situation counters unnoticed.
func (s *naStepper) checkTeardown(cs *naContentState, expected bool) bool {
	if cs.ad == nil || s.dead {
		return false
	}
	observed := false
	if expected {
		observed = s.tornDown(cs.ad)
	}
	differs := observed != expected
	if resolves, known := s.resolvable(cs.ad); known && !s.dead {
		if resolves == expected {
			differs = true
		}
		if !expected && !resolves {
			observed = true
		}
	}
	if differs && !s.dead {
		s.r.Count("named-attributes:teardown-differs-from-reference-counts(no C14 verdict)", 1)
	}
	return observed && !s.dead
}

// afterOwnerGone issues calls against the attribute directory (and the
// stale nodes) of an owner that no longer exists, and lets go of whatever
// outlived the owner.
func (s *naStepper) afterOwnerGone(owner virtual.Node, ownerLeaf virtual.Leaf, q virtual.PrepopulatedDirectory, cs *naContentState) {
	if cs.ad == nil {
		return
	}
	var a virtual.Attributes
	if !s.dead {
		_, _, _, st := cs.ad.VirtualOpenChild(s.ctx, pc("user.late"), virtual.ShareMaskWrite, naCreate, nil, naMaskLeaf, &a)
		if s.status("VirtualOpenChild(removed attribute directory)", st) && st != virtual.StatusOK {
			s.r.Situation("named-attributes:call-on-attribute-directory-of-removed-owner")
		}
	}
	if !s.dead {
		_, _, st := cs.ad.VirtualMkdir(s.ctx, pc("late"), &virtual.Attributes{}, naMaskDir, &a)
		s.status("VirtualMkdir(removed attribute directory)", st)
	}
	if !s.dead {
		name := "user.absent"
		if len(cs.names) > 0 {
			name = cs.names[0]
		}
		_, st := cs.ad.VirtualLookup(s.ctx, pc(name), naMaskLeaf, &a)
		s.status("VirtualLookup(removed attribute directory)", st)
		s.remove("VirtualRemove(removed attribute directory)", cs.ad, name, true, true)
	}
	if !s.dead {
		s.status("VirtualReadDir(removed attribute directory)", cs.ad.VirtualReadDir(s.ctx, 0, naMaskLeaf, &countingReporter{limit: 4}))
	}
	if !s.dead {
		owner.VirtualGetAttributes(s.ctx, naMaskLeaf, &a)
		s.after("VirtualGetAttributes(has-named-attributes, removed owner)", vfsh.OK)
	}
	if ownerLeaf != nil && !s.dead {
		st := ownerLeaf.VirtualOpenSelf(s.ctx, virtual.ShareMaskRead, &virtual.OpenExistingOptions{}, naMaskLeaf, &a)
		s.status("VirtualOpenSelf(removed owner)", st)
		if st == virtual.StatusOK {
			s.closeLeaf(ownerLeaf, virtual.ShareMaskRead)
		}
		s.link(q, "resurrected", ownerLeaf) // ESTALE
	}
	if cs.openAttr != nil && !s.dead {
		// The attribute outlived its directory; writing still works.
		_, st := cs.openAttr.VirtualWrite(s.ctx, []byte("late"), 0)
		s.status("VirtualWrite(attribute of removed owner)", st)
		s.link(cs.ad, "user.relinked", cs.openAttr) // ENOENT: directory is gone
		s.closeLeaf(cs.openAttr, virtual.ShareMaskWrite)
		s.r.Situation("named-attributes:attribute-file-outlives-owner")
	}
	if cs.linkedOut && !s.dead {
		if s.remove("VirtualRemove(last link of attribute)", q, "attr-link", false, true) == virtual.StatusOK {
			s.r.Situation("named-attributes:attribute-file-outlives-owner")
		}
	}
	if cs.nestedAD != nil && !s.dead {
		if s.tornDown(cs.nestedAD) {
			s.r.Situation("named-attributes:nested-teardown")
		}
	}
}

func (s *naStepper) fifo() virtual.LinkableLeaf {
	return s.w.handles.New().AsLinkableLeaf(virtual.NewSpecialFile(filesystem.FileTypeFIFO, nil))
}

// dropFile removes the directory entry of the owner file in p by the route
// of the case.
func (s *naStepper) dropFile(p, q virtual.PrepopulatedDirectory, name string, victim virtual.Leaf) {
	if s.dead {
		return
	}
	var a virtual.Attributes
	root := s.w.root
	switch s.c.Route {
	case "VirtualRemove":
		s.remove("VirtualRemove", p, name, false, true)
	case "Remove":
		s.err("Remove", p.Remove(pc(name)))
	case "RemoveAll":
		s.err("RemoveAll", p.RemoveAll(pc(name)))
	case "VirtualRename-over(same directory)", "VirtualRename-over(other directory)":
		from := p
		if s.c.Route == "VirtualRename-over(other directory)" {
			from = q
		}
		s.closeLeaf(s.createFile("file(other)", from, "other", virtual.ShareMaskWrite), virtual.ShareMaskWrite)
		if !s.dead {
			_, _, st := from.VirtualRename(s.ctx, pc("other"), p, pc(name))
			s.status("VirtualRename(over)", st)
		}
	case "RemoveAll(ancestor)":
		s.err("RemoveAll(ancestor)", root.RemoveAll(pc("p")))
	case "RemoveAllChildren(parent,false)":
		s.err("RemoveAllChildren(false)", p.RemoveAllChildren(false))
	case "RemoveAllChildren(parent,true)":
		s.err("RemoveAllChildren(true)", p.RemoveAllChildren(true))
	case "CreateChildren(overwrite)":
		leaf := s.fifo()
		err := p.CreateChildren(map[path.Component]virtual.InitialChild{pc(name): virtual.InitialChild{}.FromLeaf(leaf)}, true)
		s.err("CreateChildren(overwrite)", err)
	case "CreateAndEnterPrepopulatedDirectory(replace)":
		s.enter("directory(replacement)", p, name)
	case "FilterChildren(remove)":
		removed := vfsh.ENOENT
		err := p.FilterChildren(func(node virtual.InitialChild, remove virtual.ChildRemover) bool {
			if _, leaf := node.GetPair(); leaf != nil && virtual.Leaf(leaf) == victim {
				removed = vfsh.ErrName(remove())
			}
			return true
		})
		s.err("FilterChildren", err)
		s.after("FilterChildren(remover)", removed)
	case "VirtualRemove(parent holding it under a hidden name)":
		s.remove("VirtualRemove(directory with hidden files)", root, "p", true, false)
	case "Remove(parent holding it under a hidden name)":
		s.err("Remove(directory with hidden files)", root.Remove(pc("p")))
	case "VirtualRename-directory-over(parent holding it under a hidden name)":
		_, _, st := root.VirtualMkdir(s.ctx, pc("e"), &virtual.Attributes{}, naMaskDir, &a)
		if s.status("VirtualMkdir", st) {
			_, _, st := root.VirtualRename(s.ctx, pc("e"), root, pc("p"))
			s.status("VirtualRename(directory over directory with hidden files)", st)
		}
	default:
		panic("c14: unknown route " + s.c.Route)
	}
}

func (s *naStepper) runFile() {
	w := s.w
	p := s.enter("directory(p)", w.root, "p")
	q := s.enter("directory(q)", w.root, "q")
	if p == nil || q == nil {
		return
	}
	name := "victim"
	if strings.Contains(s.c.Route, "hidden name") {
		name = "._victim"
	}
	share := virtual.ShareMaskWrite
	if s.rng.IntN(2) == 0 {
		share |= virtual.ShareMaskRead
	}
	victim := s.createFile("file(owner)", p, name, share)
	if victim == nil {
		return
	}
	hasLink := s.c.Links != "single"
	if hasLink {
		s.link(q, "hl", victim)
	}
	cs := s.populate(victim, q)
	if cs.ad != nil {
		s.r.Situation("named-attributes:attribute-directory-created-on-file")
	}
	s.noise(victim, name, p, cs)

	refs := 2 // directory entry + descriptor
	if hasLink {
		refs++
	}
	// One step that drops a reference; tells whether the attribute
	// directory was torn down by it.
	step := func(kind string, f func()) {
		if s.dead {
			return
		}
		f()
		refs--
		if cs.ad == nil {
			return
		}
		torn := s.checkTeardown(cs, refs == 0)
		switch {
		case torn && kind == "close":
			s.r.Situation("named-attributes:last-close-after-unlink-of-file-with-attribute-directory:" + s.c.Alloc)
		case torn:
			s.r.Situation("named-attributes:last-unlink-of-file-with-attribute-directory:" + s.c.Alloc)
			s.r.Situation("named-attributes:last-unlink:" + s.c.Alloc + ":route=" + kind)
			if naHasEntries(s.c.Content) {
				s.r.Situation("named-attributes:last-unlink-of-file-with-attribute-files:" + s.c.Alloc)
			}
		case kind != "close" && !s.dead:
			s.r.Situation("named-attributes:unlink-not-last-of-file-with-attribute-directory")
		}
	}
	closeIt := func() { step("close", func() { s.closeLeaf(victim, share) }) }
	dropLink := func() { step("VirtualRemove(second link)", func() { s.remove("VirtualRemove", q, "hl", false, true) }) }
	drop := func() { step(s.c.Route, func() { s.dropFile(p, q, name, victim) }) }

	if s.c.Order == "close-then-unlink" {
		closeIt()
	}
	if s.c.Links == "second-link-removed-first" {
		dropLink()
	}
	drop()
	if s.c.Links == "second-link-removed-last" {
		dropLink()
	}
	if s.c.Order == "unlink-then-close" {
		closeIt()
	}
	s.afterOwnerGone(victim, victim, q, cs)
}

func (s *naStepper) runDirectory() {
	w := s.w
	p := s.enter("directory(p)", w.root, "p")
	q := s.enter("directory(q)", w.root, "q")
	if p == nil || q == nil || s.dead {
		return
	}
	var a virtual.Attributes
	dd, _, st := p.VirtualMkdir(s.ctx, pc("d"), &virtual.Attributes{}, naMaskDir, &a)
	if st == virtual.StatusOK {
		w.trackDir("directory(owner)", dd)
	}
	if !s.status("VirtualMkdir", st) || st != virtual.StatusOK {
		return
	}
	d := dd.(virtual.PrepopulatedDirectory)
	cs := s.populate(d, q)
	if cs.ad != nil {
		s.r.Situation("named-attributes:attribute-directory-created-on-directory")
	}
	s.noise(d, "d", p, cs)
	if s.dead {
		return
	}
	switch s.c.Route {
	case "VirtualRemove":
		s.remove("VirtualRemove(directory)", p, "d", true, false)
	case "Remove":
		s.err("Remove(directory)", p.Remove(pc("d")))
	case "RemoveAll":
		s.err("RemoveAll(directory)", p.RemoveAll(pc("d")))
	case "VirtualRename-directory-over":
		_, _, st := p.VirtualMkdir(s.ctx, pc("e"), &virtual.Attributes{}, naMaskDir, &a)
		if s.status("VirtualMkdir", st) {
			_, _, st := p.VirtualRename(s.ctx, pc("e"), p, pc("d"))
			s.status("VirtualRename(directory over directory)", st)
		}
	case "RemoveAll(ancestor)":
		s.err("RemoveAll(ancestor)", w.root.RemoveAll(pc("p")))
	case "RemoveAllChildren(self,true)":
		s.err("RemoveAllChildren(true)", d.RemoveAllChildren(true))
	case "RemoveAllChildren(parent,true)":
		s.err("RemoveAllChildren(true)", p.RemoveAllChildren(true))
	case "RemoveAllChildren(parent,false)":
		s.err("RemoveAllChildren(false)", p.RemoveAllChildren(false))
	case "CreateChildren(overwrite)":
		err := p.CreateChildren(map[path.Component]virtual.InitialChild{pc("d"): virtual.InitialChild{}.FromLeaf(s.fifo())}, true)
		s.err("CreateChildren(overwrite)", err)
	default:
		panic("c14: unknown route " + s.c.Route)
	}
	if cs.ad != nil && s.checkTeardown(cs, true) {
		s.r.Situation("named-attributes:removal-of-directory-with-attribute-directory:" + s.c.Alloc)
		s.r.Situation("named-attributes:directory-removal:" + s.c.Alloc + ":route=" + s.c.Route)
	}
	s.afterOwnerGone(d, nil, q, cs)
}

func runNamedAttributesCase(r *ev.Run, rc *reach, c naCase, progress *atomic.Int64) {
	r.Case("named-attributes case=%d %s", c.Index, c)
	s := &naStepper{r: r, rc: rc, c: c, w: newNAWorld(c.Alloc, true), rng: r.Rand(14, 11, uint64(c.Index)), ctx: context.Background(), progress: progress}
	if c.Owner == "file" {
		s.runFile()
	} else {
		s.runDirectory()
	}
	r.Count("named_attributes_probe_calls", len(s.log))
	r.Count("named_attributes_lock_probes", s.probes)
	if n := s.w.notifications.Load(); n > 0 {
		r.Count("named_attributes_fuse_removal_notifications", int(n))
		r.Count("named_attributes_fuse_removal_notifications_with_a_directory_mutex_held(no verdict)", int(s.w.notificationsHeld.Load()))
	}
	// Whatever is left in the tree goes away through one more route; after
	// that every pool file must have been closed (a difference is counted
	// only: lifetimes are property C16).
	if !s.dead {
		s.err("RemoveAllChildren(false, root)", s.w.root.RemoveAllChildren(false))
	}
	if !s.dead && s.w.pool.Created.Load() != s.w.pool.Closed.Load() {
		r.Count("named_attributes_pool_files_not_closed(C16)", int(s.w.pool.Created.Load()-s.w.pool.Closed.Load()))
	}
	hs := []any{"named-attributes", c.String()}
	for _, l := range s.log {
		hs = append(hs, l)
	}
	r.Hash(ev.HashOf(hs...), s.errs > 0)
	if c.Index == 3 && r.WantSample() {
		r.Sample(map[string]any{"phase": "named-attributes", "case": c, "calls": s.log})
	}
}

// ---- concurrent rounds ------------------------------------------------------------

type naStress struct {
	w        *naWorld
	a, b     virtual.PrepopulatedDirectory
	handles  sync.Map // NFS file handle (string) of every attribute directory seen
	removing atomic.Int64
	inAttrs  atomic.Int64
}

func naStressRound(r *ev.Run, rc *reach, i int) roundVerdict {
	rng := r.Rand(14, 12, uint64(i))
	alloc := []string{"nfs", "nfs", "fuse"}[i%3]
	nWorkers := 6 + rng.IntN(7)
	iters := 120 + rng.IntN(121)
	procs := []int{4, 16}[(i/3)%2]
	r.Case("named-attributes-stress round=%d alloc=%s goroutines=%d iterations=%d GOMAXPROCS=%d", i, alloc, nWorkers, iters, procs)
	old := runtime.GOMAXPROCS(procs)
	defer runtime.GOMAXPROCS(old)

	s := &naStress{w: newNAWorld(alloc, false)}
	var err error
	if s.a, err = s.w.root.CreateAndEnterPrepopulatedDirectory(pc("A")); err != nil {
		panic(err)
	}
	if s.b, err = s.w.root.CreateAndEnterPrepopulatedDirectory(pc("B")); err != nil {
		panic(err)
	}
	s.w.trackDir("directory(A)", s.a)
	s.w.trackDir("directory(B)", s.b)

	var progress atomic.Int64
	stats := &stressStats{statuses: map[string]int{}, overlaps: map[string]int{}}
	workers := make([]func(), nWorkers)
	for k := range workers {
		workers[k] = s.worker(r.Rand(14, 12, uint64(i), uint64(k)), iters, &progress, stats)
	}
	v := runRound(r, "named-attributes", map[string]any{"round": i, "allocator": alloc, "goroutines": nWorkers, "iterations": iters, "gomaxprocs": procs}, &progress, workers)
	for k, n := range stats.statuses {
		fn, st, _ := strings.Cut(k, "/")
		rc.add(fn, st, n)
	}
	total := 0
	for k, n := range stats.overlaps {
		r.SituationN("named-attributes:stress:"+k, n)
		total += n
	}
	r.Count("named_attributes_stress_calls", int(progress.Load()))
	if v != roundFinished {
		return v
	}
	r.Situation("stress-round-finished:named-attributes")
	held, probes := s.w.probe()
	r.Count("named_attributes_stress_lock_probes", probes)
	if len(held) > 0 {
		r.Violation(leakSig("virtual", "concurrent-round:named-attributes", "-", lockKind(held)),
			fmt.Sprintf("named-attributes stress round %d (%s): after all calls returned %d locks are still held: %v", i, alloc, len(held), held),
			witness{Seed: r.Seed(), Phase: "named-attributes-stress", Case: i, Cfg: alloc, Held: held})
		return v
	}
	// How many attribute directories were torn down during the round.
	torn := 0
	for _, t := range s.w.snapshot() {
		if t.dir != nil && strings.HasPrefix(t.what, "attribute-directory") {
			if t.dir.(virtual.PrepopulatedDirectory).CreateChildren(map[path.Component]virtual.InitialChild{}, false) != nil {
				torn++
			}
		}
	}
	r.SituationN("named-attributes:stress:attribute-directories-torn-down", torn)
	r.Hash(ev.HashOf("named-attributes-stress", i, alloc, nWorkers, len(stats.statuses), total > 0), total > 0)
	return v
}

func (s *naStress) worker(rng *rand.Rand, iters int, progress *atomic.Int64, stats *stressStats) func() {
	return func() {
		ctx := context.Background()
		statuses := map[string]int{}
		overlaps := map[string]int{}
		count := func(fn, st string) { statuses["virtual."+fn+"(named-attributes, concurrent)/"+st]++ }
		dirs := []virtual.PrepopulatedDirectory{s.a, s.b}
		pick := func() virtual.PrepopulatedDirectory { return dirs[rng.IntN(2)] }
		fileName := func() string { return fmt.Sprintf("v%d", rng.IntN(4)) }
		dirName := func() string { return fmt.Sprintf("d%d", rng.IntN(2)) }
		attrName := func() string { return fmt.Sprintf("user.a%d", rng.IntN(3)) }

		// lookup returns the owner under a random name, file or directory.
		lookup := func() virtual.Node {
			var a virtual.Attributes
			name := fileName()
			if rng.IntN(4) == 0 {
				name = dirName()
			}
			child, st := pick().VirtualLookup(ctx, pc(name), naMaskDir, &a)
			count("VirtualLookup(has-named-attributes)", vfsh.StatusName(st))
			if st != virtual.StatusOK {
				return nil
			}
			d, l := child.GetPair()
			if d != nil {
				s.w.trackDir("directory(owner)", d)
				return d
			}
			s.w.trackLeaf("file(owner)", l)
			return l
		}
		attrs := func(n virtual.Node, create bool) virtual.Directory {
			var a virtual.Attributes
			ad, st := n.VirtualOpenNamedAttributes(ctx, create, naMaskDir, &a)
			count(fmt.Sprintf("VirtualOpenNamedAttributes(createdir=%v)", create), vfsh.StatusName(st))
			if st != virtual.StatusOK {
				return nil
			}
			s.w.trackDir("attribute-directory", ad)
			if s.w.nfs != nil {
				var fh virtual.Attributes
				ad.VirtualGetAttributes(ctx, virtual.AttributesMaskFileHandle, &fh)
				s.handles.LoadOrStore(string(fh.GetFileHandle()), struct{}{})
			}
			return ad
		}
		addAttr := func(ad virtual.Directory) {
			var a virtual.Attributes
			l, _, _, st := ad.VirtualOpenChild(ctx, pc(attrName()), virtual.ShareMaskWrite, naCreate, &virtual.OpenExistingOptions{Truncate: rng.IntN(4) == 0}, naMaskLeaf, &a)
			count("VirtualOpenChild(attribute)", vfsh.StatusName(st))
			if st == virtual.StatusOK {
				s.w.trackLeaf("attribute-file", l)
				l.VirtualWrite(ctx, []byte("v"), 0)
				l.VirtualClose(virtual.ShareMaskWrite)
			}
		}
		inAttrs := func(f func()) {
			s.inAttrs.Add(1)
			if s.removing.Load() > 0 {
				overlaps["attribute-directory-calls-racing-owner-removal"]++
			}
			f()
			s.inAttrs.Add(-1)
		}
		removing := func(f func()) {
			s.removing.Add(1)
			if s.inAttrs.Load() > 0 {
				overlaps["owner-removal-racing-attribute-directory-calls"]++
			}
			f()
			s.removing.Add(-1)
		}

		ops := []func(){
			// A new owner file with attributes.
			func() {
				var a virtual.Attributes
				l, _, _, st := pick().VirtualOpenChild(ctx, pc(fileName()), virtual.ShareMaskWrite, naCreate, &virtual.OpenExistingOptions{}, naMaskLeaf, &a)
				count("VirtualOpenChild", vfsh.StatusName(st))
				if st != virtual.StatusOK {
					return
				}
				s.w.trackLeaf("file(owner)", l)
				if rng.IntN(4) != 0 {
					inAttrs(func() {
						if ad := attrs(l, true); ad != nil {
							for k, n := 0, rng.IntN(3); k < n; k++ {
								addAttr(ad)
							}
						}
					})
				}
				l.VirtualClose(virtual.ShareMaskWrite)
				count("VirtualClose", vfsh.OK)
			},
			// A new owner directory with attributes.
			func() {
				var a virtual.Attributes
				d, _, st := pick().VirtualMkdir(ctx, pc(dirName()), &virtual.Attributes{}, naMaskDir, &a)
				count("VirtualMkdir", vfsh.StatusName(st))
				if st != virtual.StatusOK {
					return
				}
				s.w.trackDir("directory(owner)", d)
				inAttrs(func() {
					if ad := attrs(d, true); ad != nil && rng.IntN(2) == 0 {
						addAttr(ad)
					}
				})
			},
			// Work inside the attribute directory of whatever is there.
			func() {
				n := lookup()
				if n == nil {
					return
				}
				inAttrs(func() {
					ad := attrs(n, rng.IntN(3) != 0)
					if ad == nil {
						return
					}
					var a virtual.Attributes
					switch rng.IntN(6) {
					case 0, 1:
						addAttr(ad)
					case 2:
						_, st := ad.VirtualRemove(ctx, pc(attrName()), false, true)
						count("VirtualRemove(attribute)", vfsh.StatusName(st))
					case 3:
						count("VirtualReadDir(attribute directory)", vfsh.StatusName(ad.VirtualReadDir(ctx, 0, naMaskLeaf, &countingReporter{limit: 4})))
					case 4:
						_, st := ad.VirtualLookup(ctx, pc(attrName()), naMaskLeaf, &a)
						count("VirtualLookup(attribute)", vfsh.StatusName(st))
					default:
						_, _, st := ad.VirtualRename(ctx, pc(attrName()), ad, pc(attrName()))
						count("VirtualRename(attribute)", vfsh.StatusName(st))
					}
				})
			},
			// Attributes that need the attribute directory's mutex.
			func() {
				var a virtual.Attributes
				switch rng.IntN(3) {
				case 0:
					if n := lookup(); n != nil {
						n.VirtualGetAttributes(ctx, naMaskLeaf, &a)
						count("VirtualGetAttributes(has-named-attributes)", vfsh.OK)
					}
				case 1:
					count("VirtualReadDir(has-named-attributes)", vfsh.StatusName(pick().VirtualReadDir(ctx, 0, naMaskDir, &countingReporter{limit: 6})))
				default:
					if l, ok := lookup().(virtual.Leaf); ok {
						st := l.VirtualOpenSelf(ctx, virtual.ShareMaskRead, &virtual.OpenExistingOptions{}, naMaskLeaf, &a)
						count("VirtualOpenSelf(has-named-attributes)", vfsh.StatusName(st))
						if st == virtual.StatusOK {
							yieldNow()
							// Possibly the last reference: tear-down from VirtualClose.
							removing(func() { l.VirtualClose(virtual.ShareMaskRead) })
							count("VirtualClose", vfsh.OK)
						}
					}
				}
			},
			// A second hard link.
			func() {
				if l, ok := lookup().(virtual.Leaf); ok {
					var a virtual.Attributes
					_, st := pick().VirtualLink(ctx, pc(fileName()), l, naMaskLeaf, &a)
					count("VirtualLink", vfsh.StatusName(st))
				}
			},
			// Removal of an owner by one of the routes.
			func() {
				removing(func() {
					d := pick()
					switch rng.IntN(8) {
					case 0, 1:
						_, st := d.VirtualRemove(ctx, pc(fileName()), false, true)
						count("VirtualRemove", vfsh.StatusName(st))
					case 2:
						_, st := d.VirtualRemove(ctx, pc(dirName()), true, false)
						count("VirtualRemove(directory)", vfsh.StatusName(st))
					case 3:
						count("Remove", vfsh.ErrName(d.Remove(pc(fileName()))))
					case 4:
						name := fileName()
						if rng.IntN(2) == 0 {
							name = dirName()
						}
						count("RemoveAll", vfsh.ErrName(d.RemoveAll(pc(name))))
					case 5:
						_, _, st := d.VirtualRename(ctx, pc(fileName()), pick(), pc(fileName()))
						count("VirtualRename(over)", vfsh.StatusName(st))
					case 6:
						if rng.IntN(4) == 0 {
							count("RemoveAllChildren(false)", vfsh.ErrName(d.RemoveAllChildren(false)))
						}
					default:
						leaf := s.w.handles.New().AsLinkableLeaf(virtual.NewSpecialFile(filesystem.FileTypeFIFO, nil))
						err := d.CreateChildren(map[path.Component]virtual.InitialChild{pc(fileName()): virtual.InitialChild{}.FromLeaf(leaf)}, true)
						count("CreateChildren(overwrite)", vfsh.ErrName(err))
					}
				})
			},
			// NFS: resolve the handle of an attribute directory, torn down or not.
			func() {
				if s.w.nfs == nil {
					return
				}
				s.handles.Range(func(k, _ any) bool {
					child, st := s.w.nfs.ResolveHandle(bytes.NewBufferString(k.(string)))
					count("ResolveHandle(attribute directory)", vfsh.StatusName(st))
					if st == virtual.StatusOK {
						if d, _ := child.GetPair(); d != nil {
							var a virtual.Attributes
							d.VirtualGetAttributes(ctx, naMaskDir, &a)
						}
					}
					return rng.IntN(3) != 0
				})
			},
		}
		for it := 0; it < iters; it++ {
			ops[rng.IntN(len(ops))]()
			progress.Add(1)
			if rng.IntN(4) == 0 {
				yieldNow()
			}
		}
		stats.merge(statuses, overlaps)
	}
}

// ---- phase ------------------------------------------------------------------------

func runNamedAttributesPhase(r *ev.Run, rc *reach) {
	r.Assume("named attributes: the tree is wired by virtualBuildDirectory.InstallHooks (one handle allocator for files, directories, attribute directories and attributes). " +
		"No FUSE operation can create an attribute directory, so a removal notification delivered with a directory mutex held during a tear-down under the FUSE allocator is only counted, not judged")
	hung := 0
	timed(r, "named-attributes-probe", func() {
		cases := naCases()
		var hangs, skipped atomic.Int64
		parallel(8, len(cases), func(i int) {
			if hangs.Load() >= 3 {
				skipped.Add(1)
				return
			}
			var progress atomic.Int64
			c := cases[i]
			if runRound(r, "named-attributes-case", c, &progress, []func(){func() { runNamedAttributesCase(r, rc, c, &progress) }}) != roundFinished {
				hangs.Add(1)
			}
		})
		if skipped.Load() > 0 {
			r.Count("named-attributes-cases_skipped_after_three_hangs", int(skipped.Load()))
		}
		hung = int(hangs.Load())
	})
	timed(r, "named-attributes-stress", func() {
		// The goroutines of a hung case can never be reclaimed and every
		// round would most likely block on the same defect.
		if hung >= 3 {
			r.Count("named-attributes-stress_skipped_after_hangs_in_the_stepped_cases", 1)
			return
		}
		n := r.Pick(30, 600)
		hangs := 0
		for i := 0; i < n && hangs < 2; i++ {
			if naStressRound(r, rc, i) != roundFinished {
				hangs++
			}
		}
	})
	naFloors(r)
}

func naFloors(r *ev.Run) {
	r.Floor("named-attributes:attribute-directory-created-on-file", 800)
	r.Floor("named-attributes:attribute-directory-created-on-directory", 80)
	r.Floor("named-attributes:attribute-file-created", 800)
	r.Floor("named-attributes:attribute-file-removed", 80)
	r.Floor("named-attributes:last-unlink-of-file-with-attribute-directory:nfs", 300)
	r.Floor("named-attributes:last-unlink-of-file-with-attribute-files:nfs", 200)
	r.Floor("named-attributes:last-unlink-of-file-with-attribute-directory:fuse", 300)
	r.Floor("named-attributes:last-close-after-unlink-of-file-with-attribute-directory:nfs", 150)
	r.Floor("named-attributes:last-close-after-unlink-of-file-with-attribute-directory:fuse", 150)
	r.Floor("named-attributes:unlink-not-last-of-file-with-attribute-directory", 800)
	r.Floor("named-attributes:removal-of-directory-with-attribute-directory:nfs", 50)
	r.Floor("named-attributes:removal-of-directory-with-attribute-directory:fuse", 50)
	r.Floor("named-attributes:attribute-file-outlives-owner", 100)
	r.Floor("named-attributes:nested-teardown", 50)
	r.Floor("named-attributes:call-on-attribute-directory-of-removed-owner", 800)
	for _, route := range naFileRoutes {
		r.Floor("named-attributes:last-unlink:nfs:route="+route, 8)
	}
	r.Floor("named-attributes:last-unlink:nfs:route=VirtualRemove(second link)", 50)
	for _, route := range naDirRoutes {
		r.Floor("named-attributes:directory-removal:nfs:route="+route, 4)
	}
	for _, st := range []string{vfsh.ENOENT, vfsh.EEXIST, vfsh.EIO, vfsh.ESTALE, "EWRONGTYPE", "EACCES"} {
		r.Floor("named-attributes:probed-after-error-return:"+st, 20)
	}
	r.Floor("stress-round-finished:named-attributes", 15)
	r.Floor("named-attributes:stress:owner-removal-racing-attribute-directory-calls", 50)
	r.Floor("named-attributes:stress:attribute-directory-calls-racing-owner-removal", 50)
	r.Floor("named-attributes:stress:attribute-directories-torn-down", 50)
}
