package c14

import (
	"cloud.google.com/go/longrunning/autogen/longrunningpb"
	"context"
	"errors"
	"fmt"
	"runtime"
	"sync"
	"sync/atomic"
	"time"

	remoteexecution "github.com/bazelbuild/remote-apis/build/bazel/remote/execution/v2"
	"github.com/buildbarn/bb-remote-execution/pkg/cleaner"
	"github.com/buildbarn/bb-remote-execution/pkg/filesystem/pool"
	"github.com/buildbarn/bb-remote-execution/pkg/proto/buildqueuestate"
	"github.com/buildbarn/bb-remote-execution/pkg/proto/remoteworker"
	"github.com/buildbarn/bb-remote-execution/pkg/scheduler"
	"github.com/buildbarn/bb-remote-execution/pkg/scheduler/initialsizeclass"
	"github.com/buildbarn/bb-remote-execution/pkg/scheduler/invocation"
	"github.com/buildbarn/bb-remote-execution/pkg/scheduler/platform"
	re_sync "github.com/buildbarn/bb-remote-execution/pkg/sync"
	"github.com/buildbarn/bb-storage/pkg/auth"
	"github.com/buildbarn/bb-storage/pkg/blobstore"
	"github.com/buildbarn/bb-storage/pkg/blobstore/buffer"
	"github.com/buildbarn/bb-storage/pkg/digest"
	"github.com/buildbarn/bb-storage/pkg/util"
	"github.com/google/uuid"
	"google.golang.org/grpc/codes"
	"google.golang.org/grpc/metadata"
	"google.golang.org/grpc/status"
	"google.golang.org/protobuf/types/known/emptypb"

	"verif/internal/ev"
	"verif/internal/vclock"
)

// smallProbe is the shared bookkeeping of the scripted probe sequences.
type smallProbe struct {
	progress atomic.Int64
	r        *ev.Run
	rc       *reach
	pkg      string
	log      []string
	dead     bool
	probe    func() []string
}

func errStatus(err error) string {
	if err == nil {
		return "OK"
	}
	if s, ok := status.FromError(err); ok {
		return s.Code().String()
	}
	return "ERR"
}

// after records that fn returned st and probes all locks of the object.
func (p *smallProbe) after(fn, st string) bool {
	p.progress.Add(1)
	if p.dead {
		return false
	}
	p.log = append(p.log, fn+" -> "+st)
	p.rc.add(p.pkg+"."+fn, st, 1)
	p.r.Count(p.pkg+"_probe_calls", 1)
	if st != "OK" {
		p.r.Situation("probed-after-error-return:" + p.pkg)
	}
	if held := p.probe(); len(held) > 0 {
		p.dead = true
		p.r.Violation(leakSig(p.pkg, fn, st, held[0]),
			fmt.Sprintf("after %s.%s returned %s the following locks are still held: %v", p.pkg, fn, st, held),
			witness{Seed: p.r.Seed(), Phase: p.pkg + "-probe", Fn: fn, Status: st, Held: held, Log: append([]string(nil), p.log...)})
		return false
	}
	return true
}

// ---- cleaner.IdleInvoker -------------------------------------------------------

func probeIdleInvoker(r *ev.Run, rc *reach, i int) {
	rng := r.Rand(14, 2, uint64(i))
	r.Case("cleaner-probe case=%d", i)
	var failNext atomic.Bool
	var gate atomic.Pointer[chan struct{}]
	var entered atomic.Pointer[chan struct{}]
	cleanErr := errors.New("clean failed")
	var ii *cleaner.IdleInvoker
	ii = cleaner.NewIdleInvoker(func(ctx context.Context) error {
		if e := entered.Load(); e != nil {
			close(*e)
			entered.Store(nil)
		}
		if g := gate.Load(); g != nil {
			<-*g
		}
		if failNext.Swap(false) {
			return cleanErr
		}
		return nil
	})
	p := &smallProbe{r: r, rc: rc, pkg: "cleaner", probe: func() []string {
		if !ii.VerifLockProbe() {
			return []string{"IdleInvoker.lock"}
		}
		return nil
	}}
	ctx := context.Background()
	useCount := 0
	errs := 0
	var hist []any
	for s, n := 0, 20+rng.IntN(30); s < n && !p.dead; s++ {
		switch k := rng.IntN(6); {
		case k <= 1: // Acquire, clean may fail on the 0->1 transition
			fail := useCount == 0 && rng.IntN(3) == 0
			failNext.Store(fail)
			err := ii.Acquire(ctx)
			failNext.Store(false)
			if err == nil {
				useCount++
			} else {
				errs++
			}
			hist = append(hist, "acquire", errStatus(err))
			p.after("Acquire", errStatus(err))
		case k <= 3: // Release, clean may fail on the 1->0 transition
			if useCount == 0 {
				continue
			}
			fail := useCount == 1 && rng.IntN(3) == 0
			failNext.Store(fail)
			err := ii.Release(ctx)
			failNext.Store(false)
			useCount--
			if err != nil {
				errs++
			}
			hist = append(hist, "release", errStatus(err))
			p.after("Release", errStatus(err))
		case k == 4: // Acquire with an already cancelled context
			if useCount != 0 {
				continue
			}
			cctx, cancel := context.WithCancel(ctx)
			cancel()
			err := ii.Acquire(cctx)
			if err == nil {
				useCount++
			}
			hist = append(hist, "acquire-cancelled", errStatus(err))
			p.after("Acquire(cancelled context)", errStatus(err))
		default: // a waiter is cancelled while somebody else's clean is in progress
			if useCount != 0 {
				continue
			}
			g, e := make(chan struct{}), make(chan struct{})
			gate.Store(&g)
			entered.Store(&e)
			first := make(chan error, 1)
			go func() { first <- ii.Acquire(ctx) }()
			<-e // the cleaner of the first caller is running
			cctx, cancel := context.WithCancel(ctx)
			second := make(chan error, 1)
			go func() { second <- ii.Acquire(cctx) }()
			cancel()
			err2 := <-second
			gate.Store(nil)
			close(g)
			err1 := <-first
			if err1 == nil {
				useCount++
			}
			if err2 == nil {
				useCount++
			} else {
				errs++
				r.Situation("waiter-cancelled-during-clean")
			}
			hist = append(hist, "acquire-while-cleaning", errStatus(err1), errStatus(err2))
			p.after("Acquire(waiting for clean, cancelled)", errStatus(err2))
			p.after("Acquire", errStatus(err1))
		}
	}
	for useCount > 0 && !p.dead {
		err := ii.Release(ctx)
		useCount--
		p.after("Release", errStatus(err))
	}
	r.Hash(ev.HashOf(append([]any{"cleaner"}, hist...)...), errs > 0)
}

// ---- pool.NewBitmapSectorAllocator ------------------------------------------------

func probeSectorAllocator(r *ev.Run, rc *reach, i int) {
	rng := r.Rand(14, 3, uint64(i))
	sectors := uint32(1 + rng.IntN(200))
	r.Case("pool-probe case=%d sectors=%d", i, sectors)
	sa := pool.NewBitmapSectorAllocator(sectors)
	p := &smallProbe{r: r, rc: rc, pkg: "pool", probe: func() []string {
		if free, known := pool.VerifLockProbeSectorAllocator(sa); known && !free {
			return []string{"bitmapSectorAllocator.lock"}
		}
		return nil
	}}
	type run struct {
		first uint32
		n     int
	}
	var live []run
	errs := 0
	var hist []any
	for s, n := 0, 30+rng.IntN(60); s < n && !p.dead; s++ {
		switch k := rng.IntN(5); {
		case k <= 2:
			first, got, err := sa.AllocateContiguous(1 + rng.IntN(70))
			if err == nil {
				live = append(live, run{first, got})
			} else {
				errs++
			}
			hist = append(hist, "alloc", errStatus(err))
			p.after("AllocateContiguous", errStatus(err))
		case k == 3 && len(live) > 0:
			j := rng.IntN(len(live))
			sa.FreeContiguous(live[j].first, live[j].n)
			live = append(live[:j], live[j+1:]...)
			hist = append(hist, "free")
			p.after("FreeContiguous", "OK")
		case len(live) > 0:
			j := rng.IntN(len(live))
			list := []uint32{0}
			for q := 0; q < live[j].n; q++ {
				list = append(list, live[j].first+uint32(q))
			}
			sa.FreeList(list)
			live = append(live[:j], live[j+1:]...)
			hist = append(hist, "freelist")
			p.after("FreeList", "OK")
		}
	}
	r.Hash(ev.HashOf(append([]any{"pool", sectors}, hist...)...), errs > 0)
}

// ---- sync.LockPile -------------------------------------------------------------------

type countedMutex struct {
	sync.Mutex
	inside atomic.Int32
}

// lockPileRound: goroutines acquire random subsets of a few mutexes through
// LockPile, in one or two steps, check mutual exclusion and that exactly the
// requested set is held, and release everything.
func lockPileRound(r *ev.Run, rc *reach, i int) roundVerdict {
	rng := r.Rand(14, 4, uint64(i))
	nLocks := 2 + rng.IntN(3)
	nWorkers := 4 + rng.IntN(12)
	iters := 200 + rng.IntN(300)
	r.Case("lockpile-stress round=%d locks=%d goroutines=%d iterations=%d", i, nLocks, nWorkers, iters)
	locks := make([]*countedMutex, nLocks)
	for k := range locks {
		locks[k] = &countedMutex{}
	}
	var progress atomic.Int64
	var backoffs, overlaps atomic.Int64
	var broken atomic.Pointer[string]
	workers := make([]func(), nWorkers)
	for w := range workers {
		wr := r.Rand(14, 4, uint64(i), uint64(w))
		workers[w] = func() {
			for it := 0; it < iters; it++ {
				lp := re_sync.LockPile{}
				perm := wr.Perm(nLocks)
				n1 := 1 + wr.IntN(nLocks)
				var first, second []re_sync.TryLocker
				for _, k := range perm[:n1] {
					first = append(first, &locks[k].Mutex)
				}
				// The second step may name locks of the first step
				// again (recursion counts).
				n2 := wr.IntN(nLocks + 1)
				perm2 := wr.Perm(nLocks)
				for _, k := range perm2[:n2] {
					second = append(second, &locks[k].Mutex)
				}
				held := map[int]int{}
				for _, k := range perm[:n1] {
					held[k]++
				}
				if !lp.Lock(first...) {
					backoffs.Add(1)
				}
				// Keep the first set for a moment, so that other
				// goroutines find it taken whatever the number of
				// processors is.
				runtime.Gosched()
				if len(second) > 0 {
					for _, k := range perm2[:n2] {
						held[k]++
					}
					if !lp.Lock(second...) {
						backoffs.Add(1)
					}
				}
				for k := range held {
					if locks[k].inside.Add(1) != 1 {
						s := fmt.Sprintf("two goroutines inside lock %d", k)
						broken.Store(&s)
					}
					if locks[k].TryLock() {
						s := fmt.Sprintf("lock %d reported as held by the pile is free", k)
						broken.Store(&s)
						locks[k].Unlock()
					}
				}
				if len(held) > 1 {
					overlaps.Add(1)
				}
				runtime.Gosched()
				for k := range held {
					locks[k].inside.Add(-1)
				}
				// Release: sometimes one by one (respecting the
				// recursion counts), sometimes all at once.
				if wr.IntN(2) == 0 {
					for k, n := range held {
						for ; n > 0; n-- {
							lp.Unlock(&locks[k].Mutex)
						}
					}
					if len(lp) != 0 {
						s := "LockPile not empty after unlocking every lock as often as it was locked"
						broken.Store(&s)
					}
				} else {
					lp.UnlockAll()
				}
				progress.Add(1)
			}
		}
	}
	v := runRound(r, "lockpile", map[string]any{"round": i, "locks": nLocks, "goroutines": nWorkers}, &progress, workers)
	rc.add("sync.LockPile.Lock", "true|false", int(progress.Load()))
	r.SituationN("lockpile-backoff", int(backoffs.Load()))
	r.Count("lockpile_lock_sets_acquired", int(progress.Load()))
	if v != roundFinished {
		return v
	}
	if s := broken.Load(); s != nil {
		r.Violation("C14 lockpile-broken", *s, map[string]any{"seed": r.Seed(), "round": i})
	}
	for k, l := range locks {
		if !l.TryLock() {
			r.Violation(leakSig("sync", "LockPile.UnlockAll", "-", "mutex"), fmt.Sprintf("mutex %d still held after all goroutines released their piles", k),
				witness{Seed: r.Seed(), Phase: "lockpile", Case: i})
			continue
		}
		l.Unlock()
	}
	r.Hash(ev.HashOf("lockpile", i, nLocks, nWorkers, backoffs.Load() > 0), backoffs.Load() > 0)
	return v
}

// ---- scheduler.InMemoryBuildQueue ---------------------------------------------------

type notFoundCAS struct{ blobstore.BlobAccess }

func (notFoundCAS) Get(ctx context.Context, d digest.Digest) buffer.Buffer {
	return buffer.NewBufferFromError(status.Error(codes.NotFound, "no such action"))
}

type failingRouter struct{}

func (failingRouter) RouteAction(ctx context.Context, digestFunction digest.Function, action *remoteexecution.Action, requestMetadata *remoteexecution.RequestMetadata) (*remoteexecution.Action, platform.Key, []invocation.Key, initialsizeclass.Selector, error) {
	return nil, platform.Key{}, nil, nil, status.Error(codes.Unimplemented, "no routing in this harness")
}

type allowAuthorizer struct{}

func (allowAuthorizer) Authorize(ctx context.Context, instanceNames []digest.InstanceName) []error {
	return make([]error, len(instanceNames))
}

var _ auth.Authorizer = allowAuthorizer{}

type executeStream struct {
	ctx context.Context
}

func (s executeStream) Context() context.Context            { return s.ctx }
func (s executeStream) SetHeader(metadata.MD) error         { return nil }
func (s executeStream) SendHeader(metadata.MD) error        { return nil }
func (s executeStream) SetTrailer(metadata.MD)              {}
func (s executeStream) SendMsg(m any) error                 { return nil }
func (s executeStream) Send(*longrunningpb.Operation) error { return nil }
func (s executeStream) RecvMsg(m any) error                 { return status.Error(codes.Unimplemented, "fake") }

func probeScheduler(r *ev.Run, rc *reach) {
	r.Case("scheduler-probe")
	clk := vclock.New(1_700_000_000)
	cfg := &scheduler.InMemoryBuildQueueConfiguration{
		ExecutionUpdateInterval:              10 * time.Second,
		OperationWithNoWaitersTimeout:        30 * time.Second,
		PlatformQueueWithNoWorkersTimeout:    300 * time.Second,
		BusyWorkerSynchronizationInterval:    5 * time.Second,
		GetIdleWorkerSynchronizationInterval: func() time.Duration { return 40 * time.Second },
		WorkerTaskRetryCount:                 2,
		WorkerWithNoSynchronizationsTimeout:  60 * time.Second,
	}
	bq := scheduler.NewInMemoryBuildQueue(notFoundCAS{}, clk, uuid.NewRandom, cfg, 1<<20, failingRouter{}, allowAuthorizer{}, allowAuthorizer{}, allowAuthorizer{}, allowAuthorizer{})
	p := &smallProbe{r: r, rc: rc, pkg: "scheduler", probe: func() []string {
		if !bq.VerifLockIsFree() {
			return []string{"InMemoryBuildQueue.lock"}
		}
		return nil
	}}
	ctx := context.Background()
	plat := &remoteexecution.Platform{Properties: []*remoteexecution.Platform_Property{{Name: "os", Value: "linux"}}}
	scq := &buildqueuestate.SizeClassQueueName{PlatformQueueName: &buildqueuestate.PlatformQueueName{InstanceNamePrefix: "a", Platform: plat}, SizeClass: 0}
	unknownSCQ := &buildqueuestate.SizeClassQueueName{PlatformQueueName: &buildqueuestate.PlatformQueueName{InstanceNamePrefix: "zzz", Platform: plat}, SizeClass: 7}
	call := func(fn string, err error) { p.after(fn, errStatus(err)) }
	sync := func(fn string, req *remoteworker.SynchronizeRequest) {
		_, err := bq.Synchronize(ctx, req)
		call(fn, err)
	}
	worker := map[string]string{"host": "w1"}

	_, err := bq.ListPlatformQueues(ctx, &emptypb.Empty{})
	call("ListPlatformQueues", err)
	call("RegisterPredeclaredPlatformQueue", bq.RegisterPredeclaredPlatformQueue(util.Must(digest.NewInstanceName("pre")), plat, nil, 0, 0, []uint32{1, 2}))
	call("RegisterPredeclaredPlatformQueue(duplicate)", bq.RegisterPredeclaredPlatformQueue(util.Must(digest.NewInstanceName("pre")), plat, nil, 0, 0, []uint32{1, 2}))
	// Synchronize: every error return reachable without a task.
	sync("Synchronize(invalid instance name)", &remoteworker.SynchronizeRequest{InstanceNamePrefix: "//", Platform: plat, WorkerId: worker})
	sync("Synchronize(no current state)", &remoteworker.SynchronizeRequest{InstanceNamePrefix: "a", Platform: plat, WorkerId: worker})
	sync("Synchronize(unknown current state)", &remoteworker.SynchronizeRequest{InstanceNamePrefix: "a", Platform: plat, WorkerId: worker, CurrentState: &remoteworker.CurrentState{}})
	sync("Synchronize(executing without digest)", &remoteworker.SynchronizeRequest{InstanceNamePrefix: "a", Platform: plat, WorkerId: worker,
		CurrentState: &remoteworker.CurrentState{WorkerState: &remoteworker.CurrentState_Executing_{Executing: &remoteworker.CurrentState_Executing{}}}})
	sync("Synchronize(idle, prefer being idle)", &remoteworker.SynchronizeRequest{InstanceNamePrefix: "a", Platform: plat, WorkerId: worker, PreferBeingIdle: true,
		CurrentState: &remoteworker.CurrentState{WorkerState: &remoteworker.CurrentState_Idle{Idle: &emptypb.Empty{}}}})
	sync("Synchronize(executing unknown task)", &remoteworker.SynchronizeRequest{InstanceNamePrefix: "a", Platform: plat, WorkerId: worker,
		CurrentState: &remoteworker.CurrentState{WorkerState: &remoteworker.CurrentState_Executing_{Executing: &remoteworker.CurrentState_Executing{
			ActionDigest: &remoteexecution.Digest{Hash: "e3b0c44298fc1c149afbf4c8996fb92427ae41e4649b934ca495991b7852b855", SizeBytes: 0}}}}})
	sync("Synchronize(size class on non-predeclared queue)", &remoteworker.SynchronizeRequest{InstanceNamePrefix: "a", Platform: plat, WorkerId: worker, SizeClass: 3, PreferBeingIdle: true,
		CurrentState: &remoteworker.CurrentState{WorkerState: &remoteworker.CurrentState_Idle{Idle: &emptypb.Empty{}}}})
	sync("Synchronize(size class above predeclared maximum)", &remoteworker.SynchronizeRequest{InstanceNamePrefix: "pre", Platform: plat, WorkerId: worker, SizeClass: 9, PreferBeingIdle: true,
		CurrentState: &remoteworker.CurrentState{WorkerState: &remoteworker.CurrentState_Idle{Idle: &emptypb.Empty{}}}})
	sync("Synchronize(missing size class on predeclared queue)", &remoteworker.SynchronizeRequest{InstanceNamePrefix: "pre", Platform: plat, WorkerId: worker, SizeClass: 0, PreferBeingIdle: true,
		CurrentState: &remoteworker.CurrentState{WorkerState: &remoteworker.CurrentState_Idle{Idle: &emptypb.Empty{}}}})
	// A blocking Synchronize that is cancelled while parked.
	cctx, cancel := context.WithCancel(ctx)
	done := make(chan error, 1)
	go func() {
		_, err := bq.Synchronize(cctx, &remoteworker.SynchronizeRequest{InstanceNamePrefix: "a", Platform: plat, WorkerId: map[string]string{"host": "w2"},
			CurrentState: &remoteworker.CurrentState{WorkerState: &remoteworker.CurrentState_Idle{Idle: &emptypb.Empty{}}}})
		done <- err
	}()
	for clk.Pending() == 0 {
		// the parked call registers its idle timer while holding the lock
		runtime.Gosched()
	}
	sync("Synchronize(same worker ID already synchronizing)", &remoteworker.SynchronizeRequest{InstanceNamePrefix: "a", Platform: plat, WorkerId: map[string]string{"host": "w2"},
		CurrentState: &remoteworker.CurrentState{WorkerState: &remoteworker.CurrentState_Idle{Idle: &emptypb.Empty{}}}})
	cancel()
	call("Synchronize(cancelled while parked)", <-done)

	// Operator calls, found and not found.
	_, err = bq.GetOperation(ctx, &buildqueuestate.GetOperationRequest{OperationName: "nope"})
	call("GetOperation", err)
	_, err = bq.ListOperations(ctx, &buildqueuestate.ListOperationsRequest{PageSize: 10})
	call("ListOperations", err)
	_, err = bq.ListOperations(ctx, &buildqueuestate.ListOperationsRequest{PageSize: 10, FilterStage: 99})
	call("ListOperations(invalid stage)", err)
	for _, q := range []*buildqueuestate.SizeClassQueueName{scq, unknownSCQ, {}} {
		_, err = bq.ListWorkers(ctx, &buildqueuestate.ListWorkersRequest{PageSize: 10, Filter: &buildqueuestate.ListWorkersRequest_Filter{Type: &buildqueuestate.ListWorkersRequest_Filter_All{All: q}}})
		call("ListWorkers", err)
		_, err = bq.ListInvocationChildren(ctx, &buildqueuestate.ListInvocationChildrenRequest{InvocationName: &buildqueuestate.InvocationName{SizeClassQueueName: q}})
		call("ListInvocationChildren", err)
		_, err = bq.ListQueuedOperations(ctx, &buildqueuestate.ListQueuedOperationsRequest{InvocationName: &buildqueuestate.InvocationName{SizeClassQueueName: q}, PageSize: 10})
		call("ListQueuedOperations", err)
		_, err = bq.ListDrains(ctx, &buildqueuestate.ListDrainsRequest{SizeClassQueueName: q})
		call("ListDrains", err)
		_, err = bq.AddDrain(ctx, &buildqueuestate.AddOrRemoveDrainRequest{SizeClassQueueName: q, WorkerIdPattern: map[string]string{"host": "w9"}})
		call("AddDrain", err)
		_, err = bq.RemoveDrain(ctx, &buildqueuestate.AddOrRemoveDrainRequest{SizeClassQueueName: q, WorkerIdPattern: map[string]string{"host": "w9"}})
		call("RemoveDrain", err)
		_, err = bq.RemoveDrain(ctx, &buildqueuestate.AddOrRemoveDrainRequest{SizeClassQueueName: q, WorkerIdPattern: map[string]string{"host": "never-added"}})
		call("RemoveDrain", err)
	}
	_, err = bq.KillOperations(ctx, &buildqueuestate.KillOperationsRequest{Filter: &buildqueuestate.KillOperationsRequest_Filter{Type: &buildqueuestate.KillOperationsRequest_Filter_OperationName{OperationName: "nope"}}, Status: status.New(codes.Aborted, "x").Proto()})
	call("KillOperations", err)
	_, err = bq.KillOperations(ctx, &buildqueuestate.KillOperationsRequest{})
	call("KillOperations(no filter)", err)
	_, err = bq.TerminateWorkers(ctx, &buildqueuestate.TerminateWorkersRequest{WorkerIdPattern: map[string]string{"host": "w1"}})
	call("TerminateWorkers", err)
	call("Execute(action not in CAS)", bq.Execute(&remoteexecution.ExecuteRequest{InstanceName: "a", ActionDigest: &remoteexecution.Digest{Hash: "e3b0c44298fc1c149afbf4c8996fb92427ae41e4649b934ca495991b7852b855"}}, executeStream{ctx}))
	call("WaitExecution(unknown operation)", bq.WaitExecution(&remoteexecution.WaitExecutionRequest{Name: "nope"}, executeStream{ctx}))
	// Let every timeout pass, then poke.
	clk.Advance(1000*time.Second, nil)
	_, err = bq.ListPlatformQueues(ctx, &emptypb.Empty{})
	call("ListPlatformQueues(after all timeouts)", err)
	r.Hash(ev.HashOf("scheduler", len(p.log)), true)
	if r.WantSample() {
		r.Sample(map[string]any{"phase": "scheduler-probe", "calls": p.log})
	}
}

func runSmallObjectProbes(r *ev.Run, rc *reach) {
	n := r.Pick(60, 1200)
	for i := 0; i < n; i++ {
		probeIdleInvoker(r, rc, i)
		probeSectorAllocator(r, rc, i)
	}
	// Scripted sequences keep calling after a lock was found held (they
	// cannot know which later call needs it), so each runs as a one-worker
	// round: a call that blocks for ever becomes a hang verdict instead of
	// stalling the whole check.
	for name, f := range map[string]func(){
		"scheduler-probe":        func() { probeScheduler(r, rc) },
		"unwrapped-file-probe":   func() { probeUnwrappedFile(r, rc) },
		"handle-allocator-probe": func() { probeHandleAllocators(r, rc) },
	} {
		var progress atomic.Int64
		runRound(r, name, nil, &progress, []func(){f})
	}
	r.Floor("probed-after-error-return:cleaner", 10)
	r.Floor("probed-after-error-return:pool", 10)
	r.Floor("probed-after-error-return:scheduler", 10)
	r.Floor("waiter-cancelled-during-clean", 5)
}
