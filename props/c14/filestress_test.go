package c14

import (
	"context"
	"fmt"
	"runtime"
	"strings"
	"sync"
	"sync/atomic"

	remoteexecution "github.com/bazelbuild/remote-apis/build/bazel/remote/execution/v2"
	"github.com/buildbarn/bb-remote-execution/pkg/filesystem/virtual"
	"github.com/buildbarn/bb-remote-execution/pkg/proto/outputpathpersistency"
	"github.com/buildbarn/bb-storage/pkg/blobstore"
	"github.com/buildbarn/bb-storage/pkg/blobstore/buffer"
	"github.com/buildbarn/bb-storage/pkg/digest"
	"github.com/buildbarn/bb-storage/pkg/filesystem"

	"verif/internal/ev"
	"verif/internal/vfsh"
)

// File-level deadlock stress.
//
// One or two pool-backed files are shared by all goroutines of a round. Half
// of the goroutines ("appliers") issue the VirtualApply operations that take
// the file's lock for reading or in several steps (persistency node, Bazel
// output service stat, upload, open-read-frozen + ReadAt/Len/Close) plus
// VirtualGetAttributes; the others ("mutators") issue every entry point that
// takes the file's lock exclusively (read, write, seek, allocate, setattr,
// open/close, link/unlink through the directory, which calls into the leaf
// while the directory lock is held). Lock-order and lock-recursion mistakes
// inside one file (a read lock taken twice with a writer queued in between,
// waiting for unfreeze while holding the lock, ...) make both sides block for
// ever; the round is judged by the hang policy.

type tinyCAS struct{ blobstore.BlobAccess }

func (tinyCAS) Put(ctx context.Context, d digest.Digest, b buffer.Buffer) error {
	_, err := b.ToByteSlice(1 << 20)
	return err
}

var alreadyClosed = func() chan struct{} { c := make(chan struct{}); close(c); return c }()

type sharedFile struct {
	name string
	leaf virtual.Leaf
	// calls in flight on this file, by side
	applying, mutating atomic.Int64
}

func fileStressRound(r *ev.Run, rc *reach, i int) roundVerdict {
	rng := r.Rand(14, 9, uint64(i))
	cfg := vfsh.Config{Allocator: []string{"nfs", "fuse"}[i%2], CaseInsensitive: i%4 >= 2}
	nFiles := 1 + i%2
	nAppliers := 2 + rng.IntN(3)
	nMutators := 2 + rng.IntN(3)
	applies := r.Pick(30000, 60000)
	keepWritable := (i/2)%2 == 0
	procs := []int{4, 8, 16}[i%3]
	r.Case("file-stress round=%d cfg=%s files=%d appliers=%d mutators=%d applies-per-applier=%d writable-descriptor=%v GOMAXPROCS=%d", i, cfg, nFiles, nAppliers, nMutators, applies, keepWritable, procs)
	old := runtime.GOMAXPROCS(procs)
	defer runtime.GOMAXPROCS(old)

	env := vfsh.NewEnv(cfg)
	ctx := context.Background()
	digestFn := digest.MustNewFunction("", remoteexecution.DigestFunction_SHA256)
	// The harness keeps one descriptor on every file for the whole round, so
	// that the files stay alive whatever gets unlinked.
	held := virtual.ShareMaskRead
	if keepWritable {
		held |= virtual.ShareMaskWrite
	}
	files := make([]*sharedFile, nFiles)
	for k := range files {
		name := fmt.Sprintf("file%d", k)
		var a virtual.Attributes
		leaf, _, _, st := env.Root.VirtualOpenChild(ctx, pc(name), held, (&virtual.Attributes{}).SetPermissions(virtual.PermissionsRead|virtual.PermissionsWrite), nil, vfsh.MaskBasic, &a)
		if st != virtual.StatusOK {
			panic("c14: cannot create shared file")
		}
		leaf.VirtualWrite(ctx, []byte("0123456789abcdef0123456789abcdef"), 0)
		files[k] = &sharedFile{name: name, leaf: leaf}
	}

	var progress atomic.Int64
	var appliersDone atomic.Int64
	var overlapped atomic.Int64
	var mu sync.Mutex
	statuses := map[string]int{}
	merge := func(local map[string]int) {
		mu.Lock()
		for k, n := range local {
			statuses[k] += n
		}
		mu.Unlock()
	}
	var workers []func()

	for a := 0; a < nAppliers; a++ {
		wr := r.Rand(14, 9, uint64(i), uint64(a))
		f := files[a%nFiles]
		workers = append(workers, func() {
			defer appliersDone.Add(1)
			local := map[string]int{}
			count := func(fn, st string) { local["virtual."+fn+"(file-stress)/"+st]++ }
			dir := &outputpathpersistency.Directory{}
			for it := 0; it < applies; it++ {
				f.applying.Add(1)
				if f.mutating.Load() > 0 {
					overlapped.Add(1)
				}
				switch k := wr.IntN(40); {
				case k < 30:
					dir.Files = dir.Files[:0]
					p := &virtual.ApplyAppendOutputPathPersistencyDirectoryNode{Directory: dir, Name: pc(f.name)}
					f.leaf.VirtualApply(p)
					count("VirtualApply(ApplyAppendOutputPathPersistencyDirectoryNode)", "OK")
				case k < 33:
					p := &virtual.ApplyGetBazelOutputServiceStat{DigestFunction: &digestFn}
					f.leaf.VirtualApply(p)
					count("VirtualApply(ApplyGetBazelOutputServiceStat)", errName(p.Err))
				case k < 35:
					p := &virtual.ApplyUploadFile{Context: ctx, ContentAddressableStorage: tinyCAS{}, DigestFunction: digestFn, WritableFileUploadDelay: alreadyClosed}
					f.leaf.VirtualApply(p)
					count("VirtualApply(ApplyUploadFile)", errName(p.Err))
				case k < 37:
					p := &virtual.ApplyOpenReadFrozen{WritableFileDelay: alreadyClosed}
					f.leaf.VirtualApply(p)
					count("VirtualApply(ApplyOpenReadFrozen)", errName(p.Err))
					if p.Err == nil && p.Reader != nil {
						var buf [8]byte
						p.Reader.ReadAt(buf[:], 0)
						p.Reader.Len()
						p.Reader.GetNextRegionOffset(0, filesystem.Data)
						p.Reader.Close()
						count("frozen.ReadAt+Len+GetNextRegionOffset+Close", "OK")
					}
				default:
					var at virtual.Attributes
					f.leaf.VirtualGetAttributes(ctx, vfsh.MaskBasic|virtual.AttributesMaskChangeID|virtual.AttributesMaskSizeBytes|virtual.AttributesMaskPermissions, &at)
					count("VirtualGetAttributes", "OK")
				}
				f.applying.Add(-1)
				progress.Add(1)
			}
			merge(local)
		})
	}
	// The mutators keep going until every applier is done, but never beyond
	// a fixed number of calls: if the appliers of one file are stuck, the
	// round must still come to rest so that the hang policy can judge it.
	maxMutations := applies * 4
	for m := 0; m < nMutators; m++ {
		wr := r.Rand(14, 9, uint64(i), 100+uint64(m))
		f := files[m%nFiles]
		linkName := fmt.Sprintf("link%d", m)
		workers = append(workers, func() {
			local := map[string]int{}
			count := func(fn string, st virtual.Status) { local["virtual."+fn+"(file-stress)/"+vfsh.StatusName(st)]++ }
			buf := make([]byte, 8)
			for it := 0; it < maxMutations && appliersDone.Load() < int64(nAppliers); it++ {
				f.mutating.Add(1)
				if f.applying.Load() > 0 {
					overlapped.Add(1)
				}
				switch k := wr.IntN(20); {
				case k < 8:
					_, _, st := f.leaf.VirtualRead(ctx, buf, uint64(wr.IntN(16)))
					count("VirtualRead", st)
				case k < 11:
					_, st := f.leaf.VirtualWrite(ctx, []byte("xy"), uint64(wr.IntN(24)))
					count("VirtualWrite", st)
				case k < 13:
					_, st := f.leaf.VirtualSeek(ctx, uint64(wr.IntN(40)), []filesystem.RegionType{filesystem.Data, filesystem.Hole}[wr.IntN(2)])
					count("VirtualSeek", st)
				case k == 13:
					count("VirtualAllocate", f.leaf.VirtualAllocate(ctx, uint64(wr.IntN(16)), uint64(1+wr.IntN(32))))
				case k == 14:
					var at virtual.Attributes
					in := (&virtual.Attributes{}).SetSizeBytes(uint64(16 + wr.IntN(32)))
					if wr.IntN(2) == 0 {
						in = (&virtual.Attributes{}).SetPermissions(virtual.PermissionsRead | virtual.PermissionsExecute)
					}
					count("VirtualSetAttributes", f.leaf.VirtualSetAttributes(ctx, in, vfsh.MaskBasic, &at))
				case k < 17:
					var at virtual.Attributes
					share := []virtual.ShareMask{virtual.ShareMaskRead, virtual.ShareMaskWrite, virtual.ShareMaskRead | virtual.ShareMaskWrite}[wr.IntN(3)]
					st := f.leaf.VirtualOpenSelf(ctx, share, &virtual.OpenExistingOptions{Truncate: wr.IntN(8) == 0}, vfsh.MaskBasic, &at)
					count("VirtualOpenSelf", st)
					if st == virtual.StatusOK {
						f.leaf.VirtualClose(share)
						count("VirtualClose", virtual.StatusOK)
					}
				default:
					// Link and unlink through the directory: the leaf
					// is called while the directory lock is held.
					var at virtual.Attributes
					_, st := env.Root.VirtualLink(ctx, pc(linkName), f.leaf, vfsh.MaskBasic, &at)
					count("VirtualLink", st)
					_, st = env.Root.VirtualRemove(ctx, pc(linkName), false, true)
					count("VirtualRemove", st)
				}
				f.mutating.Add(-1)
				progress.Add(1)
				if wr.IntN(64) == 0 {
					yieldNow()
				}
			}
			merge(local)
		})
	}

	v := runRound(r, "file", map[string]any{"round": i, "cfg": cfg.String(), "files": nFiles, "appliers": nAppliers, "mutators": nMutators, "applies": applies}, &progress, workers)
	mu.Lock()
	persisted := 0
	for k, n := range statuses {
		fn, st, _ := strings.Cut(k, "/")
		rc.add(fn, st, n)
		if strings.Contains(k, "PersistencyDirectoryNode") {
			persisted += n
		}
	}
	mu.Unlock()
	r.Count("file_stress_calls", int(progress.Load()))
	r.SituationN("file-stress:persistency-node-applies-racing-mutators", persisted)
	r.SituationN("file-stress:calls-overlapping-the-other-side-on-the-same-file", int(overlapped.Load()))
	if v != roundFinished {
		return v
	}
	r.Situation("stress-round-finished:file")
	// Quiescent: nothing may be held; then let go of the files.
	var heldLocks []string
	for _, f := range files {
		if free, known := virtual.VerifLockProbeLeaf(f.leaf); known && !free {
			heldLocks = append(heldLocks, "file.lock")
		}
	}
	if free, known := virtual.VerifLockProbeDirectory(env.Root); known && !free {
		heldLocks = append(heldLocks, "directory.lock")
	}
	if a := env.NFSAlloc; a != nil && !virtual.VerifLockProbeNFSHandleAllocator(a) {
		heldLocks = append(heldLocks, "nfsHandlePool.lock")
	}
	if len(heldLocks) > 0 {
		r.Violation(leakSig("virtual", "concurrent-round:file", "-", heldLocks[0]),
			fmt.Sprintf("file stress round %d: after all calls returned the following locks are still held: %v", i, heldLocks),
			witness{Seed: r.Seed(), Phase: "file-stress", Case: i, Cfg: cfg.String(), Held: heldLocks})
		return v
	}
	for _, f := range files {
		f.leaf.VirtualClose(held)
		env.Root.VirtualRemove(ctx, pc(f.name), false, true)
	}
	if env.Pool.Created.Load() != env.Pool.Closed.Load() {
		r.Count("file_stress_pool_files_not_closed(C16)", int(env.Pool.Created.Load()-env.Pool.Closed.Load()))
	}
	r.Hash(ev.HashOf("file-stress", i, cfg.String(), nFiles, nAppliers, nMutators, keepWritable, len(statuses)), overlapped.Load() > 0)
	return v
}

func errName(err error) string {
	if err == nil {
		return "OK"
	}
	return "ERR"
}
