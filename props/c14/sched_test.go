package c14

import (
	"verif/internal/ev"
	"verif/internal/sched"
)

// runSchedulerPhase drives the real InMemoryBuildQueue through stepped
// histories of blocking calls, cancellations, kills whose authorization is
// held at a gate while the operation expires, drains, terminations and
// clock advances (internal/sched, the harness of C01-C06). For C14 only two
// things are judged: at every quiescent point (all calls parked or
// returned) the scheduler's lock must be free (TryLock probe through the
// verif hook), and every call must reach a parked state or return: a call
// still blocked on a mutex after the grace period is a deadlock (goroutine
// dump as witness). Divergences that belong to other properties are
// printed as notes by the driver.
func runSchedulerPhase(r *ev.Run) {
	sched.DeclareFloors(r, "C14")
	sched.RunStepped(r, "C14", r.Pick(40, 800))
}
