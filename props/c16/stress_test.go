package c16

import (
	"bytes"
	"crypto/sha256"
	"encoding/hex"
	"fmt"
	"math/rand/v2"
	"runtime"
	"sync"
	"sync/atomic"

	"github.com/buildbarn/bb-remote-execution/pkg/filesystem/virtual"
	bazeloutputservicerev2 "github.com/buildbarn/bb-remote-execution/pkg/proto/bazeloutputservice/rev2"
	"github.com/buildbarn/bb-remote-execution/pkg/proto/outputpathpersistency"
	"github.com/buildbarn/bb-storage/pkg/digest"

	"google.golang.org/grpc/codes"
	"google.golang.org/grpc/status"

	"verif/internal/ev"
)

// sfile is a file shared by the goroutines of a stress round. The harness
// counts in ifile.held the references it definitely holds: incremented
// after a reference was obtained, decremented before it is given up.
type sfile struct {
	idx      int
	name     string
	leaf     virtual.Leaf
	ifile    *instrFile
	unlinked atomic.Bool
}

type stressWorker struct {
	w     *world
	g     int
	rng   *rand.Rand
	files []*sfile
	seq   int
	log   []string

	raced, staleSeen, uploads int
}

func (sw *stressWorker) note(format string, args ...any) {
	sw.log = append(sw.log, fmt.Sprintf(format, args...))
}

func (sw *stressWorker) yield() {
	for i := sw.rng.IntN(4); i > 0; i-- {
		runtime.Gosched()
	}
}

func (sw *stressWorker) payload() []byte {
	sw.seq++
	p := make([]byte, 1+sw.rng.IntN(12))
	for i := range p {
		p[i] = byte(1 + (sw.g*37+sw.seq*11+i)%255)
	}
	return p
}

// delay returns a channel that a helper goroutine closes after a while, so
// that the bounded wait for writers always ends.
func (sw *stressWorker) delay() <-chan struct{} {
	ch := make(chan struct{})
	n := sw.rng.IntN(30)
	if n == 0 {
		close(ch)
		return ch
	}
	go func() {
		for i := 0; i < n; i++ {
			runtime.Gosched()
		}
		close(ch)
	}()
	return ch
}

func (sw *stressWorker) step() {
	w := sw.w
	sf := sw.files[sw.rng.IntN(len(sw.files))]
	f := sf.ifile
	switch k := sw.rng.IntN(100); {
	case k < 30: // writer
		share := virtual.ShareMaskWrite
		if sw.rng.IntN(2) == 0 {
			share |= virtual.ShareMaskRead
		}
		var out virtual.Attributes
		s := sf.leaf.VirtualOpenSelf(ctx, share, &virtual.OpenExistingOptions{Truncate: sw.rng.IntN(6) == 0}, attrMask, &out)
		if s != virtual.StatusOK {
			sw.note("open-W f%d -> %v", sf.idx, s)
			if s != virtual.StatusErrStale {
				w.violate("status-differs op=open-self expected=OK-or-STALE", fmt.Sprint(s))
			}
			sw.staleSeen++
			return
		}
		f.held.Add(int32(share.Count()))
		for i := 1 + sw.rng.IntN(3); i > 0; i-- {
			p := sw.payload()
			off := sw.rng.IntN(48)
			if n, s := sf.leaf.VirtualWrite(ctx, p, uint64(off)); n != len(p) || s != virtual.StatusOK {
				w.violate("status-differs op=write", fmt.Sprintf("VirtualWrite(len %d) = (%d, %v)", len(p), n, s))
			}
			sw.yield()
		}
		if sw.rng.IntN(4) == 0 {
			var in, o2 virtual.Attributes
			in.SetSizeBytes(uint64(sw.rng.IntN(64)))
			if s := sf.leaf.VirtualSetAttributes(ctx, &in, attrMask, &o2); s != virtual.StatusOK {
				w.violate("status-differs op=setattr-size expected=OK", fmt.Sprint(s))
			}
		}
		if sw.rng.IntN(6) == 0 {
			sf.leaf.VirtualAllocate(ctx, uint64(sw.rng.IntN(64)), uint64(sw.rng.IntN(8)))
		}
		f.held.Add(-int32(share.Count()))
		sf.leaf.VirtualClose(share)
		sw.note("writer f%d share=%s", sf.idx, maskName(share))
	case k < 40: // reader
		var out virtual.Attributes
		if s := sf.leaf.VirtualOpenSelf(ctx, virtual.ShareMaskRead, &virtual.OpenExistingOptions{}, attrMask, &out); s != virtual.StatusOK {
			sw.staleSeen++
			return
		}
		f.held.Add(1)
		buf := make([]byte, 128)
		if _, _, s := sf.leaf.VirtualRead(ctx, buf, uint64(sw.rng.IntN(8))); s != virtual.StatusOK {
			w.violate("status-differs op=read expected=OK", fmt.Sprint(s))
		}
		sf.leaf.VirtualSeek(ctx, 0, 1)
		f.held.Add(-1)
		sf.leaf.VirtualClose(virtual.ShareMaskRead)
		sw.note("reader f%d", sf.idx)
	case k < 62: // upload
		fn := w.fns[sw.rng.IntN(len(w.fns))]
		cas := &fakeCAS{file: f, chunk: 1 + sw.rng.IntN(7), yield: true, rep: w}
		p := &virtual.ApplyUploadFile{Context: ctx, ContentAddressableStorage: cas, DigestFunction: fn.fn, WritableFileUploadDelay: sw.delay()}
		v0 := f.version()
		sf.leaf.VirtualApply(p)
		v1 := f.version()
		sw.uploads++
		cas.mu.Lock()
		switch {
		case p.Err != nil:
			if status.Code(p.Err) != codes.NotFound || cas.puts != 0 {
				w.violate("upload-unexpected-error", fmt.Sprintf("%v (%d Put calls)", p.Err, cas.puts))
			}
			sw.staleSeen++
		default:
			w.checkDigest(p.Digest, cas, fn, "upload")
			if cas.verAtPut < v0 || cas.verAtPut > v1 {
				w.violate("uploaded-bytes-are-no-snapshot-of-the-file", fmt.Sprintf("uploaded version %d, file was at version %d when the upload was requested and %d when it returned", cas.verAtPut, v0, v1))
			}
			if v1 > v0 {
				sw.raced++
			}
		}
		cas.mu.Unlock()
		sw.note("upload f%d fn=%s -> err=%v", sf.idx, fn.name, p.Err)
	case k < 72: // frozen reader
		p := &virtual.ApplyOpenReadFrozen{WritableFileDelay: sw.delay()}
		sf.leaf.VirtualApply(p)
		if p.Err != nil {
			if status.Code(p.Err) != codes.NotFound {
				w.violate("status-differs op=open-frozen expected=OK-or-NOTFOUND", p.Err.Error())
			}
			sw.staleSeen++
			return
		}
		f.held.Add(1)
		f.frozenProbe.Add(1)
		v0 := f.version()
		l, _ := p.Reader.Len()
		a := make([]byte, l)
		na, _ := p.Reader.ReadAt(a, 0)
		sw.yield()
		b := make([]byte, l)
		nb, _ := p.Reader.ReadAt(b, 0)
		v1 := f.version()
		if na != int(l) || nb != int(l) || !bytes.Equal(a, b) || v0 != v1 || sha256.Sum256(a) != f.hashOf(v0) {
			w.violate("frozen-reader-sees-changing-contents", fmt.Sprintf("Len %d, reads %d/%d bytes, equal %v, pool file version %d -> %d", l, na, nb, bytes.Equal(a, b), v0, v1))
		}
		f.frozenProbe.Add(-1)
		f.held.Add(-1)
		p.Reader.Close()
		sw.note("frozen f%d len=%d", sf.idx, l)
	case k < 82: // link + unlink
		sw.seq++
		d := w.dirs[sw.rng.IntN(len(w.dirs))]
		name := comp(fmt.Sprintf("l%d_%d", sw.g, sw.seq))
		var out virtual.Attributes
		_, s := d.dir.VirtualLink(ctx, name, sf.leaf, attrMask, &out)
		if s != virtual.StatusOK {
			if s != virtual.StatusErrStale {
				w.violate("status-differs op=link expected=OK-or-STALE", fmt.Sprint(s))
			}
			sw.staleSeen++
			return
		}
		f.held.Add(1)
		sw.yield()
		f.held.Add(-1)
		if _, s := d.dir.VirtualRemove(ctx, name, false, true); s != virtual.StatusOK {
			w.violate("status-differs op=unlink expected=OK", fmt.Sprint(s))
		}
		sw.note("link+unlink f%d", sf.idx)
	case k < 86: // drop the original name
		if sf.unlinked.CompareAndSwap(false, true) {
			f.held.Add(-1)
			if _, s := w.dirs[0].dir.VirtualRemove(ctx, comp(sf.name), false, true); s != virtual.StatusOK {
				w.violate("status-differs op=unlink expected=OK", fmt.Sprint(s))
			}
			sw.note("unlink-original f%d", sf.idx)
		}
	case k < 92: // digest through the Bazel Output Service stat
		fn := w.fns[[]int{0, 2}[sw.rng.IntN(2)]]
		p := &virtual.ApplyGetBazelOutputServiceStat{DigestFunction: &fn.fn}
		v0 := f.version()
		sf.leaf.VirtualApply(p)
		v1 := f.version()
		if p.Err != nil {
			if status.Code(p.Err) != codes.NotFound {
				w.violate("status-differs op=stat-digest expected=OK-or-NOTFOUND", p.Err.Error())
			}
			sw.staleSeen++
			return
		}
		if loc := p.Stat.GetFile().GetLocator(); loc != nil {
			var fal bazeloutputservicerev2.FileArtifactLocator
			if err := loc.UnmarshalTo(&fal); err != nil {
				w.violate("stat-locator-malformed", err.Error())
				return
			}
			ok := false
			for v := v0; v <= v1; v++ {
				h := f.hashOf(v)
				if hex.EncodeToString(h[:]) == fal.Digest.GetHash() {
					ok = true
				}
			}
			if !ok {
				w.violate("reported-digest-differs-from-contents op=stat", fmt.Sprintf("stat reports %s/%d which is none of the versions %d..%d of the pool file", fal.Digest.GetHash(), fal.Digest.GetSizeBytes(), v0, v1))
			}
		}
		sw.note("stat f%d", sf.idx)
	case k < 96:
		var a virtual.Attributes
		sf.leaf.VirtualGetAttributes(ctx, attrMask, &a)
	default:
		// Another consumer of the cached digest. It holds no lock
		// while it builds the node, so a panic in there can be
		// recovered and reported without taking the run down.
		p := &virtual.ApplyAppendOutputPathPersistencyDirectoryNode{Directory: &outputpathpersistency.Directory{}, Name: comp(sf.name)}
		panicked, msg := safely(func() { sf.leaf.VirtualApply(p) })
		if panicked {
			w.violate("persistency-node-panics-while-file-is-written", msg)
		}
	}
}

func runStressRound(r *ev.Run, i int) {
	rng := r.Rand(2, uint64(i))
	handles := []string{"fuse", "nfs"}[i%2]
	procs := []int{2, 4, 16}[i%3]
	goroutines := 6 + rng.IntN(7)
	nfiles := 1 + rng.IntN(2)
	r.Case("stress round=%d handles=%s goroutines=%d files=%d gomaxprocs=%d", i, handles, goroutines, nfiles, procs)
	prev := runtime.GOMAXPROCS(procs)
	defer runtime.GOMAXPROCS(prev)

	w := newWorld(r, "stress", i, handles, rng, true)
	var files []*sfile
	for k := 0; k < nfiles; k++ {
		name := fmt.Sprintf("f%d", k)
		var create, out virtual.Attributes
		create.SetPermissions(virtual.PermissionsRead | virtual.PermissionsWrite)
		leaf, _, _, s := w.dirs[0].dir.VirtualOpenChild(ctx, comp(name), virtual.ShareMaskRead, &create, nil, attrMask, &out)
		if s != virtual.StatusOK {
			w.violate("status-differs op=create expected=OK", fmt.Sprint(s))
			return
		}
		sf := &sfile{idx: k, name: name, leaf: leaf, ifile: w.pool.last()}
		sf.ifile.held.Store(2) // the name and the read descriptor
		files = append(files, sf)
	}

	workers := make([]*stressWorker, goroutines)
	var wg sync.WaitGroup
	start := make(chan struct{})
	for g := range workers {
		sw := &stressWorker{w: w, g: g, rng: r.Rand(3, uint64(i), uint64(g)), files: files}
		workers[g] = sw
		steps := 8 + sw.rng.IntN(20)
		wg.Add(1)
		go func() {
			defer wg.Done()
			<-start
			for s := 0; s < steps && !w.isAborted(); s++ {
				sw.step()
				sw.yield()
			}
		}()
	}
	close(start)
	if !w.await(w.async(wg.Wait), "stress round") {
		return
	}

	// Release what the driver still holds.
	raced, stale, uploads := 0, 0, 0
	h := sha256.New()
	for _, sw := range workers {
		raced += sw.raced
		stale += sw.staleSeen
		uploads += sw.uploads
		fmt.Fprintf(h, "%v\n", sw.log)
		w.mu.Lock()
		w.ops = append(w.ops, fmt.Sprintf("goroutine %d: %v", sw.g, sw.log))
		w.mu.Unlock()
	}
	for _, sf := range files {
		if w.isAborted() {
			return
		}
		sf.ifile.held.Add(-1)
		sf.leaf.VirtualClose(virtual.ShareMaskRead)
		if sf.unlinked.CompareAndSwap(false, true) {
			sf.ifile.held.Add(-1)
			if _, s := w.dirs[0].dir.VirtualRemove(ctx, comp(sf.name), false, true); s != virtual.StatusOK {
				w.violate("status-differs op=unlink expected=OK", fmt.Sprint(s))
			}
		}
	}
	for _, f := range w.pool.all() {
		if cc := f.closeCount.Load(); cc != 1 && !w.isAborted() {
			w.violate("pool-file-not-closed-exactly-once after=stress-round", fmt.Sprintf("pool file %d closed %d times after every reference was released (harness-held count %d)", f.id, cc, f.held.Load()))
		}
	}
	// A file without references must reject new ones.
	for _, sf := range files {
		if w.isAborted() {
			break
		}
		panicked, msg := safely(func() {
			var out virtual.Attributes
			if s := sf.leaf.VirtualOpenSelf(ctx, virtual.ShareMaskRead, &virtual.OpenExistingOptions{}, attrMask, &out); s != virtual.StatusErrStale {
				w.violate("stale-operation-not-rejected op=open-self", fmt.Sprint(s))
			}
			cas := &fakeCAS{file: sf.ifile, chunk: 8, rep: w}
			ch := make(chan struct{})
			close(ch)
			p := &virtual.ApplyUploadFile{Context: ctx, ContentAddressableStorage: cas, DigestFunction: w.fns[0].fn, WritableFileUploadDelay: ch}
			sf.leaf.VirtualApply(p)
			if status.Code(p.Err) != codes.NotFound || p.Digest != digest.BadDigest {
				w.violate("stale-operation-not-rejected op=upload", fmt.Sprint(p.Err))
			}
		})
		if panicked {
			w.violate("stale-operation-panics op=open-self-or-upload", msg)
		}
	}
	w.sit("stress-round")
	if raced > 0 {
		w.r.SituationN("stress-upload-raced-writer", raced)
	}
	if stale > 0 {
		w.r.SituationN("stress-operation-found-file-gone", stale)
	}
	r.Count("stress_uploads", uploads)
	r.Count("pool_files", len(w.pool.all()))
	r.Hash(hex.EncodeToString(h.Sum(nil)[:12]), true)
}
