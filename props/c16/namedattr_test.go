package c16

// Named-attribute scenario family: a pool-backed file F owns a named-attributes
// directory D (NFSv4 OPENATTR) whose attribute files are pool-backed files
// themselves. The pool files of the attribute files belong to the backing
// storage of F: they have to survive as long as F has a reference and the
// attribute has an entry in D (or an open descriptor of its own), and they have
// to be closed exactly once when the last of these disappears - for attributes
// without a descriptor that is the moment F loses its last reference
// (fileBackedFile.releaseReferencesLocked -> NamedAttributes.Release).
//
// The attribute files are registered as ordinary model files (mfile): their
// link count is the number of entries in D, and all entries of D vanish when
// the owner loses its last reference. checkLifetimes then applies the same
// close-once / bytes / link-count / NFS-handle oracles as everywhere else.

import (
	"bytes"
	"fmt"

	"github.com/buildbarn/bb-remote-execution/pkg/filesystem/virtual"

	"verif/internal/ev"
)

var namedAttrFloors = []string{
	"na-absent-directory-reported",
	"na-attribute-file-created",
	"na-attribute-hard-linked",
	"na-attribute-renamed",
	"na-attribute-removed-before-owner",
	"na-owner-kept-alive-by-descriptor-after-unlink",
	"na-owner-kept-alive-by-frozen-reader",
	"na-owner-released-by-unlink",
	"na-owner-released-by-close-after-unlink",
	"na-owner-released-by-close-frozen",
	"na-owner-released-with-attribute-entries",
	"na-attribute-released-with-owner",
	"na-attribute-outlives-owner-by-descriptor",
	"na-attribute-closed-after-owner-release",
	"na-create-in-released-directory-rejected",
	"na-released-attribute-operation",
	"na-directory-handle-stale-after-release",
}

var attrNames = []string{"x", "y", "z"}

// naWorld is the state of one history on top of a world.
type naWorld struct {
	*world
	owner     *mfile
	dir       virtual.Directory
	dm        *mdir // dir as PrepopulatedDirectory (nil if it is not one)
	entries   map[string]*mfile
	attrs     []*mfile
	dirFH     []byte
	ownerGone bool
	// outlived: attribute files that had a descriptor when the owner
	// was released.
	outlived map[*mfile]bool
}

// check propagates the release of the owner to the model of D and runs the
// lifetime oracle.
func (n *naWorld) check(after string) {
	if n.isAborted() {
		return
	}
	if !n.ownerGone && n.owner != nil && n.owner.refs() == 0 {
		n.ownerGone = true
		n.sit("na-owner-released-by-" + after)
		if len(n.entries) > 0 {
			n.sit("na-owner-released-with-attribute-entries")
		}
		for name, m := range n.entries {
			m.links--
			delete(n.entries, name)
		}
		for _, m := range n.attrs {
			if m.dead {
				continue
			}
			if m.refs() == 0 {
				n.sit("na-attribute-released-with-owner")
			} else {
				n.outlived[m] = true
				n.sit("na-attribute-outlives-owner-by-descriptor")
			}
		}
		n.logf("  owner f%d lost its last reference by %s", n.owner.id, after)
	}
	n.checkLifetimes("na-" + after)
	if n.isAborted() || n.dir == nil {
		return
	}
	// The attribute directory lists exactly the model's entries.
	for _, name := range attrNames {
		var out virtual.Attributes
		child, s := n.dir.VirtualLookup(ctx, comp(name), n.mask, &out)
		m, ok := n.entries[name]
		switch {
		case ok:
			if _, leaf := child.GetPair(); s != virtual.StatusOK || leaf != m.leaf {
				n.violate("attribute-entry-lost after="+after, fmt.Sprintf("attribute %q (f%d) of owner f%d: lookup = %v, same leaf %v", name, m.id, n.owner.id, s, leaf == m.leaf))
				return
			}
		case s == virtual.StatusOK:
			n.violate("attribute-entry-survives after="+after, fmt.Sprintf("attribute %q of owner f%d (released=%v) has no entry in the model, lookup = OK", name, n.owner.id, n.ownerGone))
			return
		}
	}
	if n.nfs != nil && n.dirFH != nil {
		child, s := n.nfs.ResolveHandle(bytes.NewReader(n.dirFH))
		if !n.ownerGone {
			if d, _ := child.GetPair(); s != virtual.StatusOK || d != n.dir {
				n.violate("nfs-handle-of-attribute-directory-does-not-resolve after="+after, fmt.Sprintf("owner f%d still referenced: ResolveHandle = %v", n.owner.id, s))
			}
		} else {
			if s != virtual.StatusErrStale {
				n.violate("nfs-handle-of-released-attribute-directory-still-resolves after="+after, fmt.Sprintf("owner f%d released: ResolveHandle = %v", n.owner.id, s))
				return
			}
			n.sit("na-directory-handle-stale-after-release")
		}
	}
}

func (n *naWorld) openDirectory() bool {
	f := n.owner
	var out virtual.Attributes
	d, s := f.leaf.VirtualOpenNamedAttributes(ctx, false, n.mask, &out)
	n.logf("openattr f%d create=false -> %v", f.id, s)
	if s != virtual.StatusErrNoEnt || d != nil {
		n.violate("status-differs op=openattr-absent expected=NOENT", fmt.Sprintf("got %v, directory %v", s, d != nil))
		return false
	}
	n.sit("na-absent-directory-reported")
	before := len(n.pool.all())
	out = virtual.Attributes{}
	d, s = f.leaf.VirtualOpenNamedAttributes(ctx, true, n.mask, &out)
	n.logf("openattr f%d create=true -> %v", f.id, s)
	if s != virtual.StatusOK || d == nil {
		n.violate("status-differs op=openattr-create expected=OK", fmt.Sprintf("got %v", s))
		return false
	}
	if len(n.pool.all()) != before {
		n.violate("pool-newfile-count-differs op=openattr-create", "creating the attribute directory allocated a pool file")
		return false
	}
	var out2 virtual.Attributes
	if d2, s := f.leaf.VirtualOpenNamedAttributes(ctx, n.rng.IntN(2) == 0, n.mask, &out2); s != virtual.StatusOK || d2 != d {
		n.violate("status-differs op=openattr-again expected=OK", fmt.Sprintf("got %v, same directory %v", s, d2 == d))
		return false
	}
	n.dir = d
	if pd, ok := d.(virtual.PrepopulatedDirectory); ok {
		n.dm = &mdir{name: fmt.Sprintf("attrdir(f%d)", f.id), dir: pd, entries: n.entries}
	}
	if n.nfs != nil {
		n.dirFH = append([]byte(nil), out.GetFileHandle()...)
	}
	return true
}

func (n *naWorld) freeName() (string, bool) {
	var free []string
	for _, name := range attrNames {
		if _, ok := n.entries[name]; !ok {
			free = append(free, name)
		}
	}
	if len(free) == 0 {
		return "", false
	}
	return free[n.rng.IntN(len(free))], true
}

func (n *naWorld) pickAttrEntry() (string, *mfile) {
	var have []string
	for _, name := range attrNames {
		if _, ok := n.entries[name]; ok {
			have = append(have, name)
		}
	}
	if len(have) == 0 {
		return "", nil
	}
	name := have[n.rng.IntN(len(have))]
	return name, n.entries[name]
}

func (n *naWorld) opCreateAttr() string {
	name, ok := n.freeName()
	if !ok {
		return "noop"
	}
	share := virtual.ShareMask(n.rng.IntN(4))
	var create virtual.Attributes
	exec := n.rng.IntN(4) == 0
	if exec {
		create.SetPermissions(virtual.PermissionsRead | virtual.PermissionsWrite | virtual.PermissionsExecute)
	} else {
		create.SetPermissions(virtual.PermissionsRead | virtual.PermissionsWrite)
	}
	size := 0
	if n.rng.IntN(3) == 0 {
		size = 1 + n.rng.IntN(20)
		create.SetSizeBytes(uint64(size))
	}
	before := len(n.pool.all())
	var out virtual.Attributes
	leaf, _, _, s := n.dir.VirtualOpenChild(ctx, comp(name), share, &create, nil, n.mask, &out)
	n.logf("create-attribute f%d:%s share=%s size=%d -> %v", n.owner.id, name, maskName(share), size, s)
	if s != virtual.StatusOK {
		n.violate("status-differs op=create-attribute expected=OK", fmt.Sprintf("got %v", s))
		return "create-attribute"
	}
	ifile := n.pool.last()
	if len(n.pool.all()) != before+1 || ifile == nil {
		n.violate("pool-newfile-count-differs op=create-attribute", fmt.Sprintf("pool files before %d, after %d", before, len(n.pool.all())))
		return "create-attribute"
	}
	m := &mfile{id: len(n.files), leaf: leaf, ifile: ifile, links: 1, content: make([]byte, size), exec: exec}
	if n.nfs != nil {
		m.fh = append([]byte(nil), out.GetFileHandle()...)
	}
	if share != 0 {
		m.opens = append(m.opens, share)
	}
	n.world.files = append(n.world.files, m)
	n.attrs = append(n.attrs, m)
	n.entries[name] = m
	n.sit("na-attribute-file-created")
	return "create-attribute"
}

// opWriteAttr stores bytes in an attribute file, opening a descriptor first
// if there is none that permits writing.
func (n *naWorld) opWriteAttr(m *mfile) string {
	if m.writers() == 0 {
		var out virtual.Attributes
		s := m.leaf.VirtualOpenSelf(ctx, virtual.ShareMaskWrite, &virtual.OpenExistingOptions{}, n.mask, &out)
		n.logf("open-self f%d share=w -> %v", m.id, s)
		if s != virtual.StatusOK {
			n.violate("status-differs op=open-self expected=OK", fmt.Sprintf("attribute file f%d with %d links, descriptors %v: got %v", m.id, m.links, m.opens, s))
			return "open"
		}
		m.opens = append(m.opens, virtual.ShareMaskWrite)
	}
	return n.opWrite(m)
}

func (n *naWorld) opLinkAttr(m *mfile) string {
	name := attrNames[n.rng.IntN(len(attrNames))]
	var out virtual.Attributes
	_, s := n.dir.VirtualLink(ctx, comp(name), m.leaf, n.mask, &out)
	_, exists := n.entries[name]
	n.logf("link-attribute f%d as %s (links %d, exists %v) -> %v", m.id, name, m.links, exists, s)
	if s != virtual.StatusOK {
		// Refusals are recorded only.
		return "link-attribute-refused"
	}
	if exists {
		n.violate("status-differs op=link-attribute expected=EXIST", "VirtualLink over an existing attribute returned OK")
		return "link-attribute"
	}
	m.links++
	n.entries[name] = m
	n.sit("na-attribute-hard-linked")
	return "link-attribute"
}

func (n *naWorld) opRenameAttr(name string, m *mfile) string {
	name2 := attrNames[n.rng.IntN(len(attrNames))]
	_, _, s := n.dir.VirtualRename(ctx, comp(name), n.dir, comp(name2))
	target := n.entries[name2]
	n.logf("rename-attribute %s (f%d) -> %s (target %v) -> %v", name, m.id, name2, target != nil, s)
	if s != virtual.StatusOK {
		return "rename-attribute-refused"
	}
	if target == m {
		return "rename-attribute"
	}
	delete(n.entries, name)
	if target != nil {
		target.links--
		if target.refs() == 0 {
			n.sit("na-attribute-removed-before-owner")
		}
	}
	n.entries[name2] = m
	n.sit("na-attribute-renamed")
	return "unlink"
}

func (n *naWorld) opRemoveAttr(name string, m *mfile) string {
	_, s := n.dir.VirtualRemove(ctx, comp(name), false, true)
	n.logf("remove-attribute %s (f%d, links %d, opens %v) -> %v", name, m.id, m.links, m.opens, s)
	if s != virtual.StatusOK {
		n.violate("status-differs op=remove-attribute expected=OK", fmt.Sprintf("got %v", s))
		return "unlink"
	}
	delete(n.entries, name)
	m.links--
	if m.refs() == 0 {
		n.sit("na-attribute-removed-before-owner")
	}
	return "unlink"
}

// attrStep performs one operation on the attribute directory or on one of
// the attribute files while the owner is referenced.
func (n *naWorld) attrStep() string {
	name, m := n.pickAttrEntry()
	if m == nil || (len(n.entries) < 3 && n.rng.IntN(4) == 0) {
		if s := n.opCreateAttr(); s != "noop" {
			return s
		}
	}
	if m == nil {
		return "noop"
	}
	switch k := n.rng.IntN(12); {
	case k < 4:
		return n.opWriteAttr(m)
	case k < 5 && n.dm != nil:
		return n.opOpenChild(n.dm, name, m)
	case k < 6:
		return n.opOpenSelf(m)
	case k < 7 && len(m.opens) > 0:
		return n.opClose(m)
	case k < 9:
		return n.opLinkAttr(m)
	case k < 10:
		return n.opRenameAttr(name, m)
	case k < 11:
		return n.opRemoveAttr(name, m)
	default:
		for _, s := range m.opens {
			if s&virtual.ShareMaskRead != 0 {
				return n.opRead(m)
			}
		}
		return n.opWriteAttr(m)
	}
}

// ownerRefStep gives the owner an additional reference of a random kind.
func (n *naWorld) ownerRefStep() string {
	f := n.owner
	switch n.rng.IntN(3) {
	case 0:
		return n.opLink(f)
	case 1:
		if len(f.frozen) == 0 {
			return n.opOpenSelf(f)
		}
		return "noop"
	default:
		if f.writers() == 0 && len(f.frozen) < 2 {
			return n.opOpenFrozen(f)
		}
		return "noop"
	}
}

// afterRelease exercises retained references once the owner is gone.
func (n *naWorld) afterRelease() {
	f := n.owner
	// The attribute directory is gone with its owner: it must not accept
	// new files, as nothing would ever release their pool files.
	before := len(n.pool.all())
	var create, out virtual.Attributes
	create.SetPermissions(virtual.PermissionsRead | virtual.PermissionsWrite)
	var s virtual.Status
	panicked, msg := safely(func() {
		_, _, _, s = n.dir.VirtualOpenChild(ctx, comp("late"), virtual.ShareMaskWrite, &create, nil, n.mask, &out)
	})
	n.logf("create-attribute f%d:late after release -> %v panicked=%v", f.id, s, panicked)
	switch {
	case panicked:
		n.violate("stale-operation-panics op=create-in-released-attribute-directory", msg)
		return
	case s == virtual.StatusOK || len(n.pool.all()) != before:
		n.violate("released-attribute-directory-accepts-new-file", fmt.Sprintf("owner f%d has no reference left and its attribute directory was released, but VirtualOpenChild(create) returned %v and %d pool file(s) were allocated", f.id, s, len(n.pool.all())-before))
		return
	}
	n.sit("na-create-in-released-directory-rejected")
	// Documented by the code only: OPENATTR on the released owner hands
	// out the (now deleted) directory again. Recorded, must not panic.
	panicked, msg = safely(func() {
		var out virtual.Attributes
		d, s := f.leaf.VirtualOpenNamedAttributes(ctx, false, n.mask, &out)
		n.logf("openattr f%d after release -> %v same=%v", f.id, s, d == n.dir)
		var a virtual.Attributes
		f.leaf.VirtualGetAttributes(ctx, n.mask|virtual.AttributesMaskHasNamedAttributes, &a)
		n.dir.VirtualGetAttributes(ctx, n.mask, &a)
		n.dir.VirtualRemove(ctx, comp(attrNames[n.rng.IntN(len(attrNames))]), false, true)
	})
	if panicked {
		n.violate("stale-operation-panics op=openattr-after-release", msg)
	}
}

func runNamedAttr(r *ev.Run, i int) {
	rng := r.Rand(4, uint64(i))
	handles := []string{"nfs", "fuse", "bare", "nfs+builder", "fuse+builder"}[i%5]
	r.Case("namedattr case=%d handles=%s", i, handles)
	w := newWorldNA(r, "namedattr", i, handles, rng, false, true)
	n := &naWorld{world: w, entries: map[string]*mfile{}, outlived: map[*mfile]bool{}}
	defer w.finish()

	// The owner, with a random first descriptor.
	for tries := 0; len(w.files) == 0 && tries < 20 && !w.isAborted(); tries++ {
		w.checkLifetimes(w.opCreate())
	}
	if len(w.files) == 0 || w.isAborted() {
		return
	}
	n.owner = w.files[0]
	for k := rng.IntN(3); k > 0 && !w.isAborted(); k-- {
		n.check(n.ownerRefStep())
	}
	if w.isAborted() || !n.openDirectory() {
		return
	}
	n.check("openattr")

	// Build phase: attribute files come and go while the owner is linked.
	for k := 4 + rng.IntN(12); k > 0 && !w.isAborted(); k-- {
		if rng.IntN(6) == 0 {
			n.check(n.ownerRefStep())
		} else {
			n.check(n.attrStep())
		}
	}

	// Most attribute files are left without a descriptor, so that the
	// release of the owner is what releases them.
	for _, m := range n.attrs {
		if rng.IntN(3) != 0 {
			for len(m.opens) > 0 && !w.isAborted() {
				n.check(w.opClose(m))
			}
		}
	}

	// Drop phase: the references of the owner go away in a random order,
	// interleaved with operations on the attributes.
	for !w.isAborted() && !n.ownerGone {
		f := n.owner
		var acts []func() string
		if len(f.opens) > 0 {
			acts = append(acts, func() string { return w.opClose(f) })
		}
		for j := range f.frozen {
			j := j
			acts = append(acts, func() string { w.closeFrozen(f, min(j, len(f.frozen)-1)); return "close-frozen" })
		}
		for _, d := range w.dirs {
			d := d
			for _, name := range names {
				if m, ok := d.entries[name]; ok && m == f {
					acts = append(acts, func() string { return w.opUnlink(d, name, f) })
				}
			}
		}
		if len(acts) == 0 {
			w.violate("harness-model-inconsistent", "owner has references but no action releases one")
			return
		}
		if rng.IntN(3) == 0 {
			n.check(n.attrStep())
			continue
		}
		after := acts[rng.IntN(len(acts))]()
		if f.refs() > 0 && f.links == 0 && len(n.entries) > 0 {
			if len(f.opens) > 0 {
				n.sit("na-owner-kept-alive-by-descriptor-after-unlink")
			} else {
				n.sit("na-owner-kept-alive-by-frozen-reader")
			}
		}
		n.check(after)
	}
	if w.isAborted() {
		return
	}
	n.afterRelease()
	n.check("probe-after-release")

	// The attribute files that outlived the owner through a descriptor
	// of their own: still readable/writable, closed at their last close.
	for !w.isAborted() {
		var open, dead []*mfile
		for _, m := range n.attrs {
			if len(m.opens) > 0 {
				open = append(open, m)
			} else if m.dead {
				dead = append(dead, m)
			}
		}
		if len(open) == 0 {
			break
		}
		m := open[rng.IntN(len(open))]
		switch k := rng.IntN(6); {
		case k < 1 && m.writers() > 0:
			n.check(w.opWrite(m))
		case k < 2 && len(dead) > 0:
			w.opStale(dead[rng.IntN(len(dead))])
			n.sit("na-released-attribute-operation")
			n.check("stale")
		default:
			after := w.opClose(m)
			if m.refs() == 0 && n.outlived[m] {
				n.sit("na-attribute-closed-after-owner-release")
			}
			n.check(after)
		}
	}
	for _, m := range n.attrs {
		if w.isAborted() {
			return
		}
		if m.dead && rng.IntN(2) == 0 {
			w.opStale(m)
			n.sit("na-released-attribute-operation")
			n.check("stale")
		}
	}
	if !w.isAborted() {
		w.opStale(n.owner)
		n.check("stale")
	}
	// Conservation: every pool file created was closed exactly once.
	w.drain()
}
