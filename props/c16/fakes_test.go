package c16

import (
	"context"
	"crypto/md5"
	"crypto/sha256"
	"encoding/hex"
	"fmt"
	"io"
	"math/rand/v2"
	"runtime"
	"sync"
	"sync/atomic"

	remoteexecution "github.com/bazelbuild/remote-apis/build/bazel/remote/execution/v2"
	"github.com/buildbarn/bb-remote-execution/pkg/filesystem/pool"
	"github.com/buildbarn/bb-remote-execution/pkg/filesystem/virtual"
	"github.com/buildbarn/bb-storage/pkg/blobstore/buffer"
	"github.com/buildbarn/bb-storage/pkg/blobstore/slicing"
	"github.com/buildbarn/bb-storage/pkg/digest"
	"github.com/buildbarn/bb-storage/pkg/filesystem"

	"google.golang.org/grpc/codes"
	"google.golang.org/grpc/status"
)

var errInjected = status.Error(codes.Internal, "verif: injected fault")

// reporter receives oracle hits from the fakes.
type reporter interface {
	violate(rule, detail string)
}

// ---------------------------------------------------------------------------
// Instrumented file pool.

type instrPool struct {
	rep      reporter
	yield    bool
	failNext atomic.Bool

	mu    sync.Mutex
	files []*instrFile
}

func (p *instrPool) NewFile(holeSource pool.HoleSource, size uint64) (filesystem.FileReadWriter, error) {
	if p.failNext.CompareAndSwap(true, false) {
		return nil, errInjected
	}
	p.mu.Lock()
	defer p.mu.Unlock()
	f := &instrFile{id: len(p.files), rep: p.rep, yield: p.yield, data: make([]byte, size)}
	f.hashes = append(f.hashes, sha256.Sum256(f.data))
	p.files = append(p.files, f)
	return f, nil
}

func (p *instrPool) last() *instrFile {
	p.mu.Lock()
	defer p.mu.Unlock()
	if len(p.files) == 0 {
		return nil
	}
	return p.files[len(p.files)-1]
}

func (p *instrPool) all() []*instrFile {
	p.mu.Lock()
	defer p.mu.Unlock()
	return append([]*instrFile(nil), p.files...)
}

// instrFile is the backing storage of one pool-backed file. It is the
// ground truth for "the bytes of the file": every mutation creates a new
// version whose sha256 is remembered.
type instrFile struct {
	id    int
	rep   reporter
	yield bool

	closeCount  atomic.Int32
	active      atomic.Int32 // calls in progress (the pool contract forbids overlap)
	frozenProbe atomic.Int32 // > 0: the harness knows a frozen reader exists
	held        atomic.Int32 // references the harness definitely holds (stress mode)

	failTruncate atomic.Bool
	failWrite    atomic.Bool // next WriteAt stores half and fails
	failRead     atomic.Bool
	failSeek     atomic.Bool

	reads, writes, truncates atomic.Int64

	mu     sync.Mutex
	data   []byte
	hashes [][32]byte // hashes[v] = sha256 of version v
}

func (f *instrFile) enter(op string) bool {
	if n := f.active.Add(1); n != 1 {
		f.rep.violate("pool-file-used-concurrently op="+op, fmt.Sprintf("pool file %d: %s entered while %d other call(s) on the same handle are in progress (FilePool handles are not thread-safe)", f.id, op, n-1))
	}
	if f.closeCount.Load() != 0 {
		f.rep.violate("pool-file-used-after-close op="+op, fmt.Sprintf("pool file %d: %s after Close", f.id, op))
		return false
	}
	if f.yield {
		runtime.Gosched()
	}
	return true
}

func (f *instrFile) exit() { f.active.Add(-1) }

func (f *instrFile) checkNotFrozen(op string) {
	if n := f.frozenProbe.Load(); n > 0 {
		f.rep.violate("pool-file-mutated-while-frozen op="+op, fmt.Sprintf("pool file %d: %s while %d frozen reader(s)/upload(s) are reading it", f.id, op, n))
	}
}

func (f *instrFile) version() int {
	f.mu.Lock()
	defer f.mu.Unlock()
	return len(f.hashes) - 1
}

func (f *instrFile) hashOf(v int) [32]byte {
	f.mu.Lock()
	defer f.mu.Unlock()
	return f.hashes[v]
}

func (f *instrFile) snapshot() []byte {
	f.mu.Lock()
	defer f.mu.Unlock()
	return append([]byte(nil), f.data...)
}

func (f *instrFile) ReadAt(p []byte, off int64) (int, error) {
	defer f.exit()
	if !f.enter("ReadAt") {
		return 0, status.Error(codes.Internal, "verif: use after close")
	}
	f.reads.Add(1)
	if f.failRead.CompareAndSwap(true, false) {
		return 0, errInjected
	}
	f.mu.Lock()
	defer f.mu.Unlock()
	if off < 0 {
		return 0, status.Error(codes.InvalidArgument, "negative offset")
	}
	if off >= int64(len(f.data)) {
		return 0, io.EOF
	}
	n := copy(p, f.data[off:])
	if n < len(p) {
		return n, io.EOF
	}
	return n, nil
}

func (f *instrFile) bump() {
	f.hashes = append(f.hashes, sha256.Sum256(f.data))
}

func (f *instrFile) WriteAt(p []byte, off int64) (int, error) {
	defer f.exit()
	if !f.enter("WriteAt") {
		return 0, status.Error(codes.Internal, "verif: use after close")
	}
	f.writes.Add(1)
	f.checkNotFrozen("WriteAt")
	if off < 0 {
		return 0, status.Error(codes.InvalidArgument, "negative offset")
	}
	var err error
	if len(p) > 1 && f.failWrite.CompareAndSwap(true, false) {
		p = p[:len(p)/2]
		err = errInjected
	}
	if len(p) == 0 {
		return 0, err
	}
	f.mu.Lock()
	defer f.mu.Unlock()
	if end := off + int64(len(p)); end > int64(len(f.data)) {
		f.data = append(f.data, make([]byte, end-int64(len(f.data)))...)
	}
	copy(f.data[off:], p)
	f.bump()
	return len(p), err
}

func (f *instrFile) Truncate(size int64) error {
	defer f.exit()
	if !f.enter("Truncate") {
		return status.Error(codes.Internal, "verif: use after close")
	}
	f.truncates.Add(1)
	f.checkNotFrozen("Truncate")
	if f.failTruncate.CompareAndSwap(true, false) {
		return errInjected
	}
	f.mu.Lock()
	defer f.mu.Unlock()
	if size < int64(len(f.data)) {
		f.data = f.data[:size]
	} else {
		f.data = append(f.data, make([]byte, size-int64(len(f.data)))...)
	}
	f.bump()
	return nil
}

func (f *instrFile) GetNextRegionOffset(off int64, regionType filesystem.RegionType) (int64, error) {
	defer f.exit()
	if !f.enter("GetNextRegionOffset") {
		return 0, status.Error(codes.Internal, "verif: use after close")
	}
	if f.failSeek.CompareAndSwap(true, false) {
		return 0, errInjected
	}
	f.mu.Lock()
	defer f.mu.Unlock()
	if off >= int64(len(f.data)) {
		return 0, io.EOF
	}
	if regionType == filesystem.Data {
		// A tail of null bytes counts as a hole at the end of the
		// file: no more data.
		for _, b := range f.data[off:] {
			if b != 0 {
				return off, nil
			}
		}
		return 0, io.EOF
	}
	return int64(len(f.data)), nil
}

func (f *instrFile) Len() (int64, error) {
	defer f.exit()
	if !f.enter("Len") {
		return 0, status.Error(codes.Internal, "verif: use after close")
	}
	f.mu.Lock()
	defer f.mu.Unlock()
	return int64(len(f.data)), nil
}

func (f *instrFile) Sync() error { return nil }

func (f *instrFile) Close() error {
	if n := f.active.Load(); n != 0 {
		f.rep.violate("pool-file-used-concurrently op=Close", fmt.Sprintf("pool file %d: Close while %d call(s) are in progress", f.id, n))
	}
	if n := f.closeCount.Add(1); n != 1 {
		f.rep.violate("pool-file-closed-twice", fmt.Sprintf("pool file %d: Close called %d times", f.id, n))
		return nil
	}
	if h := f.held.Load(); h > 0 {
		f.rep.violate("pool-file-closed-while-referenced", fmt.Sprintf("pool file %d: Close while the harness still holds %d reference(s) (links, descriptors, frozen readers or uploads in progress)", f.id, h))
	}
	if n := f.frozenProbe.Load(); n > 0 {
		f.rep.violate("pool-file-closed-while-frozen", fmt.Sprintf("pool file %d: Close while %d frozen reader(s)/upload(s) exist", f.id, n))
	}
	return nil
}

// ---------------------------------------------------------------------------
// Fake Content Addressable Storage, one instance per upload.

type casMode int

const (
	casOK casMode = iota
	casFailBeforeRead
	casFailMidRead
)

type fakeCAS struct {
	file  *instrFile // the pool file the upload is expected to read
	mode  casMode
	chunk int
	yield bool
	rep   reporter

	mu        sync.Mutex
	puts      int
	gotDigest digest.Digest
	consumed  []byte
	complete  bool
	failed    bool
	verAtPut  int
	verAtEnd  int
	writersAt int // harness-known writers at the time Put was entered (stepped mode)
	onPut     func()
}

func (c *fakeCAS) GetCapabilities(ctx context.Context, instanceName digest.InstanceName) (*remoteexecution.ServerCapabilities, error) {
	return nil, status.Error(codes.Unimplemented, "verif: not used")
}

func (c *fakeCAS) Get(ctx context.Context, d digest.Digest) buffer.Buffer {
	return buffer.NewBufferFromError(status.Error(codes.Unimplemented, "verif: not used"))
}

func (c *fakeCAS) GetFromComposite(ctx context.Context, parentDigest, childDigest digest.Digest, slicer slicing.BlobSlicer) buffer.Buffer {
	return buffer.NewBufferFromError(status.Error(codes.Unimplemented, "verif: not used"))
}

func (c *fakeCAS) FindMissing(ctx context.Context, digests digest.Set) (digest.Set, error) {
	return digests, nil
}

func (c *fakeCAS) Put(ctx context.Context, d digest.Digest, b buffer.Buffer) error {
	// From before Put is called until the buffer is released the file
	// is frozen and referenced by the upload.
	c.file.frozenProbe.Add(1)
	c.file.held.Add(1)
	released := false
	release := func() {
		if !released {
			released = true
			c.file.held.Add(-1)
			c.file.frozenProbe.Add(-1)
		}
	}
	defer release()
	if c.onPut != nil {
		c.onPut()
	}
	c.mu.Lock()
	c.puts++
	c.gotDigest = d
	c.verAtPut = c.file.version()
	c.mu.Unlock()

	if c.mode == casFailBeforeRead {
		release()
		b.Discard()
		c.mu.Lock()
		c.failed = true
		c.mu.Unlock()
		return errInjected
	}
	r := b.ToReader()
	var data []byte
	chunk := make([]byte, max(1, c.chunk))
	for {
		n, err := r.Read(chunk)
		data = append(data, chunk[:n]...)
		if c.yield {
			runtime.Gosched()
		}
		if c.mode == casFailMidRead && len(data) > 0 {
			release()
			r.Close()
			c.mu.Lock()
			c.consumed = data
			c.failed = true
			c.mu.Unlock()
			return errInjected
		}
		if err == io.EOF {
			break
		}
		if err != nil {
			release()
			r.Close()
			c.mu.Lock()
			c.failed = true
			c.mu.Unlock()
			return err
		}
	}
	ver := c.file.version()
	release()
	r.Close()
	c.mu.Lock()
	c.consumed = data
	c.complete = true
	c.verAtEnd = ver
	c.mu.Unlock()
	return nil
}

// ---------------------------------------------------------------------------
// Digest functions.

type digestFn struct {
	name string
	fn   digest.Function
	sum  func([]byte) string
}

func digestFns() []digestFn {
	return []digestFn{
		{"sha256/a", digest.MustNewFunction("a", remoteexecution.DigestFunction_SHA256), func(b []byte) string { s := sha256.Sum256(b); return hex.EncodeToString(s[:]) }},
		{"md5/a", digest.MustNewFunction("a", remoteexecution.DigestFunction_MD5), func(b []byte) string { s := md5.Sum(b); return hex.EncodeToString(s[:]) }},
		{"sha256/b", digest.MustNewFunction("b", remoteexecution.DigestFunction_SHA256), func(b []byte) string { s := sha256.Sum256(b); return hex.EncodeToString(s[:]) }},
	}
}

// ---------------------------------------------------------------------------
// Small fakes for the directory constructor.

type countingErrorLogger struct{ n atomic.Int64 }

func (l *countingErrorLogger) Log(err error) { l.n.Add(1) }

// detGenerator implements random.SingleThreadedGenerator and
// random.ThreadSafeGenerator deterministically.
type detGenerator struct {
	mu sync.Mutex
	r  *rand.Rand
}

func newDetGenerator(a, b uint64) *detGenerator {
	return &detGenerator{r: rand.New(rand.NewPCG(a, b))}
}

func (g *detGenerator) IsThreadSafe() {}

func (g *detGenerator) Float64() float64 {
	g.mu.Lock()
	defer g.mu.Unlock()
	return g.r.Float64()
}

func (g *detGenerator) Int64N(n int64) int64 {
	g.mu.Lock()
	defer g.mu.Unlock()
	return g.r.Int64N(n)
}

func (g *detGenerator) IntN(n int) int {
	g.mu.Lock()
	defer g.mu.Unlock()
	return g.r.IntN(n)
}

func (g *detGenerator) Read(p []byte) (int, error) {
	g.mu.Lock()
	defer g.mu.Unlock()
	for i := range p {
		p[i] = byte(g.r.Uint32())
	}
	return len(p), nil
}

func (g *detGenerator) Shuffle(n int, swap func(i, j int)) {
	g.mu.Lock()
	defer g.mu.Unlock()
	g.r.Shuffle(n, swap)
}

func (g *detGenerator) Uint32() uint32 {
	g.mu.Lock()
	defer g.mu.Unlock()
	return g.r.Uint32()
}

func (g *detGenerator) Uint64() uint64 {
	g.mu.Lock()
	defer g.mu.Unlock()
	return g.r.Uint64()
}

// routerCAS is the single BlobAccess a virtual build directory is
// constructed with; it forwards to the fake CAS of the upload in progress
// (stepped mode: at most one).
type routerCAS struct {
	mu  sync.Mutex
	cur *fakeCAS
}

func (c *routerCAS) set(cas *fakeCAS) {
	c.mu.Lock()
	c.cur = cas
	c.mu.Unlock()
}

func (c *routerCAS) get() *fakeCAS {
	c.mu.Lock()
	defer c.mu.Unlock()
	return c.cur
}

func (c *routerCAS) GetCapabilities(ctx context.Context, instanceName digest.InstanceName) (*remoteexecution.ServerCapabilities, error) {
	return nil, status.Error(codes.Unimplemented, "verif: not used")
}

func (c *routerCAS) Get(ctx context.Context, d digest.Digest) buffer.Buffer {
	return buffer.NewBufferFromError(status.Error(codes.Unimplemented, "verif: not used"))
}

func (c *routerCAS) GetFromComposite(ctx context.Context, parentDigest, childDigest digest.Digest, slicer slicing.BlobSlicer) buffer.Buffer {
	return buffer.NewBufferFromError(status.Error(codes.Unimplemented, "verif: not used"))
}

func (c *routerCAS) FindMissing(ctx context.Context, digests digest.Set) (digest.Set, error) {
	return digests, nil
}

func (c *routerCAS) Put(ctx context.Context, d digest.Digest, b buffer.Buffer) error {
	cas := c.get()
	if cas == nil {
		b.Discard()
		return status.Error(codes.Internal, "verif: Put without an upload in progress")
	}
	return cas.Put(ctx, d, b)
}

// noHooksFileAllocator is what the root directory is created with before
// InstallHooks provides the per-action file pool.
type noHooksFileAllocator struct{}

func (noHooksFileAllocator) NewFile(holeSource pool.HoleSource, isExecutable bool, size uint64, shareAccess virtual.ShareMask) (virtual.LinkableLeaf, error) {
	return nil, status.Error(codes.FailedPrecondition, "verif: no hooks installed")
}
