// Package c16 checks property C16: a writable pool-backed file lives exactly
// as long as it has a directory entry, an open descriptor or an upload /
// frozen reader in progress; its pool file is closed exactly once at that
// moment and never touched afterwards; and the digest reported for an upload
// equals the digest of the bytes the CAS received.
//
// Real code under observation: InMemoryPrepopulatedDirectory +
// HandleAllocatingFileAllocator(NFS|FUSE) + PoolBackedFileAllocator
// (pkg/filesystem/virtual). Harness-owned: the FilePool (instrumented
// in-memory files), the CAS, the delay channels, and a reference-count /
// byte-array model.
package c16

import (
	"bytes"
	"context"
	"crypto/sha256"
	"encoding/hex"
	"encoding/json"
	"errors"
	"fmt"
	"hash"
	"math/rand/v2"
	"os"
	"runtime"
	"sort"
	"strings"
	"sync"
	"sync/atomic"
	"syscall"
	"testing"
	"time"

	"github.com/buildbarn/bb-remote-execution/pkg/builder"
	"github.com/buildbarn/bb-remote-execution/pkg/filesystem/virtual"
	bazeloutputservicerev2 "github.com/buildbarn/bb-remote-execution/pkg/proto/bazeloutputservice/rev2"
	"github.com/buildbarn/bb-remote-execution/pkg/proto/outputpathpersistency"
	"github.com/buildbarn/bb-storage/pkg/digest"
	"github.com/buildbarn/bb-storage/pkg/filesystem"
	"github.com/buildbarn/bb-storage/pkg/filesystem/path"

	"google.golang.org/grpc/codes"
	"google.golang.org/grpc/status"

	"verif/internal/ev"
	"verif/internal/vclock"
)

var ctx = context.Background()

// stopRun is set once a call did not return: the goroutine stays behind and
// every further case would only wait for the watchdog again.
var stopRun atomic.Bool

const attrMask = virtual.AttributesMaskSizeBytes | virtual.AttributesMaskLinkCount | virtual.AttributesMaskFileType | virtual.AttributesMaskPermissions | virtual.AttributesMaskChangeID | virtual.AttributesMaskInodeNumber | virtual.AttributesMaskFileHandle

// mfile is the reference model of one file.
type mfile struct {
	id    int
	leaf  virtual.Leaf
	ifile *instrFile

	links     int
	opens     []virtual.ShareMask
	frozen    []filesystem.FileReader
	content   []byte
	dead      bool // reference count reached zero
	exec      bool
	fh        []byte // NFS file handle
	staleSeen bool

	uploadedOnce       bool // a digest was computed before (it may be cached)
	changedSinceDigest bool // ... and the contents changed afterwards
}

func (m *mfile) changed() {
	if m.uploadedOnce {
		m.changedSinceDigest = true
	}
}

func (m *mfile) refs() int {
	n := m.links + len(m.frozen)
	for _, s := range m.opens {
		n += int(s.Count())
	}
	return n
}

func (m *mfile) writers() int {
	n := 0
	for _, s := range m.opens {
		if s&virtual.ShareMaskWrite != 0 {
			n++
		}
	}
	return n
}

type mdir struct {
	name    string
	dir     virtual.PrepopulatedDirectory
	entries map[string]*mfile
}

// world is one directory tree over one instrumented pool.
type world struct {
	r        *ev.Run
	mode     string
	caseIdx  int
	handles  string // "nfs" or "fuse"
	rng      *rand.Rand
	pool     *instrPool
	errors   *countingErrorLogger
	dirs     []*mdir
	files    []*mfile
	fns      []digestFn
	nfs      *virtual.NFSStatefulHandleAllocator
	watchdog time.Duration

	// viaBuilder: the tree is wired up like bb_worker does it
	// (NewVirtualBuildDirectory + InstallHooks) and uploads of named
	// files go through UploadableDirectory.UploadFile.
	viaBuilder bool
	router     *routerCAS
	uploadDirs []builder.UploadableDirectory
	mask       virtual.AttributesMask

	mu      sync.Mutex
	ops     []string
	aborted bool
	sits    map[string]int
	h       hash.Hash
}

func newWorld(r *ev.Run, mode string, caseIdx int, handles string, rng *rand.Rand, yield bool) *world {
	return newWorldNA(r, mode, caseIdx, handles, rng, yield, false)
}

// newWorldNA builds a world; with namedAttrs the pool-backed files and the
// directories get the in-memory named-attributes factory wired up the way
// virtualBuildDirectory.InstallHooks does it (namedattr_test.go).
func newWorldNA(r *ev.Run, mode string, caseIdx int, handles string, rng *rand.Rand, yield, namedAttrs bool) *world {
	w := &world{r: r, mode: mode, caseIdx: caseIdx, handles: handles, rng: rng, sits: map[string]int{}, h: sha256.New(), fns: digestFns(), watchdog: 30 * time.Second}
	w.pool = &instrPool{rep: w, yield: yield}
	w.errors = &countingErrorLogger{}
	w.mask = attrMask
	var handleAllocator virtual.StatefulHandleAllocator
	switch {
	case strings.HasPrefix(handles, "nfs"):
		w.nfs = virtual.NewNFSHandleAllocator(newDetGenerator(r.Seed(), uint64(caseIdx)))
		handleAllocator = w.nfs
	default:
		handleAllocator = virtual.NewFUSEHandleAllocator(newDetGenerator(r.Seed(), uint64(caseIdx)))
	}
	w.viaBuilder = strings.HasSuffix(handles, "+builder")
	defaultAttributesSetter := func(requested virtual.AttributesMask, attributes *virtual.Attributes) {}
	symlinkFactory := virtual.NewBaseSymlinkFactory(defaultAttributesSetter)
	clock := vclock.New(1000)
	namedAttributesFactory := virtual.NoNamedAttributesFactory
	if namedAttrs {
		attributeFileAllocator := virtual.NewPoolBackedFileAllocator(w.pool, w.errors, defaultAttributesSetter, virtual.InNamedAttributeDirectoryNamedAttributesFactory)
		if handles != "bare" {
			attributeFileAllocator = virtual.NewHandleAllocatingFileAllocator(attributeFileAllocator, handleAllocator)
		}
		namedAttributesFactory = virtual.NewInMemoryNamedAttributesFactory(attributeFileAllocator, symlinkFactory, w.errors, handleAllocator, clock)
	}
	var fileAllocator virtual.FileAllocator
	switch {
	case handles == "bare":
		// No handle allocator in front of the files: link counting
		// is done by the pool-backed file itself.
		fileAllocator = virtual.NewPoolBackedFileAllocator(w.pool, w.errors, defaultAttributesSetter, namedAttributesFactory)
		w.mask = attrMask &^ (virtual.AttributesMaskLinkCount | virtual.AttributesMaskInodeNumber | virtual.AttributesMaskFileHandle)
	case w.viaBuilder:
		fileAllocator = noHooksFileAllocator{}
	default:
		fileAllocator = virtual.NewHandleAllocatingFileAllocator(
			virtual.NewPoolBackedFileAllocator(w.pool, w.errors, defaultAttributesSetter, namedAttributesFactory),
			handleAllocator)
	}
	root := virtual.NewInMemoryPrepopulatedDirectory(
		fileAllocator,
		symlinkFactory,
		w.errors,
		handleAllocator,
		sort.Sort,
		// Names a-d are never hidden; routes_test.go uses "._h".
		func(s string) bool { return strings.HasPrefix(s, "._") },
		clock,
		virtual.CaseSensitiveComponentNormalizer,
		defaultAttributesSetter,
		namedAttributesFactory)
	var bd builder.BuildDirectory
	if w.viaBuilder {
		w.router = &routerCAS{}
		bd = builder.NewVirtualBuildDirectory(root, nil, w.router, symlinkFactory, virtual.BaseCharacterDeviceFactory, handleAllocator, defaultAttributesSetter, clock)
		bd.InstallHooks(w.pool, w.errors)
	}
	w.dirs = append(w.dirs, &mdir{name: "/", dir: root, entries: map[string]*mfile{}})
	sub, err := root.CreateAndEnterPrepopulatedDirectory(path.MustNewComponent("sub"))
	if err != nil {
		panic(err)
	}
	w.dirs = append(w.dirs, &mdir{name: "/sub", dir: sub, entries: map[string]*mfile{}})
	if w.viaBuilder {
		ud, err := bd.EnterUploadableDirectory(path.MustNewComponent("sub"))
		if err != nil {
			panic(err)
		}
		w.uploadDirs = []builder.UploadableDirectory{bd, ud}
	}
	return w
}

func (w *world) violate(rule, detail string) {
	w.mu.Lock()
	w.aborted = true
	ops := append([]string(nil), w.ops...)
	w.mu.Unlock()
	if len(ops) > 300 {
		ops = ops[len(ops)-300:]
	}
	w.r.Violation("C16 "+rule, detail, map[string]any{
		"seed": w.r.Seed(), "mode": w.mode, "case": w.caseIdx, "handle_allocator": w.handles,
		"operations": ops, "detail": detail,
	})
}

func (w *world) isAborted() bool {
	w.mu.Lock()
	defer w.mu.Unlock()
	return w.aborted
}

func (w *world) sit(name string) {
	w.mu.Lock()
	w.sits[name]++
	w.mu.Unlock()
	w.r.Situation(name)
}

func (w *world) logf(format string, args ...any) {
	s := fmt.Sprintf(format, args...)
	w.mu.Lock()
	w.ops = append(w.ops, s)
	fmt.Fprintf(w.h, "%s\n", s)
	w.mu.Unlock()
}

// ---------------------------------------------------------------------------
// Blocking calls and the hang policy.

type asyncCall struct {
	done chan struct{}
}

func (w *world) async(fn func()) *asyncCall {
	c := &asyncCall{done: make(chan struct{})}
	go func() {
		defer close(c.done)
		fn()
	}()
	return c
}

func (c *asyncCall) finished() bool {
	select {
	case <-c.done:
		return true
	default:
		return false
	}
}

// settle gives other goroutines ample opportunity to run.
func settle() {
	for i := 0; i < 40; i++ {
		runtime.Gosched()
	}
	time.Sleep(200 * time.Microsecond)
	for i := 0; i < 10; i++ {
		runtime.Gosched()
	}
}

// await waits for a call whose wake-up condition has been delivered.
func (w *world) await(c *asyncCall, what string) bool {
	for attempt := 0; attempt < 2; attempt++ {
		select {
		case <-c.done:
			return true
		case <-time.After(w.watchdog):
		}
	}
	buf := make([]byte, 1<<20)
	buf = buf[:runtime.Stack(buf, true)]
	dump := string(buf)
	blockedInRepo := false
	for _, g := range strings.Split(dump, "\n\n") {
		if strings.Contains(g, "pool_backed_file_allocator.go") && (strings.Contains(g, "[chan receive") || strings.Contains(g, "[select") || strings.Contains(g, "[sync.Mutex.Lock") || strings.Contains(g, "[sync.RWMutex")) {
			blockedInRepo = true
		}
	}
	stopRun.Store(true)
	if blockedInRepo {
		w.mu.Lock()
		w.ops = append(w.ops, "goroutine dump:\n"+dump)
		w.mu.Unlock()
		w.violate("call-never-returns-after-wakeup what="+what, "the wake-up condition of a blocked call was delivered, but it did not return; a goroutine is blocked inside pool_backed_file_allocator.go (dump in witness)")
	} else {
		w.mu.Lock()
		w.aborted = true
		w.mu.Unlock()
		w.r.Inconclusive("watchdog: %s did not return within %v (case %d)", what, 2*w.watchdog, w.caseIdx)
	}
	return false
}

// safely runs fn and converts a panic into a report.
func safely(fn func()) (panicked bool, msg string) {
	defer func() {
		if e := recover(); e != nil {
			panicked = true
			msg = fmt.Sprint(e)
		}
	}()
	fn()
	return
}

// ---------------------------------------------------------------------------
// Lifetime oracle (stepped mode): evaluated after every step.

func (w *world) checkLifetimes(after string) {
	if w.isAborted() {
		return
	}
	for _, m := range w.files {
		cc := int(m.ifile.closeCount.Load())
		refs := m.refs()
		switch {
		case refs > 0 && cc != 0:
			w.violate("pool-file-closed-while-referenced after="+after, fmt.Sprintf("file %d: model has %d links, descriptors %v, %d frozen readers, but the pool file was closed %d time(s)", m.id, m.links, m.opens, len(m.frozen), cc))
			return
		case refs == 0 && cc == 0:
			w.violate("pool-file-not-closed-at-last-reference after="+after, fmt.Sprintf("file %d: no link, descriptor or frozen reader is left, but the pool file was not closed", m.id))
			return
		case cc > 1:
			w.violate("pool-file-closed-twice", fmt.Sprintf("file %d: closed %d times", m.id, cc))
			return
		}
		if refs == 0 && !m.dead {
			m.dead = true
			w.sit("last-reference-dropped-by-" + after)
		}
		if refs > 0 {
			if got := m.ifile.snapshot(); !bytes.Equal(got, m.content) {
				w.violate("stored-bytes-differ-from-model after="+after, fmt.Sprintf("file %d: pool file holds %d bytes %s, model %d bytes %s", m.id, len(got), short(got), len(m.content), short(m.content)))
				return
			}
			var a virtual.Attributes
			m.leaf.VirtualGetAttributes(ctx, w.mask, &a)
			if size, ok := a.GetSizeBytes(); !ok || size != uint64(len(m.content)) {
				w.violate("size-attribute-differs-from-model after="+after, fmt.Sprintf("file %d: size attribute %d, model %d", m.id, size, len(m.content)))
				return
			}
			if w.mask&virtual.AttributesMaskLinkCount != 0 {
				if lc := a.GetLinkCount(); int(lc) != m.links {
					w.violate("link-count-differs-from-model after="+after, fmt.Sprintf("file %d: link count attribute %d, model %d", m.id, lc, m.links))
					return
				}
			}
			if perm, ok := a.GetPermissions(); !ok || (perm&virtual.PermissionsExecute != 0) != m.exec {
				w.violate("permissions-differ-from-model after="+after, fmt.Sprintf("file %d: permissions %v, model executable=%v", m.id, perm, m.exec))
				return
			}
		}
		if w.nfs != nil && m.fh != nil {
			// A file handle resolves exactly as long as the file has
			// a directory entry; afterwards it must be stale instead
			// of leading to the (possibly released) file.
			child, s := w.nfs.ResolveHandle(bytes.NewReader(m.fh))
			if m.links > 0 {
				if _, leaf := child.GetPair(); s != virtual.StatusOK || leaf != m.leaf {
					w.violate("nfs-handle-of-linked-file-does-not-resolve after="+after, fmt.Sprintf("file %d with %d links: ResolveHandle = %v, same leaf %v", m.id, m.links, s, leaf == m.leaf))
					return
				}
			} else {
				if s != virtual.StatusErrStale {
					w.violate("nfs-handle-of-unlinked-file-still-resolves after="+after, fmt.Sprintf("file %d without links: ResolveHandle = %v", m.id, s))
					return
				}
				if !m.staleSeen {
					m.staleSeen = true
					w.sit("nfs-handle-of-unlinked-file-stale")
				}
			}
		}
	}
	w.r.Count("lifetime_checks", len(w.files))
}

func short(b []byte) string {
	if len(b) > 24 {
		return hex.EncodeToString(b[:24]) + "..."
	}
	return hex.EncodeToString(b)
}

// ---------------------------------------------------------------------------
// Operations.

var names = []string{"a", "b", "c", "d"}

func comp(s string) path.Component { return path.MustNewComponent(s) }

func maskName(s virtual.ShareMask) string {
	return [...]string{"none", "R", "W", "RW"}[s&3]
}

func (w *world) payload(n int) []byte {
	p := make([]byte, n)
	for i := range p {
		p[i] = byte(1 + w.rng.IntN(255))
	}
	return p
}

func (w *world) liveFiles() []*mfile {
	var l []*mfile
	for _, m := range w.files {
		if !m.dead && m.refs() > 0 {
			l = append(l, m)
		}
	}
	return l
}

func (w *world) deadFiles() []*mfile {
	var l []*mfile
	for _, m := range w.files {
		if m.dead {
			l = append(l, m)
		}
	}
	return l
}

func (w *world) opCreate() string {
	d := w.dirs[w.rng.IntN(len(w.dirs))]
	name := names[w.rng.IntN(len(names))]
	share := virtual.ShareMask(w.rng.IntN(4))
	if w.rng.IntN(4) != 0 && share == 0 {
		share = virtual.ShareMaskWrite
	}
	var create virtual.Attributes
	exec := w.rng.IntN(4) == 0
	if exec {
		create.SetPermissions(virtual.PermissionsRead | virtual.PermissionsWrite | virtual.PermissionsExecute)
	} else {
		create.SetPermissions(virtual.PermissionsRead | virtual.PermissionsWrite)
	}
	size := 0
	if w.rng.IntN(4) == 0 {
		size = w.rng.IntN(40)
		create.SetSizeBytes(uint64(size))
	}
	var existing *virtual.OpenExistingOptions
	if w.rng.IntN(3) == 0 {
		existing = &virtual.OpenExistingOptions{}
	}
	poolFault := w.rng.IntN(12) == 0
	if poolFault {
		w.pool.failNext.Store(true)
	}
	before := len(w.pool.all())
	var out virtual.Attributes
	leaf, _, _, s := d.dir.VirtualOpenChild(ctx, comp(name), share, &create, existing, w.mask, &out)
	w.pool.failNext.Store(false)
	w.logf("create %s/%s share=%s size=%d existing=%v poolFault=%v -> %v", d.name, name, maskName(share), size, existing != nil, poolFault, s)
	if m, ok := d.entries[name]; ok {
		if existing == nil {
			if s != virtual.StatusErrExist {
				w.violate("status-differs op=create expected=EXIST", fmt.Sprintf("got %v", s))
			}
			return "create"
		}
		if s != virtual.StatusOK {
			w.violate("status-differs op=open-existing expected=OK", fmt.Sprintf("got %v", s))
			return "create"
		}
		if share != 0 {
			m.opens = append(m.opens, share)
		}
		return "open"
	}
	if poolFault {
		if s != virtual.StatusErrIO || len(w.pool.all()) != before {
			w.violate("status-differs op=create expected=IO", fmt.Sprintf("pool NewFile failed, got %v", s))
		}
		w.sit("pool-newfile-failure")
		return "create"
	}
	if s != virtual.StatusOK {
		w.violate("status-differs op=create expected=OK", fmt.Sprintf("got %v", s))
		return "create"
	}
	ifile := w.pool.last()
	if len(w.pool.all()) != before+1 || ifile == nil {
		w.violate("pool-newfile-count-differs op=create", fmt.Sprintf("pool files before %d, after %d", before, len(w.pool.all())))
		return "create"
	}
	m := &mfile{id: len(w.files), leaf: leaf, ifile: ifile, links: 1, content: make([]byte, size), exec: exec}
	if w.nfs != nil {
		m.fh = append([]byte(nil), out.GetFileHandle()...)
	}
	if share != 0 {
		m.opens = append(m.opens, share)
	}
	w.files = append(w.files, m)
	d.entries[name] = m
	return "create"
}

func (w *world) pickEntry() (*mdir, string, *mfile) {
	type e struct {
		d *mdir
		n string
	}
	var l []e
	for _, d := range w.dirs {
		for _, n := range names {
			if _, ok := d.entries[n]; ok {
				l = append(l, e{d, n})
			}
		}
	}
	if len(l) == 0 {
		return nil, "", nil
	}
	x := l[w.rng.IntN(len(l))]
	return x.d, x.n, x.d.entries[x.n]
}

// mutate runs a content-changing call. If the harness holds frozen readers
// of the file, the call must block until they are closed.
func (w *world) mutate(m *mfile, desc string, call func() func()) string {
	var apply func()
	if len(m.frozen) == 0 {
		// Must not block; still run under the watchdog so that a
		// frozen reader leaked by the code under test shows up as a
		// call that never returns instead of a stuck harness.
		c := w.async(func() { apply = call() })
		if w.await(c, desc+" without frozen readers") {
			apply()
		}
		return desc
	}
	c := w.async(func() { apply = call() })
	settle()
	blocked := !c.finished()
	w.logf("  %s issued while %d frozen reader(s) are open: blocked=%v", desc, len(m.frozen), blocked)
	// Close the frozen readers; the call has to proceed after the last.
	for len(m.frozen) > 0 && !w.isAborted() {
		if len(m.frozen) > 1 && !c.finished() {
			settle()
		}
		w.closeFrozen(m, w.rng.IntN(len(m.frozen)))
	}
	if !w.await(c, desc+" blocked by frozen readers") {
		return desc
	}
	if blocked {
		w.sit("writer-blocked-by-frozen-reader")
	}
	apply()
	return desc + "-after-unfreeze"
}

func (w *world) closeFrozen(m *mfile, i int) {
	r := m.frozen[i]
	m.frozen = append(m.frozen[:i], m.frozen[i+1:]...)
	m.ifile.frozenProbe.Add(-1)
	err := r.Close()
	w.logf("close-frozen f%d -> %v", m.id, err)
	if err != nil {
		w.violate("unexpected-error op=close-frozen", err.Error())
	}
}

func (w *world) opWrite(m *mfile) string {
	off := w.rng.IntN(len(m.content) + 6)
	if w.rng.IntN(3) == 0 {
		off = w.rng.IntN(4)
	}
	p := w.payload(w.rng.IntN(24))
	fault := w.rng.IntN(15) == 0 && len(p) > 1
	return w.mutate(m, "write", func() func() {
		if fault {
			m.ifile.failWrite.Store(true)
		}
		n, s := m.leaf.VirtualWrite(ctx, p, uint64(off))
		m.ifile.failWrite.Store(false)
		return func() {
			w.logf("write f%d off=%d len=%d fault=%v -> %d,%v", m.id, off, len(p), fault, n, s)
			want, wantS := len(p), virtual.StatusOK
			if fault {
				want, wantS = len(p)/2, virtual.StatusErrIO
				w.sit("short-pool-write")
			}
			if n != want || s != wantS {
				w.violate("status-differs op=write", fmt.Sprintf("VirtualWrite(len %d, off %d) = (%d, %v), expected (%d, %v)", len(p), off, n, s, want, wantS))
				return
			}
			if n > 0 {
				if end := off + n; end > len(m.content) {
					m.content = append(m.content, make([]byte, end-len(m.content))...)
				}
				copy(m.content[off:], p[:n])
				m.changed()
			}
		}
	})
}

func (w *world) resize(m *mfile, size int) {
	m.changed()
	if size < len(m.content) {
		m.content = m.content[:size]
	} else {
		m.content = append(m.content, make([]byte, size-len(m.content))...)
	}
}

func (w *world) opSetSize(m *mfile) string {
	size := w.rng.IntN(len(m.content) + 10)
	if w.rng.IntN(4) == 0 {
		size = 0
	}
	fault := w.rng.IntN(15) == 0
	return w.mutate(m, "setattr-size", func() func() {
		var in, out virtual.Attributes
		in.SetSizeBytes(uint64(size))
		if fault {
			m.ifile.failTruncate.Store(true)
		}
		s := m.leaf.VirtualSetAttributes(ctx, &in, w.mask, &out)
		m.ifile.failTruncate.Store(false)
		return func() {
			w.logf("setattr f%d size=%d fault=%v -> %v", m.id, size, fault, s)
			if fault {
				if s != virtual.StatusErrIO {
					w.violate("status-differs op=setattr-size expected=IO", fmt.Sprintf("got %v", s))
				}
				w.sit("pool-truncate-failure")
				return
			}
			if s != virtual.StatusOK {
				w.violate("status-differs op=setattr-size expected=OK", fmt.Sprintf("got %v", s))
				return
			}
			w.resize(m, size)
			if got, _ := out.GetSizeBytes(); got != uint64(size) {
				w.violate("size-attribute-differs-from-model after=setattr-size", fmt.Sprintf("returned size %d, expected %d", got, size))
			}
		}
	})
}

func (w *world) opAllocate(m *mfile) string {
	off, n := w.rng.IntN(len(m.content)+4), w.rng.IntN(12)
	fault := w.rng.IntN(8) == 0
	return w.mutate(m, "allocate", func() func() {
		if fault {
			m.ifile.failTruncate.Store(true)
		}
		s := m.leaf.VirtualAllocate(ctx, uint64(off), uint64(n))
		consumed := fault && !m.ifile.failTruncate.Load()
		m.ifile.failTruncate.Store(false)
		return func() {
			w.logf("allocate f%d off=%d len=%d fault=%v -> %v", m.id, off, n, consumed, s)
			if consumed {
				if s != virtual.StatusErrIO {
					w.violate("status-differs op=allocate expected=IO", fmt.Sprintf("got %v", s))
				}
				w.sit("failed-allocate")
				return
			}
			if s != virtual.StatusOK {
				w.violate("status-differs op=allocate expected=OK", fmt.Sprintf("got %v", s))
				return
			}
			if off+n > len(m.content) {
				w.resize(m, off+n)
			}
		}
	})
}

func (w *world) opOpenSelf(m *mfile) string {
	share := virtual.ShareMask(1 + w.rng.IntN(3))
	truncate := w.rng.IntN(4) == 0
	fault := truncate && w.rng.IntN(4) == 0
	do := func() func() {
		var out virtual.Attributes
		if fault {
			m.ifile.failTruncate.Store(true)
		}
		s := m.leaf.VirtualOpenSelf(ctx, share, &virtual.OpenExistingOptions{Truncate: truncate}, w.mask, &out)
		m.ifile.failTruncate.Store(false)
		return func() {
			w.logf("open-self f%d share=%s truncate=%v fault=%v -> %v", m.id, maskName(share), truncate, fault, s)
			if fault {
				// No descriptor may have been handed out.
				if s != virtual.StatusErrIO {
					w.violate("status-differs op=open-self expected=IO", fmt.Sprintf("got %v", s))
				}
				w.sit("failed-truncating-open")
				return
			}
			if s != virtual.StatusOK {
				w.violate("status-differs op=open-self expected=OK", fmt.Sprintf("got %v", s))
				return
			}
			if truncate {
				m.content = m.content[:0]
				m.changed()
			}
			m.opens = append(m.opens, share)
		}
	}
	if truncate {
		return w.mutate(m, "open-truncate", do)
	}
	do()()
	return "open"
}

func (w *world) opOpenChild(d *mdir, name string, m *mfile) string {
	share := virtual.ShareMask(1 + w.rng.IntN(3))
	if len(m.frozen) > 0 {
		return w.opOpenSelf(m)
	}
	truncate := w.rng.IntN(4) == 0
	fault := truncate && w.rng.IntN(4) == 0
	return w.mutate(m, "open-child", func() func() {
		var out virtual.Attributes
		if fault {
			m.ifile.failTruncate.Store(true)
		}
		leaf, _, _, s := d.dir.VirtualOpenChild(ctx, comp(name), share, nil, &virtual.OpenExistingOptions{Truncate: truncate}, w.mask, &out)
		m.ifile.failTruncate.Store(false)
		return func() {
			w.logf("open-child %s/%s (f%d) share=%s truncate=%v fault=%v -> %v", d.name, name, m.id, maskName(share), truncate, fault, s)
			if fault {
				if s != virtual.StatusErrIO {
					w.violate("status-differs op=open-child expected=IO", fmt.Sprintf("got %v", s))
				}
				w.sit("failed-truncating-open")
				return
			}
			if s != virtual.StatusOK || leaf != m.leaf {
				w.violate("status-differs op=open-child expected=OK", fmt.Sprintf("got %v, same leaf %v", s, leaf == m.leaf))
				return
			}
			if truncate {
				m.content = m.content[:0]
				m.changed()
			}
			m.opens = append(m.opens, share)
		}
	})
}

func (w *world) opClose(m *mfile) string {
	i := w.rng.IntN(len(m.opens))
	share := m.opens[i]
	m.opens = append(m.opens[:i], m.opens[i+1:]...)
	m.leaf.VirtualClose(share)
	w.logf("close f%d share=%s", m.id, maskName(share))
	if m.links == 0 {
		return "close-after-unlink"
	}
	return "close"
}

func (w *world) opLink(m *mfile) string {
	d := w.dirs[w.rng.IntN(len(w.dirs))]
	name := names[w.rng.IntN(len(names))]
	var out virtual.Attributes
	_, s := d.dir.VirtualLink(ctx, comp(name), m.leaf, w.mask, &out)
	w.logf("link f%d as %s/%s (links %d) -> %v", m.id, d.name, name, m.links, s)
	want := virtual.StatusOK
	if _, ok := d.entries[name]; ok {
		want = virtual.StatusErrExist
	} else if m.links == 0 && w.handles != "bare" {
		// The handle allocators refuse to resurrect a file that has
		// no directory entry left, even if descriptors are open.
		want = virtual.StatusErrStale
		w.sit("link-of-unlinked-file-rejected")
	} else if w.handles == "bare" {
		w.sit("link-counted-by-pool-backed-file")
	}
	if s != want {
		w.violate("status-differs op=link expected="+fmt.Sprint(want), fmt.Sprintf("got %v", s))
		return "link"
	}
	if s == virtual.StatusOK {
		m.links++
		d.entries[name] = m
	}
	return "link"
}

func (w *world) opUnlink(d *mdir, name string, m *mfile) string {
	var err string
	if w.rng.IntN(3) == 0 {
		if e := d.dir.Remove(comp(name)); e != nil {
			err = e.Error()
		}
	} else if _, s := d.dir.VirtualRemove(ctx, comp(name), false, true); s != virtual.StatusOK {
		err = fmt.Sprint(s)
	}
	w.logf("unlink %s/%s (f%d, links %d, opens %v) -> %q", d.name, name, m.id, m.links, m.opens, err)
	if err != "" {
		w.violate("status-differs op=unlink expected=OK", err)
		return "unlink"
	}
	delete(d.entries, name)
	m.links--
	if len(m.opens) > 0 && m.links == 0 {
		w.sit("unlinked-while-descriptor-open")
	}
	return "unlink"
}

func (w *world) opRename(d *mdir, name string, m *mfile) string {
	d2 := w.dirs[w.rng.IntN(len(w.dirs))]
	name2 := names[w.rng.IntN(len(names))]
	_, _, s := d.dir.VirtualRename(ctx, comp(name), d2.dir, comp(name2))
	target := d2.entries[name2]
	w.logf("rename %s/%s (f%d) -> %s/%s (target %v) -> %v", d.name, name, m.id, d2.name, name2, target != nil, s)
	if s != virtual.StatusOK {
		w.violate("status-differs op=rename expected=OK", fmt.Sprintf("got %v", s))
		return "rename"
	}
	if target == m {
		return "rename" // POSIX: no effect
	}
	delete(d.entries, name)
	if target != nil {
		target.links--
		w.sit("rename-replaces-file")
	}
	d2.entries[name2] = m
	return "unlink"
}

func (w *world) opRemoveAll() string {
	d := w.dirs[1]
	err := d.dir.RemoveAllChildren(false)
	w.logf("remove-all-children %s (%d entries) -> %v", d.name, len(d.entries), err)
	if err != nil {
		w.violate("status-differs op=remove-all-children expected=OK", err.Error())
		return "unlink"
	}
	for n, m := range d.entries {
		m.links--
		delete(d.entries, n)
	}
	return "unlink"
}

func (w *world) opRead(m *mfile) string {
	off := w.rng.IntN(len(m.content) + 3)
	buf := make([]byte, w.rng.IntN(40))
	fault := w.rng.IntN(10) == 0
	if fault {
		m.ifile.failRead.Store(true)
	}
	n, eof, s := m.leaf.VirtualRead(ctx, buf, uint64(off))
	consumed := fault && !m.ifile.failRead.Load()
	m.ifile.failRead.Store(false)
	w.logf("read f%d off=%d len=%d fault=%v -> %d,%v,%v", m.id, off, len(buf), consumed, n, eof, s)
	if consumed {
		if s != virtual.StatusErrIO || n != 0 {
			w.violate("status-differs op=read expected=IO", fmt.Sprintf("got (%d, %v)", n, s))
		}
		w.sit("failed-read")
		return "read"
	}
	want := 0
	if off < len(m.content) {
		want = min(len(buf), len(m.content)-off)
	}
	if s != virtual.StatusOK || n != want || !bytes.Equal(buf[:n], m.content[min(off, len(m.content)):min(off, len(m.content))+want]) || eof != (off+len(buf) >= len(m.content)) {
		w.violate("read-differs-from-model", fmt.Sprintf("VirtualRead(len %d, off %d) on %d bytes = (%d, %v, %v) %s", len(buf), off, len(m.content), n, eof, s, short(buf[:max(n, 0)])))
	}
	return "read"
}

// startDelay decides how the bounded wait for writers is driven.
type delayPlan struct {
	ch       chan struct{}
	preClose bool
}

func (w *world) newDelay(m *mfile) delayPlan {
	ch := make(chan struct{})
	if m.writers() == 0 || w.rng.IntN(3) == 0 {
		if w.rng.IntN(2) == 0 {
			close(ch)
			return delayPlan{ch: ch, preClose: true}
		}
	}
	return delayPlan{ch: ch}
}

// driveWait resolves the wait of an upload / frozen open that was issued
// while writers exist: either the delay expires or the writers close.
func (w *world) driveWait(m *mfile, c *asyncCall, dp delayPlan, what string) {
	if dp.preClose || m.writers() == 0 {
		if dp.preClose && m.writers() > 0 {
			w.sit("upload-after-timeout-with-writer-open")
		}
		return
	}
	settle()
	waited := !c.finished()
	if w.rng.IntN(2) == 0 {
		close(dp.ch)
		w.logf("  %s: delay channel closed while %d writer(s) are open (was waiting: %v)", what, m.writers(), waited)
		if waited {
			w.sit("upload-after-timeout-with-writer-open")
		}
		return
	}
	for i := 0; i < len(m.opens); {
		if m.opens[i]&virtual.ShareMaskWrite != 0 {
			share := m.opens[i]
			m.opens = append(m.opens[:i], m.opens[i+1:]...)
			m.leaf.VirtualClose(share)
			w.logf("  %s: writer descriptor %s closed (was waiting: %v)", what, maskName(share), waited)
			continue
		}
		i++
	}
	if waited {
		w.sit("upload-waited-for-writers-to-close")
	} else {
		w.r.Count("upload_did_not_wait_for_writers", 1)
	}
}

// findName returns a directory entry of the file, if it has one.
func (w *world) findName(m *mfile) (int, string) {
	for di, d := range w.dirs {
		for _, n := range names {
			if d.entries[n] == m {
				return di, n
			}
		}
	}
	return -1, ""
}

// opUploadBadName asks the build directory to upload something that is not
// a file: nothing may reach the CAS.
func (w *world) opUploadBadName() string {
	cas := &fakeCAS{chunk: 8, rep: w}
	w.router.set(cas)
	defer w.router.set(nil)
	ch := make(chan struct{})
	close(ch)
	name, want := "sub", error(syscall.EISDIR)
	if w.rng.IntN(2) == 0 {
		name, want = "nonexistent", syscall.ENOENT
	}
	d, err := w.uploadDirs[0].UploadFile(ctx, comp(name), w.fns[0].fn, ch)
	w.logf("upload-by-name /%s -> %s err=%v", name, digestString(d), err)
	if !errors.Is(err, want) || d != digest.BadDigest || cas.puts != 0 {
		w.violate("status-differs op=upload-by-name expected="+want.Error(), fmt.Sprintf("got digest %s err %v, %d Put calls", digestString(d), err, cas.puts))
		return "stat"
	}
	// Entering something that is not a directory.
	if _, err := w.uploadDirs[0].EnterUploadableDirectory(comp("nonexistent")); !errors.Is(err, syscall.ENOENT) {
		w.violate("status-differs op=enter-directory expected=ENOENT", fmt.Sprint(err))
	}
	for _, n := range names {
		if _, ok := w.dirs[0].entries[n]; ok {
			if _, err := w.uploadDirs[0].EnterUploadableDirectory(comp(n)); !errors.Is(err, syscall.ENOTDIR) {
				w.violate("status-differs op=enter-directory expected=ENOTDIR", fmt.Sprint(err))
			}
			break
		}
	}
	return "stat"
}

func (w *world) opUpload(m *mfile) string {
	if w.viaBuilder && w.rng.IntN(15) == 0 {
		return w.opUploadBadName()
	}
	fn := w.fns[w.rng.IntN(len(w.fns))]
	cas := &fakeCAS{file: m.ifile, chunk: 1 + w.rng.IntN(16), rep: w}
	switch w.rng.IntN(10) {
	case 0:
		cas.mode = casFailBeforeRead
	case 1:
		cas.mode = casFailMidRead
	}
	readFault := w.rng.IntN(15) == 0
	dp := w.newDelay(m)
	p := &virtual.ApplyUploadFile{Context: ctx, ContentAddressableStorage: cas, DigestFunction: fn.fn, WritableFileUploadDelay: dp.ch}
	writersBefore := m.writers()
	frozenBefore := len(m.frozen)
	if readFault {
		m.ifile.failRead.Store(true)
	}
	di, name := w.findName(m)
	byName := w.viaBuilder && di >= 0 && w.rng.IntN(4) != 0
	c := w.async(func() {
		if byName {
			// As bb_worker does it: by name, through the
			// (sub)directory, with the CAS the build directory was
			// constructed with.
			w.router.set(cas)
			p.Digest, p.Err = w.uploadDirs[di].UploadFile(ctx, comp(name), fn.fn, dp.ch)
			w.router.set(nil)
			return
		}
		if !m.leaf.VirtualApply(p) {
			w.violate("apply-not-handled op=upload", "VirtualApply(ApplyUploadFile) returned false")
		}
	})
	if byName {
		w.sit("upload-through-build-directory")
	}
	w.driveWait(m, c, dp, "upload")
	if !w.await(c, "upload") {
		return "upload"
	}
	faultConsumed := readFault && !m.ifile.failRead.Load()
	m.ifile.failRead.Store(false)
	w.logf("upload f%d fn=%s cas=%d readFault=%v writers=%d frozen=%d -> %s err=%v", m.id, fn.name, cas.mode, readFault, writersBefore, frozenBefore, digestString(p.Digest), p.Err)
	if m.refs() == 0 {
		// The writers whose close the upload was waiting for held
		// the last references: there is nothing left to upload.
		if status.Code(p.Err) != codes.NotFound || cas.puts != 0 {
			w.violate("stale-operation-not-rejected op=upload-after-wait", fmt.Sprintf("err %v, %d Put calls", p.Err, cas.puts))
		}
		w.sit("upload-found-file-gone-after-wait")
		return "close-after-unlink"
	}
	w.checkUpload(m, p, cas, fn, faultConsumed, m.content)
	if frozenBefore > 0 {
		w.sit("upload-while-frozen-reader-open")
	}
	return "upload"
}

// opUploadLast lets the upload finish last: while the CAS is reading the
// buffer, every other reference to the file is dropped. The pool file must
// stay readable until the buffer is exhausted and be closed right after.
func (w *world) opUploadLast(m *mfile) string {
	fn := w.fns[w.rng.IntN(len(w.fns))]
	cas := &fakeCAS{file: m.ifile, chunk: 1 + w.rng.IntN(8), rep: w}
	want := append([]byte(nil), m.content...)
	cas.onPut = func() {
		for len(m.opens) > 0 {
			w.opClose(m)
		}
		for _, d := range w.dirs {
			for _, n := range names {
				if d.entries[n] == m {
					w.opUnlink(d, n, m)
				}
			}
		}
	}
	ch := make(chan struct{})
	close(ch)
	p := &virtual.ApplyUploadFile{Context: ctx, ContentAddressableStorage: cas, DigestFunction: fn.fn, WritableFileUploadDelay: ch}
	c := w.async(func() { m.leaf.VirtualApply(p) })
	if !w.await(c, "upload") {
		return "upload"
	}
	w.logf("upload-finishing-last f%d fn=%s -> %s err=%v", m.id, fn.name, digestString(p.Digest), p.Err)
	if w.isAborted() {
		return "upload"
	}
	w.checkUpload(m, p, cas, fn, false, want)
	return "upload-finishing-last"
}

func digestString(d digest.Digest) string {
	if d == digest.BadDigest {
		return "BadDigest"
	}
	return d.String()
}

func (w *world) checkUpload(m *mfile, p *virtual.ApplyUploadFile, cas *fakeCAS, fn digestFn, faultConsumed bool, want []byte) {
	cas.mu.Lock()
	defer cas.mu.Unlock()
	if p.Err != nil {
		if p.Digest != digest.BadDigest {
			w.violate("upload-error-with-digest", fmt.Sprintf("err %v, digest %s", p.Err, digestString(p.Digest)))
			return
		}
		switch {
		case cas.failed && cas.puts == 1:
			w.sit("upload-cas-failure")
		case faultConsumed:
			w.sit("upload-pool-read-failure")
		default:
			w.violate("upload-unexpected-error", fmt.Sprintf("upload of live file %d failed: %v", m.id, p.Err))
		}
		return
	}
	if cas.failed {
		w.violate("upload-succeeded-although-cas-failed", digestString(p.Digest))
		return
	}
	w.checkDigest(p.Digest, cas, fn, "upload")
	if w.isAborted() {
		return
	}
	if want != nil && !bytes.Equal(cas.consumed, want) {
		w.violate("uploaded-bytes-differ-from-model", fmt.Sprintf("file %d: CAS received %d bytes %s, model has %d bytes %s", m.id, len(cas.consumed), short(cas.consumed), len(want), short(want)))
		return
	}
	w.r.Count("uploads_verified", 1)
	if m.changedSinceDigest {
		w.sit("upload-after-content-change")
	}
	m.uploadedOnce, m.changedSinceDigest = true, false
}

// checkDigest is the digest oracle: reported digest == digest of the bytes
// the CAS consumed == digest of one version of the stored bytes.
func (w *world) checkDigest(d digest.Digest, cas *fakeCAS, fn digestFn, op string) {
	if cas.puts != 1 || !cas.complete {
		w.violate("upload-succeeded-without-complete-put", fmt.Sprintf("%d Put calls, complete=%v", cas.puts, cas.complete))
		return
	}
	if !d.UsesDigestFunction(fn.fn) {
		w.violate("digest-of-other-function-reported op="+op, fmt.Sprintf("requested %s, got %s", fn.name, digestString(d)))
		return
	}
	if cas.gotDigest != d {
		w.violate("digest-reported-differs-from-digest-given-to-cas", fmt.Sprintf("reported %s, CAS was given %s", digestString(d), digestString(cas.gotDigest)))
		return
	}
	if sum := fn.sum(cas.consumed); d.GetHashString() != sum || d.GetSizeBytes() != int64(len(cas.consumed)) {
		w.violate("reported-digest-differs-from-bytes-stored-in-cas op="+op, fmt.Sprintf("reported %s, but the CAS consumed %d bytes with %s hash %s", digestString(d), len(cas.consumed), fn.name, sum))
		return
	}
	if cas.verAtPut != cas.verAtEnd {
		w.violate("contents-changed-during-upload", fmt.Sprintf("pool file version %d when Put started, %d when the buffer was exhausted", cas.verAtPut, cas.verAtEnd))
		return
	}
	if h := sha256.Sum256(cas.consumed); h != cas.file.hashOf(cas.verAtPut) {
		w.violate("uploaded-bytes-are-no-snapshot-of-the-file", fmt.Sprintf("the CAS consumed %d bytes that are not version %d of the pool file", len(cas.consumed), cas.verAtPut))
	}
}

func (w *world) opOpenFrozen(m *mfile) string {
	dp := w.newDelay(m)
	p := &virtual.ApplyOpenReadFrozen{WritableFileDelay: dp.ch}
	c := w.async(func() {
		if !m.leaf.VirtualApply(p) {
			w.violate("apply-not-handled op=open-frozen", "VirtualApply(ApplyOpenReadFrozen) returned false")
		}
	})
	w.driveWait(m, c, dp, "open-frozen")
	if !w.await(c, "open-frozen") {
		return "open-frozen"
	}
	w.logf("open-frozen f%d -> err=%v", m.id, p.Err)
	if m.refs() == 0 {
		if status.Code(p.Err) != codes.NotFound || p.Reader != nil {
			w.violate("stale-operation-not-rejected op=open-frozen-after-wait", fmt.Sprintf("err %v", p.Err))
		}
		return "close-after-unlink"
	}
	if p.Err != nil || p.Reader == nil {
		w.violate("status-differs op=open-frozen expected=OK", fmt.Sprint(p.Err))
		return "open-frozen"
	}
	m.ifile.frozenProbe.Add(1)
	m.frozen = append(m.frozen, p.Reader)
	return "open-frozen"
}

func (w *world) opReadFrozen(m *mfile) string {
	r := m.frozen[w.rng.IntN(len(m.frozen))]
	off := w.rng.IntN(len(m.content) + 2)
	buf := make([]byte, w.rng.IntN(40))
	n, err := r.ReadAt(buf, int64(off))
	l, lerr := r.Len()
	w.logf("read-frozen f%d off=%d len=%d -> %d,%v len=%d", m.id, off, len(buf), n, err, l)
	want := 0
	if off < len(m.content) {
		want = min(len(buf), len(m.content)-off)
	}
	if n != want || !bytes.Equal(buf[:n], m.content[min(off, len(m.content)):min(off, len(m.content))+want]) || lerr != nil || l != int64(len(m.content)) {
		w.violate("frozen-read-differs-from-model", fmt.Sprintf("ReadAt(len %d, off %d) on %d bytes = (%d, %v), Len = (%d, %v)", len(buf), off, len(m.content), n, err, l, lerr))
		return "read"
	}
	if off < len(m.content) {
		next, serr := r.GetNextRegionOffset(int64(off), filesystem.Hole)
		if serr != nil || next != int64(len(m.content)) {
			w.violate("frozen-seek-differs-from-model", fmt.Sprintf("GetNextRegionOffset(%d, hole) on %d bytes = (%d, %v)", off, len(m.content), next, serr))
		}
	}
	return "read"
}

// opSeek exercises VirtualSeek: the pool file reports a tail of null bytes
// as "no more data".
func (w *world) opSeek(m *mfile) string {
	off := w.rng.IntN(len(m.content) + 2)
	rt := filesystem.Data
	if w.rng.IntN(3) == 0 {
		rt = filesystem.Hole
	}
	fault := w.rng.IntN(8) == 0
	if fault {
		m.ifile.failSeek.Store(true)
	}
	res, s := m.leaf.VirtualSeek(ctx, uint64(off), rt)
	consumed := fault && !m.ifile.failSeek.Load()
	m.ifile.failSeek.Store(false)
	w.logf("seek f%d off=%d type=%d fault=%v -> %v,%v", m.id, off, rt, consumed, res != nil, s)
	switch {
	case off >= len(m.content):
		if s != virtual.StatusErrNXIO {
			w.violate("status-differs op=seek expected=NXIO", fmt.Sprintf("got %v", s))
		}
	case consumed:
		if s != virtual.StatusErrIO {
			w.violate("status-differs op=seek expected=IO", fmt.Sprintf("got %v", s))
		}
		w.sit("failed-seek")
	default:
		var want *uint64
		if rt == filesystem.Hole {
			v := uint64(len(m.content))
			want = &v
		} else if len(bytes.Trim(m.content[off:], "\x00")) > 0 {
			v := uint64(off)
			want = &v
		}
		if s != virtual.StatusOK || (res == nil) != (want == nil) || (res != nil && *res != *want) {
			w.violate("seek-differs-from-model", fmt.Sprintf("VirtualSeek(%d, %d) on %d bytes = (%v, %v)", off, rt, len(m.content), res, s))
		}
		if want == nil {
			w.sit("seek-finds-no-more-data")
		}
	}
	return "read"
}

// opChmod changes the executable bit (no contents change, must not wait for
// frozen readers); opChown must be refused.
func (w *world) opChmod(m *mfile) string {
	var in, out virtual.Attributes
	if w.rng.IntN(5) == 0 {
		in.SetOwnerUserID(uint32(w.rng.IntN(3)))
		if w.rng.IntN(2) == 0 {
			in = virtual.Attributes{}
			in.SetOwnerGroupID(1)
		}
		s := m.leaf.VirtualSetAttributes(ctx, &in, w.mask, &out)
		w.logf("chown f%d -> %v", m.id, s)
		if s != virtual.StatusErrPerm {
			w.violate("status-differs op=chown expected=PERM", fmt.Sprintf("got %v", s))
		}
		return "stat"
	}
	exec := w.rng.IntN(2) == 0
	perm := virtual.PermissionsRead | virtual.PermissionsWrite
	if exec {
		perm |= virtual.PermissionsExecute
	}
	in.SetPermissions(perm)
	s := m.leaf.VirtualSetAttributes(ctx, &in, w.mask, &out)
	w.logf("chmod f%d exec=%v (frozen readers %d) -> %v", m.id, exec, len(m.frozen), s)
	if s != virtual.StatusOK {
		w.violate("status-differs op=chmod expected=OK", fmt.Sprintf("got %v", s))
		return "stat"
	}
	m.exec = exec
	if m.leaf.VirtualApply(&virtual.ApplyGetContainingDigests{Context: ctx}) {
		w.violate("apply-of-unsupported-operation-handled", "VirtualApply(ApplyGetContainingDigests) returned true for a pool-backed file")
	}
	return "stat"
}

func (w *world) opStat(m *mfile) string {
	fn := w.fns[w.rng.IntN(len(w.fns))]
	p := &virtual.ApplyGetBazelOutputServiceStat{DigestFunction: &fn.fn}
	fault := w.rng.IntN(6) == 0
	if fault {
		m.ifile.failRead.Store(true)
	}
	m.leaf.VirtualApply(p)
	consumed := fault && !m.ifile.failRead.Load()
	m.ifile.failRead.Store(false)
	w.logf("stat-digest f%d fn=%s writers=%d fault=%v -> err=%v", m.id, fn.name, m.writers(), consumed, p.Err)
	if consumed {
		// The digest could not be computed; the frozen reader that
		// was opened for it must have been given back (lifetime and
		// hang oracles).
		if p.Err == nil {
			w.violate("error-swallowed op=stat-digest", "the pool file failed to read, but a stat was returned")
		}
		w.sit("stat-pool-read-failure")
		return "stat"
	}
	if p.Err != nil {
		w.violate("status-differs op=stat-digest expected=OK", p.Err.Error())
		return "stat"
	}
	if loc := p.Stat.GetFile().GetLocator(); loc != nil {
		var fal bazeloutputservicerev2.FileArtifactLocator
		if err := loc.UnmarshalTo(&fal); err != nil {
			w.violate("stat-locator-malformed", err.Error())
			return "stat"
		}
		if fal.Digest.GetHash() != fn.sum(m.content) || fal.Digest.GetSizeBytes() != int64(len(m.content)) {
			w.violate("reported-digest-differs-from-contents op=stat", fmt.Sprintf("file %d: stat reports %s/%d, contents have %s hash %s/%d", m.id, fal.Digest.GetHash(), fal.Digest.GetSizeBytes(), fn.name, fn.sum(m.content), len(m.content)))
			return "stat"
		}
		w.r.Count("stat_digests_verified", 1)
		if m.changedSinceDigest {
			w.sit("stat-digest-after-content-change")
		}
		m.uploadedOnce, m.changedSinceDigest = true, false
	}
	return "stat"
}

// opPersist asks for the output path persistency entry of the file, which
// is built from the cached digest: if one is reported it must describe the
// current contents.
func (w *world) opPersist(m *mfile) string {
	p := &virtual.ApplyAppendOutputPathPersistencyDirectoryNode{Directory: &outputpathpersistency.Directory{}, Name: comp("x")}
	m.leaf.VirtualApply(p)
	w.logf("persistency-node f%d -> %d file node(s)", m.id, len(p.Directory.Files))
	for _, fnode := range p.Directory.Files {
		ok := false
		for _, fn := range w.fns {
			if fnode.Digest.GetHash() == fn.sum(m.content) && fnode.Digest.GetSizeBytes() == int64(len(m.content)) {
				ok = true
			}
		}
		if !ok {
			w.violate("reported-digest-differs-from-contents op=persistency-node", fmt.Sprintf("file %d: node reports %s/%d, contents are %d bytes with sha256 %s", m.id, fnode.Digest.GetHash(), fnode.Digest.GetSizeBytes(), len(m.content), w.fns[0].sum(m.content)))
			return "stat"
		}
		if fnode.IsExecutable != m.exec {
			w.violate("persistency-node-executable-bit-differs", fmt.Sprintf("file %d: node says executable=%v, model %v", m.id, fnode.IsExecutable, m.exec))
			return "stat"
		}
		w.r.Count("persistency_digests_verified", 1)
	}
	return "stat"
}

// opStale exercises a file whose last reference is gone: every operation
// that needs no descriptor must fail cleanly and not touch the pool file.
func (w *world) opStale(m *mfile) string {
	kind := w.rng.IntN(7)
	touchedBefore := m.ifile.reads.Load() + m.ifile.writes.Load() + m.ifile.truncates.Load()
	what := ""
	panicked, msg := safely(func() {
		switch kind {
		case 0:
			what = "link"
			d := w.dirs[w.rng.IntN(len(w.dirs))]
			for _, n := range names {
				if _, ok := d.entries[n]; !ok {
					var out virtual.Attributes
					if _, s := d.dir.VirtualLink(ctx, comp(n), m.leaf, w.mask, &out); s != virtual.StatusErrStale {
						w.violate("stale-operation-not-rejected op=link", fmt.Sprintf("VirtualLink of a file without references returned %v", s))
					}
					break
				}
			}
		case 1:
			what = "open-self"
			var out virtual.Attributes
			if s := m.leaf.VirtualOpenSelf(ctx, virtual.ShareMask(1+w.rng.IntN(3)), &virtual.OpenExistingOptions{Truncate: w.rng.IntN(2) == 0}, w.mask, &out); s != virtual.StatusErrStale {
				w.violate("stale-operation-not-rejected op=open-self", fmt.Sprintf("VirtualOpenSelf of a file without references returned %v", s))
			}
		case 2:
			what = "upload"
			cas := &fakeCAS{file: m.ifile, chunk: 8, rep: w}
			ch := make(chan struct{})
			close(ch)
			p := &virtual.ApplyUploadFile{Context: ctx, ContentAddressableStorage: cas, DigestFunction: w.fns[0].fn, WritableFileUploadDelay: ch}
			m.leaf.VirtualApply(p)
			if status.Code(p.Err) != codes.NotFound || cas.puts != 0 || p.Digest != digest.BadDigest {
				w.violate("stale-operation-not-rejected op=upload", fmt.Sprintf("upload of a file without references: err %v, %d Put calls", p.Err, cas.puts))
			}
		case 3:
			what = "open-frozen"
			ch := make(chan struct{})
			close(ch)
			p := &virtual.ApplyOpenReadFrozen{WritableFileDelay: ch}
			m.leaf.VirtualApply(p)
			if status.Code(p.Err) != codes.NotFound || p.Reader != nil {
				w.violate("stale-operation-not-rejected op=open-frozen", fmt.Sprintf("err %v", p.Err))
			}
		case 4:
			what = "stat-digest"
			p := &virtual.ApplyGetBazelOutputServiceStat{DigestFunction: &w.fns[0].fn}
			m.leaf.VirtualApply(p)
			if status.Code(p.Err) != codes.NotFound {
				w.violate("stale-operation-not-rejected op=stat-digest", fmt.Sprintf("err %v", p.Err))
			}
		case 5:
			what = "getattr"
			var a virtual.Attributes
			m.leaf.VirtualGetAttributes(ctx, w.mask, &a)
		case 6:
			// truncate(2) by path racing with the last unlink: needs
			// no descriptor.
			what = "setattr-size"
			var in, out virtual.Attributes
			in.SetSizeBytes(uint64(w.rng.IntN(8)))
			if s := m.leaf.VirtualSetAttributes(ctx, &in, w.mask, &out); s == virtual.StatusOK {
				w.violate("stale-operation-not-rejected op=setattr-size", "VirtualSetAttributes(size) of a file without references returned OK")
			}
		}
	})
	w.logf("stale-%s f%d -> panicked=%v", what, m.id, panicked)
	if panicked {
		w.violate("stale-operation-panics op="+what, msg)
		return "stale"
	}
	if after := m.ifile.reads.Load() + m.ifile.writes.Load() + m.ifile.truncates.Load(); after != touchedBefore {
		w.violate("stale-operation-touches-released-storage op="+what, fmt.Sprintf("pool file %d was accessed %d time(s) after its release", m.ifile.id, after-touchedBefore))
	}
	w.sit("stale-file-operation")
	return "stale"
}

func (w *world) step() string {
	live, dead := w.liveFiles(), w.deadFiles()
	if len(live) == 0 || (len(live) < 4 && w.rng.IntN(10) == 0) {
		return w.opCreate()
	}
	if len(dead) > 0 && w.rng.IntN(8) == 0 {
		return w.opStale(dead[w.rng.IntN(len(dead))])
	}
	m := live[w.rng.IntN(len(live))]
	for try := 0; try < 20; try++ {
		switch k := w.rng.IntN(100); {
		case k < 14:
			if m.writers() > 0 {
				return w.opWrite(m)
			}
		case k < 20:
			if m.links+len(m.opens) > 0 {
				return w.opSetSize(m)
			}
		case k < 23:
			if m.writers() > 0 {
				return w.opAllocate(m)
			}
		case k < 31:
			if m.links+len(m.opens) > 0 {
				return w.opOpenSelf(m)
			}
		case k < 36:
			if d, n, m2 := w.pickEntry(); m2 != nil {
				return w.opOpenChild(d, n, m2)
			}
		case k < 50:
			if len(m.opens) > 0 {
				return w.opClose(m)
			}
		case k < 56:
			return w.opLink(m)
		case k < 63:
			if d, n, m2 := w.pickEntry(); m2 != nil {
				return w.opUnlink(d, n, m2)
			}
		case k < 66:
			if d, n, m2 := w.pickRouteEntry(); m2 != nil {
				return w.opRoute(d, n, m2)
			}
		case k < 69:
			if d, n, m2 := w.pickEntry(); m2 != nil {
				return w.opRename(d, n, m2)
			}
		case k < 70:
			return w.opRemoveAll()
		case k < 73:
			for _, s := range m.opens {
				if s&virtual.ShareMaskRead != 0 {
					return w.opRead(m)
				}
			}
		case k < 74:
			if len(m.opens) > 0 {
				return w.opSeek(m)
			}
		case k < 75:
			return w.opChmod(m)
		case k < 83:
			return w.opUpload(m)
		case k < 85:
			if len(m.frozen) == 0 {
				return w.opUploadLast(m)
			}
		case k < 90:
			if len(m.frozen) < 2 {
				return w.opOpenFrozen(m)
			}
		case k < 94:
			if len(m.frozen) > 0 {
				return w.opReadFrozen(m)
			}
		case k < 97:
			if len(m.frozen) > 0 {
				w.closeFrozen(m, w.rng.IntN(len(m.frozen)))
				return "close-frozen"
			}
		case k < 99:
			return w.opStat(m)
		default:
			return w.opPersist(m)
		}
	}
	return w.opCreate()
}

// drain releases every reference in a random order and checks that all pool
// files end up closed exactly once.
func (w *world) drain() {
	for !w.isAborted() {
		type act func() string
		var acts []act
		for _, m := range w.files {
			m := m
			if len(m.opens) > 0 {
				acts = append(acts, func() string { return w.opClose(m) })
			}
			for i := range m.frozen {
				i := i
				acts = append(acts, func() string { w.closeFrozen(m, min(i, len(m.frozen)-1)); return "close-frozen" })
			}
		}
		for _, d := range w.dirs {
			d := d
			for _, n := range names {
				if m, ok := d.entries[n]; ok {
					acts = append(acts, func() string { return w.opUnlink(d, n, m) })
				}
			}
		}
		if len(acts) == 0 {
			break
		}
		after := acts[w.rng.IntN(len(acts))]()
		w.checkLifetimes(after)
	}
	if w.isAborted() {
		return
	}
	if w.nfs != nil {
		// Malformed and unknown handles.
		if _, s := w.nfs.ResolveHandle(bytes.NewReader([]byte{1, 2, 3})); s != virtual.StatusErrBadHandle {
			w.violate("nfs-short-handle-not-rejected", fmt.Sprint(s))
		}
		if _, s := w.nfs.ResolveHandle(bytes.NewReader([]byte{0xde, 0xad, 0xbe, 0xef, 1, 2, 3, 4})); s != virtual.StatusErrStale {
			w.violate("nfs-unknown-handle-not-stale", fmt.Sprint(s))
		}
	}
	for _, f := range w.pool.all() {
		if cc := f.closeCount.Load(); cc != 1 {
			w.violate("pool-file-not-closed-exactly-once after=drain", fmt.Sprintf("pool file %d closed %d times after every reference was released", f.id, cc))
			return
		}
	}
}

func (w *world) finish() {
	w.r.Count("operations", len(w.ops))
	w.r.Count("pool_files", len(w.pool.all()))
	w.r.Hash(hex.EncodeToString(w.h.Sum(nil)[:12]), len(w.sits) > 0)
	if w.r.WantSample() {
		ops := w.ops
		if len(ops) > 60 {
			ops = ops[:60]
		}
		w.r.Sample(map[string]any{"mode": w.mode, "case": w.caseIdx, "handle_allocator": w.handles, "situations": w.sits, "operations": ops})
	}
}

func runStepped(r *ev.Run, i int) {
	rng := r.Rand(1, uint64(i))
	handles := []string{"nfs", "fuse"}[i%2]
	switch {
	case i%5 == 4:
		handles = "bare"
	case i%3 == 0:
		handles += "+builder"
	}
	steps := 30 + rng.IntN(120)
	r.Case("stepped case=%d handles=%s steps=%d", i, handles, steps)
	w := newWorld(r, "stepped", i, handles, rng, false)
	for s := 0; s < steps && !w.isAborted(); s++ {
		after := w.step()
		w.checkLifetimes(after)
	}
	w.drain()
	w.finish()
}

func TestCheck(t *testing.T) {
	r := ev.Start("C16")
	defer r.Finish()
	r.SetRule("stepped cases: PRNG(seed, case) drives 30-150 operations (create/open with every share mask, close, link, unlink, rename-over, remove-all, entry removed by RemoveAll / replaced by a directory / removed with its parent directory / hidden entry removed by rmdir, write, set size, allocate, read, upload with 3 digest functions and CAS/pool faults, frozen open/read/close, stat digest, operations on files without references) on up to 4 files in 2 directories, alternating NFS and FUSE handle allocators; mutating calls issued while frozen readers exist and uploads issued while writers exist run in their own goroutine and are released by the driver. " +
		"named-attribute cases (namedattr_test.go): one owner file with the production in-memory named-attributes factory; OPENATTR without/with create, 1-3 pool-backed attribute files created/written/opened/closed/hard-linked/renamed/removed inside the attribute directory, then the owner's links, descriptors and frozen readers are dropped in PRNG order, interleaved with attribute operations; the attribute files are model files whose entries vanish when the owner loses its last reference. " +
		"stress rounds: 6-12 goroutines mixing the same operations on 1-2 files with slow CAS reads. Non-trivial = hit at least one listed situation; distinct = distinct sha256 of the operation/result log.")
	r.Assume("VirtualRead/VirtualWrite/VirtualAllocate/VirtualClose are only called with a matching open descriptor (API precondition of Leaf)")
	r.Assume("the bounded wait for writers is best effort: an upload that does not wait is counted, not reported")
	r.Assume("the instrumented pool file is the ground truth for the bytes of a file; FilePool handles are not thread-safe, so any two overlapping calls on one handle are reported")
	floors := []string{"last-reference-dropped-by-unlink", "last-reference-dropped-by-close-after-unlink", "last-reference-dropped-by-close-frozen",
		"unlinked-while-descriptor-open", "writer-blocked-by-frozen-reader", "upload-after-timeout-with-writer-open", "upload-waited-for-writers-to-close",
		"last-reference-dropped-by-upload-finishing-last", "stale-file-operation", "link-of-unlinked-file-rejected", "failed-truncating-open", "failed-allocate", "stat-pool-read-failure", "failed-read", "link-counted-by-pool-backed-file", "upload-through-build-directory", "nfs-handle-of-unlinked-file-stale", "upload-cas-failure", "upload-after-content-change", "stress-round", "stress-upload-raced-writer",
		"entry-remove-all", "entry-replaced-by-directory", "entry-overwritten-by-create-children", "entry-removed-with-parent-directory", "entry-hidden-entry-removed-with-directory"}
	if rf := r.ReplayFile(); rf != "" {
		// Re-run exactly the recorded case (stepped cases are
		// deterministic up to goroutine scheduling; stress rounds are
		// repeated).
		mode, idx, err := readReplay(rf)
		if err != nil {
			t.Fatalf("cannot read replay file %s: %v", rf, err)
		}
		if mode == "stepped" {
			runStepped(r, idx)
		} else if mode == "namedattr" {
			runNamedAttr(r, idx)
		} else {
			for k := 0; k < 20 && !stopRun.Load(); k++ {
				runStressRound(r, idx)
			}
		}
		return
	}
	floors = append(floors, namedAttrFloors...)
	for _, s := range floors {
		r.Floor(s, 3)
	}
	n := r.Pick(600, 8000)
	for i := 0; i < n && !stopRun.Load(); i++ {
		runStepped(r, i)
	}
	na := r.Pick(240, 3000)
	for i := 0; i < na && !stopRun.Load(); i++ {
		runNamedAttr(r, i)
	}
	rounds := r.Pick(120, 1500)
	for i := 0; i < rounds && !stopRun.Load(); i++ {
		runStressRound(r, i)
	}
}

// readReplay extracts mode and case index from a witness file.
func readReplay(path string) (string, int, error) {
	b, err := os.ReadFile(path)
	if err != nil {
		return "", 0, err
	}
	var f struct {
		Witness struct {
			Mode string `json:"mode"`
			Case int    `json:"case"`
		} `json:"witness"`
	}
	if err := json.Unmarshal(b, &f); err != nil {
		return "", 0, err
	}
	return f.Witness.Mode, f.Witness.Case, nil
}
