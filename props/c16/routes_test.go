package c16

import (
	"fmt"

	"github.com/buildbarn/bb-remote-execution/pkg/filesystem/virtual"
	"github.com/buildbarn/bb-storage/pkg/filesystem/path"
)

// Directory entries do not only disappear through unlink and rename-over.
// The worker-facing side of the directory removes them as well: RemoveAll of
// the name, replacing the name by a directory
// (CreateAndEnterPrepopulatedDirectory, CreateChildren with overwrite),
// recursive removal of a parent directory, and rmdir of a directory that
// only holds hidden files. Each of these has to give up the link exactly
// like unlink does; the lifetime oracle (checkLifetimes) decides.

var routeNames = []string{"remove-all", "replaced-by-directory", "overwritten-by-create-children", "removed-with-parent-directory", "hidden-entry-removed-with-directory"}

// pickRouteEntry prefers an entry that is the last reference of its file, so
// that the release has to happen at exactly this step.
func (w *world) pickRouteEntry() (*mdir, string, *mfile) {
	type e struct {
		d *mdir
		n string
	}
	var all, last []e
	for _, d := range w.dirs {
		for _, n := range names {
			if m, ok := d.entries[n]; ok {
				all = append(all, e{d, n})
				if m.refs() == 1 {
					last = append(last, e{d, n})
				}
			}
		}
	}
	if len(all) == 0 {
		return nil, "", nil
	}
	l := all
	if len(last) > 0 && w.rng.IntN(2) == 0 {
		l = last
	}
	x := l[w.rng.IntN(len(l))]
	return x.d, x.n, x.d.entries[x.n]
}

func (w *world) opRoute(d *mdir, name string, m *mfile) string {
	kind := w.rng.IntN(len(routeNames))
	label := routeNames[kind]
	root := w.dirs[0].dir
	fail := func(what string, got any) string {
		w.logf("%s %s/%s (f%d): %s -> %v", label, d.name, name, m.id, what, got)
		w.violate("status-differs op="+label+" expected=OK", fmt.Sprintf("%s returned %v", what, got))
		return label
	}
	// removeEmptyDirectory takes away the directory that replaced the
	// file, so that the name is free again.
	removeEmptyDirectory := func() bool {
		if err := d.dir.Remove(comp(name)); err != nil {
			fail("Remove of the empty directory that replaced the file", err)
			return false
		}
		return true
	}
	switch kind {
	case 0:
		if err := d.dir.RemoveAll(comp(name)); err != nil {
			return fail("RemoveAll", err)
		}
	case 1:
		if _, err := d.dir.CreateAndEnterPrepopulatedDirectory(comp(name)); err != nil {
			return fail("CreateAndEnterPrepopulatedDirectory", err)
		}
		if !removeEmptyDirectory() {
			return label
		}
	case 2:
		if err := d.dir.CreateChildren(map[path.Component]virtual.InitialChild{
			comp(name): virtual.InitialChild{}.FromDirectory(virtual.EmptyInitialContentsFetcher),
		}, true); err != nil {
			return fail("CreateChildren(overwrite)", err)
		}
		if !removeEmptyDirectory() {
			return label
		}
	case 3, 4:
		// Move the entry into a scratch directory (optionally one
		// level deeper) and remove that directory as a whole.
		tmp, err := root.CreateAndEnterPrepopulatedDirectory(comp("tmp"))
		if err != nil {
			return fail("CreateAndEnterPrepopulatedDirectory(tmp)", err)
		}
		target, newName, nested := tmp, "x", false
		if kind == 4 {
			newName = "._h"
		} else if w.rng.IntN(2) == 0 {
			nested = true
			if target, err = tmp.CreateAndEnterPrepopulatedDirectory(comp("deep")); err != nil {
				return fail("CreateAndEnterPrepopulatedDirectory(tmp/deep)", err)
			}
		}
		if _, _, s := d.dir.VirtualRename(ctx, comp(name), target, comp(newName)); s != virtual.StatusOK {
			return fail("VirtualRename into the scratch directory", s)
		}
		w.logf("  %s/%s (f%d) moved to /tmp/%s (nested=%v)", d.name, name, m.id, newName, nested)
		// The move alone must not release anything.
		if cc := m.ifile.closeCount.Load(); cc != 0 {
			w.violate("pool-file-closed-while-referenced after=rename", fmt.Sprintf("file %d: closed %d time(s) by a rename into another directory", m.id, cc))
			return label
		}
		switch {
		case kind == 4 && w.rng.IntN(2) == 0:
			// rmdir: a directory holding only hidden files counts as
			// empty; the hidden files go away with it.
			if _, s := root.VirtualRemove(ctx, comp("tmp"), true, false); s != virtual.StatusOK {
				return fail("VirtualRemove(directory with only hidden files)", s)
			}
		case kind == 4:
			if err := root.Remove(comp("tmp")); err != nil {
				return fail("Remove(directory with only hidden files)", err)
			}
		default:
			if err := root.RemoveAll(comp("tmp")); err != nil {
				return fail("RemoveAll(tmp)", err)
			}
		}
	}
	w.logf("%s %s/%s (f%d, links %d, opens %v, frozen %d)", label, d.name, name, m.id, m.links, m.opens, len(m.frozen))
	delete(d.entries, name)
	m.links--
	w.sit("entry-" + label)
	if len(m.opens) > 0 && m.links == 0 {
		w.sit("unlinked-while-descriptor-open")
	}
	return label
}
