package c10

import (
	"fmt"
	"math/rand/v2"
	"sort"
	"strings"

	remoteexecution "github.com/bazelbuild/remote-apis/build/bazel/remote/execution/v2"

	"verif/internal/outkit"
)

// caseSpec is one generated command plus the hierarchy its "action"
// produces, together with everything the independent oracle derives from
// them (nothing in here is computed by /repo code).
type caseSpec struct {
	Index            int
	WorkingDirectory string
	OutputPaths      []string
	Format           remoteexecution.Command_OutputDirectoryFormat
	ForceTrees       bool
	LegacyFields     bool // also fill output_files/output_directories (must be ignored)

	// Oracle side.
	WDValid   bool
	WDStack   []string
	Invalid   []string   // declared strings that must be rejected (wd or outputs)
	Locations [][]string // per output path: normalised location (nil if invalid)
	InputRoot *outkit.Node
	PreRun    *outkit.Node // input root + parent directories of outputs
	Final     *outkit.Node // hierarchy after the action ran
	Shape     string
	// Removals are locations (parent directories the worker created) that
	// the action deletes before producing Final; ParentReplaced says what
	// it put there instead ("file" or "removed").
	Removals       [][]string
	ParentReplaced string
	Situations     map[string]bool
	// Stragglers, if set, are output files whose writer is still around
	// when the runner returns (virtual back end, clean runs only).
	Stragglers  *stragglerPlan
	wantsTrees  bool
	specialSeen bool
}

var pathNames = []string{"a", "b", "c", "out", "x"}

func genTokens(rng *rand.Rand, n int, pName, pUp, pDot int) []string {
	var toks []string
	for i := 0; i < n; i++ {
		r := rng.IntN(100)
		switch {
		case r < pName:
			toks = append(toks, pathNames[rng.IntN(len(pathNames))])
		case r < pName+pUp:
			toks = append(toks, "..")
		case r < pName+pUp+pDot:
			toks = append(toks, ".")
		default:
			toks = append(toks, "") // doubled separator
		}
	}
	return toks
}

func genWorkingDirectory(rng *rand.Rand) string {
	switch r := rng.IntN(100); {
	case r < 18:
		return ""
	case r < 24:
		return "."
	case r < 26:
		return "/" + strings.Join(genTokens(rng, 1+rng.IntN(2), 100, 0, 0), "/")
	}
	s := strings.Join(genTokens(rng, 1+rng.IntN(4), 72, 12, 10), "/")
	if rng.IntN(10) == 0 {
		s += "/"
	}
	if rng.IntN(12) == 0 {
		s = "./" + s
	}
	return s
}

func genOutputPath(rng *rand.Rand) string {
	switch r := rng.IntN(100); {
	case r < 2:
		return ""
	case r < 5:
		return "."
	case r < 7:
		return ".."
	case r < 8:
		return "/" + strings.Join(genTokens(rng, 1+rng.IntN(2), 100, 0, 0), "/")
	case r < 9:
		return "a\x00b"
	}
	n := 1 + rng.IntN(4)
	if rng.IntN(12) == 0 {
		n = 5 + rng.IntN(4)
	}
	s := strings.Join(genTokens(rng, n, 70, 16, 9), "/")
	if rng.IntN(10) == 0 {
		s += "/"
	}
	return s
}

func alias(rng *rand.Rand, p string) string {
	switch rng.IntN(5) {
	case 0:
		return "./" + p
	case 1:
		return p + "/"
	case 2:
		return "x/../" + p
	case 3:
		return p + "/."
	default:
		return strings.ReplaceAll(p, "/", "//")
	}
}

func isPrefix(a, b []string) bool { // a proper prefix of b
	if len(a) >= len(b) {
		return false
	}
	for i := range a {
		if a[i] != b[i] {
			return false
		}
	}
	return true
}

func genCase(rng *rand.Rand, idx int, allowSpecial bool) *caseSpec {
	cs := &caseSpec{Index: idx, Situations: map[string]bool{}}
	cs.WorkingDirectory = genWorkingDirectory(rng)
	nOut := rng.IntN(7)
	for i := 0; i < nOut; i++ {
		var p string
		switch r := rng.IntN(100); {
		case r < 18 && len(cs.OutputPaths) > 0:
			p = cs.OutputPaths[rng.IntN(len(cs.OutputPaths))] // duplicate declaration
		case r < 36 && len(cs.OutputPaths) > 0:
			p = alias(rng, cs.OutputPaths[rng.IntN(len(cs.OutputPaths))])
		case r < 46 && len(cs.OutputPaths) > 0:
			// Nested below an earlier output.
			p = strings.TrimSuffix(cs.OutputPaths[rng.IntN(len(cs.OutputPaths))], "/") + "/" + strings.Join(genTokens(rng, 1+rng.IntN(2), 90, 0, 10), "/")
		default:
			p = genOutputPath(rng)
		}
		cs.OutputPaths = append(cs.OutputPaths, p)
	}
	switch r := rng.IntN(100); {
	case r < 55:
		cs.Format = remoteexecution.Command_TREE_ONLY
	case r < 75:
		cs.Format = remoteexecution.Command_DIRECTORY_ONLY
	default:
		cs.Format = remoteexecution.Command_TREE_AND_DIRECTORY
	}
	cs.ForceTrees = rng.IntN(10) == 0
	cs.LegacyFields = rng.IntN(10) == 0
	cs.wantsTrees = cs.ForceTrees || cs.Format != remoteexecution.Command_TREE_ONLY

	// --- oracle: independent normalisation ---------------------------------
	cs.WDStack, cs.WDValid = outkit.Normalize(nil, cs.WorkingDirectory)
	if !cs.WDValid {
		cs.Invalid = append(cs.Invalid, "wd:"+cs.WorkingDirectory)
		cs.Situations["escaping-or-absolute-working-directory"] = true
	}
	cs.Locations = make([][]string, len(cs.OutputPaths))
	if cs.WDValid {
		for i, p := range cs.OutputPaths {
			loc, ok := outkit.Normalize(cs.WDStack, p)
			if !ok {
				cs.Invalid = append(cs.Invalid, "out:"+p)
				cs.Situations["escaping-or-absolute-output-path"] = true
				continue
			}
			if loc == nil {
				loc = []string{}
			}
			cs.Locations[i] = loc
		}
	}
	contents := outkit.GenContents(rng, 6)

	// Input root: the working directory has to exist (REv2), plus a few
	// input files under names that never collide with output components.
	cs.InputRoot = outkit.NewDir()
	if cs.WDValid {
		cs.InputRoot.MkdirAll(cs.WDStack)
	}
	if rng.IntN(3) == 0 {
		cs.InputRoot.Children["in1.txt"] = &outkit.Node{Kind: outkit.KindFile, Data: contents[1]}
		if cs.WDValid && rng.IntN(2) == 0 {
			cs.InputRoot.Lookup(cs.WDStack).Children["in2.sh"] = &outkit.Node{Kind: outkit.KindFile, Data: contents[2], Exec: true}
		}
	}
	cs.PreRun = cs.InputRoot.Clone()
	if len(cs.Invalid) > 0 {
		cs.Final = cs.PreRun.Clone()
		cs.Shape = "rejected"
		return cs
	}
	for _, loc := range cs.Locations {
		if len(loc) > 0 {
			cs.PreRun.MkdirAll(loc[:len(loc)-1])
		}
	}

	// --- what the action produces --------------------------------------------
	cs.Final = cs.PreRun.Clone()
	distinct := map[string][]string{}
	count := map[string]int{}
	for _, loc := range cs.Locations {
		k := strings.Join(loc, "/")
		distinct[k] = loc
		count[k]++
	}
	keys := make([]string, 0, len(distinct))
	for k := range distinct {
		keys = append(keys, k)
	}
	sort.Slice(keys, func(i, j int) bool {
		if len(distinct[keys[i]]) != len(distinct[keys[j]]) {
			return len(distinct[keys[i]]) < len(distinct[keys[j]])
		}
		return keys[i] < keys[j]
	})
	strs := map[string]map[string]bool{}
	for i, loc := range cs.Locations {
		k := strings.Join(loc, "/")
		if strs[k] == nil {
			strs[k] = map[string]bool{}
		}
		strs[k][cs.OutputPaths[i]] = true
	}
	for k, c := range count {
		if c > len(strs[k]) {
			cs.Situations["same-string-declared-twice"] = true
		}
		if len(strs[k]) > 1 {
			cs.Situations["aliasing-strings-for-one-location"] = true
		}
	}
	shape := rng.IntN(100)
	genOpts := outkit.GenOptions{MaxDepth: 3, MaxEntries: 5, Symlinks: true, Special: allowSpecial, Contents: contents}
	var shapes []string
	for _, k := range keys {
		loc := distinct[k]
		if len(loc) == 0 {
			cs.Situations["output-resolves-to-root"] = true
		}
		for _, other := range distinct {
			if isPrefix(loc, other) {
				cs.Situations["nested-declared-outputs"] = true
			}
		}
		var parent *outkit.Node
		name := ""
		existing := cs.Final
		if len(loc) > 0 {
			parent = cs.Final.Lookup(loc[:len(loc)-1])
			name = loc[len(loc)-1]
			if parent == nil || parent.Kind != outkit.KindDir {
				// An ancestor was produced as a non-directory: this
				// location cannot exist.
				shapes = append(shapes, "blocked")
				continue
			}
			existing = parent.Children[name]
		}
		if existing != nil {
			// Exists already (parent of another output, part of the
			// working directory, or the root): the action may add to it.
			if existing.Kind == outkit.KindDir && rng.IntN(2) == 0 {
				existing.AddMissing(outkit.GenDir(rng, genOpts, 1))
			}
			shapes = append(shapes, "pre-existing-dir")
			continue
		}
		var n *outkit.Node
		switch r := rng.IntN(100); {
		case r < 14:
			shapes = append(shapes, "missing")
			cs.Situations["declared-output-missing"] = true
			continue
		case r < 38:
			n = &outkit.Node{Kind: outkit.KindFile, Data: contents[rng.IntN(len(contents))]}
			shapes = append(shapes, "file")
		case r < 48:
			n = &outkit.Node{Kind: outkit.KindFile, Data: contents[rng.IntN(len(contents))], Exec: true}
			shapes = append(shapes, "exec")
		case r < 60:
			n = &outkit.Node{Kind: outkit.KindSymlink, Target: []string{"a", "../b", "/abs/t", "x//y/./z", "d/", ".", "a/../b", ".."}[rng.IntN(8)]}
			shapes = append(shapes, "symlink")
			cs.Situations["output-is-symlink"] = true
		case r < 65 && allowSpecial:
			n = &outkit.Node{Kind: outkit.KindFifo}
			shapes = append(shapes, "fifo")
			cs.Situations["special-file-at-output-path"] = true
		default:
			switch {
			case shape < 12:
				n = outkit.GenDeepDir(rng, 12+rng.IntN(30), contents)
				cs.Situations["deep-directory"] = true
			case shape < 24:
				n = outkit.GenWideDir(rng, 40+rng.IntN(120), contents)
				cs.Situations["wide-directory"] = true
			case shape < 30:
				n = outkit.NewDir()
			default:
				n = outkit.GenDir(rng, genOpts, 0)
			}
			shapes = append(shapes, "dir")
		}
		parent.Children[name] = n
	}
	// A hostile but legal action: it deletes a parent directory the worker
	// created for it (and everything it would have produced below), or
	// puts a regular file in its place. Outputs declared below do not
	// exist afterwards.
	if rng.IntN(7) == 0 {
		var candidates [][]string
		for _, loc := range cs.Locations {
			for l := 1; l < len(loc); l++ {
				parent := loc[:l]
				if cs.InputRoot.Lookup(parent) == nil && !isPrefix(parent, cs.WDStack) && strings.Join(parent, "/") != strings.Join(cs.WDStack, "/") {
					candidates = append(candidates, parent)
				}
			}
		}
		if len(candidates) > 0 {
			victim := candidates[rng.IntN(len(candidates))]
			holder := cs.Final.Lookup(victim[:len(victim)-1])
			if holder != nil && holder.Kind == outkit.KindDir {
				cs.Removals = append(cs.Removals, victim)
				if rng.IntN(2) == 0 {
					holder.Children[victim[len(victim)-1]] = &outkit.Node{Kind: outkit.KindFile, Data: contents[4]}
					cs.ParentReplaced = "file"
					cs.Situations["parent-directory-replaced-by-file"] = true
				} else {
					delete(holder.Children, victim[len(victim)-1])
					cs.ParentReplaced = "removed"
					cs.Situations["parent-directory-removed-by-action"] = true
				}
				shapes = append(shapes, "parent-"+cs.ParentReplaced)
			}
		}
	}
	// Undeclared junk next to the outputs: must not be reported unless it
	// lives inside a reported directory.
	if rng.IntN(3) == 0 {
		cs.Final.Children["junk.tmp"] = &outkit.Node{Kind: outkit.KindFile, Data: contents[3]}
	}
	cs.Shape = strings.Join(shapes, ",")
	return cs
}

// --- expected result ---------------------------------------------------------

type expFile struct {
	Path   string
	Hash   string
	Size   int64
	Exec   bool
	Reason string
}

type expectation struct {
	Files       map[string][]expFile // by declared string
	Symlinks    map[string][]string  // declared string -> targets (one per declaration)
	Directories map[string][]*outkit.Node
	SpecialAt   []string // declared strings whose location holds a special file
}

func (cs *caseSpec) expected(fn remoteexecution.DigestFunction_Value) *expectation {
	e := &expectation{Files: map[string][]expFile{}, Symlinks: map[string][]string{}, Directories: map[string][]*outkit.Node{}}
	for i, p := range cs.OutputPaths {
		loc := cs.Locations[i]
		if loc == nil {
			continue
		}
		n := cs.Final.Lookup(loc)
		if n == nil {
			continue
		}
		switch n.Kind {
		case outkit.KindFile:
			h, _ := outkit.HashOf(fn, n.Data)
			e.Files[p] = append(e.Files[p], expFile{Path: p, Hash: h, Size: int64(len(n.Data)), Exec: n.Exec})
		case outkit.KindSymlink:
			e.Symlinks[p] = append(e.Symlinks[p], n.Target)
		case outkit.KindDir:
			sub := n.StripSpecial()
			e.Directories[p] = append(e.Directories[p], sub)
			if sub.HasIdenticalSubdirs() {
				cs.Situations["identical-subdirectories-in-tree"] = true
			}
			if n.Describe() != sub.Describe() {
				cs.Situations["special-file-inside-output-directory"] = true
			}
		default:
			e.SpecialAt = append(e.SpecialAt, p)
		}
	}
	return e
}

func (cs *caseSpec) describe() map[string]any {
	return map[string]any{
		"index": cs.Index, "working_directory": cs.WorkingDirectory, "output_paths": cs.OutputPaths,
		"format": cs.Format.String(), "force_trees": cs.ForceTrees, "legacy_fields": cs.LegacyFields,
		"oracle_invalid": cs.Invalid, "oracle_locations": fmt.Sprint(cs.Locations),
		"input_root": cs.InputRoot.Describe(), "expected_before_run": cs.PreRun.Describe(),
		"produced_hierarchy": truncate(cs.Final.Describe(), 4000), "shape": cs.Shape,
		"removed_by_action": fmt.Sprint(cs.Removals), "parent_replaced": cs.ParentReplaced,
		"stragglers": cs.Stragglers.describe(),
	}
}

func truncate(s string, n int) string {
	if len(s) > n {
		return s[:n] + "…"
	}
	return s
}
