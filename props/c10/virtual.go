package c10

import (
	"fmt"

	"github.com/buildbarn/bb-remote-execution/pkg/builder"

	"verif/internal/outkit"
	"verif/internal/vclock"
)

// virtualBackend runs the direct driver over a virtual build directory.
type virtualBackend struct{}

func (virtualBackend) name() string { return "virtual" }

type virtualOps struct{ v *outkit.VirtualRoot }

func (o virtualOps) materialize(n *outkit.Node) error { return outkit.MaterializeVirtual(o.v.Root, n) }
func (o virtualOps) snapshot() (*outkit.Node, error)  { return outkit.SnapshotVirtual(o.v.Root) }
func (o virtualOps) remove(loc []string) error        { return outkit.RemoveVirtual(o.v.Root, loc) }

func (virtualBackend) open(h *harness, cas *outkit.Store, plan *outkit.Plan) (builder.BuildDirectory, rootOps, func()) {
	v := outkit.NewVirtualRoot(outkit.NewDirectoryFetcher(), cas, vclock.New(1_700_000_000), true)
	return outkit.NewFaultyBuildDirectory(v.BuildDirectory, plan, &outkit.FaultyDirStats{}), virtualOps{v}, func() {
		v.Root.RemoveAllChildren(true)
		if errs := v.Errors.Errors(); len(errs) > 0 {
			panic(fmt.Sprintf("harness: virtual file system logged errors: %v", errs))
		}
	}
}
