package c10

import (
	"context"
	"fmt"
	"math/rand/v2"
	"sort"
	"strings"
	"sync"
	"sync/atomic"
	"time"

	"github.com/buildbarn/bb-remote-execution/pkg/builder"
	"github.com/buildbarn/bb-remote-execution/pkg/filesystem/virtual"
	"github.com/buildbarn/bb-storage/pkg/filesystem/path"

	"verif/internal/outkit"
	"verif/internal/vclock"
)

// virtualBackend runs the direct driver over a virtual build directory.
type virtualBackend struct{}

func (virtualBackend) name() string { return "virtual" }

type virtualOps struct{ v *outkit.VirtualRoot }

func (o virtualOps) materialize(n *outkit.Node) error { return outkit.MaterializeVirtual(o.v.Root, n) }
func (o virtualOps) snapshot() (*outkit.Node, error)  { return outkit.SnapshotVirtual(o.v.Root) }
func (o virtualOps) remove(loc []string) error        { return outkit.RemoveVirtual(o.v.Root, loc) }

func (virtualBackend) open(h *harness, cas *outkit.Store, plan *outkit.Plan) (builder.BuildDirectory, rootOps, func()) {
	v := outkit.NewVirtualRoot(outkit.NewDirectoryFetcher(), cas, vclock.New(1_700_000_000), true)
	return outkit.NewFaultyBuildDirectory(v.BuildDirectory, plan, &outkit.FaultyDirStats{}), virtualOps{v}, func() {
		v.Root.RemoveAllChildren(true)
		if errs := v.Errors.Errors(); len(errs) > 0 {
			panic(fmt.Sprintf("harness: virtual file system logged errors: %v", errs))
		}
	}
}

// --- stragglers ---------------------------------------------------------------
//
// A straggler is a writer (think: a daemonised child of the action that
// process table cleaning did not reap) that still holds an output file
// open for writing when the runner returns. The virtual build directory has
// to hold back the upload of such a file until the writer closed it, for at
// most maximumWritableFileUploadDelay; what the ActionResult (or the Tree of
// the enclosing output directory) reports is the file as the writer left it.

// stragglerWrite is one write the straggler performs after the runner
// returned.
type stragglerWrite struct {
	Offset int
	Data   []byte
}

// stragglerFile describes one output file with a lingering writer.
type stragglerFile struct {
	Loc  []string // location below the input root
	Mode string   // append, overwrite, append+overwrite, truncate
	Exec bool
	// Partial is what the file holds when the runner returns.
	Partial []byte
	// Writes and TruncateTo (-1: no truncation) turn Partial into the
	// contents of the model (cs.Final).
	Writes     []stragglerWrite
	TruncateTo int
	// AsOutputFile: the location itself is declared; InOutputDirectory:
	// it lies inside a declared location that is a directory.
	AsOutputFile      bool
	InOutputDirectory bool
}

// stragglerPlan is the generated part: which files have a lingering writer
// and whether the writers close in time.
type stragglerPlan struct {
	Files []stragglerFile
	// NeverCloses: the writers do not close before the delay expires (the
	// harness makes the delay expire once the upload reached the first of
	// the files). The upload then goes ahead with what is there.
	NeverCloses bool
}

func (sp *stragglerPlan) describe() string {
	if sp == nil {
		return ""
	}
	var parts []string
	for _, f := range sp.Files {
		parts = append(parts, fmt.Sprintf("%s mode=%s partial=%dB writes=%d truncate_to=%d output_file=%v in_output_directory=%v",
			strings.Join(f.Loc, "/"), f.Mode, len(f.Partial), len(f.Writes), f.TruncateTo, f.AsOutputFile, f.InOutputDirectory))
	}
	return fmt.Sprintf("never_closes=%v [%s]", sp.NeverCloses, strings.Join(parts, "; "))
}

// genStragglers picks one or two regular files the action creates at or
// below declared locations and decides what their lingering writer does.
// It returns nil when the case offers no such file. The model (cs.Final) is
// left as it is: it describes the files after the writers closed.
func genStragglers(rng *rand.Rand, cs *caseSpec) *stragglerPlan {
	if len(cs.Invalid) > 0 {
		return nil
	}
	type cand struct {
		loc          []string
		asFile, inDy bool
	}
	byKey := map[string]*cand{}
	var keys []string
	note := func(loc []string, asFile bool) {
		if cs.InputRoot.Lookup(loc) != nil {
			return // an input file: read-only, not the action's
		}
		k := strings.Join(loc, "/")
		c := byKey[k]
		if c == nil {
			c = &cand{loc: append([]string(nil), loc...)}
			byKey[k] = c
			keys = append(keys, k)
		}
		if asFile {
			c.asFile = true
		} else {
			c.inDy = true
		}
	}
	var walk func(n *outkit.Node, loc []string)
	walk = func(n *outkit.Node, loc []string) {
		for _, name := range n.Names() {
			c := n.Children[name]
			sub := append(append([]string(nil), loc...), name)
			switch c.Kind {
			case outkit.KindFile:
				note(sub, false)
			case outkit.KindDir:
				walk(c, sub)
			}
		}
	}
	for _, loc := range cs.Locations {
		n := cs.Final.Lookup(loc)
		if n == nil {
			continue
		}
		switch n.Kind {
		case outkit.KindFile:
			if len(loc) > 0 {
				note(loc, true)
			}
		case outkit.KindDir:
			walk(n, loc)
		}
	}
	if len(keys) == 0 {
		return nil
	}
	sort.Strings(keys)
	var files, inDirs []string
	for _, k := range keys {
		if byKey[k].asFile {
			files = append(files, k)
		}
		if byKey[k].inDy {
			inDirs = append(inDirs, k)
		}
	}
	// One of each kind when the case has both, sometimes a second one of
	// the same kind.
	chosen := map[string]bool{}
	var order []string
	pick := func(l []string) {
		if len(l) > 0 {
			if k := l[rng.IntN(len(l))]; !chosen[k] {
				chosen[k] = true
				order = append(order, k)
			}
		}
	}
	pick(files)
	pick(inDirs)
	if rng.IntN(3) == 0 {
		pick(keys)
	}
	sp := &stragglerPlan{NeverCloses: rng.IntN(3) == 0}
	for _, k := range order {
		c := byKey[k]
		n := cs.Final.Lookup(c.loc)
		f := stragglerFile{Loc: c.loc, Exec: n.Exec, TruncateTo: -1, AsOutputFile: c.asFile, InOutputDirectory: c.inDy}
		data := n.Data
		mode := rng.IntN(4)
		if len(data) == 0 || (mode == 2 && len(data) < 2) {
			mode = 3
		}
		scribble := func(p []byte, a, b int) {
			for i := a; i < b; i++ {
				p[i] = '#' // never part of generated contents
			}
		}
		switch mode {
		case 0:
			f.Mode = "append"
			k := rng.IntN(len(data))
			f.Partial = append([]byte(nil), data[:k]...)
			f.Writes = []stragglerWrite{{Offset: k, Data: data[k:]}}
		case 1:
			f.Mode = "overwrite"
			a := rng.IntN(len(data))
			b := a + 1 + rng.IntN(len(data)-a)
			f.Partial = append([]byte(nil), data...)
			scribble(f.Partial, a, b)
			f.Writes = []stragglerWrite{{Offset: a, Data: data[a:b]}}
		case 2:
			f.Mode = "append+overwrite"
			k := 1 + rng.IntN(len(data)-1)
			a := rng.IntN(k)
			b := a + 1 + rng.IntN(k-a)
			f.Partial = append([]byte(nil), data[:k]...)
			scribble(f.Partial, a, b)
			f.Writes = []stragglerWrite{{Offset: k, Data: data[k:]}, {Offset: a, Data: data[a:b]}}
		default:
			f.Mode = "truncate"
			f.Partial = append([]byte(nil), data...)
			for i, extra := 0, 1+rng.IntN(50); i < extra; i++ {
				f.Partial = append(f.Partial, '#')
			}
			f.TruncateTo = len(data)
		}
		// Self-check of the generator: the writes lead to the model.
		got := append([]byte(nil), f.Partial...)
		for _, w := range f.Writes {
			if end := w.Offset + len(w.Data); end > len(got) {
				got = append(got, make([]byte, end-len(got))...)
			}
			copy(got[w.Offset:], w.Data)
		}
		if f.TruncateTo >= 0 {
			got = got[:f.TruncateTo]
		}
		if string(got) != string(data) || string(f.Partial) == string(data) {
			panic(fmt.Sprintf("harness: straggler plan for %q does not lead from the partial to the final contents", k))
		}
		sp.Files = append(sp.Files, f)
	}
	return sp
}

// stragglerReachDelay is how long a writer keeps its file open after the
// upload reached the file without the upload having returned. It only
// affects reach: code that waits for the writer gives the same result for
// any value; code that does not wait is normally seen returning (which
// releases the writer at once) long before it elapses.
const stragglerReachDelay = 100 * time.Millisecond

// stragglerFallbackDelay releases a writer whose file the upload never
// reached, so that a harness-side mismatch cannot hang the run.
const stragglerFallbackDelay = 20 * time.Second

type stragglerHandle struct {
	f                     *stragglerFile
	leaf                  virtual.Leaf
	entered               chan struct{} // UploadFile was called for the file
	returned              chan struct{} // UploadFile returned
	enterOnce, returnOnce sync.Once

	mu                sync.Mutex
	closed            bool // the writer closed its descriptor
	reachedWhileOpen  bool // UploadFile was called while the writer held the file
	returnedWhileOpen bool
	fallback          bool
}

// stragglerRun is the run-time side of a stragglerPlan for one run of a
// case.
type stragglerRun struct {
	sp *stragglerPlan
	// atReturn is the hierarchy as it is when the runner returns (the
	// straggler files hold their partial contents); withoutFiles is
	// atReturn minus the straggler files.
	atReturn, withoutFiles *outkit.Node
	// expire makes the writable file upload delay elapse.
	expire     func()
	expireOnce sync.Once
	expired    atomic.Bool

	mu       sync.Mutex
	byDetail map[string]*stragglerHandle
	handles  []*stragglerHandle
	finish   chan struct{}
	wg       sync.WaitGroup
}

func newStragglerRun(cs *caseSpec, expire func()) *stragglerRun {
	sr := &stragglerRun{sp: cs.Stragglers, expire: expire, byDetail: map[string]*stragglerHandle{}, finish: make(chan struct{})}
	sr.atReturn = cs.Final.Clone()
	sr.withoutFiles = cs.Final.Clone()
	for _, f := range sr.sp.Files {
		sr.atReturn.Lookup(f.Loc).Data = append([]byte(nil), f.Partial...)
		delete(sr.withoutFiles.Lookup(f.Loc[:len(f.Loc)-1]).Children, f.Loc[len(f.Loc)-1])
	}
	return sr
}

// onOp is the outkit.Plan observer: it sees the UploadFile calls of the
// worker code, in the goroutine of the worker code.
func (sr *stragglerRun) onOp(component, op, detail string, done bool) {
	if component != "dir" || op != "UploadFile" {
		return
	}
	sr.mu.Lock()
	h := sr.byDetail[detail]
	sr.mu.Unlock()
	if h == nil {
		return
	}
	h.mu.Lock()
	open := !h.closed
	if open && !done {
		h.reachedWhileOpen = true
	}
	if open && done {
		h.returnedWhileOpen = true
	}
	h.mu.Unlock()
	if !done {
		h.enterOnce.Do(func() { close(h.entered) })
		if sr.sp.NeverCloses && open {
			sr.fireExpiry()
		}
	} else {
		h.returnOnce.Do(func() { close(h.returned) })
	}
}

func (sr *stragglerRun) fireExpiry() {
	sr.expireOnce.Do(func() {
		sr.expired.Store(true)
		sr.expire()
	})
}

// materialize acts as the action with lingering writers: everything but
// the straggler files is produced and closed; the straggler files are
// created through VirtualOpenChild with write access, receive their partial
// contents and stay open. detailPrefix is how the plan observer names the
// input root ("./" for the direct driver).
func (sr *stragglerRun) materialize(root virtual.Directory, detailPrefix string) error {
	if err := outkit.MaterializeVirtual(root, sr.withoutFiles); err != nil {
		return err
	}
	ctx := context.Background()
	for i := range sr.sp.Files {
		f := &sr.sp.Files[i]
		d := root
		for _, c := range f.Loc[:len(f.Loc)-1] {
			var out virtual.Attributes
			child, s := d.VirtualLookup(ctx, path.MustNewComponent(c), 0, &out)
			if s != virtual.StatusOK {
				return fmt.Errorf("straggler %q: lookup %q: status %v", strings.Join(f.Loc, "/"), c, s)
			}
			dir, _ := child.GetPair()
			if dir == nil {
				return fmt.Errorf("straggler %q: %q is not a directory", strings.Join(f.Loc, "/"), c)
			}
			d = dir
		}
		var attr, out virtual.Attributes
		perm := virtual.PermissionsRead | virtual.PermissionsWrite
		if f.Exec {
			perm |= virtual.PermissionsExecute
		}
		attr.SetPermissions(perm)
		leaf, _, _, s := d.VirtualOpenChild(ctx, path.MustNewComponent(f.Loc[len(f.Loc)-1]), virtual.ShareMaskWrite, &attr, nil, 0, &out)
		if s != virtual.StatusOK {
			return fmt.Errorf("straggler %q: create: status %v", strings.Join(f.Loc, "/"), s)
		}
		if err := writeAll(leaf, f.Partial, 0); err != nil {
			leaf.VirtualClose(virtual.ShareMaskWrite)
			return fmt.Errorf("straggler %q: %w", strings.Join(f.Loc, "/"), err)
		}
		h := &stragglerHandle{f: f, leaf: leaf, entered: make(chan struct{}), returned: make(chan struct{})}
		sr.mu.Lock()
		sr.byDetail[detailPrefix+strings.Join(f.Loc, "/")] = h
		sr.handles = append(sr.handles, h)
		sr.mu.Unlock()
	}
	// The writers live on after the runner returned.
	for _, h := range sr.handles {
		sr.wg.Add(1)
		go sr.linger(h)
	}
	return nil
}

func writeAll(leaf virtual.Leaf, data []byte, offset int) error {
	for off := 0; off < len(data); {
		n, s := leaf.VirtualWrite(context.Background(), data[off:], uint64(offset+off))
		if s != virtual.StatusOK || n == 0 {
			return fmt.Errorf("write at %d: status %v", offset+off, s)
		}
		off += n
	}
	return nil
}

// linger is the writer. It finishes its file and closes it when the upload
// was seen going ahead without it, when the upload has been at the file for
// stragglerReachDelay, or when the worker code is done; a writer that never
// closes in time only closes once the worker code is done.
func (sr *stragglerRun) linger(h *stragglerHandle) {
	defer sr.wg.Done()
	fallback := time.NewTimer(stragglerFallbackDelay)
	defer fallback.Stop()
	if sr.sp.NeverCloses {
		select {
		case <-sr.finish:
		case <-fallback.C:
			h.mu.Lock()
			h.fallback = true
			h.mu.Unlock()
			sr.fireExpiry()
			// Do not hang the run on code that ignores the delay.
			again := time.NewTimer(stragglerFallbackDelay)
			select {
			case <-sr.finish:
			case <-again.C:
			}
			again.Stop()
		}
	} else {
		select {
		case <-h.entered:
			reach := time.NewTimer(stragglerReachDelay)
			select {
			case <-h.returned:
			case <-reach.C:
			case <-sr.finish:
			}
			reach.Stop()
		case <-sr.finish:
		case <-fallback.C:
			h.mu.Lock()
			h.fallback = true
			h.mu.Unlock()
		}
		ctx := context.Background()
		for _, w := range h.f.Writes {
			if err := writeAll(h.leaf, w.Data, w.Offset); err != nil {
				panic(fmt.Sprintf("harness: straggler %q: %v", strings.Join(h.f.Loc, "/"), err))
			}
		}
		if h.f.TruncateTo >= 0 {
			var in, out virtual.Attributes
			in.SetSizeBytes(uint64(h.f.TruncateTo))
			if s := h.leaf.VirtualSetAttributes(ctx, &in, virtual.AttributesMaskSizeBytes, &out); s != virtual.StatusOK {
				panic(fmt.Sprintf("harness: straggler %q: truncate: status %v", strings.Join(h.f.Loc, "/"), s))
			}
		}
	}
	h.mu.Lock()
	h.closed = true
	h.mu.Unlock()
	h.leaf.VirtualClose(virtual.ShareMaskWrite)
}

// settle is called once the worker code returned: it releases the writers
// that are still around, waits for them and reports what was reached.
func (sr *stragglerRun) settle(cs *caseSpec, driver string, counters map[string]int) {
	close(sr.finish)
	sr.wg.Wait()
	for _, h := range sr.handles {
		h.mu.Lock()
		if h.reachedWhileOpen {
			if h.f.AsOutputFile {
				cs.Situations["straggler:output-file-open-for-writing-at-upload"] = true
			}
			if h.f.InOutputDirectory {
				cs.Situations["straggler:file-inside-output-directory"] = true
			}
			cs.Situations["straggler:writer-mode-"+h.f.Mode] = true
			cs.Situations["straggler:driver-"+driver] = true
			if sr.sp.NeverCloses {
				cs.Situations["straggler:delay-expired-writer-still-open"] = true
			} else {
				cs.Situations["straggler:writer-closed-within-delay"] = true
			}
		}
		if h.returnedWhileOpen && !sr.sp.NeverCloses {
			counters["straggler-uploads-returned-while-the-writer-was-open"]++
		}
		if h.fallback {
			counters["straggler-fallback-timers-fired"]++
		}
		h.mu.Unlock()
	}
	if len(sr.handles) > 1 {
		cs.Situations["straggler:two-or-more-files"] = true
	}
}
