package c10

import (
	"fmt"

	"github.com/buildbarn/bb-remote-execution/pkg/builder"

	"verif/internal/outkit"
	"verif/internal/vclock"
)

// virtualBackend runs the direct driver over a virtual build directory.
type virtualBackend struct{}

func (virtualBackend) name() string { return "virtual" }

type virtualOps struct{ v *outkit.VirtualRoot }

func (o virtualOps) materialize(n *outkit.Node) error { return outkit.MaterializeVirtual(o.v.Root, n) }
func (o virtualOps) snapshot() (*outkit.Node, error)  { return outkit.SnapshotVirtual(o.v.Root) }

func (virtualBackend) open(h *harness, cas *outkit.Store) (builder.BuildDirectory, rootOps, func()) {
	v := outkit.NewVirtualRoot(outkit.NewDirectoryFetcher(), cas, vclock.New(1_700_000_000), true)
	return v.BuildDirectory, virtualOps{v}, func() {
		v.Root.RemoveAllChildren(true)
		if errs := v.Errors.Errors(); len(errs) > 0 {
			panic(fmt.Sprintf("harness: virtual file system logged errors: %v", errs))
		}
	}
}
