package c10

import (
	"context"
	"fmt"
	"io"
	"sort"
	"sync"

	"github.com/buildbarn/bb-remote-execution/pkg/builder"
	"github.com/buildbarn/bb-remote-execution/pkg/filesystem/pool"
	"github.com/buildbarn/bb-remote-execution/pkg/filesystem/virtual"
	"github.com/buildbarn/bb-storage/pkg/filesystem"
	"github.com/buildbarn/bb-storage/pkg/filesystem/path"
	"github.com/buildbarn/bb-storage/pkg/random"

	"verif/internal/outkit"
	"verif/internal/vclock"
)

// memPool is a trivial in-memory pool.FilePool (one byte slice per file).
type memPool struct {
	mu     sync.Mutex
	opened int
	closed int
}

type memFile struct {
	p    *memPool
	mu   sync.Mutex
	data []byte
	hole pool.HoleSource
}

func (p *memPool) NewFile(holeSource pool.HoleSource, size uint64) (filesystem.FileReadWriter, error) {
	p.mu.Lock()
	p.opened++
	p.mu.Unlock()
	f := &memFile{p: p, hole: holeSource, data: make([]byte, size)}
	if size > 0 {
		if _, err := holeSource.ReadAt(f.data, 0); err != nil && err != io.EOF {
			return nil, err
		}
	}
	return f, nil
}

func (f *memFile) Close() error {
	f.p.mu.Lock()
	f.p.closed++
	f.p.mu.Unlock()
	return f.hole.Close()
}

func (f *memFile) ReadAt(p []byte, off int64) (int, error) {
	f.mu.Lock()
	defer f.mu.Unlock()
	if off >= int64(len(f.data)) {
		return 0, io.EOF
	}
	n := copy(p, f.data[off:])
	if n < len(p) {
		return n, io.EOF
	}
	return n, nil
}

func (f *memFile) WriteAt(p []byte, off int64) (int, error) {
	f.mu.Lock()
	defer f.mu.Unlock()
	if end := off + int64(len(p)); end > int64(len(f.data)) {
		f.data = append(f.data, make([]byte, end-int64(len(f.data)))...)
	}
	return copy(f.data[off:], p), nil
}

func (f *memFile) Truncate(size int64) error {
	f.mu.Lock()
	defer f.mu.Unlock()
	if size <= int64(len(f.data)) {
		f.data = f.data[:size]
	} else {
		f.data = append(f.data, make([]byte, size-int64(len(f.data)))...)
	}
	return nil
}

func (f *memFile) Sync() error { return nil }

func (f *memFile) Len() (int64, error) {
	f.mu.Lock()
	defer f.mu.Unlock()
	return int64(len(f.data)), nil
}

func (f *memFile) GetNextRegionOffset(offset int64, regionType filesystem.RegionType) (int64, error) {
	f.mu.Lock()
	defer f.mu.Unlock()
	if offset >= int64(len(f.data)) {
		return 0, io.EOF
	}
	if regionType == filesystem.Data {
		return offset, nil
	}
	return int64(len(f.data)), nil
}

// errorCollector is the util.ErrorLogger of the virtual file system.
type errorCollector struct {
	mu   sync.Mutex
	errs []error
}

func (e *errorCollector) Log(err error) {
	e.mu.Lock()
	e.errs = append(e.errs, err)
	e.mu.Unlock()
}

type virtualBackend struct{}

func (virtualBackend) name() string { return "virtual" }

type virtualOps struct {
	root virtual.PrepopulatedDirectory
	errs *errorCollector
}

func (virtualBackend) open(h *harness, cas *outkit.Store) (builder.BuildDirectory, rootOps, func()) {
	errs := &errorCollector{}
	clock := vclock.New(1_700_000_000)
	handleAllocator := virtual.NewFUSEHandleAllocator(random.FastThreadSafeGenerator)
	setter := func(requested virtual.AttributesMask, attributes *virtual.Attributes) {}
	symlinkFactory := virtual.NewHandleAllocatingSymlinkFactory(
		virtual.NewBaseSymlinkFactory(setter),
		handleAllocator.New(),
		path.LocalFormat,
	)
	characterDeviceFactory := virtual.NewHandleAllocatingCharacterDeviceFactory(virtual.BaseCharacterDeviceFactory, handleAllocator.New())
	root := virtual.NewInMemoryPrepopulatedDirectory(
		virtual.NewHandleAllocatingFileAllocator(
			virtual.NewPoolBackedFileAllocator(pool.EmptyFilePool, errs, setter, virtual.NoNamedAttributesFactory),
			handleAllocator,
		),
		symlinkFactory,
		errs,
		handleAllocator,
		sort.Sort,
		func(string) bool { return false },
		clock,
		virtual.CaseSensitiveComponentNormalizer,
		setter,
		virtual.NoNamedAttributesFactory,
	)
	bd := builder.NewVirtualBuildDirectory(root, outkit.NewDirectoryFetcher(), cas, symlinkFactory, characterDeviceFactory, handleAllocator, setter, clock)
	filePool := &memPool{}
	bd.InstallHooks(filePool, errs)
	return bd, virtualOps{root: root, errs: errs}, func() {
		root.RemoveAllChildren(true)
		errs.mu.Lock()
		defer errs.mu.Unlock()
		if len(errs.errs) > 0 {
			panic(fmt.Sprintf("harness: virtual file system logged errors: %v", errs.errs))
		}
	}
}

// materialize acts as the build action: it goes through the
// virtual.Directory operations the FUSE/NFS servers would call.
func (o virtualOps) materialize(n *outkit.Node) error { return materializeVirtual(o.root, n) }

func materializeVirtual(d virtual.Directory, n *outkit.Node) error {
	ctx := context.Background()
	for _, name := range n.Names() {
		c := n.Children[name]
		component := path.MustNewComponent(name)
		var out virtual.Attributes
		switch c.Kind {
		case outkit.KindDir:
			var child virtual.Directory
			if existing, s := d.VirtualLookup(ctx, component, 0, &out); s == virtual.StatusOK {
				dir, _ := existing.GetPair()
				if dir == nil {
					return fmt.Errorf("%q exists and is not a directory", name)
				}
				child = dir
			} else if s == virtual.StatusErrNoEnt {
				var attr virtual.Attributes
				attr.SetPermissions(virtual.PermissionsRead | virtual.PermissionsWrite | virtual.PermissionsExecute)
				created, _, s := d.VirtualMkdir(ctx, component, &attr, 0, &out)
				if s != virtual.StatusOK {
					return fmt.Errorf("mkdir %q: status %v", name, s)
				}
				child = created
			} else {
				return fmt.Errorf("lookup %q: status %v", name, s)
			}
			if err := materializeVirtual(child, c); err != nil {
				return fmt.Errorf("%s/%w", name, err)
			}
		case outkit.KindFile:
			var attr virtual.Attributes
			perm := virtual.PermissionsRead | virtual.PermissionsWrite
			if c.Exec {
				perm |= virtual.PermissionsExecute
			}
			attr.SetPermissions(perm)
			leaf, _, _, s := d.VirtualOpenChild(ctx, component, virtual.ShareMaskWrite, &attr, &virtual.OpenExistingOptions{Truncate: true}, 0, &out)
			if s == virtual.StatusErrAccess || s == virtual.StatusErrROFS {
				// Read-only input file: leave as is (the model holds
				// the same contents).
				continue
			}
			if s != virtual.StatusOK {
				return fmt.Errorf("create %q: status %v", name, s)
			}
			for off := 0; off < len(c.Data); {
				nw, s := leaf.VirtualWrite(ctx, c.Data[off:], uint64(off))
				if s != virtual.StatusOK || nw == 0 {
					leaf.VirtualClose(virtual.ShareMaskWrite)
					return fmt.Errorf("write %q: status %v", name, s)
				}
				off += nw
			}
			leaf.VirtualClose(virtual.ShareMaskWrite)
		case outkit.KindSymlink:
			var attr virtual.Attributes
			attr.SetFileType(filesystem.FileTypeSymlink)
			attr.SetSymlinkTarget(path.UNIXFormat.NewParser(c.Target))
			if _, _, s := d.VirtualMknod(ctx, component, &attr, 0, &out); s != virtual.StatusOK && s != virtual.StatusErrExist {
				return fmt.Errorf("symlink %q: status %v", name, s)
			}
		case outkit.KindFifo:
			var attr virtual.Attributes
			attr.SetFileType(filesystem.FileTypeFIFO)
			attr.SetPermissions(virtual.PermissionsRead | virtual.PermissionsWrite)
			if _, _, s := d.VirtualMknod(ctx, component, &attr, 0, &out); s != virtual.StatusOK && s != virtual.StatusErrExist {
				return fmt.Errorf("mkfifo %q: status %v", name, s)
			}
		default:
			return fmt.Errorf("cannot materialise %s", c.Kind)
		}
	}
	return nil
}

// snapshot reads the hierarchy back through the virtual node interface
// (lookup of all children, attributes, reads), not through the upload code.
func (o virtualOps) snapshot() (*outkit.Node, error) { return snapshotVirtual(o.root) }

func snapshotVirtual(d virtual.PrepopulatedDirectory) (*outkit.Node, error) {
	ctx := context.Background()
	n := outkit.NewDir()
	dirs, leaves, err := d.LookupAllChildren()
	if err != nil {
		return nil, err
	}
	for _, e := range dirs {
		c, err := snapshotVirtual(e.Child)
		if err != nil {
			return nil, err
		}
		n.Children[e.Name.String()] = c
	}
	for _, e := range leaves {
		var attr virtual.Attributes
		e.Child.VirtualGetAttributes(ctx, virtual.AttributesMaskFileType|virtual.AttributesMaskPermissions|virtual.AttributesMaskSizeBytes|virtual.AttributesMaskSymlinkTarget, &attr)
		switch attr.GetFileType() {
		case filesystem.FileTypeRegularFile:
			perm, _ := attr.GetPermissions()
			size, _ := attr.GetSizeBytes()
			var openAttr virtual.Attributes
			if s := e.Child.VirtualOpenSelf(ctx, virtual.ShareMaskRead, &virtual.OpenExistingOptions{}, 0, &openAttr); s != virtual.StatusOK {
				return nil, fmt.Errorf("open %q: status %v", e.Name, s)
			}
			data := make([]byte, size)
			for off := uint64(0); off < size; {
				nr, eof, s := e.Child.VirtualRead(ctx, data[off:], off)
				if s != virtual.StatusOK {
					e.Child.VirtualClose(virtual.ShareMaskRead)
					return nil, fmt.Errorf("read %q: status %v", e.Name, s)
				}
				off += uint64(nr)
				if eof || nr == 0 {
					break
				}
			}
			e.Child.VirtualClose(virtual.ShareMaskRead)
			n.Children[e.Name.String()] = &outkit.Node{Kind: outkit.KindFile, Data: data, Exec: perm&virtual.PermissionsExecute != 0}
		case filesystem.FileTypeSymlink:
			target, ok := attr.GetSymlinkTarget()
			if !ok {
				return nil, fmt.Errorf("symlink %q without target", e.Name)
			}
			b, sw := path.EmptyBuilder.Join(path.VoidScopeWalker)
			if err := path.Resolve(target, sw); err != nil {
				return nil, err
			}
			n.Children[e.Name.String()] = &outkit.Node{Kind: outkit.KindSymlink, Target: b.GetUNIXString()}
		case filesystem.FileTypeFIFO:
			n.Children[e.Name.String()] = &outkit.Node{Kind: outkit.KindFifo}
		case filesystem.FileTypeSocket:
			n.Children[e.Name.String()] = &outkit.Node{Kind: outkit.KindSocket}
		default:
			n.Children[e.Name.String()] = &outkit.Node{Kind: outkit.KindOther}
		}
	}
	return n, nil
}
