// Package c10 checks property C10: reported outputs are exactly what the
// action produced.
//
// Generated REv2 Commands (working directories and output paths with ".",
// "..", doubled and trailing separators, duplicates, aliases, nesting, paths
// resolving to the input root, absolute and escaping paths, the three output
// directory formats) and generated produced hierarchies are pushed through
// the real builder.OutputHierarchy:
//
//   - directly (NewOutputHierarchy / CreateParentDirectories / UploadOutputs)
//     over a naive build directory in a temp dir,
//   - directly over a virtual build directory (InMemoryPrepopulatedDirectory
//     with pool-backed files, populated through the virtual.Directory API the
//     FUSE/NFS front ends use),
//   - through LocalBuildExecutor inside the composed executor stack with a
//     fake runner that snapshots the tree it sees and then materialises the
//     hierarchy.
//
// An independent path normaliser and tree walker (verif/internal/outkit)
// compute the expected ActionResult; Tree blobs are decoded with protowire
// and checked for the is_topologically_sorted rules; digests are re-hashed
// from the bytes held by the fake CAS.
package c10

import (
	"context"
	"encoding/json"
	"fmt"
	"os"
	"path/filepath"
	"sort"
	"strings"
	"sync/atomic"
	"testing"

	remoteexecution "github.com/bazelbuild/remote-apis/build/bazel/remote/execution/v2"
	"github.com/buildbarn/bb-remote-execution/pkg/builder"
	"github.com/buildbarn/bb-remote-execution/pkg/proto/remoteworker"
	runner_pb "github.com/buildbarn/bb-remote-execution/pkg/proto/runner"
	"github.com/buildbarn/bb-storage/pkg/digest"
	"github.com/buildbarn/bb-storage/pkg/filesystem"
	"github.com/buildbarn/bb-storage/pkg/filesystem/path"

	"golang.org/x/sync/semaphore"
	"google.golang.org/grpc/codes"
	"google.golang.org/grpc/status"
	"google.golang.org/protobuf/proto"
	"google.golang.org/protobuf/types/known/durationpb"

	"verif/internal/ev"
	"verif/internal/outkit"
	"verif/internal/vclock"
)

type harness struct {
	r   *ev.Run
	tmp string
	seq atomic.Int64
}

type finding struct {
	Sig    string
	Detail string
}

type findings struct{ list []finding }

func (f *findings) add(sig, format string, args ...any) {
	if len(f.list) < 12 {
		f.list = append(f.list, finding{Sig: sig, Detail: fmt.Sprintf(format, args...)})
	}
}

func (cs *caseSpec) command() *remoteexecution.Command {
	c := &remoteexecution.Command{
		Arguments:             []string{"/bin/produce"},
		WorkingDirectory:      cs.WorkingDirectory,
		OutputPaths:           cs.OutputPaths,
		OutputDirectoryFormat: cs.Format,
	}
	if cs.LegacyFields {
		// REv2: ignored when output_paths is used.
		c.OutputFiles = []string{"legacy-file", "a/legacy-file"}
		c.OutputDirectories = []string{"legacy-dir"}
	}
	return c
}

// digestFunctions used by the direct drivers.
var digestFunctions = []digest.Function{
	digest.MustNewFunction("verif/c10", remoteexecution.DigestFunction_SHA256),
	digest.MustNewFunction("verif/c10", remoteexecution.DigestFunction_SHA256),
	digest.MustNewFunction("verif/c10/md5", remoteexecution.DigestFunction_MD5),
	digest.MustNewFunction("verif", remoteexecution.DigestFunction_SHA1),
	digest.MustNewFunction("", remoteexecution.DigestFunction_SHA512),
}

// checkResult compares an ActionResult with the expectation derived from
// the model.
func checkResult(cs *caseSpec, df digest.Function, ar *remoteexecution.ActionResult, cas *outkit.Store, f *findings, counters map[string]int) {
	fn := df.GetEnumValue()
	exp := cs.expected(fn)
	lookup := func(d *remoteexecution.Digest) ([]byte, bool) {
		dd, err := df.NewDigestFromProto(d)
		if err != nil {
			return nil, false
		}
		return cas.Bytes(dd)
	}
	rehash := func(what string, d *remoteexecution.Digest) []byte {
		data, ok := lookup(d)
		if !ok {
			f.add("reported-digest absent-from-cas what="+what, "%s digest %v is not in the CAS", what, d)
			return nil
		}
		if h, _ := outkit.HashOf(fn, data); h != d.GetHash() || int64(len(data)) != d.GetSizeBytes() {
			f.add("reported-digest does-not-match-cas-bytes what="+what, "%s digest %v: CAS bytes hash to %s/%d", what, d, h, len(data))
		}
		return data
	}

	// Files.
	gotFiles := map[string][]*remoteexecution.OutputFile{}
	for _, of := range ar.OutputFiles {
		gotFiles[of.Path] = append(gotFiles[of.Path], of)
	}
	for p, want := range exp.Files {
		got := gotFiles[p]
		if len(got) != len(want) {
			f.add("output-file wrong-count", "output file %q reported %d times, declared and produced %d times", p, len(got), len(want))
			continue
		}
		for i, g := range got {
			if g.Digest.GetHash() != want[i].Hash || g.Digest.GetSizeBytes() != want[i].Size {
				f.add("output-file wrong-digest", "output file %q reported with digest %v, contents hash to %s/%d", p, g.Digest, want[i].Hash, want[i].Size)
			}
			if g.IsExecutable != want[i].Exec {
				f.add("output-file wrong-executable-bit", "output file %q reported executable=%v, want %v", p, g.IsExecutable, want[i].Exec)
			}
			if g.Digest != nil {
				rehash("output-file", g.Digest)
				counters["file-digests-rehashed"]++
			}
		}
	}
	for p, got := range gotFiles {
		if _, ok := exp.Files[p]; !ok {
			f.add("output-file not-produced-or-not-declared", "output file %q reported %d times, but no regular file was produced at a location declared under that string", p, len(got))
		}
	}

	// Symlinks.
	gotLinks := map[string][]string{}
	for _, l := range ar.OutputSymlinks {
		gotLinks[l.Path] = append(gotLinks[l.Path], l.Target)
	}
	for p, want := range exp.Symlinks {
		got := gotLinks[p]
		if len(got) != len(want) {
			f.add("output-symlink wrong-count", "output symlink %q reported %d times, declared and produced %d times", p, len(got), len(want))
			continue
		}
		for i := range got {
			if !outkit.SameTarget(got[i], want[i]) {
				f.add("output-symlink wrong-target", "output symlink %q reported with target %q, produced %q", p, got[i], want[i])
			}
		}
	}
	for p, got := range gotLinks {
		if _, ok := exp.Symlinks[p]; !ok {
			f.add("output-symlink not-produced-or-not-declared", "output symlink %q reported %d times unexpectedly", p, len(got))
		}
	}
	for _, l := range ar.OutputFileSymlinks {
		if _, ok := exp.Symlinks[l.Path]; !ok {
			f.add("output-symlink not-produced-or-not-declared", "legacy output_file_symlinks lists %q unexpectedly", l.Path)
		}
	}
	for _, l := range ar.OutputDirectorySymlinks {
		if _, ok := exp.Symlinks[l.Path]; !ok {
			f.add("output-symlink not-produced-or-not-declared", "legacy output_directory_symlinks lists %q unexpectedly", l.Path)
		}
	}

	// Directories.
	gotDirs := map[string][]*remoteexecution.OutputDirectory{}
	for _, d := range ar.OutputDirectories {
		gotDirs[d.Path] = append(gotDirs[d.Path], d)
	}
	for p, want := range exp.Directories {
		got := gotDirs[p]
		if len(got) != len(want) {
			f.add("output-directory wrong-count", "output directory %q reported %d times, declared and produced %d times", p, len(got), len(want))
			continue
		}
		for i, g := range got {
			counters["trees-checked"]++
			if g.TreeDigest == nil {
				f.add("output-directory no-tree-digest", "output directory %q has no tree digest", p)
				continue
			}
			blob := rehash("tree", g.TreeDigest)
			if blob == nil {
				continue
			}
			root, info, problems := outkit.CheckTree(blob, fn, lookup)
			for _, pr := range problems {
				f.add("tree-malformed rule="+pr.Rule, "output directory %q: %s", p, pr.Detail)
			}
			if !g.IsTopologicallySorted {
				counters["trees-not-marked-topologically-sorted"]++
			}
			if root != nil {
				var diffs []string
				outkit.Diff(want[i], root, "", &diffs)
				if len(diffs) > 0 {
					f.add("tree-content-differs", "output directory %q: re-expanded Tree differs from the produced hierarchy: %s", p, strings.Join(diffs, "; "))
				}
				counters["tree-directories-decoded"] += len(info.Dirs)
				if len(info.Dirs) > 1 {
					cs.Situations["tree-with-children-checked"] = true
				}
				if info.MaxDepth >= 10 {
					cs.Situations["tree-depth-10-or-more"] = true
				}
			}
			if cs.wantsTrees {
				if g.RootDirectoryDigest == nil {
					f.add("output-directory no-root-directory-digest", "output directory %q: format %s requires root_directory_digest", p, cs.Format)
				} else if len(info.Dirs) > 0 {
					if g.RootDirectoryDigest.GetHash() != info.Dirs[0].Digest.Hash || g.RootDirectoryDigest.GetSizeBytes() != info.Dirs[0].Digest.SizeBytes {
						f.add("output-directory wrong-root-directory-digest", "output directory %q: root_directory_digest %v is not the digest of the Tree's root %v", p, g.RootDirectoryDigest, info.Dirs[0].Digest)
					}
					for _, td := range info.Dirs {
						if data, ok := lookup(td.Digest); !ok {
							f.add("output-directory directory-blob-absent", "output directory %q: Directory %v is not stored separately although root_directory_digest is set", p, td.Digest)
							break
						} else if string(data) != string(td.Raw) {
							f.add("reported-digest does-not-match-cas-bytes what=directory", "Directory blob %v differs from the bytes in the Tree", td.Digest)
						}
					}
					cs.Situations["directory-messages-checked"] = true
				}
			} else if g.RootDirectoryDigest != nil {
				f.add("output-directory unexpected-root-directory-digest", "output directory %q: root_directory_digest set for format TREE_ONLY", p)
			}
		}
	}
	for p, got := range gotDirs {
		if _, ok := exp.Directories[p]; !ok {
			f.add("output-directory not-produced-or-not-declared", "output directory %q reported %d times unexpectedly", p, len(got))
		}
	}
	for _, p := range exp.SpecialAt {
		if len(gotFiles[p])+len(gotLinks[p])+len(gotDirs[p]) > 0 {
			f.add("special-file reported-as-output", "declared path %q holds a special file but is reported as an output", p)
		}
	}
	for _, pr := range cas.IntegrityProblems() {
		f.add("cas-blob digest-mismatch", "%s", pr)
	}
	counters["outputs-compared"] += len(ar.OutputFiles) + len(ar.OutputSymlinks) + len(ar.OutputDirectories)
}

// --- direct driver --------------------------------------------------------------

// backend provides a build directory for the input root of one case.
type backend interface {
	name() string
	// open returns the build directory positioned at an empty input root.
	open(h *harness, cas *outkit.Store) (root builder.BuildDirectory, ops rootOps, cleanup func())
}

// rootOps lets the harness act as "the action" and as an observer on the
// hierarchy behind a build directory, without going through /repo's
// upload code.
type rootOps interface {
	materialize(n *outkit.Node) error
	snapshot() (*outkit.Node, error)
}

type naiveBackend struct{}

func (naiveBackend) name() string { return "naive" }

type osOps struct{ abs string }

func (o osOps) materialize(n *outkit.Node) error { return outkit.Materialize(o.abs, n) }
func (o osOps) snapshot() (*outkit.Node, error)  { return outkit.Snapshot(o.abs) }

func (naiveBackend) open(h *harness, cas *outkit.Store) (builder.BuildDirectory, rootOps, func()) {
	abs := filepath.Join(h.tmp, fmt.Sprintf("d%d", h.seq.Add(1)))
	if err := os.Mkdir(abs, 0o777); err != nil {
		panic(err)
	}
	local, err := filesystem.NewLocalDirectory(path.LocalFormat.NewParser(abs))
	if err != nil {
		panic(err)
	}
	bd := builder.NewNaiveBuildDirectory(local, outkit.NewDirectoryFetcher(), outkit.FileFetcher{CAS: cas}, semaphore.NewWeighted(1), cas)
	return bd, osOps{abs}, func() {
		bd.Close()
		os.RemoveAll(abs)
	}
}

func (h *harness) judge(cs *caseSpec, driver string, f *findings, extra map[string]any) {
	for _, fd := range f.list {
		w := map[string]any{"seed": h.r.Seed(), "driver": driver, "case": cs.describe(), "observed": fd.Detail}
		for k, v := range extra {
			w[k] = v
		}
		h.r.Violation("C10 "+fd.Sig, fd.Detail, w)
	}
}

func (h *harness) runDirect(cs *caseSpec, be backend, df digest.Function) {
	r := h.r
	var f findings
	counters := map[string]int{}
	extra := map[string]any{"digest_function": df.GetEnumValue().String()}
	defer func() {
		h.judge(cs, "direct/"+be.name(), &f, extra)
		for k, v := range counters {
			r.Count(k, v)
		}
	}()

	oh, err := builder.NewOutputHierarchy(cs.command())
	if len(cs.Invalid) > 0 {
		if err == nil {
			f.add("invalid-path accepted", "NewOutputHierarchy accepted a command whose paths %q are absolute or leave the input root", cs.Invalid)
		} else {
			counters["rejections-observed"]++
			if c := status.Code(err); c != codes.InvalidArgument {
				counters["rejections-with-code-other-than-invalid-argument"]++
			}
		}
		return
	}
	if err != nil {
		f.add("valid-path rejected", "NewOutputHierarchy rejected a command whose paths all stay inside the input root: %v", err)
		return
	}

	plan := outkit.NewPlan(0, outkit.FaultNone, nil)
	cas := outkit.NewStore("cas", plan, true)
	root, ops, cleanup := be.open(h, cas)
	defer cleanup()
	if err := ops.materialize(cs.InputRoot); err != nil {
		panic(fmt.Sprintf("harness: materialise input root: %v", err))
	}
	if err := oh.CreateParentDirectories(root); err != nil {
		f.add("create-parent-directories failed", "CreateParentDirectories failed on a conflict-free input root: %v", err)
		return
	}
	before, err := ops.snapshot()
	if err != nil {
		panic(err)
	}
	checkPreRun(cs, before, &f)

	if err := ops.materialize(cs.Final); err != nil {
		panic(fmt.Sprintf("harness: materialise produced hierarchy: %v", err))
	}
	if sanity, err := ops.snapshot(); err != nil {
		panic(err)
	} else {
		var diffs []string
		outkit.Diff(cs.Final, sanity, "", &diffs)
		if len(diffs) > 0 {
			panic(fmt.Sprintf("harness: materialised hierarchy differs from the model: %v", diffs))
		}
	}

	var ar remoteexecution.ActionResult
	uerr := oh.UploadOutputs(context.Background(), root, cas, df, make(chan struct{}), &ar, cs.ForceTrees)
	exp := cs.expected(df.GetEnumValue())
	if uerr != nil {
		extra["upload_error"] = uerr.Error()
		if len(exp.SpecialAt) == 0 {
			f.add("upload-outputs unexpected-error", "UploadOutputs failed although every declared location holds a file, directory, symlink or nothing: %v", uerr)
		} else {
			counters["special-file-errors-observed"]++
		}
	}
	checkResult(cs, df, &ar, cas, &f, counters)
}

func checkPreRun(cs *caseSpec, before *outkit.Node, f *findings) {
	var diffs []string
	outkit.Diff(cs.PreRun, before, "", &diffs)
	for _, d := range diffs {
		switch {
		case strings.Contains(d, "missing"):
			f.add("parent-directory missing-before-run", "hierarchy before the run: %s (expected %s)", d, cs.PreRun.Describe())
		default:
			f.add("hierarchy-before-run unexpected-entry", "hierarchy before the run: %s (expected %s)", d, cs.PreRun.Describe())
		}
		return
	}
}

// --- executor driver ------------------------------------------------------------

func (h *harness) runExecutor(cs *caseSpec, useVirtual bool) {
	r := h.r
	df := digestFunctions[0]
	var f findings
	counters := map[string]int{}
	extra := map[string]any{}
	driver := "executor/naive"
	if useVirtual {
		driver = "executor/virtual"
	}
	var stack *outkit.Stack
	defer func() {
		h.judge(cs, driver, &f, extra)
		for k, v := range counters {
			r.Count(k, v)
		}
	}()
	buildRoot := filepath.Join(h.tmp, fmt.Sprintf("x%d", h.seq.Add(1)))
	if err := os.Mkdir(buildRoot, 0o777); err != nil {
		panic(err)
	}
	defer os.RemoveAll(buildRoot)

	plan := outkit.NewPlan(0, outkit.FaultNone, nil)
	cas := outkit.NewStore("cas", plan, true)
	ac := outkit.NewStore("ac", plan, false)
	commandRaw, _ := proto.Marshal(cs.command())
	commandDigest := outkit.DigestOf(df, commandRaw)
	cas.Preload(commandDigest, commandRaw)
	fetcher := outkit.NewDirectoryFetcher()
	action := &remoteexecution.Action{
		CommandDigest:   commandDigest.GetProto(),
		InputRootDigest: fetcher.AddInputRoot(df, cs.InputRoot, cas),
		Timeout:         durationpb.New(60e9),
	}
	actionRaw, _ := proto.Marshal(action)
	actionDigest := outkit.DigestOf(df, actionRaw)

	var seenWD string
	runner := &outkit.Runner{OnRun: func(ctx context.Context, req *runner_pb.RunRequest) (*runner_pb.RunResponse, error) {
		seenWD = req.WorkingDirectory
		if useVirtual {
			root, err := stack.Virtual.Lookup(req.InputRootDirectory)
			if err != nil {
				panic(err)
			}
			before, err := outkit.SnapshotVirtual(root)
			if err != nil {
				panic(err)
			}
			checkPreRun(cs, before, &f)
			if err := outkit.MaterializeVirtual(root, cs.Final); err != nil {
				panic(fmt.Sprintf("harness: materialise produced hierarchy: %v", err))
			}
			// stdout and stderr live next to the input root.
			buildDirectory, err := stack.Virtual.Lookup(filepath.Dir(req.StdoutPath))
			if err != nil {
				panic(err)
			}
			logs := outkit.NewDir()
			logs.Children[filepath.Base(req.StdoutPath)] = &outkit.Node{Kind: outkit.KindFile}
			logs.Children[filepath.Base(req.StderrPath)] = &outkit.Node{Kind: outkit.KindFile}
			if err := outkit.MaterializeVirtual(buildDirectory, logs); err != nil {
				panic(err)
			}
			return &runner_pb.RunResponse{}, nil
		}
		abs := filepath.Join(buildRoot, req.InputRootDirectory)
		before, err := outkit.Snapshot(abs)
		if err != nil {
			panic(err)
		}
		checkPreRun(cs, before, &f)
		if err := outkit.Materialize(abs, cs.Final); err != nil {
			panic(fmt.Sprintf("harness: materialise produced hierarchy: %v", err))
		}
		for _, p := range []string{req.StdoutPath, req.StderrPath} {
			if err := os.WriteFile(filepath.Join(buildRoot, p), nil, 0o644); err != nil {
				panic(err)
			}
		}
		return &runner_pb.RunResponse{}, nil
	}}
	var err error
	stack, err = outkit.NewStack(outkit.StackConfig{
		BuildRoot: buildRoot, Plan: plan, CAS: cas, AC: ac, BatchSize: 100, PutConcurrency: 2,
		Runner: runner, Clock: vclock.New(1_700_000_000), Fetcher: fetcher, ForceTrees: cs.ForceTrees, WorkerName: "c10",
		Virtual: useVirtual,
	})
	if err != nil {
		panic(err)
	}
	defer stack.Close()
	updates := make(chan *remoteworker.CurrentState_Executing, 16)
	resp := stack.Executor.Execute(context.Background(), stack.FilePool(), nil, df, &remoteworker.DesiredState_Executing{
		ActionDigest: actionDigest.GetProto(), Action: action,
	}, updates)
	st := status.FromProto(resp.Status)
	extra["response_status"] = st.Code().String() + ": " + st.Message()

	if len(cs.Invalid) > 0 {
		if runner.Calls.Load() > 0 {
			f.add("invalid-path accepted", "the command ran although its paths %q are absolute or leave the input root", cs.Invalid)
		} else if st.Code() == codes.OK {
			f.add("invalid-path accepted", "OK response for a command whose paths %q are absolute or leave the input root", cs.Invalid)
		} else {
			counters["rejections-observed"]++
		}
		if n := len(resp.Result.GetOutputFiles()) + len(resp.Result.GetOutputDirectories()) + len(resp.Result.GetOutputSymlinks()); n > 0 {
			f.add("invalid-path outputs-reported", "%d outputs reported for a rejected command", n)
		}
		return
	}
	if runner.Calls.Load() != 1 {
		f.add("valid-path rejected", "the runner was invoked %d times; response %s: %s", runner.Calls.Load(), st.Code(), st.Message())
		return
	}
	if seenWD != cs.WorkingDirectory {
		f.add("working-directory altered", "runner received working directory %q, declared %q", seenWD, cs.WorkingDirectory)
	}
	exp := cs.expected(df.GetEnumValue())
	if st.Code() != codes.OK {
		if len(exp.SpecialAt) == 0 {
			f.add("upload-outputs unexpected-error", "response %s: %s although every declared location holds a file, directory, symlink or nothing", st.Code(), st.Message())
		} else {
			counters["special-file-errors-observed"]++
		}
		// A failed response has its digests pruned by the flushing
		// layer only when the flush failed; here the flush succeeded,
		// so the outputs are still listed and can be compared.
	}
	checkResult(cs, df, resp.Result, cas, &f, counters)
	if st.Code() == codes.OK && ac.Len() != 1 {
		counters["ok-responses-not-cached"]++
	}
}

// --- entry point ------------------------------------------------------------------

func TestCheck(t *testing.T) {
	r := ev.Start("C10")
	defer r.Finish()
	r.SetRule("generated Commands (working directory and 0-6 output paths built from name/./../empty components with duplicates, aliases, nesting, trailing separators, absolute/escaping/NUL forms; TREE_ONLY / DIRECTORY_ONLY / TREE_AND_DIRECTORY; forced trees) x generated produced hierarchies (file, executable, symlink, FIFO, missing, empty/random/deep/wide directories with repeated identical subdirectories, undeclared junk, input files); drivers: direct over naive directory (5 digest functions), direct over virtual directory, LocalBuildExecutor stack (native and virtual build directory) with snapshotting fake runner. Oracle: independent lexical normaliser + model walker + protowire Tree decoder. A case is non-trivial when it hits a listed situation; distinct = distinct (command, hierarchy, driver) hashes")
	r.Assume("declared output paths are resolved lexically against the working directory (REv2: relative, '/' separated); symlink targets are compared up to redundant separators and '.' components")
	r.Assume("a special file at a declared location may or may not fail the upload, but must not be listed; special files inside an output directory are omitted from its Tree")
	r.Assume("output_files/output_directories of the Command are ignored when output_paths is used (only output_paths is implemented by this snapshot's NewOutputHierarchy)")
	r.Assume("the action never replaces a parent directory of a declared output by a symlink (hostile in-root redirection is not generated)")
	for _, s := range []string{
		"same-string-declared-twice", "aliasing-strings-for-one-location", "nested-declared-outputs",
		"output-resolves-to-root", "identical-subdirectories-in-tree", "escaping-or-absolute-output-path",
		"escaping-or-absolute-working-directory", "declared-output-missing", "special-file-at-output-path",
		"special-file-inside-output-directory", "output-is-symlink", "deep-directory", "wide-directory",
		"tree-with-children-checked", "directory-messages-checked", "tree-depth-10-or-more",
		"driver:direct/naive", "driver:direct/virtual", "driver:executor/naive", "driver:executor/virtual",
	} {
		if r.ReplayFile() == "" {
			r.Floor(s, 10)
		}
	}
	tmp, err := os.MkdirTemp("", "verif-c10-")
	if err != nil {
		t.Fatal(err)
	}
	defer os.RemoveAll(tmp)
	h := &harness{r: r, tmp: tmp}

	n := r.Pick(2000, 20000)
	const workers = 4
	first := 0
	if rf := r.ReplayFile(); rf != "" {
		// Re-run exactly the recorded case.
		var doc struct {
			Witness struct {
				Case struct {
					Index int `json:"index"`
				} `json:"case"`
			} `json:"witness"`
		}
		raw, err := os.ReadFile(rf)
		if err == nil {
			err = json.Unmarshal(raw, &doc)
		}
		if err != nil {
			r.Inconclusive("cannot use replay file: %v", err)
			return
		}
		first, n = doc.Witness.Case.Index, doc.Witness.Case.Index+1
	}
	outkit.ParallelFor(n-first, workers, func(k int) {
		i := first + k
		rng := r.Rand(31, uint64(i))
		driver := "direct/naive"
		switch i % 10 {
		case 3, 6, 9:
			driver = "direct/virtual"
		case 4, 8:
			driver = "executor/naive"
		case 7:
			driver = "executor/virtual"
		}
		cs := genCase(rng, i, true)
		r.Case("case %d driver=%s wd=%q outputs=%q format=%s", i, driver, cs.WorkingDirectory, cs.OutputPaths, cs.Format)
		switch driver {
		case "direct/naive":
			h.runDirect(cs, naiveBackend{}, digestFunctions[i%len(digestFunctions)])
		case "direct/virtual":
			h.runDirect(cs, virtualBackend{}, digestFunctions[i%len(digestFunctions)])
		case "executor/naive":
			h.runExecutor(cs, false)
		case "executor/virtual":
			h.runExecutor(cs, true)
		}
		r.Situation("driver:" + driver)
		names := make([]string, 0, len(cs.Situations))
		for s := range cs.Situations {
			names = append(names, s)
		}
		sort.Strings(names)
		for _, s := range names {
			r.Situation(s)
		}
		r.Hash(ev.HashOf(driver, cs.WorkingDirectory, cs.OutputPaths, cs.Format, cs.ForceTrees, cs.Final.Describe()), len(names) > 0)
		if i < 3 {
			r.Sample(map[string]any{"driver": driver, "case": cs.describe(), "situations": names})
		}
	})
}
