// Package c10 checks property C10: reported outputs are exactly what the
// action produced.
//
// Generated REv2 Commands (working directories and output paths with ".",
// "..", doubled and trailing separators, duplicates, aliases, nesting, paths
// resolving to the input root, absolute and escaping paths, the three output
// directory formats) and generated produced hierarchies are pushed through
// the real builder.OutputHierarchy:
//
//   - directly (NewOutputHierarchy / CreateParentDirectories / UploadOutputs)
//     over a naive build directory in a temp dir,
//   - directly over a virtual build directory (InMemoryPrepopulatedDirectory
//     with pool-backed files, populated through the virtual.Directory API the
//     FUSE/NFS front ends use),
//   - through LocalBuildExecutor inside the composed executor stack with a
//     fake runner that snapshots the tree it sees and then materialises the
//     hierarchy.
//
// An independent path normaliser and tree walker (verif/internal/outkit)
// compute the expected ActionResult; Tree blobs are decoded with protowire
// and checked for the is_topologically_sorted rules; digests are re-hashed
// from the bytes held by the fake CAS.
package c10

import (
	"context"
	"encoding/json"
	"fmt"
	"os"
	"path/filepath"
	"sort"
	"strings"
	"sync/atomic"
	"testing"
	"time"

	remoteexecution "github.com/bazelbuild/remote-apis/build/bazel/remote/execution/v2"
	"github.com/buildbarn/bb-remote-execution/pkg/builder"
	"github.com/buildbarn/bb-remote-execution/pkg/proto/remoteworker"
	runner_pb "github.com/buildbarn/bb-remote-execution/pkg/proto/runner"
	"github.com/buildbarn/bb-storage/pkg/digest"
	"github.com/buildbarn/bb-storage/pkg/filesystem"
	"github.com/buildbarn/bb-storage/pkg/filesystem/path"

	"golang.org/x/sync/semaphore"
	"google.golang.org/grpc/codes"
	"google.golang.org/grpc/status"
	"google.golang.org/protobuf/proto"
	"google.golang.org/protobuf/types/known/durationpb"

	"verif/internal/ev"
	"verif/internal/outkit"
	"verif/internal/vclock"
)

type harness struct {
	r   *ev.Run
	tmp string
	seq atomic.Int64
}

type finding struct {
	Sig    string
	Detail string
}

type findings struct{ list []finding }

func (f *findings) add(sig, format string, args ...any) {
	if len(f.list) < 12 {
		f.list = append(f.list, finding{Sig: sig, Detail: fmt.Sprintf(format, args...)})
	}
}

func (cs *caseSpec) command() *remoteexecution.Command {
	c := &remoteexecution.Command{
		Arguments:             []string{"/bin/produce"},
		EnvironmentVariables:  []*remoteexecution.Command_EnvironmentVariable{{Name: "LANG", Value: "C"}},
		WorkingDirectory:      cs.WorkingDirectory,
		OutputPaths:           cs.OutputPaths,
		OutputDirectoryFormat: cs.Format,
	}
	if cs.LegacyFields {
		// REv2: ignored when output_paths is used.
		c.OutputFiles = []string{"legacy-file", "a/legacy-file"}
		c.OutputDirectories = []string{"legacy-dir"}
	}
	return c
}

// digestFunctions used by the direct drivers.
var digestFunctions = []digest.Function{
	digest.MustNewFunction("verif/c10", remoteexecution.DigestFunction_SHA256),
	digest.MustNewFunction("verif/c10", remoteexecution.DigestFunction_SHA256),
	digest.MustNewFunction("verif/c10/md5", remoteexecution.DigestFunction_MD5),
	digest.MustNewFunction("verif", remoteexecution.DigestFunction_SHA1),
	digest.MustNewFunction("", remoteexecution.DigestFunction_SHA512),
}

// checkResult compares an ActionResult with the expectation derived from
// the model.
func checkResult(cs *caseSpec, df digest.Function, ar *remoteexecution.ActionResult, cas *outkit.Store, f *findings, counters map[string]int) {
	fn := df.GetEnumValue()
	exp := cs.expected(fn)
	lookup := func(d *remoteexecution.Digest) ([]byte, bool) {
		dd, err := df.NewDigestFromProto(d)
		if err != nil {
			return nil, false
		}
		return cas.Bytes(dd)
	}
	rehash := func(what string, d *remoteexecution.Digest) []byte {
		data, ok := lookup(d)
		if !ok {
			f.add("reported-digest absent-from-cas what="+what, "%s digest %v is not in the CAS", what, d)
			return nil
		}
		if h, _ := outkit.HashOf(fn, data); h != d.GetHash() || int64(len(data)) != d.GetSizeBytes() {
			f.add("reported-digest does-not-match-cas-bytes what="+what, "%s digest %v: CAS bytes hash to %s/%d", what, d, h, len(data))
		}
		return data
	}

	// Files.
	gotFiles := map[string][]*remoteexecution.OutputFile{}
	for _, of := range ar.OutputFiles {
		gotFiles[of.Path] = append(gotFiles[of.Path], of)
	}
	for p, want := range exp.Files {
		got := gotFiles[p]
		if len(got) != len(want) {
			f.add("output-file wrong-count", "output file %q reported %d times, declared and produced %d times", p, len(got), len(want))
			continue
		}
		for i, g := range got {
			if g.Digest.GetHash() != want[i].Hash || g.Digest.GetSizeBytes() != want[i].Size {
				f.add("output-file wrong-digest", "output file %q reported with digest %v, contents hash to %s/%d", p, g.Digest, want[i].Hash, want[i].Size)
			}
			if g.IsExecutable != want[i].Exec {
				f.add("output-file wrong-executable-bit", "output file %q reported executable=%v, want %v", p, g.IsExecutable, want[i].Exec)
			}
			if g.Digest != nil {
				rehash("output-file", g.Digest)
				counters["file-digests-rehashed"]++
			}
		}
	}
	for p, got := range gotFiles {
		if _, ok := exp.Files[p]; !ok {
			f.add("output-file not-produced-or-not-declared", "output file %q reported %d times, but no regular file was produced at a location declared under that string", p, len(got))
		}
	}

	// Symlinks.
	gotLinks := map[string][]string{}
	for _, l := range ar.OutputSymlinks {
		gotLinks[l.Path] = append(gotLinks[l.Path], l.Target)
	}
	for p, want := range exp.Symlinks {
		got := gotLinks[p]
		if len(got) != len(want) {
			f.add("output-symlink wrong-count", "output symlink %q reported %d times, declared and produced %d times", p, len(got), len(want))
			continue
		}
		for i := range got {
			if !outkit.SameTarget(got[i], want[i]) {
				f.add("output-symlink wrong-target", "output symlink %q reported with target %q, produced %q", p, got[i], want[i])
			}
		}
	}
	for p, got := range gotLinks {
		if _, ok := exp.Symlinks[p]; !ok {
			f.add("output-symlink not-produced-or-not-declared", "output symlink %q reported %d times unexpectedly", p, len(got))
		}
	}
	for _, l := range ar.OutputFileSymlinks {
		if _, ok := exp.Symlinks[l.Path]; !ok {
			f.add("output-symlink not-produced-or-not-declared", "legacy output_file_symlinks lists %q unexpectedly", l.Path)
		}
	}
	for _, l := range ar.OutputDirectorySymlinks {
		if _, ok := exp.Symlinks[l.Path]; !ok {
			f.add("output-symlink not-produced-or-not-declared", "legacy output_directory_symlinks lists %q unexpectedly", l.Path)
		}
	}

	// Directories.
	gotDirs := map[string][]*remoteexecution.OutputDirectory{}
	for _, d := range ar.OutputDirectories {
		gotDirs[d.Path] = append(gotDirs[d.Path], d)
	}
	for p, want := range exp.Directories {
		got := gotDirs[p]
		if len(got) != len(want) {
			f.add("output-directory wrong-count", "output directory %q reported %d times, declared and produced %d times", p, len(got), len(want))
			continue
		}
		for i, g := range got {
			counters["trees-checked"]++
			if g.TreeDigest == nil {
				f.add("output-directory no-tree-digest", "output directory %q has no tree digest", p)
				continue
			}
			blob := rehash("tree", g.TreeDigest)
			if blob == nil {
				continue
			}
			root, info, problems := outkit.CheckTree(blob, fn, lookup)
			for _, pr := range problems {
				f.add("tree-malformed rule="+pr.Rule, "output directory %q: %s", p, pr.Detail)
			}
			if !g.IsTopologicallySorted {
				counters["trees-not-marked-topologically-sorted"]++
			}
			if root != nil {
				var diffs []string
				outkit.Diff(want[i], root, "", &diffs)
				if len(diffs) > 0 {
					f.add("tree-content-differs", "output directory %q: re-expanded Tree differs from the produced hierarchy: %s", p, strings.Join(diffs, "; "))
				}
				counters["tree-directories-decoded"] += len(info.Dirs)
				if len(info.Dirs) > 1 {
					cs.Situations["tree-with-children-checked"] = true
				}
				if info.MaxDepth >= 10 {
					cs.Situations["tree-depth-10-or-more"] = true
				}
			}
			if cs.wantsTrees {
				if g.RootDirectoryDigest == nil {
					f.add("output-directory no-root-directory-digest", "output directory %q: format %s requires root_directory_digest", p, cs.Format)
				} else if len(info.Dirs) > 0 {
					if g.RootDirectoryDigest.GetHash() != info.Dirs[0].Digest.Hash || g.RootDirectoryDigest.GetSizeBytes() != info.Dirs[0].Digest.SizeBytes {
						f.add("output-directory wrong-root-directory-digest", "output directory %q: root_directory_digest %v is not the digest of the Tree's root %v", p, g.RootDirectoryDigest, info.Dirs[0].Digest)
					}
					for _, td := range info.Dirs {
						if data, ok := lookup(td.Digest); !ok {
							f.add("output-directory directory-blob-absent", "output directory %q: Directory %v is not stored separately although root_directory_digest is set", p, td.Digest)
							break
						} else if string(data) != string(td.Raw) {
							f.add("reported-digest does-not-match-cas-bytes what=directory", "Directory blob %v differs from the bytes in the Tree", td.Digest)
						}
					}
					cs.Situations["directory-messages-checked"] = true
				}
			} else if g.RootDirectoryDigest != nil {
				f.add("output-directory unexpected-root-directory-digest", "output directory %q: root_directory_digest set for format TREE_ONLY", p)
			}
		}
	}
	for p, got := range gotDirs {
		if _, ok := exp.Directories[p]; !ok {
			f.add("output-directory not-produced-or-not-declared", "output directory %q reported %d times unexpectedly", p, len(got))
		}
	}
	for _, p := range exp.SpecialAt {
		if len(gotFiles[p])+len(gotLinks[p])+len(gotDirs[p]) > 0 {
			f.add("special-file reported-as-output", "declared path %q holds a special file but is reported as an output", p)
		}
	}
	for _, pr := range cas.IntegrityProblems() {
		f.add("cas-blob digest-mismatch", "%s", pr)
	}
	counters["outputs-compared"] += len(ar.OutputFiles) + len(ar.OutputSymlinks) + len(ar.OutputDirectories)
}

// --- direct driver --------------------------------------------------------------

// backend provides a build directory for the input root of one case.
type backend interface {
	name() string
	// open returns the build directory positioned at an empty input root.
	// Every operation the worker code performs on it is a numbered
	// position of plan (see outkit.FaultyBuildDirectory).
	open(h *harness, cas *outkit.Store, plan *outkit.Plan) (root builder.BuildDirectory, ops rootOps, cleanup func())
}

// rootOps lets the harness act as "the action" and as an observer on the
// hierarchy behind a build directory, without going through /repo's
// upload code.
type rootOps interface {
	materialize(n *outkit.Node) error
	snapshot() (*outkit.Node, error)
	remove(loc []string) error
}

type naiveBackend struct{}

func (naiveBackend) name() string { return "naive" }

type osOps struct{ abs string }

func (o osOps) materialize(n *outkit.Node) error { return outkit.Materialize(o.abs, n) }
func (o osOps) snapshot() (*outkit.Node, error)  { return outkit.Snapshot(o.abs) }
func (o osOps) remove(loc []string) error {
	return os.RemoveAll(filepath.Join(append([]string{o.abs}, loc...)...))
}

func (naiveBackend) open(h *harness, cas *outkit.Store, plan *outkit.Plan) (builder.BuildDirectory, rootOps, func()) {
	abs := filepath.Join(h.tmp, fmt.Sprintf("d%d", h.seq.Add(1)))
	if err := os.Mkdir(abs, 0o777); err != nil {
		panic(err)
	}
	local, err := filesystem.NewLocalDirectory(path.LocalFormat.NewParser(abs))
	if err != nil {
		panic(err)
	}
	handles := outkit.NewHandleStats()
	bd := builder.NewNaiveBuildDirectory(outkit.NewCountingDirectory(local, handles).WithFaults(plan), outkit.NewDirectoryFetcher(), outkit.FileFetcher{CAS: cas}, semaphore.NewWeighted(1), cas)
	return outkit.NewFaultyBuildDirectory(bd, plan, &outkit.FaultyDirStats{}), osOps{abs}, func() {
		bd.Close()
		os.RemoveAll(abs)
		if never, _ := handles.Problems(); len(never) > 0 {
			h.r.Count("file-handles-left-open-after-faulted-upload", len(never))
		}
	}
}

func (h *harness) judge(cs *caseSpec, driver string, f *findings, extra map[string]any) {
	for _, fd := range f.list {
		w := map[string]any{"seed": h.r.Seed(), "driver": driver, "case": cs.describe(), "observed": fd.Detail}
		for k, v := range extra {
			w[k] = v
		}
		h.r.Violation("C10 "+fd.Sig, fd.Detail, w)
	}
}

// runInfo describes the numbered operations of one run.
type runInfo struct {
	Counted   int
	Triggered bool
	Hit       outkit.Call
	Calls     []outkit.Call
}

func faultSituation(hit outkit.Call) string {
	return "fault:" + hit.Store + "-" + hit.Op
}

// runDirect drives NewOutputHierarchy / CreateParentDirectories /
// UploadOutputs over a backend. faultAt > 0 makes the faultAt-th operation
// the worker code performs (directory call, file open/read, CAS call) fail.
func (h *harness) runDirect(cs *caseSpec, be backend, df digest.Function, faultAt int) (info runInfo) {
	r := h.r
	var f findings
	counters := map[string]int{}
	extra := map[string]any{"digest_function": df.GetEnumValue().String()}
	if faultAt > 0 {
		extra["fault_at"] = faultAt
	}
	driver := "direct/" + be.name()
	defer func() {
		if info.Triggered {
			extra["faulted_call"] = info.Hit
		}
		h.judge(cs, driver, &f, extra)
		for k, v := range counters {
			r.Count(k, v)
		}
	}()

	oh, err := builder.NewOutputHierarchy(cs.command())
	if len(cs.Invalid) > 0 {
		if err == nil {
			f.add("invalid-path accepted", "NewOutputHierarchy accepted a command whose paths %q are absolute or leave the input root", cs.Invalid)
		} else {
			counters["rejections-observed"]++
			if c := status.Code(err); c != codes.InvalidArgument {
				counters["rejections-with-code-other-than-invalid-argument"]++
			}
		}
		return
	}
	if err != nil {
		f.add("valid-path rejected", "NewOutputHierarchy rejected a command whose paths all stay inside the input root: %v", err)
		return
	}

	plan := outkit.NewPlan(faultAt, outkit.FaultErrDiscard, nil)
	cas := outkit.NewStore("cas", plan, true)
	// Lingering writers (virtual back end, clean runs): the direct driver
	// owns the writable file upload delay channel, so "the delay expired"
	// is closing it.
	writableFileUploadDelay := make(chan struct{})
	var sr *stragglerRun
	if cs.Stragglers != nil && faultAt == 0 && be.name() == "virtual" {
		sr = newStragglerRun(cs, func() { close(writableFileUploadDelay) })
		plan.OnOp = sr.onOp
		extra["stragglers"] = cs.Stragglers.describe()
	}
	root, ops, cleanup := be.open(h, cas, plan)
	defer cleanup()
	defer func() {
		info.Counted = plan.Count()
		info.Triggered, info.Hit = plan.Triggered()
		info.Calls = plan.Log()
	}()
	if err := ops.materialize(cs.InputRoot); err != nil {
		panic(fmt.Sprintf("harness: materialise input root: %v", err))
	}
	if err := oh.CreateParentDirectories(root); err != nil {
		if trig, _ := plan.Triggered(); trig {
			// The failure was reported: the action will not run.
			counters["faulted-runs-stopped-before-the-action"]++
		} else {
			f.add("create-parent-directories failed", "CreateParentDirectories failed on a conflict-free input root: %v", err)
		}
		return
	}
	// CreateParentDirectories claimed success (whether or not a fault was
	// swallowed): everything must be in place.
	before, err := ops.snapshot()
	if err != nil {
		panic(err)
	}
	checkPreRun(cs, before, &f)

	for _, loc := range cs.Removals {
		if err := ops.remove(loc); err != nil {
			panic(fmt.Sprintf("harness: remove %v: %v", loc, err))
		}
	}
	atReturn := cs.Final
	if sr != nil {
		atReturn = sr.atReturn
		if err := sr.materialize(ops.(virtualOps).v.Root, "./"); err != nil {
			panic(fmt.Sprintf("harness: materialise produced hierarchy: %v", err))
		}
	} else if err := ops.materialize(cs.Final); err != nil {
		panic(fmt.Sprintf("harness: materialise produced hierarchy: %v", err))
	}
	if sanity, err := ops.snapshot(); err != nil {
		panic(err)
	} else {
		var diffs []string
		outkit.Diff(atReturn, sanity, "", &diffs)
		if len(diffs) > 0 {
			panic(fmt.Sprintf("harness: materialised hierarchy differs from the model: %v", diffs))
		}
	}

	var ar remoteexecution.ActionResult
	uerr := oh.UploadOutputs(context.Background(), root, cas, df, writableFileUploadDelay, &ar, cs.ForceTrees)
	if sr != nil {
		sr.settle(cs, driver, counters)
		// What the writers left behind is what the model says (or, for
		// writers that never got to finish, what was there all along).
		left := cs.Final
		if cs.Stragglers.NeverCloses {
			left = sr.atReturn
		}
		sanity, err := ops.snapshot()
		if err != nil {
			panic(err)
		}
		var diffs []string
		outkit.Diff(left, sanity, "", &diffs)
		if len(diffs) > 0 {
			panic(fmt.Sprintf("harness: hierarchy after the lingering writers closed differs from the model: %v", diffs))
		}
		if cs.Stragglers.NeverCloses {
			// The delay expired: the files are judged as they were
			// at upload time.
			judged := *cs
			judged.Final = sr.atReturn
			cs = &judged
		}
	}
	exp := cs.expected(df.GetEnumValue())
	trig, _ := plan.Triggered()
	if uerr != nil {
		extra["upload_error"] = uerr.Error()
		switch {
		case trig:
			// The failure was reported. What is still listed must be
			// declared and well formed; nothing more is demanded.
			counters["faulted-uploads-reporting-an-error"]++
			checkListed(cs, df, &ar, cas, &f)
			return
		case len(exp.SpecialAt) > 0:
			counters["special-file-errors-observed"]++
		case cs.ParentReplaced == "file":
			counters["parent-replaced-errors-observed"]++
		case sr != nil && sr.expired.Load():
			// A writer outlived the delay: an error is acceptable.
			counters["straggler-delay-expired-errors-observed"]++
			checkListed(cs, df, &ar, cas, &f)
			return
		default:
			f.add("upload-outputs unexpected-error", "UploadOutputs failed although every declared location holds a file, directory, symlink or nothing: %v", uerr)
		}
	} else if trig {
		cs.Situations["fault-swallowed-result-still-checked-exactly"] = true
	}
	// No error reported: the result has to be exact, fault or not.
	checkResult(cs, df, &ar, cas, &f, counters)
	return
}

// checkListed is the oracle for a response that carries an error: every
// listed output must be a declared path string and every listed Tree that is
// in the CAS must be structurally well formed. Nothing is demanded about
// completeness.
func checkListed(cs *caseSpec, df digest.Function, ar *remoteexecution.ActionResult, cas *outkit.Store, f *findings) {
	declared := map[string]bool{}
	for _, p := range cs.OutputPaths {
		declared[p] = true
	}
	lookup := func(d *remoteexecution.Digest) ([]byte, bool) {
		dd, err := df.NewDigestFromProto(d)
		if err != nil {
			return nil, false
		}
		return cas.Bytes(dd)
	}
	for _, o := range ar.GetOutputFiles() {
		if !declared[o.Path] {
			f.add("output-file not-produced-or-not-declared", "error response lists output file %q, which was not declared", o.Path)
		}
	}
	for _, o := range ar.GetOutputSymlinks() {
		if !declared[o.Path] {
			f.add("output-symlink not-produced-or-not-declared", "error response lists output symlink %q, which was not declared", o.Path)
		}
	}
	for _, o := range ar.GetOutputDirectories() {
		if !declared[o.Path] {
			f.add("output-directory not-produced-or-not-declared", "error response lists output directory %q, which was not declared", o.Path)
		}
		if o.TreeDigest == nil {
			continue
		}
		blob, ok := lookup(o.TreeDigest)
		if !ok {
			continue
		}
		_, _, problems := outkit.CheckTree(blob, df.GetEnumValue(), lookup)
		for _, pr := range problems {
			if pr.Rule == "file-blob-absent" {
				continue // the write of that file may be what failed
			}
			f.add("tree-malformed rule="+pr.Rule, "output directory %q (error response): %s", o.Path, pr.Detail)
		}
	}
}

func checkPreRun(cs *caseSpec, before *outkit.Node, f *findings) {
	var diffs []string
	outkit.Diff(cs.PreRun, before, "", &diffs)
	for _, d := range diffs {
		switch {
		case strings.Contains(d, "missing"):
			f.add("parent-directory missing-before-run", "hierarchy before the run: %s (expected %s)", d, cs.PreRun.Describe())
		default:
			f.add("hierarchy-before-run unexpected-entry", "hierarchy before the run: %s (expected %s)", d, cs.PreRun.Describe())
		}
		return
	}
}

// --- executor driver ------------------------------------------------------------

// malformedRequests are request defects the local executor has to refuse
// before it touches anything; "runner-error" lets the command produce its
// outputs and then fail.
var malformedRequests = []string{"no-action", "invalid-timeout", "bad-action-digest", "bad-input-root-digest", "bad-command-digest", "command-not-in-cas", "runner-error"}

func (h *harness) runExecutor(cs *caseSpec, useVirtual bool, faultAt int, malform string) (info runInfo) {
	r := h.r
	df := digestFunctions[0]
	var f findings
	counters := map[string]int{}
	extra := map[string]any{}
	driver := "executor/naive"
	if useVirtual {
		driver = "executor/virtual"
	}
	if faultAt > 0 {
		extra["fault_at"] = faultAt
	}
	var stack *outkit.Stack
	defer func() {
		if info.Triggered {
			extra["faulted_call"] = info.Hit
		}
		h.judge(cs, driver, &f, extra)
		for k, v := range counters {
			r.Count(k, v)
		}
	}()
	buildRoot := filepath.Join(h.tmp, fmt.Sprintf("x%d", h.seq.Add(1)))
	if err := os.Mkdir(buildRoot, 0o777); err != nil {
		panic(err)
	}
	defer os.RemoveAll(buildRoot)

	plan := outkit.NewPlan(faultAt, outkit.FaultErrDiscard, nil)
	defer func() {
		info.Counted = plan.Count()
		info.Triggered, info.Hit = plan.Triggered()
		info.Calls = plan.Log()
	}()
	cas := outkit.NewStore("cas", plan, true)
	ac := outkit.NewStore("ac", plan, false)
	commandRaw, _ := proto.Marshal(cs.command())
	commandDigest := outkit.DigestOf(df, commandRaw)
	cas.Preload(commandDigest, commandRaw)
	fetcher := outkit.NewDirectoryFetcher()
	action := &remoteexecution.Action{
		CommandDigest:   commandDigest.GetProto(),
		InputRootDigest: fetcher.AddInputRoot(df, cs.InputRoot, cas),
		Timeout:         durationpb.New(60e9),
	}
	actionRaw, _ := proto.Marshal(action)
	actionDigestProto := outkit.DigestOf(df, actionRaw).GetProto()
	switch malform {
	case "no-action":
		action = nil
	case "invalid-timeout":
		action.Timeout = &durationpb.Duration{Seconds: 1, Nanos: -5}
	case "bad-action-digest":
		actionDigestProto = &remoteexecution.Digest{Hash: "not-a-hash", SizeBytes: 3}
	case "bad-input-root-digest":
		action.InputRootDigest = &remoteexecution.Digest{Hash: "1234", SizeBytes: 1}
	case "bad-command-digest":
		action.CommandDigest = &remoteexecution.Digest{Hash: action.CommandDigest.Hash, SizeBytes: -7}
	case "command-not-in-cas":
		action.CommandDigest = outkit.ProtoDigest(df.GetEnumValue(), []byte("a command nobody uploaded"))
	}
	if malform != "" {
		extra["request_defect"] = malform
	}

	clk := vclock.New(1_700_000_000)
	// Lingering writers (virtual build directory, clean runs). The local
	// executor takes maximumWritableFileUploadDelay (one minute) from clk,
	// which only moves when the harness says so: the delay never expires
	// unless a writer that never closes makes the harness advance clk.
	var sr *stragglerRun
	if cs.Stragglers != nil && useVirtual && faultAt == 0 && malform == "" {
		sr = newStragglerRun(cs, func() { clk.Advance(2*time.Minute, nil) })
		plan.OnOp = sr.onOp
		extra["stragglers"] = cs.Stragglers.describe()
	}
	var seenWD string
	runner := &outkit.Runner{OnRun: func(ctx context.Context, req *runner_pb.RunRequest) (*runner_pb.RunResponse, error) {
		seenWD = req.WorkingDirectory
		if useVirtual {
			root, err := stack.Virtual.Lookup(req.InputRootDirectory)
			if err != nil {
				panic(err)
			}
			before, err := outkit.SnapshotVirtual(root)
			if err != nil {
				panic(err)
			}
			checkPreRun(cs, before, &f)
			for _, loc := range cs.Removals {
				if err := outkit.RemoveVirtual(root, loc); err != nil {
					panic(fmt.Sprintf("harness: remove %v: %v", loc, err))
				}
			}
			if sr != nil {
				if err := sr.materialize(root, "./"+strings.TrimPrefix(req.InputRootDirectory, "./")+"/"); err != nil {
					panic(fmt.Sprintf("harness: materialise produced hierarchy: %v", err))
				}
			} else if err := outkit.MaterializeVirtual(root, cs.Final); err != nil {
				panic(fmt.Sprintf("harness: materialise produced hierarchy: %v", err))
			}
			// stdout and stderr live next to the input root.
			buildDirectory, err := stack.Virtual.Lookup(filepath.Dir(req.StdoutPath))
			if err != nil {
				panic(err)
			}
			logs := outkit.NewDir()
			logs.Children[filepath.Base(req.StdoutPath)] = &outkit.Node{Kind: outkit.KindFile}
			logs.Children[filepath.Base(req.StderrPath)] = &outkit.Node{Kind: outkit.KindFile}
			if err := outkit.MaterializeVirtual(buildDirectory, logs); err != nil {
				panic(err)
			}
			if malform == "runner-error" {
				return nil, status.Error(codes.Internal, "verif: runner crashed after producing the outputs")
			}
			return &runner_pb.RunResponse{}, nil
		}
		abs := filepath.Join(buildRoot, req.InputRootDirectory)
		before, err := outkit.Snapshot(abs)
		if err != nil {
			panic(err)
		}
		checkPreRun(cs, before, &f)
		for _, loc := range cs.Removals {
			if err := os.RemoveAll(filepath.Join(append([]string{abs}, loc...)...)); err != nil {
				panic(err)
			}
		}
		if err := outkit.Materialize(abs, cs.Final); err != nil {
			panic(fmt.Sprintf("harness: materialise produced hierarchy: %v", err))
		}
		for _, p := range []string{req.StdoutPath, req.StderrPath} {
			if err := os.WriteFile(filepath.Join(buildRoot, p), nil, 0o644); err != nil {
				panic(err)
			}
		}
		if malform == "runner-error" {
			return nil, status.Error(codes.Internal, "verif: runner crashed after producing the outputs")
		}
		return &runner_pb.RunResponse{}, nil
	}}
	var err error
	stack, err = outkit.NewStack(outkit.StackConfig{
		BuildRoot: buildRoot, Plan: plan, CAS: cas, AC: ac, BatchSize: 100, PutConcurrency: 2,
		Runner: runner, Clock: clk, Fetcher: fetcher, ForceTrees: cs.ForceTrees, WorkerName: "c10",
		Virtual: useVirtual, DirectoryFaults: true,
	})
	if err != nil {
		panic(err)
	}
	defer stack.Close()
	updates := make(chan *remoteworker.CurrentState_Executing, 16)
	resp := stack.Executor.Execute(context.Background(), stack.FilePool(), nil, df, &remoteworker.DesiredState_Executing{
		ActionDigest: actionDigestProto, Action: action,
	}, updates)
	st := status.FromProto(resp.Status)
	extra["response_status"] = st.Code().String() + ": " + st.Message()
	if sr != nil {
		sr.settle(cs, driver, counters)
		if cs.Stragglers.NeverCloses {
			// The delay expired: the files are judged as they were
			// at upload time.
			judged := *cs
			judged.Final = sr.atReturn
			cs = &judged
		}
	}

	if malform != "" && malform != "runner-error" {
		// The request itself is unusable: nothing may run or be reported.
		cs.Situations["malformed-request-refused"] = true
		if runner.Calls.Load() > 0 {
			f.add("malformed-request command-ran", "the command ran for a request with defect %q", malform)
		}
		if st.Code() == codes.OK {
			f.add("malformed-request ok-response", "OK response for a request with defect %q", malform)
		}
		if n := len(resp.Result.GetOutputFiles()) + len(resp.Result.GetOutputDirectories()) + len(resp.Result.GetOutputSymlinks()); n > 0 {
			f.add("outputs-reported although-command-did-not-run", "%d outputs reported for a request with defect %q", n, malform)
		}
		if ac.Len() > 0 {
			f.add("malformed-request cached", "AC entry for a request with defect %q", malform)
		}
		return
	}
	if len(cs.Invalid) > 0 {
		if runner.Calls.Load() > 0 {
			f.add("invalid-path accepted", "the command ran although its paths %q are absolute or leave the input root", cs.Invalid)
		} else if st.Code() == codes.OK {
			f.add("invalid-path accepted", "OK response for a command whose paths %q are absolute or leave the input root", cs.Invalid)
		} else {
			counters["rejections-observed"]++
		}
		if n := len(resp.Result.GetOutputFiles()) + len(resp.Result.GetOutputDirectories()) + len(resp.Result.GetOutputSymlinks()); n > 0 {
			f.add("invalid-path outputs-reported", "%d outputs reported for a rejected command", n)
		}
		return
	}
	trig, _ := plan.Triggered()
	if runner.Calls.Load() == 0 && trig && st.Code() != codes.OK {
		// Setting up the action failed and the failure was reported: the
		// command did not run, nothing may be listed.
		counters["faulted-runs-stopped-before-the-action"]++
		cs.Situations["fault-before-the-command-ran"] = true
		if n := len(resp.Result.GetOutputFiles()) + len(resp.Result.GetOutputDirectories()) + len(resp.Result.GetOutputSymlinks()); n > 0 {
			f.add("outputs-reported although-command-did-not-run", "%d outputs reported although the command never ran", n)
		}
		return
	}
	if runner.Calls.Load() != 1 {
		f.add("valid-path rejected", "the runner was invoked %d times; response %s: %s", runner.Calls.Load(), st.Code(), st.Message())
		return
	}
	if seenWD != cs.WorkingDirectory {
		f.add("working-directory altered", "runner received working directory %q, declared %q", seenWD, cs.WorkingDirectory)
	}
	exp := cs.expected(df.GetEnumValue())
	if malform == "runner-error" {
		cs.Situations["runner-failed-after-producing-outputs"] = true
		if st.Code() == codes.OK {
			f.add("runner-error not-reported", "OK response although the runner failed")
		}
		if ac.Len() > 0 {
			f.add("runner-error cached", "AC entry although the runner failed")
		}
		checkListed(cs, df, resp.Result, cas, &f)
		return
	}
	if st.Code() != codes.OK {
		switch {
		case trig:
			counters["faulted-uploads-reporting-an-error"]++
			cs.Situations["fault-after-the-command-ran"] = true
			checkListed(cs, df, resp.Result, cas, &f)
			return
		case len(exp.SpecialAt) > 0:
			counters["special-file-errors-observed"]++
		case cs.ParentReplaced == "file":
			counters["parent-replaced-errors-observed"]++
		case sr != nil && sr.expired.Load():
			// A writer outlived the delay: an error is acceptable.
			counters["straggler-delay-expired-errors-observed"]++
			checkListed(cs, df, resp.Result, cas, &f)
			return
		default:
			f.add("upload-outputs unexpected-error", "response %s: %s although every declared location holds a file, directory, symlink or nothing", st.Code(), st.Message())
		}
		// A failed response has its digests pruned by the flushing
		// layer only when the flush failed; here the flush succeeded,
		// so the outputs are still listed and can be compared.
	} else if trig {
		cs.Situations["fault-swallowed-result-still-checked-exactly"] = true
	}
	// OK status (or an error that is the action's own doing): exact.
	checkResult(cs, df, resp.Result, cas, &f, counters)
	if st.Code() == codes.OK && ac.Len() != 1 {
		counters["ok-responses-not-cached"]++
	}
	return
}

// --- entry point ------------------------------------------------------------------

// One in stragglerOneInDirect direct/virtual cases and one in
// stragglerOneInExecutor executor/virtual cases (the latter are three times
// rarer) are candidates for lingering writers; those without a suitable
// output file stay as they are.
const (
	stragglerOneInDirect   = 4
	stragglerOneInExecutor = 2
)

func TestCheck(t *testing.T) {
	r := ev.Start("C10")
	defer r.Finish()
	r.SetRule("generated Commands (working directory and 0-6 output paths built from name/./../empty components with duplicates, aliases, nesting, trailing separators, absolute/escaping/NUL forms; TREE_ONLY / DIRECTORY_ONLY / TREE_AND_DIRECTORY; forced trees) x generated produced hierarchies (file, executable, symlink, FIFO, missing, empty/random/deep/wide directories with repeated identical subdirectories, undeclared junk, input files); drivers: direct over naive directory (5 digest functions), direct over virtual directory, LocalBuildExecutor stack (native and virtual build directory) with snapshotting fake runner. Oracle: independent lexical normaliser + model walker + protowire Tree decoder. A case is non-trivial when it hits a listed situation; distinct = distinct (command, hierarchy, driver) hashes")
	r.Assume("declared output paths are resolved lexically against the working directory (REv2: relative, '/' separated); symlink targets are compared up to redundant separators and '.' components")
	r.Assume("a special file at a declared location may or may not fail the upload, but must not be listed; special files inside an output directory are omitted from its Tree")
	r.Assume("output_files/output_directories of the Command are ignored when output_paths is used (only output_paths is implemented by this snapshot's NewOutputHierarchy)")
	r.Assume("the action never replaces a parent directory of a declared output by a symlink (hostile in-root redirection is not generated); it may delete such a parent or put a regular file in its place, which may (file) or may not fail the upload")
	r.Assume("lingering writers (virtual build directory, clean runs, a generated minority): the fake runner creates one or two output files (a declared file, a file inside a declared directory) through VirtualOpenChild with write access, writes a first version and returns with the descriptor open; a harness goroutine turns it into the model's contents (append, overwrite, both, truncate) and closes it once the upload of that file was seen returning, or 100 ms of real time after the upload reached the file, or when the worker code is done. The result must describe the contents after the close (the model); the real-time delay only affects reach, not the verdict, since the writable file upload delay cannot expire by itself (virtual clock / harness-owned channel). Writers that never close: the harness makes the delay expire when the upload reaches the file; then an error, or exactly the contents at upload time, are accepted")
	r.Assume("fault enumeration: for a fixed subset of cases each operation of the clean run (build directory calls, file open/read, CAS FindMissing/Put) fails once with a non-ENOENT error; oracle: no error reported => parents exact and result exact; error reported => only declared paths listed and listed Trees structurally well formed")
	for _, s := range []string{
		"same-string-declared-twice", "aliasing-strings-for-one-location", "nested-declared-outputs",
		"output-resolves-to-root", "identical-subdirectories-in-tree", "escaping-or-absolute-output-path",
		"escaping-or-absolute-working-directory", "declared-output-missing", "special-file-at-output-path",
		"special-file-inside-output-directory", "output-is-symlink", "deep-directory", "wide-directory",
		"tree-with-children-checked", "directory-messages-checked", "tree-depth-10-or-more",
		"driver:direct/naive", "driver:direct/virtual", "driver:executor/naive", "driver:executor/virtual",
		"parent-directory-replaced-by-file", "parent-directory-removed-by-action",
		"driver-with-faults:direct/naive", "driver-with-faults:direct/virtual",
		"driver-with-faults:executor/naive", "driver-with-faults:executor/virtual",
		"fault:dir-Mkdir", "fault:dir-EnterParentPopulatableDirectory", "fault:dir-EnterUploadableDirectory",
		"fault:dir-Lstat", "fault:dir-ReadDir", "fault:dir-Readlink", "fault:dir-UploadFile",
		"fault:dir-EnterBuildDirectory", "fault:dir-MergeDirectoryContents", "fault:dir-RemoveAll",
		"fault:file-OpenRead", "fault:file-ReadAt", "fault:file-Len", "fault:cas-Put", "fault:cas-FindMissing",
		"fault-before-the-command-ran", "fault-after-the-command-ran",
		"malformed-request-refused", "runner-failed-after-producing-outputs",
		"straggler:output-file-open-for-writing-at-upload", "straggler:file-inside-output-directory",
		"straggler:writer-closed-within-delay", "straggler:delay-expired-writer-still-open",
		"straggler:driver-direct/virtual", "straggler:driver-executor/virtual",
	} {
		if r.ReplayFile() == "" {
			r.Floor(s, 10)
		}
	}
	tmp, err := os.MkdirTemp("", "verif-c10-")
	if err != nil {
		t.Fatal(err)
	}
	defer os.RemoveAll(tmp)
	h := &harness{r: r, tmp: tmp}

	n := r.Pick(1400, 16000)
	const workers = 4
	const maxFaultPositions = 12
	first := 0
	if rf := r.ReplayFile(); rf != "" {
		// Re-run exactly the recorded case.
		var doc struct {
			Witness struct {
				Case struct {
					Index int `json:"index"`
				} `json:"case"`
			} `json:"witness"`
		}
		raw, err := os.ReadFile(rf)
		if err == nil {
			err = json.Unmarshal(raw, &doc)
		}
		if err != nil {
			r.Inconclusive("cannot use replay file: %v", err)
			return
		}
		first, n = doc.Witness.Case.Index, doc.Witness.Case.Index+1
	}
	outkit.ParallelFor(n-first, workers, func(k int) {
		i := first + k
		rng := r.Rand(31, uint64(i))
		driver := "direct/naive"
		switch i % 10 {
		case 3, 6, 9:
			driver = "direct/virtual"
		case 4, 8:
			driver = "executor/naive"
		case 7:
			driver = "executor/virtual"
		}
		cs := genCase(rng, i, true)
		// A minority of the virtual cases has output files whose writer is
		// still around when the runner returns. Drawn from a PRNG stream
		// of its own, so that the commands and hierarchies are the ones
		// generated without this.
		if srng := r.Rand(37, uint64(i)); (driver == "direct/virtual" && srng.IntN(stragglerOneInDirect) == 0) || (driver == "executor/virtual" && srng.IntN(stragglerOneInExecutor) == 0) {
			cs.Stragglers = genStragglers(srng, cs)
		}
		r.Case("case %d driver=%s wd=%q outputs=%q format=%s stragglers=%s", i, driver, cs.WorkingDirectory, cs.OutputPaths, cs.Format, cs.Stragglers.describe())
		df := digestFunctions[i%len(digestFunctions)]
		run := func(faultAt int) runInfo {
			switch driver {
			case "direct/naive":
				return h.runDirect(cs, naiveBackend{}, df, faultAt)
			case "direct/virtual":
				return h.runDirect(cs, virtualBackend{}, df, faultAt)
			case "executor/naive":
				return h.runExecutor(cs, false, faultAt, "")
			default:
				return h.runExecutor(cs, true, faultAt, "")
			}
		}
		base := run(0)
		r.Situation("driver:" + driver)
		// Fault enumeration: for a fixed subset of the cases every
		// operation the worker code performed in the clean run (directory
		// calls, file opens/reads, CAS calls) fails once.
		enumerate := false
		switch driver {
		case "direct/naive":
			enumerate = i%40 == 0
		case "direct/virtual":
			enumerate = i%40 == 3 || i%40 == 19
		case "executor/naive":
			enumerate = i%50 == 4
		case "executor/virtual":
			enumerate = i%50 == 7
		}
		if enumerate && len(cs.Invalid) == 0 && base.Counted > 0 {
			// One position of every kind of operation, the rest
			// drawn by the PRNG; big hierarchies get fewer positions.
			limit := maxFaultPositions
			if base.Counted > 150 {
				limit = maxFaultPositions / 2
			}
			byOp := map[string][]int{}
			var opNames []string
			for _, c := range base.Calls {
				if c.Seq == 0 {
					continue
				}
				op := c.Store + "-" + c.Op
				if byOp[op] == nil {
					opNames = append(opNames, op)
				}
				byOp[op] = append(byOp[op], c.Seq)
			}
			sort.Strings(opNames)
			var positions, common []int
			for _, op := range opNames {
				l := byOp[op]
				rng.Shuffle(len(l), func(a, b int) { l[a], l[b] = l[b], l[a] })
				for j, k := range l {
					if j < 1 {
						positions = append(positions, k)
					} else {
						common = append(common, k)
					}
				}
			}
			sort.Ints(common)
			rng.Shuffle(len(common), func(a, b int) { common[a], common[b] = common[b], common[a] })
			for _, k := range common {
				if len(positions) >= limit {
					break
				}
				positions = append(positions, k)
			}
			sort.Ints(positions)
			for _, k := range positions {
				r.Case("case %d driver=%s fault at operation %d/%d", i, driver, k, base.Counted)
				info := run(k)
				if info.Triggered {
					r.Situation(faultSituation(info.Hit))
					r.Situation("driver-with-faults:" + driver)
					r.Hash(ev.HashOf(driver, i, "fault", info.Hit.Store, info.Hit.Op, k), true)
				}
			}
			r.Count("fault-enumerated-cases", 1)
		}
		// Unusable requests and a runner that fails after producing the
		// outputs, on a fixed subset of the executor cases.
		if (driver == "executor/naive" || driver == "executor/virtual") && i%50 < 10 {
			for _, m := range malformedRequests {
				r.Case("case %d driver=%s request defect %s", i, driver, m)
				h.runExecutor(cs, driver == "executor/virtual", 0, m)
				r.Hash(ev.HashOf(driver, i, "defect", m), true)
			}
		}
		names := make([]string, 0, len(cs.Situations))
		for s := range cs.Situations {
			names = append(names, s)
		}
		sort.Strings(names)
		for _, s := range names {
			r.Situation(s)
		}
		r.Hash(ev.HashOf(driver, cs.WorkingDirectory, cs.OutputPaths, cs.Format, cs.ForceTrees, cs.Final.Describe(), cs.Stragglers.describe()), len(names) > 0)
		if i < 3 {
			r.Sample(map[string]any{"driver": driver, "case": cs.describe(), "situations": names})
		}
	})
}
