package c20

// The per-byte ownership reference model shared by all three layers.
//
// Byte offsets are uint64. Every range used by the workloads has both of its
// end points in a small set of boundaries ("bounds"), so the byte space can be
// compressed into "cells": the half-open intervals between two consecutive
// boundaries. A cell is always held uniformly (either all of its bytes or
// none), so owner x cell -> {none, exclusive, shared} is an exact per-byte
// model.
//
// Ranges are half open [start, end) with end <= 2^64-1. An NFS range that
// extends to end-of-file is represented with end = 2^64-1: a byte with offset
// 2^64-1 cannot exist, because file sizes are 64-bit unsigned integers.

import (
	"fmt"
	"math"
	"math/bits"
	"math/rand/v2"
	"strings"
)

const maxU64 = uint64(math.MaxUint64)

// Lock types; numerically equal to virtual.ByteRangeLockType.
const (
	tNone   uint8 = 0
	tExcl   uint8 = 1
	tShared uint8 = 2
)

func typeName(t uint8) string {
	switch t {
	case tNone:
		return "unlocked"
	case tExcl:
		return "exclusive"
	case tShared:
		return "shared"
	}
	return fmt.Sprintf("type%d", t)
}

// bounds are the permitted range end points: 0..12 and 2^64-4..2^64-1.
var bounds = func() []uint64 {
	var b []uint64
	for i := uint64(0); i <= 12; i++ {
		b = append(b, i)
	}
	for i := uint64(3); ; i-- {
		b = append(b, maxU64-i)
		if i == 0 {
			break
		}
	}
	return b
}()

// nCells is the number of cells; cell i is [bounds[i], bounds[i+1]).
var nCells = len(bounds) - 1

const maxCells = 16

// firstHighBound is the index in bounds of 2^64-4.
const firstHighBound = 13

// boundIndex returns the index of v in bounds, or -1.
func boundIndex(v uint64) int {
	for i, b := range bounds {
		if b == v {
			return i
		}
	}
	return -1
}

// rng is a half-open range expressed in bound indices: cells [ci, cj).
type cellRange struct{ ci, cj int }

func (r cellRange) start() uint64 { return bounds[r.ci] }
func (r cellRange) end() uint64   { return bounds[r.cj] }
func (r cellRange) String() string {
	return fmt.Sprintf("[%s,%s)", fmtOff(r.start()), fmtOff(r.end()))
}

func fmtOff(v uint64) string {
	if v > maxU64-16 {
		return fmt.Sprintf("2^64-%d", maxU64-v+1)
	}
	return fmt.Sprintf("%d", v)
}

// fileModel is the ownership map of one file: owner -> cell -> type.
type fileModel struct {
	owners [][maxCells]uint8
}

func newFileModel(nOwners int) *fileModel {
	return &fileModel{owners: make([][maxCells]uint8, nOwners)}
}

func (m *fileModel) grow(owner int) {
	for len(m.owners) <= owner {
		m.owners = append(m.owners, [maxCells]uint8{})
	}
}

// conflict tells whether a request by owner (may be -1 for "nobody") for
// cells r with type t conflicts with a lock held by another owner. It
// returns the set of conflicting (owner, cell) pairs' owners.
func (m *fileModel) conflict(owner int, r cellRange, t uint8) bool {
	for o := range m.owners {
		if o == owner {
			continue
		}
		for c := r.ci; c < r.cj; c++ {
			if h := m.owners[o][c]; h != tNone && (h == tExcl || t == tExcl) {
				return true
			}
		}
	}
	return false
}

// set assigns type t (tNone unlocks) to cells r of owner.
func (m *fileModel) set(owner int, r cellRange, t uint8) {
	m.grow(owner)
	for c := r.ci; c < r.cj; c++ {
		m.owners[owner][c] = t
	}
}

// clearOwner releases every cell of owner.
func (m *fileModel) clearOwner(owner int) {
	if owner < len(m.owners) {
		m.owners[owner] = [maxCells]uint8{}
	}
}

// entries is the canonical number of table entries of owner: maximal runs
// of adjacent cells with the same non-none type.
func (m *fileModel) entries(owner int) int {
	if owner >= len(m.owners) {
		return 0
	}
	n := 0
	prev := tNone
	for c := 0; c < nCells; c++ {
		h := m.owners[owner][c]
		if h != tNone && h != prev {
			n++
		}
		prev = h
	}
	return n
}

func (m *fileModel) totalEntries() int {
	n := 0
	for o := range m.owners {
		n += m.entries(o)
	}
	return n
}

func (m *fileModel) holdsAny(owner int) bool {
	if owner >= len(m.owners) {
		return false
	}
	for c := 0; c < nCells; c++ {
		if m.owners[owner][c] != tNone {
			return true
		}
	}
	return false
}

// invariant checks "no byte exclusive for one owner and held by another".
func (m *fileModel) invariant() string {
	for c := 0; c < nCells; c++ {
		excl, any := -1, 0
		for o := range m.owners {
			if m.owners[o][c] != tNone {
				any++
			}
			if m.owners[o][c] == tExcl {
				excl = o
			}
		}
		if excl >= 0 && any > 1 {
			return fmt.Sprintf("cell %d [%s,%s) exclusive for owner %d and held by %d owners", c, fmtOff(bounds[c]), fmtOff(bounds[c+1]), excl, any)
		}
	}
	return ""
}

func (m *fileModel) String() string {
	var sb strings.Builder
	for o := range m.owners {
		fmt.Fprintf(&sb, "o%d:", o)
		for c := 0; c < nCells; c++ {
			sb.WriteByte(".XS"[m.owners[o][c]])
		}
		sb.WriteByte(' ')
	}
	return sb.String()
}

// checkReported validates a conflicting lock reported by the real code for
// a request (reqOwner, r, t). It returns "" if the reported lock
// (dOwner, [dStart,dEnd), dType) is an actually held, conflicting, overlapping
// maximal run of another owner, and otherwise the name of the rule broken
// plus a description.
func (m *fileModel) checkReported(reqOwner int, r cellRange, t uint8, dOwner int, dStart, dEnd uint64, dType uint8) (rule, detail string) {
	if dOwner < 0 || dOwner >= len(m.owners) {
		return "reported-unknown-owner", "reported owner is not an owner that holds anything"
	}
	if dOwner == reqOwner {
		return "reported-own-lock", "request is reported to conflict with a lock of the requesting owner itself"
	}
	si, ei := boundIndex(dStart), boundIndex(dEnd)
	if si < 0 || ei < 0 || si >= ei {
		return "reported-not-held", fmt.Sprintf("reported range [%s,%s) is not a held range", fmtOff(dStart), fmtOff(dEnd))
	}
	if dType != tExcl && dType != tShared {
		return "reported-not-held", fmt.Sprintf("reported type %d", dType)
	}
	for c := si; c < ei; c++ {
		if m.owners[dOwner][c] != dType {
			return "reported-not-held", fmt.Sprintf("owner %d does not hold [%s,%s) as %s (cell %d is %s)", dOwner, fmtOff(dStart), fmtOff(dEnd), typeName(dType), c, typeName(m.owners[dOwner][c]))
		}
	}
	if ei <= r.ci || si >= r.cj {
		return "reported-no-overlap", fmt.Sprintf("reported [%s,%s) does not overlap request %v", fmtOff(dStart), fmtOff(dEnd), r)
	}
	if dType != tExcl && t != tExcl {
		return "reported-no-conflict", "reported lock and request are both shared"
	}
	if si > 0 && m.owners[dOwner][si-1] == dType || ei < nCells && m.owners[dOwner][ei] == dType {
		return "reported-not-maximal", fmt.Sprintf("reported [%s,%s) is only part of a longer run of owner %d", fmtOff(dStart), fmtOff(dEnd), dOwner)
	}
	return "", ""
}

// ---- NFS (offset, length) conversion, RFC 7530 section 16.10.4 ------------

// convertOffsetLength is the harness' own reading of the RFC: length zero is
// invalid; all ones means "to end of file"; otherwise offset+length must not
// exceed 2^64-1.
func convertOffsetLength(offset, length uint64) (start, end uint64, ok bool) {
	if length == 0 {
		return 0, 0, false
	}
	if length == maxU64 {
		return offset, maxU64, true
	}
	sum, carry := bits.Add64(offset, length, 0)
	if carry != 0 {
		return 0, 0, false
	}
	return offset, sum, true
}

// ---- generators -----------------------------------------------------------

// genRange picks a range with both end points in bounds. Short ranges in the
// low region dominate so that adjacency, nesting and overlap are frequent.
func genRange(rng *rand.Rand) cellRange {
	switch x := rng.IntN(100); {
	case x < 62:
		ci := rng.IntN(12)
		l := 1 + rng.IntN(4)
		if rng.IntN(4) == 0 {
			l = 1 + rng.IntN(12)
		}
		cj := ci + l
		if cj > 12 {
			cj = 12
		}
		return cellRange{ci, cj}
	case x < 76:
		// Entirely inside the high region.
		ci := firstHighBound + rng.IntN(3)
		cj := ci + 1 + rng.IntN(nCells-ci)
		return cellRange{ci, cj}
	case x < 92:
		// From the low region into the high region.
		ci := rng.IntN(13)
		cj := firstHighBound + rng.IntN(4)
		if rng.IntN(2) == 0 {
			cj = nCells
		}
		return cellRange{ci, cj}
	default:
		return cellRange{0, nCells}
	}
}

func genType(rng *rand.Rand, pShared int) uint8 {
	if rng.IntN(100) < pShared {
		return tShared
	}
	return tExcl
}
