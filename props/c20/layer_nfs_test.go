package c20

// Layer (c): LOCK / LOCKT / LOCKU / CLOSE / RELEASE_LOCKOWNER / FREE_STATEID /
// lease expiry through the NFSv4.0 and NFSv4.1 programs (sharing one
// OpenedFilesPool), compared with the per-byte model keyed by
// (client, lock-owner bytes).

import (
	"fmt"
	"math/rand/v2"
	"runtime"
	"sort"
	"strings"
	"sync"
	"sync/atomic"

	nfsv4_xdr "github.com/buildbarn/go-xdr/pkg/protocols/nfsv4"

	"verif/internal/ev"
)

// Some cases ("2oo") let one lock-owner acquire locks on the *same* file
// through two different open-owners. Once that has happened in a case, the
// signatures of its violations carry the tag "nfs2oo" instead of "nfs", so
// that findings that need this (protocol-valid but unusual) client behaviour
// stay separable from all others.
func nfsCaseAllows2oo(idx int) bool      { return idx%4 == 3 }
func nfsConcRoundAllows2oo(idx int) bool { return (idx/3)%2 == 1 }

var (
	nfsOpenOwners = []string{"open-owner-A", "open-owner-B"}
	nfsLockOwners = []string{"lock-owner-0", "lock-owner-1"}
)

type nfsOp struct {
	Step     int    `json:"step"`
	Client   string `json:"client"`
	Op       string `json:"op"`
	Detail   string `json:"detail,omitempty"`
	Observed string `json:"observed"`
	Expected string `json:"expected"`
}

type nfsWitness struct {
	Layer   string     `json:"layer"`
	Seed    uint64     `json:"seed"`
	Case    int        `json:"case"`
	Mode    string     `json:"mode"`
	Clients []string   `json:"clients"`
	Ops     []nfsOp    `json:"ops"`
	Models  []string   `json:"models"`
	Owners  []string   `json:"owner_ids"`
	Problem string     `json:"problem"`
	Panic   *panicInfo `json:"panic,omitempty"`
}

// nfsHarness is the stepped driver's state.
type nfsHarness struct {
	r    *ev.Run
	idx  int
	mode string
	rng  *rand.Rand
	w    *nfsWorld

	clients []*nfsClient // slots; replaced after expiry
	probes  map[uint32]*nfsClient

	models     []*fileModel
	ownerIDs   map[string]int // "gen/lo" -> model owner id
	ownerNames []string
	wireOwner  map[string]int // "clientid/lo" -> model owner id

	ops        []nfsOp
	situations map[string]bool
	failed     bool
	probeCount int

	emptiedBy map[string]string // routeKey -> route through which the last lock went away
	zombies   []*nfsClient      // client objects whose server side state is gone
	retx      map[*nfsClient]*retransmit

	allow2oo bool // same-file use of one lock-owner through two open-owners may be generated
	seen2oo  bool // ... and has been granted at least once in this case
}

// tag is the layer part of violation signatures.
func (h *nfsHarness) tag() string {
	if h.seen2oo {
		return "nfs2oo"
	}
	return "nfs"
}

func (h *nfsHarness) ownerID(c *nfsClient, lo string) int {
	k := fmt.Sprintf("%d/%s", c.gen, lo)
	if id, ok := h.ownerIDs[k]; ok {
		return id
	}
	id := len(h.ownerNames)
	h.ownerIDs[k] = id
	h.ownerNames = append(h.ownerNames, fmt.Sprintf("%d=%s(v4.%d,gen%d)/%s", id, c.name, c.minor, c.gen, lo))
	h.wireOwner[fmt.Sprintf("%d/%s", c.clientID, lo)] = id
	for _, m := range h.models {
		m.grow(id)
	}
	return id
}

// ownerName renders a model owner id; -1 is a client that holds no locks.
func (h *nfsHarness) ownerName(id int) string {
	if id < 0 || id >= len(h.ownerNames) {
		return "a client that holds no locks"
	}
	return h.ownerNames[id]
}

func (h *nfsHarness) lookupWire(so *nfsv4_xdr.StateOwner4) int {
	if id, ok := h.wireOwner[fmt.Sprintf("%d/%s", so.Clientid, so.Owner)]; ok {
		return id
	}
	return -1
}

func (h *nfsHarness) modelStrings() []string {
	var s []string
	for _, m := range h.models {
		s = append(s, m.String())
	}
	return s
}

func (h *nfsHarness) fail(sig, problem string, pi *panicInfo) {
	h.failed = true
	var names []string
	for _, c := range h.clients {
		names = append(names, fmt.Sprintf("%s v4.%d gen%d", c.name, c.minor, c.gen))
	}
	ops := h.ops
	if len(ops) > 120 {
		ops = ops[len(ops)-120:]
	}
	h.r.Violation(sig, problem, nfsWitness{Layer: "nfs", Seed: h.r.Seed(), Case: h.idx, Mode: h.mode, Clients: names, Ops: ops, Models: h.modelStrings(), Owners: h.ownerNames, Problem: problem, Panic: pi})
}

// clientFailed reports a reply the client model could not digest: a server
// panic, or a status that a correct server cannot give to this valid
// request.
func (h *nfsHarness) clientFailed(c *nfsClient, ce *clientError) {
	if ce.Panic != nil {
		h.fail("C20 "+h.tag()+" panic op="+ce.Op+" minor="+fmt.Sprint(c.minor)+" msg="+sigWord(ce.Panic.Value), fmt.Sprintf("server panicked while executing %s for client %s: %s", ce.Op, c.name, ce.Panic.Value), ce.Panic)
		return
	}
	h.fail("C20 "+h.tag()+" unexpected-reply op="+ce.Op+" minor="+fmt.Sprint(c.minor), fmt.Sprintf("client %s: %s", c.name, ce.Error()), nil)
}

func sigWord(s string) string {
	s = strings.Map(func(r rune) rune {
		if r >= 'a' && r <= 'z' || r >= 'A' && r <= 'Z' {
			return r
		}
		return '_'
	}, s)
	if len(s) > 60 {
		s = s[:60]
	}
	return s
}

func (h *nfsHarness) log(step int, c *nfsClient, op, detail, observed, expected string) {
	h.ops = append(h.ops, nfsOp{Step: step, Client: c.name, Op: op, Detail: detail, Observed: observed, Expected: expected})
}

// checkDenied validates a LOCK4denied reply against the model.
func (h *nfsHarness) checkDenied(what string, c *nfsClient, f, owner int, cr cellRange, t uint8, d *nfsv4_xdr.Lock4denied) {
	ds, de, dt, ok := deniedToRange(d)
	if !ok {
		h.fail("C20 "+h.tag()+" reported-not-held op="+what+" minor="+fmt.Sprint(c.minor), fmt.Sprintf("%s: %s is not a well-formed lock description", what, deniedString(d)), nil)
		return
	}
	if rule, detail := h.models[f].checkReported(owner, cr, t, h.lookupWire(&d.Owner), ds, de, dt); rule != "" {
		h.fail("C20 "+h.tag()+" "+rule+" op="+what+" minor="+fmt.Sprint(c.minor), fmt.Sprintf("%s by %s on file %d %v %s: %s: %s; model %s", what, h.ownerName(owner), f, cr, typeName(t), deniedString(d), detail, h.models[f]), nil)
	}
}

func (h *nfsHarness) ensureOpen(c *nfsClient, oo string, f int) bool {
	if _, ok := c.opens[openKey{oo, f}]; ok {
		return true
	}
	if ce := c.open(oo, f); ce != nil {
		h.clientFailed(c, ce)
		return false
	}
	return true
}

// otherOpenOwnerHasLockState tells whether lock-owner lo already has lock
// state on file f through an open-owner different from oo.
func otherOpenOwnerHasLockState(c *nfsClient, oo string, f int, lo string) bool {
	for k := range c.locks {
		if k.lo == lo && k.file == f && k.oo != oo {
			return true
		}
	}
	return false
}

func runNFSCase(r *ev.Run, idx int) {
	rng := r.Rand(0xD, uint64(idx))
	mode := []string{"v4.0", "v4.1", "mixed"}[idx%3]
	nClients := 2 + rng.IntN(2)
	nFiles := 2
	steps := 12 + rng.IntN(29)
	pShared := []int{20, 50, 80}[rng.IntN(3)]
	r.Case("nfs case=%d mode=%s clients=%d steps=%d pShared=%d 2oo=%v", idx, mode, nClients, steps, pShared, nfsCaseAllows2oo(idx))

	h := &nfsHarness{r: r, idx: idx, mode: mode, rng: rng, w: newNFSWorld(rng, nFiles), probes: map[uint32]*nfsClient{}, allow2oo: nfsCaseAllows2oo(idx),
		ownerIDs: map[string]int{}, wireOwner: map[string]int{}, situations: map[string]bool{}, emptiedBy: map[string]string{}, retx: map[*nfsClient]*retransmit{}}
	for f := 0; f < nFiles; f++ {
		h.models = append(h.models, newFileModel(0))
	}
	minorOf := func(i int) uint32 {
		switch mode {
		case "v4.0":
			return 0
		case "v4.1":
			return 1
		}
		return uint32(i % 2)
	}
	for i := 0; i < nClients; i++ {
		c := h.w.newClient(minorOf(i), fmt.Sprintf("c%d", i), rng)
		if ce := c.register(); ce != nil {
			h.clientFailed(c, ce)
			return
		}
		h.clients = append(h.clients, c)
	}
	for _, c := range h.clients {
		if _, ok := h.probes[c.minor]; !ok {
			p := h.w.newClient(c.minor, fmt.Sprintf("probe%d", c.minor), rng)
			if ce := p.register(); ce != nil {
				h.clientFailed(p, ce)
				return
			}
			h.probes[c.minor] = p
		}
	}

	for step := 0; step < steps && !h.failed; step++ {
		h.w.clock.Advance(nfsStepDelay, nil)
		c := h.clients[rng.IntN(len(h.clients))]
		switch roll := rng.IntN(100); {
		case roll < 36:
			h.stepLock(step, c, pShared)
		case roll < 50:
			h.stepLockT(step, c, pShared)
		case roll < 63:
			h.stepLockU(step, c)
		case roll < 70:
			h.stepClose(step, c)
		case roll < 77:
			h.stepRelease(step, c)
		case roll < 84:
			h.stepExpire(step, c)
		case roll < 88:
			h.stepReopen(step, c)
		case roll < 93:
			// Version specific request forms.
			if c.minor == 0 {
				h.stepRetransmit(step, c, pShared)
			} else {
				h.stepCurrentStateID(step, c, pShared)
			}
		case roll < 96:
			if c.minor == 1 {
				h.stepSessionRecreate(step, c)
			} else {
				h.stepLockT(step, c, pShared)
			}
		case roll < 98:
			h.stepLifecycle(step, c, pShared)
		default:
			h.stepRebootDuringIO(step, c)
		}
		if h.failed {
			break
		}
		for f, m := range h.models {
			if inv := m.invariant(); inv != "" {
				h.fail("C20 "+h.tag()+" model-invariant", fmt.Sprintf("file %d: %s", f, inv), nil)
			}
		}
		h.probeAll(step, nil)
	}
	if !h.failed {
		h.staleBattery(steps)
	}

	r.Count("nfs_steps", len(h.ops))
	r.Count("nfs_probes", h.probeCount)
	n := 0
	for _, c := range h.clients {
		n += c.compounds
	}
	for _, p := range h.probes {
		n += p.compounds
	}
	r.Count("nfs_compounds", n)
	for s := range h.situations {
		r.Situation("nfs:" + s)
	}
	var digest []string
	for _, o := range h.ops {
		digest = append(digest, o.Client+"/"+o.Op+"/"+o.Detail+"/"+o.Observed)
	}
	r.Hash(ev.HashOf("nfs", mode, nClients, fmt.Sprint(digest)), len(h.situations) > 0)
	if len(h.situations) >= 5 && idx > 2 && wantLayerSample("nfs") {
		ops := h.ops
		if len(ops) > 60 {
			ops = ops[:60]
		}
		r.Sample(map[string]any{"layer": "nfs", "case": idx, "mode": mode, "ops": ops})
	}
}

// lockCtx is one LOCK request as the harness intends it.
type lockCtx struct {
	oo    string
	f     int
	lo    string
	nr    nfsRange
	lt    nfsv4_xdr.NfsLockType4
	t     uint8
	owner int

	forceNew          bool
	viaOtherSameFile  bool
	viaOtherOtherFile bool
	sameOOOtherFile   bool
	what              string // operation name used in logs and signatures
}

// prepareLock draws a LOCK request and makes sure the file is open.
func (h *nfsHarness) prepareLock(c *nfsClient, pShared int) (lockCtx, bool) {
	rng := h.rng
	lc := lockCtx{what: "LOCK"}
	lc.oo = nfsOpenOwners[rng.IntN(len(nfsOpenOwners))]
	lc.f = rng.IntN(len(h.models))
	lc.lo = nfsLockOwners[rng.IntN(len(nfsLockOwners))]
	if !h.allow2oo && otherOpenOwnerHasLockState(c, lc.oo, lc.f, lc.lo) {
		// Use the open-owner that lock-owner already uses on this file.
		for _, k := range sortedLockKeys(c) {
			if k.lo == lc.lo && k.file == lc.f {
				lc.oo = k.oo
			}
		}
	}
	if !h.ensureOpen(c, lc.oo, lc.f) {
		return lc, false
	}
	lc.nr = genNFSRange(rng)
	lc.lt = genNFSLockType(rng, pShared, false)
	lc.t, _ = nfsTypeOf(lc.lt)
	lc.owner = h.ownerID(c, lc.lo)
	_, haveState := c.locks[lockKey{lc.oo, lc.f, lc.lo}]
	lc.forceNew = c.minor == 1 && haveState && rng.IntN(4) == 0
	h.fillLockRelations(c, &lc)
	return lc, true
}

// fillLockRelations records how the lock-owner is already in use.
func (h *nfsHarness) fillLockRelations(c *nfsClient, lc *lockCtx) {
	lc.viaOtherSameFile = otherOpenOwnerHasLockState(c, lc.oo, lc.f, lc.lo)
	for k := range c.locks {
		if k.lo == lc.lo && k.file != lc.f {
			if k.oo != lc.oo {
				lc.viaOtherOtherFile = true
			} else {
				lc.sameOOOtherFile = true
			}
		}
	}
}

func (h *nfsHarness) stepLock(step int, c *nfsClient, pShared int) {
	lc, ok := h.prepareLock(c, pShared)
	if !ok {
		return
	}
	res, isNew, ce := c.lock(lc.oo, lc.f, lc.lo, lc.nr.Offset, lc.nr.Length, lc.lt, lc.forceNew)
	if ce != nil {
		h.log(step, c, lc.what, h.lockDetail(lc, isNew), ce.Error(), "")
		if ce.Panic != nil && isNew && lc.viaOtherSameFile {
			h.seen2oo = true
		}
		h.clientFailed(c, ce)
		return
	}
	if h.judgeLock(step, c, lc, isNew, res) && c.minor == 0 {
		h.rememberForRetransmit(c, lc, isNew, res)
	}
}

func (h *nfsHarness) lockDetail(lc lockCtx, isNew bool) string {
	return fmt.Sprintf("oo=%s file=%d lo=%s %v type=%d new=%v", lc.oo, lc.f, lc.lo, lc.nr, lc.lt, isNew)
}

// judgeLock compares the reply to a LOCK request with the model and, if the
// lock was granted, updates the model. It returns false if it reported a
// violation.
func (h *nfsHarness) judgeLock(step int, c *nfsClient, lc lockCtx, isNew bool, res nfsv4_xdr.Lock4res) bool {
	f, owner, nr, t := lc.f, lc.owner, lc.nr, lc.t
	m := h.models[f]
	detail := h.lockDetail(lc, isNew)
	observed := fmt.Sprintf("status=%d", res.GetStatus())
	if d, ok := res.(*nfsv4_xdr.Lock4res_NFS4ERR_DENIED); ok {
		observed = deniedString(&d.Denied)
	}
	if nr.Shape != "plain" {
		h.situations["conversion:"+nr.Shape] = true
	}
	minor := fmt.Sprint(c.minor)
	switch {
	case !nr.valid:
		h.log(step, c, lc.what, detail, observed, "NFS4ERR_INVAL")
		if res.GetStatus() != nfsv4_xdr.NFS4ERR_INVAL {
			h.fail("C20 "+h.tag()+" conversion-not-rejected op=LOCK shape="+nr.Shape+" minor="+minor, fmt.Sprintf("step %d: %s %s must fail with NFS4ERR_INVAL, observed %s", step, lc.what, detail, observed), nil)
			return false
		}
	case m.conflict(owner, nr.cr, t):
		h.log(step, c, lc.what, detail, observed, "NFS4ERR_DENIED")
		h.situations["denied"] = true
		d, isDenied := res.(*nfsv4_xdr.Lock4res_NFS4ERR_DENIED)
		if !isDenied {
			h.fail("C20 "+h.tag()+" lock-granted-despite-conflict minor="+minor, fmt.Sprintf("step %d: %s %s by %s conflicts with another owner, observed %s; model %s", step, lc.what, detail, h.ownerName(owner), observed, m), nil)
			return false
		}
		h.checkDenied("LOCK", c, f, owner, nr.cr, t, &d.Denied)
		return !h.failed
	default:
		if m.holdsAnyIn(owner, nr.cr) {
			h.situations["own-lock-does-not-block"] = true
		}
		if nr.cr.cj == nCells {
			h.situations["range-ending-at-max"] = true
		}
		classifySetSituations(m, owner, nr.cr, t, h.situations)
		h.log(step, c, lc.what, detail, observed, "NFS4_OK")
		if res.GetStatus() != nfsv4_xdr.NFS4_OK {
			sig := "C20 " + h.tag() + " lock-denied-without-conflict new=" + fmt.Sprint(isNew) + " minor=" + minor
			if d, ok := res.(*nfsv4_xdr.Lock4res_NFS4ERR_DENIED); ok && h.lookupWire(&d.Denied.Owner) == owner {
				sig = "C20 " + h.tag() + " owner-blocked-by-own-lock op=LOCK new=" + fmt.Sprint(isNew) + " minor=" + minor
			}
			h.fail(sig, fmt.Sprintf("step %d: %s %s by %s conflicts with nobody, observed %s; model %s", step, lc.what, detail, h.ownerName(owner), observed, m), nil)
			return false
		}
		if route, ok := h.emptiedBy[h.routeKey(c, lc.lo, f)]; ok {
			h.situations["relock-after:"+route] = true
			delete(h.emptiedBy, h.routeKey(c, lc.lo, f))
		}
		m.set(owner, nr.cr, t)
		if isNew {
			if lc.viaOtherSameFile {
				h.situations["same-lock-owner-via-two-open-owners:same-file"] = true
				h.seen2oo = true
			}
			if lc.viaOtherOtherFile {
				h.situations["same-lock-owner-via-two-open-owners:two-files"] = true
			}
			if lc.sameOOOtherFile {
				h.situations["same-lock-owner-on-two-files"] = true
			}
			if lc.forceNew {
				h.situations["open-to-lock-owner-form-repeated"] = true
			}
		}
	}
	return true
}

// routeKey names (client slot, lock-owner, file) across client
// re-registrations.
func (h *nfsHarness) routeKey(c *nfsClient, lo string, f int) string {
	return fmt.Sprintf("%s/%s/%d", c.name, lo, f)
}

// noteEmptied records through which route the last lock of a lock-owner on a
// file went away, so that a later LOCK by the same lock-owner is counted as a
// situation.
func (h *nfsHarness) noteEmptied(c *nfsClient, lo string, f int, heldBefore bool, route string) {
	owner := h.ownerID(c, lo)
	if heldBefore && !h.models[f].holdsAny(owner) {
		h.emptiedBy[h.routeKey(c, lo, f)] = route
		h.situations["last-lock-gone-by:"+route] = true
	}
}

func (h *nfsHarness) stepLockT(step int, c *nfsClient, pShared int) {
	rng := h.rng
	f := rng.IntN(len(h.models))
	los := append([]string{"lock-owner-never-used"}, nfsLockOwners...)
	lo := los[rng.IntN(len(los))]
	if rng.IntN(2) == 0 {
		lo = nfsLockOwners[rng.IntN(len(nfsLockOwners))]
	}
	nr := genNFSRange(rng)
	lt := genNFSLockType(rng, pShared, false)
	t, _ := nfsTypeOf(lt)
	owner := h.ownerID(c, lo)
	m := h.models[f]
	detail := fmt.Sprintf("file=%d lo=%s %v type=%d", f, lo, nr, lt)
	rs, ce := c.lockt(f, lo, []locktReq{{nr.Offset, nr.Length, lt}})
	if ce != nil {
		h.log(step, c, "LOCKT", detail, ce.Error(), "")
		h.clientFailed(c, ce)
		return
	}
	res := rs[0]
	observed := fmt.Sprintf("status=%d", res.GetStatus())
	if d, ok := res.(*nfsv4_xdr.Lockt4res_NFS4ERR_DENIED); ok {
		observed = deniedString(&d.Denied)
	}
	minor := fmt.Sprint(c.minor)
	if nr.valid {
		if m.holdsAnyIn(owner, nr.cr) {
			h.situations["lockt-by-owner-holding-locks"] = true
		} else if !m.holdsAny(owner) {
			h.situations["lockt-by-owner-without-locks"] = true
		}
	}
	switch {
	case !nr.valid:
		h.log(step, c, "LOCKT", detail, observed, "NFS4ERR_INVAL")
		if res.GetStatus() != nfsv4_xdr.NFS4ERR_INVAL {
			h.fail("C20 "+h.tag()+" conversion-not-rejected op=LOCKT shape="+nr.Shape+" minor="+minor, fmt.Sprintf("step %d: LOCKT %s must fail with NFS4ERR_INVAL, observed %s", step, detail, observed), nil)
		}
	case m.conflict(owner, nr.cr, t):
		h.log(step, c, "LOCKT", detail, observed, "NFS4ERR_DENIED")
		d, isDenied := res.(*nfsv4_xdr.Lockt4res_NFS4ERR_DENIED)
		if !isDenied {
			h.fail("C20 "+h.tag()+" test-missed-conflict minor="+minor, fmt.Sprintf("step %d: LOCKT %s by %s conflicts with another owner, observed %s; model %s", step, detail, h.ownerName(owner), observed, m), nil)
			return
		}
		h.checkDenied("LOCKT", c, f, owner, nr.cr, t, &d.Denied)
	default:
		h.log(step, c, "LOCKT", detail, observed, "NFS4_OK")
		if res.GetStatus() != nfsv4_xdr.NFS4_OK {
			sig := "C20 " + h.tag() + " test-spurious-conflict minor=" + minor
			if d, ok := res.(*nfsv4_xdr.Lockt4res_NFS4ERR_DENIED); ok && h.lookupWire(&d.Denied.Owner) == owner {
				sig = "C20 " + h.tag() + " owner-blocked-by-own-lock op=LOCKT minor=" + minor
			}
			h.fail(sig, fmt.Sprintf("step %d: LOCKT %s by %s conflicts with nobody (LOCK would be granted), observed %s; model %s", step, detail, h.ownerName(owner), observed, m), nil)
		}
	}
}

func sortedLockKeys(c *nfsClient) []lockKey {
	var ks []lockKey
	for k := range c.locks {
		ks = append(ks, k)
	}
	sort.Slice(ks, func(i, j int) bool {
		a, b := ks[i], ks[j]
		if a.oo != b.oo {
			return a.oo < b.oo
		}
		if a.file != b.file {
			return a.file < b.file
		}
		return a.lo < b.lo
	})
	return ks
}

func sortedOpenKeys(c *nfsClient) []openKey {
	var ks []openKey
	for k := range c.opens {
		ks = append(ks, k)
	}
	sort.Slice(ks, func(i, j int) bool {
		if ks[i].oo != ks[j].oo {
			return ks[i].oo < ks[j].oo
		}
		return ks[i].file < ks[j].file
	})
	return ks
}

func (h *nfsHarness) stepLockU(step int, c *nfsClient) {
	ks := sortedLockKeys(c)
	if len(ks) == 0 {
		h.stepLock(step, c, 50)
		return
	}
	k := ks[h.rng.IntN(len(ks))]
	nr := genNFSRange(h.rng)
	res, ce := c.locku(k.oo, k.file, k.lo, nr.Offset, nr.Length)
	if ce != nil {
		h.log(step, c, "LOCKU", fmt.Sprintf("oo=%s file=%d lo=%s %v", k.oo, k.file, k.lo, nr), ce.Error(), "")
		h.clientFailed(c, ce)
		return
	}
	if h.judgeLockU(step, c, k, nr, res, "LOCKU") && c.minor == 0 {
		h.rememberUnlockForRetransmit(c, k, nr, res)
	}
}

// judgeLockU compares the reply to a LOCKU request with the expectation
// (unlocking always succeeds for a valid range) and updates the model.
func (h *nfsHarness) judgeLockU(step int, c *nfsClient, k lockKey, nr nfsRange, res nfsv4_xdr.Locku4res, what string) bool {
	owner := h.ownerID(c, k.lo)
	m := h.models[k.file]
	detail := fmt.Sprintf("oo=%s file=%d lo=%s %v", k.oo, k.file, k.lo, nr)
	observed := fmt.Sprintf("status=%d", res.GetStatus())
	minor := fmt.Sprint(c.minor)
	if !nr.valid {
		h.log(step, c, what, detail, observed, "NFS4ERR_INVAL")
		if res.GetStatus() != nfsv4_xdr.NFS4ERR_INVAL {
			h.fail("C20 "+h.tag()+" conversion-not-rejected op=LOCKU shape="+nr.Shape+" minor="+minor, fmt.Sprintf("step %d: %s %s must fail with NFS4ERR_INVAL, observed %s", step, what, detail, observed), nil)
			return false
		}
		return true
	}
	h.log(step, c, what, detail, observed, "NFS4_OK")
	if res.GetStatus() != nfsv4_xdr.NFS4_OK {
		h.fail("C20 "+h.tag()+" unlock-failed minor="+minor, fmt.Sprintf("step %d: %s %s by %s: %s", step, what, detail, h.ownerName(owner), observed), nil)
		return false
	}
	classifySetSituations(m, owner, nr.cr, tNone, h.situations)
	held := m.holdsAny(owner)
	m.set(owner, nr.cr, tNone)
	h.noteEmptied(c, k.lo, k.file, held, "locku")
	return true
}

func (h *nfsHarness) stepClose(step int, c *nfsClient) {
	ks := sortedOpenKeys(c)
	if len(ks) == 0 {
		h.stepLock(step, c, 50)
		return
	}
	k := ks[h.rng.IntN(len(ks))]
	detail := fmt.Sprintf("oo=%s file=%d", k.oo, k.file)
	st, los, ce := c.close(k.oo, k.file)
	if ce != nil {
		h.log(step, c, "CLOSE", detail, ce.Error(), "")
		h.clientFailed(c, ce)
		return
	}
	sort.Strings(los)
	h.log(step, c, "CLOSE", detail+" lock-owners="+strings.Join(los, ","), fmt.Sprintf("status=%d", st), "NFS4_OK")
	if st != nfsv4_xdr.NFS4_OK {
		h.fail("C20 "+h.tag()+" close-failed minor="+fmt.Sprint(c.minor), fmt.Sprintf("step %d: CLOSE %s by %s: status %d", step, detail, c.name, st), nil)
		return
	}
	// The locks of the lock-owners that had lock state derived from this
	// open are released on this file; nothing else is.
	for _, lo := range los {
		owner := h.ownerID(c, lo)
		held := h.models[k.file].holdsAny(owner)
		if held {
			h.situations["close-with-locks-held"] = true
		}
		h.models[k.file].clearOwner(owner)
		h.noteEmptied(c, lo, k.file, held, "close")
	}
}

func (h *nfsHarness) stepRelease(step int, c *nfsClient) {
	minor := fmt.Sprint(c.minor)
	if c.minor == 0 {
		lo := nfsLockOwners[h.rng.IntN(len(nfsLockOwners))]
		owner := h.ownerID(c, lo)
		held := false
		for _, m := range h.models {
			held = held || m.holdsAny(owner)
		}
		st, ce := c.releaseLockOwner(lo)
		if ce != nil {
			h.log(step, c, "RELEASE_LOCKOWNER", lo, ce.Error(), "")
			h.clientFailed(c, ce)
			return
		}
		want := nfsv4_xdr.NFS4_OK
		if held {
			want = nfsv4_xdr.NFS4ERR_LOCKS_HELD
			h.situations["release-lockowner-with-locks-held"] = true
		} else {
			h.situations["release-lockowner-without-locks"] = true
		}
		h.log(step, c, "RELEASE_LOCKOWNER", lo, fmt.Sprintf("status=%d", st), fmt.Sprintf("status=%d", want))
		if st == nfsv4_xdr.NFS4_OK {
			for f := range h.models {
				if _, ok := h.emptiedBy[h.routeKey(c, lo, f)]; ok {
					h.emptiedBy[h.routeKey(c, lo, f)] = "release-lockowner"
					h.situations["last-lock-gone-by:release-lockowner"] = true
				}
			}
		}
		if st != want {
			h.fail("C20 "+h.tag()+" release-lockowner-status held="+fmt.Sprint(held), fmt.Sprintf("step %d: RELEASE_LOCKOWNER of %s (holds locks: %v) returned status %d, expected %d", step, h.ownerName(owner), held, st, want), nil)
		}
		return
	}
	ks := sortedLockKeys(c)
	if len(ks) == 0 {
		h.stepLock(step, c, 50)
		return
	}
	k := ks[h.rng.IntN(len(ks))]
	if h.rng.IntN(2) == 0 {
		// Prefer lock state whose last lock is gone already.
		for _, cand := range ks {
			if !h.models[cand.file].holdsAny(h.ownerID(c, cand.lo)) {
				k = cand
				break
			}
		}
	}
	owner := h.ownerID(c, k.lo)
	held := h.models[k.file].holdsAny(owner)
	detail := fmt.Sprintf("oo=%s file=%d lo=%s", k.oo, k.file, k.lo)
	st, ce := c.freeStateID(k)
	if ce != nil {
		h.log(step, c, "FREE_STATEID", detail, ce.Error(), "")
		if held {
			h.situations["free-stateid-with-locks-held"] = true
		}
		h.clientFailed(c, ce)
		return
	}
	want := nfsv4_xdr.NFS4_OK
	if held {
		want = nfsv4_xdr.NFS4ERR_LOCKS_HELD
		h.situations["free-stateid-with-locks-held"] = true
	} else {
		h.situations["free-stateid-without-locks"] = true
	}
	h.log(step, c, "FREE_STATEID", detail, fmt.Sprintf("status=%d", st), fmt.Sprintf("status=%d", want))
	if st == nfsv4_xdr.NFS4_OK {
		if _, ok := h.emptiedBy[h.routeKey(c, k.lo, k.file)]; ok {
			h.emptiedBy[h.routeKey(c, k.lo, k.file)] = "free-stateid"
			h.situations["last-lock-gone-by:free-stateid"] = true
		}
	}
	if st != want {
		h.fail("C20 "+h.tag()+" free-stateid-status held="+fmt.Sprint(held)+" minor="+minor, fmt.Sprintf("step %d: FREE_STATEID %s of %s (holds locks on that file: %v) returned status %d, expected %d", step, detail, h.ownerName(owner), held, st, want), nil)
	}
}

// stepExpire lets the lease of victim run out while every other client
// renews, then replaces it with a freshly registered client.
func (h *nfsHarness) stepExpire(step int, victim *nfsClient) {
	if h.rng.IntN(3) == 0 {
		h.stepReboot(step, victim)
		return
	}
	others := func() bool {
		all := []*nfsClient{}
		for _, c := range h.clients {
			if c != victim {
				all = append(all, c)
			}
		}
		for _, minor := range []uint32{0, 1} {
			if p, ok := h.probes[minor]; ok {
				all = append(all, p)
			}
		}
		for _, c := range all {
			if ce := c.renew(); ce != nil {
				h.clientFailed(c, ce)
				return false
			}
		}
		return true
	}
	h.w.clock.Advance(nfsStepDelay, nil)
	if !others() {
		return
	}
	h.w.clock.Advance(nfsLease, nil)
	// The renewals double as the "poke" that makes the servers notice.
	if !others() {
		return
	}
	held := h.clearClient(victim, "lease-expiry")
	if held {
		h.situations["lease-expiry-with-locks-held"] = true
	}
	h.zombies = append(h.zombies, victim)
	h.log(step, victim, "EXPIRE", "", "", "all locks of the client released, nothing else")
	for i, c := range h.clients {
		if c == victim {
			n := h.w.newClient(victim.minor, victim.name, h.rng)
			if ce := n.register(); ce != nil {
				h.clientFailed(n, ce)
				return
			}
			h.clients[i] = n
		}
	}
}

// clearClient removes every lock of client c from the model (its state was
// discarded by the server) and tells whether it held any.
func (h *nfsHarness) clearClient(c *nfsClient, route string) bool {
	heldAny := false
	for _, lo := range nfsLockOwners {
		owner := h.ownerID(c, lo)
		for f, m := range h.models {
			held := m.holdsAny(owner)
			heldAny = heldAny || held
			m.clearOwner(owner)
			h.noteEmptied(c, lo, f, held, route)
		}
	}
	return heldAny
}

// stepReboot lets victim register again under the same client name with a
// new verifier, as a rebooted client does. Confirming the new registration
// makes the server discard the state of the old one, including its locks.
func (h *nfsHarness) stepReboot(step int, victim *nfsClient) {
	n := h.w.newClient(victim.minor, victim.name, h.rng)
	n.longID = victim.longID
	if ce := n.register(); ce != nil {
		h.log(step, victim, "REBOOT", "", ce.Error(), "")
		h.clientFailed(n, ce)
		return
	}
	held := h.clearClient(victim, "client-reboot")
	if held {
		h.situations["client-reboot-with-locks-held"] = true
	}
	h.zombies = append(h.zombies, victim)
	h.log(step, victim, "REBOOT", "", "", "all locks of the old client instance released, nothing else")
	for i, c := range h.clients {
		if c == victim {
			h.clients[i] = n
		}
	}
}

// probeAll compares, for every file, byte cell and lock type, what LOCKT
// says with the model: by a client that never locks anything, and by every
// (client, lock-owner) that exists in the model.
func (h *nfsHarness) probeAll(step int, skip *nfsClient) {
	type prober struct {
		c     *nfsClient
		lo    string
		owner int
	}
	var ps []prober
	for _, minor := range []uint32{0, 1} {
		if p, ok := h.probes[minor]; ok {
			ps = append(ps, prober{p, "probe-owner", -1})
		}
	}
	for _, c := range h.clients {
		if c == skip {
			// This client has a request in flight.
			continue
		}
		for _, lo := range nfsLockOwners {
			if id, ok := h.ownerIDs[fmt.Sprintf("%d/%s", c.gen, lo)]; ok {
				ps = append(ps, prober{c, lo, id})
			}
		}
	}
	// An owner that holds nothing on a file must see exactly what the
	// lock-free probe client sees; to bound the cost such owners only
	// probe every second step.
	skipIdle := step%2 != 1
	var reqs []locktReq
	type cellType struct {
		c  int
		lt nfsv4_xdr.NfsLockType4
	}
	var cts []cellType
	for c := 0; c < nCells; c++ {
		for _, lt := range []nfsv4_xdr.NfsLockType4{nfsv4_xdr.WRITE_LT, nfsv4_xdr.READ_LT} {
			reqs = append(reqs, locktReq{bounds[c], bounds[c+1] - bounds[c], lt})
			cts = append(cts, cellType{c, lt})
		}
	}
	last := "setup"
	if len(h.ops) > 0 {
		o := h.ops[len(h.ops)-1]
		last = o.Op
	}
	for f := range h.models {
		for _, p := range ps {
			if skipIdle && p.owner >= 0 && !h.models[f].holdsAny(p.owner) {
				continue
			}
			rs, ce := p.c.lockt(f, p.lo, reqs)
			if ce != nil {
				h.clientFailed(p.c, ce)
				return
			}
			for i, res := range rs {
				h.probeCount++
				pr := cellRange{cts[i].c, cts[i].c + 1}
				pt, _ := nfsTypeOf(cts[i].lt)
				want := h.models[f].conflict(p.owner, pr, pt)
				d, isDenied := res.(*nfsv4_xdr.Lockt4res_NFS4ERR_DENIED)
				if isDenied != want || (!isDenied && res.GetStatus() != nfsv4_xdr.NFS4_OK) {
					who := "a client that holds no locks"
					sig := "C20 " + h.tag() + " probe-mismatch"
					if p.owner >= 0 {
						who = h.ownerName(p.owner)
						if isDenied && h.lookupWire(&d.Denied.Owner) == p.owner {
							sig = "C20 " + h.tag() + " owner-blocked-by-own-lock op=LOCKT-probe"
						}
					}
					h.fail(sig+" after="+last+" minor="+fmt.Sprint(p.c.minor), fmt.Sprintf("after step %d (%s): LOCKT of file %d byte cell %v as %s by %s gives status %d, model conflict=%v; model %s", step, last, f, pr, typeName(pt), who, res.GetStatus(), want, h.models[f]), nil)
					return
				}
				if isDenied {
					h.checkDenied("LOCKT-probe", p.c, f, p.owner, pr, pt, &d.Denied)
					if h.failed {
						return
					}
				}
			}
		}
	}
}

// ---- concurrent rounds -----------------------------------------------------

type nfsConcEvent struct {
	T0, T1 int64
	Client string
	Op     string
	Detail string
	Result string
}

func runNFSConcRound(r *ev.Run, idx int) {
	rng := r.Rand(0xE, uint64(idx))
	mode := []string{"mixed", "v4.0", "v4.1"}[idx%3]
	nClients := 2 + rng.IntN(3)
	nFiles := 2
	opsPerClient := 25 + rng.IntN(30)
	procs := []int{4, 16, 2}[idx%3]
	allow2oo := nfsConcRoundAllows2oo(idx)
	var seen2oo, tried2oo atomic.Bool
	r.Case("nfsconc round=%d mode=%s clients=%d ops=%d procs=%d 2oo=%v", idx, mode, nClients, opsPerClient, procs, allow2oo)
	prev := runtime.GOMAXPROCS(procs)
	defer runtime.GOMAXPROCS(prev)

	w := newNFSWorld(rng, nFiles)
	var clients []*nfsClient
	wire := map[string]int{}
	ownerNames := []string{}
	ownerOf := func(ci int, lo int) int { return ci*len(nfsLockOwners) + lo }
	for i := 0; i < nClients; i++ {
		minor := uint32(i % 2)
		if mode == "v4.0" {
			minor = 0
		} else if mode == "v4.1" {
			minor = 1
		}
		c := w.newClient(minor, fmt.Sprintf("c%d", i), rng)
		if ce := c.register(); ce != nil {
			r.Violation("C20 nfs conc unexpected-reply op="+ce.Op, ce.Error(), map[string]any{"round": idx, "seed": r.Seed(), "panic": ce.Panic})
			return
		}
		clients = append(clients, c)
		for li, lo := range nfsLockOwners {
			wire[fmt.Sprintf("%d/%s", c.clientID, lo)] = ownerOf(i, li)
			ownerNames = append(ownerNames, fmt.Sprintf("%d=%s(v4.%d)/%s", ownerOf(i, li), c.name, c.minor, lo))
		}
	}
	lookup := func(so *nfsv4_xdr.StateOwner4) int {
		if id, ok := wire[fmt.Sprintf("%d/%s", so.Clientid, so.Owner)]; ok {
			return id
		}
		return -1
	}

	mon := &concMonitor{}
	var mu sync.Mutex
	var events []nfsConcEvent
	var problems []concProblem
	var panicked *clientError
	var stop atomic.Bool
	addProblem := func(p concProblem) {
		mu.Lock()
		problems = append(problems, p)
		mu.Unlock()
	}
	logEvent := func(e nfsConcEvent) {
		mu.Lock()
		if len(events) < 4000 {
			events = append(events, e)
		}
		mu.Unlock()
	}
	clientBroke := func(c *nfsClient, ce *clientError) {
		stop.Store(true)
		mu.Lock()
		if ce.Panic != nil && panicked == nil {
			panicked = ce
		}
		if ce.Panic == nil {
			problems = append(problems, concProblem{"C20 nfs conc unexpected-reply op=" + ce.Op + " minor=" + fmt.Sprint(c.minor), fmt.Sprintf("client %s: %s", c.name, ce.Error())})
		}
		mu.Unlock()
	}

	start := make(chan struct{})
	var wg sync.WaitGroup
	for ci, c := range clients {
		wg.Add(1)
		go func(ci int, c *nfsClient) {
			defer wg.Done()
			grng := r.Rand(0xE, uint64(idx), uint64(ci))
			views := make([]*ownerView, len(nfsLockOwners))
			for li := range nfsLockOwners {
				views[li] = mon.newOwnerView(ownerOf(ci, li))
			}
			pShared := []int{30, 60}[grng.IntN(2)]
			<-start
			for i := 0; i < opsPerClient && !stop.Load(); i++ {
				f := grng.IntN(nFiles)
				li := grng.IntN(len(nfsLockOwners))
				lo := nfsLockOwners[li]
				// One open-owner per (lock-owner, file) unless the
				// mixed use is enabled.
				oo := nfsOpenOwners[(li+f)%2]
				if allow2oo && grng.IntN(3) == 0 {
					oo = nfsOpenOwners[grng.IntN(2)]
				}
				ccell := grng.IntN(6)
				cr := cellRange{ccell, ccell + 1 + grng.IntN(3)}
				if grng.IntN(12) == 0 {
					cr = cellRange{ccell, nCells}
				}
				off, length := cr.start(), cr.end()-cr.start()
				if cr.cj == nCells && grng.IntN(2) == 0 {
					length = maxU64
				}
				if grng.IntN(3) == 0 {
					runtime.Gosched()
				}
				switch roll := grng.IntN(100); {
				case roll < 45:
					if _, ok := c.opens[openKey{oo, f}]; !ok {
						if ce := c.open(oo, f); ce != nil {
							clientBroke(c, ce)
							return
						}
					}
					lt := genNFSLockType(grng, pShared, false)
					t, _ := nfsTypeOf(lt)
					viaOther := otherOpenOwnerHasLockState(c, oo, f, lo)
					if _, have := c.locks[lockKey{oo, f, lo}]; viaOther && !have {
						tried2oo.Store(true)
					}
					t0 := mon.now()
					res, isNew, ce := c.lock(oo, f, lo, off, length, lt, false)
					t1 := mon.now()
					if ce != nil {
						if ce.Panic != nil && isNew && viaOther {
							seen2oo.Store(true)
						}
						clientBroke(c, ce)
						return
					}
					e := nfsConcEvent{T0: t0, T1: t1, Client: c.name, Op: "LOCK", Detail: fmt.Sprintf("oo=%s file=%d lo=%s %v %s new=%v", oo, f, lo, cr, typeName(t), isNew)}
					if d, ok := res.(*nfsv4_xdr.Lock4res_NFS4ERR_DENIED); ok {
						ds, de, dt, _ := deniedToRange(&d.Denied)
						mon.denied(concDenial{op: "LOCK", owner: ownerOf(ci, li), file: f, r: cr, typ: t, t0: t0, t1: t1, dOwner: lookup(&d.Denied.Owner), dStart: ds, dEnd: de, dType: dt})
						e.Result = deniedString(&d.Denied)
					} else if res.GetStatus() == nfsv4_xdr.NFS4_OK {
						views[li].apply(f, cr, t, t0, t1)
						mon.granted(concGrant{op: "LOCK", owner: ownerOf(ci, li), file: f, r: cr, typ: t, t0: t0, t1: t1})
						e.Result = "granted"
						if isNew && viaOther {
							seen2oo.Store(true)
						}
					} else {
						e.Result = fmt.Sprintf("status=%d", res.GetStatus())
						addProblem(concProblem{"C20 nfs conc unexpected-status op=LOCK minor=" + fmt.Sprint(c.minor), fmt.Sprintf("LOCK %s by %s: status %d", e.Detail, c.name, res.GetStatus())})
					}
					logEvent(e)
				case roll < 62:
					ks := sortedLockKeys(c)
					if len(ks) == 0 {
						continue
					}
					k := ks[grng.IntN(len(ks))]
					kli := 0
					if k.lo == nfsLockOwners[1] {
						kli = 1
					}
					t0 := mon.now()
					res, ce := c.locku(k.oo, k.file, k.lo, off, length)
					t1 := mon.now()
					if ce != nil {
						clientBroke(c, ce)
						return
					}
					logEvent(nfsConcEvent{T0: t0, T1: t1, Client: c.name, Op: "LOCKU", Detail: fmt.Sprintf("oo=%s file=%d lo=%s %v", k.oo, k.file, k.lo, cr), Result: fmt.Sprintf("status=%d", res.GetStatus())})
					if res.GetStatus() != nfsv4_xdr.NFS4_OK {
						addProblem(concProblem{"C20 nfs conc unlock-failed minor=" + fmt.Sprint(c.minor), fmt.Sprintf("LOCKU by %s: status %d", c.name, res.GetStatus())})
						continue
					}
					views[kli].apply(k.file, cr, tNone, t0, t1)
				case roll < 84:
					lt := genNFSLockType(grng, pShared, false)
					t, _ := nfsTypeOf(lt)
					t0 := mon.now()
					rs, ce := c.lockt(f, lo, []locktReq{{off, length, lt}})
					t1 := mon.now()
					if ce != nil {
						clientBroke(c, ce)
						return
					}
					e := nfsConcEvent{T0: t0, T1: t1, Client: c.name, Op: "LOCKT", Detail: fmt.Sprintf("file=%d lo=%s %v %s", f, lo, cr, typeName(t))}
					if d, ok := rs[0].(*nfsv4_xdr.Lockt4res_NFS4ERR_DENIED); ok {
						ds, de, dt, _ := deniedToRange(&d.Denied)
						mon.denied(concDenial{op: "LOCKT", owner: ownerOf(ci, li), file: f, r: cr, typ: t, t0: t0, t1: t1, dOwner: lookup(&d.Denied.Owner), dStart: ds, dEnd: de, dType: dt})
						e.Result = deniedString(&d.Denied)
					} else if rs[0].GetStatus() == nfsv4_xdr.NFS4_OK {
						mon.granted(concGrant{op: "LOCKT", owner: ownerOf(ci, li), file: f, r: cr, typ: t, t0: t0, t1: t1})
						e.Result = "ok"
					} else {
						e.Result = fmt.Sprintf("status=%d", rs[0].GetStatus())
						addProblem(concProblem{"C20 nfs conc unexpected-status op=LOCKT minor=" + fmt.Sprint(c.minor), fmt.Sprintf("LOCKT by %s: status %d", c.name, rs[0].GetStatus())})
					}
					logEvent(e)
				case roll < 92:
					ks := sortedOpenKeys(c)
					if len(ks) == 0 {
						continue
					}
					k := ks[grng.IntN(len(ks))]
					t0 := mon.now()
					st, los, ce := c.close(k.oo, k.file)
					t1 := mon.now()
					if ce != nil {
						clientBroke(c, ce)
						return
					}
					logEvent(nfsConcEvent{T0: t0, T1: t1, Client: c.name, Op: "CLOSE", Detail: fmt.Sprintf("oo=%s file=%d los=%v", k.oo, k.file, los), Result: fmt.Sprintf("status=%d", st)})
					if st != nfsv4_xdr.NFS4_OK {
						addProblem(concProblem{"C20 nfs conc close-failed minor=" + fmt.Sprint(c.minor), fmt.Sprintf("CLOSE by %s: status %d", c.name, st)})
						continue
					}
					for _, l := range los {
						kli := 0
						if l == nfsLockOwners[1] {
							kli = 1
						}
						views[kli].apply(k.file, cellRange{0, nCells}, tNone, t0, t1)
					}
				default:
					// RELEASE_LOCKOWNER / FREE_STATEID: the outcome
					// depends only on the client's own locks.
					if c.minor == 0 {
						held := false
						for ff := 0; ff < nFiles; ff++ {
							held = held || views[li].holdsAny(ff)
						}
						st, ce := c.releaseLockOwner(lo)
						if ce != nil {
							clientBroke(c, ce)
							return
						}
						want := nfsv4_xdr.NFS4_OK
						if held {
							want = nfsv4_xdr.NFS4ERR_LOCKS_HELD
						}
						logEvent(nfsConcEvent{Client: c.name, Op: "RELEASE_LOCKOWNER", Detail: lo, Result: fmt.Sprintf("status=%d", st)})
						if st != want {
							addProblem(concProblem{"C20 nfs conc release-lockowner-status held=" + fmt.Sprint(held), fmt.Sprintf("RELEASE_LOCKOWNER %s by %s (holds locks: %v): status %d", lo, c.name, held, st)})
						}
						continue
					}
					ks := sortedLockKeys(c)
					if len(ks) == 0 {
						continue
					}
					k := ks[grng.IntN(len(ks))]
					kli := 0
					if k.lo == nfsLockOwners[1] {
						kli = 1
					}
					held := views[kli].holdsAny(k.file)
					st, ce := c.freeStateID(k)
					if ce != nil {
						clientBroke(c, ce)
						return
					}
					want := nfsv4_xdr.NFS4_OK
					if held {
						want = nfsv4_xdr.NFS4ERR_LOCKS_HELD
					}
					logEvent(nfsConcEvent{Client: c.name, Op: "FREE_STATEID", Detail: fmt.Sprintf("%v", k), Result: fmt.Sprintf("status=%d", st)})
					if st != want {
						addProblem(concProblem{"C20 nfs conc free-stateid-status held=" + fmt.Sprint(held) + " minor=1", fmt.Sprintf("FREE_STATEID %v by %s (holds locks on the file: %v): status %d", k, c.name, held, st)})
					}
				}
			}
		}(ci, c)
	}
	close(start)
	wg.Wait()

	witness := func(problem string, pi *panicInfo) map[string]any {
		return map[string]any{"layer": "nfsconc", "seed": r.Seed(), "round": idx, "mode": mode, "clients": nClients, "procs": procs, "owner_ids": ownerNames, "problem": problem, "events": events, "panic": pi}
	}
	// Rounds in which one lock-owner used two open-owners on one file are
	// tagged (see nfsCaseAllows2oo).
	retag := func(sig string) string {
		if seen2oo.Load() {
			return strings.Replace(sig, "C20 nfs ", "C20 nfs2oo ", 1)
		}
		return sig
	}
	if tried2oo.Load() {
		r.Situation("nfsconc:same-lock-owner-via-two-open-owners:same-file")
	}
	if panicked != nil {
		// The server state is undefined after a panic: report only that.
		r.Violation(retag("C20 nfs panic op="+panicked.Op+" msg="+sigWord(panicked.Panic.Value)), "server panicked during a concurrent round: "+panicked.Panic.Value, witness(panicked.Panic.Value, panicked.Panic))
		return
	}
	ps, stats := mon.check("nfs")
	problems = append(problems, ps...)

	// Quiescent point: probe the exact final state.
	probes := 0
	if !stop.Load() {
		finals := mon.finalModel(nFiles, nClients*len(nfsLockOwners))
		var reqs []locktReq
		for c := 0; c < nCells; c++ {
			for _, lt := range []nfsv4_xdr.NfsLockType4{nfsv4_xdr.WRITE_LT, nfsv4_xdr.READ_LT} {
				reqs = append(reqs, locktReq{bounds[c], bounds[c+1] - bounds[c], lt})
			}
		}
	probing:
		for f := 0; f < nFiles; f++ {
			for ci, c := range clients {
				for li, lo := range append(append([]string{}, nfsLockOwners...), "nobody") {
					owner := -1
					if li < len(nfsLockOwners) {
						owner = ownerOf(ci, li)
					}
					rs, ce := c.lockt(f, lo, reqs)
					if ce != nil {
						problems = append(problems, concProblem{"C20 nfs conc unexpected-reply op=LOCKT-probe", ce.Error()})
						break probing
					}
					for i, res := range rs {
						probes++
						pr := cellRange{i / 2, i/2 + 1}
						pt, _ := nfsTypeOf(reqs[i].lt)
						want := finals[f].conflict(owner, pr, pt)
						d, isDenied := res.(*nfsv4_xdr.Lockt4res_NFS4ERR_DENIED)
						if isDenied != want {
							sig := "C20 nfs conc final-probe-mismatch minor=" + fmt.Sprint(c.minor)
							if isDenied && owner >= 0 && lookup(&d.Denied.Owner) == owner {
								sig = "C20 nfs conc owner-blocked-by-own-lock op=LOCKT-probe minor=" + fmt.Sprint(c.minor)
							}
							problems = append(problems, concProblem{sig, fmt.Sprintf("after the round: LOCKT of file %d byte cell %v as %s by %s/%s gives status %d, final model conflict=%v; model %s", f, pr, typeName(pt), c.name, lo, res.GetStatus(), want, finals[f])})
						} else if isDenied {
							ds, de, dt, ok := deniedToRange(&d.Denied)
							if rule, detail := finals[f].checkReported(owner, pr, pt, lookup(&d.Denied.Owner), ds, de, dt); !ok || rule != "" {
								problems = append(problems, concProblem{"C20 nfs conc final-probe-" + rule, fmt.Sprintf("after the round: probe of file %d %v as %s reported %s: %s; model %s", f, pr, typeName(pt), deniedString(&d.Denied), detail, finals[f])})
							}
						}
					}
				}
			}
			if inv := finals[f].invariant(); inv != "" {
				problems = append(problems, concProblem{"C20 nfs conc two-owners-hold-conflicting-byte final", inv})
			}
		}
	}

	seen := map[string]bool{}
	for _, p := range problems {
		if seen[p.sig] {
			continue
		}
		seen[p.sig] = true
		r.Violation(retag(p.sig), p.detail, witness(p.detail, nil))
	}
	r.Count("nfsconc_ops", nClients*opsPerClient)
	r.Count("nfsconc_denials", stats["denials"])
	r.Count("nfsconc_grants", stats["grants"])
	r.Count("nfsconc_exclusion_pairs", stats["exclusion_pairs"])
	r.Count("nfsconc_final_probes", probes)
	if stats["denials"] > 0 && stats["exclusion_pairs"] > 0 {
		r.Situation("nfsconc:round-with-contention")
	}
	r.Hash(ev.HashOf("nfsconc", idx, mode, stats["denials"], stats["grants"], stats["exclusion_pairs"]), stats["denials"] > 0)
}
