package c20

// Less common request forms and failure paths of layer (c): re-OPEN of an
// open file, retransmitted LOCK/LOCKU (v4.0), the "current state ID" forms
// (v4.1), session re-creation (v4.1), a client that reboots while one of its
// requests is still in flight (NFS4ERR_DELAY branch), and a battery of
// requests that carry state IDs the server must no longer honour. All of
// them are judged with the same per-byte model: whatever the reply, the lock
// table must afterwards equal the model, and the model only changes when a
// reply says that a lock was granted or released.

import (
	"fmt"
	"time"

	nfsv4_xdr "github.com/buildbarn/go-xdr/pkg/protocols/nfsv4"
)

// watchdog bounds waits for harness-owned gates; its firing is inconclusive.
const watchdog = 60 * time.Second

var currentStateID = nfsv4_xdr.Stateid4{Seqid: 1}

// ---- re-OPEN ---------------------------------------------------------------

// stepReopen opens a file again through an open-owner that already has it
// open. The share reservation is "upgraded", the open state ID gets a new
// seqid, and every lock stays as it is.
func (h *nfsHarness) stepReopen(step int, c *nfsClient) {
	ks := sortedOpenKeys(c)
	if len(ks) == 0 {
		h.stepLock(step, c, 50)
		return
	}
	k := ks[h.rng.IntN(len(ks))]
	held := false
	for _, lk := range sortedLockKeys(c) {
		if lk.oo == k.oo && lk.file == k.file && h.models[k.file].holdsAny(h.ownerID(c, lk.lo)) {
			held = true
		}
	}
	if ce := c.open(k.oo, k.file); ce != nil {
		h.log(step, c, "REOPEN", fmt.Sprintf("oo=%s file=%d", k.oo, k.file), ce.Error(), "")
		h.clientFailed(c, ce)
		return
	}
	h.log(step, c, "REOPEN", fmt.Sprintf("oo=%s file=%d", k.oo, k.file), "ok", "no lock changes")
	if held {
		h.situations["reopen-with-locks-held"] = true
	}
}

// ---- unlock everything, drop the lock state, lock again ----------------------

// stepLifecycle takes lock state that still holds locks through its whole
// life in one step: LOCKU of the entire file (the last lock goes away), then
// FREE_STATEID (v4.1) or RELEASE_LOCKOWNER (v4.0), then a fresh LOCK by the
// same lock-owner, which has to start from nothing.
func (h *nfsHarness) stepLifecycle(step int, c *nfsClient, pShared int) {
	var k lockKey
	found := false
	for _, cand := range sortedLockKeys(c) {
		if h.models[cand.file].holdsAny(h.ownerID(c, cand.lo)) {
			k, found = cand, true
			if h.rng.IntN(2) == 0 {
				break
			}
		}
	}
	if !found {
		h.stepLock(step, c, pShared)
		return
	}
	whole := nfsRange{Offset: 0, Length: maxU64, valid: true, cr: cellRange{0, nCells}, Shape: "all-ones"}
	ures, ce := c.locku(k.oo, k.file, k.lo, whole.Offset, whole.Length)
	if ce != nil {
		h.clientFailed(c, ce)
		return
	}
	if !h.judgeLockU(step, c, k, whole, ures, "LOCKU") {
		return
	}
	owner := h.ownerID(c, k.lo)
	if c.minor == 1 {
		st, ce := c.freeStateID(k)
		if ce != nil {
			h.clientFailed(c, ce)
			return
		}
		h.log(step, c, "FREE_STATEID", fmt.Sprintf("oo=%s file=%d lo=%s", k.oo, k.file, k.lo), fmt.Sprintf("status=%d", st), "status=0")
		if st != nfsv4_xdr.NFS4_OK {
			h.fail("C20 "+h.tag()+" free-stateid-status held=false minor=1", fmt.Sprintf("step %d: FREE_STATEID of lock state of %s on file %d, whose last lock was just released by LOCKU, returned status %d", step, h.ownerName(owner), k.file, st), nil)
			return
		}
		h.emptiedBy[h.routeKey(c, k.lo, k.file)] = "free-stateid"
		h.situations["last-lock-gone-by:free-stateid"] = true
	} else {
		held := false
		for _, m := range h.models {
			held = held || m.holdsAny(owner)
		}
		st, ce := c.releaseLockOwner(k.lo)
		if ce != nil {
			h.clientFailed(c, ce)
			return
		}
		want := nfsv4_xdr.NFS4_OK
		if held {
			want = nfsv4_xdr.NFS4ERR_LOCKS_HELD
		}
		h.log(step, c, "RELEASE_LOCKOWNER", k.lo, fmt.Sprintf("status=%d", st), fmt.Sprintf("status=%d", want))
		if st != want {
			h.fail("C20 "+h.tag()+" release-lockowner-status held="+fmt.Sprint(held), fmt.Sprintf("step %d: RELEASE_LOCKOWNER of %s (holds locks on another file: %v) returned status %d, expected %d", step, h.ownerName(owner), held, st, want), nil)
			return
		}
		if st == nfsv4_xdr.NFS4_OK {
			h.emptiedBy[h.routeKey(c, k.lo, k.file)] = "release-lockowner"
			h.situations["last-lock-gone-by:release-lockowner"] = true
		}
	}
	// Lock again through the same open.
	lc := lockCtx{what: "LOCK", oo: k.oo, f: k.file, lo: k.lo, owner: owner}
	lc.nr = genNFSRange(h.rng)
	lc.lt = genNFSLockType(h.rng, pShared, false)
	lc.t, _ = nfsTypeOf(lc.lt)
	h.fillLockRelations(c, &lc)
	res, isNew, ce := c.lock(lc.oo, lc.f, lc.lo, lc.nr.Offset, lc.nr.Length, lc.lt, false)
	if ce != nil {
		h.log(step, c, lc.what, h.lockDetail(lc, isNew), ce.Error(), "")
		h.clientFailed(c, ce)
		return
	}
	h.judgeLock(step, c, lc, isNew, res)
}

// ---- retransmission (v4.0) -------------------------------------------------

// retransmit remembers the last LOCK or LOCKU of a client, so that exactly
// the same compound can be sent again as long as no other seqid-bearing
// request of that client followed.
type retransmit struct {
	epoch   int
	ops     []nfsv4_xdr.NfsArgop4
	isLock  bool
	lc      lockCtx
	k       lockKey
	nr      nfsRange
	granted bool
}

func (h *nfsHarness) rememberForRetransmit(c *nfsClient, lc lockCtx, isNew bool, res nfsv4_xdr.Lock4res) {
	h.retx[c] = &retransmit{epoch: c.seqEpoch, ops: c.lastOps, isLock: true, lc: lc, granted: res.GetStatus() == nfsv4_xdr.NFS4_OK}
}

func (h *nfsHarness) rememberUnlockForRetransmit(c *nfsClient, k lockKey, nr nfsRange, res nfsv4_xdr.Locku4res) {
	h.retx[c] = &retransmit{epoch: c.seqEpoch, ops: c.lastOps, k: k, nr: nr, granted: res.GetStatus() == nfsv4_xdr.NFS4_OK}
}

// stepRetransmit sends the client's last LOCK/LOCKU again, byte for byte,
// possibly after other clients changed the lock table. What the reply must
// be is C19's business; here a reply that grants the lock must be consistent
// with the model (no conflicting owner, or the original request had been
// granted already), after which the owner holds the range, and any other
// reply changes nothing.
func (h *nfsHarness) stepRetransmit(step int, c *nfsClient, pShared int) {
	rt := h.retx[c]
	if rt == nil || rt.epoch != c.seqEpoch {
		h.stepLock(step, c, pShared)
		return
	}
	st, res, ce := c.raw("retransmit", rt.ops...)
	if ce != nil {
		h.log(step, c, "RETRANSMIT", "", ce.Error(), "")
		h.clientFailed(c, ce)
		return
	}
	if rt.isLock {
		lc := rt.lc
		m := h.models[lc.f]
		detail := h.lockDetail(lc, false) + fmt.Sprintf(" originally-granted=%v", rt.granted)
		h.log(step, c, "RETRANSMIT-LOCK", detail, fmt.Sprintf("status=%d", st), "cached reply or consistent re-execution")
		h.situations["retransmit-lock"] = true
		if st == nfsv4_xdr.NFS4_OK && len(res) == 2 && lc.nr.valid {
			if !rt.granted && m.conflict(lc.owner, lc.nr.cr, lc.t) {
				h.fail("C20 "+h.tag()+" lock-granted-despite-conflict op=retransmit minor=0", fmt.Sprintf("step %d: retransmitted LOCK %s by %s was answered NFS4_OK although another owner holds a conflicting byte; model %s", step, detail, h.ownerName(lc.owner), m), nil)
				return
			}
			if !rt.granted {
				// Re-executed and granted now: the owner holds the range.
				m.set(lc.owner, lc.nr.cr, lc.t)
				if ok, isOK := res[1].(*nfsv4_xdr.NfsResop4_OP_LOCK).Oplock.(*nfsv4_xdr.Lock4res_NFS4_OK); isOK {
					c.locks[lockKey{lc.oo, lc.f, lc.lo}] = ok.Resok4.LockStateid
				}
				rt.granted = true
			}
		}
		if !rt.granted && st != nfsv4_xdr.NFS4_OK && !m.conflict(lc.owner, lc.nr.cr, lc.t) && lc.nr.valid {
			h.situations["retransmit-of-denied-lock-after-conflict-went-away"] = true
		}
		return
	}
	h.log(step, c, "RETRANSMIT-LOCKU", fmt.Sprintf("oo=%s file=%d lo=%s %v", rt.k.oo, rt.k.file, rt.k.lo, rt.nr), fmt.Sprintf("status=%d", st), "no lock changes beyond the original unlock")
	h.situations["retransmit-locku"] = true
	// A LOCKU that is executed twice unlocks the same bytes twice: no
	// model change either way.
}

// ---- "current state ID" forms (v4.1) ---------------------------------------

// stepCurrentStateID sends either OPEN+LOCK or LOCK+LOCKU in one compound,
// where the second operation names its state ID as "the current one".
func (h *nfsHarness) stepCurrentStateID(step int, c *nfsClient, pShared int) {
	rng := h.rng
	// Variant 1: OPEN a file that is not open and LOCK it in one go.
	var closed []openKey
	for _, oo := range nfsOpenOwners {
		for f := range h.models {
			if _, ok := c.opens[openKey{oo, f}]; !ok {
				closed = append(closed, openKey{oo, f})
			}
		}
	}
	if len(closed) > 0 && rng.IntN(2) == 0 {
		k := closed[rng.IntN(len(closed))]
		lc := lockCtx{what: "OPEN+LOCK(current)", oo: k.oo, f: k.file, lo: nfsLockOwners[rng.IntN(len(nfsLockOwners))]}
		if !h.allow2oo && otherOpenOwnerHasLockState(c, lc.oo, lc.f, lc.lo) {
			h.stepLock(step, c, pShared)
			return
		}
		lc.nr = genNFSRange(rng)
		lc.lt = genNFSLockType(rng, pShared, false)
		lc.t, _ = nfsTypeOf(lc.lt)
		lc.owner = h.ownerID(c, lc.lo)
		h.fillLockRelations(c, &lc)
		c.seqEpoch++
		_, res, ce := c.raw("open+lock",
			&nfsv4_xdr.NfsArgop4_OP_PUTROOTFH{},
			&nfsv4_xdr.NfsArgop4_OP_OPEN{Opopen: nfsv4_xdr.Open4args{
				ShareAccess: nfsv4_xdr.OPEN4_SHARE_ACCESS_BOTH, ShareDeny: nfsv4_xdr.OPEN4_SHARE_DENY_NONE,
				Owner: c.owner(lc.oo), Openhow: &nfsv4_xdr.Openflag4_default{},
				Claim: &nfsv4_xdr.OpenClaim4_CLAIM_NULL{File: c.w.names[lc.f]},
			}},
			&nfsv4_xdr.NfsArgop4_OP_LOCK{Oplock: nfsv4_xdr.Lock4args{
				Locktype: lc.lt, Offset: lc.nr.Offset, Length: lc.nr.Length,
				Locker: &nfsv4_xdr.Locker4_TRUE{OpenOwner: nfsv4_xdr.OpenToLockOwner4{OpenStateid: currentStateID, LockOwner: c.owner(lc.lo)}},
			}},
		)
		if ce != nil || len(res) != 3 {
			if ce == nil {
				ce = &clientError{Op: "OPEN+LOCK", Detail: fmt.Sprintf("reply has %d results", len(res))}
			}
			h.log(step, c, lc.what, h.lockDetail(lc, true), ce.Error(), "")
			h.clientFailed(c, ce)
			return
		}
		c.opens[k] = res[1].(*nfsv4_xdr.NfsResop4_OP_OPEN).Opopen.(*nfsv4_xdr.Open4res_NFS4_OK).Resok4.Stateid
		lres := res[2].(*nfsv4_xdr.NfsResop4_OP_LOCK).Oplock
		if ok, isOK := lres.(*nfsv4_xdr.Lock4res_NFS4_OK); isOK {
			c.locks[lockKey{lc.oo, lc.f, lc.lo}] = ok.Resok4.LockStateid
		}
		if h.judgeLock(step, c, lc, true, lres) {
			h.situations["current-stateid:open+lock"] = true
		}
		return
	}

	// Variant 2: LOCK, then LOCKU of another range with the lock state ID
	// the LOCK just returned.
	lc, ok := h.prepareLock(c, pShared)
	if !ok {
		return
	}
	lc.what = "LOCK(+LOCKU current)"
	lc.forceNew = false
	k := lockKey{lc.oo, lc.f, lc.lo}
	lockStateID, have := c.locks[k]
	args := nfsv4_xdr.Lock4args{Locktype: lc.lt, Offset: lc.nr.Offset, Length: lc.nr.Length}
	if have {
		args.Locker = &nfsv4_xdr.Locker4_FALSE{LockOwner: nfsv4_xdr.ExistLockOwner4{LockStateid: lockStateID}}
	} else {
		args.Locker = &nfsv4_xdr.Locker4_TRUE{OpenOwner: nfsv4_xdr.OpenToLockOwner4{OpenStateid: c.opens[openKey{lc.oo, lc.f}], LockOwner: c.owner(lc.lo)}}
	}
	unr := genNFSRange(rng)
	c.seqEpoch++
	_, res, ce := c.raw("lock+locku", c.putfh(lc.f),
		&nfsv4_xdr.NfsArgop4_OP_LOCK{Oplock: args},
		&nfsv4_xdr.NfsArgop4_OP_LOCKU{Oplocku: nfsv4_xdr.Locku4args{Locktype: nfsv4_xdr.READ_LT, LockStateid: currentStateID, Offset: unr.Offset, Length: unr.Length}},
	)
	if ce != nil || len(res) < 2 {
		if ce == nil {
			ce = &clientError{Op: "LOCK+LOCKU", Detail: fmt.Sprintf("reply has %d results", len(res))}
		}
		h.log(step, c, lc.what, h.lockDetail(lc, !have), ce.Error(), "")
		h.clientFailed(c, ce)
		return
	}
	lres := res[1].(*nfsv4_xdr.NfsResop4_OP_LOCK).Oplock
	if ok, isOK := lres.(*nfsv4_xdr.Lock4res_NFS4_OK); isOK {
		c.locks[k] = ok.Resok4.LockStateid
	}
	if !h.judgeLock(step, c, lc, !have, lres) {
		return
	}
	if lres.GetStatus() != nfsv4_xdr.NFS4_OK {
		if len(res) != 2 {
			h.fail("C20 "+h.tag()+" compound-continued-after-failure minor=1", fmt.Sprintf("step %d: LOCK failed with status %d but the compound went on", step, lres.GetStatus()), nil)
		}
		return
	}
	if len(res) != 3 {
		h.clientFailed(c, &clientError{Op: "LOCK+LOCKU", Detail: fmt.Sprintf("LOCK succeeded but the reply has %d results", len(res))})
		return
	}
	ures := res[2].(*nfsv4_xdr.NfsResop4_OP_LOCKU).Oplocku
	if ok, isOK := ures.(*nfsv4_xdr.Locku4res_NFS4_OK); isOK {
		c.locks[k] = ok.LockStateid
	}
	if h.judgeLockU(step, c, k, unr, ures, "LOCKU(current)") {
		h.situations["current-stateid:lock+locku"] = true
	}
}

// ---- session re-creation (v4.1) --------------------------------------------

// stepSessionRecreate destroys the client's only session and creates a new
// one. Open and lock state belongs to the client, not to the session: no
// lock may change.
func (h *nfsHarness) stepSessionRecreate(step int, c *nfsClient) {
	held := false
	for _, lo := range nfsLockOwners {
		for _, m := range h.models {
			held = held || m.holdsAny(h.ownerID(c, lo))
		}
	}
	st, ce := c.destroySession()
	if ce == nil && st == nfsv4_xdr.NFS4_OK {
		st, ce = c.createSession(c.createSeq + 1)
	}
	if ce != nil || st != nfsv4_xdr.NFS4_OK {
		if ce == nil {
			ce = &clientError{Op: "DESTROY_SESSION/CREATE_SESSION", Detail: fmt.Sprintf("status %d", st)}
		}
		h.log(step, c, "SESSION-RECREATE", "", ce.Error(), "")
		h.clientFailed(c, ce)
		return
	}
	h.log(step, c, "SESSION-RECREATE", "", "ok", "no lock changes")
	if held {
		h.situations["session-recreated-with-locks-held"] = true
	}
}

// ---- reboot while a request of the old instance is in flight ----------------

// stepRebootDuringIO blocks a READ of victim inside the file system, lets a
// new instance of the same client register meanwhile, and releases the READ
// afterwards. While the READ is in flight the server cannot discard the old
// instance's state (this implementation answers NFS4ERR_DELAY): as long as
// the new registration is not confirmed every lock of the old instance must
// still be in place; once it is confirmed they must all be gone.
func (h *nfsHarness) stepRebootDuringIO(step int, victim *nfsClient) {
	oo := nfsOpenOwners[h.rng.IntN(len(nfsOpenOwners))]
	f := h.rng.IntN(len(h.models))
	if !h.ensureOpen(victim, oo, f) {
		return
	}
	stateID := victim.opens[openKey{oo, f}]
	for _, lk := range sortedLockKeys(victim) {
		if lk.oo == oo && lk.file == f && h.rng.IntN(2) == 0 {
			stateID = victim.locks[lk] // READ with a lock state ID
		}
	}
	leaf := h.w.dir.leaves[h.w.names[f]]
	gate := &leafGate{entered: make(chan struct{}, 4), release: make(chan struct{})}
	leaf.readGate.Store(gate)
	type readResult struct {
		st nfsv4_xdr.Nfsstat4
		ce *clientError
	}
	done := make(chan readResult, 1)
	go func() {
		st, ce := victim.read(f, stateID)
		done <- readResult{st, ce}
	}()
	released := false
	finishRead := func() (readResult, bool) {
		leaf.readGate.Store(nil)
		if !released {
			close(gate.release)
			released = true
		}
		select {
		case r := <-done:
			return r, true
		case <-time.After(watchdog):
			h.r.Inconclusive("nfs case %d step %d: READ did not return within %v of the gate being opened", h.idx, step, watchdog)
			h.failed = true
			return readResult{}, false
		}
	}
	select {
	case <-gate.entered:
	case r := <-done:
		// The READ never reached the file system.
		leaf.readGate.Store(nil)
		if r.ce == nil {
			r.ce = &clientError{Op: "READ", Detail: fmt.Sprintf("status %d without reaching the file", r.st)}
		}
		h.log(step, victim, "READ", fmt.Sprintf("oo=%s file=%d", oo, f), r.ce.Error(), "")
		h.clientFailed(victim, r.ce)
		return
	case <-time.After(watchdog):
		h.r.Inconclusive("nfs case %d step %d: READ neither returned nor reached the file system within %v", h.idx, step, watchdog)
		finishRead()
		h.failed = true
		return
	}

	held := false
	for _, lo := range nfsLockOwners {
		for _, m := range h.models {
			held = held || m.holdsAny(h.ownerID(victim, lo))
		}
	}
	n := h.w.newClient(victim.minor, victim.name, h.rng)
	n.longID = victim.longID
	st, ce := n.tryRegister()
	if ce != nil {
		h.log(step, victim, "REBOOT-DURING-IO", "", ce.Error(), "")
		finishRead()
		h.clientFailed(n, ce)
		return
	}
	h.log(step, victim, "REBOOT-DURING-IO", fmt.Sprintf("READ of file %d in flight", f), fmt.Sprintf("confirmation status=%d", st), "refused: old locks intact; accepted: old locks released")
	confirmed := st == nfsv4_xdr.NFS4_OK
	if !confirmed && n.minor == 0 {
		// The new instance has a client ID that is not confirmed yet:
		// nothing may be done with it.
		ust, _, uce := n.raw("lockt-unconfirmed", n.putfh(f), &nfsv4_xdr.NfsArgop4_OP_LOCKT{Oplockt: nfsv4_xdr.Lockt4args{Locktype: nfsv4_xdr.READ_LT, Offset: 0, Length: maxU64, Owner: n.owner(nfsLockOwners[0])}})
		if uce == nil {
			h.log(step, n, "STALE:lockt:unconfirmed-client", "", fmt.Sprintf("status=%d", ust), "any status but NFS4_OK")
			h.situations["stale:lockt:unconfirmed-client"] = true
			if ust == nfsv4_xdr.NFS4_OK {
				h.fail("C20 "+h.tag()+" stale-request-accepted kind=lockt:unconfirmed-client minor=0", "LOCKT with a client ID that was never confirmed was answered NFS4_OK", nil)
			}
		}
	}
	if confirmed {
		h.clearClient(victim, "client-reboot")
	} else {
		h.situations["reboot-refused-while-io-in-flight"] = true
		if held {
			h.situations["reboot-refused-while-io-in-flight:locks-held"] = true
		}
	}
	// Probe by everybody except the client whose request is in flight.
	h.probeAll(step, victim)
	r, ok := finishRead()
	if !ok || h.failed {
		return
	}
	if r.ce != nil {
		h.clientFailed(victim, r.ce)
		return
	}
	if !confirmed {
		// Nothing is in flight any more: the registration must go through.
		st, ce = n.tryRegister()
		if ce != nil || st != nfsv4_xdr.NFS4_OK {
			if ce == nil {
				ce = &clientError{Op: "REGISTER", Detail: fmt.Sprintf("confirmation failed with status %d although no request of the old instance is in flight", st)}
			}
			h.clientFailed(n, ce)
			return
		}
		if h.clearClient(victim, "client-reboot") {
			h.situations["client-reboot-with-locks-held"] = true
		}
	}
	h.zombies = append(h.zombies, victim)
	for i, c := range h.clients {
		if c == victim {
			h.clients[i] = n
		}
	}
}

// ---- requests the server must refuse ----------------------------------------

type staleItem struct {
	name string
	c    *nfsClient
	run  func() (nfsv4_xdr.Nfsstat4, *clientError)
}

// staleBattery runs at the end of a case. Every request in it is one the
// server has to refuse: state IDs of closed opens and released lock state,
// state IDs with an old or a future seqid, state IDs used with another file,
// special state IDs, a foreign client ID inside the lock-owner, wrong
// lock-owner seqids, an unconfirmed open-owner, DESTROY_CLIENTID of a client
// that still has state, and requests by clients whose state was discarded.
// The property only demands that none of them is answered with success and
// that none of them changes who holds which byte (probed afterwards). The
// battery comes last because refused requests may leave the harness' seqid
// bookkeeping for v4.0 behind.
func (h *nfsHarness) staleBattery(step int) {
	var items []staleItem
	add := func(name string, c *nfsClient, run func() (nfsv4_xdr.Nfsstat4, *clientError)) {
		items = append(items, staleItem{name, c, run})
	}
	lockExisting := func(c *nfsClient, putFile int, sid nfsv4_xdr.Stateid4, lo string) func() (nfsv4_xdr.Nfsstat4, *clientError) {
		return func() (nfsv4_xdr.Nfsstat4, *clientError) {
			st, _, ce := c.raw("stale-lock", c.putfh(putFile), &nfsv4_xdr.NfsArgop4_OP_LOCK{Oplock: nfsv4_xdr.Lock4args{
				Locktype: nfsv4_xdr.WRITE_LT, Offset: 0, Length: maxU64,
				Locker: &nfsv4_xdr.Locker4_FALSE{LockOwner: nfsv4_xdr.ExistLockOwner4{LockStateid: sid, LockSeqid: c.lockSeq[lo]}},
			}})
			if c.minor == 0 && ce == nil && st == nfsv4_xdr.NFS4ERR_OLD_STATEID {
				c.lockSeq[lo] = nextSeq(c.lockSeq[lo])
			}
			return st, ce
		}
	}
	locku := func(c *nfsClient, putFile int, sid nfsv4_xdr.Stateid4, lo string) func() (nfsv4_xdr.Nfsstat4, *clientError) {
		return func() (nfsv4_xdr.Nfsstat4, *clientError) {
			st, _, ce := c.raw("stale-locku", c.putfh(putFile), &nfsv4_xdr.NfsArgop4_OP_LOCKU{Oplocku: nfsv4_xdr.Locku4args{
				Locktype: nfsv4_xdr.READ_LT, Seqid: c.lockSeq[lo], LockStateid: sid, Offset: 0, Length: maxU64,
			}})
			if c.minor == 0 && ce == nil && st == nfsv4_xdr.NFS4ERR_OLD_STATEID {
				c.lockSeq[lo] = nextSeq(c.lockSeq[lo])
			}
			return st, ce
		}
	}
	lockNew := func(c *nfsClient, putFile int, oo string, openSID nfsv4_xdr.Stateid4, owner nfsv4_xdr.StateOwner4, lockSeq uint32) func() (nfsv4_xdr.Nfsstat4, *clientError) {
		return func() (nfsv4_xdr.Nfsstat4, *clientError) {
			st, _, ce := c.raw("stale-lock", c.putfh(putFile), &nfsv4_xdr.NfsArgop4_OP_LOCK{Oplock: nfsv4_xdr.Lock4args{
				Locktype: nfsv4_xdr.WRITE_LT, Offset: 0, Length: maxU64,
				Locker: &nfsv4_xdr.Locker4_TRUE{OpenOwner: nfsv4_xdr.OpenToLockOwner4{OpenSeqid: c.ooSeq[oo], OpenStateid: openSID, LockSeqid: lockSeq, LockOwner: owner}},
			}})
			if c.minor == 0 && ce == nil && seqAdvances(st) {
				c.ooSeq[oo] = nextSeq(c.ooSeq[oo])
			}
			return st, ce
		}
	}
	closeWith := func(c *nfsClient, putFile int, oo string, sid nfsv4_xdr.Stateid4) func() (nfsv4_xdr.Nfsstat4, *clientError) {
		return func() (nfsv4_xdr.Nfsstat4, *clientError) {
			st, _, ce := c.raw("stale-close", c.putfh(putFile), &nfsv4_xdr.NfsArgop4_OP_CLOSE{Opclose: nfsv4_xdr.Close4args{Seqid: c.ooSeq[oo], OpenStateid: sid}})
			if c.minor == 0 && ce == nil && seqAdvances(st) {
				c.ooSeq[oo] = nextSeq(c.ooSeq[oo])
			}
			return st, ce
		}
	}
	free := func(c *nfsClient, sid nfsv4_xdr.Stateid4) func() (nfsv4_xdr.Nfsstat4, *clientError) {
		return func() (nfsv4_xdr.Nfsstat4, *clientError) {
			st, _, ce := c.raw("stale-free", &nfsv4_xdr.NfsArgop4_OP_FREE_STATEID{OpfreeStateid: nfsv4_xdr.FreeStateid4args{FsaStateid: sid}})
			return st, ce
		}
	}
	withSeq := func(sid nfsv4_xdr.Stateid4, delta int) nfsv4_xdr.Stateid4 {
		sid.Seqid = uint32(int64(sid.Seqid) + int64(delta))
		return sid
	}
	otherFile := func(f int) int { return (f + 1) % len(h.models) }

	for _, c := range h.clients {
		// Requests that do not advance any seqid come first.
		if ks := sortedLockKeys(c); len(ks) > 0 {
			k := ks[h.rng.IntN(len(ks))]
			sid := c.locks[k]
			add("lock:wrong-file", c, lockExisting(c, otherFile(k.file), sid, k.lo))
			add("locku:wrong-file", c, locku(c, otherFile(k.file), sid, k.lo))
			add("lock:future-seqid", c, lockExisting(c, k.file, withSeq(sid, 1), k.lo))
			add("locku:future-seqid", c, locku(c, k.file, withSeq(sid, 1), k.lo))
			add("lock:anonymous-stateid", c, lockExisting(c, k.file, nfsv4_xdr.Stateid4{}, k.lo))
			add("locku:read-bypass-stateid", c, locku(c, k.file, nfsv4_xdr.Stateid4{Seqid: 0xffffffff, Other: [12]byte{0xff, 0xff, 0xff, 0xff, 0xff, 0xff, 0xff, 0xff, 0xff, 0xff, 0xff, 0xff}}, k.lo))
			if c.minor == 1 {
				add("free-stateid:future-seqid", c, free(c, withSeq(sid, 1)))
				if sid.Seqid >= 2 {
					add("free-stateid:old-seqid", c, free(c, withSeq(sid, -1)))
				}
			}
			if c.minor == 0 {
				// The lock-owner exists: a LOCK that introduces it for
				// another open must carry its next seqid.
				for _, ok2 := range sortedOpenKeys(c) {
					if _, used := c.locks[lockKey{ok2.oo, ok2.file, k.lo}]; !used {
						add("lock:wrong-lock-seqid", c, lockNew(c, ok2.file, ok2.oo, c.opens[ok2], c.owner(k.lo), c.lockSeq[k.lo]+7))
						break
					}
				}
			}
			if sid.Seqid >= 2 {
				// These advance the lock-owner's seqid (v4.0).
				add("lock:old-seqid", c, lockExisting(c, k.file, withSeq(sid, -1), k.lo))
				add("locku:old-seqid", c, locku(c, k.file, withSeq(sid, -1), k.lo))
			}
		}
		for _, d := range c.deadLocks {
			add("lock:dead-lock-stateid", c, lockExisting(c, d.k.file, d.stateID, d.k.lo))
			add("locku:dead-lock-stateid", c, locku(c, d.k.file, d.stateID, d.k.lo))
			if c.minor == 1 {
				add("free-stateid:dead-lock-stateid", c, free(c, d.stateID))
			}
			break
		}
		if len(c.deadLocks) > 1 {
			d := c.deadLocks[len(c.deadLocks)-1]
			add("locku:dead-lock-stateid", c, locku(c, d.k.file, d.stateID, d.k.lo))
		}
		if n := len(c.deadOpens); n > 0 {
			d := c.deadOpens[h.rng.IntN(n)]
			add("lock:dead-open-stateid", c, lockNew(c, d.k.file, d.k.oo, d.stateID, c.owner("lock-owner-stale"), 1))
			add("close:dead-open-stateid", c, closeWith(c, d.k.file, d.k.oo, d.stateID))
		}
		if n := len(c.oldOpens); n > 0 {
			d := c.oldOpens[n-1]
			if cur, ok := c.opens[d.k]; ok && cur.Other == d.stateID.Other && cur.Seqid != d.stateID.Seqid && d.stateID.Seqid != 0 {
				add("lock:superseded-open-stateid", c, lockNew(c, d.k.file, d.k.oo, d.stateID, c.owner("lock-owner-stale"), 1))
				add("close:superseded-open-stateid", c, closeWith(c, d.k.file, d.k.oo, d.stateID))
			}
		}
		if oks := sortedOpenKeys(c); len(oks) > 0 {
			ok2 := oks[h.rng.IntN(len(oks))]
			add("lock:open-stateid-wrong-file", c, lockNew(c, otherFile(ok2.file), ok2.oo, c.opens[ok2], c.owner("lock-owner-stale"), 1))
			if c.minor == 0 {
				// v4.0: the lock-owner must belong to the client of the open.
				foreign := nfsv4_xdr.StateOwner4{Clientid: c.clientID + 1, Owner: []byte("lock-owner-foreign")}
				add("lock:foreign-clientid", c, lockNew(c, ok2.file, ok2.oo, c.opens[ok2], foreign, 1))
			}
		}
		if oks := sortedOpenKeys(c); len(oks) > 0 {
			ok2 := oks[h.rng.IntN(len(oks))]
			cc := c
			add("lock:anonymous-open-stateid", c, lockNew(c, ok2.file, ok2.oo, nfsv4_xdr.Stateid4{}, c.owner("lock-owner-stale"), 1))
			add("close:anonymous-stateid", c, closeWith(c, ok2.file, ok2.oo, nfsv4_xdr.Stateid4{}))
			if c.minor == 0 {
				// Wrong open-owner seqids: neither a retransmission nor
				// the next request.
				add("lock:wrong-open-seqid", c, func() (nfsv4_xdr.Nfsstat4, *clientError) {
					st, _, ce := cc.raw("stale-lock", cc.putfh(ok2.file), &nfsv4_xdr.NfsArgop4_OP_LOCK{Oplock: nfsv4_xdr.Lock4args{
						Locktype: nfsv4_xdr.WRITE_LT, Offset: 0, Length: maxU64,
						Locker: &nfsv4_xdr.Locker4_TRUE{OpenOwner: nfsv4_xdr.OpenToLockOwner4{OpenSeqid: cc.ooSeq[ok2.oo] + 5, OpenStateid: cc.opens[ok2], LockSeqid: 1, LockOwner: cc.owner("lock-owner-stale")}},
					}})
					return st, ce
				})
				add("close:wrong-seqid", c, func() (nfsv4_xdr.Nfsstat4, *clientError) {
					st, _, ce := cc.raw("stale-close", cc.putfh(ok2.file), &nfsv4_xdr.NfsArgop4_OP_CLOSE{Opclose: nfsv4_xdr.Close4args{Seqid: cc.ooSeq[ok2.oo] + 5, OpenStateid: cc.opens[ok2]}})
					return st, ce
				})
			} else {
				// "Current state ID" without an operation that set one.
				add("locku:current-stateid-unset", c, locku(c, ok2.file, currentStateID, nfsLockOwners[0]))
				add("lock:current-stateid-unset", c, lockNew(c, ok2.file, ok2.oo, currentStateID, c.owner("lock-owner-stale"), 1))
			}
		}
		if ks := sortedLockKeys(c); len(ks) > 0 {
			// No current filehandle at all.
			k := ks[0]
			cc := c
			add("lock:no-filehandle", c, func() (nfsv4_xdr.Nfsstat4, *clientError) {
				st, _, ce := cc.raw("stale-lock", &nfsv4_xdr.NfsArgop4_OP_LOCK{Oplock: nfsv4_xdr.Lock4args{
					Locktype: nfsv4_xdr.WRITE_LT, Offset: 0, Length: maxU64,
					Locker: &nfsv4_xdr.Locker4_FALSE{LockOwner: nfsv4_xdr.ExistLockOwner4{LockStateid: cc.locks[k], LockSeqid: cc.lockSeq[k.lo]}},
				}})
				return st, ce
			})
			add("lock:new-form-no-filehandle", c, func() (nfsv4_xdr.Nfsstat4, *clientError) {
				st, _, ce := cc.raw("stale-lock", &nfsv4_xdr.NfsArgop4_OP_LOCK{Oplock: nfsv4_xdr.Lock4args{
					Locktype: nfsv4_xdr.WRITE_LT, Offset: 0, Length: maxU64,
					Locker: &nfsv4_xdr.Locker4_TRUE{OpenOwner: nfsv4_xdr.OpenToLockOwner4{OpenSeqid: cc.ooSeq[k.oo], OpenStateid: cc.opens[openKey{k.oo, k.file}], LockSeqid: 1, LockOwner: cc.owner("lock-owner-stale")}},
				}})
				return st, ce
			})
			// State IDs that cannot have been issued by this server.
			foreign := c.locks[k]
			if c.minor == 0 {
				foreign.Other[0] ^= 0xff // prefix of another server instance
			} else {
				foreign.Other[11] = 0x01 // v4.1 state IDs end in four zero bytes
				add("free-stateid:malformed", c, free(c, foreign))
			}
			add("lock:foreign-stateid", c, lockExisting(c, k.file, foreign, k.lo))
			add("lock:foreign-open-stateid", c, lockNew(c, k.file, k.oo, foreign, c.owner("lock-owner-stale"), 1))
		}
		{
			cc := c
			add("lockt:directory", c, func() (nfsv4_xdr.Nfsstat4, *clientError) {
				st, _, ce := cc.raw("lockt-dir", &nfsv4_xdr.NfsArgop4_OP_PUTROOTFH{}, &nfsv4_xdr.NfsArgop4_OP_LOCKT{Oplockt: nfsv4_xdr.Lockt4args{Locktype: nfsv4_xdr.WRITE_LT, Offset: 0, Length: maxU64, Owner: cc.owner(nfsLockOwners[0])}})
				return st, ce
			})
		}
		if c.minor == 0 {
			cc := c
			add("lock:unconfirmed-open-owner", c, func() (nfsv4_xdr.Nfsstat4, *clientError) {
				const oo = "open-owner-unconfirmed"
				st, res, ce := cc.raw("open-unconfirmed", &nfsv4_xdr.NfsArgop4_OP_PUTROOTFH{},
					&nfsv4_xdr.NfsArgop4_OP_OPEN{Opopen: nfsv4_xdr.Open4args{
						Seqid: 50, ShareAccess: nfsv4_xdr.OPEN4_SHARE_ACCESS_BOTH, ShareDeny: nfsv4_xdr.OPEN4_SHARE_DENY_NONE,
						Owner: cc.owner(oo), Openhow: &nfsv4_xdr.Openflag4_default{}, Claim: &nfsv4_xdr.OpenClaim4_CLAIM_NULL{File: cc.w.names[0]},
					}})
				if ce != nil || st != nfsv4_xdr.NFS4_OK || len(res) != 2 {
					return st, mkErr("OPEN", nil, nil, "OPEN by a new open-owner: status %d (%v)", st, ce)
				}
				ok := res[1].(*nfsv4_xdr.NfsResop4_OP_OPEN).Opopen.(*nfsv4_xdr.Open4res_NFS4_OK)
				if ok.Resok4.Rflags&nfsv4_xdr.OPEN4_RESULT_CONFIRM == 0 {
					return nfsv4_xdr.NFS4ERR_BAD_SEQID, nil // nothing to test: no confirmation wanted
				}
				cc.ooSeq[oo] = 51
				return lockNew(cc, 0, oo, ok.Resok4.Stateid, cc.owner("lock-owner-stale"), 1)()
			})
		}
		if c.minor == 1 {
			cc := c
			add("destroy-clientid:busy", c, func() (nfsv4_xdr.Nfsstat4, *clientError) { return cc.destroyClientID() })
		}
	}
	for _, z := range h.zombies {
		zz := z
		add("zombie:lockt", z, func() (nfsv4_xdr.Nfsstat4, *clientError) {
			st, _, ce := zz.raw("zombie-lockt", zz.putfh(0), &nfsv4_xdr.NfsArgop4_OP_LOCKT{Oplockt: nfsv4_xdr.Lockt4args{Locktype: nfsv4_xdr.WRITE_LT, Offset: 0, Length: maxU64, Owner: zz.owner(nfsLockOwners[0])}})
			return st, ce
		})
		if ks := sortedLockKeys(z); len(ks) > 0 {
			k := ks[0]
			add("zombie:lock", z, lockExisting(z, k.file, z.locks[k], k.lo))
			add("zombie:locku", z, locku(z, k.file, z.locks[k], k.lo))
		}
		if oks := sortedOpenKeys(z); len(oks) > 0 {
			ok2 := oks[0]
			add("zombie:lock-new", z, lockNew(z, ok2.file, ok2.oo, z.opens[ok2], z.owner(nfsLockOwners[0]), z.lockSeq[nfsLockOwners[0]]))
			add("zombie:close", z, closeWith(z, ok2.file, ok2.oo, z.opens[ok2]))
		}
		if z.minor == 0 {
			add("zombie:renew", z, func() (nfsv4_xdr.Nfsstat4, *clientError) {
				st, _, ce := zz.raw("zombie-renew", &nfsv4_xdr.NfsArgop4_OP_RENEW{Oprenew: nfsv4_xdr.Renew4args{Clientid: zz.clientID}})
				return st, ce
			})
			add("zombie:release-lockowner", z, func() (nfsv4_xdr.Nfsstat4, *clientError) {
				st, _, ce := zz.raw("zombie-release", &nfsv4_xdr.NfsArgop4_OP_RELEASE_LOCKOWNER{OpreleaseLockowner: nfsv4_xdr.ReleaseLockowner4args{LockOwner: zz.owner(nfsLockOwners[0])}})
				return st, ce
			})
		}
		if len(h.zombies) > 2 {
			break
		}
	}

	// v4.0: the open_to_lock_owner4 form for a lock-owner that already has
	// lock state for this open. RFC 7530 wants NFS4ERR_BAD_SEQID; the
	// property does not care, so a server that treats it like the
	// existing-lock-owner form is accepted too: then the reply is judged as
	// an ordinary LOCK.
	for _, c := range h.clients {
		ks := sortedLockKeys(c)
		if c.minor != 0 || len(ks) == 0 || h.failed {
			continue
		}
		k := ks[h.rng.IntN(len(ks))]
		lc := lockCtx{what: "STALE:lock:new-form-repeated", oo: k.oo, f: k.file, lo: k.lo, lt: nfsv4_xdr.READ_LT, t: tShared, owner: h.ownerID(c, k.lo)}
		lc.nr = nfsRange{Offset: 0, Length: maxU64, valid: true, cr: cellRange{0, nCells}, Shape: "all-ones"}
		_, res, ce := c.raw("stale-lock", c.putfh(k.file), &nfsv4_xdr.NfsArgop4_OP_LOCK{Oplock: nfsv4_xdr.Lock4args{
			Locktype: lc.lt, Offset: 0, Length: maxU64,
			Locker: &nfsv4_xdr.Locker4_TRUE{OpenOwner: nfsv4_xdr.OpenToLockOwner4{OpenSeqid: c.ooSeq[k.oo], OpenStateid: c.opens[openKey{k.oo, k.file}], LockSeqid: c.lockSeq[k.lo], LockOwner: c.owner(k.lo)}},
		}})
		if ce != nil || len(res) != 2 {
			if ce == nil {
				ce = &clientError{Op: "LOCK", Detail: fmt.Sprintf("reply has %d results", len(res))}
			}
			h.clientFailed(c, ce)
			return
		}
		lres := res[1].(*nfsv4_xdr.NfsResop4_OP_LOCK).Oplock
		h.situations["stale:lock:new-form-repeated"] = true
		if _, denied := lres.(*nfsv4_xdr.Lock4res_NFS4ERR_DENIED); denied || lres.GetStatus() == nfsv4_xdr.NFS4_OK {
			if seqAdvances(lres.GetStatus()) {
				c.ooSeq[k.oo], c.lockSeq[k.lo] = nextSeq(c.ooSeq[k.oo]), nextSeq(c.lockSeq[k.lo])
			}
			if !h.judgeLock(step, c, lc, true, lres) {
				return
			}
		} else {
			h.log(step, c, lc.what, h.lockDetail(lc, true), fmt.Sprintf("status=%d", lres.GetStatus()), "refused, or judged as an ordinary LOCK")
		}
	}

	for _, it := range items {
		st, ce := it.run()
		if ce != nil {
			h.log(step, it.c, "STALE:"+it.name, "", ce.Error(), "")
			h.clientFailed(it.c, ce)
			return
		}
		h.log(step, it.c, "STALE:"+it.name, "", fmt.Sprintf("status=%d", st), "any status but NFS4_OK; no lock changes")
		h.situations["stale:"+it.name] = true
		if st == nfsv4_xdr.NFS4_OK {
			h.fail("C20 "+h.tag()+" stale-request-accepted kind="+it.name+" minor="+fmt.Sprint(it.c.minor), fmt.Sprintf("request %q by client %s (v4.%d), which no server may honour, was answered NFS4_OK", it.name, it.c.name, it.c.minor), nil)
			return
		}
	}
	if len(items) > 0 {
		h.probeAll(step, nil)
	}

	// v4.1: TEST_STATEID agrees with what is alive.
	for _, c := range h.clients {
		if c.minor != 1 || h.failed {
			continue
		}
		var sids []nfsv4_xdr.Stateid4
		var alive []bool
		for _, k := range sortedLockKeys(c) {
			sids, alive = append(sids, c.locks[k]), append(alive, true)
		}
		for _, d := range c.deadLocks {
			sids, alive = append(sids, d.stateID), append(alive, false)
		}
		if len(sids) == 0 {
			continue
		}
		st, res, ce := c.raw("test_stateid", &nfsv4_xdr.NfsArgop4_OP_TEST_STATEID{OptestStateid: nfsv4_xdr.TestStateid4args{TsStateids: sids}})
		if ce != nil || st != nfsv4_xdr.NFS4_OK || len(res) != 1 {
			continue // not a lock operation; C18 judges it
		}
		if ok, isOK := res[0].(*nfsv4_xdr.NfsResop4_OP_TEST_STATEID).OptestStateid.(*nfsv4_xdr.TestStateid4res_NFS4_OK); isOK && len(ok.TsrResok4.TsrStatusCodes) == len(sids) {
			for i, code := range ok.TsrResok4.TsrStatusCodes {
				if !alive[i] && code == nfsv4_xdr.NFS4_OK {
					h.fail("C20 "+h.tag()+" stale-request-accepted kind=test-stateid minor=1", fmt.Sprintf("TEST_STATEID reports released lock state ID %v of client %s as valid", sids[i], c.name), nil)
					return
				}
			}
			h.situations["stale:test-stateid"] = true
		}
	}
}
