package c20

// NFS world: both NFSv4 programs over one OpenedFilesPool (as wired in
// pkg/filesystem/virtual/configuration), a fake root directory with a few
// fake leaves, a virtual clock, and a small client side protocol model
// (client IDs, sessions/slots, open-owners with seqids, open and lock state
// IDs) that produces valid requests.

import (
	"context"
	"errors"
	"fmt"
	"io"
	"math/rand/v2"
	"runtime/debug"
	"time"

	"github.com/buildbarn/bb-remote-execution/pkg/filesystem/virtual"
	"github.com/buildbarn/bb-remote-execution/pkg/filesystem/virtual/nfsv4"
	"github.com/buildbarn/bb-storage/pkg/filesystem"
	"github.com/buildbarn/bb-storage/pkg/filesystem/path"
	nfsv4_xdr "github.com/buildbarn/go-xdr/pkg/protocols/nfsv4"
	"github.com/buildbarn/go-xdr/pkg/protocols/rpcv2"

	"verif/internal/vclock"
)

// ---- fakes -----------------------------------------------------------------

type fakeDir struct {
	virtual.ReadOnlyDirectory
	handle []byte
	leaves map[string]*fakeLeaf
}

func (d *fakeDir) VirtualGetAttributes(ctx context.Context, requested virtual.AttributesMask, attributes *virtual.Attributes) {
	attributes.SetFileHandle(d.handle)
	attributes.SetFileType(filesystem.FileTypeDirectory)
	attributes.SetPermissions(virtual.PermissionsRead | virtual.PermissionsWrite | virtual.PermissionsExecute)
	attributes.SetSizeBytes(0)
	attributes.SetLinkCount(2)
	attributes.SetInodeNumber(1)
	attributes.SetChangeID(0)
}

func (d *fakeDir) VirtualApply(data any) bool { return false }

func (d *fakeDir) VirtualOpenChild(ctx context.Context, name path.Component, shareAccess virtual.ShareMask, createAttributes *virtual.Attributes, existingOptions *virtual.OpenExistingOptions, requested virtual.AttributesMask, openedFileAttributes *virtual.Attributes) (virtual.Leaf, virtual.AttributesMask, virtual.ChangeInfo, virtual.Status) {
	l, ok := d.leaves[name.String()]
	if !ok {
		return nil, 0, virtual.ChangeInfo{}, virtual.StatusErrNoEnt
	}
	if existingOptions == nil {
		return nil, 0, virtual.ChangeInfo{}, virtual.StatusErrExist
	}
	l.mu.Lock()
	l.opens++
	l.mu.Unlock()
	l.VirtualGetAttributes(ctx, requested, openedFileAttributes)
	return l, 0, virtual.ChangeInfo{}, virtual.StatusOK
}

func (d *fakeDir) VirtualLookup(ctx context.Context, name path.Component, requested virtual.AttributesMask, out *virtual.Attributes) (virtual.DirectoryChild, virtual.Status) {
	l, ok := d.leaves[name.String()]
	if !ok {
		return virtual.DirectoryChild{}, virtual.StatusErrNoEnt
	}
	l.VirtualGetAttributes(ctx, requested, out)
	return virtual.DirectoryChild{}.FromLeaf(l), virtual.StatusOK
}

func (d *fakeDir) VirtualReadDir(ctx context.Context, firstCookie uint64, requested virtual.AttributesMask, reporter virtual.DirectoryEntryReporter) virtual.Status {
	return virtual.StatusOK
}

// detRand is a deterministic random.SingleThreadedGenerator.
type detRand struct{ r *rand.Rand }

func (d detRand) Float64() float64                   { return d.r.Float64() }
func (d detRand) Int64N(n int64) int64               { return d.r.Int64N(n) }
func (d detRand) IntN(n int) int                     { return d.r.IntN(n) }
func (d detRand) Uint32() uint32                     { return d.r.Uint32() }
func (d detRand) Uint64() uint64                     { return d.r.Uint64() }
func (d detRand) Shuffle(n int, swap func(i, j int)) { d.r.Shuffle(n, swap) }
func (d detRand) Read(p []byte) (int, error) {
	for i := range p {
		p[i] = byte(d.r.Uint32())
	}
	return len(p), nil
}

// ---- world -----------------------------------------------------------------

const (
	nfsLease     = 1000 * time.Second
	nfsStepDelay = time.Second
)

type nfsWorld struct {
	clock   *vclock.Clock
	pool    *nfsv4.OpenedFilesPool
	progs   map[uint32]nfsv4_xdr.Nfs4Program
	dir     *fakeDir
	names   []string
	handles [][]byte
	nextGen int
}

func newNFSWorld(rng *rand.Rand, nFiles int) *nfsWorld {
	w := &nfsWorld{clock: vclock.New(1_700_000_000), progs: map[uint32]nfsv4_xdr.Nfs4Program{}}
	w.dir = &fakeDir{handle: []byte{0xD0, 0x01}, leaves: map[string]*fakeLeaf{}}
	byHandle := map[string]virtual.DirectoryChild{string(w.dir.handle): virtual.DirectoryChild{}.FromDirectory(w.dir)}
	for f := 0; f < nFiles; f++ {
		name := fmt.Sprintf("f%d", f)
		h := []byte{0xFE, 0x10, byte(f)}
		l := &fakeLeaf{handle: h}
		w.dir.leaves[name] = l
		w.names = append(w.names, name)
		w.handles = append(w.handles, h)
		byHandle[string(h)] = virtual.DirectoryChild{}.FromLeaf(l)
	}
	w.pool = nfsv4.NewOpenedFilesPool(func(r io.ByteReader) (virtual.DirectoryChild, virtual.Status) {
		if c, ok := byHandle[string(readAllBytes(r))]; ok {
			return c, virtual.StatusOK
		}
		return virtual.DirectoryChild{}, virtual.StatusErrStale
	})
	sec := []nfsv4_xdr.Secinfo4{&nfsv4_xdr.Secinfo4_default{Flavor: rpcv2.AUTH_NONE}}
	w.progs[0] = nfsv4.NewNFS40Program(
		w.dir, w.pool,
		detRand{rand.New(rand.NewPCG(rng.Uint64(), 40))},
		nfsv4_xdr.Verifier4{1, 2, 3, 4, 5, 6, 7, 8},
		[4]byte{0xab, 0x4f, 0xf6, 0x1c},
		w.clock, nfsLease, nfsLease/2, path.UNIXFormat, sec)
	w.progs[1] = nfsv4.NewNFS41Program(
		w.dir, w.pool,
		nfsv4_xdr.ServerOwner4{SoMinorId: 1, SoMajorId: []byte("c20")},
		[]byte("c20-scope"),
		&nfsv4_xdr.ChannelAttrs4{
			CaMaxrequestsize:        2 * 1024 * 1024,
			CaMaxresponsesize:       2 * 1024 * 1024,
			CaMaxresponsesizeCached: 64 * 1024,
			CaMaxoperations:         1000,
			CaMaxrequests:           4,
		},
		detRand{rand.New(rand.NewPCG(rng.Uint64(), 41))},
		nfsv4_xdr.Verifier4{1, 2, 3, 4, 5, 6, 7, 8},
		w.clock, nfsLease, nfsLease/2, path.UNIXFormat, sec)
	return w
}

// ---- client ----------------------------------------------------------------

type openKey struct {
	oo   string
	file int
}

type lockKey struct {
	oo   string
	file int
	lo   string
}

// panicInfo describes a panic raised by the server while it executed a
// compound.
type panicInfo struct {
	Value string `json:"value"`
	Stack string `json:"stack"`
}

type nfsClient struct {
	w     *nfsWorld
	minor uint32
	prog  nfsv4_xdr.Nfs4Program
	gen   int // unique per registration; the model's notion of "client"
	name  string

	longID   []byte
	verifier [8]byte
	clientID uint64

	// NFSv4.1.
	session   [16]byte
	slotSeq   uint32
	createSeq uint32 // sequence of the last successful CREATE_SESSION

	// NFSv4.0.
	ooSeq   map[string]uint32
	lockSeq map[string]uint32

	opens map[openKey]nfsv4_xdr.Stateid4
	locks map[lockKey]nfsv4_xdr.Stateid4

	// State IDs the server must no longer honour (closed opens, lock
	// state released by CLOSE / RELEASE_LOCKOWNER / FREE_STATEID), and
	// open state IDs superseded by a later OPEN of the same file.
	deadLocks []deadLock
	deadOpens []deadOpen
	oldOpens  []deadOpen

	// seqEpoch counts the seqid-bearing requests sent; lastOps are the
	// operations of the most recent LOCK/LOCKU compound (for retransmits).
	seqEpoch int
	lastOps  []nfsv4_xdr.NfsArgop4

	compounds int
}

type deadLock struct {
	k       lockKey
	stateID nfsv4_xdr.Stateid4
	why     string
}

type deadOpen struct {
	k       openKey
	stateID nfsv4_xdr.Stateid4
	why     string
}

// errSequence is returned by compound when the SEQUENCE operation itself
// failed (e.g. NFS4ERR_BADSESSION for a client whose state was discarded).
var errSequence = errors.New("SEQUENCE failed")

func (w *nfsWorld) newClient(minor uint32, name string, rng *rand.Rand) *nfsClient {
	w.nextGen++
	c := &nfsClient{
		w: w, minor: minor, prog: w.progs[minor], gen: w.nextGen, name: name,
		longID:  []byte(fmt.Sprintf("client-%s-gen%d", name, w.nextGen)),
		ooSeq:   map[string]uint32{},
		lockSeq: map[string]uint32{},
		opens:   map[openKey]nfsv4_xdr.Stateid4{},
		locks:   map[lockKey]nfsv4_xdr.Stateid4{},
	}
	for i := range c.verifier {
		c.verifier[i] = byte(rng.Uint32())
	}
	return c
}

func nextSeq(s uint32) uint32 {
	if s == 0xffffffff {
		return 1
	}
	return s + 1
}

// seqAdvances mirrors RFC 7530 section 9.1.7: the owner's seqid advances
// unless the operation failed with one of these errors.
func seqAdvances(st nfsv4_xdr.Nfsstat4) bool {
	switch st {
	case nfsv4_xdr.NFS4ERR_STALE_CLIENTID, nfsv4_xdr.NFS4ERR_STALE_STATEID, nfsv4_xdr.NFS4ERR_BAD_STATEID,
		nfsv4_xdr.NFS4ERR_BAD_SEQID, nfsv4_xdr.NFS4ERR_BADXDR, nfsv4_xdr.NFS4ERR_RESOURCE,
		nfsv4_xdr.NFS4ERR_NOFILEHANDLE, nfsv4_xdr.NFS4ERR_MOVED:
		return false
	}
	return true
}

// compound sends ops (for 4.1 preceded by SEQUENCE on slot 0) and returns
// the results of ops. A panic inside the server is returned, not propagated.
func (c *nfsClient) compound(tag string, ops ...nfsv4_xdr.NfsArgop4) (res []nfsv4_xdr.NfsResop4, status nfsv4_xdr.Nfsstat4, pi *panicInfo, err error) {
	c.compounds++
	args := &nfsv4_xdr.Compound4args{Tag: tag, Minorversion: c.minor}
	if c.minor == 1 {
		c.slotSeq++
		args.Argarray = append(args.Argarray, &nfsv4_xdr.NfsArgop4_OP_SEQUENCE{Opsequence: nfsv4_xdr.Sequence4args{
			SaSessionid: c.session, SaSequenceid: c.slotSeq, SaSlotid: 0, SaHighestSlotid: 0, SaCachethis: false,
		}})
	}
	args.Argarray = append(args.Argarray, ops...)
	out, pi, err := callCompound(c.prog, args)
	if pi != nil || err != nil {
		return nil, 0, pi, err
	}
	res = out.Resarray
	if c.minor == 1 {
		if len(res) == 0 {
			return nil, out.Status, nil, fmt.Errorf("empty reply to a SEQUENCE compound, status %d", out.Status)
		}
		if seq, ok := res[0].(*nfsv4_xdr.NfsResop4_OP_SEQUENCE); !ok || seq.Opsequence.GetSrStatus() != nfsv4_xdr.NFS4_OK {
			return nil, out.Status, nil, fmt.Errorf("%w, compound status %d", errSequence, out.Status)
		}
		res = res[1:]
	}
	return res, out.Status, nil, nil
}

func callCompound(prog nfsv4_xdr.Nfs4Program, args *nfsv4_xdr.Compound4args) (out *nfsv4_xdr.Compound4res, pi *panicInfo, err error) {
	defer func() {
		if v := recover(); v != nil {
			pi = &panicInfo{Value: fmt.Sprint(v), Stack: string(debug.Stack())}
		}
	}()
	out, err = prog.NfsV4Nfsproc4Compound(context.Background(), args)
	return out, nil, err
}

// clientError is a reply the client model cannot make sense of.
type clientError struct {
	Op     string
	Detail string
	Panic  *panicInfo
}

func (e *clientError) Error() string {
	if e.Panic != nil {
		return fmt.Sprintf("%s: server panic: %s", e.Op, e.Panic.Value)
	}
	return e.Op + ": " + e.Detail
}

func mkErr(op string, pi *panicInfo, err error, format string, a ...any) *clientError {
	if pi != nil {
		return &clientError{Op: op, Panic: pi}
	}
	if err != nil {
		return &clientError{Op: op, Detail: "transport error: " + err.Error()}
	}
	return &clientError{Op: op, Detail: fmt.Sprintf(format, a...)}
}

func (c *nfsClient) register() *clientError {
	st, ce := c.tryRegister()
	if ce != nil {
		return ce
	}
	if st != nfsv4_xdr.NFS4_OK {
		return &clientError{Op: "REGISTER", Detail: fmt.Sprintf("confirmation failed with status %d", st)}
	}
	return nil
}

// tryRegister registers the client. The status of the confirming operation
// (SETCLIENTID_CONFIRM, CREATE_SESSION) is returned rather than treated as
// an error: a server may answer NFS4ERR_DELAY while it cannot discard the
// state of a previous instance of the client.
func (c *nfsClient) tryRegister() (nfsv4_xdr.Nfsstat4, *clientError) {
	if c.minor == 0 {
		res, st, pi, err := c.compound("setclientid", &nfsv4_xdr.NfsArgop4_OP_SETCLIENTID{Opsetclientid: nfsv4_xdr.Setclientid4args{
			Client:        nfsv4_xdr.NfsClientId4{Verifier: c.verifier, Id: c.longID},
			Callback:      nfsv4_xdr.CbClient4{CbProgram: 1, CbLocation: nfsv4_xdr.Clientaddr4{NaRNetid: "tcp", NaRAddr: "127.0.0.1.0.1"}},
			CallbackIdent: 1,
		}})
		if pi != nil || err != nil || st != nfsv4_xdr.NFS4_OK || len(res) != 1 {
			return 0, mkErr("SETCLIENTID", pi, err, "status %d", st)
		}
		ok := res[0].(*nfsv4_xdr.NfsResop4_OP_SETCLIENTID).Opsetclientid.(*nfsv4_xdr.Setclientid4res_NFS4_OK)
		c.clientID = ok.Resok4.Clientid
		_, st, pi, err = c.compound("setclientid_confirm", &nfsv4_xdr.NfsArgop4_OP_SETCLIENTID_CONFIRM{OpsetclientidConfirm: nfsv4_xdr.SetclientidConfirm4args{
			Clientid: c.clientID, SetclientidConfirm: ok.Resok4.SetclientidConfirm,
		}})
		if pi != nil || err != nil {
			return 0, mkErr("SETCLIENTID_CONFIRM", pi, err, "status %d", st)
		}
		return st, nil
	}
	// EXCHANGE_ID and CREATE_SESSION are sent without SEQUENCE.
	out, pi, err := callCompound(c.prog, &nfsv4_xdr.Compound4args{Tag: "exchange_id", Minorversion: 1, Argarray: []nfsv4_xdr.NfsArgop4{
		&nfsv4_xdr.NfsArgop4_OP_EXCHANGE_ID{OpexchangeId: nfsv4_xdr.ExchangeId4args{
			EiaClientowner:  nfsv4_xdr.ClientOwner4{CoVerifier: c.verifier, CoOwnerid: c.longID},
			EiaStateProtect: &nfsv4_xdr.StateProtect4A_SP4_NONE{},
		}},
	}})
	if pi != nil || err != nil || out.Status != nfsv4_xdr.NFS4_OK {
		return 0, mkErr("EXCHANGE_ID", pi, err, "status %v", out)
	}
	eid := out.Resarray[0].(*nfsv4_xdr.NfsResop4_OP_EXCHANGE_ID).OpexchangeId.(*nfsv4_xdr.ExchangeId4res_NFS4_OK)
	c.clientID = eid.EirResok4.EirClientid
	return c.createSession(eid.EirResok4.EirSequenceid)
}

// createSession sends CREATE_SESSION with the given sequence number.
func (c *nfsClient) createSession(sequence uint32) (nfsv4_xdr.Nfsstat4, *clientError) {
	attrs := nfsv4_xdr.ChannelAttrs4{CaMaxrequestsize: 1 << 20, CaMaxresponsesize: 1 << 20, CaMaxresponsesizeCached: 1 << 16, CaMaxoperations: 1000, CaMaxrequests: 4}
	out, pi, err := callCompound(c.prog, &nfsv4_xdr.Compound4args{Tag: "create_session", Minorversion: 1, Argarray: []nfsv4_xdr.NfsArgop4{
		&nfsv4_xdr.NfsArgop4_OP_CREATE_SESSION{OpcreateSession: nfsv4_xdr.CreateSession4args{
			CsaClientid: c.clientID, CsaSequence: sequence,
			CsaForeChanAttrs: attrs, CsaBackChanAttrs: attrs,
		}},
	}})
	if pi != nil || err != nil || len(out.Resarray) != 1 {
		return 0, mkErr("CREATE_SESSION", pi, err, "status %v", out)
	}
	cs, ok := out.Resarray[0].(*nfsv4_xdr.NfsResop4_OP_CREATE_SESSION).OpcreateSession.(*nfsv4_xdr.CreateSession4res_NFS4_OK)
	if !ok {
		return out.Status, nil
	}
	c.session = cs.CsrResok4.CsrSessionid
	c.slotSeq = 0
	c.createSeq = sequence
	return nfsv4_xdr.NFS4_OK, nil
}

// destroySession sends DESTROY_SESSION for the client's session.
func (c *nfsClient) destroySession() (nfsv4_xdr.Nfsstat4, *clientError) {
	out, pi, err := callCompound(c.prog, &nfsv4_xdr.Compound4args{Tag: "destroy_session", Minorversion: 1, Argarray: []nfsv4_xdr.NfsArgop4{
		&nfsv4_xdr.NfsArgop4_OP_DESTROY_SESSION{OpdestroySession: nfsv4_xdr.DestroySession4args{DsaSessionid: c.session}},
	}})
	if pi != nil || err != nil {
		return 0, mkErr("DESTROY_SESSION", pi, err, "")
	}
	return out.Status, nil
}

// destroyClientID sends DESTROY_CLIENTID for the client.
func (c *nfsClient) destroyClientID() (nfsv4_xdr.Nfsstat4, *clientError) {
	out, pi, err := callCompound(c.prog, &nfsv4_xdr.Compound4args{Tag: "destroy_clientid", Minorversion: 1, Argarray: []nfsv4_xdr.NfsArgop4{
		&nfsv4_xdr.NfsArgop4_OP_DESTROY_CLIENTID{OpdestroyClientid: nfsv4_xdr.DestroyClientid4args{DcaClientid: c.clientID}},
	}})
	if pi != nil || err != nil {
		return 0, mkErr("DESTROY_CLIENTID", pi, err, "")
	}
	return out.Status, nil
}

func (c *nfsClient) putfh(file int) nfsv4_xdr.NfsArgop4 {
	return &nfsv4_xdr.NfsArgop4_OP_PUTFH{Opputfh: nfsv4_xdr.Putfh4args{Object: c.w.handles[file]}}
}

func (c *nfsClient) owner(b string) nfsv4_xdr.StateOwner4 {
	return nfsv4_xdr.StateOwner4{Clientid: c.clientID, Owner: []byte(b)}
}

// open opens file for open-owner oo (confirming the open-owner if the server
// asks for it) and remembers the open state ID.
func (c *nfsClient) open(oo string, file int) *clientError {
	c.seqEpoch++
	if _, ok := c.ooSeq[oo]; !ok {
		c.ooSeq[oo] = 1000 * uint32(len(c.ooSeq)+1)
	}
	res, st, pi, err := c.compound("open",
		&nfsv4_xdr.NfsArgop4_OP_PUTROOTFH{},
		&nfsv4_xdr.NfsArgop4_OP_OPEN{Opopen: nfsv4_xdr.Open4args{
			Seqid:       c.ooSeq[oo],
			ShareAccess: nfsv4_xdr.OPEN4_SHARE_ACCESS_BOTH,
			ShareDeny:   nfsv4_xdr.OPEN4_SHARE_DENY_NONE,
			Owner:       c.owner(oo),
			Openhow:     &nfsv4_xdr.Openflag4_default{},
			Claim:       &nfsv4_xdr.OpenClaim4_CLAIM_NULL{File: c.w.names[file]},
		}},
		&nfsv4_xdr.NfsArgop4_OP_GETFH{},
	)
	if pi != nil || err != nil || st != nfsv4_xdr.NFS4_OK || len(res) != 3 {
		return mkErr("OPEN", pi, err, "status %d", st)
	}
	ok := res[1].(*nfsv4_xdr.NfsResop4_OP_OPEN).Opopen.(*nfsv4_xdr.Open4res_NFS4_OK)
	stateID := ok.Resok4.Stateid
	if c.minor == 0 {
		c.ooSeq[oo] = nextSeq(c.ooSeq[oo])
		if ok.Resok4.Rflags&nfsv4_xdr.OPEN4_RESULT_CONFIRM != 0 {
			res, st, pi, err := c.compound("open_confirm", c.putfh(file),
				&nfsv4_xdr.NfsArgop4_OP_OPEN_CONFIRM{OpopenConfirm: nfsv4_xdr.OpenConfirm4args{OpenStateid: stateID, Seqid: c.ooSeq[oo]}})
			if pi != nil || err != nil || st != nfsv4_xdr.NFS4_OK || len(res) != 2 {
				return mkErr("OPEN_CONFIRM", pi, err, "status %d", st)
			}
			c.ooSeq[oo] = nextSeq(c.ooSeq[oo])
			stateID = res[1].(*nfsv4_xdr.NfsResop4_OP_OPEN_CONFIRM).OpopenConfirm.(*nfsv4_xdr.OpenConfirm4res_NFS4_OK).Resok4.OpenStateid
		}
	}
	if prev, ok := c.opens[openKey{oo, file}]; ok && prev != stateID {
		c.oldOpens = append(c.oldOpens, deadOpen{openKey{oo, file}, prev, "superseded by a later OPEN"})
	}
	c.opens[openKey{oo, file}] = stateID
	return nil
}

// lock sends LOCK. With forceNew (or when no lock state ID is known for
// (oo, file, lo)) the open_to_lock_owner4 form is used.
func (c *nfsClient) lock(oo string, file int, lo string, offset, length uint64, lt nfsv4_xdr.NfsLockType4, forceNew bool) (nfsv4_xdr.Lock4res, bool, *clientError) {
	k := lockKey{oo, file, lo}
	lockStateID, have := c.locks[k]
	isNew := forceNew || !have
	args := nfsv4_xdr.Lock4args{Locktype: lt, Offset: offset, Length: length}
	if _, ok := c.lockSeq[lo]; !ok {
		c.lockSeq[lo] = 7000 * uint32(len(c.lockSeq)+1)
	}
	if isNew {
		openStateID, ok := c.opens[openKey{oo, file}]
		if !ok {
			return nil, isNew, &clientError{Op: "LOCK", Detail: "harness: file not open"}
		}
		args.Locker = &nfsv4_xdr.Locker4_TRUE{OpenOwner: nfsv4_xdr.OpenToLockOwner4{
			OpenSeqid: c.ooSeq[oo], OpenStateid: openStateID, LockSeqid: c.lockSeq[lo], LockOwner: c.owner(lo),
		}}
	} else {
		args.Locker = &nfsv4_xdr.Locker4_FALSE{LockOwner: nfsv4_xdr.ExistLockOwner4{LockStateid: lockStateID, LockSeqid: c.lockSeq[lo]}}
	}
	c.seqEpoch++
	c.lastOps = []nfsv4_xdr.NfsArgop4{c.putfh(file), &nfsv4_xdr.NfsArgop4_OP_LOCK{Oplock: args}}
	res, _, pi, err := c.compound("lock", c.lastOps...)
	if pi != nil || err != nil || len(res) != 2 {
		return nil, isNew, mkErr("LOCK", pi, err, "reply has %d results", len(res))
	}
	lres := res[1].(*nfsv4_xdr.NfsResop4_OP_LOCK).Oplock
	if c.minor == 0 && seqAdvances(lres.GetStatus()) {
		if isNew {
			c.ooSeq[oo] = nextSeq(c.ooSeq[oo])
		}
		c.lockSeq[lo] = nextSeq(c.lockSeq[lo])
	}
	if ok, isOK := lres.(*nfsv4_xdr.Lock4res_NFS4_OK); isOK {
		c.locks[k] = ok.Resok4.LockStateid
	}
	return lres, isNew, nil
}

type locktReq struct {
	offset, length uint64
	lt             nfsv4_xdr.NfsLockType4
}

// lockt sends one compound with a LOCKT per request and resumes after every
// denied one (a failing operation ends a compound).
func (c *nfsClient) lockt(file int, lo string, reqs []locktReq) ([]nfsv4_xdr.Lockt4res, *clientError) {
	out := make([]nfsv4_xdr.Lockt4res, 0, len(reqs))
	for len(out) < len(reqs) {
		ops := []nfsv4_xdr.NfsArgop4{c.putfh(file)}
		for _, q := range reqs[len(out):] {
			ops = append(ops, &nfsv4_xdr.NfsArgop4_OP_LOCKT{Oplockt: nfsv4_xdr.Lockt4args{Locktype: q.lt, Offset: q.offset, Length: q.length, Owner: c.owner(lo)}})
		}
		res, _, pi, err := c.compound("lockt", ops...)
		if pi != nil || err != nil || len(res) < 2 {
			return out, mkErr("LOCKT", pi, err, "reply has %d results", len(res))
		}
		for _, r := range res[1:] {
			out = append(out, r.(*nfsv4_xdr.NfsResop4_OP_LOCKT).Oplockt)
		}
	}
	return out, nil
}

func (c *nfsClient) locku(oo string, file int, lo string, offset, length uint64) (nfsv4_xdr.Locku4res, *clientError) {
	k := lockKey{oo, file, lo}
	c.seqEpoch++
	c.lastOps = []nfsv4_xdr.NfsArgop4{c.putfh(file), &nfsv4_xdr.NfsArgop4_OP_LOCKU{Oplocku: nfsv4_xdr.Locku4args{
		Locktype: nfsv4_xdr.READ_LT, Seqid: c.lockSeq[lo], LockStateid: c.locks[k], Offset: offset, Length: length,
	}}}
	res, _, pi, err := c.compound("locku", c.lastOps...)
	if pi != nil || err != nil || len(res) != 2 {
		return nil, mkErr("LOCKU", pi, err, "reply has %d results", len(res))
	}
	ures := res[1].(*nfsv4_xdr.NfsResop4_OP_LOCKU).Oplocku
	if c.minor == 0 && seqAdvances(ures.GetStatus()) {
		c.lockSeq[lo] = nextSeq(c.lockSeq[lo])
	}
	if ok, isOK := ures.(*nfsv4_xdr.Locku4res_NFS4_OK); isOK {
		c.locks[k] = ok.LockStateid
	}
	return ures, nil
}

// close sends CLOSE for (oo, file). On success the open and all lock state
// IDs derived from it are forgotten; their lock-owners are returned.
func (c *nfsClient) close(oo string, file int) (nfsv4_xdr.Nfsstat4, []string, *clientError) {
	k := openKey{oo, file}
	c.seqEpoch++
	res, _, pi, err := c.compound("close", c.putfh(file), &nfsv4_xdr.NfsArgop4_OP_CLOSE{Opclose: nfsv4_xdr.Close4args{Seqid: c.ooSeq[oo], OpenStateid: c.opens[k]}})
	if pi != nil || err != nil || len(res) != 2 {
		return 0, nil, mkErr("CLOSE", pi, err, "reply has %d results", len(res))
	}
	st := res[1].(*nfsv4_xdr.NfsResop4_OP_CLOSE).Opclose.GetStatus()
	if c.minor == 0 && seqAdvances(st) {
		c.ooSeq[oo] = nextSeq(c.ooSeq[oo])
	}
	var los []string
	if st == nfsv4_xdr.NFS4_OK {
		c.deadOpens = append(c.deadOpens, deadOpen{k, c.opens[k], "closed"})
		delete(c.opens, k)
		for lk, sid := range c.locks {
			if lk.oo == oo && lk.file == file {
				los = append(los, lk.lo)
				c.deadLocks = append(c.deadLocks, deadLock{lk, sid, "open closed"})
				delete(c.locks, lk)
			}
		}
	}
	return st, los, nil
}

func (c *nfsClient) releaseLockOwner(lo string) (nfsv4_xdr.Nfsstat4, *clientError) {
	res, _, pi, err := c.compound("release_lockowner", &nfsv4_xdr.NfsArgop4_OP_RELEASE_LOCKOWNER{OpreleaseLockowner: nfsv4_xdr.ReleaseLockowner4args{LockOwner: c.owner(lo)}})
	if pi != nil || err != nil || len(res) != 1 {
		return 0, mkErr("RELEASE_LOCKOWNER", pi, err, "reply has %d results", len(res))
	}
	st := res[0].(*nfsv4_xdr.NfsResop4_OP_RELEASE_LOCKOWNER).OpreleaseLockowner.Status
	if st == nfsv4_xdr.NFS4_OK {
		for lk, sid := range c.locks {
			if lk.lo == lo {
				c.deadLocks = append(c.deadLocks, deadLock{lk, sid, "lock-owner released"})
				delete(c.locks, lk)
			}
		}
	}
	return st, nil
}

func (c *nfsClient) freeStateID(k lockKey) (nfsv4_xdr.Nfsstat4, *clientError) {
	res, _, pi, err := c.compound("free_stateid", &nfsv4_xdr.NfsArgop4_OP_FREE_STATEID{OpfreeStateid: nfsv4_xdr.FreeStateid4args{FsaStateid: c.locks[k]}})
	if pi != nil || err != nil || len(res) != 1 {
		return 0, mkErr("FREE_STATEID", pi, err, "reply has %d results", len(res))
	}
	st := res[0].(*nfsv4_xdr.NfsResop4_OP_FREE_STATEID).OpfreeStateid.FsrStatus
	if st == nfsv4_xdr.NFS4_OK {
		c.deadLocks = append(c.deadLocks, deadLock{k, c.locks[k], "state ID freed"})
		delete(c.locks, k)
	}
	return st, nil
}

// renew extends the client's lease.
func (c *nfsClient) renew() *clientError {
	if c.minor == 0 {
		_, st, pi, err := c.compound("renew", &nfsv4_xdr.NfsArgop4_OP_RENEW{Oprenew: nfsv4_xdr.Renew4args{Clientid: c.clientID}})
		if pi != nil || err != nil || st != nfsv4_xdr.NFS4_OK {
			return mkErr("RENEW", pi, err, "status %d", st)
		}
		return nil
	}
	_, st, pi, err := c.compound("sequence")
	if pi != nil || err != nil || st != nfsv4_xdr.NFS4_OK {
		return mkErr("SEQUENCE", pi, err, "status %d", st)
	}
	return nil
}

// read sends READ of one byte with the given state ID.
func (c *nfsClient) read(file int, stateID nfsv4_xdr.Stateid4) (nfsv4_xdr.Nfsstat4, *clientError) {
	res, st, pi, err := c.compound("read", c.putfh(file), &nfsv4_xdr.NfsArgop4_OP_READ{Opread: nfsv4_xdr.Read4args{Stateid: stateID, Offset: 0, Count: 1}})
	if pi != nil || err != nil || len(res) != 2 {
		return st, mkErr("READ", pi, err, "reply has %d results", len(res))
	}
	return st, nil
}

// raw sends an arbitrary compound without any bookkeeping and returns the
// status of the compound and its last result. A failing SEQUENCE counts as a
// status, not as an error.
func (c *nfsClient) raw(tag string, ops ...nfsv4_xdr.NfsArgop4) (nfsv4_xdr.Nfsstat4, []nfsv4_xdr.NfsResop4, *clientError) {
	res, st, pi, err := c.compound(tag, ops...)
	if errors.Is(err, errSequence) {
		return st, nil, nil
	}
	if pi != nil || err != nil {
		return st, nil, mkErr(tag, pi, err, "")
	}
	return st, res, nil
}
