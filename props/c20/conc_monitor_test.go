package c20

// Interval based oracle for the concurrent rounds (OpenedFile and NFS level).
//
// Every owner is driven by exactly one goroutine, so the locks an owner holds
// change only through that goroutine's own granted requests and are known
// exactly. What is not known is the order of requests of different owners.
// With one process wide logical clock every call gets a [t0, t1] interval
// (ticks taken immediately before the call and after its return). A lock is
// *certainly* held from the t1 of the call that acquired it until the t0 of
// the call that released it, and *possibly* held from that t0 until that t1.
//
//   - exclusion: two different owners certainly holding a common byte at the
//     same tick, at least one of them exclusively, refutes the property;
//   - a denied request must name a lock that its owner possibly held at some
//     tick of the denied call (and the named range/type must be consistent with
//     what that owner possibly held);
//   - a request that was granted (or LOCKT that reported no conflict) refutes
//     the property if another owner certainly held a conflicting byte during
//     the whole call.

import (
	"fmt"
	"math"
	"sort"
	"sync"
	"sync/atomic"
)

const tickInf = int64(math.MaxInt64)

type hold struct {
	owner, file, cell int
	typ               uint8
	possibleStart     int64
	certainStart      int64
	certainEnd        int64
	possibleEnd       int64
}

type concDenial struct {
	op          string
	owner, file int
	r           cellRange
	typ         uint8
	t0, t1      int64
	dOwner      int
	dStart      uint64
	dEnd        uint64
	dType       uint8
}

type concGrant struct {
	op          string
	owner, file int
	r           cellRange
	typ         uint8
	t0, t1      int64
}

type concMonitor struct {
	tick atomic.Int64

	mu      sync.Mutex
	holds   []*hold
	denials []concDenial
	grants  []concGrant
}

func (mon *concMonitor) now() int64 { return mon.tick.Add(1) }

// ownerView is the private, exactly known lock state of one owner; only the
// goroutine driving that owner touches it.
type ownerView struct {
	mon   *concMonitor
	owner int
	cur   map[int]*[maxCells]*hold // file -> cell -> current hold
}

func (mon *concMonitor) newOwnerView(owner int) *ownerView {
	return &ownerView{mon: mon, owner: owner, cur: map[int]*[maxCells]*hold{}}
}

func (ov *ownerView) row(file int) *[maxCells]*hold {
	row := ov.cur[file]
	if row == nil {
		row = &[maxCells]*hold{}
		ov.cur[file] = row
	}
	return row
}

// entries is the canonical number of lock table entries of this owner on file.
func (ov *ownerView) entries(file int) int {
	row := ov.row(file)
	n := 0
	prev := tNone
	for c := 0; c < nCells; c++ {
		h := tNone
		if row[c] != nil {
			h = row[c].typ
		}
		if h != tNone && h != prev {
			n++
		}
		prev = h
	}
	return n
}

func (ov *ownerView) holdsAny(file int) bool {
	row := ov.row(file)
	for c := 0; c < nCells; c++ {
		if row[c] != nil {
			return true
		}
	}
	return false
}

// apply records a granted lock (t != tNone) or unlock of cells r that was
// issued in [t0, t1].
func (ov *ownerView) apply(file int, r cellRange, t uint8, t0, t1 int64) {
	row := ov.row(file)
	var fresh []*hold
	for c := r.ci; c < r.cj; c++ {
		cur := row[c]
		if cur != nil && cur.typ == t {
			continue
		}
		if cur != nil {
			cur.certainEnd, cur.possibleEnd = t0, t1
			row[c] = nil
		}
		if t != tNone {
			h := &hold{owner: ov.owner, file: file, cell: c, typ: t, possibleStart: t0, certainStart: t1, certainEnd: tickInf, possibleEnd: tickInf}
			row[c] = h
			fresh = append(fresh, h)
		}
	}
	if len(fresh) > 0 {
		ov.mon.mu.Lock()
		ov.mon.holds = append(ov.mon.holds, fresh...)
		ov.mon.mu.Unlock()
	}
}

func (mon *concMonitor) denied(d concDenial) {
	mon.mu.Lock()
	mon.denials = append(mon.denials, d)
	mon.mu.Unlock()
}

func (mon *concMonitor) granted(g concGrant) {
	mon.mu.Lock()
	mon.grants = append(mon.grants, g)
	mon.mu.Unlock()
}

type concProblem struct {
	sig, detail string
}

// finalModel returns, per file, the exact ownership map at quiescence.
func (mon *concMonitor) finalModel(nFiles, nOwners int) []*fileModel {
	ms := make([]*fileModel, nFiles)
	for i := range ms {
		ms[i] = newFileModel(nOwners)
	}
	for _, h := range mon.holds {
		if h.certainEnd == tickInf {
			ms[h.file].set(h.owner, cellRange{h.cell, h.cell + 1}, h.typ)
		}
	}
	return ms
}

// check evaluates the three interval rules. Must only be called after all
// workload goroutines have been joined.
func (mon *concMonitor) check(layer string) (problems []concProblem, stats map[string]int) {
	stats = map[string]int{}
	type key struct{ file, cell int }
	byCell := map[key][]*hold{}
	for _, h := range mon.holds {
		k := key{h.file, h.cell}
		byCell[k] = append(byCell[k], h)
	}
	keys := make([]key, 0, len(byCell))
	for k := range byCell {
		keys = append(keys, k)
	}
	sort.Slice(keys, func(i, j int) bool {
		if keys[i].file != keys[j].file {
			return keys[i].file < keys[j].file
		}
		return keys[i].cell < keys[j].cell
	})

	// Rule 1: exclusion.
	for _, k := range keys {
		hs := byCell[k]
		for i := 0; i < len(hs); i++ {
			for j := i + 1; j < len(hs); j++ {
				a, b := hs[i], hs[j]
				if a.owner == b.owner || (a.typ != tExcl && b.typ != tExcl) {
					continue
				}
				lo, hi := max(a.certainStart, b.certainStart), min(a.certainEnd, b.certainEnd)
				stats["exclusion_pairs"]++
				if lo < hi {
					problems = append(problems, concProblem{
						sig:    "C20 " + layer + " conc two-owners-hold-conflicting-byte",
						detail: fmt.Sprintf("file %d byte cell [%s,%s): owner %d holds it %s during ticks [%d,%d) and owner %d holds it %s during ticks [%d,%d)", k.file, fmtOff(bounds[k.cell]), fmtOff(bounds[k.cell+1]), a.owner, typeName(a.typ), a.certainStart, a.certainEnd, b.owner, typeName(b.typ), b.certainStart, b.certainEnd),
					})
				}
			}
		}
	}

	possibly := func(h *hold, t0, t1 int64) bool { return h.possibleStart <= t1 && h.possibleEnd >= t0 }

	// Rule 2: every denial is justified.
	for _, d := range mon.denials {
		stats["denials"]++
		si, ei := boundIndex(d.dStart), boundIndex(d.dEnd)
		bad := ""
		switch {
		case d.dOwner < 0:
			bad = "names an owner that does not exist"
		case d.dOwner == d.owner:
			bad = "names the requesting owner itself"
		case si < 0 || ei < 0 || si >= ei:
			bad = fmt.Sprintf("names range [%s,%s), which nobody ever locked", fmtOff(d.dStart), fmtOff(d.dEnd))
		case ei <= d.r.ci || si >= d.r.cj:
			bad = "names a range that does not overlap the request"
		case d.dType != tExcl && d.typ != tExcl:
			bad = "names a shared lock although the request is shared"
		}
		if bad == "" {
			for c := si; c < ei && bad == ""; c++ {
				found := false
				for _, h := range byCell[key{d.file, c}] {
					if h.owner == d.dOwner && h.typ == d.dType && possibly(h, d.t0, d.t1) {
						found = true
						break
					}
				}
				if !found {
					bad = fmt.Sprintf("names [%s,%s) %s of owner %d, but that owner did not hold byte cell %d with that type at any tick of the call", fmtOff(d.dStart), fmtOff(d.dEnd), typeName(d.dType), d.dOwner, c)
				}
			}
		}
		if bad != "" {
			sig := "C20 " + layer + " conc denial-not-justified op=" + d.op
			if d.dOwner == d.owner {
				sig = "C20 " + layer + " conc owner-blocked-by-own-lock op=" + d.op
			}
			problems = append(problems, concProblem{
				sig:    sig,
				detail: fmt.Sprintf("%s by owner %d on file %d %v %s during ticks [%d,%d] was denied; the reply %s", d.op, d.owner, d.file, d.r, typeName(d.typ), d.t0, d.t1, bad),
			})
		}
	}

	// Rule 3: nothing is granted against a lock that was certainly held
	// by another owner during the whole call.
	for _, g := range mon.grants {
		stats["grants"]++
		for c := g.r.ci; c < g.r.cj; c++ {
			for _, h := range byCell[key{g.file, c}] {
				if h.owner != g.owner && (h.typ == tExcl || g.typ == tExcl) && h.certainStart <= g.t0 && h.certainEnd >= g.t1 {
					problems = append(problems, concProblem{
						sig:    "C20 " + layer + " conc granted-against-held-lock op=" + g.op,
						detail: fmt.Sprintf("%s by owner %d on file %d %v %s during ticks [%d,%d] found no conflict although owner %d held byte cell %d %s during ticks [%d,%d)", g.op, g.owner, g.file, g.r, typeName(g.typ), g.t0, g.t1, h.owner, c, typeName(h.typ), h.certainStart, h.certainEnd),
					})
				}
			}
		}
	}
	return problems, stats
}
