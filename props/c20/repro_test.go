package c20

// Minimal reproductions of the defects found by TestCheck. They are not run
// by ./check (which selects ^TestCheck$); run them ad hoc with
//
//	go test -tags verif -run 'TestRepro' -v ./props/c20
//
// Each test fails on a tree that has the defect and passes once it is fixed.

import (
	"math/rand/v2"
	"testing"

	nfsv4_xdr "github.com/buildbarn/go-xdr/pkg/protocols/nfsv4"
)

func reproClient(t *testing.T, minor uint32) *nfsClient {
	rng := rand.New(rand.NewPCG(1, 2))
	w := newNFSWorld(rng, 1)
	c := w.newClient(minor, "c0", rng)
	if ce := c.register(); ce != nil {
		t.Fatal(ce)
	}
	return c
}

func mustOpen(t *testing.T, c *nfsClient, oo string) {
	if ce := c.open(oo, 0); ce != nil {
		t.Fatal(ce)
	}
}

func mustLock(t *testing.T, c *nfsClient, oo, lo string, offset, length uint64) {
	res, _, ce := c.lock(oo, 0, lo, offset, length, nfsv4_xdr.WRITE_LT, false)
	if ce != nil {
		t.Fatal(ce)
	}
	if res.GetStatus() != nfsv4_xdr.NFS4_OK {
		t.Fatalf("LOCK [%d,+%d) by %s through %s: status %d", offset, length, lo, oo, res.GetStatus())
	}
}

// NFSv4.1 LOCK with a new lock-owner does not register the lock-owner, so
// LOCKT (and a second open-owner) see the owner's own lock as a conflict.
func TestReproNFS41LockOwnerIdentity(t *testing.T) {
	c := reproClient(t, 1)
	mustOpen(t, c, "A")
	mustLock(t, c, "A", "L", 0, 1)
	rs, ce := c.lockt(0, "L", []locktReq{{0, 1, nfsv4_xdr.WRITE_LT}})
	if ce != nil {
		t.Fatal(ce)
	}
	if rs[0].GetStatus() != nfsv4_xdr.NFS4_OK {
		t.Errorf("LOCKT [0,1) by lock-owner L, which holds [0,1) itself: status %d, want NFS4_OK", rs[0].GetStatus())
	}
	mustOpen(t, c, "B")
	res, _, ce := c.lock("B", 0, "L", 0, 1, nfsv4_xdr.WRITE_LT, false)
	if ce != nil {
		t.Fatal(ce)
	}
	if res.GetStatus() != nfsv4_xdr.NFS4_OK {
		t.Errorf("LOCK [0,1) by lock-owner L through a second open-owner: status %d, want NFS4_OK", res.GetStatus())
	}
}

// NFSv4.1 FREE_STATEID of a lock state ID that still has locks panics
// instead of returning NFS4ERR_LOCKS_HELD.
func TestReproNFS41FreeStateIDLocksHeld(t *testing.T) {
	c := reproClient(t, 1)
	mustOpen(t, c, "A")
	mustLock(t, c, "A", "L", 0, 1)
	st, ce := c.freeStateID(lockKey{"A", 0, "L"})
	if ce != nil {
		t.Fatalf("FREE_STATEID with a lock held: %v", ce)
	}
	if st != nfsv4_xdr.NFS4ERR_LOCKS_HELD {
		t.Errorf("FREE_STATEID with a lock held: status %d, want NFS4ERR_LOCKS_HELD", st)
	}
}

// One lock-owner that locks the same file through two open-owners gets two
// lock-owner files with separate lock counts, although the locks belong to
// the lock-owner: LOCKU through one of them of a range acquired through the
// other one drives its count negative ("Negative lock count" panic); CLOSE
// panics with "Failed to release locks" / "Lock-owner file still holds one or
// more locks". NFSv4.1 needs the lock-owner registration fix to get here.
func TestReproLockCountPerLockOwnerFile(t *testing.T) {
	for _, minor := range []uint32{0, 1} {
		c := reproClient(t, minor)
		mustOpen(t, c, "A")
		mustOpen(t, c, "B")
		mustLock(t, c, "A", "L", 0, 1)
		if minor == 1 {
			if res, _, ce := c.lock("B", 0, "L", 0, 1, nfsv4_xdr.WRITE_LT, false); ce != nil || res.GetStatus() != nfsv4_xdr.NFS4_OK {
				t.Logf("v4.1: skipped, lock-owner identity defect present (see TestReproNFS41LockOwnerIdentity)")
				continue
			}
		}
		mustLock(t, c, "B", "L", 2, 1)
		res, ce := c.locku("B", 0, "L", 0, 3)
		if ce != nil {
			t.Errorf("v4.%d: LOCKU [0,3) through open-owner B: %v", minor, ce)
			continue
		}
		if res.GetStatus() != nfsv4_xdr.NFS4_OK {
			t.Errorf("v4.%d: LOCKU [0,3): status %d", minor, res.GetStatus())
		}
		if st, _, ce := c.close("A", 0); ce != nil || st != nfsv4_xdr.NFS4_OK {
			t.Errorf("v4.%d: CLOSE of open-owner A: status %d, %v", minor, st, ce)
		}
	}
}
