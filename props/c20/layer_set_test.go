package c20

// Layer (a): virtual.ByteRangeLockSet driven directly, single threaded (the
// type is documented as not thread safe).

import (
	"fmt"
	"runtime/debug"
	"strings"

	"github.com/buildbarn/bb-remote-execution/pkg/filesystem/virtual"

	"verif/internal/ev"
)

// setOp is one step of a layer (a) history, with what was observed.
type setOp struct {
	Kind  string `json:"kind"` // lock | test | unlock
	Owner int    `json:"owner"`
	Start string `json:"start"`
	End   string `json:"end"`
	Type  string `json:"type"`
	// Observations.
	Conflict string `json:"conflict,omitempty"` // reported conflicting lock
	Delta    *int   `json:"delta,omitempty"`    // value returned by Set
	Expected string `json:"expected,omitempty"`
}

type setWitness struct {
	Layer   string  `json:"layer"`
	Seed    uint64  `json:"seed"`
	Case    int     `json:"case"`
	Owners  int     `json:"owners"`
	Ops     []setOp `json:"ops"`
	Model   string  `json:"model_after_last_good_step"`
	Problem string  `json:"problem"`
}

func lockString(l *virtual.ByteRangeLock[int]) string {
	if l == nil {
		return ""
	}
	return fmt.Sprintf("owner=%d [%s,%s) %s", l.Owner, fmtOff(l.Start), fmtOff(l.End), typeName(uint8(l.Type)))
}

// runSetCase runs one stepped history against a fresh ByteRangeLockSet.
func runSetCase(r *ev.Run, idx int) {
	rng := r.Rand(0xA, uint64(idx))
	nOwners := 1 + rng.IntN(4)
	steps := 8 + rng.IntN(33)
	pShared := []int{20, 50, 80}[rng.IntN(3)]
	r.Case("set case=%d owners=%d steps=%d pShared=%d", idx, nOwners, steps, pShared)

	var ls virtual.ByteRangeLockSet[int]
	ls.Initialize()
	probeOwner := nOwners // an owner that never holds anything
	m := newFileModel(nOwners + 1)

	var ops []setOp
	situations := map[string]bool{}
	fail := func(sig, problem string) {
		r.Violation(sig, problem, setWitness{Layer: "set", Seed: r.Seed(), Case: idx, Owners: nOwners, Ops: ops, Model: m.String(), Problem: problem})
	}
	// The lock set asserts its own invariants with panic(). Only valid
	// requests are issued, so such a panic is an oracle hit; it is
	// recorded and the remaining cases still run.
	defer func() {
		if v := recover(); v != nil {
			if s, ok := v.(string); ok && strings.HasPrefix(s, "harness:") {
				panic(v)
			}
			fail("C20 set panic msg="+sigWord(fmt.Sprint(v)), fmt.Sprintf("ByteRangeLockSet panicked: %v\n%s", v, debug.Stack()))
		}
	}()
	probes := 0

	for step := 0; step < steps; step++ {
		owner := rng.IntN(nOwners)
		cr := genRange(rng)
		kindRoll := rng.IntN(100)
		op := setOp{Owner: owner, Start: fmtOff(cr.start()), End: fmtOff(cr.end())}
		var t uint8
		switch {
		case kindRoll < 50:
			op.Kind, t = "lock", genType(rng, pShared)
		case kindRoll < 68:
			op.Kind, t = "test", genType(rng, pShared)
		default:
			op.Kind, t = "unlock", tNone
		}
		op.Type = typeName(t)
		if cr.cj == nCells {
			situations["range-ending-at-max"] = true
		}

		lock := virtual.ByteRangeLock[int]{Owner: owner, Start: cr.start(), End: cr.end(), Type: virtual.ByteRangeLockType(t)}
		ok := true
		doSet := op.Kind == "unlock"
		if op.Kind != "unlock" {
			// Test: conflict reported <=> the model has a conflict.
			want := m.conflict(owner, cr, t)
			got := ls.Test(&lock)
			op.Conflict = lockString(got)
			op.Expected = fmt.Sprintf("conflict=%v", want)
			ops = append(ops, op)
			if m.holdsAnyIn(owner, cr) && !want {
				situations["own-lock-does-not-block"] = true
			}
			switch {
			case got == nil && want:
				fail("C20 set test-missed-conflict type="+typeName(t), fmt.Sprintf("step %d: Test(%v owner %d %s) returned no conflict, but another owner holds a conflicting byte; model %s", step, cr, owner, typeName(t), m))
				ok = false
			case got != nil && !want:
				sig := "C20 set test-spurious-conflict type=" + typeName(t)
				if got.Owner == owner {
					sig = "C20 set owner-blocked-by-own-lock type=" + typeName(t)
				}
				fail(sig, fmt.Sprintf("step %d: Test(%v owner %d %s) reported %s, but no other owner holds a conflicting byte; model %s", step, cr, owner, typeName(t), lockString(got), m))
				ok = false
			case got != nil:
				situations["denied"] = true
				if rule, detail := m.checkReported(owner, cr, t, got.Owner, got.Start, got.End, uint8(got.Type)); rule != "" {
					fail("C20 set "+rule, fmt.Sprintf("step %d: Test(%v owner %d %s) reported %s: %s; model %s", step, cr, owner, typeName(t), lockString(got), detail, m))
					ok = false
				}
			}
			if !ok {
				return
			}
			doSet = op.Kind == "lock" && got == nil
		} else {
			ops = append(ops, op)
		}

		if doSet {
			// Set (lock that does not conflict, or unlock).
			before := m.entries(owner)
			totalBefore := m.totalEntries()
			classifySetSituations(m, owner, cr, t, situations)
			m.set(owner, cr, t)
			wantDelta := m.entries(owner) - before
			if m.totalEntries()-totalBefore != wantDelta {
				panic("harness: model entry accounting inconsistent")
			}
			delta := ls.Set(&lock)
			ops[len(ops)-1].Delta = &delta
			ops[len(ops)-1].Expected += fmt.Sprintf(" delta=%d", wantDelta)
			if delta != wantDelta {
				fail("C20 set entry-count-delta kind="+op.Kind, fmt.Sprintf("step %d: Set(%v owner %d %s) returned delta %d, canonical form changes by %d; model after %s", step, cr, owner, typeName(t), delta, wantDelta, m))
				return
			}
			if inv := m.invariant(); inv != "" {
				fail("C20 set model-invariant", inv)
				return
			}
		}

		// Exhaustive probe of the real set: for every cell and type, by an
		// owner that holds nothing and by every real owner.
		for o := 0; o <= nOwners; o++ {
			for c := 0; c < nCells; c++ {
				for _, pt := range []uint8{tExcl, tShared} {
					pr := cellRange{c, c + 1}
					pl := virtual.ByteRangeLock[int]{Owner: o, Start: pr.start(), End: pr.end(), Type: virtual.ByteRangeLockType(pt)}
					got := ls.Test(&pl)
					want := m.conflict(o, pr, pt)
					probes++
					if (got != nil) != want {
						who := "probe owner"
						sig := "C20 set probe-mismatch"
						if o != probeOwner {
							who = fmt.Sprintf("owner %d", o)
							if got != nil && got.Owner == o {
								sig = "C20 set owner-blocked-by-own-lock"
							}
						}
						fail(sig+" after="+op.Kind, fmt.Sprintf("after step %d (%s %v owner %d %s): Test of byte cell %v as %s by %s gives %q, model conflict=%v; model %s", step, op.Kind, cr, owner, typeName(t), pr, typeName(pt), who, lockString(got), want, m))
						return
					}
					if got != nil {
						if rule, detail := m.checkReported(o, pr, pt, got.Owner, got.Start, got.End, uint8(got.Type)); rule != "" {
							fail("C20 set probe-"+rule+" after="+op.Kind, fmt.Sprintf("after step %d (%s %v owner %d %s): probe of %v as %s reported %s: %s; model %s", step, op.Kind, cr, owner, typeName(t), pr, typeName(pt), lockString(got), detail, m))
							return
						}
					}
				}
			}
		}
	}

	r.Count("set_steps", len(ops))
	r.Count("set_probes", probes)
	for s := range situations {
		r.Situation("set:" + s)
	}
	h := ev.HashOf("set", nOwners, fmt.Sprint(opsDigest(ops)))
	r.Hash(h, len(situations) > 0)
	if len(situations) >= 3 && wantLayerSample("set") {
		if len(ops) > 60 {
			ops = ops[:60]
		}
		r.Sample(map[string]any{"layer": "set", "case": idx, "owners": nOwners, "ops": ops})
	}
}

func opsDigest(ops []setOp) []string {
	out := make([]string, len(ops))
	for i, o := range ops {
		d := "-"
		if o.Delta != nil {
			d = fmt.Sprint(*o.Delta)
		}
		out[i] = fmt.Sprintf("%s/%d/%s/%s/%s/%s/%s", o.Kind, o.Owner, o.Start, o.End, o.Type, o.Conflict, d)
	}
	return out
}

// holdsAnyIn tells whether owner holds any cell of r.
func (m *fileModel) holdsAnyIn(owner int, r cellRange) bool {
	if owner >= len(m.owners) {
		return false
	}
	for c := r.ci; c < r.cj; c++ {
		if m.owners[owner][c] != tNone {
			return true
		}
	}
	return false
}

// classifySetSituations names the structurally interesting effects the
// upcoming Set (owner, r, t) has on owner's runs, judged on the model before
// the update.
func classifySetSituations(m *fileModel, owner int, r cellRange, t uint8, sit map[string]bool) {
	m.grow(owner)
	row := &m.owners[owner]
	left := tNone
	if r.ci > 0 {
		left = row[r.ci-1]
	}
	right := tNone
	if r.cj < nCells {
		right = row[r.cj]
	}
	// The range lies strictly inside one run of a single type.
	inside := left != tNone && left == right
	if inside {
		for c := r.ci; c < r.cj; c++ {
			if row[c] != left {
				inside = false
			}
		}
	}
	if inside && t == tNone {
		sit["split-by-unlock-in-middle"] = true
	}
	if inside && t != tNone && t != left {
		sit["type-change-of-sub-range"] = true
	}
	if t != tNone {
		// Count the distinct existing runs of type t that the new lock
		// touches or overlaps; merging >= 2 of them with the new range
		// is a three-way merge.
		runs := 0
		lo, hi := r.ci-1, r.cj
		if lo < 0 {
			lo = 0
		}
		if hi >= nCells {
			hi = nCells - 1
		}
		prev := tNone
		if lo > 0 {
			prev = row[lo-1]
		}
		for c := lo; c <= hi; c++ {
			if row[c] == t && (c == lo || prev != t) {
				runs++
			}
			prev = row[c]
		}
		if runs >= 2 {
			sit["merge-of-three-runs"] = true
		}
		if runs == 1 && (left == t || right == t) {
			sit["adjacent-merge"] = true
		}
		// Partial overlap with a run of the other type (truncation).
		other := tExcl + tShared - t
		if (row[r.ci] == other && left == other) || (row[r.cj-1] == other && right == other) {
			sit["truncate-other-type"] = true
		}
	} else if !inside {
		if (row[r.ci] != tNone && left == row[r.ci]) || (row[r.cj-1] != tNone && right == row[r.cj-1]) {
			sit["unlock-truncates-run"] = true
		}
	}
	held := 0
	for c := r.ci; c < r.cj; c++ {
		if row[c] != tNone {
			held++
		}
	}
	if held > 0 && t != tNone {
		sit["relock-over-own-lock"] = true
	}
}
