package c20

// Layer (b): nfsv4.OpenedFilesPool / OpenedFile Lock, Unlock, UnlockAll and
// TestLock, including the (offset, length) conversion edge cases; stepped
// histories plus concurrent rounds under the race detector.

import (
	"context"
	"fmt"
	"io"
	"math/rand/v2"
	"runtime"
	"runtime/debug"
	"strings"
	"sync"
	"sync/atomic"

	"github.com/buildbarn/bb-remote-execution/pkg/filesystem/virtual"
	"github.com/buildbarn/bb-remote-execution/pkg/filesystem/virtual/nfsv4"
	"github.com/buildbarn/bb-storage/pkg/filesystem"
	nfsv4_xdr "github.com/buildbarn/go-xdr/pkg/protocols/nfsv4"

	"verif/internal/ev"
)

// ---- minimal fake leaf -----------------------------------------------------

type fakeLeaf struct {
	handle []byte

	mu     sync.Mutex
	opens  int
	closes int

	// readGate, when set, makes VirtualRead announce itself and wait.
	readGate atomic.Pointer[leafGate]
}

type leafGate struct {
	entered chan struct{}
	release chan struct{}
}

func (l *fakeLeaf) VirtualGetAttributes(ctx context.Context, requested virtual.AttributesMask, attributes *virtual.Attributes) {
	attributes.SetFileHandle(l.handle)
	attributes.SetFileType(filesystem.FileTypeRegularFile)
	attributes.SetPermissions(virtual.PermissionsRead | virtual.PermissionsWrite)
	attributes.SetSizeBytes(0)
	attributes.SetLinkCount(1)
	attributes.SetInodeNumber(uint64(l.handle[len(l.handle)-1]))
	attributes.SetChangeID(0)
}

func (l *fakeLeaf) VirtualSetAttributes(ctx context.Context, in *virtual.Attributes, requested virtual.AttributesMask, attributes *virtual.Attributes) virtual.Status {
	return virtual.StatusOK
}
func (l *fakeLeaf) VirtualApply(data any) bool { return false }
func (l *fakeLeaf) VirtualOpenNamedAttributes(ctx context.Context, createDirectory bool, requested virtual.AttributesMask, attributes *virtual.Attributes) (virtual.Directory, virtual.Status) {
	return nil, virtual.StatusErrNoEnt
}

func (l *fakeLeaf) VirtualAllocate(ctx context.Context, off, size uint64) virtual.Status {
	return virtual.StatusOK
}

func (l *fakeLeaf) VirtualSeek(ctx context.Context, offset uint64, regionType filesystem.RegionType) (*uint64, virtual.Status) {
	return nil, virtual.StatusErrNXIO
}

func (l *fakeLeaf) VirtualOpenSelf(ctx context.Context, shareAccess virtual.ShareMask, options *virtual.OpenExistingOptions, requested virtual.AttributesMask, attributes *virtual.Attributes) virtual.Status {
	l.mu.Lock()
	l.opens++
	l.mu.Unlock()
	return virtual.StatusOK
}

func (l *fakeLeaf) VirtualRead(ctx context.Context, buf []byte, offset uint64) (int, bool, virtual.Status) {
	if g := l.readGate.Load(); g != nil {
		g.entered <- struct{}{}
		<-g.release
	}
	return 0, true, virtual.StatusOK
}

func (l *fakeLeaf) VirtualClose(shareAccess virtual.ShareMask) {
	l.mu.Lock()
	l.closes++
	l.mu.Unlock()
}

func (l *fakeLeaf) VirtualWrite(ctx context.Context, buf []byte, offset uint64) (int, virtual.Status) {
	return len(buf), virtual.StatusOK
}

func readAllBytes(r io.ByteReader) []byte {
	var b []byte
	for {
		c, err := r.ReadByte()
		if err != nil {
			return b
		}
		b = append(b, c)
	}
}

// ---- request generation ----------------------------------------------------

// nfsRange is an (offset, length) request together with what it must mean.
type nfsRange struct {
	Offset uint64
	Length uint64
	valid  bool
	cr     cellRange
	Shape  string
}

func (n nfsRange) String() string {
	l := fmt.Sprintf("%d", n.Length)
	if n.Length == maxU64 {
		l = "all-ones"
	} else if n.Length > 1<<62 {
		l = "2^64-" + fmt.Sprint(maxU64-n.Length+1)
	}
	return fmt.Sprintf("off=%s len=%s(%s)", fmtOff(n.Offset), l, n.Shape)
}

// genNFSRange produces valid requests for ranges with end points in bounds
// (both encodings of "to the end") and the invalid shapes: zero length and
// offset+length beyond 2^64-1.
func genNFSRange(rng *rand.Rand) nfsRange {
	cr := genRange(rng)
	s, e := cr.start(), cr.end()
	var n nfsRange
	switch x := rng.IntN(100); {
	case x < 6:
		n = nfsRange{Offset: s, Length: 0, Shape: "zero-length"}
	case x < 14 && s >= 2:
		// offset+length = 2^64-1+k with 1 <= k < s, never all ones.
		k := 1 + rng.Uint64N(s-1)
		n = nfsRange{Offset: s, Length: maxU64 - s + k, Shape: "overflow"}
	case e == maxU64 && rng.IntN(2) == 0:
		n = nfsRange{Offset: s, Length: maxU64, valid: true, cr: cr, Shape: "all-ones"}
	case e == maxU64:
		n = nfsRange{Offset: s, Length: e - s, valid: true, cr: cr, Shape: "sum-is-max"}
	default:
		n = nfsRange{Offset: s, Length: e - s, valid: true, cr: cr, Shape: "plain"}
	}
	// Self check of the generator against the harness' reading of the RFC.
	cs, ce, ok := convertOffsetLength(n.Offset, n.Length)
	if ok != n.valid || (ok && (cs != n.cr.start() || ce != n.cr.end())) {
		panic(fmt.Sprintf("harness: generator and convertOffsetLength disagree on %v", n))
	}
	return n
}

func nfsTypeOf(lt nfsv4_xdr.NfsLockType4) (uint8, bool) {
	switch lt {
	case nfsv4_xdr.READ_LT, nfsv4_xdr.READW_LT:
		return tShared, true
	case nfsv4_xdr.WRITE_LT, nfsv4_xdr.WRITEW_LT:
		return tExcl, true
	}
	return tNone, false
}

func genNFSLockType(rng *rand.Rand, pShared int, allowInvalid bool) nfsv4_xdr.NfsLockType4 {
	if allowInvalid && rng.IntN(40) == 0 {
		return []nfsv4_xdr.NfsLockType4{0, 5, -1}[rng.IntN(3)]
	}
	w := rng.IntN(4) == 0
	if rng.IntN(100) < pShared {
		if w {
			return nfsv4_xdr.READW_LT
		}
		return nfsv4_xdr.READ_LT
	}
	if w {
		return nfsv4_xdr.WRITEW_LT
	}
	return nfsv4_xdr.WRITE_LT
}

// deniedToRange decodes a LOCK4denied into (start, end, type).
func deniedToRange(d *nfsv4_xdr.Lock4denied) (uint64, uint64, uint8, bool) {
	s, e, ok := convertOffsetLength(d.Offset, d.Length)
	t, tok := nfsTypeOf(d.Locktype)
	return s, e, t, ok && tok
}

func deniedString(d *nfsv4_xdr.Lock4denied) string {
	return fmt.Sprintf("denied{off=%s len=%s type=%d owner=%x/%q}", fmtOff(d.Offset), fmtOff(d.Length), d.Locktype, d.Owner.Clientid, d.Owner.Owner)
}

// ---- stepped histories -----------------------------------------------------

type fileOp struct {
	Kind     string `json:"kind"`
	Owner    int    `json:"owner"`
	File     int    `json:"file"`
	Request  string `json:"request,omitempty"`
	LockType int32  `json:"lock_type,omitempty"`
	Observed string `json:"observed"`
	Expected string `json:"expected"`
}

type fileWitness struct {
	Layer   string   `json:"layer"`
	Seed    uint64   `json:"seed"`
	Case    int      `json:"case"`
	Owners  int      `json:"owners"`
	Ops     []fileOp `json:"ops"`
	Models  []string `json:"models"`
	Problem string   `json:"problem"`
}

func runFileCase(r *ev.Run, idx int) {
	rng := r.Rand(0xB, uint64(idx))
	nOwners := 1 + rng.IntN(4)
	nFiles := 1 + rng.IntN(2)
	steps := 10 + rng.IntN(31)
	pShared := []int{20, 50, 80}[rng.IntN(3)]
	r.Case("file case=%d owners=%d files=%d steps=%d pShared=%d", idx, nOwners, nFiles, steps, pShared)

	pool := nfsv4.NewOpenedFilesPool(func(io.ByteReader) (virtual.DirectoryChild, virtual.Status) {
		return virtual.DirectoryChild{}, virtual.StatusErrStale
	})
	var files []*nfsv4.OpenedFile
	var handles [][]byte
	var models []*fileModel
	for f := 0; f < nFiles; f++ {
		h := []byte{0xF0, byte(f)}
		handles = append(handles, h)
		files = append(files, pool.Open(h, &fakeLeaf{handle: h}))
		models = append(models, newFileModel(nOwners))
	}
	unopenedHandle := []byte{0xF0, 0x77}
	owners := make([]*nfsv4_xdr.LockOwner4, nOwners)
	ownerByValue := map[string]int{}
	for o := range owners {
		owners[o] = &nfsv4_xdr.LockOwner4{Clientid: uint64(100 + o), Owner: []byte{'o', byte('0' + o)}}
		ownerByValue[fmt.Sprintf("%d/%s", owners[o].Clientid, owners[o].Owner)] = o
	}
	lookupOwner := func(so *nfsv4_xdr.StateOwner4) int {
		if o, ok := ownerByValue[fmt.Sprintf("%d/%s", so.Clientid, so.Owner)]; ok {
			return o
		}
		return -1
	}

	var ops []fileOp
	situations := map[string]bool{}
	modelStrings := func() []string {
		var s []string
		for _, m := range models {
			s = append(s, m.String())
		}
		return s
	}
	failed := false
	fail := func(sig, problem string) {
		failed = true
		r.Violation(sig, problem, fileWitness{Layer: "file", Seed: r.Seed(), Case: idx, Owners: nOwners, Ops: ops, Models: modelStrings(), Problem: problem})
	}
	defer func() {
		if v := recover(); v != nil {
			if s, ok := v.(string); ok && strings.HasPrefix(s, "harness:") {
				panic(v)
			}
			fail("C20 file panic msg="+sigWord(fmt.Sprint(v)), fmt.Sprintf("OpenedFile panicked: %v\n%s", v, debug.Stack()))
		}
	}()
	// checkDenied validates a LOCK4denied against the model.
	checkDenied := func(what string, f, owner int, cr cellRange, t uint8, d *nfsv4_xdr.Lock4denied) {
		ds, de, dt, ok := deniedToRange(d)
		if !ok {
			fail("C20 file reported-not-held op="+what, fmt.Sprintf("%s: %s is not a well-formed lock description", what, deniedString(d)))
			return
		}
		if rule, detail := models[f].checkReported(owner, cr, t, lookupOwner(&d.Owner), ds, de, dt); rule != "" {
			fail("C20 file "+rule+" op="+what, fmt.Sprintf("%s by owner %d on file %d %v %s: %s: %s; model %s", what, owner, f, cr, typeName(t), deniedString(d), detail, models[f]))
		}
	}
	probes := 0

	for step := 0; step < steps && !failed; step++ {
		owner := rng.IntN(nOwners)
		f := rng.IntN(nFiles)
		m := models[f]
		roll := rng.IntN(100)
		switch {
		case roll < 45: // Lock
			nr := genNFSRange(rng)
			lt := genNFSLockType(rng, pShared, true)
			t, tValid := nfsTypeOf(lt)
			op := fileOp{Kind: "Lock", Owner: owner, File: f, Request: nr.String(), LockType: int32(lt)}
			delta, res := files[f].Lock(owners[owner], nr.Offset, nr.Length, lt)
			if res == nil {
				op.Observed = fmt.Sprintf("granted delta=%d", delta)
			} else {
				op.Observed = fmt.Sprintf("status=%d delta=%d", res.GetStatus(), delta)
			}
			if nr.Shape != "plain" {
				situations["conversion:"+nr.Shape] = true
			}
			switch {
			case !nr.valid || !tValid:
				op.Expected = "NFS4ERR_INVAL"
				ops = append(ops, op)
				if res == nil || res.GetStatus() != nfsv4_xdr.NFS4ERR_INVAL || delta != 0 {
					fail("C20 file conversion-not-rejected op=Lock shape="+nr.Shape, fmt.Sprintf("step %d: Lock(%v type %d) must fail with NFS4ERR_INVAL, observed %s", step, nr, lt, op.Observed))
				}
			case m.conflict(owner, nr.cr, t):
				op.Expected = "NFS4ERR_DENIED"
				ops = append(ops, op)
				situations["denied"] = true
				d, isDenied := res.(*nfsv4_xdr.Lock4res_NFS4ERR_DENIED)
				if !isDenied || delta != 0 {
					fail("C20 file lock-granted-despite-conflict shape="+nr.Shape, fmt.Sprintf("step %d: Lock(%v %s) by owner %d on file %d conflicts with another owner, observed %s; model %s", step, nr, typeName(t), owner, f, op.Observed, m))
					break
				}
				checkDenied("Lock", f, owner, nr.cr, t, &d.Denied)
			default:
				before := m.entries(owner)
				if m.holdsAnyIn(owner, nr.cr) {
					situations["own-lock-does-not-block"] = true
				}
				if nr.cr.cj == nCells {
					situations["range-ending-at-max"] = true
				}
				classifySetSituations(m, owner, nr.cr, t, situations)
				m.set(owner, nr.cr, t)
				want := m.entries(owner) - before
				op.Expected = fmt.Sprintf("granted delta=%d", want)
				ops = append(ops, op)
				if res != nil {
					sig := "C20 file lock-denied-without-conflict shape=" + nr.Shape
					if d, ok := res.(*nfsv4_xdr.Lock4res_NFS4ERR_DENIED); ok && lookupOwner(&d.Denied.Owner) == owner {
						sig = "C20 file owner-blocked-by-own-lock op=Lock"
					}
					fail(sig, fmt.Sprintf("step %d: Lock(%v %s) by owner %d on file %d conflicts with nobody, observed %s; model (with the lock) %s", step, nr, typeName(t), owner, f, op.Observed, m))
				} else if delta != want {
					fail("C20 file entry-count-delta op=Lock", fmt.Sprintf("step %d: Lock(%v %s) by owner %d returned delta %d, canonical form changes by %d; model %s", step, nr, typeName(t), owner, delta, want, m))
				}
			}
		case roll < 65: // Unlock
			nr := genNFSRange(rng)
			op := fileOp{Kind: "Unlock", Owner: owner, File: f, Request: nr.String()}
			delta, st := files[f].Unlock(owners[owner], nr.Offset, nr.Length)
			op.Observed = fmt.Sprintf("status=%d delta=%d", st, delta)
			if !nr.valid {
				op.Expected = "NFS4ERR_INVAL"
				ops = append(ops, op)
				if st != nfsv4_xdr.NFS4ERR_INVAL || delta != 0 {
					fail("C20 file conversion-not-rejected op=Unlock shape="+nr.Shape, fmt.Sprintf("step %d: Unlock(%v) must fail with NFS4ERR_INVAL, observed %s", step, nr, op.Observed))
				}
				break
			}
			before := m.entries(owner)
			classifySetSituations(m, owner, nr.cr, tNone, situations)
			m.set(owner, nr.cr, tNone)
			want := m.entries(owner) - before
			op.Expected = fmt.Sprintf("status=0 delta=%d", want)
			ops = append(ops, op)
			if st != nfsv4_xdr.NFS4_OK {
				fail("C20 file unlock-failed", fmt.Sprintf("step %d: Unlock(%v) by owner %d: %s", step, nr, owner, op.Observed))
			} else if delta != want {
				fail("C20 file entry-count-delta op=Unlock", fmt.Sprintf("step %d: Unlock(%v) by owner %d returned delta %d, canonical form changes by %d; model %s", step, nr, owner, delta, want, m))
			}
		case roll < 72: // UnlockAll
			op := fileOp{Kind: "UnlockAll", Owner: owner, File: f}
			want := -m.entries(owner)
			if want != 0 {
				situations["unlock-all-with-locks"] = true
			}
			m.clearOwner(owner)
			delta := files[f].UnlockAll(owners[owner])
			op.Observed = fmt.Sprintf("delta=%d", delta)
			op.Expected = fmt.Sprintf("delta=%d", want)
			ops = append(ops, op)
			if delta != want {
				fail("C20 file entry-count-delta op=UnlockAll", fmt.Sprintf("step %d: UnlockAll by owner %d on file %d returned %d, owner had %d entries; model %s", step, owner, f, delta, -want, m))
			}
		case roll < 94: // TestLock
			nr := genNFSRange(rng)
			lt := genNFSLockType(rng, pShared, true)
			t, tValid := nfsTypeOf(lt)
			// Sometimes by nobody (nil owner, as LOCKT does for an
			// unknown lock-owner), sometimes against a file that is
			// not opened.
			testOwner, ownerPtr := owner, owners[owner]
			handle := handles[f]
			variant := ""
			if x := rng.IntN(10); x == 0 {
				testOwner, ownerPtr, variant = -1, nil, " nil-owner"
			} else if x == 1 {
				handle, variant = unopenedHandle, " unopened-file"
			}
			op := fileOp{Kind: "TestLock" + variant, Owner: testOwner, File: f, Request: nr.String(), LockType: int32(lt)}
			res := pool.TestLock(handle, ownerPtr, nr.Offset, nr.Length, lt)
			op.Observed = fmt.Sprintf("status=%d", res.GetStatus())
			if testOwner >= 0 && nr.valid && tValid && m.holdsAnyIn(testOwner, nr.cr) {
				situations["test-by-owner-holding-locks"] = true
			}
			switch {
			case !nr.valid || !tValid:
				op.Expected = "NFS4ERR_INVAL"
				ops = append(ops, op)
				if res.GetStatus() != nfsv4_xdr.NFS4ERR_INVAL {
					fail("C20 file conversion-not-rejected op=TestLock shape="+nr.Shape, fmt.Sprintf("step %d: TestLock(%v type %d) must fail with NFS4ERR_INVAL, observed %s", step, nr, lt, op.Observed))
				}
			case variant == " unopened-file":
				op.Expected = "NFS4_OK"
				ops = append(ops, op)
				if res.GetStatus() != nfsv4_xdr.NFS4_OK {
					fail("C20 file test-spurious-conflict unopened-file", fmt.Sprintf("step %d: TestLock on a file nobody has open: %s", step, op.Observed))
				}
			case m.conflict(testOwner, nr.cr, t):
				op.Expected = "NFS4ERR_DENIED"
				ops = append(ops, op)
				situations["denied"] = true
				d, isDenied := res.(*nfsv4_xdr.Lockt4res_NFS4ERR_DENIED)
				if !isDenied {
					fail("C20 file test-missed-conflict shape="+nr.Shape, fmt.Sprintf("step %d: TestLock(%v %s) by owner %d on file %d conflicts with another owner, observed %s; model %s", step, nr, typeName(t), testOwner, f, op.Observed, m))
					break
				}
				checkDenied("TestLock", f, testOwner, nr.cr, t, &d.Denied)
			default:
				op.Expected = "NFS4_OK"
				ops = append(ops, op)
				if res.GetStatus() != nfsv4_xdr.NFS4_OK {
					sig := "C20 file test-spurious-conflict shape=" + nr.Shape
					if d, ok := res.(*nfsv4_xdr.Lockt4res_NFS4ERR_DENIED); ok && testOwner >= 0 && lookupOwner(&d.Denied.Owner) == testOwner {
						sig = "C20 file owner-blocked-by-own-lock op=TestLock"
					}
					fail(sig, fmt.Sprintf("step %d: TestLock(%v %s) by owner %d on file %d conflicts with nobody, observed %s; model %s", step, nr, typeName(t), testOwner, f, op.Observed, m))
				}
			}
		default:
			// Degenerate request: offset 2^64-1 to end of file covers
			// no byte that can exist. Tolerated outcomes: rejected, or
			// granted and undone by the matching unlock with no effect
			// on any real byte (the probe below verifies the latter).
			op := fileOp{Kind: "Lock+Unlock degenerate", Owner: owner, File: f, Request: "off=2^64-1 len=all-ones"}
			situations["conversion:offset-max-to-eof"] = true
			delta, res := files[f].Lock(owners[owner], maxU64, maxU64, nfsv4_xdr.WRITE_LT)
			op.Expected = "INVAL, or granted and undone by the matching unlock"
			if res != nil {
				op.Observed = fmt.Sprintf("status=%d delta=%d", res.GetStatus(), delta)
				ops = append(ops, op)
				if res.GetStatus() != nfsv4_xdr.NFS4ERR_INVAL || delta != 0 {
					fail("C20 file degenerate-range", fmt.Sprintf("step %d: Lock(off=2^64-1,len=all-ones): %s", step, op.Observed))
				}
				break
			}
			delta2, st := files[f].Unlock(owners[owner], maxU64, maxU64)
			op.Observed = fmt.Sprintf("granted delta=%d; unlock status=%d delta=%d", delta, st, delta2)
			ops = append(ops, op)
			if st != nfsv4_xdr.NFS4_OK || delta+delta2 != 0 {
				fail("C20 file degenerate-range", fmt.Sprintf("step %d: Lock+Unlock(off=2^64-1,len=all-ones) do not cancel: %s", step, op.Observed))
			}
		}
		if failed {
			break
		}
		if inv := m.invariant(); inv != "" {
			fail("C20 file model-invariant", inv)
			break
		}

		// Exhaustive probe of both files through TestLock: every cell
		// and type, by nobody (nil) and by every owner.
		for pf := 0; pf < nFiles && !failed; pf++ {
			for o := -1; o < nOwners && !failed; o++ {
				var ptr *nfsv4_xdr.LockOwner4
				if o >= 0 {
					ptr = owners[o]
				}
				for c := 0; c < nCells && !failed; c++ {
					pr := cellRange{c, c + 1}
					for _, lt := range []nfsv4_xdr.NfsLockType4{nfsv4_xdr.WRITE_LT, nfsv4_xdr.READ_LT} {
						pt, _ := nfsTypeOf(lt)
						res := pool.TestLock(handles[pf], ptr, pr.start(), pr.end()-pr.start(), lt)
						probes++
						want := models[pf].conflict(o, pr, pt)
						d, isDenied := res.(*nfsv4_xdr.Lockt4res_NFS4ERR_DENIED)
						if isDenied != want || (!isDenied && res.GetStatus() != nfsv4_xdr.NFS4_OK) {
							sig := "C20 file probe-mismatch"
							if isDenied && o >= 0 && lookupOwner(&d.Denied.Owner) == o {
								sig = "C20 file owner-blocked-by-own-lock"
							}
							last := ops[len(ops)-1]
							fail(sig+" after="+last.Kind, fmt.Sprintf("after step %d (%s owner %d file %d %s): TestLock of file %d byte cell %v as %s by owner %d gives status %d, model conflict=%v; model %s", step, last.Kind, last.Owner, last.File, last.Request, pf, pr, typeName(pt), o, res.GetStatus(), want, models[pf]))
							break
						}
						if isDenied {
							checkDenied("probe", pf, o, pr, pt, &d.Denied)
						}
					}
				}
			}
		}
	}

	// Closing the files must make the pool forget the locks.
	if !failed {
		for f := range files {
			had := models[f].totalEntries() > 0
			files[f].Close()
			res := pool.TestLock(handles[f], nil, 0, maxU64, nfsv4_xdr.WRITE_LT)
			if res.GetStatus() != nfsv4_xdr.NFS4_OK {
				fail("C20 file locks-survive-last-close", fmt.Sprintf("file %d was closed by its only opener (locks held before: %v) and TestLock still reports status %d", f, had, res.GetStatus()))
			}
		}
	}

	r.Count("file_steps", len(ops))
	r.Count("file_probes", probes)
	for s := range situations {
		r.Situation("file:" + s)
	}
	var digest []string
	for _, o := range ops {
		digest = append(digest, fmt.Sprintf("%s/%d/%d/%s/%d/%s", o.Kind, o.Owner, o.File, o.Request, o.LockType, o.Observed))
	}
	r.Hash(ev.HashOf("file", nOwners, nFiles, fmt.Sprint(digest)), len(situations) > 0)
	if len(situations) >= 4 && idx > 0 && wantLayerSample("file") {
		if len(ops) > 60 {
			ops = ops[:60]
		}
		r.Sample(map[string]any{"layer": "file", "case": idx, "owners": nOwners, "files": nFiles, "ops": ops})
	}
}

// ---- concurrent rounds -----------------------------------------------------

type concFileEvent struct {
	T0, T1 int64  `json:",omitempty"`
	Owner  int    `json:"owner"`
	File   int    `json:"file"`
	Op     string `json:"op"`
	Range  string `json:"range"`
	Type   string `json:"type"`
	Result string `json:"result"`
}

func runFileConcRound(r *ev.Run, idx int) {
	rng := r.Rand(0xC, uint64(idx))
	nOwners := 3 + rng.IntN(6)
	nFiles := 1 + rng.IntN(2)
	opsPerOwner := 20 + rng.IntN(40)
	procs := []int{2, 4, 16}[idx%3]
	r.Case("fileconc round=%d owners=%d files=%d ops=%d procs=%d", idx, nOwners, nFiles, opsPerOwner, procs)
	prev := runtime.GOMAXPROCS(procs)
	defer runtime.GOMAXPROCS(prev)

	pool := nfsv4.NewOpenedFilesPool(func(io.ByteReader) (virtual.DirectoryChild, virtual.Status) {
		return virtual.DirectoryChild{}, virtual.StatusErrStale
	})
	var files []*nfsv4.OpenedFile
	var handles [][]byte
	for f := 0; f < nFiles; f++ {
		h := []byte{0xF1, byte(f)}
		handles = append(handles, h)
		files = append(files, pool.Open(h, &fakeLeaf{handle: h}))
	}
	owners := make([]*nfsv4_xdr.LockOwner4, nOwners)
	ownerByValue := map[string]int{}
	for o := range owners {
		owners[o] = &nfsv4_xdr.LockOwner4{Clientid: uint64(200 + o), Owner: []byte{'c', byte('0' + o)}}
		ownerByValue[fmt.Sprintf("%d/%s", owners[o].Clientid, owners[o].Owner)] = o
	}
	lookup := func(so *nfsv4_xdr.StateOwner4) int {
		if o, ok := ownerByValue[fmt.Sprintf("%d/%s", so.Clientid, so.Owner)]; ok {
			return o
		}
		return -1
	}

	mon := &concMonitor{}
	var evMu sync.Mutex
	var events []concFileEvent
	var problems []concProblem
	addProblem := func(p concProblem) {
		evMu.Lock()
		problems = append(problems, p)
		evMu.Unlock()
	}
	logEvent := func(e concFileEvent) {
		evMu.Lock()
		if len(events) < 4000 {
			events = append(events, e)
		}
		evMu.Unlock()
	}

	start := make(chan struct{})
	var wg sync.WaitGroup
	for o := 0; o < nOwners; o++ {
		wg.Add(1)
		go func(o int) {
			defer wg.Done()
			defer func() {
				if v := recover(); v != nil {
					if s, ok := v.(string); ok && strings.HasPrefix(s, "harness:") {
						panic(v)
					}
					addProblem(concProblem{"C20 file conc panic msg=" + sigWord(fmt.Sprint(v)), fmt.Sprintf("OpenedFile panicked: %v\n%s", v, debug.Stack())})
				}
			}()
			grng := r.Rand(0xC, uint64(idx), uint64(o))
			ov := mon.newOwnerView(o)
			pShared := []int{30, 60}[grng.IntN(2)]
			<-start
			for i := 0; i < opsPerOwner; i++ {
				f := grng.IntN(nFiles)
				// Few cells, so that owners collide all the time.
				ci := grng.IntN(6)
				cr := cellRange{ci, ci + 1 + grng.IntN(3)}
				if grng.IntN(12) == 0 {
					cr = cellRange{ci, nCells}
				}
				off, length := cr.start(), cr.end()-cr.start()
				if cr.cj == nCells && grng.IntN(2) == 0 {
					length = maxU64
				}
				if grng.IntN(3) == 0 {
					runtime.Gosched()
				}
				switch roll := grng.IntN(100); {
				case roll < 50:
					lt := genNFSLockType(grng, pShared, false)
					t, _ := nfsTypeOf(lt)
					before := ov.entries(f)
					t0 := mon.now()
					delta, res := files[f].Lock(owners[o], off, length, lt)
					t1 := mon.now()
					e := concFileEvent{T0: t0, T1: t1, Owner: o, File: f, Op: "Lock", Range: cr.String(), Type: typeName(t)}
					if res == nil {
						ov.apply(f, cr, t, t0, t1)
						mon.granted(concGrant{op: "Lock", owner: o, file: f, r: cr, typ: t, t0: t0, t1: t1})
						e.Result = fmt.Sprintf("granted delta=%d", delta)
						if want := ov.entries(f) - before; delta != want {
							addProblem(concProblem{"C20 file conc entry-count-delta op=Lock", fmt.Sprintf("Lock %v %s by owner %d on file %d returned delta %d, the owner's canonical entry count changed by %d", cr, typeName(t), o, f, delta, want)})
						}
					} else if d, ok := res.(*nfsv4_xdr.Lock4res_NFS4ERR_DENIED); ok {
						ds, de, dt, _ := deniedToRange(&d.Denied)
						mon.denied(concDenial{op: "Lock", owner: o, file: f, r: cr, typ: t, t0: t0, t1: t1, dOwner: lookup(&d.Denied.Owner), dStart: ds, dEnd: de, dType: dt})
						e.Result = deniedString(&d.Denied)
						if delta != 0 {
							addProblem(concProblem{"C20 file conc entry-count-delta op=Lock-denied", fmt.Sprintf("denied Lock returned delta %d", delta)})
						}
					} else {
						e.Result = fmt.Sprintf("status=%d", res.GetStatus())
						addProblem(concProblem{"C20 file conc unexpected-status op=Lock", fmt.Sprintf("Lock %v by owner %d: status %d", cr, o, res.GetStatus())})
					}
					logEvent(e)
				case roll < 72:
					before := ov.entries(f)
					t0 := mon.now()
					delta, st := files[f].Unlock(owners[o], off, length)
					t1 := mon.now()
					ov.apply(f, cr, tNone, t0, t1)
					logEvent(concFileEvent{T0: t0, T1: t1, Owner: o, File: f, Op: "Unlock", Range: cr.String(), Result: fmt.Sprintf("status=%d delta=%d", st, delta)})
					if want := ov.entries(f) - before; st != nfsv4_xdr.NFS4_OK || delta != want {
						addProblem(concProblem{"C20 file conc entry-count-delta op=Unlock", fmt.Sprintf("Unlock %v by owner %d on file %d returned status %d delta %d, the owner's canonical entry count changed by %d", cr, o, f, st, delta, want)})
					}
				case roll < 78:
					before := ov.entries(f)
					t0 := mon.now()
					delta := files[f].UnlockAll(owners[o])
					t1 := mon.now()
					ov.apply(f, cellRange{0, nCells}, tNone, t0, t1)
					logEvent(concFileEvent{T0: t0, T1: t1, Owner: o, File: f, Op: "UnlockAll", Result: fmt.Sprintf("delta=%d", delta)})
					if delta != -before {
						addProblem(concProblem{"C20 file conc entry-count-delta op=UnlockAll", fmt.Sprintf("UnlockAll by owner %d on file %d returned %d, the owner had %d entries", o, f, delta, before)})
					}
				default:
					lt := genNFSLockType(grng, pShared, false)
					t, _ := nfsTypeOf(lt)
					t0 := mon.now()
					res := pool.TestLock(handles[f], owners[o], off, length, lt)
					t1 := mon.now()
					e := concFileEvent{T0: t0, T1: t1, Owner: o, File: f, Op: "TestLock", Range: cr.String(), Type: typeName(t)}
					if d, ok := res.(*nfsv4_xdr.Lockt4res_NFS4ERR_DENIED); ok {
						ds, de, dt, _ := deniedToRange(&d.Denied)
						mon.denied(concDenial{op: "TestLock", owner: o, file: f, r: cr, typ: t, t0: t0, t1: t1, dOwner: lookup(&d.Denied.Owner), dStart: ds, dEnd: de, dType: dt})
						e.Result = deniedString(&d.Denied)
					} else if res.GetStatus() == nfsv4_xdr.NFS4_OK {
						mon.granted(concGrant{op: "TestLock", owner: o, file: f, r: cr, typ: t, t0: t0, t1: t1})
						e.Result = "ok"
					} else {
						e.Result = fmt.Sprintf("status=%d", res.GetStatus())
						addProblem(concProblem{"C20 file conc unexpected-status op=TestLock", fmt.Sprintf("TestLock %v by owner %d: status %d", cr, o, res.GetStatus())})
					}
					logEvent(e)
				}
			}
		}(o)
	}
	close(start)
	wg.Wait()

	ps, stats := mon.check("file")
	problems = append(problems, ps...)

	// Quiescent point: the exact final state is known; probe it.
	finals := mon.finalModel(nFiles, nOwners)
	probes := 0
	for f := 0; f < nFiles; f++ {
		for o := -1; o < nOwners; o++ {
			var ptr *nfsv4_xdr.LockOwner4
			if o >= 0 {
				ptr = owners[o]
			}
			for c := 0; c < nCells; c++ {
				pr := cellRange{c, c + 1}
				for _, lt := range []nfsv4_xdr.NfsLockType4{nfsv4_xdr.WRITE_LT, nfsv4_xdr.READ_LT} {
					pt, _ := nfsTypeOf(lt)
					res := pool.TestLock(handles[f], ptr, pr.start(), pr.end()-pr.start(), lt)
					probes++
					want := finals[f].conflict(o, pr, pt)
					d, isDenied := res.(*nfsv4_xdr.Lockt4res_NFS4ERR_DENIED)
					if isDenied != want {
						problems = append(problems, concProblem{"C20 file conc final-probe-mismatch", fmt.Sprintf("after the round: TestLock of file %d byte cell %v as %s by owner %d gives status %d, final model conflict=%v; model %s", f, pr, typeName(pt), o, res.GetStatus(), want, finals[f])})
					} else if isDenied {
						ds, de, dt, ok := deniedToRange(&d.Denied)
						if rule, detail := finals[f].checkReported(o, pr, pt, lookup(&d.Denied.Owner), ds, de, dt); !ok || rule != "" {
							problems = append(problems, concProblem{"C20 file conc final-probe-" + rule, fmt.Sprintf("after the round: probe of file %d %v as %s reported %s: %s; model %s", f, pr, typeName(pt), deniedString(&d.Denied), detail, finals[f])})
						}
					}
				}
			}
		}
		if inv := finals[f].invariant(); inv != "" {
			problems = append(problems, concProblem{"C20 file conc two-owners-hold-conflicting-byte final", inv})
		}
	}

	seen := map[string]bool{}
	for _, p := range problems {
		if seen[p.sig] {
			continue
		}
		seen[p.sig] = true
		r.Violation(p.sig, p.detail, map[string]any{"layer": "fileconc", "seed": r.Seed(), "round": idx, "owners": nOwners, "files": nFiles, "procs": procs, "problem": p.detail, "events": events})
	}
	r.Count("fileconc_ops", nOwners*opsPerOwner)
	r.Count("fileconc_denials", stats["denials"])
	r.Count("fileconc_grants", stats["grants"])
	r.Count("fileconc_exclusion_pairs", stats["exclusion_pairs"])
	r.Count("fileconc_final_probes", probes)
	if stats["denials"] > 0 && stats["exclusion_pairs"] > 0 {
		r.Situation("fileconc:round-with-contention")
	}
	// The interleaving differs from run to run; hash what was decided.
	r.Hash(ev.HashOf("fileconc", idx, stats["denials"], stats["grants"], stats["exclusion_pairs"]), stats["denials"] > 0)
}
