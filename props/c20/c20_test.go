// Package c20 is the runtime monitor for property C20 (byte-range locks:
// conflicting owners excluded, own locks never conflict, test <=> lock would
// be denied, unlock/close release exactly the owner's bytes).
//
// Three layers, all judged against one per-byte ownership reference model
// (owner x byte -> none/shared/exclusive on a compressed coordinate set):
//
//	(a) virtual.ByteRangeLockSet directly            layer_set_test.go
//	(b) nfsv4.OpenedFilesPool / OpenedFile           layer_file_test.go
//	(c) NFSv4.0 and NFSv4.1 COMPOUNDs                layer_nfs_test.go
//
// plus concurrent rounds for (b) and (c) under the race detector with an
// interval based oracle (conc_monitor_test.go).
package c20

import (
	"encoding/json"
	"fmt"
	"os"
	"testing"
	"time"

	"verif/internal/ev"
)

func TestCheck(t *testing.T) {
	r := ev.Start("C20")
	defer r.Finish()
	r.SetRule("cases are PRNG-generated histories (seed, layer, case index): (a) 8-40 Test/Set steps by 1-4 owners on a ByteRangeLockSet over ranges with end points in {0..12} u {2^64-4..2^64-1}; (b) 10-40 Lock/Unlock/UnlockAll/TestLock steps on 1-2 OpenedFiles incl. invalid (offset,length) shapes; (c) 12-40 LOCK/LOCKT/LOCKU/CLOSE/RELEASE_LOCKOWNER/FREE_STATEID/lease-expiry steps by 2-3 clients (v4.0, v4.1 or both on one OpenedFilesPool) with 2 open-owners x 2 lock-owners x 2 files; every step is followed by an exhaustive Test/TestLock/LOCKT probe of every byte cell and lock type; plus concurrent rounds (one goroutine per owner/client, 20-60 requests each). A case is non-trivial if it hit at least one named situation (split, sub-range type change, three-way merge, range ending at 2^64-1, denial, conversion edge shape, same lock-owner through two open-owners, LOCKT by an owner holding locks, release/free/close/expiry with locks held, contention in a concurrent round); distinct = distinct hashes of (requests, replies)")
	r.Assume("ByteRangeLockSet.Set is only called for a lock that Test reported as non-conflicting (documented precondition of Set), and never concurrently (the type is not thread safe)")
	r.Assume("a byte with offset 2^64-1 cannot exist (file sizes are 64-bit), so [offset, 2^64-1) and [offset, end-of-file) denote the same set of bytes; the degenerate request offset=2^64-1,length=all-ones is only required to be rejected or to be undone by the matching unlock")
	r.Assume("all range end points lie in {0..12} u {2^64-4..2^64-1}; other offsets are not exercised")
	r.Assume("requests sent to the NFS programs are protocol-valid (correct seqids, state IDs, sessions); hostile state IDs belong to C18/C19")
	r.Assume("in concurrent rounds every owner is driven by one goroutine; the order of requests of different owners is judged with certain/possible hold intervals on a logical clock, never on wall-clock time")
	r.Assume("CLOSE releases, on that file, the locks of every lock-owner that has lock state derived from the closed open (POSIX close semantics, as implemented by UnlockAll); lease expiry releases all locks of that client")

	if rf := r.ReplayFile(); rf != "" {
		replay(r, rf)
		return
	}

	nSet := r.Pick(3000, 60000)
	nFile := r.Pick(700, 14000)
	nNFS := r.Pick(330, 5000)
	nFileConc := r.Pick(60, 1200)
	nNFSConc := r.Pick(45, 900)

	for _, s := range []string{
		"set:split-by-unlock-in-middle", "set:type-change-of-sub-range", "set:merge-of-three-runs",
		"set:range-ending-at-max", "set:denied", "set:own-lock-does-not-block", "set:truncate-other-type",
		"file:conversion:zero-length", "file:conversion:all-ones", "file:conversion:overflow", "file:conversion:sum-is-max",
		"file:conversion:offset-max-to-eof", "file:test-by-owner-holding-locks", "file:unlock-all-with-locks",
		"file:split-by-unlock-in-middle", "file:merge-of-three-runs", "file:denied",
		"nfs:same-lock-owner-via-two-open-owners:two-files", "nfs:same-lock-owner-on-two-files",
		"nfs:lockt-by-owner-holding-locks", "nfs:lockt-by-owner-without-locks",
		"nfs:release-lockowner-with-locks-held", "nfs:free-stateid-with-locks-held",
		"nfs:close-with-locks-held", "nfs:lease-expiry-with-locks-held", "nfs:client-reboot-with-locks-held", "nfs:denied",
		"nfs:split-by-unlock-in-middle", "nfs:range-ending-at-max",
		"fileconc:round-with-contention", "nfsconc:round-with-contention",
	} {
		r.Floor(s, 5)
	}
	for _, s := range []string{
		"nfs:reopen-with-locks-held", "nfs:retransmit-lock", "nfs:retransmit-locku",
		"nfs:current-stateid:open+lock", "nfs:current-stateid:lock+locku",
		"nfs:session-recreated-with-locks-held", "nfs:reboot-refused-while-io-in-flight:locks-held",
		"nfs:last-lock-gone-by:locku", "nfs:last-lock-gone-by:close", "nfs:last-lock-gone-by:release-lockowner",
		"nfs:last-lock-gone-by:free-stateid", "nfs:last-lock-gone-by:lease-expiry", "nfs:last-lock-gone-by:client-reboot",
		"nfs:relock-after:locku", "nfs:relock-after:close", "nfs:relock-after:release-lockowner",
		"nfs:relock-after:free-stateid", "nfs:relock-after:lease-expiry", "nfs:relock-after:client-reboot",
		"nfs:stale:lock:wrong-file", "nfs:stale:locku:wrong-file", "nfs:stale:lock:old-seqid", "nfs:stale:locku:old-seqid",
		"nfs:stale:lock:future-seqid", "nfs:stale:lock:anonymous-stateid", "nfs:stale:lock:dead-lock-stateid",
		"nfs:stale:locku:dead-lock-stateid", "nfs:stale:lock:dead-open-stateid", "nfs:stale:close:dead-open-stateid",
		"nfs:stale:lock:superseded-open-stateid", "nfs:stale:lock:open-stateid-wrong-file", "nfs:stale:lock:foreign-clientid",
		"nfs:stale:lock:wrong-lock-seqid", "nfs:stale:lock:unconfirmed-open-owner", "nfs:stale:free-stateid:dead-lock-stateid",
		"nfs:stale:free-stateid:old-seqid", "nfs:stale:destroy-clientid:busy", "nfs:stale:zombie:lockt", "nfs:stale:zombie:locku",
		"nfs:stale:zombie:lock-new",
	} {
		r.Floor(s, 5)
	}
	r.Floor("nfs:same-lock-owner-via-two-open-owners:same-file", 5)
	r.Floor("nfsconc:same-lock-owner-via-two-open-owners:same-file", 3)

	// Wall-clock time is only logged for budgeting; no oracle reads it.
	phase := func(name string, n int, f func(*ev.Run, int)) {
		start := time.Now()
		for i := 0; i < n; i++ {
			f(r, i)
		}
		t.Logf("layer %s: %d cases in %.1fs", name, n, time.Since(start).Seconds())
	}
	phase("set", nSet, runSetCase)
	phase("file", nFile, runFileCase)
	phase("nfs", nNFS, runNFSCase)
	phase("fileconc", nFileConc, runFileConcRound)
	phase("nfsconc", nNFSConc, runNFSConcRound)
	if n := r.Violations(); n > 0 {
		t.Logf("%d violation(s) recorded", n)
	}
}

// replay re-runs the single case named by a witness file. The case is
// regenerated from (seed, layer, case index); VERIF_SEED must be the seed
// stored in the file.
func replay(r *ev.Run, path string) {
	b, err := os.ReadFile(path)
	if err != nil {
		r.Inconclusive("replay file unreadable: %v", err)
		return
	}
	var f struct {
		Seed    uint64 `json:"seed"`
		Witness struct {
			Layer string `json:"layer"`
			Case  *int   `json:"case"`
			Round *int   `json:"round"`
		} `json:"witness"`
	}
	if err := json.Unmarshal(b, &f); err != nil {
		r.Inconclusive("replay file is not a C20 witness: %v", err)
		return
	}
	if f.Seed != r.Seed() {
		r.Inconclusive("replay file was recorded with VERIF_SEED=%d, this run uses %d", f.Seed, r.Seed())
		return
	}
	idx := -1
	if f.Witness.Case != nil {
		idx = *f.Witness.Case
	} else if f.Witness.Round != nil {
		idx = *f.Witness.Round
	}
	fmt.Printf("replaying layer=%s case=%d seed=%d\n", f.Witness.Layer, idx, f.Seed)
	switch f.Witness.Layer {
	case "set":
		runSetCase(r, idx)
	case "file":
		runFileCase(r, idx)
	case "nfs":
		runNFSCase(r, idx)
	case "fileconc":
		for i := 0; i < 20; i++ {
			runFileConcRound(r, idx)
		}
	case "nfsconc":
		for i := 0; i < 20; i++ {
			runNFSConcRound(r, idx)
		}
	default:
		r.Inconclusive("unknown layer %q in replay file", f.Witness.Layer)
	}
}

// sampled remembers which layers already contributed a verbatim sample, so
// that the three stored samples come from three layers.
var sampled = map[string]bool{}

func wantLayerSample(layer string) bool {
	if sampled[layer] {
		return false
	}
	sampled[layer] = true
	return true
}
