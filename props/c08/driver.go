package c08

import (
	"context"
	"crypto/sha256"
	"encoding/hex"
	"fmt"
	"math/rand/v2"
	"runtime"
	"strings"
	"sync"
	"time"

	remoteexecution "github.com/bazelbuild/remote-apis/build/bazel/remote/execution/v2"
	"github.com/buildbarn/bb-remote-execution/pkg/builder"
	"github.com/buildbarn/bb-remote-execution/pkg/proto/remoteworker"
	"github.com/buildbarn/bb-storage/pkg/digest"
	"github.com/buildbarn/bb-storage/pkg/program"
	"github.com/buildbarn/bb-storage/pkg/util"

	"google.golang.org/grpc/codes"
	"google.golang.org/grpc/status"
	"google.golang.org/protobuf/types/known/anypb"
	"google.golang.org/protobuf/types/known/durationpb"
	"google.golang.org/protobuf/types/known/emptypb"
	"google.golang.org/protobuf/types/known/timestamppb"

	"verif/internal/ev"
	"verif/internal/vclock"
)

type caseCfg struct {
	Base       int  `json:"base"`
	Variant    int  `json:"variant"`
	Steps      int  `json:"steps"`
	ShutdownAt int  `json:"shutdown_at"`
	Real       bool `json:"real_loop"`
	// ShutdownIn: "" = the driver cancels the context at step ShutdownAt
	// (wherever the client is parked then); "timer"/"readiness" = from
	// that step on, the next such callback inside Run cancels it.
	ShutdownIn string `json:"shutdown_in,omitempty"`
}

// execView is the driver's private view of an execution, derived from events.
type execView struct {
	entered, cancel, busy, returned bool
}

type driver struct {
	m    *monitor
	cfg  caseCfg
	rng  *rand.Rand
	rng2 *rand.Rand // choices added later; separate stream
	clk  *vclock.Clock
	stop context.CancelFunc

	syncPending bool
	selectMaybe bool
	errGate     bool
	terminated  bool
	gaveUp      bool // terminated set by the driver, not by the worker thread
	awaitPark   bool
	awaitAck    *execRec
	views       map[*execRec]*execView
	gate        chan struct{}

	bcAddr           string // "%p" of the BuildClient, to find its goroutine in dumps
	shutdownDone     bool
	errAfterShutdown int
	armedSteps       int
	stepsAfter       int
	postBudget       int
	errorsOnly       bool
	windDown         bool
	windReplies      int
	errReplies       int
	nextID           int
	inconclusive     string
	stepsExecuted    int
}

const watchdog = 40 * time.Second

func runCase(r *ev.Run, cfg caseCfg) {
	r.Case("base=%d variant=%d steps=%d shutdownAt=%d real=%v", cfg.Base, cfg.Variant, cfg.Steps, cfg.ShutdownAt, cfg.Real)
	clk := vclock.New(1000)
	m := &monitor{
		r: r, cfg: cfg, clk: clk,
		sits:  map[string]bool{},
		abort: make(chan struct{}),
		evCh:  make(chan event, 4096),
		reply: make(chan syncReply),
		byReq: map[*remoteworker.DesiredState_Executing]*execRec{},
	}
	m.lastNextSync = clk.Now()
	m.looseNextSync = clk.Now()
	clk.OnTimer = func(time.Duration) {
		m.mu.Lock()
		m.timerSeen = true
		m.timerFired = false
		m.sendDoneAtTimer = 0
		if m.cur != nil {
			m.sendDoneAtTimer = m.cur.sendDone
		}
		m.shutdownInHook("timer")
		m.shutdownAtHook = m.shutdownAtHook || m.shutdownBegun
		if now := clk.Now(); !m.mayThink && now.Before(m.looseNextSync) {
			// The client waits for updates although the scheduler
			// believes it idle (completion reported, channel not yet
			// closed). An update received now pulls the client's next
			// synchronization time forward to "now"; accept a bound
			// derived from that.
			m.looseNextSync = now
		}
		m.mu.Unlock()
		m.post(event{kind: evTimer})
	}
	platform := &remoteexecution.Platform{Properties: []*remoteexecution.Platform_Property{{Name: "os", Value: "linux"}}}
	bc := builder.NewBuildClient(fakeScheduler{m}, fakeExecutor{m}, nil, clk, map[string]string{"hostname": "verif"}, util.Must(digest.NewInstanceName("prefix")), platform, 0)

	ctx, cancel := context.WithCancel(context.Background())
	m.stop = cancel
	bcAddr := fmt.Sprintf("%p", bc)
	d := &driver{bcAddr: bcAddr, m: m, cfg: cfg, clk: clk, stop: cancel, views: map[*execRec]*execView{}, gate: make(chan struct{})}
	// The action PRNG depends on the base only, so that variants of one base
	// share their prefix up to the shutdown step.
	d.rng = r.Rand(2, uint64(cfg.Base))
	d.rng2 = r.Rand(4, uint64(cfg.Base))
	vr := r.Rand(3, uint64(cfg.Base), uint64(cfg.Variant))
	d.postBudget = vr.IntN(16)
	d.errorsOnly = vr.IntN(3) == 0 && !cfg.Real // every error costs the real loop up to 5 s of wall clock

	var wg sync.WaitGroup
	wg.Add(1)
	if cfg.Real {
		go func() {
			defer wg.Done()
			program.RunLocal(ctx, func(ctx context.Context, siblingsGroup, dependenciesGroup program.Group) error {
				builder.LaunchWorkerThread(siblingsGroup, bc, "verif")
				return nil
			})
			select {
			case <-m.abort:
			default:
				m.post(event{kind: evTerminated})
			}
		}()
	} else {
		go func() {
			defer wg.Done()
			mirrorLoop(ctx, bc, m, d.gate)
		}()
	}
	d.awaitPark = true
	d.run()

	// Teardown: release everything that may still be parked.
	close(m.abort)
	cancel()
	if cfg.Real && (!d.terminated || d.gaveUp) {
		// Let the real loop run into its termination bound.
		done := make(chan struct{})
		go func() { wg.Wait(); close(done) }()
		for i := 0; i < 600; i++ {
			select {
			case <-done:
				i = 1 << 20
			case <-time.After(100 * time.Millisecond):
				clk.Advance(10*time.Minute, nil)
			}
		}
	}
	waitDone := make(chan struct{})
	go func() { wg.Wait(); close(waitDone) }()
	select {
	case <-waitDone:
	case <-time.After(watchdog):
		r.Inconclusive("case %+v: worker loop goroutine did not stop at teardown", cfg)
	}

	m.mu.Lock()
	nontrivial := len(m.sits) > 0
	h := ev.HashOf(strings.Join(m.hist, " "))
	r.Count("sync_requests", m.syncCount)
	r.Count("executions", len(m.execs))
	r.Count("driver_steps", d.stepsExecuted)
	if r.WantSample() && nontrivial && len(m.log) > 20 {
		lg := m.log
		if len(lg) > 60 {
			lg = lg[:60]
		}
		r.Sample(map[string]any{"case": cfg, "events": append([]string(nil), lg...)})
	}
	m.mu.Unlock()
	r.Hash(h, nontrivial)
	if d.inconclusive != "" {
		r.Inconclusive("case %+v: %s", cfg, d.inconclusive)
	}
}

// mirrorLoop is builder.LaunchWorkerThread with the random back-off sleep
// replaced by a gate owned by the driver (the virtual clock may be advanced
// there instead).
func mirrorLoop(ctx context.Context, bc *builder.BuildClient, m *monitor, gate chan struct{}) {
	for {
		select {
		case <-m.abort:
			return
		default:
		}
		m.mu.Lock()
		m.shutdownAtHook = m.shutdownAtHook || m.shutdownBegun
		m.mu.Unlock()
		mayTerminate, err := bc.Run(ctx)
		ctxErr := ctx.Err() != nil
		m.mu.Lock()
		m.logf("Run returns mayTerminate=%v err=%v ctxCancelled=%v", mayTerminate, err != nil, ctxErr)
		m.histf("Run:%v:%v", mayTerminate, err != nil)
		select {
		case <-m.abort:
			m.mu.Unlock()
			return
		default:
		}
		if mayTerminate && ctxErr {
			m.checkTermination()
			m.mu.Unlock()
			m.post(event{kind: evTerminated})
			return
		}
		m.mu.Unlock()
		if err != nil {
			m.post(event{kind: evErrGate})
			select {
			case <-gate:
			case <-m.abort:
				return
			}
		}
	}
}

func (d *driver) view(e *execRec) *execView {
	v := d.views[e]
	if v == nil {
		v = &execView{}
		d.views[e] = v
	}
	return v
}

func (d *driver) handle(e event) {
	switch e.kind {
	case evSync:
		d.syncPending, d.selectMaybe, d.awaitPark = true, false, false
	case evTimer:
		d.selectMaybe, d.awaitPark = true, false
	case evErrGate:
		d.errGate, d.awaitPark = true, false
	case evTerminated:
		d.terminated, d.awaitPark = true, false
		if d.cfg.Real {
			d.m.mu.Lock()
			d.m.checkTermination()
			d.m.mu.Unlock()
		}
	case evExecStart:
		d.view(e.exec).entered = true
	case evExecCancel:
		d.view(e.exec).cancel = true
	case evExecAck:
		if d.awaitAck == e.exec {
			d.awaitAck = nil
		}
		// An ack for "channel full" leaves the executor busy; the
		// final ack of the command clears it.
		d.view(e.exec).busy = !e.final
	case evExecReturn:
		v := d.view(e.exec)
		v.returned, v.busy = true, false
		if d.awaitAck == e.exec {
			d.awaitAck = nil
		}
	}
}

func (d *driver) drain() {
	for {
		select {
		case e := <-d.m.evCh:
			d.handle(e)
		default:
			return
		}
	}
}

// block waits for one event; false when the watchdog fired.
func (d *driver) block(what string) bool {
	t := time.NewTimer(watchdog)
	defer t.Stop()
	// The poll only decides *when* to look; the verdict of the hang check
	// comes from the goroutine dump and the executor's context.
	poll := time.NewTicker(300 * time.Millisecond)
	defer poll.Stop()
	for {
		select {
		case e := <-d.m.evCh:
			d.handle(e)
			return true
		case <-poll.C:
			if d.stuckInStopExecution() {
				return false
			}
		case <-t.C:
			buf := make([]byte, 1<<20)
			buf = buf[:runtime.Stack(buf, true)]
			d.inconclusive = fmt.Sprintf("watchdog while waiting for %s (no oracle decided); goroutines:\n%s", what, tail(string(buf), 6000))
			return false
		}
	}
}

// stuckInStopExecution implements the hang policy for pre-emption: the
// scheduler replaced the running action (idle / another action), the client
// is already past its cancellation call and blocked draining the update
// channel in stopExecution, yet the context it handed to Execute is not
// cancelled and the (gated) executor only ends on cancellation. Nothing can
// release that: the worker neither cancels the action nor goes idle, and it
// has stopped synchronizing.
func (d *driver) stuckInStopExecution() bool {
	d.m.mu.Lock()
	e := d.m.preemptedButNotCancelled()
	d.m.mu.Unlock()
	if e == nil {
		return false
	}
	if v := d.view(e); v.busy || v.cancel {
		return false
	}
	buf := make([]byte, 1<<20)
	buf = buf[:runtime.Stack(buf, true)]
	var stuck string
	for _, g := range strings.Split(string(buf), "\n\n") {
		// Only this case's own worker thread counts (other cases run in
		// parallel): its frames carry the address of this BuildClient.
		if strings.Contains(g, "(*BuildClient).stopExecution") && strings.Contains(g, d.bcAddr) && strings.Contains(strings.SplitN(g, "\n", 2)[0], "chan receive") {
			stuck = g
		}
	}
	if stuck == "" || e.ctx.Err() != nil {
		return false
	}
	d.m.mu.Lock()
	d.m.logf("HANG: execution %d pre-empted, client drains in stopExecution, Execute's context never cancelled", e.id)
	trace := "without"
	if e.trace {
		trace = "with"
	}
	d.m.violation("preempted-action-never-cancelled trace-context="+trace,
		fmt.Sprintf("the scheduler replaced execution %d, but the context given to its Execute call was not cancelled; BuildClient.Run is blocked forever in stopExecution waiting for the action to end by itself:\n%s", e.id, tail(stuck, 1500)))
	d.m.mu.Unlock()
	d.terminated, d.gaveUp = true, true // give up on this case; teardown releases everything
	return true
}

func tail(s string, n int) string {
	if len(s) > n {
		return s[:n]
	}
	return s
}

// mustFinish returns an execution that saw cancellation and has to be
// brought to an end so that the client can make progress.
func (d *driver) mustFinish() *execRec {
	d.m.mu.Lock()
	execs := append([]*execRec(nil), d.m.execs...)
	d.m.mu.Unlock()
	for _, e := range execs {
		v := d.view(e)
		if v.entered && v.cancel && !v.returned && !v.busy {
			return e
		}
	}
	return nil
}

func (d *driver) command(e *execRec, c execCmd) {
	v := d.view(e)
	v.busy = true
	d.awaitAck = e
	select {
	case e.cmd <- c:
	case <-time.After(watchdog):
		d.inconclusive = "executor did not accept a command"
	}
}

func (d *driver) run() {
	limit := d.cfg.Steps + 400
	for step := 0; ; {
		d.drain()
		if d.inconclusive != "" {
			return
		}
		if d.awaitAck != nil {
			if !d.block("executor acknowledgement") {
				return
			}
			continue
		}
		if e := d.mustFinish(); e != nil {
			// The client is (in the unchanged code) blocked in
			// stopExecution: let the executor emit late updates,
			// possibly more than the channel holds, then return.
			if d.rng.IntN(100) < 45 {
				d.command(e, execCmd{emit: 1 + d.rng.IntN(14)})
			} else {
				d.command(e, execCmd{complete: true})
			}
			continue
		}
		if d.awaitPark {
			if !d.block("the worker thread to park") {
				return
			}
			continue
		}
		if d.terminated {
			return
		}
		if step >= limit {
			d.inconclusive = "step limit reached without termination"
			return
		}
		if !d.shutdownDone && step >= d.cfg.ShutdownAt {
			d.m.mu.Lock()
			begun := d.m.shutdownBegun
			if !begun && d.cfg.ShutdownIn != "" && d.armedSteps == 0 {
				d.m.armedShutdown = d.cfg.ShutdownIn
				d.m.logf("driver: shutdown armed for the next %s hook", d.cfg.ShutdownIn)
			}
			d.m.mu.Unlock()
			d.armedSteps++
			switch {
			case begun:
				d.shutdownDone = true // done by a hook inside Run
			case d.cfg.ShutdownIn == "" || d.armedSteps > 12:
				d.shutdown()
			}
		}
		if d.shutdownDone {
			d.stepsAfter++
			if !d.windDown && (d.stepsAfter > d.postBudget+60 || (!d.errorsOnly && d.stepsAfter > d.postBudget)) {
				d.windDown = true
				d.m.mu.Lock()
				d.m.logf("driver: wind-down (scheduler answers idle from now on)")
				d.m.mu.Unlock()
			}
		}
		d.step()
		step++
		d.stepsExecuted++
	}
}

func (d *driver) shutdown() {
	d.shutdownDone = true
	d.stop()
	d.m.mu.Lock()
	if d.m.shutdownBegun {
		d.m.mu.Unlock()
		return
	}
	d.m.armedShutdown = ""
	d.m.shutdownBegun = true
	d.m.logf("driver: SHUTDOWN (context cancelled)")
	d.m.histf("X")
	if d.m.active > 0 {
		d.m.situation("shutdown-while-executing")
	}
	d.m.mu.Unlock()
}

// curExec returns the current execution if the driver may command it.
func (d *driver) curExec() *execRec {
	d.m.mu.Lock()
	cur := d.m.cur
	d.m.mu.Unlock()
	if cur == nil {
		return nil
	}
	v := d.view(cur)
	if !v.entered || v.returned || v.busy {
		return nil
	}
	return cur
}

func (d *driver) fireTimer() {
	// Relax the freshness rule before the timer can be observed.
	d.m.mu.Lock()
	d.m.timerFired = true
	// Is the client certainly parked in its select? It created its timer,
	// has not synchronized since, and there is nothing it could consume.
	cur := d.m.cur
	parked := d.m.timerSeen && cur != nil && !cur.returned && len(cur.updates) == cur.reportedPos && d.clk.Pending() > 0
	wake := parked && d.m.shutdownBegun
	d.m.mu.Unlock()
	fired := d.clk.FireNext(d.clk.Now().Add(time.Hour))
	d.m.mu.Lock()
	if wake && fired {
		d.m.wokenAfterShutdown = true
	}
	d.m.logf("driver: fire timer (%v)", fired)
	d.m.mu.Unlock()
	d.selectMaybe = false
	d.awaitPark = true
}

func (d *driver) advance(dur time.Duration) {
	if at, ok := d.clk.NextDeadline(); ok && !at.After(d.clk.Now().Add(dur)) {
		d.m.mu.Lock()
		d.m.timerFired = true
		d.m.mu.Unlock()
	}
	n := d.clk.Advance(dur, nil)
	d.m.mu.Lock()
	d.m.logf("driver: advance %v (%d timers fired)", dur, n)
	d.m.mu.Unlock()
	if n > 0 && d.selectMaybe {
		d.selectMaybe = false
		d.awaitPark = true
	}
}

func (d *driver) step() {
	rng := d.rng
	cur := d.curExec()
	if d.syncPending && d.cfg.Real && d.shutdownDone && d.errAfterShutdown < 2 && d.cfg.Base%2 == 0 {
		// Exercise LaunchWorkerThread's "error while terminating" arm
		// (uninterruptible back-off, then keep synchronizing).
		d.errAfterShutdown++
		d.m.mu.Lock()
		d.m.situation("real-loop-error-after-shutdown")
		d.m.mu.Unlock()
		d.sendReply("error")
		return
	}
	if d.windDown {
		switch {
		case d.syncPending:
			d.windReplies++
			if d.windReplies > 4 {
				d.m.mu.Lock()
				d.m.violation("no-termination-after-scheduler-acknowledged-idle", fmt.Sprintf("after shutdown the scheduler answered %d requests with 'idle', the worker thread still synchronizes", d.windReplies-1))
				d.m.mu.Unlock()
				d.inconclusive = ""
				d.terminated, d.gaveUp = true, true // give up on this case
				return
			}
			d.sendReply("idle")
		case d.errGate:
			d.errGate = false
			d.awaitPark = true
			d.gate <- struct{}{}
		case d.selectMaybe:
			d.fireTimer()
		default:
			d.awaitPark = true
		}
		return
	}
	if d.shutdownDone && d.errorsOnly {
		switch {
		case d.syncPending:
			d.sendReply("error")
		case d.errGate:
			d.advance(time.Duration(5+rng.IntN(30)) * time.Second)
			d.errGate = false
			d.awaitPark = true
			d.gate <- struct{}{}
		case d.selectMaybe:
			if cur != nil && rng.IntN(4) == 0 {
				d.command(cur, execCmd{emit: 1})
				d.awaitPark = true
				d.selectMaybe = false
			} else {
				d.advance(time.Duration(5+rng.IntN(30)) * time.Second)
				if d.selectMaybe {
					d.fireTimer()
				}
			}
		default:
			d.awaitPark = true
		}
		return
	}

	type action struct {
		w int
		f func()
	}
	var acts []action
	add := func(w int, f func()) { acts = append(acts, action{w, f}) }
	if d.syncPending {
		add(60, func() { d.sendReply(d.pickReply()) })
	}
	if d.errGate {
		add(60, func() {
			if rng.IntN(2) == 0 {
				d.advance(time.Duration(rng.IntN(5000)) * time.Millisecond)
			}
			d.errGate = false
			d.awaitPark = true
			d.gate <- struct{}{}
		})
	}
	if d.selectMaybe && !d.syncPending {
		add(30, d.fireTimer)
	}
	if cur != nil {
		emit := func() {
			n := 1
			switch rng.IntN(10) {
			case 0:
				n = 11 + rng.IntN(4) // more than the channel holds
			case 1, 2:
				n = 2 + rng.IntN(4)
			}
			if d.selectMaybe && !d.syncPending {
				// The first send wakes the client.
				d.selectMaybe = false
				d.awaitPark = true
			}
			d.command(cur, execCmd{emit: n})
		}
		complete := func() {
			if d.selectMaybe && !d.syncPending {
				d.selectMaybe = false
				d.awaitPark = true
			}
			c := execCmd{emit: rng.IntN(3), complete: true, nonOK: rng.IntN(3) == 0}
			// Draw the extra choices from a PRNG of their own so that the
			// main stream (and with it every other decision of the base
			// history) stays what it was.
			c.code = nonOKCodes[d.rng2.IntN(len(nonOKCodes))]
			c.okStyle = d.rng2.IntN(2)
			owe := d.rng2.IntN(2) == 0
			if c.nonOK && owe && (!d.cfg.Real || d.errReplies < 2) {
				// Let the readiness re-check that this failure calls for
				// fail once or twice before it succeeds.
				if d.cfg.Real {
					d.errReplies++
				}
				d.m.mu.Lock()
				d.m.readinessFailures = 1 + d.rng2.IntN(2)
				if d.cfg.Real {
					d.m.readinessFailures = 1
				}
				d.m.logf("driver: next %d readiness check(s) fail (after the non-OK completion)", d.m.readinessFailures)
				d.m.mu.Unlock()
			}
			d.command(cur, c)
		}
		add(25, emit)
		add(18, complete)
	}
	add(6, func() { d.advance(time.Duration(1+rng.IntN(40)) * time.Second) })
	if !d.cfg.Real || d.errReplies < 2 {
		add(3, func() {
			if d.cfg.Real {
				d.errReplies++
			}
			d.m.mu.Lock()
			d.m.readinessFailures = 1 + rng.IntN(2)
			if d.cfg.Real {
				d.m.readinessFailures = 1
			}
			d.m.logf("driver: next %d readiness check(s) fail", d.m.readinessFailures)
			d.m.mu.Unlock()
		})
	}
	total := 0
	for _, a := range acts {
		total += a.w
	}
	x := rng.IntN(total)
	for _, a := range acts {
		if x < a.w {
			a.f()
			return
		}
		x -= a.w
	}
}

func (d *driver) pickReply() string {
	rng := d.rng
	d.m.mu.Lock()
	cur := d.m.cur
	d.m.mu.Unlock()
	maxErr := 6
	if d.cfg.Real {
		maxErr = 2 // every error costs up to 5 s of wall-clock back-off
	}
	for {
		x := rng.IntN(100)
		var k string
		switch {
		case x < 28:
			k = "execute-new"
		case x < 36:
			k = "execute-same"
		case x < 50:
			k = "idle"
		case x < 74:
			k = "none"
		case x < 83:
			k = "error"
		case x < 89:
			k = "bad-timestamp"
		case x < 93:
			k = "unknown"
		default:
			k = "execute-invalid"
		}
		if k == "execute-same" && cur == nil {
			continue
		}
		if k == "error" || k == "bad-timestamp" || k == "unknown" || k == "execute-invalid" {
			if d.errReplies >= maxErr {
				continue
			}
			d.errReplies++
		}
		return k
	}
}

func (d *driver) newExec(sameAs *execRec, invalid bool) (*execRec, *remoteworker.DesiredState_Executing) {
	d.nextID++
	var dg *remoteexecution.Digest
	if sameAs != nil {
		dg = &remoteexecution.Digest{Hash: sameAs.digest.Hash, SizeBytes: sameAs.digest.SizeBytes}
	} else {
		sum := sha256.Sum256([]byte(fmt.Sprintf("c08-%d-%d-%d", d.cfg.Base, d.cfg.Variant, d.nextID)))
		dg = &remoteexecution.Digest{Hash: hex.EncodeToString(sum[:]), SizeBytes: int64(100 + d.nextID)}
	}
	// Vary every optional field of the instruction.
	rng := d.rng
	req := &remoteworker.DesiredState_Executing{
		ActionDigest:       dg,
		Action:             &remoteexecution.Action{DoNotCache: d.nextID%3 == 0},
		InstanceNameSuffix: []string{"suffix", "", "a/b/c"}[rng.IntN(3)],
		DigestFunction: []remoteexecution.DigestFunction_Value{remoteexecution.DigestFunction_SHA256, remoteexecution.DigestFunction_SHA1,
			remoteexecution.DigestFunction_MD5, remoteexecution.DigestFunction_SHA384, remoteexecution.DigestFunction_SHA512}[rng.IntN(5)],
	}
	if rng.IntN(4) != 0 {
		req.QueuedTimestamp = timestamppb.New(d.clk.Now().Add(-time.Duration(rng.IntN(100)) * time.Second))
	}
	if rng.IntN(2) == 0 {
		req.Action.Timeout = durationpb.New(time.Duration(rng.IntN(3600)) * time.Second)
	}
	switch rng.IntN(4) {
	case 0:
		req.W3CTraceContext = map[string]string{"traceparent": fmt.Sprintf("00-%032x-%016x-01", uint64(d.nextID)+1, uint64(d.cfg.Base)+1)}
	case 1:
		req.W3CTraceContext = map[string]string{
			"traceparent": fmt.Sprintf("00-%032x-%016x-00", uint64(d.nextID)+7, uint64(d.cfg.Base)+3),
			"tracestate":  "vendor=opaque,other=1",
			"baggage":     "k=v",
		}
	case 2:
		if rng.IntN(2) == 0 {
			req.W3CTraceContext = map[string]string{"traceparent": "not a valid traceparent"}
		}
	}
	if rng.IntN(3) == 0 {
		if a, err := anypb.New(&remoteexecution.RequestMetadata{ToolInvocationId: fmt.Sprintf("inv-%d", d.nextID)}); err == nil {
			req.AuxiliaryMetadata = append(req.AuxiliaryMetadata, a)
		}
	}
	if invalid {
		if d.nextID%2 == 0 {
			req.InstanceNameSuffix = "a//b"
		} else {
			req.DigestFunction = remoteexecution.DigestFunction_UNKNOWN
		}
		return nil, req
	}
	rec := &execRec{id: d.nextID, digest: dg, request: req, cmd: make(chan execCmd), trace: len(req.W3CTraceContext) > 0}
	d.m.mu.Lock()
	d.m.execs = append(d.m.execs, rec)
	d.m.byReq[req] = rec
	d.m.mu.Unlock()
	return rec, req
}

func (d *driver) sendReply(kind string) {
	rng := d.rng
	now := d.clk.Now()
	offsets := []time.Duration{0, time.Second, 5 * time.Second, 10 * time.Second, 30 * time.Second, -2 * time.Second}
	nextAt := now.Add(offsets[rng.IntN(len(offsets))])
	rep := syncReply{kind: kind, valid: true, nextAt: nextAt, desired: "none"}
	resp := &remoteworker.SynchronizeResponse{NextSynchronizationAt: timestamppb.New(nextAt)}
	d.m.mu.Lock()
	cur := d.m.cur
	d.m.mu.Unlock()
	execute := func(same, invalid bool) {
		var sameAs *execRec
		if same {
			sameAs = cur
		}
		rec, req := d.newExec(sameAs, invalid)
		resp.DesiredState = &remoteworker.DesiredState{WorkerState: &remoteworker.DesiredState_Executing_{Executing: req}}
		rep.exec = rec
		rep.desired = "execute"
		if invalid {
			rep.desired = "execute-invalid"
		}
	}
	switch kind {
	case "execute-new":
		execute(false, false)
	case "execute-same":
		execute(true, false)
	case "execute-invalid":
		execute(false, true)
	case "idle":
		resp.DesiredState = &remoteworker.DesiredState{WorkerState: &remoteworker.DesiredState_Idle{Idle: &emptypb.Empty{}}}
		rep.desired = "idle"
	case "none":
	case "unknown":
		resp.DesiredState = &remoteworker.DesiredState{}
		rep.desired = "unknown"
	case "bad-timestamp":
		rep.valid = false
		switch rng.IntN(3) {
		case 0:
			resp.NextSynchronizationAt = nil
		case 1:
			resp.NextSynchronizationAt = &timestamppb.Timestamp{Seconds: 1 << 60}
		default:
			resp.NextSynchronizationAt = &timestamppb.Timestamp{Seconds: now.Unix(), Nanos: -5}
		}
		switch rng.IntN(3) {
		case 0:
			execute(false, false)
			// The client never sees this instruction.
			d.m.mu.Lock()
			delete(d.m.byReq, rep.exec.request)
			d.m.execs = d.m.execs[:len(d.m.execs)-1]
			d.m.mu.Unlock()
			rep.exec = nil
		case 1:
			resp.DesiredState = &remoteworker.DesiredState{WorkerState: &remoteworker.DesiredState_Idle{Idle: &emptypb.Empty{}}}
			rep.desired = "idle"
		}
	case "error":
		resp = nil
		rep.err = status.Error(codes.Unavailable, "Connection refused")
	}
	rep.response = resp
	d.syncPending = false
	d.awaitPark = true
	select {
	case d.m.reply <- rep:
	case <-time.After(watchdog):
		d.inconclusive = "client did not take the scheduler's reply"
	}
}
