package c08

import (
	"context"
	"fmt"
	"sync"
	"time"

	remoteexecution "github.com/bazelbuild/remote-apis/build/bazel/remote/execution/v2"
	"github.com/buildbarn/bb-remote-execution/pkg/filesystem/access"
	"github.com/buildbarn/bb-remote-execution/pkg/filesystem/pool"
	"github.com/buildbarn/bb-remote-execution/pkg/proto/remoteworker"
	"github.com/buildbarn/bb-storage/pkg/digest"

	"google.golang.org/grpc"
	"google.golang.org/grpc/codes"
	"google.golang.org/grpc/status"
	"google.golang.org/protobuf/proto"

	"verif/internal/ev"
	"verif/internal/vclock"
)

// posCompleted is the "position" of the completion report in the sequence
// Started(0), update 1, update 2, ..., Completed.
const posCompleted = 1 << 30

type evKind int

const (
	evSync       evKind = iota // client parked in Synchronize
	evTimer                    // client created its wait timer (may be parked in select)
	evErrGate                  // mirror loop parked at the error back-off gate
	evTerminated               // worker thread returned
	evRunReturn                // mirror loop: Run returned (informational)
	evExecStart                // executor entered Execute
	evExecCancel               // executor observed ctx.Done()
	evExecAck                  // executor finished an emit command or found the channel full
	evExecReturn               // executor returned from Execute
)

type event struct {
	kind  evKind
	exec  *execRec
	final bool // evExecAck: the command is finished (false: blocked on a full channel)
}

type execCmd struct {
	emit     int  // number of updates to emit (0 = none)
	complete bool // return from Execute afterwards
	nonOK    bool // completion status
	// code: status code of a non-OK completion (0 = codes.Internal);
	// okStyle: how an OK completion spells its status (0 = no status
	// message, 1 = explicit status with code OK).
	code    codes.Code
	okStyle int
}

// execRec is the monitor's record of one execution the scheduler asked for.
type execRec struct {
	id       int
	digest   *remoteexecution.Digest
	request  *remoteworker.DesiredState_Executing
	cmd      chan execCmd
	entered  bool
	returned bool
	// cancelSeen: executor saw ctx.Done(); busy: executing a driver command.
	cancelSeen bool
	busy       bool

	updates   []*remoteworker.CurrentState_Executing
	snapshots []*remoteworker.CurrentState_Executing
	sendDone  int
	// sentAfterShutdown[i]: the send of update i+1 began after shutdown
	// had begun; returnedAfterShutdown likewise for the return of Execute.
	sentAfterShutdown     []bool
	returnedAfterShutdown bool

	response     *remoteexecution.ExecuteResponse
	responseSnap *remoteexecution.ExecuteResponse

	reportedPos int

	// ctx is the context Execute was called with; trace tells whether the
	// instruction carried a W3C trace context.
	ctx   context.Context
	trace bool
}

// monitor holds all oracle state of one case. Every field is guarded by mu.
type monitor struct {
	r   *ev.Run
	cfg caseCfg
	clk *vclock.Clock

	mu    sync.Mutex
	log   []string
	hist  []string // compact history for hashing
	sits  map[string]bool
	vio   int
	abort chan struct{}
	evCh  chan event
	reply chan syncReply

	// executor side
	active int
	execs  []*execRec
	byReq  map[*remoteworker.DesiredState_Executing]*execRec
	cur    *execRec // what the scheduler last successfully instructed

	// freshness bookkeeping within one Run
	timerSeen       bool
	sendDoneAtTimer int
	timerFired      bool

	// scheduler belief model
	mayThink     bool
	bound        time.Time
	lastNextSync time.Time
	// looseNextSync is the earliest synchronization time an
	// implementation may still base its bound on after protocol-invalid
	// replies (refused execute request, unknown desired state).
	looseNextSync time.Time

	// shutdown / PreferBeingIdle bookkeeping
	shutdownBegun  bool
	shutdownAtHook bool // shutdown had begun at the last in-Run hook or reply
	// wokenAfterShutdown: the driver fired the client's wait timer after
	// shutdown had begun while the client was certainly parked in its
	// select (nothing left to consume): the request that follows is built
	// after shutdown began.
	wokenAfterShutdown bool
	// armedShutdown ("timer"/"readiness"): the next hook of that kind
	// cancels the worker's context from inside Run.
	armedShutdown        string
	stop                 func()
	needReadiness        bool
	readinessFailures    int
	syncCount            int
	lastReqExecuting     bool // last request claimed a non-completed execution
	lastReqPBI           bool
	idleAckAfterShutdown int // replies that told an idle-reporting worker "idle/ok" after shutdown
}

type syncReply struct {
	kind     string
	response *remoteworker.SynchronizeResponse
	err      error
	// what the scripted scheduler "meant"
	desired string // "execute", "execute-invalid", "idle", "none", "unknown"
	valid   bool   // timestamp valid
	nextAt  time.Time
	exec    *execRec // for desired == execute
}

func (m *monitor) logf(format string, args ...any) {
	if len(m.log) < 700 {
		m.log = append(m.log, fmt.Sprintf("t=%d ", m.clk.Now().Unix())+fmt.Sprintf(format, args...))
	}
}

func (m *monitor) histf(format string, args ...any) {
	m.hist = append(m.hist, fmt.Sprintf(format, args...))
}

func (m *monitor) situation(name string) {
	if !m.sits[name] {
		m.sits[name] = true
	}
	m.r.Situation(name)
}

// violation must be called with mu held.
func (m *monitor) violation(sig, detail string) {
	m.vio++
	m.logf("VIOLATION %s: %s", sig, detail)
	m.r.Violation("C08 "+sig, detail, map[string]any{
		"case":     m.cfg,
		"expected": detail,
		"events":   append([]string(nil), m.log...),
	})
}

func (m *monitor) post(e event) {
	select {
	case m.evCh <- e:
	case <-m.abort:
	}
}

func stateName(s *remoteworker.CurrentState_Executing) string {
	switch s.GetExecutionState().(type) {
	case *remoteworker.CurrentState_Executing_Started:
		return "started"
	case *remoteworker.CurrentState_Executing_FetchingInputs:
		return "fetching"
	case *remoteworker.CurrentState_Executing_Running:
		return "running"
	case *remoteworker.CurrentState_Executing_UploadingOutputs:
		return "uploading"
	case *remoteworker.CurrentState_Executing_Completed:
		return "completed"
	}
	return "unknown"
}

// ---------------------------------------------------------------------
// Scripted scheduler.

type fakeScheduler struct{ m *monitor }

func (s fakeScheduler) Synchronize(ctx context.Context, in *remoteworker.SynchronizeRequest, opts ...grpc.CallOption) (*remoteworker.SynchronizeResponse, error) {
	m := s.m
	// "Marshal" the request at the boundary: the client keeps mutating it.
	snap := proto.Clone(in).(*remoteworker.SynchronizeRequest)
	var executing *remoteworker.CurrentState_Executing
	if e, ok := in.CurrentState.GetWorkerState().(*remoteworker.CurrentState_Executing_); ok {
		executing = e.Executing
	}
	m.mu.Lock()
	m.syncCount++
	m.checkRequest(ctx, snap, executing)
	m.timerSeen = false
	m.timerFired = false
	m.mu.Unlock()

	m.post(event{kind: evSync})
	var rep syncReply
	select {
	case rep = <-m.reply:
	case <-m.abort:
		return nil, status.Error(codes.Unavailable, "case aborted")
	}
	m.mu.Lock()
	m.applyReply(rep)
	m.shutdownAtHook = m.shutdownBegun
	m.mu.Unlock()
	return rep.response, rep.err
}

// checkRequest evaluates the honest-state and PreferBeingIdle oracles on one
// received request. mu held.
func (m *monitor) checkRequest(ctx context.Context, req *remoteworker.SynchronizeRequest, livePtr *remoteworker.CurrentState_Executing) {
	pbi := req.PreferBeingIdle
	m.lastReqPBI = pbi
	m.lastReqExecuting = false
	switch ws := req.CurrentState.GetWorkerState().(type) {
	case *remoteworker.CurrentState_Idle:
		m.logf("sync#%d idle pbi=%v ctxErr=%v", m.syncCount, pbi, ctx.Err() != nil)
		m.histf("S:idle:%v", pbi)
		if m.active != 0 {
			m.violation("idle-report-while-executor-active", fmt.Sprintf("request #%d claims idle while %d Execute call(s) have not returned", m.syncCount, m.active))
		}
		if m.cur != nil {
			m.violation("idle-report-while-instructed-to-execute", fmt.Sprintf("request #%d claims idle although the scheduler's last accepted instruction was to execute %s", m.syncCount, m.cur.digest.GetHash()[:8]))
		}
	case *remoteworker.CurrentState_Executing_:
		ex := ws.Executing
		name := stateName(ex)
		m.logf("sync#%d executing %s %s pbi=%v ctxErr=%v", m.syncCount, ex.GetActionDigest().GetHash()[:8], name, pbi, ctx.Err() != nil)
		m.histf("S:%s:%v", name, pbi)
		m.lastReqExecuting = name != "completed"
		cur := m.cur
		if cur == nil {
			m.violation("executing-report-without-instruction state="+name, fmt.Sprintf("request #%d claims to execute %s but the scheduler has no outstanding instruction", m.syncCount, ex.GetActionDigest().GetHash()))
			break
		}
		if !proto.Equal(ex.GetActionDigest(), cur.digest) {
			m.violation("report-names-other-action state="+name, fmt.Sprintf("request #%d reports digest %s, the executor was instructed to run %s", m.syncCount, ex.GetActionDigest().GetHash(), cur.digest.GetHash()))
			break
		}
		lo := cur.reportedPos
		if m.timerSeen && !m.timerFired && m.sendDoneAtTimer > lo {
			lo = m.sendDoneAtTimer
		}
		pos := -1
		switch st := ex.ExecutionState.(type) {
		case *remoteworker.CurrentState_Executing_Started:
			pos = 0
		case *remoteworker.CurrentState_Executing_Completed:
			pos = posCompleted
			if !cur.returned {
				m.violation("completion-reported-before-executor-returned", fmt.Sprintf("request #%d reports completion of %s while its Execute call is still running", m.syncCount, cur.digest.GetHash()[:8]))
			} else {
				var live *remoteexecution.ExecuteResponse
				if c, ok := livePtr.GetExecutionState().(*remoteworker.CurrentState_Executing_Completed); ok {
					live = c.Completed
				}
				if live != cur.response || !proto.Equal(st.Completed, cur.responseSnap) {
					m.violation("completion-carries-foreign-response", fmt.Sprintf("request #%d: completion of execution %d carries response %q, its executor returned %q", m.syncCount, cur.id, st.Completed.GetMessage(), cur.responseSnap.GetMessage()))
				}
			}
			nonOK := status.ErrorProto(st.Completed.GetStatus()) != nil
			if nonOK {
				m.situation("non-ok-completion-reported")
				m.situation("non-ok-completion-reported code=" + codes.Code(st.Completed.GetStatus().GetCode()).String())
				m.needReadiness = true
				if !pbi {
					m.violation("non-ok-completion-without-prefer-being-idle", fmt.Sprintf("request #%d reports a completion with status code %d but PreferBeingIdle is false", m.syncCount, st.Completed.GetStatus().GetCode()))
				}
			}
		default:
			// An update emitted by the executor: identify it.
			for i, u := range cur.updates {
				if u == livePtr {
					pos = i + 1
					if !proto.Equal(ex, cur.snapshots[i]) {
						m.violation("reported-update-altered", fmt.Sprintf("request #%d: update %d of execution %d was altered before being reported", m.syncCount, pos, cur.id))
					}
				}
			}
			if pos < 0 {
				where := "unknown origin"
				for _, other := range m.execs {
					for i, u := range other.updates {
						if u == livePtr {
							where = fmt.Sprintf("update %d of earlier execution %d", i+1, other.id)
						}
					}
				}
				m.violation("reported-update-not-from-running-executor", fmt.Sprintf("request #%d reports state %s that the running executor (execution %d) never emitted: %s", m.syncCount, name, cur.id, where))
			}
		}
		if pos >= 0 {
			if pos < cur.reportedPos {
				m.violation("reported-state-went-backwards", fmt.Sprintf("request #%d reports position %d of execution %d after position %d had been reported", m.syncCount, pos, cur.id, cur.reportedPos))
			} else if pos < lo {
				m.violation("stale-report-despite-available-updates", fmt.Sprintf("request #%d reports position %d of execution %d although %d updates had been delivered before the client started waiting and its timer did not fire", m.syncCount, pos, cur.id, m.sendDoneAtTimer))
			}
			if pos > cur.reportedPos {
				cur.reportedPos = pos
			}
		}
	default:
		m.violation("unknown-current-state", fmt.Sprintf("request #%d carries no recognisable worker state", m.syncCount))
	}

	// PreferBeingIdle rules. The request was certainly built after shutdown
	// began if shutdown preceded the last hook inside this Run, if the
	// state it reports was produced by the executor after shutdown began
	// (the client consumed it, then looked at its context), or if the
	// client was woken from its wait by a timer fired after shutdown.
	afterShutdown := m.shutdownAtHook || m.wokenAfterShutdown
	why := "a hook inside Run had already seen the shutdown"
	if m.wokenAfterShutdown {
		why = "the client was parked waiting for updates when shutdown began and was woken by its timer afterwards"
	}
	if e, ok := req.CurrentState.GetWorkerState().(*remoteworker.CurrentState_Executing_); ok && m.cur != nil && livePtr != nil {
		switch e.Executing.ExecutionState.(type) {
		case *remoteworker.CurrentState_Executing_Started:
		case *remoteworker.CurrentState_Executing_Completed:
			if m.cur.returnedAfterShutdown && m.timerSeen {
				afterShutdown, why = true, "it reports a completion the executor produced after shutdown began"
			}
		default:
			for i, u := range m.cur.updates {
				if u == livePtr && m.cur.sentAfterShutdown[i] && m.timerSeen {
					afterShutdown, why = true, "it reports an update the executor emitted after shutdown began"
				}
			}
		}
	}
	m.wokenAfterShutdown = false
	if afterShutdown {
		m.situation("request-built-after-shutdown-inside-run")
	}
	_ = why
	if afterShutdown {
		if !pbi {
			m.violation("request-after-shutdown-without-prefer-being-idle", fmt.Sprintf("request #%d was built after shutdown began (%s) but PreferBeingIdle is false", m.syncCount, why))
		}
		if ctx.Err() != nil {
			m.violation("request-after-shutdown-with-cancelled-context", fmt.Sprintf("request #%d was issued after shutdown with an already cancelled context, so it can never reach the scheduler", m.syncCount))
		}
	}
	if m.needReadiness && !pbi {
		m.violation("solicits-work-before-readiness-recheck", fmt.Sprintf("request #%d has PreferBeingIdle=false although a non-OK completion was reported and no readiness check has succeeded since", m.syncCount))
	}
}

// applyReply updates the scheduler-belief model with what the worker is
// about to learn. mu held.
func (m *monitor) applyReply(rep syncReply) {
	m.logf("reply %s desired=%s valid=%v next=%d", rep.kind, rep.desired, rep.valid, rep.nextAt.Unix())
	m.histf("R:%s:%s:%v", rep.kind, rep.desired, rep.valid)
	oldBound := m.lastNextSync.Add(time.Minute)
	if m.looseNextSync.Before(m.lastNextSync) {
		oldBound = m.looseNextSync.Add(time.Minute)
	}
	if rep.err != nil {
		// Request and/or response may have been lost. If the request
		// allowed new work or claimed an execution the scheduler may
		// (still) think we execute.
		if !m.mayThink && (!m.lastReqPBI || m.lastReqExecuting) {
			m.mayThink = true
			m.bound = oldBound
		}
		if m.lastReqExecuting || m.cur != nil {
			m.situation("rpc-error-after-execute-request")
		}
		return
	}
	if !rep.valid {
		if rep.desired == "execute" || rep.desired == "execute-invalid" {
			if !m.mayThink {
				m.mayThink = true
				m.bound = oldBound
			}
			m.situation("rpc-error-after-execute-request")
		}
		return
	}
	newBound := rep.nextAt.Add(time.Minute)
	prevLoose := m.looseNextSync
	m.lastNextSync = rep.nextAt
	m.looseNextSync = rep.nextAt
	if (rep.desired == "execute-invalid" || rep.desired == "unknown") && prevLoose.Before(rep.nextAt) {
		m.looseNextSync = prevLoose
	}
	switch rep.desired {
	case "execute":
		if m.cur != nil && !m.cur.returned {
			m.situation("execute-while-executing")
			if m.cur.trace {
				m.situation("preempted-action-with-trace-context")
			}
		}
		if rep.exec.trace {
			m.situation("execute-with-trace-context")
		}
		if m.cur != nil && m.cur.returned && m.cur.reportedPos != posCompleted {
			m.situation("completion-racing-reply")
		}
		m.cur = rep.exec
		m.mayThink = true
		m.bound = newBound
		m.needReadiness = false
	case "execute-invalid":
		// The scheduler thinks we run the new action; the client
		// refuses it. Loosest reading of the bound.
		b := newBound
		if m.mayThink && m.bound.Before(b) {
			b = m.bound
		}
		if !m.mayThink && oldBound.Before(b) {
			b = oldBound
		}
		m.mayThink = true
		m.bound = b
	case "idle":
		if m.cur != nil && m.cur.returned && m.cur.reportedPos != posCompleted {
			m.situation("completion-racing-reply")
		}
		if m.cur != nil && !m.cur.returned && m.cur.trace {
			m.situation("preempted-action-with-trace-context")
		}
		m.cur = nil
		m.mayThink = false
		if m.shutdownBegun {
			m.idleAckAfterShutdown++
		}
	case "none":
		if m.lastReqExecuting {
			m.mayThink = true
			m.bound = newBound
		} else {
			m.mayThink = false
			if m.shutdownBegun {
				m.idleAckAfterShutdown++
			}
		}
	case "unknown":
		// Protocol-invalid reply; belief unchanged.
	}
}

// shutdownInHook cancels the worker's context from inside a harness-owned
// callback of Run (readiness check, creation of the wait timer), if the
// driver armed that. mu held.
func (m *monitor) shutdownInHook(kind string) {
	if m.armedShutdown != kind || m.shutdownBegun {
		return
	}
	m.armedShutdown = ""
	m.stop()
	m.shutdownBegun = true
	m.logf("SHUTDOWN inside Run (context cancelled in the %s hook)", kind)
	m.histf("X:%s", kind)
	m.situation("shutdown-inside-run-at-" + kind)
	if m.active > 0 {
		m.situation("shutdown-while-executing")
	}
}

// preemptedButNotCancelled returns an execution the scheduler has replaced
// (by idle or by another action) whose Execute call is still running with a
// context that was never cancelled. mu held.
func (m *monitor) preemptedButNotCancelled() *execRec {
	for _, e := range m.execs {
		if e.entered && !e.returned && e != m.cur && e.ctx != nil && e.ctx.Err() == nil {
			return e
		}
	}
	return nil
}

// checkTermination is called when the worker thread decides to terminate.
// mu held.
func (m *monitor) checkTermination() {
	now := m.clk.Now()
	m.logf("worker thread terminates; model mayThink=%v bound=%d", m.mayThink, m.bound.Unix())
	m.histf("T:%v", m.mayThink)
	if !m.shutdownBegun {
		m.violation("terminated-without-shutdown", "worker thread returned although its context was never cancelled")
		return
	}
	if m.mayThink && now.Before(m.bound) {
		what := "idle"
		if m.active > 0 {
			what = "still running an action"
		}
		m.violation("terminated-while-scheduler-may-think-executing executor="+what,
			fmt.Sprintf("worker terminated at t=%d although the scheduler may believe it executes until t=%d (last announced synchronization time + 1 min)", now.Unix(), m.bound.Unix()))
		return
	}
	if m.mayThink {
		m.situation("terminated-after-bound-expired")
	}
	if m.active > 0 {
		m.situation("terminated-with-executor-still-running")
	}
}

// ---------------------------------------------------------------------
// Instrumented executor.

type fakeExecutor struct{ m *monitor }

func (e fakeExecutor) CheckReadiness(ctx context.Context) error {
	m := e.m
	m.mu.Lock()
	defer m.mu.Unlock()
	m.shutdownInHook("readiness")
	m.shutdownAtHook = m.shutdownAtHook || m.shutdownBegun
	if m.readinessFailures > 0 {
		m.readinessFailures--
		m.logf("readiness check fails")
		m.histf("C:fail")
		m.situation("readiness-failure")
		if m.needReadiness {
			m.situation("readiness-failure-after-non-ok-completion")
		}
		return status.Error(codes.Internal, "Still cannot contact runner")
	}
	m.logf("readiness check ok")
	m.histf("C:ok")
	m.needReadiness = false
	return nil
}

func (e fakeExecutor) Execute(ctx context.Context, filePool pool.FilePool, monitor access.UnreadDirectoryMonitor, digestFunction digest.Function, request *remoteworker.DesiredState_Executing, updates chan<- *remoteworker.CurrentState_Executing) *remoteexecution.ExecuteResponse {
	m := e.m
	m.mu.Lock()
	rec := m.byReq[request]
	if rec == nil {
		m.violation("execute-of-unknown-request", "Execute called with a request the scheduler never sent")
		m.mu.Unlock()
		return &remoteexecution.ExecuteResponse{Status: status.New(codes.Internal, "unknown request").Proto()}
	}
	if rec.entered {
		m.violation("execute-called-twice-for-one-instruction", fmt.Sprintf("execution %d", rec.id))
	}
	rec.entered = true
	rec.ctx = ctx
	// The action the scheduler asked for lives in the instance "worker's
	// prefix + instance_name_suffix" and is addressed with the requested
	// digest function (remoteworker.proto).
	wantInstance := "prefix"
	if request.InstanceNameSuffix != "" {
		wantInstance += "/" + request.InstanceNameSuffix
	}
	if got := digestFunction.GetInstanceName().String(); got != wantInstance || digestFunction.GetEnumValue() != request.DigestFunction {
		m.violation("execute-started-in-foreign-instance-or-digest-function",
			fmt.Sprintf("execution %d: Execute was given instance name %q / digest function %s, the scheduler asked for instance %q (prefix + suffix %q) / %s",
				rec.id, got, digestFunction.GetEnumValue(), wantInstance, request.InstanceNameSuffix, request.DigestFunction))
	}
	m.situation("execute-instance-suffix=" + map[bool]string{true: "empty", false: "set"}[request.InstanceNameSuffix == ""])
	m.active++
	m.logf("exec %d (%s) enters Execute; active=%d", rec.id, rec.digest.GetHash()[:8], m.active)
	m.histf("E+%d", m.active)
	if m.active > 1 {
		var others []int
		for _, o := range m.execs {
			if o != rec && o.entered && !o.returned {
				others = append(others, o.id)
			}
		}
		m.violation("two-executions-overlap", fmt.Sprintf("Execute for execution %d started while execution(s) %v had not returned", rec.id, others))
	}
	if rec != m.cur {
		m.logf("exec %d is not the current instruction any more", rec.id)
	}
	m.mu.Unlock()
	m.post(event{kind: evExecStart, exec: rec})

	done := ctx.Done()
	for {
		select {
		case <-m.abort:
			return e.finish(rec, true)
		case <-done:
			done = nil
			m.mu.Lock()
			rec.cancelSeen = true
			m.logf("exec %d observes cancellation", rec.id)
			m.mu.Unlock()
			m.post(event{kind: evExecCancel, exec: rec})
		case c := <-rec.cmd:
			for i := 0; i < c.emit; i++ {
				u := &remoteworker.CurrentState_Executing{ActionDigest: request.ActionDigest}
				switch len(rec.updates) % 3 {
				case 0:
					u.ExecutionState = &remoteworker.CurrentState_Executing_FetchingInputs{}
				case 1:
					u.ExecutionState = &remoteworker.CurrentState_Executing_Running{}
				default:
					u.ExecutionState = &remoteworker.CurrentState_Executing_UploadingOutputs{}
				}
				m.mu.Lock()
				rec.updates = append(rec.updates, u)
				rec.snapshots = append(rec.snapshots, proto.Clone(u).(*remoteworker.CurrentState_Executing))
				rec.sentAfterShutdown = append(rec.sentAfterShutdown, m.shutdownBegun)
				m.mu.Unlock()
				select {
				case updates <- u:
				default:
					// Channel full: tell the driver, then block.
					m.mu.Lock()
					m.logf("exec %d blocks on full update channel at update %d", rec.id, len(rec.updates))
					m.situation("update-channel-full")
					m.mu.Unlock()
					m.post(event{kind: evExecAck, exec: rec})
					select {
					case updates <- u:
					case <-m.abort:
						return e.finish(rec, true)
					}
				}
				m.mu.Lock()
				rec.sendDone++
				m.mu.Unlock()
			}
			if c.complete {
				return e.finishCmd(rec, c)
			}
			m.mu.Lock()
			m.logf("exec %d emitted %d update(s), total %d", rec.id, c.emit, len(rec.updates))
			m.histf("U%d", c.emit)
			m.mu.Unlock()
			m.post(event{kind: evExecAck, exec: rec, final: true})
		}
	}
}

func (e fakeExecutor) finish(rec *execRec, aborted bool) *remoteexecution.ExecuteResponse {
	return e.finishWith(rec, true)
}

func (e fakeExecutor) finishWith(rec *execRec, nonOK bool) *remoteexecution.ExecuteResponse {
	return e.finishCmd(rec, execCmd{complete: true, nonOK: nonOK})
}

// nonOKCodes are all status codes a failed completion is generated with: the
// statement speaks of "a non-OK status", not of particular codes.
var nonOKCodes = []codes.Code{
	codes.Canceled, codes.Unknown, codes.InvalidArgument, codes.DeadlineExceeded, codes.NotFound,
	codes.AlreadyExists, codes.PermissionDenied, codes.ResourceExhausted, codes.FailedPrecondition,
	codes.Aborted, codes.OutOfRange, codes.Unimplemented, codes.Internal, codes.Unavailable,
	codes.DataLoss, codes.Unauthenticated,
}

func (e fakeExecutor) finishCmd(rec *execRec, c execCmd) *remoteexecution.ExecuteResponse {
	m := e.m
	nonOK := c.nonOK
	resp := &remoteexecution.ExecuteResponse{
		Result:  &remoteexecution.ActionResult{},
		Message: fmt.Sprintf("token-b%d-v%d-x%d", m.cfg.Base, m.cfg.Variant, rec.id),
	}
	m.mu.Lock()
	if rec.cancelSeen {
		resp.Status = status.New(codes.Canceled, "context canceled").Proto()
	} else if nonOK {
		code := c.code
		if code == codes.OK {
			code = codes.Internal
		}
		resp.Status = status.New(code, "Failed to contact runner").Proto()
	} else if c.okStyle == 1 {
		resp.Status = status.New(codes.OK, "").Proto()
		resp.Result.ExitCode = 1 // the action failed, the worker did not
	}
	rec.response = resp
	rec.responseSnap = proto.Clone(resp).(*remoteexecution.ExecuteResponse)
	rec.returned = true
	rec.returnedAfterShutdown = m.shutdownBegun
	m.active--
	m.logf("exec %d returns (code %d); active=%d", rec.id, resp.GetStatus().GetCode(), m.active)
	m.histf("E-%d", resp.GetStatus().GetCode())
	m.mu.Unlock()
	m.post(event{kind: evExecReturn, exec: rec})
	return resp
}
