// Package c08 monitors property C08: a worker thread (builder.BuildClient
// driven as builder.LaunchWorkerThread does) never runs two actions at once,
// reports its real state, reports completions with the action's own
// response, asks to be idle after non-OK completions and after shutdown, and
// only terminates once the scheduler can no longer believe it executes.
//
// Workload: a scripted remoteworker.OperationQueueClient, an instrumented
// builder.BuildExecutor whose progress is gated by the driver, the virtual
// clock, shutdown at a chosen step index. Oracles live in monitor.go, the
// stepping driver in driver.go.
package c08

import (
	"encoding/json"
	"fmt"
	"os"
	"runtime"
	"sync"
	"testing"

	"verif/internal/ev"
)

func TestCheck(t *testing.T) {
	r := ev.Start("C08")
	defer r.Finish()
	r.SetRule("case = (base history b, shutdown step k, loop mode): the driver picks, from a PRNG derived from (seed,b), " +
		"scheduler replies (execute new/same digest with all optional fields varied: w3c_trace_context empty/one/several/malformed entries, auxiliary_metadata, instance_name_suffix, digest function, queued_timestamp, action timeout; idle, no change, RPC error, invalid timestamp, unknown state, invalid execute request), " +
		"executor progress (updates, completion with OK (absent or explicit status, zero/non-zero exit code) or non-OK status of each of the 16 codes, readiness failures right after a non-OK completion, reaction to cancellation incl. >10 late updates), readiness failures, " +
		"virtual clock advances and timer firings; shutdown (context cancellation) is injected before step k wherever the client is parked then (between Runs, in Synchronize, in the timer/update select, while the executor is gated) or, for half of the variants, from inside Run itself (in the CheckReadiness callback or right after the wait timer was created). mirror mode = LaunchWorkerThread's loop " +
		"with the error back-off sleep replaced by a gate; real mode = builder.LaunchWorkerThread itself under program.RunLocal. " +
		"non-trivial = the case hit at least one counted situation; distinct = hash of the boundary event history (requests, replies, executor events, run results)")
	r.Assume("the scheduler forgets a worker one minute after the synchronization time it last announced (assumption stated in build_client.go); " +
		"termination is judged against that bound on the virtual clock")
	r.Assume("fake executor is honest: every update it emits carries the digest of its own request; updates are identified by pointer and compared by content")
	r.Assume("residual nondeterminism: Go's choice between a ready timer and a ready update; the oracle relaxes the freshness bound when the timer was fired in that Run")
	if f := r.ReplayFile(); f != "" {
		// Re-run exactly the recorded case (a few times: the remaining
		// nondeterminism is goroutine scheduling).
		var w struct {
			Witness struct {
				Case caseCfg `json:"case"`
			} `json:"witness"`
		}
		b, err := os.ReadFile(f)
		if err != nil || json.Unmarshal(b, &w) != nil {
			r.Inconclusive("cannot read replay file %s", f)
			return
		}
		for i := 0; i < 5; i++ {
			runCase(r, w.Witness.Case)
		}
		return
	}
	for _, s := range []string{"execute-while-executing", "update-channel-full", "completion-racing-reply", "shutdown-while-executing", "rpc-error-after-execute-request"} {
		r.Floor(s, 5)
	}
	r.Floor("terminated-after-bound-expired", 3)
	r.Floor("non-ok-completion-reported", 5)
	r.Floor("real-loop-cases", 3)
	r.Floor("real-loop-error-after-shutdown", 3)
	r.Floor("execute-with-trace-context", 20)
	r.Floor("preempted-action-with-trace-context", 10)
	// Shutdown beginning strictly inside one Run iteration.
	r.Floor("shutdown-inside-run-at-timer", 5)
	r.Floor("shutdown-inside-run-at-readiness", 5)
	r.Floor("request-built-after-shutdown-inside-run", 5)
	// Clause audit: "a non-OK status" means every code, not only the one the
	// runner-failure path produces; the readiness re-check that a failure
	// calls for must also be seen failing; Execute must be started for the
	// instance (prefix + suffix) and digest function the scheduler named.
	for _, c := range nonOKCodes {
		r.Floor("non-ok-completion-reported code="+c.String(), 5)
	}
	r.Floor("readiness-failure-after-non-ok-completion", 10)
	r.Floor("execute-instance-suffix=empty", 20)
	r.Floor("execute-instance-suffix=set", 20)

	bases := r.Pick(500, 4000)
	perBase := r.Pick(4, 16)
	realCases := r.Pick(16, 120)

	type job struct {
		cfg caseCfg
	}
	jobs := make(chan job, 64)
	var wg sync.WaitGroup
	workers := 12
	if n := runtime.GOMAXPROCS(0); n < workers {
		workers = n
	}
	for w := 0; w < workers; w++ {
		wg.Add(1)
		go func() {
			defer wg.Done()
			for j := range jobs {
				runCase(r, j.cfg)
			}
		}()
	}
	// Real LaunchWorkerThread cases sleep on the wall clock after errors
	// (up to 5 s each); run them concurrently with everything else.
	var rwg sync.WaitGroup
	realSem := make(chan struct{}, 16)
	for i := 0; i < realCases; i++ {
		rwg.Add(1)
		go func(i int) {
			defer rwg.Done()
			realSem <- struct{}{}
			defer func() { <-realSem }()
			rng := r.Rand(7, uint64(i))
			cfg := caseCfg{Base: 1_000_000 + i, Real: true, Steps: 25 + rng.IntN(20)}
			cfg.ShutdownAt = rng.IntN(cfg.Steps)
			cfg.ShutdownIn = []string{"", "timer", "readiness"}[rng.IntN(3)]
			runCase(r, cfg)
			r.Situation("real-loop-cases")
		}(i)
	}
	for b := 0; b < bases; b++ {
		rng := r.Rand(1, uint64(b))
		steps := 20 + rng.IntN(60)
		for v := 0; v < perBase; v++ {
			k := 0
			switch {
			case v == 0:
				k = rng.IntN(steps)
			case v == perBase-1:
				k = steps // shutdown only at the end
			default:
				k = (steps*v)/perBase + rng.IntN(3)
			}
			in := []string{"", "", "timer", "readiness"}[rng.IntN(4)]
			if v == perBase-1 {
				in = ""
			}
			jobs <- job{caseCfg{Base: b, Variant: v, Steps: steps, ShutdownAt: k, ShutdownIn: in}}
		}
	}
	close(jobs)
	wg.Wait()
	rwg.Wait()
	if r.Violations() > 0 {
		t.Logf("violations: %d", r.Violations())
	}
	_ = fmt.Sprint
}
