package c18

import (
	"context"
	"fmt"
	"math/rand/v2"
	"runtime"
	"runtime/debug"
	"strings"
	"sync"
	"sync/atomic"
	"time"

	"github.com/buildbarn/bb-remote-execution/pkg/filesystem/virtual"
	nfsv4impl "github.com/buildbarn/bb-remote-execution/pkg/filesystem/virtual/nfsv4"
	"github.com/buildbarn/bb-storage/pkg/filesystem/path"
	"github.com/buildbarn/go-xdr/pkg/protocols/nfsv4"
	"github.com/buildbarn/go-xdr/pkg/protocols/rpcv2"

	"verif/internal/ev"
	"verif/internal/vclock"
)

const (
	leaseTime      = 2 * time.Minute
	announcedLease = time.Minute
	slotsPerSess   = 6
)

// lockedRand is a deterministic random.SingleThreadedGenerator. The
// programs only call it with their own lock held, but the two programs
// and the handle allocator each get their own instance anyway.
type lockedRand struct {
	mu sync.Mutex
	r  *rand.Rand
}

func newLockedRand(a, b uint64) *lockedRand {
	return &lockedRand{r: rand.New(rand.NewPCG(a, b))}
}

func (g *lockedRand) Float64() float64 {
	g.mu.Lock()
	defer g.mu.Unlock()
	return g.r.Float64()
}

func (g *lockedRand) Int64N(n int64) int64 {
	g.mu.Lock()
	defer g.mu.Unlock()
	return g.r.Int64N(n)
}

func (g *lockedRand) IntN(n int) int {
	g.mu.Lock()
	defer g.mu.Unlock()
	return g.r.IntN(n)
}

func (g *lockedRand) Read(p []byte) (int, error) {
	g.mu.Lock()
	defer g.mu.Unlock()
	for i := range p {
		p[i] = byte(g.r.Uint32())
	}
	return len(p), nil
}

func (g *lockedRand) Shuffle(n int, swap func(i, j int)) {
	g.mu.Lock()
	defer g.mu.Unlock()
	g.r.Shuffle(n, swap)
}

func (g *lockedRand) Uint32() uint32 {
	g.mu.Lock()
	defer g.mu.Unlock()
	return g.r.Uint32()
}

func (g *lockedRand) Uint64() uint64 {
	g.mu.Lock()
	defer g.mu.Unlock()
	return g.r.Uint64()
}

// world is one server instance (both minor versions behind the
// fallback program, sharing one OpenedFilesPool and one fake tree) plus
// the monitor state that belongs to it.
type world struct {
	r      *ev.Run
	mode   string
	caseNo int
	stress bool

	clk   *vclock.Clock
	prog  nfsv4.Nfs4Program
	pool  *nfsv4impl.OpenedFilesPool
	alloc *virtual.NFSStatefulHandleAllocator
	root  *fakeDir
	// State ID prefix of the NFSv4.0 program.
	prefix [4]byte

	leavesMu       sync.Mutex
	leaves         []*fakeLeaf
	leavesByHandle map[string]*fakeLeaf

	events       atomic.Int64 // open + close events on leaves
	ioCalls      atomic.Int64
	setattrCalls atomic.Int64
	compounds    atomic.Int64
	yieldState   atomic.Uint64

	traceMu    sync.Mutex
	trace      []string
	reported   map[string]bool
	violations atomic.Int64
	aborted    atomic.Bool // a /repo panic was recovered; the server state can no longer be trusted
}

func newWorld(r *ev.Run, mode string, caseNo int, rng *rand.Rand, stress bool) *world {
	w := &world{
		r:              r,
		mode:           mode,
		caseNo:         caseNo,
		stress:         stress,
		clk:            vclock.New(1000),
		leavesByHandle: map[string]*fakeLeaf{},
	}
	w.alloc = virtual.NewNFSHandleAllocator(newLockedRand(rng.Uint64(), rng.Uint64()))
	w.root = &fakeDir{w: w, children: map[string]*fakeLeaf{}}
	w.root.handle = w.alloc.New().AsStatefulDirectory(w.root)
	w.pool = nfsv4impl.NewOpenedFilesPool(w.alloc.ResolveHandle)
	var rebootVerifier nfsv4.Verifier4
	for i := range rebootVerifier {
		rebootVerifier[i] = byte(rng.Uint32())
	}
	for i := range w.prefix {
		w.prefix[i] = byte(rng.Uint32())
	}
	secinfo := []nfsv4.Secinfo4{&nfsv4.Secinfo4_default{Flavor: rpcv2.AUTH_NONE}}
	p41 := nfsv4impl.NewNFS41Program(
		w.root,
		w.pool,
		nfsv4.ServerOwner4{SoMinorId: 7, SoMajorId: []byte("verif")},
		[]byte("scope"),
		&nfsv4.ChannelAttrs4{
			CaMaxrequestsize:        1 << 20,
			CaMaxresponsesize:       1 << 20,
			CaMaxresponsesizeCached: 1 << 16,
			CaMaxoperations:         100,
			CaMaxrequests:           slotsPerSess,
		},
		newLockedRand(rng.Uint64(), rng.Uint64()),
		rebootVerifier,
		w.clk,
		leaseTime,
		announcedLease,
		path.UNIXFormat,
		secinfo,
	)
	p40 := nfsv4impl.NewNFS40Program(
		w.root,
		w.pool,
		newLockedRand(rng.Uint64(), rng.Uint64()),
		rebootVerifier,
		w.prefix,
		w.clk,
		leaseTime,
		announcedLease,
		path.UNIXFormat,
		secinfo,
	)
	// Same composition as pkg/filesystem/virtual/configuration.
	w.prog = nfsv4impl.NewMinorVersionFallbackProgram([]nfsv4.Nfs4Program{p41, p40})
	return w
}

func (w *world) yield() {
	if !w.stress {
		return
	}
	// Cheap deterministic-ish spread of yields.
	if n := w.yieldState.Add(0x9E3779B97F4A7C15); n>>61 < 3 {
		runtime.Gosched()
	}
}

func (w *world) logf(format string, args ...any) {
	s := fmt.Sprintf(format, args...)
	w.traceMu.Lock()
	if len(w.trace) < 4000 {
		w.trace = append(w.trace, s)
	}
	w.traceMu.Unlock()
}

func (w *world) traceCopy() []string {
	w.traceMu.Lock()
	defer w.traceMu.Unlock()
	t := w.trace
	if len(t) > 400 {
		t = t[len(t)-400:]
	}
	return append([]string(nil), t...)
}

// violation records an oracle hit together with the history that led
// to it. The witness identifies the case, which is regenerated from
// (seed, mode, case number) on replay.
func (w *world) violation(sig, detail string) {
	w.violations.Add(1)
	// One report per rule and history: later hits of the same rule are
	// consequences of the first.
	w.traceMu.Lock()
	if w.reported == nil {
		w.reported = map[string]bool{}
	}
	dup := w.reported[sig]
	w.reported[sig] = true
	w.traceMu.Unlock()
	if dup {
		return
	}
	w.r.Violation("C18 "+sig, detail, map[string]any{
		"mode":  w.mode,
		"case":  w.caseNo,
		"seed":  w.r.Seed(),
		"trace": w.traceCopy(),
		"note":  "re-run with VERIF_SEED=<seed> ./check C18 <tier> --replay <this file> (regenerates exactly this case)",
	})
}

// leafBalances returns Σ opens, Σ closes over all leaves.
func (w *world) leafBalances() (opens, closes int64) {
	w.leavesMu.Lock()
	defer w.leavesMu.Unlock()
	for _, l := range w.leaves {
		for b := 0; b < 2; b++ {
			opens += l.opens[b].Load()
			closes += l.closes[b].Load()
		}
	}
	return
}

func (w *world) allLeaves() []*fakeLeaf {
	w.leavesMu.Lock()
	defer w.leavesMu.Unlock()
	return append([]*fakeLeaf(nil), w.leaves...)
}

// counts merges the hook's state table counts of both programs with
// those of the OpenedFilesPool.
func (w *world) counts() map[string]int {
	c, known := nfsv4impl.VerifStateCounts(w.prog)
	if !known {
		panic("VerifStateCounts does not know the program")
	}
	for k, v := range nfsv4impl.VerifOpenedFilesPoolCounts(w.pool) {
		c[k] = v
	}
	w.r.Count("hook_calls", 1)
	return c
}

// recordKeys are the hook counts that must all be zero once every
// lease has expired.
var recordKeys = []string{
	"v40.clients", "v40.clientConfirmations", "v40.clientConfirmationsByShortID", "v40.clientConfirmationsByClientVerifier",
	"v40.confirmedClients", "v40.openOwners", "v40.openOwnerFiles", "v40.openOwnerFilesByHandle",
	"v40.lockOwners", "v40.lockOwnerFiles", "v40.lockOwnerFilesByLockOwner", "v40.lockOwnerFilesByOpenOwnerFile",
	"v40.idleClientConfirmations", "v40.unusedOpenOwners", "v40.holdCount", "v40.lockCount",
	"v40.shareCountReaders", "v40.shareCountWriters", "v40.openOwnerTransactions",
	"v41.clients", "v41.clientIncarnations", "v41.clientIncarnationsByClientVerifier", "v41.confirmedClients",
	"v41.sessions", "v41.sessionsByClientIncarnation", "v41.openOwners", "v41.openOwnerFiles", "v41.openOwnerFilesByHandle",
	"v41.lockOwners", "v41.lockOwnerFiles", "v41.lockOwnerFilesByOpenOwnerFile", "v41.lockOwnersReferenced",
	"v41.idleClientIncarnations", "v41.holdCount", "v41.lockCount", "v41.busySlots",
	"v41.shareCountReaders", "v41.shareCountWriters",
	"pool.openedFiles", "pool.useCount",
}

type compoundOutcome struct {
	res      *nfsv4.Compound4res
	panicked bool
}

// call sends one COMPOUND. A panic raised inside /repo code is
// recovered, recorded as a violation (the request was built from the
// public XDR types only) and poisons the world: the history is
// abandoned afterwards.
func (w *world) call(desc string, args *nfsv4.Compound4args) (out compoundOutcome) {
	if w.aborted.Load() {
		// A recovered panic may have left locks of the programs held
		// (enter() panics with the lock taken and nothing deferred).
		return compoundOutcome{panicked: true}
	}
	w.compounds.Add(1)
	defer func() {
		if e := recover(); e != nil {
			stack := string(debug.Stack())
			out.panicked = true
			w.aborted.Store(true)
			if !strings.Contains(stack, "bb-remote-execution/pkg/") {
				// Not ours to swallow.
				panic(e)
			}
			w.logf("PANIC in %s: %v", desc, e)
			w.violation(
				fmt.Sprintf("repo-panic msg=%s op=%s", sanitize(fmt.Sprint(e)), panicOp(args)),
				fmt.Sprintf("panic inside /repo code while processing %s: %v\n%s", desc, e, stack))
		}
	}()
	res, err := w.prog.NfsV4Nfsproc4Compound(context.Background(), args)
	if err != nil {
		w.violation("compound-returned-error", fmt.Sprintf("%s: %v", desc, err))
	}
	out.res = res
	return out
}

func sanitize(s string) string {
	s = strings.Map(func(r rune) rune {
		if r == ' ' || r == '\n' || r == '\t' {
			return '_'
		}
		return r
	}, s)
	if len(s) > 90 {
		s = s[:90]
	}
	return s
}

// panicOp names the last operation of a compound (the state-bearing
// one in everything this harness sends) plus the minor version.
func panicOp(args *nfsv4.Compound4args) string {
	name := "none"
	if n := len(args.Argarray); n > 0 {
		name = strings.TrimPrefix(fmt.Sprintf("%T", args.Argarray[n-1]), "*nfsv4.NfsArgop4_")
	}
	return fmt.Sprintf("%s/v4.%d", name, args.Minorversion)
}

// watchdog waits for ch with a generous wall-clock bound. Expiry can
// only make the run inconclusive.
func (w *world) waitOrInconclusive(ch <-chan struct{}, what string) bool {
	select {
	case <-ch:
		return true
	case <-time.After(60 * time.Second):
		buf := make([]byte, 1<<20)
		buf = buf[:runtime.Stack(buf, true)]
		w.r.Inconclusive("%s case %d: %s did not happen within 60s wall; goroutines:\n%s", w.mode, w.caseNo, what, truncate(string(buf), 6000))
		w.aborted.Store(true)
		return false
	}
}

func truncate(s string, n int) string {
	if len(s) > n {
		return s[:n]
	}
	return s
}
