package c18

import (
	"context"
	"fmt"
	"sync"
	"sync/atomic"
	"time"

	"github.com/buildbarn/bb-remote-execution/pkg/filesystem/virtual"
	"github.com/buildbarn/bb-storage/pkg/filesystem"
	"github.com/buildbarn/bb-storage/pkg/filesystem/path"
)

// Share access bits are tracked by index: 0 = read, 1 = write.
const (
	bitRead  = 0
	bitWrite = 1
)

var bitNames = [2]string{"read", "write"}

func maskBits(m virtual.ShareMask) (bits []int) {
	if m&virtual.ShareMaskRead != 0 {
		bits = append(bits, bitRead)
	}
	if m&virtual.ShareMaskWrite != 0 {
		bits = append(bits, bitWrite)
	}
	return bits
}

// gate is a one-shot rendez-vous point inside VirtualRead/VirtualWrite.
// The call that hits an armed gate announces itself on arrived and then
// blocks until release is closed.
type gate struct {
	arrived chan struct{}
	release chan struct{}
}

func newGate() *gate {
	return &gate{arrived: make(chan struct{}), release: make(chan struct{})}
}

// fakeLeaf is an instrumented regular file. It counts every open and
// close per share access bit and judges the conservation rules of the
// property at the very moment the server calls into it.
type fakeLeaf struct {
	w       *world
	id      int
	handle  []byte
	wrapped virtual.LinkableLeaf

	// Monitor state (atomics only; the server calls in concurrently).
	bal      [2]atomic.Int64 // opens - closes
	opens    [2]atomic.Int64
	closes   [2]atomic.Int64
	holds    [2]atomic.Int64 // number of issued, still valid state IDs entitled to the bit (lower bound)
	activeIO [2]atomic.Int64 // VirtualRead / VirtualWrite calls executing right now
	unlinked atomic.Bool

	// Fault injection and gates.
	failOpen  atomic.Int32 // number of upcoming VirtualOpenSelf calls that must fail
	failIO    atomic.Int32 // number of upcoming VirtualRead/VirtualWrite calls that must fail
	gateMu    sync.Mutex
	gates     [2]*gate
	yieldIO   atomic.Bool // stress mode: yield inside I/O
	mu        sync.Mutex
	data      []byte
	changeID  uint64
	truncates int
}

var _ virtual.LinkableLeaf = (*fakeLeaf)(nil)

func (l *fakeLeaf) String() string { return fmt.Sprintf("L%d", l.id) }

func (l *fakeLeaf) armGate(bit int) *gate {
	g := newGate()
	l.gateMu.Lock()
	l.gates[bit] = g
	l.gateMu.Unlock()
	return g
}

func (l *fakeLeaf) disarmGate(bit int, g *gate) {
	l.gateMu.Lock()
	if l.gates[bit] == g {
		l.gates[bit] = nil
	}
	l.gateMu.Unlock()
}

func (l *fakeLeaf) takeGate(bit int) *gate {
	l.gateMu.Lock()
	g := l.gates[bit]
	l.gates[bit] = nil
	l.gateMu.Unlock()
	return g
}

// noteOpen is called for every successful open of the leaf, no matter
// whether it came in through VirtualOpenChild or VirtualOpenSelf.
func (l *fakeLeaf) noteOpen(m virtual.ShareMask) {
	for _, b := range maskBits(m) {
		l.opens[b].Add(1)
		l.bal[b].Add(1)
		l.w.events.Add(1)
	}
}

func (l *fakeLeaf) VirtualOpenSelf(ctx context.Context, shareAccess virtual.ShareMask, options *virtual.OpenExistingOptions, requested virtual.AttributesMask, attributes *virtual.Attributes) virtual.Status {
	for {
		n := l.failOpen.Load()
		if n <= 0 {
			break
		}
		if l.failOpen.CompareAndSwap(n, n-1) {
			return virtual.StatusErrIO
		}
	}
	if options != nil && options.Truncate {
		l.mu.Lock()
		l.data = nil
		l.changeID++
		l.truncates++
		l.mu.Unlock()
	}
	l.noteOpen(shareAccess)
	l.VirtualGetAttributes(ctx, requested, attributes)
	return virtual.StatusOK
}

func (l *fakeLeaf) VirtualClose(shareAccess virtual.ShareMask) {
	for _, b := range maskBits(shareAccess) {
		l.closes[b].Add(1)
		l.w.events.Add(1)
		n := l.bal[b].Add(-1)
		if n < 0 {
			l.w.violation(
				fmt.Sprintf("more-closes-than-opens bit=%s", bitNames[b]),
				fmt.Sprintf("VirtualClose(%s) on %s: opens=%d closes=%d", bitNames[b], l, l.opens[b].Load(), l.closes[b].Load()))
		}
		if n == 0 {
			if h := l.holds[b].Load(); h > 0 {
				l.w.violation(
					fmt.Sprintf("closed-while-state-id-entitles bit=%s", bitNames[b]),
					fmt.Sprintf("VirtualClose(%s) on %s brought the balance to 0 while %d issued, still valid state ID(s) entitle to that access", bitNames[b], l, h))
			}
			if a := l.activeIO[b].Load(); a > 0 {
				l.w.violation(
					fmt.Sprintf("closed-during-io bit=%s", bitNames[b]),
					fmt.Sprintf("VirtualClose(%s) on %s brought the balance to 0 while %d I/O call(s) of that kind are executing", bitNames[b], l, a))
			}
		}
	}
}

func (l *fakeLeaf) ioEnter(b int) virtual.Status {
	if l.bal[b].Load() <= 0 {
		l.w.violation(
			fmt.Sprintf("io-on-closed-leaf bit=%s", bitNames[b]),
			fmt.Sprintf("I/O (%s) reached %s while it is not open for that access (opens=%d closes=%d)", bitNames[b], l, l.opens[b].Load(), l.closes[b].Load()))
	}
	l.activeIO[b].Add(1)
	l.w.ioCalls.Add(1)
	if g := l.takeGate(b); g != nil {
		close(g.arrived)
		<-g.release
	}
	if l.yieldIO.Load() {
		l.w.yield()
	}
	for {
		n := l.failIO.Load()
		if n <= 0 {
			break
		}
		if l.failIO.CompareAndSwap(n, n-1) {
			return virtual.StatusErrIO
		}
	}
	return virtual.StatusOK
}

func (l *fakeLeaf) ioLeave(b int) {
	if l.bal[b].Load() <= 0 {
		l.w.violation(
			fmt.Sprintf("io-on-closed-leaf bit=%s", bitNames[b]),
			fmt.Sprintf("%s was closed for %s while an I/O call of that kind was still executing", l, bitNames[b]))
	}
	l.activeIO[b].Add(-1)
}

func (l *fakeLeaf) VirtualRead(ctx context.Context, buf []byte, offset uint64) (int, bool, virtual.Status) {
	if s := l.ioEnter(bitRead); s != virtual.StatusOK {
		l.ioLeave(bitRead)
		return 0, false, s
	}
	defer l.ioLeave(bitRead)
	l.mu.Lock()
	defer l.mu.Unlock()
	b, eof := virtual.BoundReadToFileSize(buf, offset, uint64(len(l.data)))
	n := 0
	if len(b) > 0 {
		n = copy(b, l.data[offset:])
	}
	return n, eof, virtual.StatusOK
}

func (l *fakeLeaf) VirtualWrite(ctx context.Context, buf []byte, offset uint64) (int, virtual.Status) {
	if s := l.ioEnter(bitWrite); s != virtual.StatusOK {
		l.ioLeave(bitWrite)
		return 0, s
	}
	defer l.ioLeave(bitWrite)
	if offset > 1<<16 {
		return 0, virtual.StatusErrInval
	}
	l.mu.Lock()
	defer l.mu.Unlock()
	if end := int(offset) + len(buf); end > len(l.data) {
		l.data = append(l.data, make([]byte, end-len(l.data))...)
	}
	copy(l.data[offset:], buf)
	l.changeID++
	return len(buf), virtual.StatusOK
}

func (l *fakeLeaf) VirtualGetAttributes(ctx context.Context, requested virtual.AttributesMask, attributes *virtual.Attributes) {
	l.mu.Lock()
	defer l.mu.Unlock()
	attributes.SetChangeID(l.changeID)
	attributes.SetFileType(filesystem.FileTypeRegularFile)
	attributes.SetHasNamedAttributes(false)
	attributes.SetIsInNamedAttributeDirectory(false)
	attributes.SetPermissions(virtual.PermissionsRead | virtual.PermissionsWrite)
	attributes.SetSizeBytes(uint64(len(l.data)))
	attributes.SetLastDataModificationTime(time.Unix(1000, 0))
}

func (l *fakeLeaf) VirtualSetAttributes(ctx context.Context, in *virtual.Attributes, requested virtual.AttributesMask, attributes *virtual.Attributes) virtual.Status {
	if size, ok := in.GetSizeBytes(); ok {
		if size > 1<<16 {
			return virtual.StatusErrInval
		}
		l.mu.Lock()
		if int(size) < len(l.data) {
			l.data = l.data[:size]
		} else {
			l.data = append(l.data, make([]byte, int(size)-len(l.data))...)
		}
		l.changeID++
		l.mu.Unlock()
	}
	l.w.setattrCalls.Add(1)
	l.VirtualGetAttributes(ctx, requested, attributes)
	return virtual.StatusOK
}

func (l *fakeLeaf) VirtualAllocate(ctx context.Context, off, size uint64) virtual.Status {
	return virtual.StatusErrWrongType
}

func (l *fakeLeaf) VirtualSeek(ctx context.Context, offset uint64, regionType filesystem.RegionType) (*uint64, virtual.Status) {
	return nil, virtual.StatusErrNXIO
}

func (l *fakeLeaf) VirtualApply(data any) bool { return false }

func (l *fakeLeaf) VirtualOpenNamedAttributes(ctx context.Context, createDirectory bool, requested virtual.AttributesMask, attributes *virtual.Attributes) (virtual.Directory, virtual.Status) {
	if createDirectory {
		return nil, virtual.StatusErrAccess
	}
	return nil, virtual.StatusErrNoEnt
}

// Link and Unlink are called by the NFS handle allocator's decorator
// only when the link count changes between zero and non-zero.
func (l *fakeLeaf) Link() virtual.Status { return virtual.StatusOK }

func (l *fakeLeaf) Unlink() { l.unlinked.Store(true) }

// fakeDir is the root directory of the fake tree. It only contains
// regular files. It hands out leaves that are decorated by the real
// NFS handle allocator, so that unlinked files stop being resolvable
// through the allocator and only remain reachable through the
// OpenedFilesPool.
type fakeDir struct {
	w      *world
	handle virtual.StatefulDirectoryHandle

	mu       sync.Mutex
	children map[string]*fakeLeaf
	changeID uint64

	// One-shot gate at the entry of VirtualOpenChild.
	openGateMu sync.Mutex
	openGate   *gate
}

func (d *fakeDir) armOpenGate() *gate {
	g := newGate()
	d.openGateMu.Lock()
	d.openGate = g
	d.openGateMu.Unlock()
	return g
}

func (d *fakeDir) disarmOpenGate(g *gate) {
	d.openGateMu.Lock()
	if d.openGate == g {
		d.openGate = nil
	}
	d.openGateMu.Unlock()
}

var _ virtual.Directory = (*fakeDir)(nil)

func (d *fakeDir) lookupLeaf(name string) *fakeLeaf {
	d.mu.Lock()
	defer d.mu.Unlock()
	return d.children[name]
}

// createLeafLocked creates a new, linked regular file.
func (d *fakeDir) createLeafLocked(name string) *fakeLeaf {
	w := d.w
	l := &fakeLeaf{w: w}
	l.wrapped = w.alloc.New().AsLinkableLeaf(l)
	var attributes virtual.Attributes
	l.wrapped.VirtualGetAttributes(context.Background(), virtual.AttributesMaskFileHandle, &attributes)
	l.handle = append([]byte(nil), attributes.GetFileHandle()...)
	l.yieldIO.Store(w.stress)
	w.leavesMu.Lock()
	l.id = len(w.leaves)
	w.leaves = append(w.leaves, l)
	w.leavesByHandle[string(l.handle)] = l
	w.leavesMu.Unlock()
	d.children[name] = l
	d.changeID++
	return l
}

func (d *fakeDir) VirtualOpenChild(ctx context.Context, name path.Component, shareAccess virtual.ShareMask, createAttributes *virtual.Attributes, existingOptions *virtual.OpenExistingOptions, requested virtual.AttributesMask, openedFileAttributes *virtual.Attributes) (virtual.Leaf, virtual.AttributesMask, virtual.ChangeInfo, virtual.Status) {
	d.w.yield()
	d.openGateMu.Lock()
	g := d.openGate
	d.openGate = nil
	d.openGateMu.Unlock()
	if g != nil {
		close(g.arrived)
		<-g.release
	}
	d.mu.Lock()
	defer d.mu.Unlock()
	before := d.changeID
	if l, ok := d.children[name.String()]; ok {
		if existingOptions == nil {
			return nil, 0, virtual.ChangeInfo{}, virtual.StatusErrExist
		}
		if s := l.wrapped.VirtualOpenSelf(ctx, shareAccess, existingOptions, requested, openedFileAttributes); s != virtual.StatusOK {
			return nil, 0, virtual.ChangeInfo{}, s
		}
		return l.wrapped, existingOptions.ToAttributesMask(), virtual.ChangeInfo{Before: before, After: before}, virtual.StatusOK
	}
	if createAttributes == nil {
		return nil, 0, virtual.ChangeInfo{}, virtual.StatusErrNoEnt
	}
	l := d.createLeafLocked(name.String())
	var respected virtual.AttributesMask
	if size, ok := createAttributes.GetSizeBytes(); ok {
		respected |= virtual.AttributesMaskSizeBytes
		if size <= 1<<16 {
			l.data = make([]byte, size)
		}
	}
	l.noteOpen(shareAccess)
	l.wrapped.VirtualGetAttributes(ctx, requested, openedFileAttributes)
	return l.wrapped, respected, virtual.ChangeInfo{Before: before, After: d.changeID}, virtual.StatusOK
}

func (d *fakeDir) VirtualLookup(ctx context.Context, name path.Component, requested virtual.AttributesMask, out *virtual.Attributes) (virtual.DirectoryChild, virtual.Status) {
	d.mu.Lock()
	defer d.mu.Unlock()
	l, ok := d.children[name.String()]
	if !ok {
		return virtual.DirectoryChild{}, virtual.StatusErrNoEnt
	}
	l.wrapped.VirtualGetAttributes(ctx, requested, out)
	return virtual.DirectoryChild{}.FromLeaf(l.wrapped), virtual.StatusOK
}

func (d *fakeDir) VirtualRemove(ctx context.Context, name path.Component, removeDirectory, removeLeaf bool) (virtual.ChangeInfo, virtual.Status) {
	d.mu.Lock()
	l, ok := d.children[name.String()]
	if !ok {
		d.mu.Unlock()
		return virtual.ChangeInfo{}, virtual.StatusErrNoEnt
	}
	if !removeLeaf {
		d.mu.Unlock()
		return virtual.ChangeInfo{}, virtual.StatusErrNotDir
	}
	before := d.changeID
	delete(d.children, name.String())
	d.changeID++
	after := d.changeID
	d.mu.Unlock()
	l.wrapped.Unlink()
	return virtual.ChangeInfo{Before: before, After: after}, virtual.StatusOK
}

func (d *fakeDir) VirtualLink(ctx context.Context, name path.Component, leaf virtual.Leaf, requested virtual.AttributesMask, attributes *virtual.Attributes) (virtual.ChangeInfo, virtual.Status) {
	return virtual.ChangeInfo{}, virtual.StatusErrPerm
}

func (d *fakeDir) VirtualMkdir(ctx context.Context, name path.Component, createAttributes *virtual.Attributes, requested virtual.AttributesMask, createdDirectoryAttributes *virtual.Attributes) (virtual.Directory, virtual.ChangeInfo, virtual.Status) {
	return nil, virtual.ChangeInfo{}, virtual.StatusErrPerm
}

func (d *fakeDir) VirtualMknod(ctx context.Context, name path.Component, createAttributes *virtual.Attributes, requested virtual.AttributesMask, createdFileAttributes *virtual.Attributes) (virtual.Leaf, virtual.ChangeInfo, virtual.Status) {
	return nil, virtual.ChangeInfo{}, virtual.StatusErrPerm
}

func (d *fakeDir) VirtualReadDir(ctx context.Context, firstCookie uint64, requested virtual.AttributesMask, reporter virtual.DirectoryEntryReporter) virtual.Status {
	return virtual.StatusOK
}

func (d *fakeDir) VirtualRename(ctx context.Context, oldName path.Component, newDirectory virtual.Directory, newName path.Component) (virtual.ChangeInfo, virtual.ChangeInfo, virtual.Status) {
	return virtual.ChangeInfo{}, virtual.ChangeInfo{}, virtual.StatusErrPerm
}

func (d *fakeDir) VirtualGetAttributes(ctx context.Context, requested virtual.AttributesMask, attributes *virtual.Attributes) {
	d.mu.Lock()
	attributes.SetChangeID(d.changeID)
	d.mu.Unlock()
	attributes.SetFileType(filesystem.FileTypeDirectory)
	attributes.SetHasNamedAttributes(false)
	attributes.SetIsInNamedAttributeDirectory(false)
	attributes.SetLinkCount(virtual.EmptyDirectoryLinkCount)
	attributes.SetPermissions(virtual.PermissionsRead | virtual.PermissionsWrite | virtual.PermissionsExecute)
	attributes.SetSizeBytes(0)
	d.handle.GetAttributes(requested, attributes)
}

func (d *fakeDir) VirtualSetAttributes(ctx context.Context, in *virtual.Attributes, requested virtual.AttributesMask, attributes *virtual.Attributes) virtual.Status {
	d.VirtualGetAttributes(ctx, requested, attributes)
	return virtual.StatusOK
}

func (d *fakeDir) VirtualApply(data any) bool { return false }

func (d *fakeDir) VirtualOpenNamedAttributes(ctx context.Context, createDirectory bool, requested virtual.AttributesMask, attributes *virtual.Attributes) (virtual.Directory, virtual.Status) {
	if createDirectory {
		return nil, virtual.StatusErrAccess
	}
	return nil, virtual.StatusErrNoEnt
}
