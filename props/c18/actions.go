package c18

import (
	"bytes"
	"fmt"
	"strings"

	"github.com/buildbarn/go-xdr/pkg/protocols/nfsv4"
)

func nextSeq(s uint32) uint32 {
	if s == 0xffffffff {
		return 1
	}
	return s + 1
}

func accessOf(v uint32) (uint32, bool) {
	switch v {
	case 1, 2, 3:
		return v, true
	}
	return 0, false
}

// modelPoolHas tells whether the model says that the server keeps the
// leaf resolvable for open state (live opens of either version, or a
// 4.0 open that was closed but whose close can still be replayed).
func (h *hist) modelPoolHas(l *fakeLeaf) bool {
	for _, c := range h.clients {
		for _, o := range c.owners {
			if _, ok := o.opens[l]; ok {
				return true
			}
			if o.closedPending != nil && o.closedPending.leaf == l {
				return true
			}
		}
	}
	return false
}

func (h *hist) modelOpenCount(l *fakeLeaf) (n int) {
	for _, c := range h.clients {
		for _, o := range c.owners {
			if _, ok := o.opens[l]; ok {
				n++
			}
		}
	}
	return n
}

// ownerByOther40 mirrors the lookup of the open-owner by the 'other'
// field of an open state ID.
func (h *hist) ownerByOther40(other [12]byte) *owner {
	if os := h.open40[other]; os != nil {
		return os.o
	}
	if os := h.closed40[other]; os != nil && os.o.closedPending == os {
		return os.o
	}
	return nil
}

// txStart40 applies what starting a transaction on a 4.0 open-owner
// does: the file closed by the previous transaction is finalized.
func (h *hist) txStart40(o *owner) {
	if cp := o.closedPending; cp != nil {
		delete(h.closed40, cp.sid.Other)
		o.closedPending = nil
	}
}

func (c *client) getOwner(key string) *owner {
	o := c.owners[key]
	if o == nil {
		o = &owner{c: c, key: key, opens: map[*fakeLeaf]*openState{}}
		c.owners[key] = o
	}
	return o
}

func (c *client) getLockOwner(key string) *lockOwner {
	lo := c.lockOwners[key]
	if lo == nil {
		lo = &lockOwner{c: c, key: key, states: map[*openState]*lockState{}}
		c.lockOwners[key] = lo
	}
	return lo
}

func (c *client) clientID() uint64 {
	if c.cur != nil {
		return c.cur.clientID
	}
	return 0x4242
}

// openParams describes one OPEN request.
type openParams struct {
	ownerKey  string
	name      string // CLAIM_NULL and the named delegation claims
	fh        fhRef
	access    uint32
	deny      uint32
	how       int
	claim     int
	delegType int    // CLAIM_PREVIOUS: index into delegTypes
	slot      int    // 4.1: session slot to use
	then      int    // 4.1: operation that follows in the same compound and uses the current state ID
	seqDelta  uint32 // added to the correct open-owner seqid (4.0)
	clientID  *uint64
	variant   string
}

// Operations that may follow OPEN in the same NFSv4.1 compound, using
// the current state ID that OPEN leaves behind.
const (
	thenNothing = iota
	thenRead
	thenWrite
	thenClose
	thenDowngradeToRead
)

var thenNames = [...]string{"", "READ", "WRITE", "CLOSE", "OPEN_DOWNGRADE"}

// open sends OPEN (+GETFH) and applies its outcome to the model.
func (h *hist) open(c *client, p openParams) *openState {
	o := c.owners[p.ownerKey]
	w := h.w

	// --- predict ---
	var want []nfsv4.Nfsstat4
	var target *fakeLeaf // existing leaf that would be opened
	creates := false
	seq := uint32(0)
	txStarted := false
	reinit := false
	refusedAfterOpen := false // the server opens the leaf before it can refuse the reclaim
	hasOpen := false
	predict := func() nfsv4.Nfsstat4 {
		if c.ver == 0 {
			if c.cur == nil || (p.clientID != nil && *p.clientID != c.cur.clientID) {
				return nfsv4.NFS4ERR_STALE_CLIENTID
			}
			if o != nil && o.known {
				seq = nextSeq(o.seqid) + p.seqDelta
				if o.confirmed && p.seqDelta != 0 {
					return nfsv4.NFS4ERR_BAD_SEQID
				}
				if !o.confirmed {
					reinit = true
				}
			} else {
				seq = 1 + uint32(h.rng.IntN(1000))
			}
			txStarted = true
		}
		acc, ok := accessOf(p.access)
		if c.ver == 1 {
			acc, ok = accessOf(p.access &^ nfsv4.OPEN4_SHARE_ACCESS_WANT_DELEG_MASK)
		}
		_ = acc
		if !ok {
			return nfsv4.NFS4ERR_INVAL
		}
		switch {
		case p.deny == 0:
		case p.deny <= 3:
			return nfsv4.NFS4ERR_SHARE_DENIED
		default:
			return nfsv4.NFS4ERR_INVAL
		}
		switch p.how {
		case howUncheckedBadAttr, howGuardedBadAttr:
			return nfsv4.NFS4ERR_ATTRNOTSUPP
		case howExclusive41:
			return nfsv4.NFS4ERR_INVAL
		case howExclusive:
			if c.ver == 1 {
				return nfsv4.NFS4ERR_INVAL
			}
		}
		noExisting := p.how == howGuarded || p.how == howExclusive
		openSelf := func(l *fakeLeaf) nfsv4.Nfsstat4 {
			if l.failOpen.Load() > 0 {
				return nfsv4.NFS4ERR_IO
			}
			target = l
			return nfsv4.NFS4_OK
		}
		switch p.claim {
		case claimNull:
			switch p.fh.kind {
			case 0:
				return nfsv4.NFS4ERR_NOFILEHANDLE
			case 2:
				return nfsv4.NFS4ERR_NOTDIR
			}
			if p.name == "" {
				return nfsv4.NFS4ERR_INVAL
			}
			if p.name == "." || p.name == ".." || strings.ContainsAny(p.name, "/\x00") {
				return nfsv4.NFS4ERR_BADNAME
			}
			l := w.root.lookupLeaf(p.name)
			if l != nil {
				if noExisting {
					return nfsv4.NFS4ERR_EXIST
				}
				return openSelf(l)
			}
			if p.how == howNoCreate {
				return nfsv4.NFS4ERR_NOENT
			}
			creates = true
			return nfsv4.NFS4_OK
		case claimPrevious, claimFH:
			if c.ver == 0 && p.claim == claimFH {
				return nfsv4.NFS4ERR_INVAL
			}
			switch p.fh.kind {
			case 0:
				return nfsv4.NFS4ERR_NOFILEHANDLE
			case 1:
				return nfsv4.NFS4ERR_ISDIR
			}
			has := false
			if o != nil && !reinit {
				_, has = o.opens[p.fh.leaf]
			}
			hasOpen = has
			// A reclaim is only honoured for a file this open-owner
			// has open, and this server never hands out delegations.
			reclaimable := has && (p.claim != claimPrevious || p.delegType == 0)
			if c.ver == 0 {
				if !reclaimable {
					return nfsv4.NFS4ERR_RECLAIM_BAD
				}
				if noExisting {
					return nfsv4.NFS4ERR_EXIST
				}
				return openSelf(p.fh.leaf)
			}
			if noExisting {
				return nfsv4.NFS4ERR_EXIST
			}
			if st := openSelf(p.fh.leaf); st != nfsv4.NFS4_OK {
				return st
			}
			if p.claim == claimPrevious && !reclaimable {
				target = nil
				refusedAfterOpen = true
				return nfsv4.NFS4ERR_RECLAIM_BAD
			}
			return nfsv4.NFS4_OK
		case claimDelegateCur:
			return nfsv4.NFS4ERR_RECLAIM_BAD
		case claimDelegatePrev:
			return nfsv4.NFS4ERR_NOTSUPP
		case claimDelegCurFH:
			if c.ver == 0 {
				return nfsv4.NFS4ERR_INVAL
			}
			return nfsv4.NFS4ERR_RECLAIM_BAD
		case claimDelegPrevFH:
			if c.ver == 0 {
				return nfsv4.NFS4ERR_INVAL
			}
			return nfsv4.NFS4ERR_NOTSUPP
		}
		return nfsv4.NFS4ERR_INVAL
	}
	want = []nfsv4.Nfsstat4{predict()}
	if h.concurrent && p.claim == claimNull && (want[0] == nfsv4.NFS4ERR_NOENT || want[0] == nfsv4.NFS4ERR_EXIST || want[0] == nfsv4.NFS4_OK) && p.deny == 0 {
		// Another history may create the same name concurrently.
		want = []nfsv4.Nfsstat4{nfsv4.NFS4_OK, nfsv4.NFS4ERR_NOENT, nfsv4.NFS4ERR_EXIST}
	}

	// --- send ---
	clientID := c.clientID()
	if p.clientID != nil {
		clientID = *p.clientID
	}
	desc := fmt.Sprintf("OPEN owner=%s %s name=%q fh=%s access=%s deny=%d how=%s seq=%d (%s)", p.ownerKey, claimNames[p.claim], p.name, p.fh, accName(p.access), p.deny, howNames[p.how], seq, p.variant)
	if p.claim == claimPrevious {
		desc += " delegate_type=" + delegNames[p.delegType]
	}
	ops := []nfsv4.NfsArgop4{
		&nfsv4.NfsArgop4_OP_OPEN{Opopen: nfsv4.Open4args{
			Seqid:       seq,
			ShareAccess: p.access,
			ShareDeny:   p.deny,
			Owner:       nfsv4.OpenOwner4{Clientid: clientID, Owner: []byte(p.ownerKey)},
			Openhow:     buildOpenhow(p.how),
			Claim:       buildClaim(p.claim, p.name, p.delegType),
		}},
		&nfsv4.NfsArgop4_OP_GETFH{},
	}
	// The open state that a following CLOSE or OPEN_DOWNGRADE would
	// end or narrow may exist already (re-OPEN): its entitlement ends
	// when the request is sent.
	var preExisting *openState
	if c.ver != 1 {
		p.then = thenNothing
	}
	if p.then != thenNothing {
		desc += " then " + thenNames[p.then] + " with the current state ID"
		switch p.then {
		case thenRead:
			ops = append(ops, &nfsv4.NfsArgop4_OP_READ{Opread: nfsv4.Read4args{Stateid: currentStateID, Count: 8}})
		case thenWrite:
			ops = append(ops, &nfsv4.NfsArgop4_OP_WRITE{Opwrite: nfsv4.Write4args{Stateid: currentStateID, Stable: nfsv4.FILE_SYNC4, Data: []byte{7}}})
		case thenClose:
			ops = append(ops, &nfsv4.NfsArgop4_OP_CLOSE{Opclose: nfsv4.Close4args{OpenStateid: currentStateID}})
		case thenDowngradeToRead:
			ops = append(ops, &nfsv4.NfsArgop4_OP_OPEN_DOWNGRADE{OpopenDowngrade: nfsv4.OpenDowngrade4args{OpenStateid: currentStateID, ShareAccess: nfsv4.OPEN4_SHARE_ACCESS_READ}})
		}
		if o != nil && want[0] == nfsv4.NFS4_OK && target != nil {
			preExisting = o.opens[target]
		}
		if preExisting != nil {
			switch p.then {
			case thenClose:
				preExisting.setHeld(0)
				for _, ls := range preExisting.locks {
					ls.setHeld(0)
				}
			case thenDowngradeToRead:
				preExisting.setHeld(preExisting.held & accRead)
			}
		}
		h.allowTrailingFailure = true
	}
	rr := h.send(c, desc, p.fh, p.slot, ops...)
	h.allowTrailingFailure = false
	restorePreExisting := func() {
		if preExisting != nil && !preExisting.closed {
			preExisting.setHeld(preExisting.wantHeld())
			for _, ls := range preExisting.locks {
				ls.setHeld(ls.access)
			}
		}
	}
	if !rr.ok {
		restorePreExisting()
		return nil
	}
	h.expect(c, "OPEN", p.variant, rr.st, want...)

	// --- apply ---
	if c.ver == 0 && txStarted && rr.st != nfsv4.NFS4ERR_STALE_CLIENTID && !(rr.st == nfsv4.NFS4ERR_BAD_SEQID && want[0] == nfsv4.NFS4ERR_BAD_SEQID) {
		o = c.getOwner(p.ownerKey)
		if reinit {
			if len(o.opens) > 0 {
				h.sit("unconfirmed-open-owner-reinitialized")
			}
			for l, os := range o.opens {
				h.forgetOpen(os)
				delete(o.opens, l)
			}
		}
		h.txStart40(o)
		o.known = true
		if seqidAdvances(rr.st) {
			o.seqid = seq
		}
	}
	if rr.st != nfsv4.NFS4_OK {
		restorePreExisting()
		if rr.st == nfsv4.NFS4ERR_RECLAIM_BAD && want[0] == nfsv4.NFS4ERR_RECLAIM_BAD && p.claim == claimPrevious {
			// The refused reclaim must leave nothing behind: the
			// balance and count oracles that run after this step
			// judge that (in 4.1 the leaf was opened and must have
			// been closed again).
			switch {
			case p.delegType != 0 && hasOpen:
				h.sit("reclaim-with-delegation-refused-while-open")
			case p.delegType != 0:
				h.sit("reclaim-with-delegation-refused-while-not-open")
			default:
				h.sit("reclaim-refused-while-not-open")
			}
			if refusedAfterOpen {
				h.sit("reclaim-refused-after-leaf-was-opened")
			}
		}
		return nil
	}
	okres, _ := findRes[*nfsv4.NfsResop4_OP_OPEN](rr.res)
	resok := okres.Opopen.(*nfsv4.Open4res_NFS4_OK).Resok4
	var gotFH []byte
	if g, ok := findRes[*nfsv4.NfsResop4_OP_GETFH](rr.res); ok {
		if gok, ok := g.Opgetfh.(*nfsv4.Getfh4res_NFS4_OK); ok {
			gotFH = gok.Resok4.Object
		}
	}
	w.leavesMu.Lock()
	leaf := w.leavesByHandle[string(gotFH)]
	w.leavesMu.Unlock()
	if leaf == nil {
		w.violation("open-returned-unknown-handle", fmt.Sprintf("%s %s: GETFH after OPEN returned %x, which is no leaf of the tree", c, desc, gotFH))
		return nil
	}
	if target != nil && leaf != target && !h.concurrent {
		w.violation("open-returned-wrong-file", fmt.Sprintf("%s %s: expected %s, got %s", c, desc, target, leaf))
	}
	if creates {
		h.sit("open-created-file")
	}
	o = c.getOwner(p.ownerKey)
	sid := resok.Stateid
	if os, ok := o.opens[leaf]; ok {
		// Upgrade of an existing open: same state, next seqid.
		wantSid := os.sid
		wantSid.Seqid = nextSeq(wantSid.Seqid)
		if sid != wantSid {
			w.violation(fmt.Sprintf("open-upgrade-state-id-mismatch v=4.%d", c.ver), fmt.Sprintf("%s %s: re-OPEN of a file this open-owner has open returned %s, expected %s", c, desc, sidString(sid), sidString(wantSid)))
			h.reindexOpen(os, sid)
		}
		os.sid = sid
		acc, _ := accessOf(p.access & 3)
		os.access |= acc
		os.setHeld(os.wantHeld())
		h.sit("reopen-upgrade")
		if p.claim == claimPrevious {
			h.sit("claim-previous")
		}
		return h.afterOpenThen(c, p, rr, os)
	}
	if sid.Seqid != 1 {
		w.violation(fmt.Sprintf("new-open-state-id-seqid v=4.%d", c.ver), fmt.Sprintf("%s %s: new open state ID %s does not start at seqid 1", c, desc, sidString(sid)))
	}
	acc, _ := accessOf(p.access & 3)
	os := &openState{o: o, leaf: leaf, sid: sid, access: acc, locks: map[*lockOwner]*lockState{}}
	if c.ver == 0 {
		if prev := h.open40[sid.Other]; prev != nil {
			w.violation("state-id-issued-twice v=4.0", fmt.Sprintf("%s %s: state ID %s is already in use for %s", c, desc, sidString(sid), prev.leaf))
		}
		h.open40[sid.Other] = os
		confirmFlag := resok.Rflags&nfsv4.OPEN4_RESULT_CONFIRM != 0
		if confirmFlag == o.confirmed {
			w.violation("open-confirm-flag-wrong", fmt.Sprintf("%s %s: OPEN4_RESULT_CONFIRM=%v but the open-owner is confirmed=%v", c, desc, confirmFlag, o.confirmed))
		}
	} else {
		k, ok := other41(sid)
		if !ok {
			w.violation("state-id-malformed v=4.1", fmt.Sprintf("%s %s: %s", c, desc, sidString(sid)))
		}
		if prev := h.open41[stateKey41{c, k}]; prev != nil || h.lock41[stateKey41{c, k}] != nil {
			w.violation("state-id-issued-twice v=4.1", fmt.Sprintf("%s %s: state ID %s is already in use", c, desc, sidString(sid)))
		}
		h.open41[stateKey41{c, k}] = os
		if p.claim == claimFH {
			h.sit("claim-fh")
		}
	}
	o.opens[leaf] = os
	os.setHeld(os.wantHeld())
	if h.modelOpenCount(leaf) > 1 {
		h.sit("file-open-by-several-owners")
	}
	return h.afterOpenThen(c, p, rr, os)
}

// afterOpenThen judges and applies the operation that followed a
// successful OPEN in the same compound and used the current state ID.
func (h *hist) afterOpenThen(c *client, p openParams, rr reqResult, os *openState) *openState {
	if p.then == thenNothing {
		return os
	}
	// OPEN and GETFH succeeded, so the compound's status is that of
	// the last operation.
	st := rr.res.Status
	op := thenNames[p.then]
	h.sit("current-state-id-used-after-open")
	switch p.then {
	case thenRead, thenWrite:
		want, bit := nfsv4.NFS4_OK, accRead
		if p.then == thenWrite {
			bit = accWrite
		}
		if os.access&bit == 0 {
			want = nfsv4.NFS4ERR_OPENMODE
		}
		h.expect(c, op, "current-state-id", st, want)
		return os
	case thenClose:
		if !h.expect(c, op, "current-state-id", st, nfsv4.NFS4_OK) {
			return os
		}
		h.applyClose(c, os)
		return nil
	default:
		want := nfsv4.NFS4_OK
		if os.access&accRead == 0 {
			want = nfsv4.NFS4ERR_INVAL
		}
		if !h.expect(c, op, "current-state-id", st, want) || st != nfsv4.NFS4_OK {
			os.setHeld(os.wantHeld())
			return os
		}
		r0, _ := findRes[*nfsv4.NfsResop4_OP_OPEN_DOWNGRADE](rr.res)
		got := r0.OpopenDowngrade.(*nfsv4.OpenDowngrade4res_NFS4_OK).Resok4.OpenStateid
		os.sid.Seqid = nextSeq(os.sid.Seqid)
		if got != os.sid {
			h.w.violation("state-id-sequence-mismatch op=OPEN_DOWNGRADE", fmt.Sprintf("%s: got %s want %s", c, sidString(got), sidString(os.sid)))
		}
		os.access = accRead
		os.setHeld(os.wantHeld())
		return os
	}
}

func (h *hist) reindexOpen(os *openState, sid nfsv4.Stateid4) {
	c := os.o.c
	if c.ver == 0 {
		delete(h.open40, os.sid.Other)
		h.open40[sid.Other] = os
	} else {
		if k, ok := other41(os.sid); ok {
			delete(h.open41, stateKey41{c, k})
		}
		if k, ok := other41(sid); ok {
			h.open41[stateKey41{c, k}] = os
		}
	}
}

// openConfirm sends OPEN_CONFIRM (4.0 only).
func (h *hist) openConfirm(c *client, sid nfsv4.Stateid4, fh fhRef, seqDelta uint32, variant string) {
	var o *owner
	seq := uint32(77)
	txStarted := false
	var os *openState
	predict := func() nfsv4.Nfsstat4 {
		if st := h.internalizeRegular40(sid); st != nfsv4.NFS4_OK {
			return st
		}
		o = h.ownerByOther40(sid.Other)
		if o == nil {
			return nfsv4.NFS4ERR_BAD_STATEID
		}
		seq = nextSeq(o.seqid) + seqDelta
		if seqDelta != 0 {
			return nfsv4.NFS4ERR_BAD_SEQID
		}
		txStarted = true
		var st nfsv4.Nfsstat4
		os, st = h.resolveOpen40(sid, fh, true)
		return st
	}
	want := predict()
	rr := h.send(c, fmt.Sprintf("OPEN_CONFIRM sid=%s fh=%s seq=%d (%s)", sidString(sid), fh, seq, variant), fh, 0,
		&nfsv4.NfsArgop4_OP_OPEN_CONFIRM{OpopenConfirm: nfsv4.OpenConfirm4args{OpenStateid: sid, Seqid: seq}})
	if !rr.ok {
		return
	}
	h.expect(c, "OPEN_CONFIRM", variant, rr.st, want)
	if txStarted {
		h.txStart40(o)
		if seqidAdvances(rr.st) {
			o.seqid = seq
		}
	}
	if rr.st != nfsv4.NFS4_OK {
		h.noEvents(c, "OPEN_CONFIRM", variant, rr)
		return
	}
	if os == nil {
		return
	}
	r0, _ := findRes[*nfsv4.NfsResop4_OP_OPEN_CONFIRM](rr.res)
	got := r0.OpopenConfirm.(*nfsv4.OpenConfirm4res_NFS4_OK).Resok4.OpenStateid
	os.sid.Seqid = nextSeq(os.sid.Seqid)
	if got != os.sid {
		h.w.violation("state-id-sequence-mismatch op=OPEN_CONFIRM", fmt.Sprintf("%s: got %s want %s", c, sidString(got), sidString(os.sid)))
	}
	os.o.confirmed = true
	os.setHeld(os.wantHeld())
}

func (h *hist) ioInFlightOn(os *openState) bool {
	for _, io := range h.inflight {
		if io.os == os {
			return true
		}
	}
	return false
}

// closeState sends CLOSE.
func (h *hist) closeState(c *client, sid nfsv4.Stateid4, fh fhRef, seqDelta uint32, variant string) {
	var o *owner
	var os *openState
	seq := uint32(55)
	txStarted := false
	predict := func() nfsv4.Nfsstat4 {
		if c.ver == 1 {
			var st nfsv4.Nfsstat4
			os, st = h.resolveOpen41(c, sid, fh)
			return st
		}
		if st := h.internalizeRegular40(sid); st != nfsv4.NFS4_OK {
			return st
		}
		o = h.ownerByOther40(sid.Other)
		if o == nil {
			return nfsv4.NFS4ERR_BAD_STATEID
		}
		seq = nextSeq(o.seqid) + seqDelta
		if !o.confirmed || seqDelta != 0 {
			return nfsv4.NFS4ERR_BAD_SEQID
		}
		txStarted = true
		var st nfsv4.Nfsstat4
		os, st = h.resolveOpen40(sid, fh, false)
		return st
	}
	want := predict()
	locksHeld := false
	if want == nfsv4.NFS4_OK {
		os.setHeld(0)
		for _, ls := range os.locks {
			ls.setHeld(0)
			locksHeld = locksHeld || ls.locksHeld()
		}
	}
	rr := h.send(c, fmt.Sprintf("CLOSE sid=%s fh=%s seq=%d (%s)", sidString(sid), fh, seq, variant), fh, 0,
		&nfsv4.NfsArgop4_OP_CLOSE{Opclose: nfsv4.Close4args{Seqid: seq, OpenStateid: sid}})
	if !rr.ok {
		if os != nil && want == nfsv4.NFS4_OK {
			os.setHeld(os.wantHeld())
			for _, ls := range os.locks {
				ls.setHeld(ls.access)
			}
		}
		return
	}
	h.expect(c, "CLOSE", variant, rr.st, want)
	if txStarted {
		h.txStart40(o)
		if seqidAdvances(rr.st) {
			o.seqid = seq
		}
	}
	if rr.st != nfsv4.NFS4_OK {
		h.noEvents(c, "CLOSE", variant, rr)
		if os != nil && want == nfsv4.NFS4_OK {
			os.setHeld(os.wantHeld())
			for _, ls := range os.locks {
				ls.setHeld(ls.access)
			}
		}
		return
	}
	if os == nil {
		return
	}
	r0, _ := findRes[*nfsv4.NfsResop4_OP_CLOSE](rr.res)
	got := r0.Opclose.(*nfsv4.Close4res_NFS4_OK).OpenStateid
	if c.ver == 0 {
		wantSid := os.sid
		wantSid.Seqid = nextSeq(wantSid.Seqid)
		if got != wantSid {
			h.w.violation("state-id-sequence-mismatch op=CLOSE", fmt.Sprintf("%s: got %s want %s", c, sidString(got), sidString(wantSid)))
		}
	} else if (got != nfsv4.Stateid4{Seqid: 0xffffffff}) {
		h.w.violation("close-did-not-return-invalid-state-id v=4.1", fmt.Sprintf("%s: got %s", c, sidString(got)))
	}
	if locksHeld {
		h.sit("close-with-locks-held")
	}
	if h.ioInFlightOn(os) {
		h.sit("io-in-flight-across-close")
	}
	h.applyClose(c, os)
}

// applyClose removes an open state that the server confirmed closed.
func (h *hist) applyClose(c *client, os *openState) {
	for _, ls := range os.locks {
		h.closed = append(h.closed, closedRef{c: c, sid: ls.sid, leaf: os.leaf, lock: true})
	}
	h.closed = append(h.closed, closedRef{c: c, sid: os.sid, leaf: os.leaf})
	owner := os.o
	oldSid := os.sid
	h.forgetOpen(os)
	delete(owner.opens, os.leaf)
	if owner.c.ver == 0 {
		os.sid = oldSid
		h.closed40[oldSid.Other] = os
		owner.closedPending = os
	} else if len(owner.opens) == 0 {
		delete(owner.c.owners, owner.key)
	}
}

// downgrade sends OPEN_DOWNGRADE.
func (h *hist) downgrade(c *client, sid nfsv4.Stateid4, fh fhRef, access, deny, seqDelta uint32, variant string) {
	var o *owner
	var os *openState
	seq := uint32(66)
	txStarted := false
	check := func() nfsv4.Nfsstat4 {
		acc, ok := accessOf(access)
		if !ok {
			return nfsv4.NFS4ERR_INVAL
		}
		if acc&^os.access != 0 || deny != 0 {
			return nfsv4.NFS4ERR_INVAL
		}
		return nfsv4.NFS4_OK
	}
	predict := func() nfsv4.Nfsstat4 {
		if c.ver == 1 {
			if _, ok := accessOf(access); !ok {
				return nfsv4.NFS4ERR_INVAL
			}
			var st nfsv4.Nfsstat4
			os, st = h.resolveOpen41(c, sid, fh)
			if st != nfsv4.NFS4_OK {
				return st
			}
			return check()
		}
		if st := h.internalizeRegular40(sid); st != nfsv4.NFS4_OK {
			return st
		}
		o = h.ownerByOther40(sid.Other)
		if o == nil {
			return nfsv4.NFS4ERR_BAD_STATEID
		}
		seq = nextSeq(o.seqid) + seqDelta
		if !o.confirmed || seqDelta != 0 {
			return nfsv4.NFS4ERR_BAD_SEQID
		}
		txStarted = true
		var st nfsv4.Nfsstat4
		os, st = h.resolveOpen40(sid, fh, false)
		if st != nfsv4.NFS4_OK {
			return st
		}
		return check()
	}
	want := predict()
	if want == nfsv4.NFS4_OK {
		os.setHeld(os.held & access)
	}
	rr := h.send(c, fmt.Sprintf("OPEN_DOWNGRADE sid=%s fh=%s access=%s deny=%d seq=%d (%s)", sidString(sid), fh, accName(access), deny, seq, variant), fh, 0,
		&nfsv4.NfsArgop4_OP_OPEN_DOWNGRADE{OpopenDowngrade: nfsv4.OpenDowngrade4args{OpenStateid: sid, Seqid: seq, ShareAccess: access, ShareDeny: deny}})
	if rr.ok {
		h.expect(c, "OPEN_DOWNGRADE", variant, rr.st, want)
		if txStarted {
			h.txStart40(o)
			if seqidAdvances(rr.st) {
				o.seqid = seq
			}
		}
	}
	if !rr.ok || rr.st != nfsv4.NFS4_OK {
		if rr.ok {
			h.noEvents(c, "OPEN_DOWNGRADE", variant, rr)
		}
		if os != nil && want == nfsv4.NFS4_OK {
			os.setHeld(os.wantHeld())
		}
		return
	}
	if os == nil || want != nfsv4.NFS4_OK {
		return
	}
	r0, _ := findRes[*nfsv4.NfsResop4_OP_OPEN_DOWNGRADE](rr.res)
	got := r0.OpopenDowngrade.(*nfsv4.OpenDowngrade4res_NFS4_OK).Resok4.OpenStateid
	os.sid.Seqid = nextSeq(os.sid.Seqid)
	if got != os.sid {
		h.w.violation("state-id-sequence-mismatch op=OPEN_DOWNGRADE", fmt.Sprintf("%s: got %s want %s", c, sidString(got), sidString(os.sid)))
	}
	removed := os.access &^ access
	os.access = access
	os.setHeld(os.wantHeld())
	if removed != 0 {
		for _, ls := range os.locks {
			if ls.access&removed != 0 {
				if removed&accWrite != 0 && ls.access&accWrite != 0 {
					h.sit("downgrade-to-read-while-lock-owner-cloned-write")
				}
				h.sit("downgrade-while-lock-owner-cloned-access")
			}
		}
		for _, io := range h.inflight {
			if io.os == os && (uint32(1)<<io.bit)&removed != 0 {
				h.sit("io-in-flight-across-downgrade")
			}
		}
	}
}

// lockParams describes one LOCK request.
type lockParams struct {
	newOwner     bool
	openSid      nfsv4.Stateid4 // newOwner
	lockSid      nfsv4.Stateid4 // !newOwner
	loKey        string         // newOwner
	fh           fhRef
	rangeIdx     int
	write        bool
	openSeqDelta uint32
	lockSeqDelta uint32
	clientID     *uint64
	badLockType  bool
	// 4.1: LOCKU of the same range with the current state ID follows
	// in the same compound.
	thenUnlockCurrent bool
	variant           string
}

func (h *hist) lock(c *client, p lockParams) *lockState {
	var o *owner
	var os *openState
	var ls *lockState
	var lo *lockOwner
	openSeq, lockSeq := uint32(11), uint32(22)
	openTx, lockTx := false, false
	existingLS := false
	redundant := false // new_lock_owner = TRUE for a lock-owner that already has lock state on this open
	lc := c            // client that the lock-owner belongs to
	predictState := func() nfsv4.Nfsstat4 {
		if p.newOwner {
			lo = c.lockOwners[p.loKey]
			if c.ver == 1 {
				var st nfsv4.Nfsstat4
				os, st = h.resolveOpen41(c, p.openSid, p.fh)
				if st != nfsv4.NFS4_OK {
					return st
				}
				if lo != nil {
					if x, ok := os.locks[lo]; ok {
						ls, existingLS = x, true
						redundant = true
					}
				}
				return nfsv4.NFS4_OK
			}
			if st := h.internalizeRegular40(p.openSid); st != nfsv4.NFS4_OK {
				return st
			}
			o = h.ownerByOther40(p.openSid.Other)
			if o == nil {
				return nfsv4.NFS4ERR_BAD_STATEID
			}
			openSeq = nextSeq(o.seqid) + p.openSeqDelta
			if !o.confirmed || p.openSeqDelta != 0 {
				return nfsv4.NFS4ERR_BAD_SEQID
			}
			openTx = true
			var st nfsv4.Nfsstat4
			os, st = h.resolveOpen40(p.openSid, p.fh, false)
			if st != nfsv4.NFS4_OK {
				return st
			}
			// The lock-owner belongs to the client that owns the
			// open state (4.0 state IDs are not bound to the sender).
			lc = os.o.c
			effective := c.clientID()
			if p.clientID != nil {
				effective = *p.clientID
			}
			if effective != lc.clientID() {
				return nfsv4.NFS4ERR_INVAL
			}
			lo = lc.lockOwners[p.loKey]
			if lo != nil && lo.known {
				// The lock seqid is in order even if the request
				// is about to be refused for another reason.
				lockSeq = nextSeq(lo.seqid) + p.lockSeqDelta
				if _, ok := lo.states[os]; ok {
					// The lock-owner already has lock state on
					// this open: the client should have sent
					// new_lock_owner = FALSE.
					redundant = true
					return nfsv4.NFS4ERR_BAD_SEQID
				}
				if p.lockSeqDelta != 0 {
					return nfsv4.NFS4ERR_BAD_SEQID
				}
			} else {
				lockSeq = uint32(h.rng.IntN(1000))
			}
			lockTx = true
			return nfsv4.NFS4_OK
		}
		if c.ver == 1 {
			var st nfsv4.Nfsstat4
			ls, st = h.resolveLock41(c, p.lockSid, p.fh)
			if st == nfsv4.NFS4_OK {
				existingLS = true
			}
			return st
		}
		if st := h.internalizeRegular40(p.lockSid); st != nfsv4.NFS4_OK {
			return st
		}
		ls0 := h.lock40[p.lockSid.Other]
		if ls0 == nil {
			return nfsv4.NFS4ERR_BAD_STATEID
		}
		lo = ls0.lo
		lockSeq = nextSeq(lo.seqid) + p.lockSeqDelta
		if p.lockSeqDelta != 0 {
			return nfsv4.NFS4ERR_BAD_SEQID
		}
		lockTx = true
		var st nfsv4.Nfsstat4
		ls, st = h.resolveLock40(p.lockSid, p.fh)
		if st == nfsv4.NFS4_OK {
			existingLS = true
		}
		return st
	}
	stState := predictState()
	want := []nfsv4.Nfsstat4{stState}
	if stState == nfsv4.NFS4_OK {
		// Whether the range conflicts with another owner's lock is
		// property C20's business: follow the reply.
		want = []nfsv4.Nfsstat4{nfsv4.NFS4_OK, nfsv4.NFS4ERR_DENIED}
		if rangeIsInvalid(p.rangeIdx) || p.badLockType {
			want = []nfsv4.Nfsstat4{nfsv4.NFS4ERR_INVAL}
		}
	}
	if redundant {
		h.sit("lock-with-new-lock-owner-flag-for-owner-that-has-lock-state-on-the-open")
	}
	lt := nfsv4.READ_LT
	if p.write {
		lt = nfsv4.WRITE_LT
	}
	if p.badLockType {
		lt = nfsv4.NfsLockType4(9)
	}
	clientID := c.clientID()
	if p.clientID != nil {
		clientID = *p.clientID
	}
	var locker nfsv4.Locker4
	var desc string
	if p.newOwner {
		locker = &nfsv4.Locker4_TRUE{OpenOwner: nfsv4.OpenToLockOwner4{
			OpenSeqid: openSeq, OpenStateid: p.openSid, LockSeqid: lockSeq,
			LockOwner: nfsv4.LockOwner4{Clientid: clientID, Owner: []byte(p.loKey)},
		}}
		desc = fmt.Sprintf("LOCK new-lock-owner=%s opensid=%s fh=%s range=%d write=%v openseq=%d lockseq=%d (%s)", p.loKey, sidString(p.openSid), p.fh, p.rangeIdx, p.write, openSeq, lockSeq, p.variant)
	} else {
		locker = &nfsv4.Locker4_FALSE{LockOwner: nfsv4.ExistLockOwner4{LockStateid: p.lockSid, LockSeqid: lockSeq}}
		desc = fmt.Sprintf("LOCK locksid=%s fh=%s range=%d write=%v lockseq=%d (%s)", sidString(p.lockSid), p.fh, p.rangeIdx, p.write, lockSeq, p.variant)
	}
	rg := lockRanges[p.rangeIdx]
	ops := []nfsv4.NfsArgop4{&nfsv4.NfsArgop4_OP_LOCK{Oplock: nfsv4.Lock4args{
		Locktype: lt, Offset: rg.off, Length: rg.len, Locker: locker,
	}}}
	if c.ver != 1 {
		p.thenUnlockCurrent = false
	}
	if p.thenUnlockCurrent {
		desc += " then LOCKU with the current state ID"
		ops = append(ops, &nfsv4.NfsArgop4_OP_LOCKU{Oplocku: nfsv4.Locku4args{Locktype: lt, LockStateid: currentStateID, Offset: rg.off, Length: rg.len}})
		h.allowTrailingFailure = true
	}
	rr := h.send(c, desc, p.fh, 0, ops...)
	h.allowTrailingFailure = false
	if !rr.ok {
		return nil
	}
	h.expect(c, "LOCK", p.variant, rr.st, want...)
	if openTx {
		h.txStart40(o)
		if seqidAdvances(rr.st) {
			o.seqid = openSeq
		}
	}
	if lockTx && seqidAdvances(rr.st) {
		if lo == nil {
			lo = lc.getLockOwner(p.loKey)
		}
		lo.seqid = lockSeq
		lo.known = true
	}
	if rr.st != nfsv4.NFS4_OK {
		h.noEvents(c, "LOCK", p.variant, rr)
		if lo != nil && len(lo.states) == 0 {
			lo.known = false
			delete(lo.c.lockOwners, lo.key)
		}
		if rr.st == nfsv4.NFS4ERR_DENIED {
			h.sit("lock-denied")
		}
		return nil
	}
	if stState != nfsv4.NFS4_OK {
		return nil
	}
	r0, _ := findRes[*nfsv4.NfsResop4_OP_LOCK](rr.res)
	got := r0.Oplock.(*nfsv4.Lock4res_NFS4_OK).Resok4.LockStateid
	if existingLS {
		wantSid := ls.sid
		wantSid.Seqid = nextSeq(wantSid.Seqid)
		if got != wantSid {
			if got.Other != wantSid.Other {
				h.w.violation(fmt.Sprintf("duplicate-lock-state v=4.%d", c.ver),
					fmt.Sprintf("%s %s: the lock-owner already has lock state %s on this open file, yet the server issued a different lock state ID %s", c, desc, sidString(ls.sid), sidString(got)))
				h.w.aborted.Store(true)
			} else {
				h.w.violation("state-id-sequence-mismatch op=LOCK", fmt.Sprintf("%s: got %s want %s", c, sidString(got), sidString(wantSid)))
			}
			return nil
		}
		ls.sid = got
		ls.ranges[p.rangeIdx] = true
		return h.afterLockThen(c, p, rr, ls)
	}
	if lo == nil {
		lo = lc.getLockOwner(p.loKey)
	}
	lo.known = true
	if got.Seqid != 1 {
		h.w.violation(fmt.Sprintf("new-lock-state-id-seqid v=4.%d", c.ver), fmt.Sprintf("%s %s: %s", c, desc, sidString(got)))
	}
	ls = &lockState{lo: lo, os: os, sid: got, access: os.access, ranges: map[int]bool{p.rangeIdx: true}}
	if c.ver == 0 {
		if h.lock40[got.Other] != nil || h.open40[got.Other] != nil {
			h.w.violation("state-id-issued-twice v=4.0", fmt.Sprintf("%s %s: %s", c, desc, sidString(got)))
		}
		h.lock40[got.Other] = ls
	} else {
		k, _ := other41(got)
		if h.lock41[stateKey41{c, k}] != nil || h.open41[stateKey41{c, k}] != nil {
			h.w.violation("state-id-issued-twice v=4.1", fmt.Sprintf("%s %s: %s", c, desc, sidString(got)))
		}
		h.lock41[stateKey41{c, k}] = ls
	}
	lo.states[os] = ls
	os.locks[lo] = ls
	ls.setHeld(ls.access)
	if lo.statesOn(os.leaf) > 1 {
		h.sit("lock-owner-locks-one-file-through-two-open-owners")
		h.lockCountsUncertain = true
		for x, xs := range lo.states {
			if x.leaf == os.leaf {
				xs.uncertain = true
			}
		}
	}
	if len(lo.states) > 1 {
		h.sit("lock-owner-on-several-files")
	}
	return h.afterLockThen(c, p, rr, ls)
}

// afterLockThen judges and applies the LOCKU that followed a granted
// LOCK in the same compound and used the current state ID.
func (h *hist) afterLockThen(c *client, p lockParams, rr reqResult, ls *lockState) *lockState {
	if !p.thenUnlockCurrent {
		return ls
	}
	h.sit("current-state-id-used-after-lock")
	if !h.expect(c, "LOCKU", "current-state-id", rr.res.Status, nfsv4.NFS4_OK) {
		return ls
	}
	r0, ok := findRes[*nfsv4.NfsResop4_OP_LOCKU](rr.res)
	if !ok {
		return ls
	}
	got := r0.Oplocku.(*nfsv4.Locku4res_NFS4_OK).LockStateid
	ls.sid.Seqid = nextSeq(ls.sid.Seqid)
	if got != ls.sid {
		h.w.violation("state-id-sequence-mismatch op=LOCKU", fmt.Sprintf("%s: got %s want %s", c, sidString(got), sidString(ls.sid)))
	}
	delete(ls.ranges, p.rangeIdx)
	return ls
}

// unlock sends LOCKU.
func (h *hist) unlock(c *client, sid nfsv4.Stateid4, fh fhRef, rangeIdx int, seqDelta uint32, variant string) {
	var ls *lockState
	var lo *lockOwner
	seq := uint32(33)
	lockTx := false
	predict := func() nfsv4.Nfsstat4 {
		var st nfsv4.Nfsstat4
		if c.ver == 1 {
			ls, st = h.resolveLock41(c, sid, fh)
			return st
		}
		if st := h.internalizeRegular40(sid); st != nfsv4.NFS4_OK {
			return st
		}
		ls0 := h.lock40[sid.Other]
		if ls0 == nil {
			return nfsv4.NFS4ERR_BAD_STATEID
		}
		lo = ls0.lo
		seq = nextSeq(lo.seqid) + seqDelta
		if seqDelta != 0 {
			return nfsv4.NFS4ERR_BAD_SEQID
		}
		lockTx = true
		ls, st = h.resolveLock40(sid, fh)
		return st
	}
	want := predict()
	if want == nfsv4.NFS4_OK && rangeIsInvalid(rangeIdx) {
		want = nfsv4.NFS4ERR_INVAL
	}
	rg := lockRanges[rangeIdx]
	rr := h.send(c, fmt.Sprintf("LOCKU sid=%s fh=%s range=%d seq=%d (%s)", sidString(sid), fh, rangeIdx, seq, variant), fh, 0,
		&nfsv4.NfsArgop4_OP_LOCKU{Oplocku: nfsv4.Locku4args{Locktype: nfsv4.READ_LT, Seqid: seq, LockStateid: sid, Offset: rg.off, Length: rg.len}})
	if !rr.ok {
		return
	}
	h.expect(c, "LOCKU", variant, rr.st, want)
	if lockTx && seqidAdvances(rr.st) {
		lo.seqid = seq
	}
	if rr.st != nfsv4.NFS4_OK {
		h.noEvents(c, "LOCKU", variant, rr)
		return
	}
	if ls == nil {
		return
	}
	r0, _ := findRes[*nfsv4.NfsResop4_OP_LOCKU](rr.res)
	got := r0.Oplocku.(*nfsv4.Locku4res_NFS4_OK).LockStateid
	ls.sid.Seqid = nextSeq(ls.sid.Seqid)
	if got != ls.sid {
		h.w.violation("state-id-sequence-mismatch op=LOCKU", fmt.Sprintf("%s: got %s want %s", c, sidString(got), sidString(ls.sid)))
	}
	delete(ls.ranges, rangeIdx)
}

// releaseLockOwner sends RELEASE_LOCKOWNER (4.0 only).
func (h *hist) releaseLockOwner(c *client, loKey string, variant string) {
	lo := c.lockOwners[loKey]
	want := nfsv4.NFS4_OK
	held, uncertain := false, false
	if c.cur == nil {
		want = nfsv4.NFS4ERR_STALE_CLIENTID
	} else if lo != nil {
		for _, ls := range lo.states {
			held = held || ls.locksHeld()
			uncertain = uncertain || ls.uncertain
		}
		if held {
			want = nfsv4.NFS4ERR_LOCKS_HELD
		}
	}
	if (want == nfsv4.NFS4_OK || uncertain) && lo != nil {
		// The request may succeed, in which case the server drops
		// the access the lock states cloned: their entitlement ends
		// when the request is sent, not when the reply arrives.
		for _, ls := range lo.states {
			ls.setHeld(0)
		}
	}
	rr := h.send(c, fmt.Sprintf("RELEASE_LOCKOWNER owner=%s (%s)", loKey, variant), fhNone, 0,
		&nfsv4.NfsArgop4_OP_RELEASE_LOCKOWNER{OpreleaseLockowner: nfsv4.ReleaseLockowner4args{
			LockOwner: nfsv4.LockOwner4{Clientid: c.clientID(), Owner: []byte(loKey)},
		}})
	if rr.ok {
		if uncertain {
			h.expect(c, "RELEASE_LOCKOWNER", variant, rr.st, nfsv4.NFS4_OK, nfsv4.NFS4ERR_LOCKS_HELD)
		} else {
			h.expect(c, "RELEASE_LOCKOWNER", variant, rr.st, want)
		}
	}
	if !rr.ok || rr.st != nfsv4.NFS4_OK {
		if rr.ok {
			h.noEvents(c, "RELEASE_LOCKOWNER", variant, rr)
			if rr.st == nfsv4.NFS4ERR_LOCKS_HELD && held {
				h.sit("release-lockowner-with-locks-held")
			}
		}
		if lo != nil {
			for _, ls := range lo.states {
				ls.setHeld(ls.access)
			}
		}
		return
	}
	if lo == nil {
		return
	}
	h.sit("release-lockowner")
	for _, ls := range lo.states {
		h.closed = append(h.closed, closedRef{c: c, sid: ls.sid, leaf: ls.os.leaf, lock: true})
		h.removeLock(ls)
	}
}

// freeStateID sends FREE_STATEID (4.1 only).
func (h *hist) freeStateID(c *client, sid nfsv4.Stateid4, variant string) {
	var ls *lockState
	held := false
	predict := func() []nfsv4.Nfsstat4 {
		k, ok := other41(sid)
		if !ok {
			return []nfsv4.Nfsstat4{nfsv4.NFS4ERR_BAD_STATEID}
		}
		x := h.lock41[stateKey41{c, k}]
		if x == nil {
			if h.open41[stateKey41{c, k}] != nil {
				// An open state ID: RFC 8881 18.38.3 wants
				// NFS4ERR_LOCKS_HELD, refusing it as an
				// unknown state ID is as good for this property.
				return []nfsv4.Nfsstat4{nfsv4.NFS4ERR_BAD_STATEID, nfsv4.NFS4ERR_LOCKS_HELD}
			}
			return []nfsv4.Nfsstat4{nfsv4.NFS4ERR_BAD_STATEID}
		}
		if st := cmpSeq41(sid.Seqid, x.sid.Seqid); st != nfsv4.NFS4_OK {
			return []nfsv4.Nfsstat4{st}
		}
		ls = x
		if ls.uncertain {
			return []nfsv4.Nfsstat4{nfsv4.NFS4_OK, nfsv4.NFS4ERR_LOCKS_HELD}
		}
		if ls.locksHeld() {
			held = true
			return []nfsv4.Nfsstat4{nfsv4.NFS4ERR_LOCKS_HELD}
		}
		return []nfsv4.Nfsstat4{nfsv4.NFS4_OK}
	}
	want := predict()
	if held {
		h.sit("free-stateid-with-locks-held")
	}
	if want[0] == nfsv4.NFS4_OK {
		ls.setHeld(0)
	}
	rr := h.send(c, fmt.Sprintf("FREE_STATEID sid=%s (%s)", sidString(sid), variant), fhNone, 0,
		&nfsv4.NfsArgop4_OP_FREE_STATEID{OpfreeStateid: nfsv4.FreeStateid4args{FsaStateid: sid}})
	if rr.ok {
		h.expect(c, "FREE_STATEID", variant, rr.st, want...)
	}
	if !rr.ok || rr.st != nfsv4.NFS4_OK {
		if rr.ok {
			h.noEvents(c, "FREE_STATEID", variant, rr)
		}
		if ls != nil {
			ls.setHeld(ls.access)
		}
		return
	}
	if ls == nil || want[0] != nfsv4.NFS4_OK {
		return
	}
	h.sit("free-stateid")
	h.closed = append(h.closed, closedRef{c: c, sid: ls.sid, leaf: ls.os.leaf, lock: true})
	h.removeLock(ls)
}

// testStateID sends TEST_STATEID (4.1 only) for a few state IDs.
func (h *hist) testStateID(c *client, sids []nfsv4.Stateid4, variant string) {
	want := make([]nfsv4.Nfsstat4, len(sids))
	for i, sid := range sids {
		k, ok := other41(sid)
		switch {
		case !ok:
			want[i] = nfsv4.NFS4ERR_BAD_STATEID
		case h.open41[stateKey41{c, k}] != nil:
			want[i] = cmpSeq41(sid.Seqid, h.open41[stateKey41{c, k}].sid.Seqid)
		case h.lock41[stateKey41{c, k}] != nil:
			want[i] = cmpSeq41(sid.Seqid, h.lock41[stateKey41{c, k}].sid.Seqid)
		default:
			want[i] = nfsv4.NFS4ERR_BAD_STATEID
		}
	}
	rr := h.send(c, fmt.Sprintf("TEST_STATEID n=%d (%s)", len(sids), variant), fhNone, 0,
		&nfsv4.NfsArgop4_OP_TEST_STATEID{OptestStateid: nfsv4.TestStateid4args{TsStateids: sids}})
	if !rr.ok || !h.expect(c, "TEST_STATEID", variant, rr.st, nfsv4.NFS4_OK) {
		return
	}
	h.noEventsAlways(c, "TEST_STATEID", variant, rr)
	r0, _ := findRes[*nfsv4.NfsResop4_OP_TEST_STATEID](rr.res)
	codes := r0.OptestStateid.(*nfsv4.TestStateid4res_NFS4_OK).TsrResok4.TsrStatusCodes
	for i := range want {
		if i >= len(codes) || codes[i] != want[i] {
			got := "missing"
			if i < len(codes) {
				got = stName(codes[i])
			}
			h.w.violation(fmt.Sprintf("unexpected-status op=TEST_STATEID v=4.1 variant=%s want=%s got=%s", variant, stName(want[i]), got),
				fmt.Sprintf("%s TEST_STATEID %s", c, sidString(sids[i])))
		}
	}
}

func (h *hist) noEventsAlways(c *client, op, variant string, rr reqResult) {
	if rr.events != 0 && !h.concurrent {
		h.w.violation(fmt.Sprintf("refused-request-caused-open-or-close op=%s v=4.%d variant=%s status=%s", op, c.ver, variant, stName(rr.st)),
			fmt.Sprintf("%s %s caused %d open/close events", c, op, rr.events))
	}
}

// remove unlinks a file.
func (h *hist) remove(c *client, name string) {
	l := h.w.root.lookupLeaf(name)
	want := []nfsv4.Nfsstat4{nfsv4.NFS4_OK}
	if l == nil {
		want[0] = nfsv4.NFS4ERR_NOENT
	}
	if h.concurrent {
		want = []nfsv4.Nfsstat4{nfsv4.NFS4_OK, nfsv4.NFS4ERR_NOENT}
	}
	rr := h.send(c, fmt.Sprintf("REMOVE %q", name), fhRoot, 0, &nfsv4.NfsArgop4_OP_REMOVE{Opremove: nfsv4.Remove4args{Target: name}})
	if !rr.ok {
		return
	}
	h.expect(c, "REMOVE", "valid", rr.st, want...)
	if rr.st == nfsv4.NFS4_OK && l != nil && !h.concurrent && h.modelOpenCount(l) > 0 {
		h.sit("file-unlinked-while-open")
	}
}

// probe checks that a file handle resolves exactly as long as the
// property demands.
func (h *hist) probe(c *client, l *fakeLeaf) {
	open := h.modelOpenCount(l) > 0
	var want []nfsv4.Nfsstat4
	switch {
	case !l.unlinked.Load():
		want = []nfsv4.Nfsstat4{nfsv4.NFS4_OK}
	case open:
		want = []nfsv4.Nfsstat4{nfsv4.NFS4_OK}
	case h.modelPoolHas(l):
		// Closed by the client, but the 4.0 server may keep the
		// closed state around for a replay of CLOSE.
		want = []nfsv4.Nfsstat4{nfsv4.NFS4_OK, nfsv4.NFS4ERR_STALE}
	default:
		want = []nfsv4.Nfsstat4{nfsv4.NFS4ERR_STALE}
	}
	args := &nfsv4.Compound4args{Tag: "probe", Argarray: []nfsv4.NfsArgop4{
		&nfsv4.NfsArgop4_OP_PUTFH{Opputfh: nfsv4.Putfh4args{Object: l.handle}},
		&nfsv4.NfsArgop4_OP_GETFH{},
	}}
	out := h.w.call("PUTFH probe", args)
	if out.panicked {
		return
	}
	st := out.res.Status
	h.note("probe PUTFH %s unlinked=%v modelOpen=%v -> %s", l, l.unlinked.Load(), open, stName(st))
	variant := "linked"
	if l.unlinked.Load() {
		variant = "unlinked-closed"
		if open {
			variant = "unlinked-open"
			h.sit("unlinked-open-putfh")
		}
	}
	ok := false
	for _, w := range want {
		ok = ok || st == w
	}
	h.hashParts = append(h.hashParts, fmt.Sprintf("probe/%s=%d", variant, st))
	if !ok {
		h.w.violation(fmt.Sprintf("file-handle-resolution variant=%s want=%s got=%s", variant, stNames(want), stName(st)),
			fmt.Sprintf("PUTFH of %s (unlinked=%v, open state IDs in model=%d): %s", l, l.unlinked.Load(), h.modelOpenCount(l), stName(st)))
	}
	if st == nfsv4.NFS4_OK {
		if g, ok := findRes[*nfsv4.NfsResop4_OP_GETFH](out.res); ok {
			if gok, ok := g.Opgetfh.(*nfsv4.Getfh4res_NFS4_OK); ok && !bytes.Equal(gok.Resok4.Object, l.handle) {
				h.w.violation("file-handle-resolution variant=wrong-object", fmt.Sprintf("%s resolved to handle %x", l, gok.Resok4.Object))
			}
		}
	}
}

// lockt sends LOCKT. It creates no state; in NFSv4.0 it takes and
// releases a hold on the client record.
func (h *hist) lockt(c *client, fh fhRef, loKey string, rangeIdx int, write, staleClientID bool) {
	var want []nfsv4.Nfsstat4
	switch {
	case fh.kind == 0:
		want = []nfsv4.Nfsstat4{nfsv4.NFS4ERR_NOFILEHANDLE}
	case fh.kind == 1:
		want = []nfsv4.Nfsstat4{nfsv4.NFS4ERR_ISDIR}
	case c.ver == 0 && (c.cur == nil || staleClientID):
		want = []nfsv4.Nfsstat4{nfsv4.NFS4ERR_STALE_CLIENTID}
	case rangeIsInvalid(rangeIdx):
		want = []nfsv4.Nfsstat4{nfsv4.NFS4ERR_INVAL}
	default:
		want = []nfsv4.Nfsstat4{nfsv4.NFS4_OK, nfsv4.NFS4ERR_DENIED}
	}
	lt := nfsv4.READ_LT
	if write {
		lt = nfsv4.WRITE_LT
	}
	if len(want) == 2 && h.chance(8) {
		lt = nfsv4.NfsLockType4(9)
		want = []nfsv4.Nfsstat4{nfsv4.NFS4ERR_INVAL}
	}
	rg := lockRanges[rangeIdx]
	clientID := c.clientID()
	if staleClientID {
		clientID = h.unconfirmedOrUnknownClientID(c)
	}
	rr := h.send(c, fmt.Sprintf("LOCKT owner=%s fh=%s range=%d write=%v", loKey, fh, rangeIdx, write), fh, 0,
		&nfsv4.NfsArgop4_OP_LOCKT{Oplockt: nfsv4.Lockt4args{
			Locktype: lt, Offset: rg.off, Length: rg.len,
			Owner: nfsv4.LockOwner4{Clientid: clientID, Owner: []byte(loKey)},
		}})
	if !rr.ok {
		return
	}
	h.expect(c, "LOCKT", "valid", rr.st, want...)
	h.noEventsAlways(c, "LOCKT", "valid", rr)
	h.sit("lockt")
}

// unconfirmedOrUnknownClientID returns a client ID that the server
// must not accept for state operations: one of a record that was never
// confirmed, or one that was never issued.
func (h *hist) unconfirmedOrUnknownClientID(c *client) uint64 {
	id := h.rng.Uint64()
	for _, r := range c.regs {
		if r != c.cur && h.chance(70) {
			id = r.clientID
		}
	}
	return id
}

// staleClientID40 sends RENEW and RELEASE_LOCKOWNER with a client ID
// that is not that of a confirmed record.
func (h *hist) staleClientID40(c *client, loKey string) {
	id := h.unconfirmedOrUnknownClientID(c)
	out := h.w.call("RENEW", &nfsv4.Compound4args{Tag: "renew", Argarray: []nfsv4.NfsArgop4{
		&nfsv4.NfsArgop4_OP_RENEW{Oprenew: nfsv4.Renew4args{Clientid: id}},
	}})
	if !out.panicked {
		h.note("%s RENEW clientid=%x (unconfirmed-or-unknown) -> %s", c, id, stName(out.res.Status))
		h.expect(c, "RENEW", "unconfirmed-or-unknown-clientid", out.res.Status, nfsv4.NFS4ERR_STALE_CLIENTID)
	}
	rr := h.send(c, fmt.Sprintf("RELEASE_LOCKOWNER owner=%s clientid=%x (unconfirmed-or-unknown)", loKey, id), fhNone, 0,
		&nfsv4.NfsArgop4_OP_RELEASE_LOCKOWNER{OpreleaseLockowner: nfsv4.ReleaseLockowner4args{
			LockOwner: nfsv4.LockOwner4{Clientid: id, Owner: []byte(loKey)},
		}})
	if rr.ok {
		h.expect(c, "RELEASE_LOCKOWNER", "unconfirmed-or-unknown-clientid", rr.st, nfsv4.NFS4ERR_STALE_CLIENTID)
		h.noEventsAlways(c, "RELEASE_LOCKOWNER", "unconfirmed-or-unknown-clientid", rr)
		h.sit("stale-clientid-refused")
	}
}
