package c18

import (
	"fmt"
	"math/rand/v2"
	"strings"

	"github.com/buildbarn/go-xdr/pkg/protocols/nfsv4"

	"verif/internal/ev"
)

// hist executes one history: a sequence of steps by a few clients
// against one world, keeping the client-side model next to it.
type hist struct {
	w   *world
	r   *ev.Run
	rng *rand.Rand

	clients  []*client
	open40   map[[12]byte]*openState
	closed40 map[[12]byte]*openState
	lock40   map[[12]byte]*lockState
	open41   map[stateKey41]*openState
	lock41   map[stateKey41]*lockState
	inflight []*inflightIO
	closed   []closedRef // state IDs that were closed or freed earlier

	concurrent bool // stress mode: other histories share the world
	namePrefix string
	// lockCountsUncertain is set once a lock-owner locked one file
	// through two open-owners.
	lockCountsUncertain bool
	// allowTrailingFailure is set while a compound is sent whose
	// operations after the deciding one may legitimately fail.
	allowTrailingFailure bool
	// openParked is set while an OPEN is parked inside the directory:
	// the server has records the model only adds once the reply is in.
	openParked bool
	// renewVia lists clients that, when they are to renew their lease
	// during a clock jump, do so with a state-bearing request of their
	// own (READ, LOCKU, OPEN_DOWNGRADE) instead of RENEW / an empty
	// SEQUENCE compound. The function reports whether the request was
	// sent and answered.
	renewVia  map[*client]func() bool
	sits      map[string]int
	hashParts []string
	steps     int
}

type closedRef struct {
	c    *client
	sid  nfsv4.Stateid4
	leaf *fakeLeaf
	lock bool
}

func newHist(w *world, rng *rand.Rand) *hist {
	return &hist{
		w:        w,
		r:        w.r,
		rng:      rng,
		open40:   map[[12]byte]*openState{},
		closed40: map[[12]byte]*openState{},
		lock40:   map[[12]byte]*lockState{},
		open41:   map[stateKey41]*openState{},
		lock41:   map[stateKey41]*lockState{},
		sits:     map[string]int{},
	}
}

func (h *hist) addClient(ver uint32) *client {
	c := &client{
		h:          h,
		idx:        len(h.clients),
		ver:        ver,
		owners:     map[string]*owner{},
		lockOwners: map[string]*lockOwner{},
	}
	c.name = fmt.Sprintf("%sc%d", h.namePrefix, c.idx)
	c.ownerID = []byte("client-" + c.name)
	h.clients = append(h.clients, c)
	return c
}

func (h *hist) sit(name string) {
	h.sits[name]++
	h.r.Situation(name)
}

func (h *hist) note(format string, args ...any) {
	h.w.logf(format, args...)
}

// expect compares the status of the deciding operation with the set
// the model allows.
func (h *hist) expect(c *client, op, variant string, got nfsv4.Nfsstat4, want ...nfsv4.Nfsstat4) bool {
	h.hashParts = append(h.hashParts, fmt.Sprintf("%d%s/%s=%d", c.ver, op, variant, got))
	for _, w := range want {
		if got == w {
			return true
		}
	}
	h.w.violation(
		fmt.Sprintf("unexpected-status op=%s v=4.%d variant=%s want=%s got=%s", op, c.ver, variant, stNames(want), stName(got)),
		fmt.Sprintf("%s %s (%s): the model allows %s, the server answered %s", c, op, variant, stNames(want), stName(got)))
	// Model and server disagree about this request; anything that
	// follows in this history would only repeat that.
	h.w.aborted.Store(true)
	return false
}

// reqResult is what send() learned about one compound.
type reqResult struct {
	res      *nfsv4.Compound4res
	st       nfsv4.Nfsstat4 // status of the deciding (last) operation
	ok       bool           // the deciding operation was reached and answered
	events   int64          // leaf open/close events during the request
	panicked bool
}

// send issues one compound for client c: [SEQUENCE] [PUTFH] ops...
// It verifies that the framing operations behaved as the model says
// and returns the status of the last operation.
func (h *hist) send(c *client, desc string, fh fhRef, slot int, ops ...nfsv4.NfsArgop4) reqResult {
	args := &nfsv4.Compound4args{Tag: desc, Minorversion: c.ver}
	var sess *session
	prefix := 0
	if c.ver == 1 {
		sess = c.liveSession()
		if sess == nil {
			panic("harness bug: 4.1 request without a session: " + desc)
		}
		args.Argarray = append(args.Argarray, &nfsv4.NfsArgop4_OP_SEQUENCE{Opsequence: nfsv4.Sequence4args{
			SaSessionid:     sess.id,
			SaSequenceid:    sess.seq[slot] + 1,
			SaSlotid:        uint32(slot),
			SaHighestSlotid: slotsPerSess - 1,
			SaCachethis:     h.rng.IntN(2) == 0,
		}})
		prefix++
	}
	putfh := opPutFH(fh, nil)
	args.Argarray = append(args.Argarray, putfh...)
	putfhIndex := -1
	if len(putfh) > 0 {
		putfhIndex = prefix
		prefix++
	}
	args.Argarray = append(args.Argarray, ops...)

	// Predicted outcome of PUTFH: unlinked files resolve only
	// through the opened files pool.
	putfhWant := nfsv4.NFS4_OK
	if fh.kind == 2 && fh.leaf.unlinked.Load() && !h.concurrent && !h.modelPoolHas(fh.leaf) {
		putfhWant = nfsv4.NFS4ERR_STALE
	}
	putfhLoose := h.concurrent && fh.kind == 2 && fh.leaf.unlinked.Load()

	before := h.w.events.Load()
	out := h.w.call(desc, args)
	rr := reqResult{res: out.res, events: h.w.events.Load() - before, panicked: out.panicked}
	if out.panicked || out.res == nil {
		h.note("%s %s -> PANIC", c, desc)
		return rr
	}
	res := out.res
	if c.ver == 1 {
		if seq, ok := findRes[*nfsv4.NfsResop4_OP_SEQUENCE](res); ok && seq.Opsequence.GetSrStatus() == nfsv4.NFS4_OK {
			sess.seq[slot]++
		} else {
			st := res.Status
			h.expect(c, "SEQUENCE", "framing", st, nfsv4.NFS4_OK)
			h.note("%s %s -> SEQUENCE %s", c, desc, stName(st))
			return rr
		}
	}
	at := failedAt(res)
	if len(ops) == 0 {
		// Framing only (lease renewal, PUTFH probe).
		rr.st, rr.ok = res.Status, true
		h.note("%s %s -> %s", c, desc, stName(rr.st))
		return rr
	}
	if putfhIndex >= 0 && at == putfhIndex {
		if putfhLoose || (h.concurrent && fh.kind == 2 && fh.leaf.unlinked.Load()) {
			// Another history unlinked the file; whether it still
			// resolves depends on who has it open.
			return rr
		}
		h.expect(c, "PUTFH", "framing", res.Status, putfhWant)
		h.note("%s %s -> PUTFH %s", c, desc, stName(res.Status))
		return rr
	}
	if putfhIndex >= 0 && putfhWant != nfsv4.NFS4_OK {
		h.expect(c, "PUTFH", "framing", nfsv4.NFS4_OK, putfhWant)
	}
	// The first of ops is the deciding operation; anything after it
	// (GETFH) is only evaluated if it succeeded.
	if at == prefix {
		rr.st = res.Status
	} else {
		rr.st = nfsv4.NFS4_OK
		if res.Status != nfsv4.NFS4_OK && !h.allowTrailingFailure {
			h.w.violation("unexpected-status op=GETFH variant=trailing", fmt.Sprintf("%s %s: operation after the deciding one failed with %s", c, desc, stName(res.Status)))
		}
	}
	rr.ok = true
	h.note("%s %s -> %s", c, desc, stName(rr.st))
	return rr
}

// noEvents asserts that a refused state operation did not open or
// close anything.
func (h *hist) noEvents(c *client, op, variant string, rr reqResult) {
	if h.concurrent || rr.events == 0 {
		return
	}
	h.w.violation(
		fmt.Sprintf("refused-request-caused-open-or-close op=%s v=4.%d variant=%s status=%s", op, c.ver, variant, stName(rr.st)),
		fmt.Sprintf("%s %s (%s) was refused with %s but caused %d open/close event(s) on the leaves", c, op, variant, stName(rr.st), rr.events))
}

// ---- registration ----

func (h *hist) newVerifier(c *client) (v nfsv4.Verifier4) {
	c.verCtr++
	v[0] = byte(c.idx)
	v[1] = byte(c.verCtr)
	v[2] = byte(c.verCtr >> 8)
	v[7] = 0x5a
	return v
}

// setClientID sends SETCLIENTID (4.0) or EXCHANGE_ID (4.1). With fresh
// set, a new verifier is used, as a rebooted client would.
func (h *hist) register(c *client, fresh bool) *reg {
	var existing *reg
	var verifier nfsv4.Verifier4
	if !fresh && len(c.regs) > 0 {
		existing = c.regs[h.rng.IntN(len(c.regs))]
		verifier = existing.verifier
	} else {
		verifier = h.newVerifier(c)
	}
	if c.ver == 0 {
		args := &nfsv4.Compound4args{Tag: "setclientid", Argarray: []nfsv4.NfsArgop4{
			&nfsv4.NfsArgop4_OP_SETCLIENTID{Opsetclientid: nfsv4.Setclientid4args{
				Client:   nfsv4.NfsClientId4{Verifier: verifier, Id: c.ownerID},
				Callback: nfsv4.CbClient4{CbProgram: 1, CbLocation: nfsv4.Clientaddr4{NaRNetid: "tcp", NaRAddr: "127.0.0.1.0.1"}},
			}},
		}}
		out := h.w.call("SETCLIENTID", args)
		if out.panicked {
			return nil
		}
		if !h.expect(c, "SETCLIENTID", "valid", out.res.Status, nfsv4.NFS4_OK) {
			return nil
		}
		r0, _ := findRes[*nfsv4.NfsResop4_OP_SETCLIENTID](out.res)
		okres := r0.Opsetclientid.(*nfsv4.Setclientid4res_NFS4_OK)
		h.note("%s SETCLIENTID verifier=%x -> OK clientid=%x", c, verifier[:3], okres.Resok4.Clientid)
		if existing != nil {
			existing.clientID = okres.Resok4.Clientid
			existing.confirm = okres.Resok4.SetclientidConfirm
			return existing
		}
		r := &reg{verifier: verifier, clientID: okres.Resok4.Clientid, confirm: okres.Resok4.SetclientidConfirm}
		c.regs = append(c.regs, r)
		return r
	}
	args := &nfsv4.Compound4args{Tag: "exchange_id", Minorversion: 1, Argarray: []nfsv4.NfsArgop4{
		&nfsv4.NfsArgop4_OP_EXCHANGE_ID{OpexchangeId: nfsv4.ExchangeId4args{
			EiaClientowner:  nfsv4.ClientOwner4{CoVerifier: verifier, CoOwnerid: c.ownerID},
			EiaStateProtect: &nfsv4.StateProtect4A_SP4_NONE{},
		}},
	}}
	out := h.w.call("EXCHANGE_ID", args)
	if out.panicked {
		return nil
	}
	if !h.expect(c, "EXCHANGE_ID", "valid", out.res.Status, nfsv4.NFS4_OK) {
		return nil
	}
	r0, _ := findRes[*nfsv4.NfsResop4_OP_EXCHANGE_ID](out.res)
	okres := r0.OpexchangeId.(*nfsv4.ExchangeId4res_NFS4_OK)
	h.note("%s EXCHANGE_ID verifier=%x -> OK clientid=%x", c, verifier[:3], okres.EirResok4.EirClientid)
	confirmedFlag := okres.EirResok4.EirFlags&nfsv4.EXCHGID4_FLAG_CONFIRMED_R != 0
	if existing != nil {
		if confirmedFlag != (existing == c.cur) {
			h.w.violation("exchange-id-confirmed-flag-wrong", fmt.Sprintf("%s EXCHANGE_ID reports confirmed=%v, model says %v", c, confirmedFlag, existing == c.cur))
		}
		existing.clientID = okres.EirResok4.EirClientid
		if !confirmedFlag {
			existing.nextSeq = okres.EirResok4.EirSequenceid
		}
		return existing
	}
	r := &reg{verifier: verifier, clientID: okres.EirResok4.EirClientid, nextSeq: okres.EirResok4.EirSequenceid}
	c.regs = append(c.regs, r)
	return r
}

func (c *client) hasReg(r *reg) bool {
	for _, x := range c.regs {
		if x == r {
			return true
		}
	}
	return false
}

func (c *client) stateSummary() (opens, locksHeld int) {
	for _, os := range c.allOpens() {
		opens++
		for _, ls := range os.locks {
			if ls.locksHeld() {
				locksHeld++
			}
		}
	}
	return
}

// releaseAllHolds is called before a request that makes the server
// drop all state of the client's confirmed record.
func (c *client) releaseAllHolds() {
	for _, os := range c.allOpens() {
		os.setHeld(0)
		for _, ls := range os.locks {
			ls.setHeld(0)
		}
	}
}

func (c *client) restoreHolds() {
	for _, os := range c.allOpens() {
		os.setHeld(os.wantHeld())
		for _, ls := range os.locks {
			ls.setHeld(ls.access)
		}
	}
}

// confirm sends SETCLIENTID_CONFIRM (4.0) or CREATE_SESSION (4.1) for
// record r.
func (h *hist) confirm(c *client, r *reg, variant string) {
	live := c.hasReg(r)
	replaces := live && r != c.cur && c.cur != nil
	var want nfsv4.Nfsstat4
	switch {
	case !live:
		want = nfsv4.NFS4ERR_STALE_CLIENTID
	case replaces && c.inflight > 0:
		want = nfsv4.NFS4ERR_DELAY
	default:
		want = nfsv4.NFS4_OK
	}
	opens, locksHeld := c.stateSummary()
	if replaces && want == nfsv4.NFS4_OK {
		c.releaseAllHolds()
	}
	var got nfsv4.Nfsstat4
	var sessID nfsv4.Sessionid4
	op := "SETCLIENTID_CONFIRM"
	if c.ver == 0 {
		args := &nfsv4.Compound4args{Tag: "setclientid_confirm", Argarray: []nfsv4.NfsArgop4{
			&nfsv4.NfsArgop4_OP_SETCLIENTID_CONFIRM{OpsetclientidConfirm: nfsv4.SetclientidConfirm4args{
				Clientid: r.clientID, SetclientidConfirm: r.confirm,
			}},
		}}
		out := h.w.call(op, args)
		if out.panicked {
			return
		}
		got = out.res.Status
	} else {
		op = "CREATE_SESSION"
		args := &nfsv4.Compound4args{Tag: "create_session", Minorversion: 1, Argarray: []nfsv4.NfsArgop4{
			&nfsv4.NfsArgop4_OP_CREATE_SESSION{OpcreateSession: nfsv4.CreateSession4args{
				CsaClientid: r.clientID,
				CsaSequence: r.nextSeq,
				CsaForeChanAttrs: nfsv4.ChannelAttrs4{
					CaMaxrequestsize: 1 << 20, CaMaxresponsesize: 1 << 20, CaMaxresponsesizeCached: 1 << 16,
					CaMaxoperations: 100, CaMaxrequests: 64,
				},
			}},
		}}
		out := h.w.call(op, args)
		if out.panicked {
			return
		}
		got = out.res.Status
		if got == nfsv4.NFS4_OK {
			r0, _ := findRes[*nfsv4.NfsResop4_OP_CREATE_SESSION](out.res)
			sessID = r0.OpcreateSession.(*nfsv4.CreateSession4res_NFS4_OK).CsrResok4.CsrSessionid
		}
	}
	h.note("%s %s clientid=%x (%s) -> %s", c, op, r.clientID, variant, stName(got))
	h.expect(c, op, variant, got, want)
	if got != nfsv4.NFS4_OK {
		if replaces && want == nfsv4.NFS4_OK {
			c.restoreHolds()
		}
		if got == nfsv4.NFS4ERR_DELAY && want == nfsv4.NFS4ERR_DELAY {
			h.sit("reregistration-delayed-by-io-in-flight")
		}
		return
	}
	if !live {
		return
	}
	if replaces {
		old := c.cur
		c.dropState()
		c.removeReg(old)
		if opens > 0 {
			h.sit("reregistration-with-opens")
		}
		if locksHeld > 0 {
			h.sit("reregistration-with-locks-held")
		}
	}
	c.cur = r
	if c.ver == 1 {
		r.nextSeq++
		c.sessions = append(c.sessions, &session{id: sessID, seq: make([]uint32, slotsPerSess), busy: make([]bool, slotsPerSess), alive: true})
	}
}

// confirmBogus confirms with a verifier / sequence the server never
// handed out.
func (h *hist) confirmBogus(c *client) {
	if c.ver == 0 {
		args := &nfsv4.Compound4args{Tag: "setclientid_confirm", Argarray: []nfsv4.NfsArgop4{
			&nfsv4.NfsArgop4_OP_SETCLIENTID_CONFIRM{OpsetclientidConfirm: nfsv4.SetclientidConfirm4args{
				Clientid: h.rng.Uint64(), SetclientidConfirm: nfsv4.Verifier4{9, 9, 9},
			}},
		}}
		if out := h.w.call("SETCLIENTID_CONFIRM", args); !out.panicked {
			h.expect(c, "SETCLIENTID_CONFIRM", "unknown-clientid", out.res.Status, nfsv4.NFS4ERR_STALE_CLIENTID)
		}
		return
	}
	args := &nfsv4.Compound4args{Tag: "create_session", Minorversion: 1, Argarray: []nfsv4.NfsArgop4{
		&nfsv4.NfsArgop4_OP_CREATE_SESSION{OpcreateSession: nfsv4.CreateSession4args{CsaClientid: h.rng.Uint64()}},
	}}
	if out := h.w.call("CREATE_SESSION", args); !out.panicked {
		h.expect(c, "CREATE_SESSION", "unknown-clientid", out.res.Status, nfsv4.NFS4ERR_STALE_CLIENTID)
	}
}

func (h *hist) destroySession(c *client, s *session) {
	want := nfsv4.NFS4_OK
	if !s.alive {
		want = nfsv4.NFS4ERR_BADSESSION
	}
	args := &nfsv4.Compound4args{Tag: "destroy_session", Minorversion: 1, Argarray: []nfsv4.NfsArgop4{
		&nfsv4.NfsArgop4_OP_DESTROY_SESSION{OpdestroySession: nfsv4.DestroySession4args{DsaSessionid: s.id}},
	}}
	out := h.w.call("DESTROY_SESSION", args)
	if out.panicked {
		return
	}
	h.note("%s DESTROY_SESSION -> %s", c, stName(out.res.Status))
	if h.expect(c, "DESTROY_SESSION", "valid", out.res.Status, want) && out.res.Status == nfsv4.NFS4_OK {
		s.alive = false
		if opens, _ := c.stateSummary(); opens > 0 {
			h.sit("session-destroyed-with-opens")
		}
	}
}

func (h *hist) destroyClientID(c *client, r *reg) {
	var want nfsv4.Nfsstat4
	switch {
	case !c.hasReg(r):
		want = nfsv4.NFS4ERR_STALE_CLIENTID
	case r == c.cur && (c.inflight > 0 || len(c.owners) > 0 || c.liveSession() != nil):
		want = nfsv4.NFS4ERR_CLIENTID_BUSY
	default:
		want = nfsv4.NFS4_OK
	}
	args := &nfsv4.Compound4args{Tag: "destroy_clientid", Minorversion: 1, Argarray: []nfsv4.NfsArgop4{
		&nfsv4.NfsArgop4_OP_DESTROY_CLIENTID{OpdestroyClientid: nfsv4.DestroyClientid4args{DcaClientid: r.clientID}},
	}}
	out := h.w.call("DESTROY_CLIENTID", args)
	if out.panicked {
		return
	}
	h.note("%s DESTROY_CLIENTID %x -> %s", c, r.clientID, stName(out.res.Status))
	if h.expect(c, "DESTROY_CLIENTID", "valid", out.res.Status, want) && out.res.Status == nfsv4.NFS4_OK {
		if r == c.cur {
			c.dropState()
		}
		c.removeReg(r)
		h.sit("destroy-clientid")
	}
}

// renew keeps the lease of the confirmed record alive.
func (h *hist) renew(c *client) bool {
	if c.ver == 0 {
		want := nfsv4.NFS4_OK
		id := uint64(0x1234)
		if c.cur != nil {
			id = c.cur.clientID
		} else {
			want = nfsv4.NFS4ERR_STALE_CLIENTID
		}
		args := &nfsv4.Compound4args{Tag: "renew", Argarray: []nfsv4.NfsArgop4{
			&nfsv4.NfsArgop4_OP_RENEW{Oprenew: nfsv4.Renew4args{Clientid: id}},
		}}
		out := h.w.call("RENEW", args)
		if out.panicked {
			return false
		}
		h.note("%s RENEW -> %s", c, stName(out.res.Status))
		return h.expect(c, "RENEW", "valid", out.res.Status, want) && out.res.Status == nfsv4.NFS4_OK
	}
	if c.liveSession() == nil {
		return false
	}
	rr := h.send(c, "SEQUENCE(renew)", fhNone, 0)
	return !rr.panicked && rr.res != nil && rr.res.Status == nfsv4.NFS4_OK
}

// poke makes both programs run their lease expiry without being a
// request of any client.
func (h *hist) poke() {
	out := h.w.call("poke40", &nfsv4.Compound4args{Tag: "poke", Argarray: []nfsv4.NfsArgop4{
		&nfsv4.NfsArgop4_OP_RENEW{Oprenew: nfsv4.Renew4args{Clientid: 0xdead0000beef}},
	}})
	if !out.panicked && out.res.Status != nfsv4.NFS4ERR_STALE_CLIENTID {
		h.w.violation("unexpected-status op=RENEW v=4.0 variant=poke", "poke RENEW answered "+stName(out.res.Status))
	}
	out = h.w.call("poke41", &nfsv4.Compound4args{Tag: "poke", Minorversion: 1, Argarray: []nfsv4.NfsArgop4{
		&nfsv4.NfsArgop4_OP_SEQUENCE{Opsequence: nfsv4.Sequence4args{SaSessionid: nfsv4.Sessionid4{0xde, 0xad}, SaSequenceid: 1}},
	}})
	if !out.panicked && out.res.Status != nfsv4.NFS4ERR_BADSESSION {
		h.w.violation("unexpected-status op=SEQUENCE v=4.1 variant=poke", "poke SEQUENCE answered "+stName(out.res.Status))
	}
}

func (h *hist) hash() string {
	return ev.HashOf(strings.Join(h.hashParts, ","))
}
