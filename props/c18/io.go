package c18

import (
	"fmt"

	"github.com/buildbarn/go-xdr/pkg/protocols/nfsv4"
)

const (
	ioRead = iota
	ioWrite
	ioSetattr
	ioSetattrBadAttr // SETATTR of an attribute that cannot be set
	ioSetattrHuge    // SETATTR of a size the file refuses
)

var ioNames = [...]string{"READ", "WRITE", "SETATTR", "SETATTR", "SETATTR"}

// inflightIO is a READ or WRITE that is parked at a gate inside the
// leaf, i.e. after the server validated its state ID.
type inflightIO struct {
	c       *client
	os      *openState // open state whose share reservation was cloned; nil for special state IDs
	leaf    *fakeLeaf
	bit     int
	kind    int
	g       *gate
	done    chan reqResult
	slot    int
	sess    *session
	holds   bool // counted in c.inflight
	variant string
	failIO  bool
}

func (h *hist) ioOp(kind int, sid nfsv4.Stateid4) nfsv4.NfsArgop4 {
	switch kind {
	case ioRead:
		return &nfsv4.NfsArgop4_OP_READ{Opread: nfsv4.Read4args{Stateid: sid, Offset: 0, Count: 16}}
	case ioWrite:
		return &nfsv4.NfsArgop4_OP_WRITE{Opwrite: nfsv4.Write4args{Stateid: sid, Offset: uint64(h.rng.IntN(8)), Stable: nfsv4.FILE_SYNC4, Data: []byte{byte(h.rng.IntN(256)), 1, 2}}}
	case ioSetattrBadAttr:
		return &nfsv4.NfsArgop4_OP_SETATTR{Opsetattr: nfsv4.Setattr4args{Stateid: sid, ObjAttributes: badAttr()}}
	case ioSetattrHuge:
		return &nfsv4.NfsArgop4_OP_SETATTR{Opsetattr: nfsv4.Setattr4args{Stateid: sid, ObjAttributes: sizeAttr(1 << 20)}}
	default:
		return &nfsv4.NfsArgop4_OP_SETATTR{Opsetattr: nfsv4.Setattr4args{Stateid: sid, ObjAttributes: sizeAttr(uint64(h.rng.IntN(32)))}}
	}
}

// predictIO returns the expected status of the state ID / file handle
// checks of READ, WRITE or SETATTR, whether the request opens the file
// itself (special state ID) and the open state it borrows from.
func (h *hist) predictIO(c *client, kind int, sid nfsv4.Stateid4, fh fhRef) (st nfsv4.Nfsstat4, special bool, os *openState) {
	want := accRead
	if kind != ioRead {
		want = accWrite
	}
	if c.ver == 0 {
		sp, st := h.internalize40(sid)
		if st != nfsv4.NFS4_OK {
			return st, false, nil
		}
		special = sp
	} else {
		special = isAnonymous(sid) || isBypass(sid)
	}
	if special {
		switch fh.kind {
		case 0:
			return nfsv4.NFS4ERR_NOFILEHANDLE, true, nil
		case 1:
			if kind >= ioSetattr {
				return nfsv4.NFS4_OK, true, nil
			}
			return nfsv4.NFS4ERR_ISDIR, true, nil
		}
		if kind < ioSetattr && fh.leaf.failOpen.Load() > 0 {
			return nfsv4.NFS4ERR_IO, true, nil
		}
		return nfsv4.NFS4_OK, true, nil
	}
	os, st = h.resolveIO(c, sid, fh, want)
	return st, false, os
}

// io sends READ, WRITE or SETATTR and waits for the reply.
func (h *hist) io(c *client, kind int, sid nfsv4.Stateid4, fh fhRef, variant string) {
	st, special, _ := h.predictIO(c, kind, sid, fh)
	want := []nfsv4.Nfsstat4{st}
	if st == nfsv4.NFS4_OK && kind < ioSetattr && fh.kind == 2 && fh.leaf.failIO.Load() > 0 {
		want[0] = nfsv4.NFS4ERR_IO
		h.sit("io-error-inside-leaf")
	}
	// Failures after the state ID was accepted (and, for a regular
	// state ID, the share reservation was borrowed).
	if st == nfsv4.NFS4_OK && kind == ioSetattrBadAttr {
		want[0] = nfsv4.NFS4ERR_ATTRNOTSUPP
		h.sit("setattr-fails-after-state-id-was-accepted")
	}
	if st == nfsv4.NFS4_OK && kind == ioSetattrHuge && fh.kind == 2 {
		want[0] = nfsv4.NFS4ERR_INVAL
		h.sit("setattr-fails-after-state-id-was-accepted")
	}
	if h.concurrent && fh.kind == 2 && kind < ioSetattr {
		// Injected faults may be consumed by another history.
		want = append(want, nfsv4.NFS4ERR_IO, nfsv4.NFS4_OK)
	}
	rr := h.send(c, fmt.Sprintf("%s sid=%s fh=%s (%s)", ioNames[kind], sidString(sid), fh, variant), fh, 0, h.ioOp(kind, sid))
	if !rr.ok {
		return
	}
	h.expect(c, ioNames[kind], variant, rr.st, want...)
	if rr.st != nfsv4.NFS4_OK && rr.st != nfsv4.NFS4ERR_IO && !special {
		h.noEvents(c, ioNames[kind], variant, rr)
	}
	if rr.st == nfsv4.NFS4_OK {
		switch {
		case special:
			h.sit("io-with-special-state-id")
		case c.ver == 0 && h.lock40[sid.Other] != nil, c.ver == 1 && h.isLock41(c, sid):
			h.sit("io-with-lock-state-id")
		}
	}
}

func (h *hist) isLock41(c *client, sid nfsv4.Stateid4) bool {
	k, ok := other41(sid)
	return ok && h.lock41[stateKey41{c, k}] != nil
}

func (c *client) freeSlot() int {
	s := c.liveSession()
	if s == nil {
		return -1
	}
	for i := 1; i < len(s.busy); i++ {
		if !s.busy[i] {
			return i
		}
	}
	return -1
}

// startGatedIO sends a READ or WRITE that the model expects to pass the
// state ID check, and parks it inside the leaf.
func (h *hist) startGatedIO(c *client, kind int, sid nfsv4.Stateid4, leaf *fakeLeaf, variant string) *inflightIO {
	fh := fhLeaf(leaf)
	st, special, os := h.predictIO(c, kind, sid, fh)
	if st != nfsv4.NFS4_OK || kind >= ioSetattr {
		return nil
	}
	slot := 0
	var sess *session
	if c.ver == 1 {
		slot = c.freeSlot()
		if slot < 0 {
			return nil
		}
		sess = c.liveSession()
		sess.busy[slot] = true
	}
	bit := bitRead
	if kind == ioWrite {
		bit = bitWrite
	}
	io := &inflightIO{c: c, os: os, leaf: leaf, bit: bit, kind: kind, slot: slot, sess: sess, variant: variant, done: make(chan reqResult, 1)}
	io.g = leaf.armGate(bit)
	io.holds = c.ver == 1 || !special
	desc := fmt.Sprintf("%s sid=%s fh=%s (gated, %s)", ioNames[kind], sidString(sid), fh, variant)
	op := h.ioOp(kind, sid)
	// The model is only touched by the driver goroutine: send() is
	// called here, its bookkeeping completes before done is signalled,
	// and the driver does not run other steps until the request is
	// parked at the gate.
	go func() {
		io.done <- h.send(c, desc, fh, slot, op)
	}()
	arrived := make(chan struct{})
	var early *reqResult
	go func() {
		select {
		case <-io.g.arrived:
		case rr := <-io.done:
			early = &rr
		}
		close(arrived)
	}()
	if !h.w.waitOrInconclusive(arrived, "gated I/O reaching the leaf") {
		return nil
	}
	if early != nil {
		// The request came back without reaching VirtualRead/Write.
		leaf.disarmGate(bit, io.g)
		if sess != nil {
			sess.busy[slot] = false
		}
		if early.ok {
			h.expect(c, ioNames[kind], variant+"-gated", early.st, nfsv4.NFS4_OK)
		}
		return nil
	}
	if io.holds {
		c.inflight++
	}
	h.inflight = append(h.inflight, io)
	h.note("%s %s parked at gate", c, desc)
	h.sit("io-parked-in-flight")
	return io
}

// releaseIO lets a parked request finish and checks its reply.
func (h *hist) releaseIO(io *inflightIO) {
	for i, x := range h.inflight {
		if x == io {
			h.inflight = append(h.inflight[:i], h.inflight[i+1:]...)
			break
		}
	}
	want := nfsv4.NFS4_OK
	if io.failIO {
		io.leaf.failIO.Add(1)
	}
	if io.leaf.failIO.Load() > 0 {
		// The fault is consumed by this request when it resumes.
		want = nfsv4.NFS4ERR_IO
		h.sit("io-error-inside-leaf")
	}
	close(io.g.release)
	finished := make(chan struct{})
	var rr reqResult
	go func() {
		rr = <-io.done
		close(finished)
	}()
	if !h.w.waitOrInconclusive(finished, "released I/O returning") {
		return
	}
	if io.holds {
		io.c.inflight--
	}
	if io.sess != nil {
		io.sess.busy[io.slot] = false
	}
	if rr.ok {
		h.expect(io.c, ioNames[io.kind], io.variant+"-released", rr.st, want)
	}
	if io.os != nil && io.os.closed {
		h.sit("io-finished-after-its-state-was-closed")
	}
}

// parkedOpen is an OPEN that is held inside VirtualOpenChild, i.e.
// after the server started the open-owner transaction (4.0) or the
// SEQUENCE (4.1) and took its hold on the client record, and before
// the file is opened.
type parkedOpen struct {
	c    *client
	g    *gate
	done chan *openState
	sess *session
	slot int
}

// startGatedOpen sends a CLAIM_NULL OPEN and parks it. While it is
// parked the model still shows the state before the OPEN; the caller
// must not use that open-owner or that name meanwhile.
func (h *hist) startGatedOpen(c *client, p openParams) *parkedOpen {
	po := &parkedOpen{c: c, done: make(chan *openState, 1)}
	if c.ver == 1 {
		p.slot = c.freeSlot()
		if p.slot < 0 {
			return nil
		}
		po.sess, po.slot = c.liveSession(), p.slot
		po.sess.busy[p.slot] = true
	}
	po.g = h.w.root.armOpenGate()
	go func() { po.done <- h.open(c, p) }()
	arrived := make(chan struct{})
	early := false
	go func() {
		select {
		case <-po.g.arrived:
		case os := <-po.done:
			early = true
			po.done <- os
		}
		close(arrived)
	}()
	if !h.w.waitOrInconclusive(arrived, "gated OPEN reaching the directory") {
		return nil
	}
	if early {
		h.w.root.disarmOpenGate(po.g)
		if po.sess != nil {
			po.sess.busy[po.slot] = false
		}
		return nil
	}
	c.inflight++
	h.openParked = true
	h.note("%s OPEN parked inside VirtualOpenChild", c)
	h.sit("open-parked-in-flight")
	return po
}

func (h *hist) releaseGatedOpen(po *parkedOpen) *openState {
	close(po.g.release)
	finished := make(chan struct{})
	var os *openState
	go func() {
		os = <-po.done
		close(finished)
	}()
	if !h.w.waitOrInconclusive(finished, "released OPEN returning") {
		return nil
	}
	po.c.inflight--
	h.openParked = false
	if po.sess != nil {
		po.sess.busy[po.slot] = false
	}
	return os
}
