package c18

import (
	"fmt"
	"sort"
	"time"

	"github.com/buildbarn/go-xdr/pkg/protocols/nfsv4"
)

// dropOwner forgets a 4.0 open-owner the server removed.
func (h *hist) dropOwner(o *owner) {
	for l, os := range o.opens {
		h.forgetOpen(os)
		delete(o.opens, l)
	}
	h.txStart40(o)
	o.known = false
	delete(o.c.owners, o.key)
}

// expectedBalances computes, from the model alone, how many opens the
// server must currently hold on every leaf per access bit: one per open
// state (open-owner file) for every bit that the open itself, one of
// its lock states or an I/O in flight through it needs, plus one per
// I/O in flight with a special state ID.
func expectedBalances(hs []*hist) map[*fakeLeaf][2]int {
	need := map[*openState]uint32{}
	out := map[*fakeLeaf][2]int{}
	for _, h := range hs {
		for _, c := range h.clients {
			for _, o := range c.owners {
				for _, os := range o.opens {
					m := os.access
					for _, ls := range os.locks {
						m |= ls.access
					}
					need[os] |= m
				}
			}
		}
		for _, io := range h.inflight {
			if io.os == nil {
				b := out[io.leaf]
				b[io.bit]++
				out[io.leaf] = b
			} else {
				need[io.os] |= uint32(1) << io.bit
			}
		}
	}
	for os, m := range need {
		b := out[os.leaf]
		for bit := 0; bit < 2; bit++ {
			if m&(uint32(1)<<bit) != 0 {
				b[bit]++
			}
		}
		out[os.leaf] = b
	}
	return out
}

// checkBalances compares the leaves' open/close balance with the model
// at a quiescent point.
func checkBalances(w *world, hs []*hist, when string) {
	want := expectedBalances(hs)
	for _, l := range w.allLeaves() {
		for b := 0; b < 2; b++ {
			got := l.bal[b].Load()
			exp := int64(want[l][b])
			if got == exp {
				continue
			}
			kind := "opens-outstanding-that-no-state-accounts-for"
			if got < exp {
				kind = "closed-although-state-still-needs-it"
			}
			w.violation(
				fmt.Sprintf("open-close-balance %s bit=%s", kind, bitNames[b]),
				fmt.Sprintf("at %s: %s %s: opens-closes=%d (opens=%d closes=%d), the client models account for %d", when, l, bitNames[b], got, l.opens[b].Load(), l.closes[b].Load(), exp))
		}
	}
	w.r.Count("balance_checks", 1)
}

// expectedCounts lists the hook counts that the model determines
// exactly.
func expectedCounts(hs []*hist) map[string]int {
	e := map[string]int{}
	leaves := map[*fakeLeaf]bool{}
	for _, h := range hs {
		for _, c := range h.clients {
			v := "v40."
			if c.ver == 1 {
				v = "v41."
			}
			if c.ver == 0 {
				e["v40.clientConfirmations"] += len(c.regs)
				e["v40.holdCount"] += c.inflight
				if c.cur != nil {
					e["v40.confirmedClients"]++
				}
			} else {
				e["v41.clientIncarnations"] += len(c.regs)
				e["v41.holdCount"] += c.inflight
				for _, s := range c.sessions {
					if s.alive {
						e["v41.sessions"]++
					}
				}
				if c.cur != nil {
					e["v41.confirmedClients"]++
				}
			}
			for _, o := range c.owners {
				if c.ver == 1 || o.known {
					e[v+"openOwners"]++
				}
				e[v+"openOwnerFiles"] += len(o.opens)
				for l, os := range o.opens {
					leaves[l] = true
					e[v+"lockOwnerFiles"] += len(os.locks)
					for _, ls := range os.locks {
						e[v+"lockCount"] += len(ls.ranges)
					}
				}
				if o.closedPending != nil {
					e[v+"openOwnerFiles"]++
					leaves[o.closedPending.leaf] = true
				}
			}
			for _, lo := range c.lockOwners {
				if len(lo.states) > 0 {
					e[v+"lockOwners"]++
				}
			}
		}
	}
	e["pool.openedFiles"] = len(leaves)
	e["v41.lockOwnersUnregistered"] = 0
	for _, k := range []string{
		"v40.clientConfirmations", "v40.confirmedClients", "v40.holdCount", "v40.openOwners", "v40.openOwnerFiles", "v40.lockOwnerFiles", "v40.lockOwners",
		"v41.clientIncarnations", "v41.confirmedClients", "v41.holdCount", "v41.sessions", "v41.openOwners", "v41.openOwnerFiles", "v41.lockOwnerFiles", "v41.lockOwners",
	} {
		e[k] += 0
	}
	e["v40.lockCount"] += 0
	e["v41.lockCount"] += 0
	for _, h := range hs {
		if h.lockCountsUncertain {
			delete(e, "v40.lockCount")
			delete(e, "v41.lockCount")
		}
	}
	return e
}

// checkCounts compares the state table counts of the real programs
// (taken under their own locks by the verif hook) with the model.
func checkCounts(w *world, hs []*hist, when string) {
	got := w.counts()
	want := expectedCounts(hs)
	keys := make([]string, 0, len(want))
	for k := range want {
		keys = append(keys, k)
	}
	sort.Strings(keys)
	for _, k := range keys {
		if got[k] != want[k] {
			rel := "more"
			if got[k] < want[k] {
				rel = "fewer"
			}
			w.violation(
				fmt.Sprintf("state-records-not-accounted-for key=%s server-has=%s", k, rel),
				fmt.Sprintf("at %s: hook count %s=%d, the client models account for %d (all counts: %v)", when, k, got[k], want[k], got))
		}
	}
}

// jump moves the clock past the lease time in two halves. Clients in
// renewers renew in the middle and survive, as do clients that have a
// request in flight that holds their record; everything else expires
// once the server is poked.
func jump(w *world, hs []*hist, renewers map[*client]bool) {
	half := leaseTime/2 + time.Second
	w.clk.Advance(half, nil)
	w.logf("clock +%s", half)
	renewed := map[*client]bool{}
	for _, h := range hs {
		for _, c := range h.clients {
			if renewers[c] && c.usable() {
				if h.renewOnce(c) {
					renewed[c] = true
				}
			}
		}
	}
	w.clk.Advance(half, nil)
	w.logf("clock +%s", half)

	survives := func(c *client) bool {
		return c.cur != nil && (renewed[c] || c.inflight > 0)
	}
	// Entitlements of expiring clients end now.
	for _, h := range hs {
		for _, c := range h.clients {
			if !survives(c) {
				c.releaseAllHolds()
			} else if c.ver == 0 {
				for _, o := range c.owners {
					if !o.confirmed {
						for _, os := range o.opens {
							os.setHeld(0)
						}
					}
				}
			}
		}
	}
	hs[0].poke()
	for _, h := range hs {
		for _, c := range h.clients {
			if survives(c) {
				// Records that were never confirmed cannot be renewed.
				for _, r := range append([]*reg(nil), c.regs...) {
					if r != c.cur {
						c.removeReg(r)
					}
				}
				if c.inflight > 0 && !renewed[c] {
					h.sit("lease-expiry-blocked-by-io-in-flight")
				}
				if c.ver == 0 {
					for _, o := range c.sortedOwners() {
						if o.known && (len(o.opens) == 0 || !o.confirmed) {
							if len(o.opens) > 0 {
								h.sit("unconfirmed-open-owner-expired-with-open")
							}
							h.sit("unused-open-owner-expired")
							h.dropOwner(o)
						}
					}
				}
				continue
			}
			opens, locksHeld := c.stateSummary()
			if c.cur != nil {
				if opens > 0 {
					h.sit("lease-expiry-with-opens")
				}
				if locksHeld > 0 {
					h.sit("lease-expiry-with-locks-held")
				}
			}
			c.dropState()
			c.regs = nil
			c.cur = nil
		}
	}
	// Survivors renew once more, so that their lease runs from the end
	// of the jump and not from its middle.
	for _, h := range hs {
		for _, c := range h.clients {
			if renewed[c] && c.usable() {
				h.renewOnce(c)
			}
		}
	}
}

// renewOnce renews the lease of c: explicitly (RENEW, or a compound
// that only holds SEQUENCE) or, if the history asked for it, only
// implicitly through a request that uses one of c's state IDs. RFC 7530
// section 9.5 and RFC 8881 section 8.3: such a request renews the lease
// just the same, so the state of c must survive.
func (h *hist) renewOnce(c *client) bool {
	if f := h.renewVia[c]; f != nil {
		return f()
	}
	return h.renew(c)
}

// finalPhase ends a history: release all I/O, optionally close
// everything in an orderly fashion, then let every lease expire and
// demand that nothing at all is left.
func finalPhase(w *world, hs []*hist, orderly bool) {
	for _, h := range hs {
		for len(h.inflight) > 0 {
			h.releaseIO(h.inflight[0])
			if w.aborted.Load() {
				return
			}
		}
	}
	checkBalances(w, hs, "all-io-released")
	if orderly {
		allUsable := true
		for _, h := range hs {
			for _, c := range h.clients {
				if !c.usable() {
					if opens, _ := c.stateSummary(); opens > 0 {
						allUsable = false
					}
					continue
				}
				for _, os := range c.allOpens() {
					if c.ver == 0 && !os.o.confirmed {
						h.openConfirm(c, os.sid, fhLeaf(os.leaf), 0, "valid")
					}
					h.closeState(c, os.sid, fhLeaf(os.leaf), 0, "valid")
					if w.aborted.Load() {
						return
					}
				}
				if c.ver == 1 {
					for _, s := range c.sessions {
						if s.alive {
							h.destroySession(c, s)
						}
					}
					h.destroyClientID(c, c.cur)
				}
			}
		}
		checkBalances(w, hs, "all-closed")
		checkCounts(w, hs, "all-closed")
		if allUsable {
			for _, h := range hs {
				h.sit("final-everything-closed-by-clients")
			}
		}
	}
	jump(w, hs, nil)
	if w.aborted.Load() {
		return
	}
	checkBalances(w, hs, "all-leases-expired")
	got := w.counts()
	for _, k := range recordKeys {
		if got[k] != 0 {
			w.violation(
				fmt.Sprintf("records-retained-after-all-leases-expired key=%s", k),
				fmt.Sprintf("after every lease expired and the server was poked, hook count %s=%d (all counts: %v)", k, got[k], got))
		}
	}
	for _, l := range w.allLeaves() {
		for b := 0; b < 2; b++ {
			if n := l.bal[b].Load(); n != 0 {
				w.violation(
					fmt.Sprintf("opens-outstanding-after-all-leases-expired bit=%s", bitNames[b]),
					fmt.Sprintf("%s %s: opens=%d closes=%d", l, bitNames[b], l.opens[b].Load(), l.closes[b].Load()))
			}
		}
		hs[0].probe(nil, l)
	}
	if n := w.clk.Pending(); n != 0 {
		w.violation("timers-retained-after-all-leases-expired", fmt.Sprintf("%d timers pending on the virtual clock", n))
	}
	hs[0].sit("final-all-leases-expired")
	_ = nfsv4.NFS4_OK
}
