package c18

import (
	"bytes"
	"fmt"

	"github.com/buildbarn/go-xdr/pkg/protocols/nfsv4"
)

func stName(st nfsv4.Nfsstat4) string {
	if n, ok := nfsv4.Nfsstat4_name[st]; ok {
		return n
	}
	return fmt.Sprintf("status(%d)", int32(st))
}

func stNames(sts []nfsv4.Nfsstat4) string {
	var b bytes.Buffer
	for i, st := range sts {
		if i > 0 {
			b.WriteByte('|')
		}
		b.WriteString(stName(st))
	}
	return b.String()
}

func sidString(s nfsv4.Stateid4) string {
	return fmt.Sprintf("%d:%x", s.Seqid, s.Other[:])
}

// lock ranges: identical or disjoint and never adjacent (so that the
// server's per-owner entry count equals the number of ranges held),
// including one that ends at the largest offset.
var lockRanges = [...]struct{ off, len uint64 }{
	{0, 10},
	{20, 10},
	{100, 0xffffffffffffffff},
	// Not valid byte ranges (zero length; end beyond the largest
	// offset): NFS4ERR_INVAL.
	{5, 0},
	{0xfffffffffffffffb, 10},
}

// invalidRange is the index of the first malformed entry of lockRanges.
const invalidRange = 3

func rangeIsInvalid(i int) bool { return i >= invalidRange }

func opPutFH(fh fhRef, rootFH []byte) []nfsv4.NfsArgop4 {
	switch fh.kind {
	case 1:
		return []nfsv4.NfsArgop4{&nfsv4.NfsArgop4_OP_PUTROOTFH{}}
	case 2:
		return []nfsv4.NfsArgop4{&nfsv4.NfsArgop4_OP_PUTFH{Opputfh: nfsv4.Putfh4args{Object: fh.leaf.handle}}}
	}
	return nil
}

func sizeAttr(size uint64) nfsv4.Fattr4 {
	w := bytes.NewBuffer(nil)
	nfsv4.WriteUint64T(w, size)
	return nfsv4.Fattr4{Attrmask: nfsv4.Bitmap4{1 << nfsv4.FATTR4_SIZE}, AttrVals: w.Bytes()}
}

// open request shapes.
const (
	howNoCreate = iota
	howUnchecked
	howUncheckedTruncate
	howGuarded
	howExclusive
	howUncheckedBadAttr
	howGuardedBadAttr
	howExclusive41
	howCount
)

var howNames = [...]string{"nocreate", "unchecked", "unchecked+trunc", "guarded", "exclusive", "unchecked+badattr", "guarded+badattr", "exclusive4_1"}

// badAttr asks to set an attribute that cannot be set.
func badAttr() nfsv4.Fattr4 {
	w := bytes.NewBuffer(nil)
	nfsv4.WriteUint32T(w, 1)
	return nfsv4.Fattr4{Attrmask: nfsv4.Bitmap4{1 << nfsv4.FATTR4_TYPE}, AttrVals: w.Bytes()}
}

const (
	claimNull = iota
	claimPrevious
	claimFH
	claimDelegateCur
	claimDelegatePrev
	claimDelegCurFH
	claimDelegPrevFH
	claimCount
)

var claimNames = [...]string{"CLAIM_NULL", "CLAIM_PREVIOUS", "CLAIM_FH", "CLAIM_DELEGATE_CUR", "CLAIM_DELEGATE_PREV", "CLAIM_DELEG_CUR_FH", "CLAIM_DELEG_PREV_FH"}

func buildOpenhow(how int) nfsv4.Openflag4 {
	switch how {
	case howUnchecked:
		return &nfsv4.Openflag4_OPEN4_CREATE{How: &nfsv4.Createhow4_UNCHECKED4{}}
	case howUncheckedTruncate:
		return &nfsv4.Openflag4_OPEN4_CREATE{How: &nfsv4.Createhow4_UNCHECKED4{Createattrs: sizeAttr(0)}}
	case howGuarded:
		return &nfsv4.Openflag4_OPEN4_CREATE{How: &nfsv4.Createhow4_GUARDED4{}}
	case howExclusive:
		return &nfsv4.Openflag4_OPEN4_CREATE{How: &nfsv4.Createhow4_EXCLUSIVE4{Createverf: nfsv4.Verifier4{1, 2, 3}}}
	case howUncheckedBadAttr:
		return &nfsv4.Openflag4_OPEN4_CREATE{How: &nfsv4.Createhow4_UNCHECKED4{Createattrs: badAttr()}}
	case howGuardedBadAttr:
		return &nfsv4.Openflag4_OPEN4_CREATE{How: &nfsv4.Createhow4_GUARDED4{Createattrs: badAttr()}}
	case howExclusive41:
		return &nfsv4.Openflag4_OPEN4_CREATE{How: &nfsv4.Createhow4_EXCLUSIVE4_1{ChCreateboth: nfsv4.Creatverfattr{CvaVerf: nfsv4.Verifier4{4, 5, 6}}}}
	}
	return &nfsv4.Openflag4_default{Opentype: nfsv4.OPEN4_NOCREATE}
}

var delegTypes = [...]nfsv4.OpenDelegationType4{nfsv4.OPEN_DELEGATE_NONE, nfsv4.OPEN_DELEGATE_READ, nfsv4.OPEN_DELEGATE_WRITE}

var delegNames = [...]string{"none", "read", "write"}

func buildClaim(claim int, name string, delegType int) nfsv4.OpenClaim4 {
	switch claim {
	case claimPrevious:
		return &nfsv4.OpenClaim4_CLAIM_PREVIOUS{DelegateType: delegTypes[delegType]}
	case claimFH:
		return &nfsv4.OpenClaim4_CLAIM_FH{}
	case claimDelegateCur:
		return &nfsv4.OpenClaim4_CLAIM_DELEGATE_CUR{DelegateCurInfo: nfsv4.OpenClaimDelegateCur4{File: name}}
	case claimDelegatePrev:
		return &nfsv4.OpenClaim4_CLAIM_DELEGATE_PREV{FileDelegatePrev: name}
	case claimDelegCurFH:
		return &nfsv4.OpenClaim4_CLAIM_DELEG_CUR_FH{}
	case claimDelegPrevFH:
		return &nfsv4.OpenClaim4_CLAIM_DELEG_PREV_FH{}
	}
	return &nfsv4.OpenClaim4_CLAIM_NULL{File: name}
}

// findRes returns the first result of the given type.
func findRes[T nfsv4.NfsResop4](res *nfsv4.Compound4res) (T, bool) {
	var zero T
	if res == nil {
		return zero, false
	}
	for _, r := range res.Resarray {
		if t, ok := r.(T); ok {
			return t, true
		}
	}
	return zero, false
}

// failedAt returns the index (within the arguments, SEQUENCE included)
// of the operation that produced the compound's final status.
func failedAt(res *nfsv4.Compound4res) int {
	return len(res.Resarray) - 1
}
