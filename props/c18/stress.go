package c18

import (
	"fmt"
	"math/rand/v2"
	"runtime"
	"sync"
	"sync/atomic"

	"github.com/buildbarn/go-xdr/pkg/protocols/nfsv4"

	"verif/internal/ev"
)

// ioTarget is a state ID the racing I/O worker of a client may use.
type ioTarget struct {
	sid  nfsv4.Stateid4
	leaf *fakeLeaf
}

// ioWorker issues READs and WRITEs with the client's state IDs while
// the client's main goroutine opens, closes, downgrades and frees them.
// Its replies are not predicted (they race with the main goroutine);
// the oracle for it is the leaf monitor: no I/O may reach a leaf that
// is not open for that access, and no close may pull a leaf away from
// under an executing I/O.
type ioWorker struct {
	mu      sync.Mutex
	targets []ioTarget
	sessID  nfsv4.Sessionid4
	hasSess bool
	seq     uint32
	stop    atomic.Bool
	calls   int
	okCalls int
}

const workerSlot = slotsPerSess - 1

func (wk *ioWorker) publish(c *client) {
	var ts []ioTarget
	for _, os := range c.allOpens() {
		ts = append(ts, ioTarget{os.sid, os.leaf})
		for _, ls := range os.locks {
			ts = append(ts, ioTarget{ls.sid, os.leaf})
		}
	}
	wk.mu.Lock()
	wk.targets = ts
	if s := c.liveSession(); s != nil {
		wk.sessID, wk.hasSess = s.id, true
	}
	wk.mu.Unlock()
}

func (wk *ioWorker) run(w *world, c *client, rng *rand.Rand) {
	for !wk.stop.Load() {
		wk.mu.Lock()
		var t ioTarget
		ok := len(wk.targets) > 0
		if ok {
			t = wk.targets[rng.IntN(len(wk.targets))]
		}
		sessID, hasSess := wk.sessID, wk.hasSess
		wk.mu.Unlock()
		if !ok || (c.ver == 1 && !hasSess) {
			runtime.Gosched()
			continue
		}
		if c.ver == 1 && rng.IntN(3) == 0 {
			t.sid.Seqid = 0
		}
		args := &nfsv4.Compound4args{Tag: "racing-io", Minorversion: c.ver}
		if c.ver == 1 {
			args.Argarray = append(args.Argarray, &nfsv4.NfsArgop4_OP_SEQUENCE{Opsequence: nfsv4.Sequence4args{
				SaSessionid: sessID, SaSequenceid: wk.seq + 1, SaSlotid: workerSlot, SaHighestSlotid: slotsPerSess - 1,
			}})
		}
		args.Argarray = append(args.Argarray, &nfsv4.NfsArgop4_OP_PUTFH{Opputfh: nfsv4.Putfh4args{Object: t.leaf.handle}})
		if rng.IntN(2) == 0 {
			args.Argarray = append(args.Argarray, &nfsv4.NfsArgop4_OP_READ{Opread: nfsv4.Read4args{Stateid: t.sid, Count: 8}})
		} else {
			args.Argarray = append(args.Argarray, &nfsv4.NfsArgop4_OP_WRITE{Opwrite: nfsv4.Write4args{Stateid: t.sid, Stable: nfsv4.FILE_SYNC4, Data: []byte{1}}})
		}
		out := w.call("racing I/O", args)
		if out.panicked {
			return
		}
		wk.calls++
		if c.ver == 1 {
			if seq, ok := findRes[*nfsv4.NfsResop4_OP_SEQUENCE](out.res); ok && seq.Opsequence.GetSrStatus() == nfsv4.NFS4_OK {
				wk.seq++
			}
		}
		if out.res.Status == nfsv4.NFS4_OK {
			wk.okCalls++
		}
		if rng.IntN(4) == 0 {
			runtime.Gosched()
		}
	}
}

// stressStep is randomStep restricted to what stays predictable while
// other histories run concurrently on the same server.
func (h *hist) stressStep(c *client) {
	h.steps++
	opens := c.allOpens()
	locks := c.allLocks()
	switch x := h.pick(100); {
	case x < 25 || len(opens) == 0:
		h.randomOpen(c)
	case x < 40:
		os := opens[h.pick(len(opens))]
		if c.ver == 0 && !os.o.confirmed {
			h.openConfirm(c, os.sid, fhLeaf(os.leaf), 0, "valid")
			return
		}
		h.closeState(c, os.sid, fhLeaf(os.leaf), 0, "valid")
	case x < 50:
		os := opens[h.pick(len(opens))]
		h.downgrade(c, os.sid, fhLeaf(os.leaf), uint32(1+h.pick(3)), 0, 0, h.validVariant(os))
	case x < 62:
		os := opens[h.pick(len(opens))]
		h.lock(c, lockParams{newOwner: true, openSid: os.sid, loKey: c.lockOwnerKey(h.pick(2)), fh: fhLeaf(os.leaf), rangeIdx: h.pickRange(), write: h.chance(50), variant: h.validVariant(os)})
	case x < 68 && len(locks) > 0:
		ls := locks[h.pick(len(locks))]
		h.unlock(c, ls.sid, fhLeaf(ls.os.leaf), h.pickRange(), 0, "valid")
	case x < 74 && len(locks) > 0:
		ls := locks[h.pick(len(locks))]
		if c.ver == 0 {
			h.releaseLockOwner(c, ls.lo.key, "valid")
		} else {
			h.freeStateID(c, ls.sid, "valid")
		}
	case x < 90:
		h.randomIO(c, opens, locks, false)
	case x < 93:
		h.remove(c, fileNames[3+h.pick(2)])
	default:
		h.hostile(c)
	}
}

// runStress executes one round of truly concurrent clients.
func runStress(r *ev.Run, round int) {
	rng := r.Rand(2, uint64(round))
	w := newWorld(r, "stress", round, rng, true)
	w.root.mu.Lock()
	for _, n := range fileNames[:3] {
		w.root.createLeafLocked(n)
	}
	w.root.mu.Unlock()
	nG := 3 + rng.IntN(5)
	nSteps := 40 + rng.IntN(80)
	procs := []int{2, 4, 16}[round%3]
	orderly := rng.IntN(2) == 0
	r.Case("stress round=%d clients=%d steps_per_client=%d gomaxprocs=%d orderly_end=%v", round, nG, nSteps, procs, orderly)
	prev := runtime.GOMAXPROCS(procs)
	defer runtime.GOMAXPROCS(prev)

	hs := make([]*hist, nG)
	workers := make([]*ioWorker, nG)
	for g := range hs {
		h := newHist(w, r.Rand(2, uint64(round), uint64(g)))
		h.concurrent = true
		h.namePrefix = fmt.Sprintf("g%d", g)
		hs[g] = h
		h.establish(h.addClient(uint32((g + round) % 2)))
		workers[g] = &ioWorker{}
	}
	var wg sync.WaitGroup
	for g, h := range hs {
		c := h.clients[0]
		if !c.usable() {
			continue
		}
		wk := workers[g]
		wrng := r.Rand(3, uint64(round), uint64(g))
		wg.Add(2)
		go func() {
			defer wg.Done()
			wk.run(w, c, wrng)
		}()
		go func() {
			defer wg.Done()
			defer wk.stop.Store(true)
			for i := 0; i < nSteps && !w.aborted.Load(); i++ {
				h.stressStep(c)
				wk.publish(c)
				if h.chance(30) {
					runtime.Gosched()
				}
			}
		}()
	}
	done := make(chan struct{})
	go func() { wg.Wait(); close(done) }()
	if !w.waitOrInconclusive(done, "stress round finishing") {
		return
	}
	racing, racingOK := 0, 0
	for _, wk := range workers {
		racing += wk.calls
		racingOK += wk.okCalls
	}
	r.Count("racing_io_calls", racing)
	r.Count("racing_io_calls_ok", racingOK)
	if racingOK > 0 {
		hs[0].sit("stress-racing-io-honoured")
	}
	if !w.aborted.Load() {
		checkBalances(w, hs, "stress-barrier")
		checkCounts(w, hs, "stress-barrier")
		finalPhase(w, hs, orderly)
	}
	steps := 0
	var parts []any
	nontrivial := false
	for _, h := range hs {
		steps += h.steps
		parts = append(parts, h.hash())
		for name := range h.sits {
			if name != "hostile-state-id" && name != "final-all-leases-expired" {
				nontrivial = true
			}
		}
	}
	r.Hash(ev.HashOf(parts...), nontrivial)
	r.Count("compounds", int(w.compounds.Load()))
	r.Count("leaf_open_close_events", int(w.events.Load()))
	r.Count("leaf_io_calls", int(w.ioCalls.Load()))
	r.Count("steps", steps)
	hs[0].sit("stress-round-completed")
}
