package c18

import (
	"fmt"
	"time"

	"github.com/buildbarn/go-xdr/pkg/protocols/nfsv4"

	"verif/internal/ev"
)

const numScenarios = 16

var scenarioNames = [numScenarios]string{
	"io-across-close", "downgrade-vs-lock-clone", "reregistration", "expiry-with-locks",
	"unlinked-open", "locks-held-on-free", "io-across-reregistration-and-expiry", "io-across-downgrade",
	"unconfirmed-open-owner", "two-versions-one-file", "hostile-battery", "random",
	"reclaim-matrix", "shared-lock-owner", "open-in-flight",
	"silent-clock-advance",
}

// afterStep runs the quiescent-point oracles.
func (h *hist) afterStep(when string) {
	if h.w.aborted.Load() {
		return
	}
	checkBalances(h.w, []*hist{h}, when)
	if !h.openParked {
		checkCounts(h.w, []*hist{h}, when)
	}
}

// runStepped executes one deterministic multi-client history.
func runStepped(r *ev.Run, caseNo int) {
	rng := r.Rand(1, uint64(caseNo))
	w := newWorld(r, "stepped", caseNo, rng, false)
	h := newHist(w, rng)
	w.root.mu.Lock()
	for _, n := range fileNames[:3] {
		w.root.createLeafLocked(n)
	}
	w.root.mu.Unlock()

	scenario := caseNo % numScenarios
	firstVer := uint32((caseNo / numScenarios) % 2)
	nClients := 2 + rng.IntN(2)
	vers := make([]uint32, nClients)
	vers[0] = firstVer
	vers[1] = 1 - firstVer
	if rng.IntN(3) == 0 {
		vers[1] = firstVer
	}
	for i := 2; i < nClients; i++ {
		vers[i] = uint32(rng.IntN(2))
	}
	nRandom := 15 + rng.IntN(60)
	orderly := rng.IntN(2) == 0
	r.Case("stepped case=%d scenario=%s versions=%v random_steps=%d orderly_end=%v", caseNo, scenarioNames[scenario], vers, nRandom, orderly)
	w.logf("scenario=%s versions=%v", scenarioNames[scenario], vers)

	for _, v := range vers {
		h.establish(h.addClient(v))
	}
	h.afterStep("after-registration")

	pre := rng.IntN(6)
	for i := 0; i < pre && !w.aborted.Load(); i++ {
		h.randomStep()
		h.afterStep("random-step")
	}
	if !w.aborted.Load() {
		h.scenario(scenario)
		h.afterStep("scenario")
	}
	for i := 0; i < nRandom && !w.aborted.Load(); i++ {
		h.randomStep()
		h.afterStep("random-step")
	}
	if !w.aborted.Load() {
		finalPhase(w, []*hist{h}, orderly)
	}
	if w.aborted.Load() {
		// Do not leave requests parked at gates behind.
		for _, io := range h.inflight {
			close(io.g.release)
		}
		h.inflight = nil
	}

	nontrivial := false
	for name := range h.sits {
		if name != "hostile-state-id" && name != "final-all-leases-expired" {
			nontrivial = true
		}
	}
	r.Hash(h.hash(), nontrivial)
	r.Count("compounds", int(w.compounds.Load()))
	r.Count("leaf_open_close_events", int(w.events.Load()))
	r.Count("leaf_io_calls", int(w.ioCalls.Load()))
	r.Count("steps", h.steps)
	if r.WantSample() && scenario == 0 {
		t := w.traceCopy()
		if len(t) > 60 {
			t = t[:60]
		}
		r.Sample(map[string]any{"mode": "stepped", "case": caseNo, "scenario": scenarioNames[scenario], "trace": t, "situations": h.sits})
	}
}

// scenario runs a scripted fragment that deterministically reaches one
// of the situations the property is about. The script only uses the
// same actions (and therefore the same oracles) as the random steps.
func (h *hist) scenario(n int) {
	cs := h.usableClients()
	if len(cs) == 0 {
		return
	}
	c := cs[0]
	var other *client
	if len(cs) > 1 {
		other = cs[1]
	}
	step := func() bool {
		h.afterStep("scenario-step")
		return !h.w.aborted.Load()
	}
	name := fileNames[h.pick(3)]
	switch n {
	case 0: // I/O in flight across CLOSE
		os := h.ensureOpen(c, 0, name, accBoth)
		if os == nil || !step() {
			return
		}
		kind := h.pick(2)
		io := h.startGatedIO(c, kind, os.sid, os.leaf, "open-state-id")
		if io == nil || !step() {
			return
		}
		h.closeState(c, os.sid, fhLeaf(os.leaf), 0, "valid")
		if !step() {
			return
		}
		if h.chance(50) {
			h.io(c, kind, os.sid, fhLeaf(os.leaf), "closed-state-id")
			h.sit("hostile-state-id")
			if !step() {
				return
			}
		}
		io.failIO = h.chance(20)
		h.releaseIO(io)
	case 1: // OPEN_DOWNGRADE to read-only while a lock-owner cloned write access
		os := h.ensureOpen(c, 0, name, accBoth)
		if os == nil || !step() {
			return
		}
		ls := h.lock(c, lockParams{newOwner: true, openSid: os.sid, loKey: c.lockOwnerKey(0), fh: fhLeaf(os.leaf), rangeIdx: 0, write: true, variant: "valid"})
		if ls == nil || !step() {
			return
		}
		h.downgrade(c, os.sid, fhLeaf(os.leaf), accRead, 0, 0, "valid")
		if !step() {
			return
		}
		h.io(c, ioWrite, ls.sid, fhLeaf(os.leaf), "lock-state-id")
		h.io(c, ioWrite, os.sid, fhLeaf(os.leaf), "open-state-id-lacking-access")
		if !step() {
			return
		}
		h.unlock(c, ls.sid, fhLeaf(os.leaf), 0, 0, "valid")
		if !step() {
			return
		}
		if c.ver == 0 {
			h.releaseLockOwner(c, ls.lo.key, "valid")
		} else {
			h.freeStateID(c, ls.sid, "valid")
		}
		if !step() {
			return
		}
		h.io(c, ioWrite, ls.sid, fhLeaf(os.leaf), "closed-state-id")
		h.sit("hostile-state-id")
	case 2: // client re-registers while it has files open and locks held
		os := h.ensureOpen(c, 0, name, uint32(1+h.pick(3)))
		if os == nil || !step() {
			return
		}
		if h.chance(70) {
			h.lock(c, lockParams{newOwner: true, openSid: os.sid, loKey: c.lockOwnerKey(0), fh: fhLeaf(os.leaf), rangeIdx: h.pick(3), write: h.chance(50), variant: "valid"})
		}
		old := os.sid
		if r := h.register(c, true); r != nil && step() {
			h.confirm(c, r, "reboot")
			if !step() || !c.usable() {
				return
			}
			h.io(c, ioRead, old, fhLeaf(os.leaf), "state-id-of-previous-registration")
			h.sit("hostile-state-id")
		}
	case 3: // lease expiry with locks held, other clients renew
		os := h.ensureOpen(c, 0, name, accBoth)
		if os == nil || !step() {
			return
		}
		h.lock(c, lockParams{newOwner: true, openSid: os.sid, loKey: c.lockOwnerKey(1), fh: fhLeaf(os.leaf), rangeIdx: h.pick(3), write: true, variant: "valid"})
		if !step() {
			return
		}
		var os2 *openState
		if other != nil {
			os2 = h.ensureOpen(other, 0, name, accRead)
		}
		if os2 != nil && step() {
			h.renewOnlyImplicitly(other, os2, name)
			if !step() {
				return
			}
		}
		c.vanished = true
		h.note("%s vanishes", c)
		h.sit("client-vanished")
		renewers := map[*client]bool{}
		for _, x := range h.clients {
			if x != c {
				renewers[x] = true
			}
		}
		jump(h.w, []*hist{h}, renewers)
		delete(h.renewVia, other)
		if !step() {
			return
		}
		if os2 != nil && !os2.closed {
			h.io(other, ioRead, os2.sid, fhLeaf(os2.leaf), "open-state-id")
			h.sit("renewed-client-survives-expiry-of-another")
		}
	case 4: // open file is unlinked: handle must keep resolving
		os := h.ensureOpen(c, 0, name, accBoth)
		if os == nil || !step() {
			return
		}
		h.remove(c, name)
		if !step() {
			return
		}
		h.probe(c, os.leaf)
		h.io(c, ioWrite, os.sid, fhLeaf(os.leaf), "open-state-id")
		if other != nil {
			h.io(other, ioRead, nfsv4.Stateid4{}, fhLeaf(os.leaf), "anonymous-state-id")
			if os2 := h.open(other, openParams{ownerKey: other.ownerKey(1), fh: fhLeaf(os.leaf), access: accRead, how: howNoCreate, claim: claimFH, variant: "claim"}); os2 != nil {
				h.sit("unlinked-file-opened-by-handle")
			}
		}
		if !step() {
			return
		}
		h.closeState(c, os.sid, fhLeaf(os.leaf), 0, "valid")
		if !step() {
			return
		}
		h.probe(c, os.leaf)
	case 5: // FREE_STATEID / RELEASE_LOCKOWNER while locks are held
		os := h.ensureOpen(c, 0, name, uint32(1+h.pick(3)))
		if os == nil || !step() {
			return
		}
		ri := h.pick(3)
		ls := h.lock(c, lockParams{newOwner: true, openSid: os.sid, loKey: c.lockOwnerKey(0), fh: fhLeaf(os.leaf), rangeIdx: ri, write: h.chance(50), variant: "valid"})
		if ls == nil || !step() {
			return
		}
		// The same lock-owner once more with new_lock_owner = TRUE
		// and every sequence ID in order: 4.0 refuses it (and must
		// not keep anything, not even a hold on the client), 4.1
		// continues the existing lock state.
		h.lock(c, lockParams{newOwner: true, openSid: os.sid, loKey: c.lockOwnerKey(0), fh: fhLeaf(os.leaf), rangeIdx: (ri + 1) % 3, write: h.chance(50), variant: "redundant-new-lock-owner"})
		if !step() {
			return
		}
		if c.ver == 1 {
			h.unlock(c, ls.sid, fhLeaf(os.leaf), (ri+1)%3, 0, "valid")
			if !step() {
				return
			}
		}
		if c.ver == 0 {
			h.releaseLockOwner(c, ls.lo.key, "valid")
		} else {
			h.freeStateID(c, ls.sid, "valid")
		}
		if !step() {
			return
		}
		h.unlock(c, ls.sid, fhLeaf(os.leaf), ri, 0, "valid")
		if !step() {
			return
		}
		if c.ver == 0 {
			h.releaseLockOwner(c, ls.lo.key, "valid")
		} else {
			h.freeStateID(c, ls.sid, "valid")
		}
	case 6: // I/O in flight across re-registration and lease expiry
		os := h.ensureOpen(c, 0, name, accBoth)
		if os == nil || !step() {
			return
		}
		io := h.startGatedIO(c, h.pick(2), os.sid, os.leaf, "open-state-id")
		if io == nil || !step() {
			return
		}
		r := h.register(c, true)
		if r != nil {
			h.confirm(c, r, "reboot")
		}
		if !step() {
			return
		}
		jump(h.w, []*hist{h}, nil)
		if !step() {
			return
		}
		h.sit("io-in-flight-across-lease-expiry")
		h.releaseIO(io)
		if !step() {
			return
		}
		if c.cur != nil && h.chance(50) {
			if r2 := h.register(c, true); r2 != nil {
				h.confirm(c, r2, "reboot")
			}
		}
	case 7: // I/O in flight across OPEN_DOWNGRADE
		os := h.ensureOpen(c, 0, name, accBoth)
		if os == nil || !step() {
			return
		}
		io := h.startGatedIO(c, ioWrite, os.sid, os.leaf, "open-state-id")
		if io == nil || !step() {
			return
		}
		h.downgrade(c, os.sid, fhLeaf(os.leaf), accRead, 0, 0, "valid")
		if !step() {
			return
		}
		h.releaseIO(io)
	case 8: // unconfirmed open-owner (4.0); plain re-open upgrade (4.1)
		os := h.open(c, openParams{ownerKey: c.ownerKey(2), name: name, fh: fhRoot, access: accRead, how: howNoCreate, claim: claimNull, variant: "valid"})
		if os == nil || !step() {
			return
		}
		h.io(c, ioRead, os.sid, fhLeaf(os.leaf), h.validVariant(os))
		if !step() {
			return
		}
		if c.ver == 0 && !os.o.confirmed {
			// OPEN_CONFIRM with an out-of-order sequence ID must not
			// confirm anything.
			h.openConfirm(c, os.sid, fhLeaf(os.leaf), uint32(2+h.pick(3)), "bad-owner-seqid")
			h.sit("open-confirm-refused-for-unconfirmed-open-owner")
			if !step() {
				return
			}
		}
		switch h.pick(3) {
		case 0:
			h.open(c, openParams{ownerKey: c.ownerKey(2), name: fileNames[h.pick(3)], fh: fhRoot, access: accWrite, how: howNoCreate, claim: claimNull, variant: "valid"})
		case 1:
			renewers := map[*client]bool{}
			for _, x := range h.clients {
				renewers[x] = true
			}
			jump(h.w, []*hist{h}, renewers)
		default:
			if c.ver == 0 {
				h.openConfirm(c, os.sid, fhLeaf(os.leaf), 0, "valid")
			}
		}
	case 9: // clients of both minor versions share one file through one pool
		if other == nil {
			return
		}
		a := h.ensureOpen(c, 0, name, accBoth)
		b := h.ensureOpen(other, 0, name, accRead)
		if a == nil || b == nil || !step() {
			return
		}
		if c.ver != other.ver {
			h.sit("file-open-through-both-minor-versions")
		}
		h.remove(other, name)
		if !step() {
			return
		}
		h.closeState(c, a.sid, fhLeaf(a.leaf), 0, "valid")
		if !step() {
			return
		}
		h.probe(other, b.leaf)
		h.io(other, ioRead, b.sid, fhLeaf(b.leaf), "open-state-id")
		if !step() {
			return
		}
		h.closeState(other, b.sid, fhLeaf(b.leaf), 0, "valid")
		if !step() {
			return
		}
		h.probe(other, b.leaf)
	case 10: // a run of hostile requests against live state
		os := h.ensureOpen(c, 0, name, accBoth)
		if os == nil || !step() {
			return
		}
		h.lock(c, lockParams{newOwner: true, openSid: os.sid, loKey: c.lockOwnerKey(0), fh: fhLeaf(os.leaf), rangeIdx: 0, variant: "valid"})
		if other != nil {
			h.ensureOpen(other, 0, fileNames[h.pick(3)], accRead)
		}
		for i := 0; i < 12 && step(); i++ {
			if c.usable() {
				h.hostile(c)
			}
		}
	case 11:
	case 12: // CLAIM_PREVIOUS x delegate type x owner has the file open or not x share access
		os := h.ensureOpen(c, 0, name, uint32(1+h.pick(3)))
		if os == nil || !step() {
			return
		}
		type combo struct{ owner, deleg int }
		combos := []combo{{0, 1}, {0, 2}, {1, 1}, {1, 2}, {1, 0}, {0, 0}}
		h.rng.Shuffle(len(combos), func(i, j int) { combos[i], combos[j] = combos[j], combos[i] })
		for _, cb := range combos {
			if os.closed || !c.usable() {
				return
			}
			// Open-owner 1 must not have the file open.
			if o := c.owners[c.ownerKey(1)]; o != nil {
				if x, ok := o.opens[os.leaf]; ok {
					if c.ver == 0 && !x.o.confirmed {
						h.openConfirm(c, x.sid, fhLeaf(x.leaf), 0, "valid")
					}
					h.closeState(c, x.sid, fhLeaf(x.leaf), 0, "valid")
					if !step() {
						return
					}
				}
			}
			for _, access := range []uint32{accRead, accWrite, accBoth} {
				variant := "claim-with-delegation"
				if cb.deleg == 0 {
					variant = "claim"
				}
				h.open(c, openParams{
					ownerKey: c.ownerKey(cb.owner), fh: fhLeaf(os.leaf), access: access,
					how: []int{howNoCreate, howUnchecked}[h.pick(2)], claim: claimPrevious, delegType: cb.deleg, variant: variant,
				})
				if !step() {
					return
				}
			}
		}
		// A reclaim whose open fails inside the file.
		if !os.closed && c.usable() && h.noFaultsArmed() {
			os.leaf.failOpen.Add(1)
			h.note("armed open fault on %s", os.leaf)
			h.open(c, openParams{ownerKey: c.ownerKey(0), fh: fhLeaf(os.leaf), access: accBoth, how: howNoCreate, claim: claimPrevious, variant: "claim-open-fails"})
			h.sit("reclaim-open-fails-inside-leaf")
			if !step() {
				return
			}
		}
		// The refused reclaims must not have left anything that
		// survives CLOSE.
		if !os.closed {
			h.closeState(c, os.sid, fhLeaf(os.leaf), 0, "valid")
		}
	case 13: // one lock-owner locks one file through two open-owners
		a := h.ensureOpen(c, 0, name, accBoth)
		if a == nil || !step() {
			return
		}
		b := h.ensureOpen(c, 1, name, uint32(1+h.pick(3)))
		if b == nil || b.leaf != a.leaf || !step() {
			return
		}
		la := h.lock(c, lockParams{newOwner: true, openSid: a.sid, loKey: c.lockOwnerKey(0), fh: fhLeaf(a.leaf), rangeIdx: 0, write: h.chance(50), variant: "valid"})
		if la == nil || !step() {
			return
		}
		lb := h.lock(c, lockParams{newOwner: true, openSid: b.sid, loKey: c.lockOwnerKey(0), fh: fhLeaf(b.leaf), rangeIdx: 1, write: h.chance(50), variant: "valid"})
		if lb == nil || !step() {
			return
		}
		if h.chance(50) {
			h.unlock(c, lb.sid, fhLeaf(b.leaf), 0, 0, "valid")
			if !step() {
				return
			}
		}
		// Closing one open may release the lock-owner's locks on the
		// whole file; the other lock state keeps its cloned access.
		h.closeState(c, b.sid, fhLeaf(b.leaf), 0, "valid")
		if !step() {
			return
		}
		h.downgrade(c, a.sid, fhLeaf(a.leaf), accRead, 0, 0, "valid")
		if !step() {
			return
		}
		h.io(c, ioWrite, la.sid, fhLeaf(a.leaf), "lock-state-id")
		if !step() {
			return
		}
		if c.ver == 0 {
			h.releaseLockOwner(c, la.lo.key, "valid")
		} else {
			h.freeStateID(c, la.sid, "valid")
		}
		if !step() {
			return
		}
		h.io(c, ioWrite, la.sid, fhLeaf(a.leaf), "lock-state-id-after-release-attempt")
	case 14: // OPEN in flight: held inside the directory while other requests arrive
		a := h.ensureOpen(c, 0, name, accRead)
		if a == nil || !step() {
			return
		}
		other2 := fileNames[h.pick(3)]
		if h.w.root.lookupLeaf(other2) == a.leaf {
			other2 = "n1"
		}
		po := h.startGatedOpen(c, openParams{ownerKey: c.ownerKey(0), name: other2, fh: fhRoot, access: uint32(1 + h.pick(3)), how: howUnchecked, claim: claimNull, variant: "valid"})
		if po == nil || !step() {
			return
		}
		// NFSv4.0: a second request of the same open-owner has to
		// wait for the transaction. Its sequence ID is out of order
		// whenever it gets to run, so it changes nothing.
		var second chan nfsv4.Nfsstat4
		if c.ver == 0 {
			second = make(chan nfsv4.Nfsstat4, 1)
			args := &nfsv4.Compound4args{Tag: "second", Argarray: []nfsv4.NfsArgop4{
				&nfsv4.NfsArgop4_OP_PUTFH{Opputfh: nfsv4.Putfh4args{Object: a.leaf.handle}},
				&nfsv4.NfsArgop4_OP_CLOSE{Opclose: nfsv4.Close4args{Seqid: a.o.seqid + 7, OpenStateid: a.sid}},
			}}
			w := h.w
			go func() {
				out := w.call("CLOSE behind a parked OPEN", args)
				if out.panicked {
					second <- nfsv4.NFS4ERR_SERVERFAULT
					return
				}
				second <- out.res.Status
			}()
			time.Sleep(2 * time.Millisecond)
		}
		switch h.pick(3) {
		case 0:
			if r := h.register(c, true); r != nil {
				h.confirm(c, r, "reboot")
				h.sit("open-in-flight-across-reregistration")
			}
		case 1:
			jump(h.w, []*hist{h}, nil)
			h.sit("open-in-flight-across-lease-expiry")
		}
		if !step() {
			return
		}
		h.releaseGatedOpen(po)
		if second != nil {
			select {
			case st := <-second:
				h.note("%s CLOSE behind a parked OPEN (bad-owner-seqid) -> %s", c, stName(st))
				h.expect(c, "CLOSE", "queued-behind-open-transaction", st, nfsv4.NFS4ERR_BAD_SEQID)
				h.sit("request-queued-behind-open-owner-transaction")
			case <-time.After(60 * time.Second):
				h.r.Inconclusive("request queued behind a parked OPEN did not return within 60s of its release")
				h.w.aborted.Store(true)
			}
		}
	case 15: // a request is held in flight while the clock passes the lease, with no other traffic
		h.silentClockAdvance(c, other, name)
	}
}

func describeCounts(m map[string]int) string {
	return fmt.Sprint(m)
}

// expireAllExcept applies to the model what the server does once the
// clock is more than a lease past the last contact of everything but
// client keep's confirmed record: all other clients go, as do keep's
// unconfirmed records and (4.0) its unused open-owners.
func (h *hist) expireAllExcept(keep *client) {
	for _, x := range h.clients {
		if x == keep {
			for _, r := range append([]*reg(nil), x.regs...) {
				if r != x.cur {
					x.removeReg(r)
				}
			}
			if x.ver == 0 {
				for _, o := range x.sortedOwners() {
					if o.known && (len(o.opens) == 0 || !o.confirmed) {
						h.dropOwner(o)
					}
				}
			}
			continue
		}
		x.dropState()
		x.regs = nil
		x.cur = nil
	}
}

// releaseHoldsOfAllExcept ends the entitlements that expireAllExcept
// is about to remove; it must run before the request that makes the
// server notice the expiry.
func (h *hist) releaseHoldsOfAllExcept(keep *client) {
	for _, x := range h.clients {
		if x != keep {
			x.releaseAllHolds()
		} else if x.ver == 0 {
			for _, o := range x.owners {
				if !o.confirmed {
					for _, os := range o.opens {
						os.setHeld(0)
					}
				}
			}
		}
	}
}

// renewOnlyImplicitly arranges that during the next clock jump client c
// does not send RENEW (4.0) or a bare SEQUENCE (4.1) but only a request
// that carries one of its state IDs: READ with its open state ID, LOCKU
// with a lock state ID (lock-owner sequencing) or OPEN_DOWNGRADE to the
// access it already has (open-owner sequencing). Each of these paths
// renews the lease on its own in the NFSv4.0 program. The kind is fixed
// by the case number so that every kind is reached for both versions.
func (h *hist) renewOnlyImplicitly(c *client, os *openState, name string) {
	kind := (h.w.caseNo / (2 * numScenarios)) % 3
	var ls *lockState
	if kind == 1 {
		// A lock state of c's own, on a file nobody else locks in
		// this fragment.
		name2 := fileNames[0]
		if name2 == name {
			name2 = fileNames[1]
		}
		if os3 := h.ensureOpen(c, 1, name2, accBoth); os3 != nil {
			ls = h.lock(c, lockParams{newOwner: true, openSid: os3.sid, loKey: c.lockOwnerKey(1), fh: fhLeaf(os3.leaf), rangeIdx: 0, write: true, variant: "valid"})
		}
		if ls == nil {
			kind = 0
		}
	}
	ver := fmt.Sprintf(" v=4.%d", c.ver)
	if h.renewVia == nil {
		h.renewVia = map[*client]func() bool{}
	}
	h.renewVia[c] = func() bool {
		if h.w.aborted.Load() {
			return false
		}
		switch {
		case kind == 1 && !ls.os.closed && ls.os.locks[ls.lo] == ls:
			h.unlock(c, ls.sid, fhLeaf(ls.os.leaf), 1, 0, "valid")
			h.sit("lease-renewed-only-by:LOCKU" + ver)
		case kind == 2 && !os.closed && (c.ver == 1 || os.o.confirmed):
			h.downgrade(c, os.sid, fhLeaf(os.leaf), os.access, 0, 0, "valid")
			h.sit("lease-renewed-only-by:OPEN_DOWNGRADE" + ver)
		case !os.closed && (c.ver == 1 || os.o.confirmed):
			h.io(c, ioRead, os.sid, fhLeaf(os.leaf), "open-state-id")
			h.sit("lease-renewed-only-by:READ" + ver)
		default:
			return h.renew(c)
		}
		h.sit("lease-renewed-only-by-state-bearing-request" + ver)
		return !h.w.aborted.Load()
	}
}

// silentClockAdvance: client c has a request in flight (held at a gate
// inside the file system) while the clock advances by about a lease or
// more and nobody else talks to the server. The client was in contact
// the whole time, so its lease runs from the completion of that
// request: it must still be alive, with all of its state, when it sends
// its next request less than a lease later.
func (h *hist) silentClockAdvance(c, other *client, name string) {
	w := h.w
	step := func() bool {
		h.afterStep("scenario-step")
		return !w.aborted.Load()
	}
	for len(h.inflight) > 0 {
		h.releaseIO(h.inflight[0])
	}
	if !c.usable() || c.inflight != 0 || !step() {
		return
	}
	os := h.ensureOpen(c, 0, name, accBoth)
	if os == nil || !step() {
		return
	}
	var os2 *openState
	if other != nil && other.usable() {
		os2 = h.ensureOpen(other, 0, name, accRead)
	}
	// Park a request of c.
	var io *inflightIO
	var po *parkedOpen
	if h.chance(65) {
		io = h.startGatedIO(c, h.pick(2), os.sid, os.leaf, "open-state-id")
		if io == nil {
			return
		}
	} else {
		other2 := "n0"
		po = h.startGatedOpen(c, openParams{ownerKey: c.ownerKey(0), name: other2, fh: fhRoot, access: uint32(1 + h.pick(3)), how: howUnchecked, claim: claimNull, variant: "valid"})
		if po == nil {
			return
		}
	}
	if !step() {
		return
	}
	// The clock moves; nobody talks to the server.
	first := []time.Duration{leaseTime - 5*time.Second, leaseTime, leaseTime + 5*time.Second, 3 * leaseTime}[h.pick(4)]
	second := []time.Duration{30 * time.Second, 60 * time.Second, leaseTime - time.Second}[h.pick(3)]
	w.clk.Advance(first, nil)
	w.logf("clock +%s (no request)", first)
	pastLease := first > leaseTime
	if pastLease {
		// Completing the held request makes the server look at
		// the clock: everybody else has been silent for too long.
		h.releaseHoldsOfAllExcept(c)
	}
	if io != nil {
		h.releaseIO(io)
	} else {
		h.releaseGatedOpen(po)
	}
	if w.aborted.Load() {
		return
	}
	h.poke()
	if pastLease {
		h.expireAllExcept(c)
		h.sit("request-in-flight-longer-than-the-lease")
	} else {
		h.sit("request-in-flight-for-up-to-the-lease")
	}
	if !step() {
		return
	}
	// Less than a lease after the held request completed: c is alive.
	w.clk.Advance(second, nil)
	w.logf("clock +%s (no request)", second)
	if !pastLease {
		h.releaseHoldsOfAllExcept(c)
	}
	if !c.usable() || os.closed {
		return
	}
	h.io(c, ioRead, os.sid, fhLeaf(os.leaf), "open-state-id-after-long-request")
	if w.aborted.Load() {
		return
	}
	h.poke()
	if !pastLease {
		// first+second is more than a lease: everybody else, whose
		// last contact predates the first advance, is gone now.
		h.expireAllExcept(c)
	}
	h.sit("client-alive-after-request-held-across-clock-advance")
	if !step() {
		return
	}
	h.io(c, ioWrite, os.sid, fhLeaf(os.leaf), "open-state-id-after-long-request")
	if !step() {
		return
	}
	// Another client comes (back) and finds a working server.
	if other != nil && !other.vanished {
		if os2 != nil && !os2.closed {
			return
		}
		h.establish(other)
		if other.usable() {
			h.ensureOpen(other, 1, name, accRead)
		}
	}
}
