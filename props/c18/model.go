package c18

import (
	"encoding/binary"
	"fmt"

	"github.com/buildbarn/go-xdr/pkg/protocols/nfsv4"
)

// The client-side protocol model. It is a reference for what a
// protocol-conforming client knows: which registrations, sessions,
// owners and state IDs it was issued, and which file and access each
// state ID entitles to. It follows the server's replies for everything
// the property leaves open (lock conflicts, which state ID value is
// handed out) and predicts the status of every request that carries a
// state ID.

const (
	accRead  uint32 = 1
	accWrite uint32 = 2
	accBoth  uint32 = 3
)

func accName(a uint32) string {
	return [...]string{"-", "R", "W", "RW"}[a&3]
}

// reg is one client record on the server: SETCLIENTID confirmation
// (4.0) or EXCHANGE_ID incarnation (4.1).
type reg struct {
	verifier nfsv4.Verifier4
	clientID uint64
	confirm  nfsv4.Verifier4 // 4.0
	nextSeq  uint32          // 4.1: csa_sequence of the next CREATE_SESSION
}

type session struct {
	id    nfsv4.Sessionid4
	seq   []uint32
	busy  []bool
	alive bool
}

type owner struct {
	c   *client
	key string
	// NFSv4.0 only.
	known         bool   // the server has a record of this open-owner
	confirmed     bool   // OPEN_CONFIRM was done
	seqid         uint32 // last sequence ID the server accepted
	closedPending *openState
	opens         map[*fakeLeaf]*openState
}

type openState struct {
	o      *owner
	leaf   *fakeLeaf
	sid    nfsv4.Stateid4
	access uint32
	closed bool
	locks  map[*lockOwner]*lockState
	held   uint32 // bits currently counted in leaf.holds
}

type lockOwner struct {
	c   *client
	key string
	// NFSv4.0 only.
	known  bool
	seqid  uint32
	states map[*openState]*lockState
}

// statesOn counts the lock states the lock-owner has on one file. More
// than one means it locks the file through several open-owners; which
// of the lock states then accounts for a byte range is not something a
// client can know, so predictions that depend on it are relaxed.
func (lo *lockOwner) statesOn(l *fakeLeaf) (n int) {
	for os := range lo.states {
		if os.leaf == l {
			n++
		}
	}
	return n
}

type lockState struct {
	lo     *lockOwner
	os     *openState
	sid    nfsv4.Stateid4
	access uint32
	ranges map[int]bool // indices into lockRanges that are held
	held   uint32
	// uncertain is set once the lock-owner had a second lock state on
	// the same file: the ranges may have been locked or unlocked
	// through the other one.
	uncertain bool
}

func (ls *lockState) locksHeld() bool { return len(ls.ranges) > 0 }

type client struct {
	h       *hist
	idx     int
	ver     uint32
	name    string
	ownerID []byte
	verCtr  int

	regs     []*reg
	cur      *reg
	vanished bool
	inflight int // compounds that currently hold the client record on the server

	owners     map[string]*owner
	lockOwners map[string]*lockOwner
	sessions   []*session
	ownerCtr   int
}

func (c *client) String() string { return fmt.Sprintf("%s/v4.%d", c.name, c.ver) }

// dropState forgets everything that hangs off the confirmed record.
func (c *client) dropState() {
	for _, o := range c.owners {
		for _, os := range o.opens {
			c.h.forgetOpen(os)
		}
		c.h.txStart40(o)
		o.known = false
	}
	c.owners = map[string]*owner{}
	c.lockOwners = map[string]*lockOwner{}
	for _, s := range c.sessions {
		s.alive = false
	}
	c.sessions = nil
}

func (c *client) removeReg(r *reg) {
	for i, x := range c.regs {
		if x == r {
			c.regs = append(c.regs[:i], c.regs[i+1:]...)
			break
		}
	}
	if c.cur == r {
		c.cur = nil
	}
}

func (c *client) liveSession() *session {
	for _, s := range c.sessions {
		if s.alive {
			return s
		}
	}
	return nil
}

// usable tells whether the client can currently send state operations.
func (c *client) usable() bool {
	if c.vanished || c.cur == nil {
		return false
	}
	if c.ver == 1 {
		return c.liveSession() != nil
	}
	return true
}

func (c *client) allOpens() (out []*openState) {
	for _, o := range c.sortedOwners() {
		for _, l := range c.h.w.allLeaves() {
			if os, ok := o.opens[l]; ok {
				out = append(out, os)
			}
		}
	}
	return out
}

func (c *client) sortedOwners() (out []*owner) {
	for i := 0; i < c.ownerCtr+8; i++ {
		if o, ok := c.owners[fmt.Sprintf("%s-oo%d", c.name, i)]; ok {
			out = append(out, o)
		}
	}
	return out
}

func (c *client) sortedLockOwners() (out []*lockOwner) {
	for i := 0; i < 4; i++ {
		if lo, ok := c.lockOwners[fmt.Sprintf("%s-lo%d", c.name, i)]; ok {
			out = append(out, lo)
		}
	}
	return out
}

func (c *client) allLocks() (out []*lockState) {
	for _, os := range c.allOpens() {
		for _, lo := range c.sortedLockOwners() {
			if ls, ok := os.locks[lo]; ok {
				out = append(out, ls)
			}
		}
	}
	return out
}

// setHeld adjusts the "issued, still valid state ID entitles to this
// access" counters of the leaf. Decrements are applied before a
// releasing request is sent, increments after the granting reply was
// received, so the counter is a lower bound at all times.
func (os *openState) setHeld(mask uint32) {
	adjustHolds(os.leaf, &os.held, mask)
}

func (ls *lockState) setHeld(mask uint32) {
	adjustHolds(ls.os.leaf, &ls.held, mask)
}

func adjustHolds(l *fakeLeaf, cur *uint32, mask uint32) {
	for b := 0; b < 2; b++ {
		bit := uint32(1) << b
		switch {
		case *cur&bit != 0 && mask&bit == 0:
			l.holds[b].Add(-1)
		case *cur&bit == 0 && mask&bit != 0:
			l.holds[b].Add(1)
		}
	}
	*cur = mask
}

// wantHeld is the entitlement a live open state gives: none while the
// NFSv4.0 open-owner is unconfirmed (the state ID is not usable yet).
func (os *openState) wantHeld() uint32 {
	if os.closed {
		return 0
	}
	if os.o.c.ver == 0 && !os.o.confirmed {
		return 0
	}
	return os.access
}

// fhRef is the current file handle of a request.
type fhRef struct {
	kind int // 0 none, 1 root, 2 leaf
	leaf *fakeLeaf
}

var (
	fhNone = fhRef{}
	fhRoot = fhRef{kind: 1}
)

func fhLeaf(l *fakeLeaf) fhRef { return fhRef{kind: 2, leaf: l} }

func (f fhRef) String() string {
	switch f.kind {
	case 0:
		return "nofh"
	case 1:
		return "root"
	default:
		return f.leaf.String()
	}
}

func isAnonymous(s nfsv4.Stateid4) bool { return s == nfsv4.Stateid4{} }

func isBypass(s nfsv4.Stateid4) bool {
	if s.Seqid != 0xffffffff {
		return false
	}
	for _, b := range s.Other {
		if b != 0xff {
			return false
		}
	}
	return true
}

func otherAllZero(s nfsv4.Stateid4) bool { return s.Other == [12]byte{} }

func otherAllOnes(s nfsv4.Stateid4) bool {
	for _, b := range s.Other {
		if b != 0xff {
			return false
		}
	}
	return true
}

func cmpSeq(client, server uint32) nfsv4.Nfsstat4 {
	if client == server {
		return nfsv4.NFS4_OK
	}
	if int32(client-server) > 0 {
		return nfsv4.NFS4ERR_BAD_STATEID
	}
	return nfsv4.NFS4ERR_OLD_STATEID
}

// ---- NFSv4.0 resolution (state IDs are global to the server) ----

// internalize40 mirrors the classification of a state ID: special,
// from another server instance, or regular.
func (h *hist) internalize40(s nfsv4.Stateid4) (special bool, st nfsv4.Nfsstat4) {
	if otherAllZero(s) {
		if s.Seqid != 0 {
			return false, nfsv4.NFS4ERR_BAD_STATEID
		}
		return true, nfsv4.NFS4_OK
	}
	if otherAllOnes(s) {
		if s.Seqid != 0xffffffff {
			return false, nfsv4.NFS4ERR_BAD_STATEID
		}
		return true, nfsv4.NFS4_OK
	}
	var p [4]byte
	copy(p[:], s.Other[:4])
	if p != h.w.prefix {
		return false, nfsv4.NFS4ERR_STALE_STATEID
	}
	return false, nfsv4.NFS4_OK
}

// internalizeRegular40 additionally refuses special state IDs.
func (h *hist) internalizeRegular40(s nfsv4.Stateid4) nfsv4.Nfsstat4 {
	special, st := h.internalize40(s)
	if st != nfsv4.NFS4_OK {
		return st
	}
	if special {
		return nfsv4.NFS4ERR_BAD_STATEID
	}
	return nfsv4.NFS4_OK
}

func (h *hist) resolveOpen40(s nfsv4.Stateid4, fh fhRef, allowUnconfirmed bool) (*openState, nfsv4.Nfsstat4) {
	os := h.open40[s.Other]
	if os == nil {
		return nil, nfsv4.NFS4ERR_BAD_STATEID
	}
	if fh.kind == 0 {
		return nil, nfsv4.NFS4ERR_NOFILEHANDLE
	}
	if os.closed {
		return nil, nfsv4.NFS4ERR_BAD_STATEID
	}
	if fh.kind != 2 || fh.leaf != os.leaf {
		return nil, nfsv4.NFS4ERR_BAD_STATEID
	}
	if !os.o.confirmed && !allowUnconfirmed {
		return nil, nfsv4.NFS4ERR_BAD_STATEID
	}
	if st := cmpSeq(s.Seqid, os.sid.Seqid); st != nfsv4.NFS4_OK {
		return nil, st
	}
	return os, nfsv4.NFS4_OK
}

func (h *hist) resolveLock40(s nfsv4.Stateid4, fh fhRef) (*lockState, nfsv4.Nfsstat4) {
	ls := h.lock40[s.Other]
	if ls == nil {
		return nil, nfsv4.NFS4ERR_BAD_STATEID
	}
	if fh.kind == 0 {
		return nil, nfsv4.NFS4ERR_NOFILEHANDLE
	}
	if fh.kind != 2 || fh.leaf != ls.os.leaf {
		return nil, nfsv4.NFS4ERR_BAD_STATEID
	}
	if st := cmpSeq(s.Seqid, ls.sid.Seqid); st != nfsv4.NFS4_OK {
		return nil, st
	}
	return ls, nfsv4.NFS4_OK
}

// ---- NFSv4.1 resolution (state IDs are scoped to the client) ----

func other41(s nfsv4.Stateid4) (uint64, bool) {
	if s.Other[8] != 0 || s.Other[9] != 0 || s.Other[10] != 0 || s.Other[11] != 0 {
		return 0, false
	}
	return binary.LittleEndian.Uint64(s.Other[:8]), true
}

func cmpSeq41(client, server uint32) nfsv4.Nfsstat4 {
	if client == 0 {
		return nfsv4.NFS4_OK
	}
	return cmpSeq(client, server)
}

var currentStateID = nfsv4.Stateid4{Seqid: 1}

func (h *hist) resolveOpen41(c *client, s nfsv4.Stateid4, fh fhRef) (*openState, nfsv4.Nfsstat4) {
	if fh.kind == 0 {
		return nil, nfsv4.NFS4ERR_NOFILEHANDLE
	}
	if s == currentStateID {
		// No operation in the compounds this harness sends sets
		// the current state ID before it is used this way.
		return nil, nfsv4.NFS4ERR_BAD_STATEID
	}
	o, ok := other41(s)
	if !ok {
		return nil, nfsv4.NFS4ERR_BAD_STATEID
	}
	os := h.open41[stateKey41{c, o}]
	if os == nil || os.closed {
		return nil, nfsv4.NFS4ERR_BAD_STATEID
	}
	if fh.kind != 2 || fh.leaf != os.leaf {
		return nil, nfsv4.NFS4ERR_BAD_STATEID
	}
	if st := cmpSeq41(s.Seqid, os.sid.Seqid); st != nfsv4.NFS4_OK {
		return nil, st
	}
	return os, nfsv4.NFS4_OK
}

func (h *hist) resolveLock41(c *client, s nfsv4.Stateid4, fh fhRef) (*lockState, nfsv4.Nfsstat4) {
	if fh.kind == 0 {
		return nil, nfsv4.NFS4ERR_NOFILEHANDLE
	}
	if s == currentStateID {
		return nil, nfsv4.NFS4ERR_BAD_STATEID
	}
	o, ok := other41(s)
	if !ok {
		return nil, nfsv4.NFS4ERR_BAD_STATEID
	}
	ls := h.lock41[stateKey41{c, o}]
	if ls == nil {
		return nil, nfsv4.NFS4ERR_BAD_STATEID
	}
	if fh.kind != 2 || fh.leaf != ls.os.leaf {
		return nil, nfsv4.NFS4ERR_BAD_STATEID
	}
	if st := cmpSeq41(s.Seqid, ls.sid.Seqid); st != nfsv4.NFS4_OK {
		return nil, st
	}
	return ls, nfsv4.NFS4_OK
}

type stateKey41 struct {
	c     *client
	other uint64
}

// resolveIO predicts the outcome of the state ID check that READ,
// WRITE and SETATTR perform for a regular (non-special) state ID, for
// access bit mask want. It returns the open state whose share
// reservation is cloned for the duration of the I/O.
func (h *hist) resolveIO(c *client, s nfsv4.Stateid4, fh fhRef, want uint32) (*openState, nfsv4.Nfsstat4) {
	var os *openState
	var ls *lockState
	var st nfsv4.Nfsstat4
	if c.ver == 0 {
		os, st = h.resolveOpen40(s, fh, false)
	} else {
		os, st = h.resolveOpen41(c, s, fh)
	}
	switch st {
	case nfsv4.NFS4_OK:
		if want&^os.access != 0 {
			return nil, nfsv4.NFS4ERR_OPENMODE
		}
		return os, nfsv4.NFS4_OK
	case nfsv4.NFS4ERR_BAD_STATEID:
		if c.ver == 0 {
			ls, st = h.resolveLock40(s, fh)
		} else {
			ls, st = h.resolveLock41(c, s, fh)
		}
		if st != nfsv4.NFS4_OK {
			return nil, st
		}
		if want&^ls.access != 0 {
			return nil, nfsv4.NFS4ERR_OPENMODE
		}
		return ls.os, nfsv4.NFS4_OK
	default:
		return nil, st
	}
}

// seqidAdvances mirrors RFC 7530 section 9.1.7: the owner's sequence
// ID advances for every reply except these errors.
func seqidAdvances(st nfsv4.Nfsstat4) bool {
	switch st {
	case nfsv4.NFS4ERR_STALE_CLIENTID, nfsv4.NFS4ERR_STALE_STATEID, nfsv4.NFS4ERR_BAD_STATEID,
		nfsv4.NFS4ERR_BAD_SEQID, nfsv4.NFS4ERR_BADXDR, nfsv4.NFS4ERR_RESOURCE,
		nfsv4.NFS4ERR_NOFILEHANDLE, nfsv4.NFS4ERR_MOVED:
		return false
	}
	return true
}

// forgetOpen removes an open state and its lock states from the
// lookup tables and releases their entitlement counters.
func (h *hist) forgetOpen(os *openState) {
	for lo, ls := range os.locks {
		h.forgetLock(ls)
		delete(lo.states, os)
		if len(lo.states) == 0 {
			lo.known = false
			delete(lo.c.lockOwners, lo.key)
		}
	}
	os.locks = map[*lockOwner]*lockState{}
	os.setHeld(0)
	os.closed = true
	os.access = 0
	c := os.o.c
	if c.ver == 0 {
		delete(h.open40, os.sid.Other)
	} else if o, ok := other41(os.sid); ok {
		delete(h.open41, stateKey41{c, o})
	}
}

func (h *hist) forgetLock(ls *lockState) {
	ls.setHeld(0)
	c := ls.lo.c
	if c.ver == 0 {
		delete(h.lock40, ls.sid.Other)
	} else if o, ok := other41(ls.sid); ok {
		delete(h.lock41, stateKey41{c, o})
	}
}

// removeLock removes one lock state (FREE_STATEID, RELEASE_LOCKOWNER,
// failed initial LOCK).
func (h *hist) removeLock(ls *lockState) {
	h.forgetLock(ls)
	delete(ls.os.locks, ls.lo)
	delete(ls.lo.states, ls.os)
	if len(ls.lo.states) == 0 {
		ls.lo.known = false
		delete(ls.lo.c.lockOwners, ls.lo.key)
	}
}
