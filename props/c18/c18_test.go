// Package c18 monitors property C18: NFSv4 open and lock state is
// accounted for and fully reclaimed.
//
// Both NFSv4 programs (behind the minor version fallback program, over
// one shared OpenedFilesPool, the real NFS handle allocator and a fake
// directory whose regular files are instrumented) are driven in-process
// through NfsV4Nfsproc4Compound by a client-side protocol model.
// See DESIGN.md section 4, "C18".
package c18

import (
	"encoding/json"
	"os"
	"testing"

	"verif/internal/ev"
)

func TestCheck(t *testing.T) {
	r := ev.Start("C18")
	defer r.Finish()
	r.SetRule("stepped: case i = scripted fragment (i mod 16: I/O across CLOSE, downgrade vs. lock clone, re-registration, expiry with locks, unlinked open file, FREE_STATEID/RELEASE_LOCKOWNER with locks held, I/O across re-registration+expiry, I/O across downgrade, unconfirmed open-owner, both minor versions on one file, hostile state IDs, none, CLAIM_PREVIOUS x delegate type x owner-has-file-open x share access, one lock-owner through two open-owners of one file, OPEN parked inside the directory, request held in flight while the clock passes the lease without other traffic; in the expiry fragment the surviving client renews its lease only through READ, LOCKU or OPEN_DOWNGRADE with its own state IDs) for a client of minor version (i div 16) mod 2, surrounded by 15-80 PRNG-chosen steps of 2-3 clients, ended by orderly close or not, then expiry of every lease; stress: 3-7 concurrent clients each with a racing I/O worker. A case is non-trivial if it hit at least one named situation other than a refused hostile state ID; distinct = distinct sequences of (operation, variant, status).")
	r.Assume("the fake directory and its instrumented regular files stand in for the virtual file system; opens and closes are counted where the NFS programs call VirtualOpenChild/VirtualOpenSelf/VirtualClose")
	r.Assume("state table counts are read through the verif-tagged hook verif_state.go under the programs' own locks, at quiescent points only")
	r.Assume("time only moves in explicit jumps of lease+2s on the virtual clock; a client counts as expired if it neither renewed in the middle of a jump nor had a request in flight that holds its record")
	r.Assume("whether a LOCK is granted or denied is followed from the reply (property C20 judges conflicts); identical retransmissions are not sent (property C19)")
	r.Assume("a panic inside /repo code is recovered per request, recorded as a violation with the history, and ends that history")
	r.Assume("universal quantifiers are sampled: verdict covers the executed histories only")

	for name, min := range map[string]int{
		"io-in-flight-across-close":                                               5,
		"downgrade-to-read-while-lock-owner-cloned-write":                         5,
		"reregistration-with-opens":                                               5,
		"lease-expiry-with-locks-held":                                            5,
		"unlinked-open-putfh":                                                     5,
		"free-stateid-with-locks-held":                                            3,
		"release-lockowner-with-locks-held":                                       3,
		"reregistration-delayed-by-io-in-flight":                                  3,
		"io-in-flight-across-lease-expiry":                                        3,
		"io-in-flight-across-downgrade":                                           3,
		"unconfirmed-open-owner-reinitialized":                                    3,
		"unused-open-owner-expired":                                               3,
		"file-open-through-both-minor-versions":                                   3,
		"hostile-state-id":                                                        50,
		"final-all-leases-expired":                                                20,
		"final-everything-closed-by-clients":                                      5,
		"stress-round-completed":                                                  3,
		"lock-owner-locks-one-file-through-two-open-owners":                       10,
		"reclaim-with-delegation-refused-while-open":                              10,
		"reclaim-with-delegation-refused-while-not-open":                          10,
		"reclaim-refused-after-leaf-was-opened":                                   10,
		"lock-with-new-lock-owner-flag-for-owner-that-has-lock-state-on-the-open": 20,
		"lockt": 20,
		"request-queued-behind-open-owner-transaction":         5,
		"open-parked-in-flight":                                10,
		"open-in-flight-across-reregistration":                 3,
		"open-in-flight-across-lease-expiry":                   3,
		"current-state-id-used-after-open":                     30,
		"current-state-id-used-after-lock":                     20,
		"session-framing-variant":                              50,
		"session-destroyed-from-inside-a-sequence":             5,
		"destroy-clientid-from-inside-a-sequence":              5,
		"create-session-from-inside-a-sequence":                5,
		"setattr-fails-after-state-id-was-accepted":            30,
		"stale-clientid-refused":                               3,
		"reclaim-open-fails-inside-leaf":                       5,
		"open-confirm-refused-for-unconfirmed-open-owner":      3,
		"hostile:special-state-id":                             20,
		"request-in-flight-longer-than-the-lease":              10,
		"request-in-flight-for-up-to-the-lease":                10,
		"client-alive-after-request-held-across-clock-advance": 20,
		"lease-renewed-only-by-state-bearing-request v=4.0":    8,
		"lease-renewed-only-by-state-bearing-request v=4.1":    8,
		"lease-renewed-only-by:READ v=4.0":                     2,
		"lease-renewed-only-by:LOCKU v=4.0":                    2,
		"lease-renewed-only-by:OPEN_DOWNGRADE v=4.0":           2,
	} {
		if r.ReplayFile() == "" {
			r.Floor(name, min)
		}
	}

	if f := r.ReplayFile(); f != "" {
		var rep struct {
			Witness struct {
				Mode string `json:"mode"`
				Case int    `json:"case"`
			} `json:"witness"`
		}
		b, err := os.ReadFile(f)
		if err != nil || json.Unmarshal(b, &rep) != nil {
			t.Fatalf("cannot read replay file %s", f)
		}
		if rep.Witness.Mode == "stress" {
			runStress(r, rep.Witness.Case)
		} else {
			runStepped(r, rep.Witness.Case)
		}
		return
	}

	nStepped := r.Pick(1200, 48000)
	nStress := r.Pick(24, 720)
	for i := 0; i < nStepped; i++ {
		runStepped(r, i)
	}
	for i := 0; i < nStress; i++ {
		runStress(r, i)
	}
}
