package c18

import (
	"fmt"

	"github.com/buildbarn/go-xdr/pkg/protocols/nfsv4"
)

// rawStatus sends a compound that is not framed by send() and compares
// its status.
func (h *hist) rawStatus(c *client, op, variant string, args *nfsv4.Compound4args, want nfsv4.Nfsstat4) (*nfsv4.Compound4res, bool) {
	before := h.w.events.Load()
	out := h.w.call(op, args)
	if out.panicked {
		return nil, false
	}
	h.note("%s %s (%s) -> %s", c, op, variant, stName(out.res.Status))
	ok := h.expect(c, op, variant, out.res.Status, want)
	if n := h.w.events.Load() - before; n != 0 && !h.concurrent {
		h.w.violation(fmt.Sprintf("refused-request-caused-open-or-close op=%s v=4.%d variant=%s status=%s", op, c.ver, variant, stName(out.res.Status)),
			fmt.Sprintf("%s %s caused %d open/close events", c, op, n))
	}
	return out.res, ok
}

func (h *hist) sequenceOp(s *session, slot uint32, seq uint32) nfsv4.NfsArgop4 {
	return &nfsv4.NfsArgop4_OP_SEQUENCE{Opsequence: nfsv4.Sequence4args{
		SaSessionid: s.id, SaSequenceid: seq, SaSlotid: slot, SaHighestSlotid: slotsPerSess - 1,
	}}
}

// framing41 exercises the NFSv4.1 arms around sessions that refuse a
// request, or that create and destroy client and session records from
// inside a SEQUENCE compound (i.e. while the client record is held).
// The state table counts are compared with the model afterwards, like
// after every other step.
func (h *hist) framing41(c *client) {
	s := c.liveSession()
	if c.ver != 1 || s == nil || c.cur == nil || s.busy[0] {
		return
	}
	v1 := func(ops ...nfsv4.NfsArgop4) *nfsv4.Compound4args {
		return &nfsv4.Compound4args{Tag: "framing", Minorversion: 1, Argarray: ops}
	}
	putroot := &nfsv4.NfsArgop4_OP_PUTROOTFH{}
	h.sit("session-framing-variant")
	switch h.pick(13) {
	case 0:
		h.rawStatus(c, "SEQUENCE", "bad-slot", v1(h.sequenceOp(s, 99, s.seq[0]+1), putroot), nfsv4.NFS4ERR_BADSLOT)
	case 1:
		h.rawStatus(c, "SEQUENCE", "misordered", v1(h.sequenceOp(s, 0, s.seq[0]+5), putroot), nfsv4.NFS4ERR_SEQ_MISORDERED)
	case 2:
		ops := []nfsv4.NfsArgop4{h.sequenceOp(s, 0, s.seq[0]+1)}
		for i := 0; i < 100; i++ {
			ops = append(ops, putroot)
		}
		h.rawStatus(c, "SEQUENCE", "too-many-operations", v1(ops...), nfsv4.NFS4ERR_TOO_MANY_OPS)
	case 3:
		h.rawStatus(c, "PUTROOTFH", "not-in-session", v1(putroot), nfsv4.NFS4ERR_OP_NOT_IN_SESSION)
	case 4:
		// Operations that must be the only one of their compound.
		var first nfsv4.NfsArgop4
		name := ""
		switch h.pick(5) {
		case 0:
			first, name = &nfsv4.NfsArgop4_OP_DESTROY_SESSION{OpdestroySession: nfsv4.DestroySession4args{DsaSessionid: s.id}}, "DESTROY_SESSION"
		case 1:
			first, name = &nfsv4.NfsArgop4_OP_DESTROY_CLIENTID{OpdestroyClientid: nfsv4.DestroyClientid4args{DcaClientid: c.cur.clientID}}, "DESTROY_CLIENTID"
		case 2:
			first, name = &nfsv4.NfsArgop4_OP_CREATE_SESSION{OpcreateSession: nfsv4.CreateSession4args{CsaClientid: c.cur.clientID, CsaSequence: c.cur.nextSeq}}, "CREATE_SESSION"
		case 3:
			first, name = &nfsv4.NfsArgop4_OP_EXCHANGE_ID{OpexchangeId: nfsv4.ExchangeId4args{
				EiaClientowner:  nfsv4.ClientOwner4{CoVerifier: h.newVerifier(c), CoOwnerid: c.ownerID},
				EiaStateProtect: &nfsv4.StateProtect4A_SP4_NONE{},
			}}, "EXCHANGE_ID"
		default:
			first, name = &nfsv4.NfsArgop4_OP_BIND_CONN_TO_SESSION{OpbindConnToSession: nfsv4.BindConnToSession4args{BctsaSessid: s.id, BctsaDir: nfsv4.CDFC4_FORE}}, "BIND_CONN_TO_SESSION"
		}
		h.rawStatus(c, name, "not-only-operation", v1(first, putroot), nfsv4.NFS4ERR_NOT_ONLY_OP)
	case 5:
		id, dir, want, variant := s.id, nfsv4.CDFC4_FORE_OR_BOTH, nfsv4.NFS4_OK, "valid"
		switch h.pick(3) {
		case 0:
			id, want, variant = nfsv4.Sessionid4{0xba, 0xd0}, nfsv4.NFS4ERR_BADSESSION, "unknown-session"
		case 1:
			dir, want, variant = nfsv4.ChannelDirFromClient4(9), nfsv4.NFS4ERR_INVAL, "bad-direction"
		}
		h.rawStatus(c, "BIND_CONN_TO_SESSION", variant, v1(&nfsv4.NfsArgop4_OP_BIND_CONN_TO_SESSION{
			OpbindConnToSession: nfsv4.BindConnToSession4args{BctsaSessid: id, BctsaDir: dir},
		}), want)
	case 6:
		h.rawStatus(c, "CREATE_SESSION", "misordered", v1(&nfsv4.NfsArgop4_OP_CREATE_SESSION{
			OpcreateSession: nfsv4.CreateSession4args{CsaClientid: c.cur.clientID, CsaSequence: c.cur.nextSeq + 3},
		}), nfsv4.NFS4ERR_SEQ_MISORDERED)
	case 7:
		h.rawStatus(c, "DESTROY_SESSION", "unknown-session", v1(&nfsv4.NfsArgop4_OP_DESTROY_SESSION{
			OpdestroySession: nfsv4.DestroySession4args{DsaSessionid: nfsv4.Sessionid4{0xba, 0xd1}},
		}), nfsv4.NFS4ERR_BADSESSION)
		h.rawStatus(c, "DESTROY_CLIENTID", "unknown-clientid", v1(&nfsv4.NfsArgop4_OP_DESTROY_CLIENTID{
			OpdestroyClientid: nfsv4.DestroyClientid4args{DcaClientid: h.rng.Uint64()},
		}), nfsv4.NFS4ERR_STALE_CLIENTID)
	case 8:
		// Stubs inside a SEQUENCE compound.
		switch h.pick(3) {
		case 0:
			if rr := h.send(c, "BIND_CONN_TO_SESSION (in sequence)", fhNone, 0, &nfsv4.NfsArgop4_OP_BIND_CONN_TO_SESSION{
				OpbindConnToSession: nfsv4.BindConnToSession4args{BctsaSessid: s.id, BctsaDir: nfsv4.CDFC4_FORE},
			}); rr.ok {
				h.expect(c, "BIND_CONN_TO_SESSION", "in-sequence", rr.st, nfsv4.NFS4ERR_NOT_ONLY_OP)
			}
		case 1:
			if rr := h.send(c, "RECLAIM_COMPLETE", fhNone, 0, &nfsv4.NfsArgop4_OP_RECLAIM_COMPLETE{}); rr.ok {
				h.expect(c, "RECLAIM_COMPLETE", "in-sequence", rr.st, nfsv4.NFS4_OK)
			}
		default:
			if rr := h.send(c, "SEQUENCE (nested)", fhNone, 0, h.sequenceOp(s, 0, s.seq[0]+2)); rr.ok {
				h.expect(c, "SEQUENCE", "nested", rr.st, nfsv4.NFS4ERR_SEQUENCE_POS)
			}
		}
	case 9:
		// DESTROY_SESSION from inside a SEQUENCE compound: of another
		// session of this client if there is one, else of the very
		// session that carries the request.
		target := s
		for _, x := range c.sessions {
			if x.alive && x != s {
				target = x
			}
		}
		if c.inflight > 0 {
			return
		}
		rr := h.send(c, "DESTROY_SESSION (in sequence)", fhNone, 0, &nfsv4.NfsArgop4_OP_DESTROY_SESSION{
			OpdestroySession: nfsv4.DestroySession4args{DsaSessionid: target.id},
		})
		if rr.ok && h.expect(c, "DESTROY_SESSION", "in-sequence", rr.st, nfsv4.NFS4_OK) {
			target.alive = false
			h.sit("session-destroyed-from-inside-a-sequence")
		}
	case 10:
		// DESTROY_CLIENTID from inside a SEQUENCE compound: the
		// confirmed record is busy (this very request holds it), a
		// record that was never confirmed can go.
		r := c.cur
		want := nfsv4.NFS4ERR_CLIENTID_BUSY
		for _, x := range c.regs {
			if x != c.cur {
				r, want = x, nfsv4.NFS4_OK
			}
		}
		rr := h.send(c, fmt.Sprintf("DESTROY_CLIENTID %x (in sequence)", r.clientID), fhNone, 0, &nfsv4.NfsArgop4_OP_DESTROY_CLIENTID{
			OpdestroyClientid: nfsv4.DestroyClientid4args{DcaClientid: r.clientID},
		})
		if rr.ok && h.expect(c, "DESTROY_CLIENTID", "in-sequence", rr.st, want) && rr.st == nfsv4.NFS4_OK {
			c.removeReg(r)
		}
		h.sit("destroy-clientid-from-inside-a-sequence")
	case 11:
		// CREATE_SESSION from inside a SEQUENCE compound: another
		// session for the confirmed record is fine; confirming a new
		// incarnation must wait, as the old one is held by this very
		// request.
		r := c.cur
		want := nfsv4.NFS4_OK
		for _, x := range c.regs {
			if x != c.cur && h.chance(60) {
				r, want = x, nfsv4.NFS4ERR_DELAY
			}
		}
		rr := h.send(c, fmt.Sprintf("CREATE_SESSION %x (in sequence)", r.clientID), fhNone, 0, &nfsv4.NfsArgop4_OP_CREATE_SESSION{
			OpcreateSession: nfsv4.CreateSession4args{
				CsaClientid: r.clientID, CsaSequence: r.nextSeq,
				CsaForeChanAttrs: nfsv4.ChannelAttrs4{CaMaxrequestsize: 1 << 20, CaMaxresponsesize: 1 << 20, CaMaxresponsesizeCached: 1 << 16, CaMaxoperations: 100, CaMaxrequests: 64},
			},
		})
		if rr.ok && h.expect(c, "CREATE_SESSION", "in-sequence", rr.st, want) && rr.st == nfsv4.NFS4_OK {
			r0, _ := findRes[*nfsv4.NfsResop4_OP_CREATE_SESSION](rr.res)
			id := r0.OpcreateSession.(*nfsv4.CreateSession4res_NFS4_OK).CsrResok4.CsrSessionid
			r.nextSeq++
			c.sessions = append(c.sessions, &session{id: id, seq: make([]uint32, slotsPerSess), busy: make([]bool, slotsPerSess), alive: true})
		}
		h.sit("create-session-from-inside-a-sequence")
	default:
		// EXCHANGE_ID from inside a SEQUENCE compound.
		verifier := h.newVerifier(c)
		rr := h.send(c, "EXCHANGE_ID (in sequence)", fhNone, 0, &nfsv4.NfsArgop4_OP_EXCHANGE_ID{OpexchangeId: nfsv4.ExchangeId4args{
			EiaClientowner:  nfsv4.ClientOwner4{CoVerifier: verifier, CoOwnerid: c.ownerID},
			EiaStateProtect: &nfsv4.StateProtect4A_SP4_NONE{},
		}})
		if rr.ok && h.expect(c, "EXCHANGE_ID", "in-sequence", rr.st, nfsv4.NFS4_OK) {
			r0, _ := findRes[*nfsv4.NfsResop4_OP_EXCHANGE_ID](rr.res)
			okres := r0.OpexchangeId.(*nfsv4.ExchangeId4res_NFS4_OK)
			c.regs = append(c.regs, &reg{verifier: verifier, clientID: okres.EirResok4.EirClientid, nextSeq: okres.EirResok4.EirSequenceid})
		}
	}
}
