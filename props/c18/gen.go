package c18

import (
	"fmt"

	"github.com/buildbarn/go-xdr/pkg/protocols/nfsv4"
)

var fileNames = [...]string{"f0", "f1", "f2", "n0", "n1"}

func (h *hist) pick(n int) int { return h.rng.IntN(n) }

func (h *hist) chance(pct int) bool { return h.rng.IntN(100) < pct }

// noFaultsArmed tells whether no leaf has an injected fault pending.
func (h *hist) noFaultsArmed() bool {
	for _, l := range h.w.allLeaves() {
		if l.failIO.Load() > 0 || l.failOpen.Load() > 0 {
			return false
		}
	}
	return !h.concurrent
}

// pickRange picks a byte range for LOCK/LOCKU/LOCKT; now and then the
// malformed one.
func (h *hist) pickRange() int {
	if h.chance(5) {
		return invalidRange + h.pick(len(lockRanges)-invalidRange)
	}
	return h.pick(invalidRange)
}

func (c *client) ownerKey(i int) string     { return fmt.Sprintf("%s-oo%d", c.name, i) }
func (c *client) lockOwnerKey(i int) string { return fmt.Sprintf("%s-lo%d", c.name, i) }

func (h *hist) usableClients() (out []*client) {
	for _, c := range h.clients {
		if c.usable() {
			out = append(out, c)
		}
	}
	return out
}

// resolvableLeaves lists the leaves a PUTFH is expected to accept.
func (h *hist) resolvableLeaves() (out []*fakeLeaf) {
	for _, l := range h.w.allLeaves() {
		if !l.unlinked.Load() || h.modelOpenCount(l) > 0 {
			out = append(out, l)
		}
	}
	return out
}

// establish registers and confirms a client (and creates a session).
func (h *hist) establish(c *client) {
	if r := h.register(c, true); r != nil {
		h.confirm(c, r, "valid")
	}
}

// ensureOpen opens name through open-owner i and confirms the
// open-owner if needed.
func (h *hist) ensureOpen(c *client, i int, name string, access uint32) *openState {
	os := h.open(c, openParams{ownerKey: c.ownerKey(i), name: name, fh: fhRoot, access: access, how: howUnchecked, claim: claimNull, variant: "valid"})
	if os != nil && c.ver == 0 && !os.o.confirmed {
		h.openConfirm(c, os.sid, fhLeaf(os.leaf), 0, "valid")
	}
	return os
}

func (h *hist) randomOpen(c *client) {
	p := openParams{
		ownerKey: c.ownerKey(h.pick(3)),
		name:     fileNames[h.pick(len(fileNames))],
		fh:       fhRoot,
		access:   uint32(1 + h.pick(3)),
		variant:  "valid",
	}
	switch x := h.pick(100); {
	case x < 50:
		p.how = howNoCreate
	case x < 70:
		p.how = howUnchecked
	case x < 77:
		p.how = howUncheckedTruncate
	case x < 90:
		p.how = howGuarded
	default:
		p.how = howExclusive
	}
	switch x := h.pick(100); {
	case x < 72:
		p.claim = claimNull
	case x < 84:
		p.claim = claimPrevious
	case x < 93:
		p.claim = claimFH
	default:
		p.claim = claimDelegateCur + h.pick(4)
	}
	if p.claim != claimNull {
		p.variant = "claim"
	}
	if p.claim == claimPrevious && h.chance(45) {
		p.delegType = 1 + h.pick(2)
		p.variant = "claim-with-delegation"
	}
	if p.claim == claimPrevious || p.claim == claimFH || p.claim == claimDelegCurFH || p.claim == claimDelegPrevFH {
		// Prefer a file that this owner has open already.
		var cands []*fakeLeaf
		if o := c.owners[p.ownerKey]; o != nil && h.chance(70) {
			for l := range o.opens {
				cands = append(cands, l)
			}
			// Map order must not influence the history.
			cands = sortLeaves(cands)
		}
		if len(cands) == 0 {
			cands = h.resolvableLeaves()
		}
		switch {
		case h.chance(5):
			p.fh = fhRoot
		case h.chance(3):
			p.fh = fhNone
		case len(cands) > 0:
			p.fh = fhLeaf(cands[h.pick(len(cands))])
		}
	} else if h.chance(3) {
		if ls := h.resolvableLeaves(); len(ls) > 0 {
			p.fh = fhLeaf(ls[h.pick(len(ls))])
			p.variant = "fh-not-a-directory"
		}
	}
	if h.chance(4) {
		p.deny = uint32(1 + h.pick(4))
		p.variant = "share-deny"
	}
	if h.chance(3) {
		p.access = []uint32{0, 4, 7}[h.pick(3)]
		p.variant = "bad-share-access"
	}
	if c.ver == 1 && h.chance(10) {
		p.access |= nfsv4.OPEN4_SHARE_ACCESS_WANT_READ_DELEG
	}
	switch x := h.pick(100); {
	case x < 3:
		p.how = howUncheckedBadAttr + h.pick(3)
		p.variant = "bad-create-mode"
	case x < 6 && p.claim == claimNull:
		p.name = []string{"", "a/b", ".", ".."}[h.pick(4)]
		p.variant = "bad-name"
	case x < 9 && c.ver == 0:
		// Open-owner sequence ID out of order.
		p.seqDelta = uint32(2 + h.pick(3))
		p.variant = "bad-owner-seqid"
	case x < 12 && c.ver == 0:
		// Client ID that was never confirmed, or never issued.
		id := h.rng.Uint64()
		for _, r := range c.regs {
			if r != c.cur {
				id = r.clientID
			}
		}
		p.clientID = &id
		p.variant = "unconfirmed-or-unknown-clientid"
	}
	if p.claim == claimPrevious && h.chance(70) {
		p.how = []int{howNoCreate, howUnchecked, howUncheckedTruncate}[h.pick(3)]
	}
	if c.ver == 1 && h.chance(15) && h.noFaultsArmed() {
		p.then = 1 + h.pick(4)
	}
	os := h.open(c, p)
	if os != nil && c.ver == 0 && !os.o.confirmed && h.chance(85) {
		h.openConfirm(c, os.sid, fhLeaf(os.leaf), 0, "valid")
	}
}

func sortLeaves(ls []*fakeLeaf) []*fakeLeaf {
	for i := 1; i < len(ls); i++ {
		for j := i; j > 0 && ls[j-1].id > ls[j].id; j-- {
			ls[j-1], ls[j] = ls[j], ls[j-1]
		}
	}
	return ls
}

// randomStep performs one randomly chosen step. It returns false if
// nothing could be done.
func (h *hist) randomStep() {
	h.steps++
	// Occasionally let something in flight finish.
	if len(h.inflight) > 0 && h.chance(12) {
		io := h.inflight[h.pick(len(h.inflight))]
		io.failIO = h.chance(15)
		h.releaseIO(io)
		return
	}
	cs := h.usableClients()
	if len(cs) == 0 || h.chance(3) {
		h.lifecycleStep()
		return
	}
	c := cs[h.pick(len(cs))]
	opens := c.allOpens()
	locks := c.allLocks()
	switch x := h.pick(100); {
	case x < 22 || len(opens) == 0:
		h.randomOpen(c)
	case x < 32:
		os := opens[h.pick(len(opens))]
		if c.ver == 0 && !os.o.confirmed && h.chance(60) {
			h.openConfirm(c, os.sid, fhLeaf(os.leaf), 0, "valid")
			return
		}
		h.closeState(c, os.sid, fhLeaf(os.leaf), 0, h.validVariant(os))
	case x < 39:
		os := opens[h.pick(len(opens))]
		access, deny, variant := uint32(1+h.pick(3)), uint32(0), h.validVariant(os)
		if variant == "valid" && h.chance(8) {
			if h.chance(50) {
				access, variant = []uint32{0, 4, 8}[h.pick(3)], "bad-share-access"
			} else {
				deny, variant = uint32(1+h.pick(3)), "share-deny"
			}
		}
		h.downgrade(c, os.sid, fhLeaf(os.leaf), access, deny, 0, variant)
	case x < 49:
		os := opens[h.pick(len(opens))]
		p := lockParams{newOwner: true, openSid: os.sid, loKey: c.lockOwnerKey(h.pick(2)), fh: fhLeaf(os.leaf), rangeIdx: h.pickRange(), write: h.chance(50), variant: h.validVariant(os)}
		if c.ver == 0 && p.variant == "valid" && h.chance(6) {
			p.lockSeqDelta = uint32(2 + h.pick(3))
			p.variant = "bad-lock-owner-seqid"
		} else if p.variant == "valid" && h.chance(3) {
			p.badLockType = true
			p.variant = "bad-lock-type"
		} else if c.ver == 1 && !rangeIsInvalid(p.rangeIdx) && h.chance(15) {
			p.thenUnlockCurrent = true
		}
		h.lock(c, p)
	case x < 54 && len(locks) > 0:
		ls := locks[h.pick(len(locks))]
		h.lock(c, lockParams{lockSid: ls.sid, fh: fhLeaf(ls.os.leaf), rangeIdx: h.pickRange(), write: h.chance(50), variant: "valid"})
	case x < 60 && len(locks) > 0:
		ls := locks[h.pick(len(locks))]
		h.unlock(c, ls.sid, fhLeaf(ls.os.leaf), h.pickRange(), 0, "valid")
	case x < 64 && len(locks) > 0:
		ls := locks[h.pick(len(locks))]
		if c.ver == 0 {
			if h.chance(8) {
				h.staleClientID40(c, ls.lo.key)
			}
			h.releaseLockOwner(c, ls.lo.key, "valid")
		} else {
			h.freeStateID(c, ls.sid, "valid")
		}
	case x < 78:
		h.randomIO(c, opens, locks, false)
	case x < 84:
		h.randomIO(c, opens, locks, true)
	case x < 87:
		h.remove(c, fileNames[h.pick(len(fileNames))])
	case x < 89:
		if ls := h.w.allLeaves(); len(ls) > 0 {
			h.probe(c, ls[h.pick(len(ls))])
		}
	case x < 90:
		fh := fhRoot
		if ls := h.resolvableLeaves(); len(ls) > 0 && h.chance(90) {
			fh = fhLeaf(ls[h.pick(len(ls))])
		}
		h.lockt(c, fh, c.lockOwnerKey(h.pick(3)), h.pickRange(), h.chance(50), h.chance(10))
	case x < 92:
		if ls := h.resolvableLeaves(); len(ls) > 0 {
			l := ls[h.pick(len(ls))]
			if h.chance(50) {
				l.failOpen.Add(1)
				h.note("armed open fault on %s", l)
			} else if len(h.inflight) == 0 {
				l.failIO.Add(1)
				h.note("armed I/O fault on %s", l)
			}
		}
	default:
		if c.ver == 1 && h.chance(30) {
			h.framing41(c)
			return
		}
		h.hostile(c)
	}
}

// validVariant labels requests that use an unmodified, issued state ID.
// An unconfirmed 4.0 open-owner's state ID is issued but not usable.
func (h *hist) validVariant(os *openState) string {
	if os.o.c.ver == 0 && !os.o.confirmed {
		h.sit("hostile-state-id")
		return "unconfirmed-open-owner"
	}
	return "valid"
}

func (h *hist) randomIO(c *client, opens []*openState, locks []*lockState, gated bool) {
	kind := h.pick(3)
	if h.chance(8) {
		kind = ioSetattrBadAttr + h.pick(2)
	}
	var sid nfsv4.Stateid4
	var leaf *fakeLeaf
	variant := "open-state-id"
	switch x := h.pick(100); {
	case x < 55 && len(opens) > 0:
		os := opens[h.pick(len(opens))]
		sid, leaf = os.sid, os.leaf
		if c.ver == 1 && h.chance(25) {
			sid.Seqid = 0
			variant = "open-state-id-seqid-0"
		}
		if v := h.validVariant(os); v != "valid" {
			variant = v
		}
	case x < 80 && len(locks) > 0:
		ls := locks[h.pick(len(locks))]
		sid, leaf = ls.sid, ls.os.leaf
		variant = "lock-state-id"
	default:
		ls := h.resolvableLeaves()
		if len(ls) == 0 {
			return
		}
		leaf = ls[h.pick(len(ls))]
		variant = "anonymous-state-id"
		if h.chance(40) {
			sid = nfsv4.Stateid4{Seqid: 0xffffffff, Other: [12]byte{0xff, 0xff, 0xff, 0xff, 0xff, 0xff, 0xff, 0xff, 0xff, 0xff, 0xff, 0xff}}
			variant = "bypass-state-id"
		}
	}
	if gated && kind < ioSetattr && leaf.failIO.Load() == 0 && leaf.failOpen.Load() == 0 {
		h.startGatedIO(c, kind, sid, leaf, variant)
		return
	}
	fh := fhLeaf(leaf)
	if (variant == "anonymous-state-id" || variant == "bypass-state-id") && h.chance(8) {
		// Special state ID without a regular file to apply it to.
		fh = []fhRef{fhNone, fhRoot}[h.pick(2)]
		variant += "-no-regular-file"
	}
	h.io(c, kind, sid, fh, variant)
}

// lifecycleStep changes who is registered, alive or expired.
func (h *hist) lifecycleStep() {
	c := h.clients[h.pick(len(h.clients))]
	if c.ver == 1 && !c.vanished && c.cur != nil && c.liveSession() == nil && h.chance(70) {
		// A client that destroyed its last session creates a new one.
		h.confirm(c, c.cur, "another-session")
		return
	}
	switch x := h.pick(100); {
	case x < 25 && !c.vanished:
		// Client restarts: new verifier.
		if r := h.register(c, true); r != nil && h.chance(85) {
			h.confirm(c, r, "reboot")
		}
	case x < 35 && !c.vanished:
		// Retransmitted registration / confirmation of an old record.
		if r := h.register(c, false); r != nil && h.chance(70) {
			h.confirm(c, r, "again")
		}
	case x < 40:
		h.confirmBogus(c)
	case x < 50 && c.ver == 1 && c.usable():
		if s := c.liveSession(); s != nil && c.inflight == 0 {
			h.destroySession(c, s)
			if h.chance(80) && c.cur != nil {
				h.confirm(c, c.cur, "another-session")
			}
		}
	case x < 55 && c.ver == 1 && !c.vanished && len(c.regs) > 0:
		h.destroyClientID(c, c.regs[h.pick(len(c.regs))])
	case x < 65 && !c.vanished:
		c.vanished = true
		h.note("%s vanishes", c)
		h.sit("client-vanished")
	case x < 85:
		renewers := map[*client]bool{}
		for _, x := range h.clients {
			if x.usable() && h.chance(60) {
				renewers[x] = true
			}
		}
		jump(h.w, []*hist{h}, renewers)
	default:
		if !c.vanished {
			h.renew(c)
		}
	}
}

// hostile sends a request whose state ID, file handle or sequence ID
// is not what the server issued for this use.
func (h *hist) hostile(c *client) {
	opens := c.allOpens()
	locks := c.allLocks()
	var base nfsv4.Stateid4
	var leaf *fakeLeaf
	isLock := false
	kindOfBase := "open"
	switch {
	case len(locks) > 0 && h.chance(35):
		ls := locks[h.pick(len(locks))]
		base, leaf, isLock, kindOfBase = ls.sid, ls.os.leaf, true, "lock"
	case len(opens) > 0:
		os := opens[h.pick(len(opens))]
		base, leaf = os.sid, os.leaf
	default:
		ls := h.resolvableLeaves()
		if len(ls) == 0 {
			return
		}
		leaf = ls[h.pick(len(ls))]
		base = nfsv4.Stateid4{Seqid: 1}
		copy(base.Other[:4], h.w.prefix[:])
		base.Other[5] = 0x77
		kindOfBase = "none"
	}
	sid, fh := base, fhLeaf(leaf)
	var seqDelta uint32
	var mut string
	for tries := 0; mut == "" && tries < 10; tries++ {
		switch h.pick(14) {
		case 0:
			if base.Seqid > 1 {
				sid.Seqid--
				mut = "old-seqid"
			}
		case 1:
			sid.Seqid++
			mut = "future-seqid"
		case 2:
			for i := 4; i < 8; i++ {
				sid.Other[i] = byte(h.rng.Uint32())
			}
			sid.Other[7] |= 0x80
			mut = "unknown-other"
		case 3:
			if c.ver == 0 {
				sid.Other[0] ^= 0x55
				mut = "stale-prefix"
			} else {
				sid.Other[11] = 1
				mut = "other-tail-nonzero"
			}
		case 4:
			for _, l := range h.resolvableLeaves() {
				if l != leaf {
					fh = fhLeaf(l)
					mut = "wrong-file"
					break
				}
			}
		case 5:
			fh = fhNone
			mut = "no-file-handle"
		case 6:
			fh = fhRoot
			mut = "directory-file-handle"
		case 7:
			// State ID of another client.
			for _, oc := range h.clients {
				if oc != c && oc.ver == c.ver {
					if oo := oc.allOpens(); len(oo) > 0 {
						os := oo[h.pick(len(oo))]
						if !os.leaf.unlinked.Load() || h.modelOpenCount(os.leaf) > 0 {
							sid, fh = os.sid, fhLeaf(os.leaf)
							mut = "other-clients-state-id"
						}
					}
				}
			}
		case 8:
			// A state ID that was closed or freed earlier.
			var cands []closedRef
			for _, cr := range h.closed {
				if cr.c == c && (!cr.leaf.unlinked.Load() || h.modelOpenCount(cr.leaf) > 0) {
					cands = append(cands, cr)
				}
			}
			if len(cands) > 0 {
				cr := cands[h.pick(len(cands))]
				sid, fh, isLock = cr.sid, fhLeaf(cr.leaf), cr.lock
				mut = "closed-state-id"
			}
		case 9:
			if h.chance(50) {
				sid = nfsv4.Stateid4{Seqid: 7}
			} else {
				sid = nfsv4.Stateid4{Seqid: 5, Other: [12]byte{0xff, 0xff, 0xff, 0xff, 0xff, 0xff, 0xff, 0xff, 0xff, 0xff, 0xff, 0xff}}
			}
			mut = "malformed-special-state-id"
		case 10:
			if c.ver == 0 && kindOfBase != "none" {
				seqDelta = uint32(2 + h.pick(3))
				mut = "bad-owner-seqid"
			}
		case 11:
			if kindOfBase != "none" {
				// Use a lock state ID where an open state ID is
				// required and vice versa.
				isLock = !isLock
				mut = "wrong-kind-of-state-id"
			}
		case 12:
			if c.ver == 1 {
				sid = currentStateID
				mut = "current-state-id-without-one"
			}
		case 13:
			// A well-formed special state ID where a regular one is
			// required (for READ/WRITE/SETATTR it is simply valid).
			if h.chance(50) {
				sid = nfsv4.Stateid4{}
			} else {
				sid = nfsv4.Stateid4{Seqid: 0xffffffff, Other: [12]byte{0xff, 0xff, 0xff, 0xff, 0xff, 0xff, 0xff, 0xff, 0xff, 0xff, 0xff, 0xff}}
			}
			mut = "special-state-id"
		}
	}
	if mut == "" {
		return
	}
	h.sit("hostile-state-id")
	h.sit("hostile:" + mut)
	type opFn func()
	var ops []opFn
	ops = append(ops,
		func() { h.io(c, ioRead, sid, fh, mut) },
		func() { h.io(c, ioWrite, sid, fh, mut) },
		func() { h.io(c, ioSetattr, sid, fh, mut) },
	)
	if !isLock {
		ops = append(ops,
			func() { h.closeState(c, sid, fh, seqDelta, mut) },
			func() { h.downgrade(c, sid, fh, accRead, 0, seqDelta, mut) },
			func() {
				p := lockParams{newOwner: true, openSid: sid, loKey: c.lockOwnerKey(2 + h.pick(2)), fh: fh, rangeIdx: h.pickRange(), openSeqDelta: seqDelta, variant: mut}
				h.lock(c, p)
			},
		)
		if c.ver == 0 {
			ops = append(ops, func() { h.openConfirm(c, sid, fh, seqDelta, mut) })
		}
	} else {
		ops = append(ops,
			func() {
				h.lock(c, lockParams{lockSid: sid, fh: fh, rangeIdx: h.pickRange(), lockSeqDelta: seqDelta, variant: mut})
			},
			func() { h.unlock(c, sid, fh, h.pickRange(), seqDelta, mut) },
		)
	}
	if c.ver == 1 {
		ops = append(ops,
			func() { h.freeStateID(c, sid, mut) },
			func() { h.testStateID(c, []nfsv4.Stateid4{sid, base}, mut) },
		)
	}
	ops[h.pick(len(ops))]()
}
