package c11

import (
	"context"
	"fmt"
	"math/rand/v2"
	"runtime"
	"sort"
	"strings"
	"sync"
	"sync/atomic"
	"time"

	remoteexecution "github.com/bazelbuild/remote-apis/build/bazel/remote/execution/v2"
	re_blobstore "github.com/buildbarn/bb-remote-execution/pkg/blobstore"
	"github.com/buildbarn/bb-remote-execution/pkg/cas"
	re_clock "github.com/buildbarn/bb-remote-execution/pkg/clock"
	"github.com/buildbarn/bb-storage/pkg/blobstore/buffer"
	"github.com/buildbarn/bb-storage/pkg/blobstore/slicing"
	"github.com/buildbarn/bb-storage/pkg/clock"
	"github.com/buildbarn/bb-storage/pkg/digest"

	"verif/internal/ev"
	"verif/internal/vclock"
)

// Concurrent monitor. The base clock handed to the SuspendableClock moves on
// every Now() call (vclock.AutoTick), so that no two observers ever see the
// same instant, and its Now() may, after having sampled the time, let a
// complete Suspend / long stall / Resume of an "intruder" reader run before it
// returns the sample to its caller. 2-6 reader goroutines do Suspend/Resume
// pairs directly and through the suspending storage decorators while a
// context from NewContextWithTimeout is alive.
//
// Oracle (sound for every interleaving): every reader takes harness-side
// timestamps from the same clock immediately before calling and after
// returning from the suspending and the resuming call. The clock is certainly
// suspended during [return of suspend, call of resume] and possibly during
// [call of suspend, return of resume]. The unsuspended time reported by the
// context therefore lies between (window minus the union of the possible
// intervals) and (window minus the union of the certain intervals), plus the
// uncertainty of where inside NewContextWithTimeout / cancel the clock was
// read.

type stressRoundCfg struct {
	Round     int `json:"round"`
	Readers   int `json:"readers"`
	OpsEach   int `json:"ops_each"`
	InjectPct int `json:"inject_pct"`
	Procs     int `json:"gomaxprocs"`
}

type ival struct{ from, to int64 }

// tickClock is the base clock of the SuspendableClock under test.
type tickClock struct {
	*vclock.Clock
	s *stressRun
}

type stressRun struct {
	r   *ev.Run
	cfg stressRoundCfg
	clk *vclock.Clock
	sc  *re_clock.SuspendableClock

	armed     atomic.Bool
	intruding atomic.Bool
	intruders sync.WaitGroup
	launched  atomic.Int64
	completed atomic.Int64

	mu       sync.Mutex
	rng      *rand.Rand
	certain  []ival
	possible []ival
	log      []string
}

func (s *stressRun) ts() int64 { return int64(s.clk.Now().Sub(time.Unix(1000, 0))) }

func (s *stressRun) record(kind string, callS, retS, callR, retR int64) {
	s.mu.Lock()
	s.possible = append(s.possible, ival{callS, retR})
	s.certain = append(s.certain, ival{retS, callR})
	if len(s.log) < 400 {
		s.log = append(s.log, fmt.Sprintf("%s possible=[%d,%d] certain=[%d,%d]", kind, callS, retR, retS, callR))
	}
	s.mu.Unlock()
}

func (s *stressRun) stall(d int) { s.clk.Advance(time.Duration(d)*unit, nil) }

// Now samples the time and then, sometimes, lets an intruder suspend, stall
// and resume before the sample reaches the caller.
func (c tickClock) Now() time.Time {
	now := c.Clock.Now()
	s := c.s
	if !s.armed.Load() {
		return now
	}
	s.mu.Lock()
	inject := s.rng.IntN(100) < s.cfg.InjectPct
	yields := s.rng.IntN(4)
	length := 50 + s.rng.IntN(400)
	s.mu.Unlock()
	if inject && s.intruding.CompareAndSwap(false, true) {
		done := make(chan struct{})
		s.intruders.Add(1)
		s.launched.Add(1)
		go func() {
			defer s.intruders.Done()
			defer s.intruding.Store(false)
			defer close(done)
			callS := s.ts()
			s.sc.Suspend()
			retS := s.ts()
			s.stall(length)
			callR := s.ts()
			s.sc.Resume()
			retR := s.ts()
			s.record("intruder", callS, retS, callR, retR)
		}()
		// If the caller holds the SuspendableClock's lock (as the
		// unchanged code does) the intruder cannot finish before we
		// return; give up after a bounded number of yields.
		for i := 0; i < 400; i++ {
			select {
			case <-done:
				s.completed.Add(1)
				i = 1 << 20
			default:
				runtime.Gosched()
			}
		}
		return now
	}
	for i := 0; i < yields; i++ {
		runtime.Gosched()
	}
	return now
}

var _ clock.Clock = tickClock{}

// stallingBase is the storage below the suspending decorators: every call
// stalls for a while (moves the clock) and reports when it was entered and
// left, i.e. while the decorator certainly had the clock suspended.
type stallingBase struct{ s *stressRun }

type stallKey struct{}

type stallInfo struct {
	length      int
	entry, exit int64
}

func (b stallingBase) stallCall(ctx context.Context) {
	info := ctx.Value(stallKey{}).(*stallInfo)
	info.entry = b.s.ts()
	b.s.stall(info.length)
	info.exit = b.s.ts()
}

func (b stallingBase) Get(ctx context.Context, d digest.Digest) buffer.Buffer {
	return buffer.NewCASBufferFromReader(d, &pendingReader{data: strings.NewReader(blobData), failAfter: -1}, buffer.UserProvided)
}

func (b stallingBase) GetFromComposite(ctx context.Context, parentDigest, childDigest digest.Digest, slicer slicing.BlobSlicer) buffer.Buffer {
	return b.Get(ctx, childDigest)
}

func (b stallingBase) Put(ctx context.Context, d digest.Digest, buf buffer.Buffer) error {
	buf.Discard()
	b.stallCall(ctx)
	return nil
}

func (b stallingBase) FindMissing(ctx context.Context, digests digest.Set) (digest.Set, error) {
	b.stallCall(ctx)
	return digest.EmptySet, nil
}

func (b stallingBase) GetCapabilities(ctx context.Context, instanceName digest.InstanceName) (*remoteexecution.ServerCapabilities, error) {
	b.stallCall(ctx)
	return &remoteexecution.ServerCapabilities{}, nil
}

func (b stallingBase) GetDirectory(ctx context.Context, d digest.Digest) (*remoteexecution.Directory, error) {
	b.stallCall(ctx)
	return &remoteexecution.Directory{}, nil
}

func (b stallingBase) GetTreeRootDirectory(ctx context.Context, d digest.Digest) (*remoteexecution.Directory, error) {
	b.stallCall(ctx)
	return &remoteexecution.Directory{}, nil
}

func (b stallingBase) GetTreeChildDirectory(ctx context.Context, treeDigest, childDigest digest.Digest) (*remoteexecution.Directory, error) {
	b.stallCall(ctx)
	return &remoteexecution.Directory{}, nil
}

// measure returns the length of [from,to] minus the union of the intervals.
func uncovered(from, to int64, ivs []ival) int64 {
	sort.Slice(ivs, func(i, j int) bool { return ivs[i].from < ivs[j].from })
	total := to - from
	end := from
	for _, iv := range ivs {
		a, b := iv.from, iv.to
		if a < end {
			a = end
		}
		if b > to {
			b = to
		}
		if b > a {
			total -= b - a
			end = b
		}
	}
	return total
}

func concurrentRound(r *ev.Run, cfg stressRoundCfg) {
	r.Case("concurrent round %+v", cfg)
	prev := runtime.GOMAXPROCS(cfg.Procs)
	defer runtime.GOMAXPROCS(prev)
	clk := vclock.New(1000)
	clk.AutoTick = unit
	s := &stressRun{r: r, cfg: cfg, clk: clk, rng: r.Rand(61, uint64(cfg.Round))}
	s.sc = re_clock.NewSuspendableClock(tickClock{Clock: clk, s: s}, 1000*time.Hour, unit)
	base := stallingBase{s}
	ba := re_blobstore.NewSuspendingBlobAccess(base, s.sc)
	df := cas.NewSuspendingDirectoryFetcher(base, s.sc)

	// Create the context while nothing else happens.
	w0a := s.ts()
	before := clk.Created()
	ctx, cancel := s.sc.NewContextWithTimeout(context.Background(), 1000*time.Hour)
	deadline := time.Now().Add(40 * time.Second)
	for clk.Created() < before+2 {
		runtime.Gosched()
		if time.Now().After(deadline) {
			r.Inconclusive("concurrent round %d: context did not register its base timer", cfg.Round)
			cancel()
			return
		}
	}
	w0b := s.ts()

	s.armed.Store(true)
	var wg sync.WaitGroup
	var ops atomic.Int64
	for g := 0; g < cfg.Readers; g++ {
		wg.Add(1)
		go func(g int) {
			defer wg.Done()
			rng := r.Rand(62, uint64(cfg.Round), uint64(g))
			for i := 0; i < cfg.OpsEach; i++ {
				s.stall(rng.IntN(60)) // run time between stalls
				length := 20 + rng.IntN(300)
				ops.Add(1)
				switch kind := rng.IntN(8); kind {
				case 0, 1, 2:
					callS := s.ts()
					s.sc.Suspend()
					retS := s.ts()
					s.stall(length)
					callR := s.ts()
					s.sc.Resume()
					retR := s.ts()
					s.record("direct", callS, retS, callR, retR)
				case 3:
					callS := s.ts()
					buf := ba.Get(context.Background(), blobDigest)
					retS := s.ts()
					s.stall(length)
					callR := s.ts()
					if i%2 == 0 {
						buf.Discard()
					} else {
						buf.ToByteSlice(1 << 10)
					}
					retR := s.ts()
					s.record("blob-get", callS, retS, callR, retR)
				default:
					info := &stallInfo{length: length}
					c := context.WithValue(context.Background(), stallKey{}, info)
					callS := s.ts()
					switch kind {
					case 4:
						ba.FindMissing(c, blobDigest.ToSingletonSet())
					case 5:
						ba.Put(c, blobDigest, buffer.NewValidatedBufferFromByteSlice([]byte(blobData)))
					case 6:
						df.GetDirectory(c, blobDigest)
					default:
						df.GetTreeChildDirectory(c, blobDigest, blobDigest)
					}
					retR := s.ts()
					s.record("decorated-call", callS, info.entry, info.exit, retR)
				}
			}
		}(g)
	}
	done := make(chan struct{})
	go func() { wg.Wait(); s.intruders.Wait(); close(done) }()
	select {
	case <-done:
	case <-time.After(40 * time.Second):
		buf := make([]byte, 1<<20)
		buf = buf[:runtime.Stack(buf, true)]
		if len(buf) > 6000 {
			buf = buf[:6000]
		}
		r.Inconclusive("concurrent round %d did not finish; goroutines:\n%s", cfg.Round, buf)
		return
	}
	s.armed.Store(false)
	s.intruders.Wait()

	w1a := s.ts()
	cancel()
	<-ctx.Done()
	w1b := s.ts()
	reported, _ := ctx.Value(re_clock.UnsuspendedDurationKey{}).(time.Duration)

	s.mu.Lock()
	lower := uncovered(w0b, w1a, s.possible)
	upperCore := uncovered(w0b, w1a, s.certain)
	upper := upperCore + (w0b - w0a) + (w1b - w1a)
	n := len(s.certain)
	witness := map[string]any{"round": cfg, "window": []int64{w0a, w0b, w1a, w1b}, "lower_bound": lower, "upper_bound": upper, "reported": int64(reported), "intervals": append([]string(nil), s.log...)}
	s.mu.Unlock()
	switch {
	case lower > upper:
		r.Inconclusive("concurrent round %d: harness bounds inconsistent (%d > %d)", cfg.Round, lower, upper)
	case int64(reported) < lower:
		r.Violation("C11 concurrent-readers-unsuspended-duration-below-lower-bound", fmt.Sprintf("reported unsuspended duration %v, but for at least %v certainly no reader had the clock suspended (upper bound %v)", reported, time.Duration(lower), time.Duration(upper)), witness)
	case int64(reported) > upper:
		r.Violation("C11 concurrent-readers-unsuspended-duration-above-upper-bound", fmt.Sprintf("reported unsuspended duration %v, but the clock can have been unsuspended for at most %v (lower bound %v): stall time was counted as run time", reported, time.Duration(upper), time.Duration(lower)), witness)
	}
	r.SituationN("concurrent-suspension-intervals", n)
	r.SituationN("intruder-launched-inside-base-now", int(s.launched.Load()))
	r.Count("intruder-completed-before-now-returned", int(s.completed.Load()))
	r.Count("concurrent_reader_operations", int(ops.Load()))
	if n > 0 && lower < upperCore {
		r.Situation("concurrent-round-with-uncertain-intervals")
	}
	r.Hash(ev.HashOf("concurrent", cfg.Round, n, lower, upper, int64(reported)), n > 0)
}
