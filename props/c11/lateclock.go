package c11

import (
	"sync"
	"sync/atomic"
	"time"

	"github.com/buildbarn/bb-storage/pkg/clock"

	"verif/internal/vclock"
)

// lateClock is the base clock of the SuspendableClock in the timelines. It is
// the virtual clock, except that an expired timer carries the instant it was
// *due* (as real timers do) and that the driver may defer handing that value
// to the waiting goroutine: real goroutines get scheduled late, and in the
// meantime other readers suspend and resume the clock.
type lateClock struct {
	*vclock.Clock
	seq     atomic.Uint64
	hold    atomic.Bool   // the next holdable expiry is to be deferred
	noHold  atomic.Uint64 // sequence number of a timer that is never deferred
	parked  atomic.Int64  // number of expiries deferred so far
	mu      sync.Mutex
	release chan struct{} // closed to deliver the deferred expiry
}

type lateTimer struct {
	inner clock.Timer
	stop  chan struct{}
	once  sync.Once
}

func (t *lateTimer) Stop() bool {
	ok := t.inner.Stop()
	t.once.Do(func() { close(t.stop) })
	return ok
}

func (c *lateClock) NewTimer(d time.Duration) (clock.Timer, <-chan time.Time) {
	seq := c.seq.Add(1)
	due := c.Clock.Now().Add(d)
	inner, ch := c.Clock.NewTimer(d)
	t := &lateTimer{inner: inner, stop: make(chan struct{})}
	out := make(chan time.Time, 1)
	go func() {
		select {
		case <-ch:
		case <-t.stop:
			return
		}
		if seq != c.noHold.Load() && c.hold.CompareAndSwap(true, false) {
			c.mu.Lock()
			rel := make(chan struct{})
			c.release = rel
			c.mu.Unlock()
			c.parked.Add(1)
			select {
			case <-rel:
			case <-t.stop:
				return
			}
		}
		out <- due
	}()
	return t, out
}

// deliver hands the deferred expiry to its goroutine.
func (c *lateClock) deliver() {
	c.mu.Lock()
	if c.release != nil {
		close(c.release)
		c.release = nil
	}
	c.mu.Unlock()
}
