// Package c11 monitors property C11: execution timeouts fire once the command
// has run for its timeout in *unsuspended* time, are compensated for storage
// stalls but never by more than the configured maximum, never fire for a
// command that finishes within its budget, and the reported virtual
// execution duration equals the unsuspended time.
//
// The real re_clock.SuspendableClock runs over the harness' virtual base
// clock. Generated timelines of nested/overlapping suspensions from 1-4
// readers (directly, through SuspendingBlobAccess and through
// SuspendingDirectoryFetcher) are played while the driver advances the base
// clock timer by timer; the oracle integrates the unsuspended time itself.
package c11

import (
	"encoding/json"
	"os"
	"runtime"
	"sync"
	"testing"

	"verif/internal/ev"
)

func TestCheck(t *testing.T) {
	r := ev.Start("C11")
	defer r.Finish()
	r.SetRule("case = one generated timeline: object under test (context from SuspendableClock.NewContextWithTimeout, timer from NewTimer, or the run context of a " +
		"LocalBuildExecutor with a blocking fake runner), timeout 0..100 units, threshold 1..10 units, maximum compensation 0..>timeout, start offset, unit = 1 ms (half of the cases), 1 ms + 1 ns, 1 s, 1 min or 7 days (executor: up to 1 min), 1-4 readers with " +
		"non-overlapping-per-reader suspension intervals (direct Suspend/Resume, SuspendingBlobAccess Get/GetFromComposite/Put/FindMissing/GetCapabilities, " +
		"SuspendingDirectoryFetcher; every decorated call also in a failing variant, buffers failing before any data / mid-stream and finished in nine ways incl. early close, size limit, clones), optional early cancellation/Stop and parent cancellation; operations of different readers at one instant run concurrently. " +
		"Additionally concurrent rounds: 2-6 reader goroutines doing Suspend/Resume pairs (directly and through both decorators) over a base clock that moves on every Now() call and " +
		"whose Now() may let an intruder's complete Suspend/stall/Resume run between sampling the time and returning it; judged by interval bounds that hold for every interleaving. " +
		"In the timelines the base clock only moves to the next timeline event or the next base timer; ties are broken by the PRNG. " +
		"non-trivial = at least one counted situation; distinct = hash of parameters plus the observed sequence of (time, event) incl. base timer firings and the outcome")
	r.Assume("1 unit = 1 ms, 1 ms + 1 ns, 1 s, 1 min or 7 days of virtual time, fixed per timeline; thresholds are >= 1 unit (bb_worker hard-codes 100 ms; a zero threshold makes the re-arm loop spin and is outside the domain)")
	r.Assume("decided on the simulated base clock only; OS scheduling jitter between a base timer firing and its handling is not modelled (the driver waits for quiescence after every firing)")
	r.Assume("concurrent rounds: a reader certainly has the clock suspended from the return of its suspending call to the call of its resuming call and possibly from call to return; timestamps come from the same auto-ticking clock")
	r.Assume("late delivery: the re-arm loop evaluates unsuspended time for the instant its base timer carries; its estimate may be the true value of any instant between due and delivery, so firing, re-arm duration and reported duration are judged against that interval and lateness is bounded by the unsuspended time that passed during the injected delays")
	r.Assume("end to end the timeout and the virtual execution duration count from the moment runner.Run is entered; the executor's state updates go through an unbuffered (or already full) channel whose consumer receives each update only after the driver moved the base clock by 0, a few, or more than timeout units")
	r.Assume("fake runner returns status.FromContextError(ctx.Err()) when its context ends, as a gRPC client call does")
	if f := r.ReplayFile(); f != "" {
		var w struct {
			Witness struct {
				Case  tcase           `json:"case"`
				Round *stressRoundCfg `json:"round"`
			} `json:"witness"`
		}
		b, err := os.ReadFile(f)
		if err != nil || json.Unmarshal(b, &w) != nil || (w.Witness.Case.Kind == "" && w.Witness.Round == nil) {
			r.Inconclusive("cannot read replay file %s", f)
			return
		}
		if w.Witness.Round != nil {
			for i := 0; i < 20; i++ { // scheduling dependent
				concurrentRound(r, *w.Witness.Round)
			}
			return
		}
		runCase(r, w.Witness.Case)
		return
	}
	for _, s := range []string{"suspension-spanning-rearm", "suspension-at-creation", "cap-reached", "event-exactly-at-expiry", "zero-timeout",
		"early-cancel", "parent-cancel", "via-blob-access", "via-directory-fetcher", "remaining-equals-threshold-rearmed", "deadline-by-unsuspended-time"} {
		r.Floor(s, 10)
	}
	for _, s := range []string{"storage-call-failed-under-suspending-wrapper", "buffer-read-error-under-suspending-wrapper", "conservation-probe-after-timeline",
		"buffer-finished-by-discard", "buffer-finished-by-to-byte-slice", "buffer-finished-by-size-limit", "buffer-finished-by-to-proto", "buffer-finished-by-read-all",
		"buffer-finished-by-close-early", "buffer-finished-by-clone-copy", "buffer-finished-by-clone-stream", "buffer-finished-by-chunk-reader"} {
		r.Floor(s, 10)
	}
	r.Floor("later-action-on-same-clock", 5)
	r.Floor("state-update-parked-while-clock-advances:fetching-inputs", 5)
	r.Floor("state-update-parked-while-clock-advances:running", 5)
	// Late delivery of base timer expiries (the value carries the due time).
	r.Floor("expiry-delivered-after-complete-suspension", 10)
	r.Floor("expiry-delivered-late-while-unsuspended", 10)
	r.Floor("expiry-delivered-late-while-suspended", 10)
	r.Floor("executor-deadline-exceeded", 5)
	// The same timelines at other scales than milliseconds.
	for _, sc := range []string{"milliseconds", "millisecond-plus-nanosecond", "seconds", "minutes", "weeks"} {
		r.Floor("deadline-by-unsuspended-time-at-scale:"+sc, 10)
		r.Floor("cap-reached-at-scale:"+sc, 10)
	}
	r.Floor("executor-deadline-exceeded-timeout-of-seconds-or-more", 5)
	r.Floor("executor-ran-for-no-whole-number-of-milliseconds", 5)
	r.Floor("executor-finished-in-time", 5)

	r.Floor("concurrent-suspension-intervals", 200)
	r.Floor("intruder-launched-inside-base-now", 50)
	r.Floor("concurrent-round-with-uncertain-intervals", 20)

	// Concurrent monitor first: it changes GOMAXPROCS, which is process wide.
	for i := 0; i < r.Pick(300, 6000); i++ {
		rng := r.Rand(60, uint64(i))
		concurrentRound(r, stressRoundCfg{Round: i, Readers: 2 + rng.IntN(5), OpsEach: 3 + rng.IntN(6), InjectPct: []int{10, 30, 60}[rng.IntN(3)], Procs: []int{2, 4, 16}[rng.IntN(3)]})
	}

	r.Floor("invalid-timeout-rejected", 4)
	for i := 0; i < r.Pick(8, 40); i++ {
		invalidTimeoutCase(r, i)
	}

	nCtx := r.Pick(4000, 120000)
	nTimer := r.Pick(1600, 50000)
	nExec := r.Pick(240, 5000)

	jobs := make(chan tcase, 64)
	var wg sync.WaitGroup
	workers := 12
	if n := runtime.GOMAXPROCS(0); n < workers {
		workers = n
	}
	for w := 0; w < workers; w++ {
		wg.Add(1)
		go func() {
			defer wg.Done()
			for c := range jobs {
				runCase(r, c)
			}
		}()
	}
	idx := 0
	for i := 0; i < nCtx; i++ {
		jobs <- generate(r, idx, "context")
		idx++
	}
	for i := 0; i < nTimer; i++ {
		jobs <- generate(r, idx, "timer")
		idx++
	}
	for i := 0; i < nExec; i++ {
		jobs <- generate(r, idx, "executor")
		idx++
	}
	close(jobs)
	wg.Wait()
}
