package c11

import (
	"context"
	"fmt"
	"io"
	"math/rand/v2"
	"os"
	"path/filepath"
	"runtime"
	"sort"
	"strings"
	"sync"
	"sync/atomic"
	"time"

	remoteexecution "github.com/bazelbuild/remote-apis/build/bazel/remote/execution/v2"
	re_blobstore "github.com/buildbarn/bb-remote-execution/pkg/blobstore"
	"github.com/buildbarn/bb-remote-execution/pkg/builder"
	"github.com/buildbarn/bb-remote-execution/pkg/cas"
	"github.com/buildbarn/bb-remote-execution/pkg/cleaner"
	re_clock "github.com/buildbarn/bb-remote-execution/pkg/clock"
	"github.com/buildbarn/bb-remote-execution/pkg/proto/remoteworker"
	runner_pb "github.com/buildbarn/bb-remote-execution/pkg/proto/runner"
	"github.com/buildbarn/bb-storage/pkg/blobstore"
	"github.com/buildbarn/bb-storage/pkg/blobstore/buffer"
	"github.com/buildbarn/bb-storage/pkg/blobstore/slicing"
	"github.com/buildbarn/bb-storage/pkg/clock"
	"github.com/buildbarn/bb-storage/pkg/digest"
	"github.com/buildbarn/bb-storage/pkg/filesystem/path"

	"google.golang.org/grpc/codes"
	"google.golang.org/grpc/status"
	"google.golang.org/protobuf/types/known/durationpb"

	"verif/internal/ev"
	"verif/internal/vclock"
	"verif/internal/wexec"
)

const unit = time.Millisecond

var readerKinds = []string{"direct", "direct", "blob-get", "blob-get-error", "blob-composite", "blob-put", "blob-findmissing", "blob-capabilities", "dir-get", "dir-treeroot", "dir-treechild"}

type op struct {
	At     int    `json:"at"`
	What   string `json:"what"` // begin, end, create, cancel, parent-cancel
	Reader int    `json:"reader"`
}

type tcase struct {
	Idx       int      `json:"idx"`
	Kind      string   `json:"kind"`
	Timeout   int      `json:"timeout"`
	MaxSusp   int      `json:"max_compensation"`
	Threshold int      `json:"threshold"`
	Start     int      `json:"start"`
	Readers   []string `json:"readers"`
	Ops       []op     `json:"ops"`
	TieSeed   uint64   `json:"tie_seed"`
	// UnitNs is the length of one timeline unit in nanoseconds (0: 1 ms). The
	// same timelines are played at several scales, so that timeouts, stalls
	// and maximum compensations of seconds, minutes and weeks (seconds field
	// of the Action's timeout set, more than 2^31 ms) and durations that are
	// no whole number of milliseconds are reached as well.
	UnitNs int64 `json:"unit_ns,omitempty"`
}

func (c tcase) unitLen() time.Duration {
	if c.UnitNs <= 0 {
		return unit
	}
	return time.Duration(c.UnitNs)
}

// scaleName names the scale of a timeline for the situation counters.
func (c tcase) scaleName() string {
	switch u := c.unitLen(); {
	case u%time.Millisecond != 0:
		return "millisecond-plus-nanosecond"
	case u >= 24*time.Hour:
		return "weeks"
	case u >= time.Minute:
		return "minutes"
	case u >= time.Second:
		return "seconds"
	}
	return "milliseconds"
}

func pick(rng *rand.Rand, xs ...int) int { return xs[rng.IntN(len(xs))] }

func generate(r *ev.Run, idx int, kind string) tcase {
	rng := r.Rand(11, uint64(idx))
	c := tcase{Idx: idx, Kind: kind, TieSeed: rng.Uint64()}
	c.Timeout = pick(rng, 0, 1, 2, 3, 5, 8, 13, 20, 20, 40, 40, 100)
	c.Threshold = pick(rng, 1, 1, 2, 3, 5, 10)
	T := c.Timeout
	c.MaxSusp = pick(rng, 0, 1, 2, 5, T/2, T, T+7, 3*T+10, 150)
	if kind == "executor" && c.MaxSusp > 60 {
		c.MaxSusp = 60
	}
	c.Start = rng.IntN(13)
	horizon := c.Start + T + c.MaxSusp + 8
	nReaders := 1 + rng.IntN(4)
	for rd := 0; rd < nReaders; rd++ {
		c.Readers = append(c.Readers, readerKinds[rng.IntN(len(readerKinds))])
		t := rng.IntN(10)
		for n := 0; n < 10 && t <= horizon; n++ {
			gap := rng.IntN(max(3, T/2) + 1)
			length := max(1, pick(rng, 1, 1, 2, 3, 5, c.Threshold, c.Threshold+1, T/2+1, T, c.MaxSusp+1, c.MaxSusp/2+1))
			b := t + gap
			e := b + length
			c.Ops = append(c.Ops, op{At: b, What: "begin", Reader: rd}, op{At: e, What: "end", Reader: rd})
			t = e
		}
	}
	c.Ops = append(c.Ops, op{At: c.Start, What: "create", Reader: -1})
	if rng.IntN(4) == 0 || (kind == "executor" && rng.IntN(2) == 0) {
		c.Ops = append(c.Ops, op{At: c.Start + rng.IntN(T+c.MaxSusp+3), What: "cancel", Reader: -1})
	}
	if kind != "timer" && rng.IntN(8) == 0 {
		c.Ops = append(c.Ops, op{At: c.Start + rng.IntN(T+c.MaxSusp+3), What: "parent-cancel", Reader: -1})
	}
	sort.SliceStable(c.Ops, func(i, j int) bool { return c.Ops[i].At < c.Ops[j].At })
	// Scale of the timeline, drawn last so that everything else is as it was
	// before scales existed. No duration of a scaled timeline may fall into
	// the window that identifies the executor's housekeeping timers, and an
	// executor timeline must stay well below the upload delay in total.
	switch rng.IntN(10) {
	case 5:
		c.UnitNs = int64(time.Millisecond + time.Nanosecond)
	case 6, 7:
		c.UnitNs = int64(time.Second)
	case 8:
		c.UnitNs = int64(time.Minute)
	case 9:
		c.UnitNs = int64(7 * 24 * time.Hour)
		if kind == "executor" {
			c.UnitNs = int64(time.Millisecond + time.Nanosecond)
		}
	}
	return c
}

// ---------------------------------------------------------------------
// Gated base storage: calls park inside the base until the driver releases
// them, so that the interval during which the clock is suspended is exactly
// [begin, end) of the reader.

type parked struct {
	entered chan struct{}
	release chan struct{}
	fail    bool // the base call fails after having been released
}

var errScripted = status.Error(codes.Unavailable, "scripted storage failure")

type gatedBase struct {
	mu    sync.Mutex
	calls map[int]*parked // by reader
}

type readerKey struct{}

type passThroughKey struct{}

func (g *gatedBase) park(ctx context.Context) error {
	g.mu.Lock()
	p := g.calls[ctx.Value(readerKey{}).(int)]
	g.mu.Unlock()
	close(p.entered)
	<-p.release
	if p.fail {
		return errScripted
	}
	return nil
}

type pendingReader struct {
	closed atomic.Int32
	data   *strings.Reader
	// failAfter >= 0: Read fails once that many bytes were delivered.
	failAfter int
	delivered int
}

func (p *pendingReader) Read(b []byte) (int, error) {
	if p.failAfter >= 0 {
		if p.delivered >= p.failAfter {
			return 0, errScripted
		}
		if len(b) > p.failAfter-p.delivered {
			b = b[:p.failAfter-p.delivered]
		}
	}
	n, err := p.data.Read(b)
	p.delivered += n
	return n, err
}
func (p *pendingReader) Close() error { p.closed.Add(1); return nil }

var blobData = "hello, suspended world"
var blobDigest = wexec.DigestOf([]byte(blobData))
var errDigest = wexec.DigestOf([]byte("missing"))

func (g *gatedBase) Get(ctx context.Context, d digest.Digest) buffer.Buffer {
	if d == errDigest {
		return buffer.NewBufferFromError(status.Error(codes.NotFound, "no such blob"))
	}
	failAfter := -1
	if f, ok := ctx.Value(failAfterKey{}).(int); ok {
		failAfter = f
	}
	return buffer.NewCASBufferFromReader(d, &pendingReader{data: strings.NewReader(blobData), failAfter: failAfter}, buffer.UserProvided)
}

type failAfterKey struct{}

func (g *gatedBase) GetFromComposite(ctx context.Context, parentDigest, childDigest digest.Digest, slicer slicing.BlobSlicer) buffer.Buffer {
	return g.Get(ctx, childDigest)
}

func (g *gatedBase) Put(ctx context.Context, d digest.Digest, b buffer.Buffer) error {
	b.Discard()
	return g.park(ctx)
}

func (g *gatedBase) FindMissing(ctx context.Context, digests digest.Set) (digest.Set, error) {
	return digest.EmptySet, g.park(ctx)
}

func (g *gatedBase) GetCapabilities(ctx context.Context, instanceName digest.InstanceName) (*remoteexecution.ServerCapabilities, error) {
	if err := g.park(ctx); err != nil {
		return nil, err
	}
	return &remoteexecution.ServerCapabilities{}, nil
}

func (g *gatedBase) GetDirectory(ctx context.Context, d digest.Digest) (*remoteexecution.Directory, error) {
	if err := g.park(ctx); err != nil {
		return nil, err
	}
	return &remoteexecution.Directory{}, nil
}

func (g *gatedBase) GetTreeRootDirectory(ctx context.Context, d digest.Digest) (*remoteexecution.Directory, error) {
	if err := g.park(ctx); err != nil {
		return nil, err
	}
	return &remoteexecution.Directory{}, nil
}

func (g *gatedBase) GetTreeChildDirectory(ctx context.Context, treeDigest, childDigest digest.Digest) (*remoteexecution.Directory, error) {
	if err := g.park(ctx); err != nil {
		return nil, err
	}
	return &remoteexecution.Directory{}, nil
}

var (
	_ blobstore.BlobAccess = (*gatedBase)(nil)
	_ cas.DirectoryFetcher = (*gatedBase)(nil)
)

// ---------------------------------------------------------------------

type readerState struct {
	kind string
	open bool
	buf  buffer.Buffer
	done chan struct{}
	n    int
	// counted after the timeline (reader operations may run concurrently)
	failedCalls  int
	bufferErrors int
	consumed     map[string]int
}

type run struct {
	r    *ev.Run
	c    tcase
	unit time.Duration // length of one timeline unit
	clk  *vclock.Clock
	sc   *re_clock.SuspendableClock
	ba   blobstore.BlobAccess
	df   cas.DirectoryFetcher
	gb   *gatedBase
	tie  *rand.Rand

	nowU  int
	count int   // net suspensions as executed by the harness
	U     int64 // integrated unsuspended time, in units
	rds   []*readerState

	// object under test
	created      bool
	finished     bool
	startU       int64
	startAt      int
	ctx          context.Context
	cancel       context.CancelFunc
	parentCancel context.CancelFunc
	timer        clock.Timer
	timerCh      <-chan time.Time
	stopped      bool
	cancelledAt  int // instant of harness-made cancellation, -1 none
	cancelKind   string

	// executor variant
	exec *execState

	rel   atomic.Uint64
	lastD atomic.Int64 // duration (units) of the base timer created last
	lc    *lateClock
	// late delivery of expiries
	holdPct, holdsLeft int
	held               *heldExpiry
	holdBudget         int
	launching          bool  // the executor is on its way to the runner; the timeout does not count yet
	slack              int64 // unsuspended time that passed between due and delivery, summed
	lastDueRan         int64 // unsuspended run time at the due instant of the expiry delivered last
	lastDueAt          int
	lastHeld           bool
	hist               []string
	sits               map[string]bool
	inconcl            string
	violated           bool
}

// heldExpiry is a base timer that fell due but whose value has not reached
// the re-arm loop yet.
type heldExpiry struct {
	dueAt          int
	dueRan         int64
	countAtDue     int
	resumedToZero  bool
	suspendedAtDue bool
}

type execState struct {
	dir      string
	finish   chan struct{} // closed: runner returns exit code 0
	entered  chan context.Context
	response chan *remoteexecution.ExecuteResponse
	returned bool // Execute has returned and its response was received
	cleanup  func()
	// launch starts another Execute call (timeout in units) on the same
	// executor and clock and waits until its runner is entered.
	launch func(timeout int, park bool) bool
}

// relevantCreated counts the base timers created for the objects under test.
// The executor's own housekeeping context (writable file upload delay, seven
// hours) registers and stops its base timers asynchronously after Execute has
// returned; those are not counted, so that they cannot be mistaken for the
// re-arm loop of the object under test having settled.
// uploadDelay is the executor's maximum writable file upload delay; base
// timers of that (distinctive) length belong to its housekeeping context.
const uploadDelay = 7 * time.Hour

func housekeeping(d time.Duration) bool { return d >= uploadDelay && d < uploadDelay+time.Hour }

func (x *run) relevantCreated() uint64 { return x.rel.Load() }

// relevantPending counts registered base timers of objects under test.
func (x *run) relevantPending() int {
	n := 0
	for _, d := range x.clk.PendingDurations() {
		if !housekeeping(d) {
			n++
		}
	}
	return n
}

func (x *run) situation(s string) {
	if !x.sits[s] {
		x.sits[s] = true
		x.r.Situation(s)
	}
}

func (x *run) logf(format string, args ...any) {
	x.hist = append(x.hist, fmt.Sprintf("t=%d susp=%d U=%d ", x.nowU, x.count, x.U)+fmt.Sprintf(format, args...))
}

func (x *run) violation(sig, detail string) {
	x.violated = true
	x.logf("VIOLATION %s: %s", sig, detail)
	x.r.Violation("C11 "+sig+" object="+x.c.Kind, detail, map[string]any{"case": x.c, "history": x.hist, "detail": detail})
}

func (x *run) at(u int) time.Time { return time.Unix(1000, 0).UTC().Add(time.Duration(u) * x.unit) }

// wait polls cond (no wall-clock reading decides anything; the watchdog only
// yields "inconclusive").
func (x *run) wait(what string, cond func() bool) bool {
	deadline := time.Now().Add(40 * time.Second)
	for i := 0; !cond(); i++ {
		if i < 200 {
			runtime.Gosched()
		} else {
			time.Sleep(50 * time.Microsecond)
			if i%2000 == 0 && time.Now().After(deadline) {
				buf := make([]byte, 1<<20)
				buf = buf[:runtime.Stack(buf, true)]
				if len(buf) > 8000 {
					buf = buf[:8000]
				}
				x.inconcl = fmt.Sprintf("watchdog while waiting for %s; goroutines:\n%s", what, buf)
				return false
			}
		}
	}
	return true
}

func runCase(r *ev.Run, c tcase) {
	r.Case("case %d kind=%s unit=%v timeout=%d threshold=%d maxcomp=%d start=%d readers=%v ops=%d", c.Idx, c.Kind, c.unitLen(), c.Timeout, c.Threshold, c.MaxSusp, c.Start, c.Readers, len(c.Ops))
	clk := vclock.New(1000)
	lc := &lateClock{Clock: clk}
	unit := c.unitLen()
	sc := re_clock.NewSuspendableClock(lc, time.Duration(c.MaxSusp)*unit, time.Duration(c.Threshold)*unit)
	gb := &gatedBase{calls: map[int]*parked{}}
	x := &run{
		r: r, c: c, clk: clk, lc: lc, sc: sc, gb: gb, unit: unit,
		ba:          re_blobstore.NewSuspendingBlobAccess(gb, sc),
		df:          cas.NewSuspendingDirectoryFetcher(gb, sc),
		tie:         rand.New(rand.NewPCG(c.TieSeed, 99)),
		sits:        map[string]bool{},
		cancelledAt: -1,
	}
	clk.OnTimer = func(d time.Duration) {
		if !housekeeping(d) {
			x.lastD.Store(int64(d / unit))
			x.rel.Add(1)
		}
	}
	// Half of the timelines deliver some expiries late.
	if x.tie.IntN(2) == 0 {
		x.holdPct, x.holdsLeft = 40, 3
	}
	for _, k := range c.Readers {
		x.rds = append(x.rds, &readerState{kind: k})
	}
	if c.Timeout == 0 {
		x.situation("zero-timeout")
	}
	x.play()
	x.teardown()
	nontrivial := len(x.sits) > 0
	r.Hash(ev.HashOf(c.Kind, c.UnitNs, c.Timeout, c.Threshold, c.MaxSusp, strings.Join(x.hist, "|")), nontrivial)
	r.Count("timeline_events", len(c.Ops))
	if nontrivial && r.WantSample() && len(x.hist) > 8 {
		h := x.hist
		if len(h) > 60 {
			h = h[:60]
		}
		r.Sample(map[string]any{"case": c, "history": h})
	}
	if x.inconcl != "" {
		r.Inconclusive("case %d: %s", c.Idx, x.inconcl)
	}
}

func (x *run) advanceTo(u int) {
	if u <= x.nowU {
		return
	}
	x.checkNotMissed()
	if x.count == 0 {
		x.U += int64(u - x.nowU)
	}
	x.nowU = u
	x.clk.Set(x.at(u))
}

func (x *run) ran() int64 { return x.U - x.startU }

// checkNotMissed is evaluated before the clock leaves the current instant,
// when every base timer due now has fired and has been handled.
func (x *run) checkNotMissed() {
	if !x.created || x.finished || x.stopped || x.held != nil || x.launching {
		return
	}
	if x.isDone() {
		x.onFinish("spontaneously")
		return
	}
	capAt := x.startAt + x.c.Timeout + x.c.MaxSusp
	if x.ran() >= int64(x.c.Timeout)+x.slack {
		x.violation("deadline-missed-by-unsuspended-time", fmt.Sprintf("the command has run %d units unsuspended, timeout %d (+%d units that passed unsuspended while expiries were delivered late), and nothing fired before the clock moved on", x.ran(), x.c.Timeout, x.slack))
		x.finished = true
	} else if x.nowU >= capAt {
		x.violation("deadline-missed-by-wall-cap", fmt.Sprintf("wall time %d reached start+timeout+maximum compensation = %d and nothing fired", x.nowU, capAt))
		x.finished = true
	}
}

func (x *run) isDone() bool {
	switch {
	case x.ctx != nil:
		select {
		case <-x.ctx.Done():
			return true
		default:
			return false
		}
	case x.timerCh != nil:
		return len(x.timerCh) > 0
	}
	return false
}

func (x *run) play() {
	ops := x.c.Ops
	i := 0
	for steps := 0; ; steps++ {
		if x.inconcl != "" || x.violated {
			return
		}
		if steps > 20000 {
			x.inconcl = "step limit"
			return
		}
		if x.created && !x.finished && !x.stopped && x.isDone() {
			x.onFinish("after the previous step")
			continue
		}
		nextEv := 1 << 30
		if i < len(ops) {
			nextEv = ops[i].At
		}
		nextTimer := 1 << 30
		if nd, ok := x.clk.NextDeadline(); ok && x.created && !x.finished && !x.stopped {
			nextTimer = int(nd.Sub(x.at(0)) / x.unit)
			if nextTimer < x.nowU {
				nextTimer = x.nowU
			}
		}
		if x.held != nil && (x.finished || x.stopped) {
			// Decided by cancellation/Stop while an expiry was still
			// undelivered: the late expiry no longer matters.
			x.held = nil
			x.lc.deliver()
		}
		if x.held != nil {
			if x.holdBudget <= 0 || (nextEv == 1<<30 && nextTimer == 1<<30) {
				// Let some more time pass, then hand the expiry over.
				if x.tie.IntN(2) == 0 {
					x.advanceTo(min(x.nowU+1+x.tie.IntN(3), nextEv, nextTimer))
				}
				x.deliverHeld()
				continue
			}
			x.holdBudget--
		}
		if nextEv == 1<<30 && nextTimer == 1<<30 {
			if x.created && !x.finished && !x.stopped {
				x.violation("no-base-timer-pending-and-not-fired", "the object under test is neither done nor waiting for any base timer")
			}
			return
		}
		timerFirst := nextTimer < nextEv
		if nextTimer == nextEv {
			x.situation("event-exactly-at-expiry")
			timerFirst = x.tie.IntN(2) == 0
		}
		if timerFirst {
			x.advanceTo(nextTimer)
			x.fire()
			continue
		}
		x.advanceTo(nextEv)
		// Operations of different readers at one instant run concurrently.
		j := i
		seen := map[int]bool{}
		for j < len(ops) && ops[j].At == nextEv && ops[j].Reader >= 0 && !seen[ops[j].Reader] {
			seen[ops[j].Reader] = true
			j++
		}
		if j-i >= 2 {
			var wg sync.WaitGroup
			deltas := make([]int, j-i)
			for k := i; k < j; k++ {
				wg.Add(1)
				go func(k int) {
					defer wg.Done()
					deltas[k-i] = x.readerOp(ops[k])
				}(k)
			}
			wg.Wait()
			for k, d := range deltas {
				x.addCount(d)
				x.logf("reader %d %s (%s) concurrently", ops[i+k].Reader, ops[i+k].What, x.rds[ops[i+k].Reader].kind)
			}
			i = j
			continue
		}
		o := ops[i]
		i++
		switch o.What {
		case "begin", "end":
			x.addCount(x.readerOp(o))
			x.logf("reader %d %s (%s)", o.Reader, o.What, x.rds[o.Reader].kind)
		case "create":
			x.create()
		case "cancel":
			x.doCancel("cancel")
		case "parent-cancel":
			x.doCancel("parent-cancel")
		}
	}
}

// readerOp performs one reader operation and returns the change of the
// suspension count it caused.
func (x *run) readerOp(o op) int {
	rd := x.rds[o.Reader]
	ctx := context.WithValue(context.Background(), readerKey{}, o.Reader)
	if o.What == "begin" {
		if x.finished && x.created {
			return 0 // object decided; do not open new intervals
		}
		rd.open = true
		rd.n++
		switch rd.kind {
		case "direct":
			x.sc.Suspend()
			return 1
		case "blob-get", "blob-composite":
			// A third of the buffers fail before any data, a third
			// mid-stream.
			switch (rd.n + o.Reader + x.c.Idx/9) % 3 {
			case 1:
				ctx = context.WithValue(ctx, failAfterKey{}, 0)
				rd.bufferErrors++
			case 2:
				ctx = context.WithValue(ctx, failAfterKey{}, 5)
				rd.bufferErrors++
			}
			if rd.kind == "blob-get" {
				rd.buf = x.ba.Get(ctx, blobDigest)
			} else {
				rd.buf = x.ba.GetFromComposite(ctx, blobDigest, blobDigest, nil)
			}
			return 1
		case "blob-get-error":
			// The base fails at once: the handler is done at once,
			// the clock is not left suspended.
			rd.buf = x.ba.Get(ctx, errDigest)
			return 0
		default:
			p := &parked{entered: make(chan struct{}), release: make(chan struct{}), fail: (rd.n+o.Reader)%2 == 0}
			if p.fail {
				rd.failedCalls++
			}
			x.gb.mu.Lock()
			x.gb.calls[o.Reader] = p
			x.gb.mu.Unlock()
			rd.done = make(chan struct{})
			go func(kind string, done chan struct{}) {
				defer close(done)
				switch kind {
				case "blob-put":
					x.ba.Put(ctx, blobDigest, buffer.NewValidatedBufferFromByteSlice([]byte(blobData)))
				case "blob-findmissing":
					x.ba.FindMissing(ctx, blobDigest.ToSingletonSet())
				case "blob-capabilities":
					x.ba.GetCapabilities(ctx, digest.EmptyInstanceName)
				case "dir-get":
					x.df.GetDirectory(ctx, blobDigest)
				case "dir-treeroot":
					x.df.GetTreeRootDirectory(ctx, blobDigest)
				case "dir-treechild":
					x.df.GetTreeChildDirectory(ctx, blobDigest, blobDigest)
				}
			}(rd.kind, rd.done)
			<-p.entered
			return 1
		}
	}
	// end
	if !rd.open {
		return 0
	}
	rd.open = false
	switch rd.kind {
	case "direct":
		x.sc.Resume()
		return -1
	case "blob-get", "blob-composite":
		// Every way of finishing the buffer has to resume the clock
		// exactly once, whether the data arrives or not.
		how := []string{"discard", "to-byte-slice", "size-limit", "to-proto", "read-all", "close-early", "clone-copy", "clone-stream", "chunk-reader"}[(rd.n*7+o.Reader*3+x.c.Idx)%9]
		if rd.consumed == nil {
			rd.consumed = map[string]int{}
		}
		rd.consumed[how]++
		switch how {
		case "discard":
			rd.buf.Discard()
		case "to-byte-slice":
			rd.buf.ToByteSlice(1 << 10)
		case "size-limit":
			rd.buf.ToByteSlice(4)
		case "to-proto":
			rd.buf.ToProto(&remoteexecution.Directory{}, 1<<10)
		case "read-all":
			rc := rd.buf.ToReader()
			io.Copy(io.Discard, rc)
			rc.Close()
		case "close-early":
			rc := rd.buf.ToReader()
			var one [3]byte
			rc.Read(one[:])
			rc.Close()
		case "clone-copy":
			b1, b2 := rd.buf.CloneCopy(1 << 10)
			b1.Discard()
			b2.ToByteSlice(1 << 10)
		case "clone-stream":
			b1, b2 := rd.buf.CloneStream()
			var wg sync.WaitGroup
			wg.Add(2)
			go func() { defer wg.Done(); b1.ToByteSlice(1 << 10) }()
			go func() { defer wg.Done(); b2.ToByteSlice(1 << 10) }()
			wg.Wait()
		case "chunk-reader":
			cr := rd.buf.ToChunkReader(0, 8)
			for {
				if _, err := cr.Read(); err != nil {
					break
				}
			}
			cr.Close()
		}
		return -1
	case "blob-get-error":
		rd.buf.ToByteSlice(1 << 10)
		return 0
	default:
		x.gb.mu.Lock()
		p := x.gb.calls[o.Reader]
		x.gb.mu.Unlock()
		close(p.release)
		<-rd.done
		return -1
	}
}

func (x *run) create() {
	x.created = true
	x.startAt = x.nowU
	x.startU = x.U
	if x.count > 0 {
		x.situation("suspension-at-creation")
	}
	for _, k := range x.c.Readers {
		if strings.HasPrefix(k, "blob-") {
			x.situation("via-blob-access")
		}
		if strings.HasPrefix(k, "dir-") {
			x.situation("via-directory-fetcher")
		}
	}
	before := x.relevantCreated()
	d := time.Duration(x.c.Timeout) * x.unit
	switch x.c.Kind {
	case "context":
		parent, pc := context.WithCancel(context.WithValue(context.Background(), passThroughKey{}, x.c.Idx))
		x.parentCancel = pc
		x.ctx, x.cancel = x.sc.NewContextWithTimeout(parent, d)
		if v, _ := x.ctx.Value(passThroughKey{}).(int); v != x.c.Idx {
			x.violation("context-hides-parent-values", "a value of the parent context is not visible through the context with timeout")
		}
		if now := x.sc.Now(); !now.Equal(x.at(x.nowU)) {
			x.violation("suspendable-clock-now-differs-from-base", fmt.Sprintf("%v vs %v", now, x.at(x.nowU)))
		}
	case "timer":
		// The first base timer NewTimer creates is the wall-clock cap; it
		// is always delivered on time (the cap oracle is exact).
		x.lc.noHold.Store(x.lc.seq.Load() + 1)
		x.timer, x.timerCh = x.sc.NewTimer(d)
	case "executor":
		if !x.startExecutor() {
			return
		}
	}
	x.logf("create %s", x.c.Kind)
	// The re-arm loop registers its first base timer asynchronously.
	x.wait("the first base timer", func() bool { return x.relevantCreated() >= before+2 || x.isDone() })
}

func (x *run) addCount(d int) {
	prev := x.count
	x.count += d
	if x.held != nil && prev > 0 && x.count == 0 {
		x.held.resumedToZero = true
	}
}

func (x *run) fire() {
	before := x.relevantCreated()
	pendingBefore := x.clk.Pending()
	hold := x.held == nil && x.holdsLeft > 0 && x.tie.IntN(100) < x.holdPct
	parkedBefore := x.lc.parked.Load()
	if hold {
		x.lc.hold.Store(true)
	}
	if !x.clk.FireNext(x.at(x.nowU)) {
		x.lc.hold.Store(false)
		x.inconcl = "no base timer was due although one was announced"
		return
	}
	x.logf("base timer fires (pending %d)", pendingBefore)
	if !x.wait("the re-arm loop to register its next base timer or finish", func() bool {
		return x.lc.parked.Load() > parkedBefore || x.relevantCreated() > before || x.isDone()
	}) {
		return
	}
	if x.lc.parked.Load() > parkedBefore {
		x.holdsLeft--
		x.held = &heldExpiry{dueAt: x.nowU, dueRan: x.ran(), countAtDue: x.count, suspendedAtDue: x.count > 0}
		x.holdBudget = x.tie.IntN(4)
		x.logf("expiry due now is NOT delivered yet (up to %d events first)", x.holdBudget)
		return
	}
	x.lc.hold.Store(false) // the timer that fired was not a holdable one
	if x.held != nil {
		// Some other timer (the wall cap) fired while an expiry is held.
		if x.isDone() {
			x.lastDueAt, x.lastHeld = x.nowU, false
			x.onFinish("base timer")
		}
		return
	}
	x.afterDelivery(&heldExpiry{dueAt: x.nowU, dueRan: x.ran(), countAtDue: x.count, suspendedAtDue: x.count > 0}, false)
}

// deliverHeld hands the deferred expiry (carrying its due time) to the
// re-arm loop.
func (x *run) deliverHeld() {
	h := x.held
	before := x.relevantCreated()
	x.logf("expiry that was due at t=%d is delivered", h.dueAt)
	x.lc.deliver()
	if !x.wait("the re-arm loop to handle the late expiry", func() bool { return x.relevantCreated() > before || x.isDone() }) {
		return
	}
	x.held = nil
	switch {
	case h.resumedToZero && x.count == 0:
		x.situation("expiry-delivered-after-complete-suspension")
	case x.count > 0:
		x.situation("expiry-delivered-late-while-suspended")
	case x.nowU > h.dueAt:
		x.situation("expiry-delivered-late-while-unsuspended")
	}
	x.afterDelivery(h, true)
}

// afterDelivery judges what the re-arm loop did with an expiry that was due
// at h.dueAt and reached it now. The loop evaluates the unsuspended time for
// the instant the timer carries, so its estimate lies between the true value
// at the due instant and the true value now.
func (x *run) afterDelivery(h *heldExpiry, late bool) {
	T, th := int64(x.c.Timeout), int64(x.c.Threshold)
	ranL := x.ran()
	x.slack += ranL - h.dueRan
	x.lastDueRan, x.lastDueAt, x.lastHeld = h.dueRan, h.dueAt, late
	if x.isDone() {
		x.onFinish("base timer")
		return
	}
	if x.finished || x.stopped {
		return
	}
	if h.dueRan > T-th {
		x.violation("expiry-within-threshold-not-acted-upon", fmt.Sprintf("when the base timer fell due (t=%d) the command had run %d of %d units unsuspended (threshold %d), yet the context/timer was re-armed instead of firing", h.dueAt, h.dueRan, T, th))
		return
	}
	if d := x.lastD.Load(); d > T-h.dueRan || d < T-ranL {
		x.violation("re-armed-for-wrong-duration", fmt.Sprintf("after the expiry due at t=%d (delivered at t=%d) the base timer was re-armed for %d units; the unsuspended budget left was %d units at the due instant and %d units at delivery", h.dueAt, x.nowU, d, T-h.dueRan, T-ranL))
		return
	}
	if h.suspendedAtDue {
		x.situation("suspension-spanning-rearm")
	}
	if T-ranL == th {
		x.situation("remaining-equals-threshold-rearmed")
	}
}

func (x *run) doCancel(kind string) {
	if !x.created || x.finished || x.stopped {
		return
	}
	if x.isDone() {
		x.onFinish("before " + kind)
		return
	}
	x.cancelledAt = x.nowU
	x.cancelKind = kind
	x.logf("%s", kind)
	switch x.c.Kind {
	case "context":
		if kind == "cancel" {
			x.situation("early-cancel")
			x.cancel()
		} else {
			x.situation("parent-cancel")
			x.parentCancel()
		}
		if x.wait("the context to observe the cancellation", x.isDone) {
			x.onFinish(kind)
		}
	case "timer":
		x.situation("early-cancel")
		if !x.timer.Stop() {
			x.violation("stop-of-pending-timer-returned-false", "Stop() returned false although the timer had not fired")
		}
		x.stopped = true
		x.wait("the timer loop to stop its base timers", func() bool { return x.relevantPending() == 0 })
		if len(x.timerCh) > 0 {
			x.violation("stopped-timer-fired", "a value was delivered on the channel of a stopped timer")
		}
	case "executor":
		if kind == "cancel" {
			x.situation("early-cancel")
			close(x.exec.finish)
		} else {
			x.situation("parent-cancel")
			x.parentCancel()
		}
		x.finishExecutor(kind)
	}
}

// onFinish judges the instant at which the object under test fired.
func (x *run) onFinish(cause string) {
	x.finished = true
	if x.held != nil {
		// Decided while an expiry was still undelivered (cancellation,
		// wall cap): the late expiry no longer matters.
		x.held = nil
		x.lc.deliver()
	}
	T, th := int64(x.c.Timeout), int64(x.c.Threshold)
	capAt := x.startAt + x.c.Timeout + x.c.MaxSusp
	ran := x.ran()
	x.logf("object done (%s): ran=%d", cause, ran)
	byUnsuspended := ran > T-th && ran <= T+x.slack
	byCap := x.nowU == capAt
	harnessCancelled := x.cancelledAt == x.nowU
	// An expiry delivered late carries its due time: the loop's figure may
	// be the unsuspended time of any instant between due and delivery.
	reportedOK := func(val time.Duration) bool {
		if x.lastHeld && cause == "base timer" {
			return val >= time.Duration(x.lastDueRan)*x.unit && val <= time.Duration(ran)*x.unit
		}
		return val == time.Duration(ran)*x.unit
	}
	switch x.c.Kind {
	case "context":
		err := x.ctx.Err()
		val, _ := x.ctx.Value(re_clock.UnsuspendedDurationKey{}).(time.Duration)
		x.cancel()
		switch {
		case err == context.Canceled:
			if !harnessCancelled {
				x.violation("context-cancelled-without-cause", fmt.Sprintf("Err()=%v at t=%d without cancellation by the harness", err, x.nowU))
			}
		case err == context.DeadlineExceeded:
			x.judgeDeadline(byUnsuspended, byCap, ran, capAt)
		default:
			x.violation("done-context-without-error", fmt.Sprintf("Done() is closed but Err()=%v", err))
		}
		if !reportedOK(val) {
			x.violation("reported-unsuspended-duration-wrong cause="+causeClass(err), fmt.Sprintf("UnsuspendedDurationKey=%v, the command ran %v unsuspended (start %d, now %d; %v at the due instant t=%d of the last expiry)", val, time.Duration(ran)*x.unit, x.startAt, x.nowU, time.Duration(x.lastDueRan)*x.unit, x.lastDueAt))
		}
		x.wait("base timers of the finished context to be stopped", func() bool { return x.relevantPending() == 0 })
	case "timer":
		v := <-x.timerCh
		if !v.Equal(x.at(x.lastDueAt)) {
			x.violation("timer-delivered-wrong-time", fmt.Sprintf("delivered %v, the base timer that made it fire was due at %v", v, x.at(x.lastDueAt)))
		}
		x.judgeDeadline(byUnsuspended, byCap, ran, capAt)
		if x.timer.Stop() {
			x.violation("stop-of-fired-timer-returned-true", "Stop() returned true after the timer had fired")
		}
	case "executor":
		x.finishExecutor("deadline")
	}
}

func causeClass(err error) string {
	switch err {
	case context.Canceled:
		return "canceled"
	case context.DeadlineExceeded:
		return "deadline"
	}
	return "other"
}

func (x *run) judgeDeadline(byUnsuspended, byCap bool, ran int64, capAt int) {
	switch {
	case byUnsuspended:
		x.situation("deadline-by-unsuspended-time")
		if x.c.Timeout > 0 {
			x.situation("deadline-by-unsuspended-time-at-scale:" + x.c.scaleName())
		}
	case byCap:
		x.situation("cap-reached")
		if x.c.MaxSusp > 0 {
			x.situation("cap-reached-at-scale:" + x.c.scaleName())
		}
	case ran <= int64(x.c.Timeout-x.c.Threshold):
		x.violation("deadline-fired-early", fmt.Sprintf("fired at t=%d after only %d units of unsuspended run time (timeout %d, threshold %d, wall cap at %d)", x.nowU, ran, x.c.Timeout, x.c.Threshold, capAt))
	default:
		x.violation("deadline-fired-late", fmt.Sprintf("fired at t=%d after %d units of unsuspended run time (timeout %d, wall cap at %d)", x.nowU, ran, x.c.Timeout, capAt))
	}
}

func (x *run) teardown() {
	// Close every open reader interval so that no goroutine stays parked.
	for i, rd := range x.rds {
		if rd.open {
			x.count += x.readerOp(op{What: "end", Reader: i})
		}
	}
	if x.cancel != nil {
		x.cancel()
	}
	if x.parentCancel != nil {
		x.parentCancel()
	}
	if x.timer != nil {
		x.timer.Stop()
	}
	x.awaitExecutor()
	// Second step on the same clock: with no reader operation in
	// progress the clock must run again.
	if x.inconcl == "" && !x.violated && (x.exec == nil || x.exec.returned) {
		x.finished = true
		x.probe()
		if x.exec != nil && x.inconcl == "" && !x.violated {
			x.secondAction()
		}
	}
	if x.parentCancel != nil {
		x.parentCancel()
	}
	x.awaitExecutor()
	if x.exec != nil && x.exec.returned {
		x.exec.cleanup()
	}
	for _, rd := range x.rds {
		if rd.failedCalls > 0 {
			x.r.SituationN("storage-call-failed-under-suspending-wrapper", rd.failedCalls)
		}
		if rd.bufferErrors > 0 {
			x.r.SituationN("buffer-read-error-under-suspending-wrapper", rd.bufferErrors)
		}
		for how, n := range rd.consumed {
			x.r.SituationN("buffer-finished-by-"+how, n)
		}
	}
}

func (x *run) awaitExecutor() {
	if x.exec != nil && !x.exec.returned {
		// Never remove the build directory under a running executor.
		x.parentCancel()
		select {
		case <-x.exec.response:
			x.exec.returned = true
		case <-time.After(40 * time.Second):
			x.inconcl = "executor did not return at teardown"
		}
	}
}

// fireUntilDone advances the base clock timer by timer until ctx is done.
func (x *run) fireUntilDone(ctx context.Context, limit int) bool {
	for steps := 0; steps < limit; steps++ {
		select {
		case <-ctx.Done():
			return true
		default:
		}
		nd, ok := x.clk.NextDeadline()
		if !ok {
			return false
		}
		u := int(nd.Sub(x.at(0)) / x.unit)
		x.advanceTo(u)
		created := x.relevantCreated()
		if !x.clk.FireNext(x.at(x.nowU)) {
			return false
		}
		x.logf("base timer fires; pending now %v", x.clk.PendingDurations())
		if !x.wait("the re-arm loop after a probe timer", func() bool {
			select {
			case <-ctx.Done():
				return true
			default:
				return x.relevantCreated() > created
			}
		}) {
			return false
		}
	}
	select {
	case <-ctx.Done():
		return true
	default:
		return false
	}
}

// probe is the conservation check: no reader operation is in progress any
// more (by the harness' own timeline), so a fresh context on the same clock
// has to expire after exactly its timeout of wall time and report that much
// unsuspended time.
func (x *run) probe() {
	if !x.wait("base timers of the finished object to be stopped", func() bool { return x.relevantPending() == 0 }) {
		return
	}
	if x.count != 0 {
		x.inconcl = fmt.Sprintf("harness bookkeeping: %d suspensions open after the timeline", x.count)
		return
	}
	P := x.c.Threshold + 2
	before := x.relevantCreated()
	ctx, cancel := x.sc.NewContextWithTimeout(context.Background(), time.Duration(P)*x.unit)
	defer cancel()
	if !x.wait("the probe's first base timer", func() bool { return x.relevantCreated() >= before+2 }) {
		return
	}
	start := x.nowU
	x.logf("probe context created (timeout %d) pending=%v", P, x.clk.PendingDurations())
	done := x.fireUntilDone(ctx, P+x.c.MaxSusp+10)
	if x.inconcl != "" {
		return
	}
	val, _ := ctx.Value(re_clock.UnsuspendedDurationKey{}).(time.Duration)
	x.logf("probe done=%v after %d units, reports %v", done, x.nowU-start, val)
	x.r.Situation("conservation-probe-after-timeline")
	if !done || x.nowU-start != P || val != time.Duration(P)*x.unit || ctx.Err() != context.DeadlineExceeded {
		x.violation("clock-suspended-although-no-reader-operation-in-progress",
			fmt.Sprintf("after the timeline every reader operation has returned, yet a fresh context with timeout %d units expired=%v after %d units of wall time reporting %v unsuspended (err=%v): some suspension was never resumed", P, done, x.nowU-start, val, ctx.Err()))
	}
	cancel()
	x.wait("base timers of the probe to be stopped", func() bool { return x.relevantPending() == 0 })
}

// secondAction runs a later action on the same executor and clock.
func (x *run) secondAction() {
	P := x.c.Threshold + 3
	if !x.wait("base timers of earlier objects to be stopped", func() bool { return x.relevantPending() == 0 }) {
		return
	}
	before := x.relevantCreated()
	if !x.exec.launch(P, false) {
		return
	}
	ctx := x.ctx
	// The run context's re-arm loop registers its first base timer (and
	// reads its starting point) asynchronously.
	if !x.wait("the second action's first base timer", func() bool { return x.relevantCreated() >= before+2 }) {
		return
	}
	start := x.nowU
	x.logf("second action started (timeout %d)", P)
	done := x.fireUntilDone(ctx, P+x.c.MaxSusp+10)
	if x.inconcl != "" {
		return
	}
	if !done {
		x.violation("later-action-never-timed-out", fmt.Sprintf("a second action with timeout %d units on the same clock was not cancelled within timeout + maximum compensation", P))
		return
	}
	var resp *remoteexecution.ExecuteResponse
	select {
	case resp = <-x.exec.response:
		x.exec.returned = true
	case <-time.After(40 * time.Second):
		x.inconcl = "second Execute did not return after its run context ended"
		return
	}
	code := codes.Code(resp.GetStatus().GetCode())
	ved := resp.GetResult().GetExecutionMetadata().GetVirtualExecutionDuration().AsDuration()
	x.logf("second action: code=%v after %d units, virtual_execution_duration=%v", code, x.nowU-start, ved)
	x.r.Situation("later-action-on-same-clock")
	if x.unit%time.Millisecond != 0 {
		x.situation("executor-ran-for-no-whole-number-of-milliseconds")
	}
	if code != codes.DeadlineExceeded || x.nowU-start != P || ved != time.Duration(P)*x.unit {
		x.violation("later-action-timeout-not-by-unsuspended-time",
			fmt.Sprintf("a second action (timeout %d units, no storage activity) ended with %v after %d units of wall time and virtual_execution_duration=%v", P, code, x.nowU-start, ved))
	}
}

// ---------------------------------------------------------------------
// End-to-end variant: the run context of LocalBuildExecutor.

func (x *run) startExecutor() bool {
	dir, err := os.MkdirTemp("", "verif-c11-")
	if err != nil {
		x.inconcl = err.Error()
		return false
	}
	store := wexec.NewCAS()
	root, closer, err := wexec.NewNaiveRoot(dir, store)
	if err != nil {
		os.RemoveAll(dir)
		x.inconcl = err.Error()
		return false
	}
	es := &execState{dir: dir, entered: make(chan context.Context, 1), response: make(chan *remoteexecution.ExecuteResponse, 1)}
	es.cleanup = func() { closer.Close(); os.RemoveAll(dir) }
	x.exec = es
	var counter atomic.Uint64
	creator := builder.NewSharedBuildDirectoryCreator(
		builder.NewCleanBuildDirectoryCreator(
			builder.NewRootBuildDirectoryCreator(root),
			cleaner.NewIdleInvoker(cleaner.NewDirectoryCleaner(closer, dir))),
		&counter)
	runner := &wexec.Runner{RunFunc: func(ctx context.Context, req *runner_pb.RunRequest) (*runner_pb.RunResponse, error) {
		os.WriteFile(filepath.Join(dir, req.StdoutPath), nil, 0o644)
		os.WriteFile(filepath.Join(dir, req.StderrPath), nil, 0o644)
		finish := es.finish
		es.entered <- ctx
		select {
		case <-ctx.Done():
			return nil, wexec.ContextError(ctx)
		case <-finish:
			return &runner_pb.RunResponse{ExitCode: 0}, nil
		}
	}}
	executor := builder.NewLocalBuildExecutor(store, creator, runner, x.sc, uploadDelay, nil, 1<<20, nil, false)
	launches := 0
	es.launch = func(timeout int, park bool) bool {
		launches++
		es.finish = make(chan struct{})
		es.returned = false
		action := &remoteexecution.Action{
			CommandDigest:   store.PutProto(&remoteexecution.Command{Arguments: []string{"true", fmt.Sprint(launches)}}).GetProto(),
			InputRootDigest: store.PutProto(&remoteexecution.Directory{}).GetProto(),
			Timeout:         durationpb.New(time.Duration(timeout) * x.unit),
			DoNotCache:      (x.c.Idx+launches)%2 == 0,
		}
		request := &remoteworker.DesiredState_Executing{ActionDigest: store.PutProto(action).GetProto(), Action: action}
		parent, pc := context.WithCancel(context.Background())
		x.parentCancel = pc
		// The consumer of the execution state updates is gated by the
		// driver: Execute stays parked in each send until the driver, after
		// having advanced the base clock, receives the update. Time spent
		// parked there is neither run time nor a storage stall.
		var updates chan *remoteworker.CurrentState_Executing
		if (x.c.Idx+launches)%2 == 0 {
			updates = make(chan *remoteworker.CurrentState_Executing)
		} else {
			updates = make(chan *remoteworker.CurrentState_Executing, 1)
			updates <- &remoteworker.CurrentState_Executing{} // already full
		}
		drain := func() {
			go func() {
				for range updates {
				}
			}()
		}
		go func() {
			resp := executor.Execute(parent, nil, nil, wexec.DigestFunction, request, updates)
			close(updates)
			es.response <- resp
		}()
		x.launching = true
		defer func() { x.launching = false }()
		for received := 0; ; received++ {
			if park && received < 2 {
				// Execute cannot get past its second send (Running) before
				// the second receive below, whether the channel is
				// unbuffered or was full: up to here the command is not
				// running yet. Give Execute the chance to reach its next
				// send, then let the clock move while it is parked there.
				rel := x.relevantCreated()
				for y := 0; y < 300 && x.relevantCreated() == rel && len(es.entered) == 0; y++ {
					runtime.Gosched()
				}
				if len(es.entered) == 0 {
					d := []int{0, 1 + x.tie.IntN(3), timeout + 2}[x.tie.IntN(3)]
					x.advanceTo(x.nowU + d)
					if d > 0 {
						x.situation([]string{"state-update-parked-while-clock-advances:fetching-inputs", "state-update-parked-while-clock-advances:running"}[received])
						x.logf("clock advanced %d units while state update #%d was not received", d, received+1)
					}
				}
			}
			select {
			case <-updates:
				continue
			case x.ctx = <-es.entered:
				// The timeout counts from here: the command starts to run.
				x.startAt, x.startU = x.nowU, x.U
				if now := x.clk.Now(); !now.Equal(x.at(x.nowU)) {
					x.inconcl = "harness: base clock moved behind the driver's back"
				}
				drain()
				return true
			case resp := <-es.response:
				es.returned = true
				x.violation("executor-did-not-reach-runner", fmt.Sprintf("Execute returned %v before running the command", resp.GetStatus()))
				x.finished = true
				drain()
				return false
			case <-time.After(40 * time.Second):
				x.inconcl = "executor did not reach the runner"
				drain()
				return false
			}
		}
	}
	return es.launch(x.c.Timeout, true)
}

func (x *run) finishExecutor(cause string) {
	x.finished = true
	ran := x.ran()
	var resp *remoteexecution.ExecuteResponse
	select {
	case resp = <-x.exec.response:
		x.exec.returned = true
	case <-time.After(40 * time.Second):
		buf := make([]byte, 1<<20)
		buf = buf[:runtime.Stack(buf, true)]
		x.inconcl = "Execute did not return after its run context ended; history: " + strings.Join(x.hist, " | ") + "\n" + string(buf)
		return
	}
	code := codes.Code(resp.GetStatus().GetCode())
	ved := resp.GetResult().GetExecutionMetadata().GetVirtualExecutionDuration()
	x.logf("executor returned code=%v virtual_execution_duration=%v", code, ved.AsDuration())
	T, th := int64(x.c.Timeout), int64(x.c.Threshold)
	capAt := x.startAt + x.c.Timeout + x.c.MaxSusp
	switch cause {
	case "deadline":
		if code != codes.DeadlineExceeded {
			x.violation("timeout-not-reported-as-deadline-exceeded", fmt.Sprintf("run context ended by timeout, response status is %v %q", code, resp.GetStatus().GetMessage()))
		}
		x.situation("executor-deadline-exceeded")
		if x.c.Timeout > 0 && x.unit >= time.Second {
			x.situation("executor-deadline-exceeded-timeout-of-seconds-or-more")
		}
		x.judgeDeadline(ran > T-th && ran <= T+x.slack, x.nowU == capAt, ran, capAt)
	case "cancel":
		if code != codes.OK || resp.GetResult().GetExitCode() != 0 {
			x.violation("in-time-command-not-reported-ok", fmt.Sprintf("command finished after %d of %d units, response status is %v %q", ran, T, code, resp.GetStatus().GetMessage()))
		}
		x.situation("executor-finished-in-time")
	case "parent-cancel":
		if code != codes.Canceled {
			x.violation("cancelled-action-reported-otherwise", fmt.Sprintf("action cancelled by its caller, response status is %v %q", code, resp.GetStatus().GetMessage()))
		}
	}
	if ran > 0 && x.unit%time.Millisecond != 0 {
		x.situation("executor-ran-for-no-whole-number-of-milliseconds")
	}
	vedOK := ved != nil && ved.AsDuration() == time.Duration(ran)*x.unit
	if ved != nil && cause == "deadline" && x.lastHeld {
		vedOK = ved.AsDuration() >= time.Duration(x.lastDueRan)*x.unit && ved.AsDuration() <= time.Duration(ran)*x.unit
	}
	if !vedOK {
		x.violation("virtual-execution-duration-wrong cause="+cause, fmt.Sprintf("virtual_execution_duration=%v, the command ran %v unsuspended", ved.AsDuration(), time.Duration(ran)*x.unit))
	}
}

// invalidTimeoutCase: an action whose timeout is absent or malformed must be
// rejected instead of running unbounded; neither a build directory nor the
// runner is touched.
func invalidTimeoutCase(r *ev.Run, i int) {
	r.Case("invalid-timeout %d", i)
	clk := vclock.New(1000)
	sc := re_clock.NewSuspendableClock(clk, 10*unit, unit)
	store := wexec.NewCAS()
	var touched atomic.Int64
	runner := &wexec.Runner{RunFunc: func(ctx context.Context, req *runner_pb.RunRequest) (*runner_pb.RunResponse, error) {
		touched.Add(1)
		return &runner_pb.RunResponse{}, nil
	}}
	executor := builder.NewLocalBuildExecutor(store, untouchableCreator{&touched}, runner, sc, time.Hour, nil, 1<<20, nil, false)
	timeouts := []*durationpb.Duration{nil, {Seconds: 3, Nanos: -1}, {Seconds: 1 << 50}, {Nanos: 2_000_000_000}}
	to := timeouts[i%len(timeouts)]
	action := &remoteexecution.Action{
		CommandDigest:   store.PutProto(&remoteexecution.Command{Arguments: []string{"true"}}).GetProto(),
		InputRootDigest: store.PutProto(&remoteexecution.Directory{}).GetProto(),
		Timeout:         to,
	}
	updates := make(chan *remoteworker.CurrentState_Executing, 10)
	resp := executor.Execute(context.Background(), nil, nil, wexec.DigestFunction, &remoteworker.DesiredState_Executing{ActionDigest: store.PutProto(action).GetProto(), Action: action}, updates)
	code := codes.Code(resp.GetStatus().GetCode())
	r.Situation("invalid-timeout-rejected")
	if code != codes.InvalidArgument || touched.Load() != 0 || clk.Created() != 0 {
		r.Violation("C11 invalid-timeout-not-rejected", fmt.Sprintf("timeout %v: status %v %q, build directory/runner touched %d times, %d base timers created", to, code, resp.GetStatus().GetMessage(), touched.Load(), clk.Created()),
			map[string]any{"timeout": fmt.Sprint(to), "status": resp.GetStatus().String()})
	}
	r.Hash(ev.HashOf("invalid-timeout", i%len(timeouts), code), true)
}

type untouchableCreator struct{ touched *atomic.Int64 }

func (c untouchableCreator) GetBuildDirectory(ctx context.Context, d *digest.Digest) (builder.BuildDirectory, *path.Trace, error) {
	c.touched.Add(1)
	return nil, nil, status.Error(codes.Internal, "must not be asked for a build directory")
}
