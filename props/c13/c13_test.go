// Package c13 checks property C13: the in-memory directory tree behaves like
// a POSIX file hierarchy.
//
// Stepped histories are generated against the state of a reference model
// (vfsh.Model, plain Go slices and maps) and executed in lock step against
// virtual.InMemoryPrepopulatedDirectory in the four configurations
// {case sensitive, case insensitive} x {no hidden files, ^\._ hidden}, under
// both handle allocators. Every call's status, returned node (kind, identity,
// link count), ChangeInfo / change ID, listing and, at the end, the complete
// contents of the tree are compared with the model.
package c13

import (
	"encoding/json"
	"fmt"
	"os"
	"sort"
	"sync"
	"testing"

	"verif/internal/ev"
	"verif/internal/vfsh"
)

type witness struct {
	Seed    uint64      `json:"seed"`
	Phase   string      `json:"phase"`
	Cfg     int         `json:"cfg"`
	CfgName string      `json:"cfg_name"`
	Case    int         `json:"case"`
	Rule    string      `json:"rule"`
	Detail  string      `json:"detail"`
	Op      vfsh.Op     `json:"failing_op"`
	History []vfsh.Step `json:"history"`
}

func configs() []vfsh.Config {
	var out []vfsh.Config
	for _, ci := range []bool{false, true} {
		for _, hidden := range []bool{false, true} {
			out = append(out, vfsh.Config{CaseInsensitive: ci, HiddenPattern: hidden})
		}
	}
	return out
}

// caseConfig completes the configuration for one case: the handle allocator
// and the ordering of lazily fetched contents alternate with the case index.
func caseConfig(base vfsh.Config, i int) vfsh.Config {
	base.Allocator = []string{"nfs", "fuse"}[i%2]
	base.Shuffle = i%4 >= 2
	return base
}

var situations = []string{
	"rename-onto-itself", "rename-hard-link-onto-itself", "rename-file-onto-file",
	"rename-dir-onto-empty-dir", "rename-dir-onto-nonempty-dir", "rename-dir-onto-file",
	"rename-file-onto-dir", "rename-dir-onto-itself", "rename-into-removed-directory",
	"rename-to-new-name", "rename-cross-dir", "rename-same-dir",
	"rmdir-with-only-hidden-files", "create-in-removed-directory",
	"listing-resumed-after-cookie-entry-detached", "listing-paginated-under-mutation",
	"case-variant-collision", "case-variant-hit", "hard-link-created", "link-stale-leaf",
	"createchildren-overwrite", "enter-replaces-leaf", "filterchildren-removed-something",
	"rename-directory-across-file-systems", "rename-leaf-across-file-systems",
	"link-of-foreign-leaf", "rename-into-foreign-directory-implementation",
	"fuse-forget-partial", "fuse-forget-complete-then-lookup", "symlink-target-read-back",
	"listing-page-ended-at-dot-entry", "fuse-setattr-on-directory",
	"lazy-fetch-failed", "lazy-fetch-succeeded-after-failure",
	"fuse:lazy-fetch-succeeded-after-failure", "nfs40:lazy-fetch-succeeded-after-failure", "nfs41:lazy-fetch-succeeded-after-failure",
}

func runDirectCase(r *ev.Run, cfgIdx int, base vfsh.Config, i int) {
	cfg := caseConfig(base, i)
	rng := r.Rand(1, uint64(cfgIdx), uint64(i))
	steps := 50 + rng.IntN(251)
	r.Case("direct cfg=%d(%s) case=%d steps=%d", cfgIdx, cfg, i, steps)

	env := vfsh.NewEnv(cfg)
	x := vfsh.NewExec(env)
	gen := &vfsh.Gen{M: x.M, R: rng, P: vfsh.Profile{MaxDirs: 8, MaxNames: 7, DirSetAttr: true}}
	failed := false
	x.Mismatch = func(rule string, op vfsh.Op, detail string) {
		if failed {
			return
		}
		failed = true
		h := x.Hist
		if len(h) > 400 {
			h = h[len(h)-400:]
		}
		r.Violation("C13 direct "+rule+" op="+op.K, fmt.Sprintf("cfg=%s case=%d op=%s: %s", cfg, i, op, detail),
			witness{Seed: r.Seed(), Phase: "direct", Cfg: cfgIdx, CfgName: cfg.String(), Case: i, Rule: rule, Detail: detail, Op: op, History: append([]vfsh.Step(nil), h...)})
	}
	// A leaked directory mutex (property C14) would make a later call on
	// that directory block for ever: probe after every call and abandon
	// the case instead of hanging. This is not a C13 verdict.
	x.AfterCall = func(fn, status string) bool {
		if held := x.ProbeCurrentOpDirectoryLocks(); len(held) > 0 {
			r.Count("cases_abandoned_because_a_directory_lock_was_left_behind(C14) after "+fn+"/"+status, 1)
			return false
		}
		return true
	}
	hooks := newHookTracker(x.M, r.Rand(4, uint64(cfgIdx), uint64(i)))
	for s := 0; s < steps && !failed; s++ {
		if op, ok := hooks.maybeInstall(); ok {
			if !x.Do(op) {
				break
			}
			hooks.installed(op)
			if failed {
				break
			}
		}
		op := gen.Next()
		crosses, onto := hooks.renameCrossesHooks(op)
		alive := x.Do(op)
		hooks.adopt()
		if crosses && x.Hist[len(x.Hist)-1].Got == vfsh.OK {
			x.M.Sit[sitHooksRename]++
			if onto {
				x.M.Sit[sitHooksRenameOnto]++
			}
		}
		if !alive {
			break
		}
	}
	if !failed && !x.Aborted {
		x.FinalCompare()
	}
	r.Count("operations", len(x.Hist))
	calls := 0
	for k, n := range x.Calls {
		calls += n
		r.Count("call "+k, n)
	}
	r.Count("api_calls", calls)
	nontrivial := false
	for name, n := range x.M.Sit {
		r.SituationN(name, n)
		nontrivial = true
	}
	sessions, paged := 0, 0
	for _, s := range x.M.Sessions {
		if s.Done {
			sessions++
			if s.Pages > 1 {
				paged++
			}
		}
	}
	r.Count("listings_completed", sessions)
	r.Count("listings_with_more_than_one_page", paged)
	r.Count("fetcher_failures_injected", x.Calls["LookupAllChildren/EFETCH"]+x.Calls["VirtualLookup/EIO"])
	hs := make([]any, 0, len(x.Hist)*3+1)
	hs = append(hs, cfg.String())
	for _, st := range x.Hist {
		hs = append(hs, st.Op.K, st.Op.N, st.Got)
	}
	r.Hash(ev.HashOf(hs...), nontrivial)
	if r.WantSample() && i == 0 {
		h := x.Hist
		if len(h) > 60 {
			h = h[:60]
		}
		r.Sample(map[string]any{"phase": "direct", "cfg": cfg.String(), "case": i, "history": h})
	}
}

func TestCheck(t *testing.T) {
	r := ev.Start("C13")
	defer r.Finish()
	r.SetRule("case (cfg,i): PRNG(seed,cfg,i) draws 50-300 operations against the current state of the reference model " +
		"(<=8 live directories, 7 names incl. case variants and ._ names; directed operand search for each rename case; " +
		"paginated listings of page size 1-4 interleaved with mutations; lazily fetched directories with injected fetch failures; " +
		"worker-facing bulk calls), executed in lock step on InMemoryPrepopulatedDirectory (4 configurations x nfs/fuse handle allocator x sorted/shuffled) " +
		"followed by a full-tree comparison; non-trivial = the history hit at least one named situation; distinct = hash of (cfg, op kinds, names, statuses)")
	r.Assume("the reference model encodes POSIX rules plus this API's documented conventions (EPERM for unlink of a directory, hidden files do not make a directory non-empty, CreateAndEnterPrepopulatedDirectory replaces a leaf)")
	r.Assume("renaming a directory into its own subtree is not generated: the code documents the missing cycle check as a TODO and the property does not define the outcome")
	r.Assume("lazy materialisation of a directory's initial contents and discarding never-fetched contents may or may not move the change ID; every attach/detach must move it")
	r.Assume("listing order is not compared; only the pagination rule (present throughout => exactly once; otherwise at most once; reported => present at that time)")
	r.Assume("front ends (FUSE RawFileSystem, NFSv4.0, NFSv4.1): kernel-facing operations only; NFS handles of removed directories must be stale; operations on the handle of a fully unlinked leaf are skipped (whether it still resolves depends on NFS open state); under FUSE every symbolic link gets its own target (equal targets share an inode number but not an object)")
	r.Assume("a case is abandoned (not judged) once a directory mutex is found held after a call returned: that is property C14's finding and any further call on that directory would block for ever")
	for _, s := range situations {
		r.Floor(s, 5)
	}
	r.Assume("gated scenarios: a call is taken to have backed off (dropped the parent's lock) when a goroutine dump shows it blocked on a mutex inside LockPile.Lock while a harness-owned InitialContentsFetcher holds the child's lock; the driver mutates only then")
	gatedFloors := map[string]int{"readdir-backoff-entry-detached-meanwhile": 30, "readdir-backoff-entry-kept": 3, "readdir-backoff-in-a-resumed-listing": 10,
		"backoff-entry-detached-meanwhile:lookup": 5, "backoff-entry-detached-meanwhile:remove": 5, "backoff-entry-detached-meanwhile:rename-onto": 5,
		"backoff-entry-kept:lookup": 2, "backoff-entry-kept:remove": 2, "backoff-entry-kept:rename-onto": 2}
	gatedFloors["rename-source-changed-during-backoff"] = 15
	for _, mut := range []string{"remove", "recreate", "swap", "keep"} {
		for _, where := range []string{"same-directory", "cross-directory"} {
			gatedFloors["rename-source-changed-during-backoff:"+mut+":"+where] = 2
		}
	}
	for s, n := range gatedFloors {
		r.Floor(s, n)
	}
	r.Assume("InstallHooks (same collaborators, new subtree object) is a no-op for the reference model: it must not change any status, listing, identity or change ID")
	for s, n := range hookSituations {
		r.Floor(s, n)
	}

	cfgs := configs()
	if rf := r.ReplayFile(); rf != "" {
		var w struct {
			Witness witness `json:"witness"`
		}
		b, err := os.ReadFile(rf)
		if err != nil || json.Unmarshal(b, &w) != nil {
			t.Fatalf("cannot read replay file %s", rf)
		}
		for _, s := range situations {
			r.Floor(s, 0)
		}
		for s := range gatedFloors {
			r.Floor(s, 0)
		}
		for s := range hookSituations {
			r.Floor(s, 0)
		}
		switch w.Witness.Phase {
		case "gated":
			runGatedCase(r, w.Witness.Cfg, cfgs[w.Witness.Cfg], w.Witness.Case)
		case "direct":
			runDirectCase(r, w.Witness.Cfg, cfgs[w.Witness.Cfg], w.Witness.Case)
		default:
			runFrontEndCase(r, w.Witness.Phase, w.Witness.Cfg, cfgs[w.Witness.Cfg], w.Witness.Case)
		}
		return
	}

	type job struct {
		phase string
		cfg   int
		i     int
	}
	var jobs []job
	nDirect := r.Pick(400, 6000)
	nFront := r.Pick(150, 2400)
	for c := range cfgs {
		for i := 0; i < nDirect; i++ {
			jobs = append(jobs, job{"direct", c, i})
		}
	}
	nGated := r.Pick(100, 1500)
	for c := range cfgs {
		for i := 0; i < nGated; i++ {
			jobs = append(jobs, job{"gated", c, i})
		}
	}
	for _, phase := range frontEnds {
		for c := range cfgs {
			for i := 0; i < nFront/len(cfgs)+1; i++ {
				jobs = append(jobs, job{phase, c, i})
			}
		}
	}
	// Cases are independent; run them on a few workers. The order of
	// completion does not influence any case (each has its own PRNG).
	sort.SliceStable(jobs, func(a, b int) bool { return jobs[a].i < jobs[b].i })
	ch := make(chan job)
	var wg sync.WaitGroup
	for w := 0; w < 8; w++ {
		wg.Add(1)
		go func() {
			defer wg.Done()
			for j := range ch {
				if j.phase == "direct" {
					runDirectCase(r, j.cfg, cfgs[j.cfg], j.i)
				} else if j.phase == "gated" {
					runGatedCase(r, j.cfg, cfgs[j.cfg], j.i)
				} else {
					runFrontEndCase(r, j.phase, j.cfg, cfgs[j.cfg], j.i)
				}
			}
		}()
	}
	for _, j := range jobs {
		ch <- j
	}
	close(ch)
	wg.Wait()
}
