package c13

import (
	"fmt"
	"syscall"

	re_fuse "github.com/buildbarn/bb-remote-execution/pkg/filesystem/virtual/fuse"
	"github.com/hanwen/go-fuse/v2/fuse"

	"verif/internal/ev"
	"verif/internal/vfsh"
)

// Protocol front ends: the same generated histories (kernel-facing operations
// only) are issued through the FUSE RawFileSystem and through NFSv4.0/4.1
// COMPOUNDs, and the protocol-level status codes and results are compared
// with the mapped expectations of the reference model.
var frontEnds = []string{"fuse", "nfs40", "nfs41"}

// frontEnd is what a protocol driver has to provide.
type frontEnd interface {
	// Each call returns the status mapped to the shared status codes.
	lookup(d *vfsh.Node, name string) (string, entryInfo)
	create(d *vfsh.Node, name string, excl, trunc bool) (string, entryInfo)
	openExisting(d *vfsh.Node, name string, n *vfsh.Node, trunc bool) string
	mkdir(d *vfsh.Node, name string) (string, entryInfo)
	mknod(d *vfsh.Node, name string, k vfsh.Kind, target string) (string, entryInfo)
	link(d *vfsh.Node, name string, leaf *vfsh.Node) (string, entryInfo)
	rename(d *vfsh.Node, name string, d2 *vfsh.Node, name2 string) string
	// remove returns the status and the flags the front end really used.
	remove(d *vfsh.Node, name string, rmDir, rmLeaf bool) (string, bool, bool)
	// readdir returns one page of at most limit entries after cookie.
	readdir(d *vfsh.Node, cookie uint64, limit int, plus bool) (status string, entries []vfsh.Reported, end bool)
	getattr(n *vfsh.Node) (string, entryInfo)
	// usable tells whether the front end can address the node at all
	// (NFS: handles of removed objects are stale).
	usable(n *vfsh.Node) bool
	// mknodPrecheck returns the status the front end itself gives for a
	// node type before reaching the file system ("" if it passes it on).
	mknodPrecheck(k vfsh.Kind) string
}

type entryInfo struct {
	ino   uint64
	nlink uint32
	kind  vfsh.Kind
	ok    bool
	h     any // front end specific handle (NFS file handle)
}

type feExec struct {
	r     *ev.Run
	phase string
	fe    frontEnd
	m     *vfsh.Model
	hist  []vfsh.Step
	cur   vfsh.Op
	bad   func(rule, detail string)
	calls map[string]int
	// handles keeps the front end specific handle of every node
	handles map[*vfsh.Node]any
}

func (x *feExec) status(want, got string) bool {
	x.calls[x.cur.K+"/"+got]++
	if want != got {
		x.bad("status want="+want+" got="+got, "")
		return false
	}
	return true
}

func (x *feExec) bind(n *vfsh.Node, e entryInfo) {
	if !e.ok {
		x.bad("returned-node-missing", "status OK without an entry")
		return
	}
	if e.kind != n.Kind {
		x.bad("returned-node-kind", fmt.Sprintf("node %d: model %v, front end %v", n.ID, n.Kind, e.kind))
		return
	}
	if !n.Bound {
		n.Bound, n.Ino = true, e.ino
		x.handles[n] = e.h
	} else if n.Ino != e.ino {
		x.bad("returned-node-identity", fmt.Sprintf("node %d: inode %d, expected %d", n.ID, e.ino, n.Ino))
	}
	want := uint32(n.Nlink)
	switch n.Kind {
	case vfsh.KDir:
		want = 1
	case vfsh.KSymlink:
		want = 9999
	}
	if e.nlink != want {
		x.bad("link-count", fmt.Sprintf("node %d (%v): link count %d, model %d", n.ID, n.Kind, e.nlink, want))
	}
}

// do executes one kernel-facing operation through the front end.
func (x *feExec) do(op vfsh.Op) {
	x.cur = op
	m := x.m
	step := vfsh.Step{Op: op}
	defer func() { x.hist = append(x.hist, step) }()
	d := m.Nodes[op.D]
	if !x.fe.usable(d) {
		// The front end cannot even address the directory; what it
		// answers then is checked by getattr below.
		st, _ := x.fe.getattr(d)
		step.Want, step.Got = vfsh.ESTALE, st
		x.status(vfsh.ESTALE, st)
		return
	}
	switch op.K {
	case "VirtualLookup":
		got, e := x.fe.lookup(d, op.N)
		r := m.Lookup(d, op.N, vfsh.EIO)
		step.Want, step.Got = r.Status, got
		if x.status(r.Status, got) && got == vfsh.OK {
			x.bind(r.Node, e)
		}
	case "VirtualOpenChild":
		if !op.Create {
			// open() of an existing name: lookup, then open the node.
			got, e := x.fe.lookup(d, op.N)
			r := m.Lookup(d, op.N, vfsh.EIO)
			step.Want, step.Got = r.Status, got
			if x.status(r.Status, got) && got == vfsh.OK {
				x.bind(r.Node, e)
				if r.Node.Kind == vfsh.KFile {
					st := x.fe.openExisting(d, op.N, r.Node, op.Trunc)
					x.status(vfsh.OK, st)
				}
			}
			return
		}
		got, e := x.fe.create(d, op.N, !op.Existing, op.Trunc)
		r := m.OpenChild(d, op.N, true, op.Existing, false)
		step.Want, step.Got = r.Status, got
		if x.status(r.Status, got) && got == vfsh.OK {
			x.bind(r.Node, e)
		}
	case "VirtualMkdir":
		got, e := x.fe.mkdir(d, op.N)
		r := m.Mkdir(d, op.N)
		step.Want, step.Got = r.Status, got
		if x.status(r.Status, got) && got == vfsh.OK {
			x.bind(r.Node, e)
		}
	case "VirtualMknod":
		if pre := x.fe.mknodPrecheck(op.Kind); pre != "" {
			got, _ := x.fe.mknod(d, op.N, op.Kind, op.Target)
			step.Want, step.Got = pre, got
			x.status(pre, got)
			return
		}
		got, e := x.fe.mknod(d, op.N, op.Kind, op.Target)
		r := m.Mknod(d, op.N, op.Kind, op.Target, false)
		step.Want, step.Got = r.Status, got
		if x.status(r.Status, got) && got == vfsh.OK {
			x.bind(r.Node, e)
		}
	case "VirtualLink":
		l := m.Nodes[op.L]
		if !x.fe.usable(l) {
			// Whether the handle of a fully unlinked leaf still resolves
			// depends on NFS open state (a closed file stays resolvable
			// until the open-owner's next request): not C13's business.
			step.Want, step.Got, step.Note = "-", "-", "skipped: leaf without links"
			return
		}
		got, e := x.fe.link(d, op.N, l)
		r := m.Link(d, op.N, l)
		step.Want, step.Got = r.Status, got
		if x.status(r.Status, got) && got == vfsh.OK {
			x.bind(l, e)
		}
	case "VirtualRename":
		d2 := m.Nodes[op.D2]
		if !x.fe.usable(d2) {
			st, _ := x.fe.getattr(d2)
			step.Want, step.Got = vfsh.ESTALE, st
			x.status(vfsh.ESTALE, st)
			return
		}
		got := x.fe.rename(d, op.N, d2, op.N2)
		r := m.Rename(d, op.N, d2, op.N2)
		step.Want, step.Got = r.Status, got
		x.status(r.Status, got)
	case "VirtualRemove":
		got, rmDir, rmLeaf := x.fe.remove(d, op.N, op.RmDir, op.RmLeaf)
		r := m.Remove(d, op.N, rmDir, rmLeaf, vfsh.EIO)
		step.Want, step.Got = r.Status, got
		x.status(r.Status, got)
	case "VirtualReadDir":
		var s *vfsh.Session
		if op.Sess > 0 {
			s = m.Sessions[op.Sess-1]
		} else {
			s = m.NewSession(d, op.PageSize, op.Locked)
		}
		got, entries, end := x.fe.readdir(d, s.Cookie, s.PageSize, s.Locked)
		x.calls[op.K+"/"+got]++
		step.Want, step.Got = vfsh.OK, got
		for _, rule := range m.Page(s, got, entries, end) {
			x.bad(rule, fmt.Sprintf("session %d dir %d page %d cookie %d entries %v", s.ID, d.ID, s.Pages, s.Cookie, entries))
		}
		step.Note = fmt.Sprintf("session=%d pages=%d entries=%d end=%v", s.ID, s.Pages, len(entries), end)
	case "VirtualGetAttributes":
		got, e := x.fe.getattr(d)
		step.Want, step.Got = vfsh.OK, got
		if x.status(vfsh.OK, got) {
			x.bind(d, e)
		}
	default:
		panic("front end: unexpected operation " + op.K)
	}
}

// finalCompare lists and looks up everything reachable through the front end.
func (x *feExec) finalCompare(names []string) {
	var walk func(d *vfsh.Node, depth int)
	walk = func(d *vfsh.Node, depth int) {
		if depth > 12 || !x.fe.usable(d) {
			return
		}
		x.do(vfsh.Op{K: "VirtualReadDir", D: d.ID, PageSize: 100000, Why: "final"})
		for _, name := range names {
			x.do(vfsh.Op{K: "VirtualLookup", D: d.ID, N: name, Why: "final"})
		}
		for _, e := range append([]*vfsh.Entry(nil), d.Entries...) {
			if e.Node.IsDir() && e.Node.Bound {
				walk(e.Node, depth+1)
			}
		}
	}
	walk(x.m.Root, 0)
}

var finalNames = []string{"a", "b", "c", "A", "B", "._a", "._B"}

func runFrontEndCase(r *ev.Run, phase string, cfgIdx int, base vfsh.Config, i int) {
	cfg := base
	cfg.Allocator = "nfs"
	if phase == "fuse" {
		cfg.Allocator = "fuse"
	}
	phaseNo := map[string]uint64{"fuse": 2, "nfs40": 3, "nfs41": 4}[phase]
	rng := r.Rand(phaseNo, uint64(cfgIdx), uint64(i))
	steps := 50 + rng.IntN(201)
	r.Case("%s cfg=%d(%s) case=%d steps=%d", phase, cfgIdx, cfg, i, steps)

	env := vfsh.NewEnv(cfg)
	m := vfsh.NewModel(cfg, env.SymlinksShared())
	x := &feExec{r: r, phase: phase, m: m, calls: map[string]int{}, handles: map[*vfsh.Node]any{}}
	failed := false
	x.bad = func(rule, detail string) {
		if failed {
			return
		}
		failed = true
		h := x.hist
		if len(h) > 400 {
			h = h[len(h)-400:]
		}
		r.Violation("C13 "+phase+" "+rule+" op="+x.cur.K, fmt.Sprintf("cfg=%s case=%d op=%s: %s", cfg, i, x.cur, detail),
			witness{Seed: r.Seed(), Phase: phase, Cfg: cfgIdx, CfgName: cfg.String(), Case: i, Rule: rule, Detail: detail, Op: x.cur, History: append([]vfsh.Step(nil), h...)})
	}
	switch phase {
	case "fuse":
		x.fe = newFuseFrontEnd(env, x)
	default:
		x.fe = newNFSFrontEnd(env, x, phase == "nfs41")
	}
	if st, e := x.fe.getattr(m.Root); st != vfsh.OK {
		x.bad("root-not-addressable", st)
	} else {
		m.Root.Bound, m.Root.Ino = true, e.ino
	}
	gen := &vfsh.Gen{M: m, R: rng, P: vfsh.Profile{KernelOnly: true, NoBadTargets: true, UniqueTargets: phase == "fuse", MaxDirs: 8, MaxNames: 7}}
	for s := 0; s < steps && !failed; s++ {
		x.do(gen.Next())
	}
	if !failed {
		x.finalCompare(finalNames)
	}
	r.Count(phase+"_operations", len(x.hist))
	for k, n := range x.calls {
		r.Count(phase+" call "+k, n)
	}
	nontrivial := false
	for name, n := range m.Sit {
		r.SituationN(name, n)
		r.SituationN(phase+":"+name, n)
		nontrivial = true
	}
	hs := []any{phase, cfg.String()}
	for _, st := range x.hist {
		hs = append(hs, st.Op.K, st.Op.N, st.Got)
	}
	r.Hash(ev.HashOf(hs...), nontrivial)
	if i == 0 && cfgIdx == 3 && r.WantSample() {
		h := x.hist
		if len(h) > 40 {
			h = h[:40]
		}
		r.Sample(map[string]any{"phase": phase, "cfg": cfg.String(), "case": i, "history": h})
	}
}

// ---- FUSE -------------------------------------------------------------------------

type fuseFrontEnd struct {
	rfs re_fuse.RawFileSystem
	x   *feExec
}

func newFuseFrontEnd(env *vfsh.Env, x *feExec) *fuseFrontEnd {
	return &fuseFrontEnd{
		rfs: re_fuse.NewSimpleRawFileSystem(env.Root, env.FUSEAlloc.RegisterRemovalNotifier, re_fuse.AllowAuthenticator),
		x:   x,
	}
}

func fuseStatusName(s fuse.Status) string {
	switch syscall.Errno(s) {
	case 0:
		return vfsh.OK
	case syscall.EIO:
		return vfsh.EIO
	case syscall.ENOENT:
		return vfsh.ENOENT
	case syscall.EEXIST:
		return vfsh.EEXIST
	case syscall.EISDIR:
		return vfsh.EISDIR
	case syscall.ENOTDIR:
		return vfsh.ENOTDIR
	case syscall.ENOTEMPTY:
		return vfsh.ENOTEMPTY
	case syscall.EPERM:
		return vfsh.EPERM
	case syscall.EXDEV:
		return vfsh.EXDEV
	case syscall.ESTALE:
		return vfsh.ESTALE
	case syscall.EOPNOTSUPP:
		return vfsh.ESYMLINK
	case syscall.EINVAL:
		return vfsh.EINVAL
	}
	return fmt.Sprintf("errno%d", int(s))
}

func modeKind(mode uint32) vfsh.Kind {
	switch mode & syscall.S_IFMT {
	case syscall.S_IFDIR:
		return vfsh.KDir
	case syscall.S_IFREG:
		return vfsh.KFile
	case syscall.S_IFLNK:
		return vfsh.KSymlink
	case syscall.S_IFIFO:
		return vfsh.KFIFO
	case syscall.S_IFSOCK:
		return vfsh.KSocket
	}
	return vfsh.KBlock
}

func (f *fuseFrontEnd) id(n *vfsh.Node) uint64 {
	if n == f.x.m.Root {
		return fuse.FUSE_ROOT_ID
	}
	return n.Ino
}

func (f *fuseFrontEnd) hdr(n *vfsh.Node) fuse.InHeader { return fuse.InHeader{NodeId: f.id(n)} }

func entryOf(out *fuse.EntryOut) entryInfo {
	return entryInfo{ino: out.Attr.Ino, nlink: out.Attr.Nlink, kind: modeKind(out.Attr.Mode), ok: out.NodeId == out.Attr.Ino && out.NodeId != 0}
}

func (f *fuseFrontEnd) usable(n *vfsh.Node) bool { return true }
func (f *fuseFrontEnd) mknodPrecheck(k vfsh.Kind) string {
	return map[bool]string{true: vfsh.EPERM}[k == vfsh.KBlock || k == vfsh.KFile]
}

func (f *fuseFrontEnd) lookup(d *vfsh.Node, name string) (string, entryInfo) {
	var out fuse.EntryOut
	h := f.hdr(d)
	s := f.rfs.Lookup(nil, &h, name, &out)
	return fuseStatusName(s), entryOf(&out)
}

func (f *fuseFrontEnd) create(d *vfsh.Node, name string, excl, trunc bool) (string, entryInfo) {
	flags := uint32(syscall.O_RDWR | syscall.O_CREAT)
	if excl {
		flags |= syscall.O_EXCL
	}
	if trunc {
		flags |= syscall.O_TRUNC
	}
	var out fuse.CreateOut
	s := f.rfs.Create(nil, &fuse.CreateIn{InHeader: f.hdr(d), Flags: flags, Mode: 0o644}, name, &out)
	if s == fuse.OK {
		f.rfs.Release(nil, &fuse.ReleaseIn{InHeader: fuse.InHeader{NodeId: out.NodeId}, Flags: flags})
	}
	return fuseStatusName(s), entryOf(&out.EntryOut)
}

func (f *fuseFrontEnd) openExisting(d *vfsh.Node, name string, n *vfsh.Node, trunc bool) string {
	flags := uint32(syscall.O_RDWR)
	if trunc {
		flags |= syscall.O_TRUNC
	}
	var out fuse.OpenOut
	s := f.rfs.Open(nil, &fuse.OpenIn{InHeader: f.hdr(n), Flags: flags}, &out)
	if s == fuse.OK {
		f.rfs.Release(nil, &fuse.ReleaseIn{InHeader: f.hdr(n), Flags: flags})
	}
	return fuseStatusName(s)
}

func (f *fuseFrontEnd) mkdir(d *vfsh.Node, name string) (string, entryInfo) {
	var out fuse.EntryOut
	s := f.rfs.Mkdir(nil, &fuse.MkdirIn{InHeader: f.hdr(d), Mode: 0o755}, name, &out)
	return fuseStatusName(s), entryOf(&out)
}

func (f *fuseFrontEnd) mknod(d *vfsh.Node, name string, k vfsh.Kind, target string) (string, entryInfo) {
	var out fuse.EntryOut
	if k == vfsh.KSymlink {
		h := f.hdr(d)
		s := f.rfs.Symlink(nil, &h, target, name, &out)
		return fuseStatusName(s), entryOf(&out)
	}
	mode := map[vfsh.Kind]uint32{vfsh.KFIFO: syscall.S_IFIFO, vfsh.KSocket: syscall.S_IFSOCK, vfsh.KBlock: syscall.S_IFBLK, vfsh.KFile: syscall.S_IFREG}[k]
	s := f.rfs.Mknod(nil, &fuse.MknodIn{InHeader: f.hdr(d), Mode: mode | 0o644}, name, &out)
	return fuseStatusName(s), entryOf(&out)
}

func (f *fuseFrontEnd) link(d *vfsh.Node, name string, leaf *vfsh.Node) (string, entryInfo) {
	var out fuse.EntryOut
	s := f.rfs.Link(nil, &fuse.LinkIn{InHeader: f.hdr(d), Oldnodeid: f.id(leaf)}, name, &out)
	return fuseStatusName(s), entryOf(&out)
}

func (f *fuseFrontEnd) rename(d *vfsh.Node, name string, d2 *vfsh.Node, name2 string) string {
	return fuseStatusName(f.rfs.Rename(nil, &fuse.RenameIn{InHeader: f.hdr(d), Newdir: f.id(d2)}, name, name2))
}

func (f *fuseFrontEnd) remove(d *vfsh.Node, name string, rmDir, rmLeaf bool) (string, bool, bool) {
	h := f.hdr(d)
	if rmDir && rmLeaf {
		// The kernel knows what the name refers to and picks the call.
		if e := f.x.m.Find(d, name); e != nil && e.Node.IsDir() {
			rmLeaf = false
		}
	}
	if rmLeaf {
		return fuseStatusName(f.rfs.Unlink(nil, &h, name)), false, true
	}
	return fuseStatusName(f.rfs.Rmdir(nil, &h, name)), true, false
}

type fuseDirList struct {
	limit   int
	entries []vfsh.Reported
	refused bool
	plus    []*fuse.EntryOut
}

func (l *fuseDirList) add(e fuse.DirEntry) bool {
	if e.Name == "." || e.Name == ".." {
		return true
	}
	if len(l.entries) >= l.limit {
		l.refused = true
		return false
	}
	l.entries = append(l.entries, vfsh.Reported{Name: e.Name, NextCookie: e.Off, IsDir: e.Mode&syscall.S_IFMT == syscall.S_IFDIR, Ino: e.Ino})
	return true
}

func (l *fuseDirList) AddDirEntry(e fuse.DirEntry) bool { return l.add(e) }

func (l *fuseDirList) AddDirLookupEntry(e fuse.DirEntry) *fuse.EntryOut {
	if !l.add(e) {
		return nil
	}
	out := &fuse.EntryOut{}
	if e.Name != "." && e.Name != ".." {
		l.plus = append(l.plus, out)
	}
	return out
}

func (f *fuseFrontEnd) readdir(d *vfsh.Node, cookie uint64, limit int, plus bool) (string, []vfsh.Reported, bool) {
	l := &fuseDirList{limit: limit}
	in := &fuse.ReadIn{InHeader: f.hdr(d), Offset: cookie}
	var s fuse.Status
	if plus {
		s = f.rfs.ReadDirPlus(nil, in, l)
		for i, out := range l.plus {
			if out.NodeId != l.entries[i].Ino || out.Attr.Ino != l.entries[i].Ino {
				f.x.bad("readdirplus-entry-attributes-differ", fmt.Sprintf("%q: entry inode %d, attributes inode %d node id %d", l.entries[i].Name, l.entries[i].Ino, out.Attr.Ino, out.NodeId))
			}
		}
	} else {
		s = f.rfs.ReadDir(nil, in, l)
	}
	return fuseStatusName(s), l.entries, !l.refused
}

func (f *fuseFrontEnd) getattr(n *vfsh.Node) (string, entryInfo) {
	var out fuse.AttrOut
	s := f.rfs.GetAttr(nil, &fuse.GetAttrIn{InHeader: f.hdr(n)}, &out)
	return fuseStatusName(s), entryInfo{ino: out.Attr.Ino, nlink: out.Attr.Nlink, kind: modeKind(out.Attr.Mode), ok: true}
}

// (FUSE part ends here; the NFSv4 front end lives in nfs_frontend_test.go.)
