package c13

import (
	"verif/internal/ev"
	"verif/internal/vfsh"
)

var frontEnds = []string{}

func runFrontEndCase(r *ev.Run, phase string, cfgIdx int, base vfsh.Config, i int) {}
