package c13

import (
	"fmt"
	"math/rand/v2"
	"syscall"

	"github.com/buildbarn/bb-remote-execution/pkg/filesystem/virtual"
	re_fuse "github.com/buildbarn/bb-remote-execution/pkg/filesystem/virtual/fuse"
	"github.com/buildbarn/bb-storage/pkg/filesystem/path"
	"github.com/hanwen/go-fuse/v2/fuse"

	"verif/internal/ev"
	"verif/internal/vfsh"
)

// Protocol front ends: the same generated histories (kernel-facing operations
// only) are issued through the FUSE RawFileSystem and through NFSv4.0/4.1
// COMPOUNDs, and the protocol-level status codes and results are compared
// with the mapped expectations of the reference model.
var frontEnds = []string{"fuse", "nfs40", "nfs41"}

// frontEnd is what a protocol driver has to provide.
type frontEnd interface {
	// Each call returns the status mapped to the shared status codes.
	lookup(d *vfsh.Node, name string) (string, entryInfo)
	create(d *vfsh.Node, name string, excl, trunc bool) (string, entryInfo)
	openExisting(d *vfsh.Node, name string, n *vfsh.Node, trunc bool) string
	mkdir(d *vfsh.Node, name string) (string, entryInfo)
	mknod(d *vfsh.Node, name string, k vfsh.Kind, target string) (string, entryInfo)
	link(d *vfsh.Node, name string, leaf *vfsh.Node) (string, entryInfo)
	rename(d *vfsh.Node, name string, d2 *vfsh.Node, name2 string) string
	// remove returns the status and the flags the front end really used.
	remove(d *vfsh.Node, name string, rmDir, rmLeaf bool) (string, bool, bool)
	// readdir returns one page of at most limit entries after cookie.
	readdir(d *vfsh.Node, cookie uint64, limit int, plus bool) (status string, entries []vfsh.Reported, end bool)
	getattr(n *vfsh.Node) (string, entryInfo)
	// usable tells whether the front end can address the node at all
	// (NFS: handles of removed objects are stale).
	usable(n *vfsh.Node) bool
	// mknodPrecheck returns the status the front end itself gives for a
	// node type before reaching the file system ("" if it passes it on).
	mknodPrecheck(k vfsh.Kind) string
}

type entryInfo struct {
	ino   uint64
	nlink uint32
	kind  vfsh.Kind
	ok    bool
	h     any // front end specific handle (NFS file handle)
}

type feExec struct {
	r     *ev.Run
	phase string
	fe    frontEnd
	m     *vfsh.Model
	hist  []vfsh.Step
	cur   vfsh.Op
	bad   func(rule, detail string)
	calls map[string]int
	// handles keeps the front end specific handle of every node
	handles map[*vfsh.Node]any
}

func (x *feExec) status(want, got string) bool {
	x.calls[x.cur.K+"/"+got]++
	if want != got {
		x.bad("status want="+want+" got="+got, "")
		return false
	}
	return true
}

// Optional capabilities of a front end.
type (
	// housekeeper runs protocol-level bookkeeping calls after an operation
	// (FUSE: FORGET with immediate re-LOOKUP).
	housekeeper interface{ afterOp() }
	// targetReader reads back the target of a symbolic link.
	targetReader interface {
		readlink(n *vfsh.Node) (string, string)
	}
	// pageResumer reports the offset to resume from when a page ended
	// before the first real entry (FUSE "." and "..").
	pageResumer interface {
		resumeOffset() uint64
		// directoryNotReached: the page was full before the listing of
		// the directory itself began (nothing was fetched or listed).
		directoryNotReached() bool
	}
)

func (x *feExec) bind(n *vfsh.Node, e entryInfo) {
	defer func() {
		if tr, ok := x.fe.(targetReader); ok && n.Kind == vfsh.KSymlink && n.Bound {
			if st, target := tr.readlink(n); st != vfsh.OK || target != n.Target {
				x.bad("symlink-target-differs", fmt.Sprintf("node %d: readlink %s %q, created with %q", n.ID, st, target, n.Target))
			}
			x.m.Sit["symlink-target-read-back"]++
		}
	}()
	if !e.ok {
		x.bad("returned-node-missing", "status OK without an entry")
		return
	}
	if e.kind != n.Kind {
		x.bad("returned-node-kind", fmt.Sprintf("node %d: model %v, front end %v", n.ID, n.Kind, e.kind))
		return
	}
	if !n.Bound {
		n.Bound, n.Ino = true, e.ino
		x.handles[n] = e.h
	} else if n.Ino != e.ino {
		x.bad("returned-node-identity", fmt.Sprintf("node %d: inode %d, expected %d", n.ID, e.ino, n.Ino))
	}
	want := uint32(n.Nlink)
	switch n.Kind {
	case vfsh.KDir:
		want = 1
	case vfsh.KSymlink:
		want = 9999
	}
	if e.nlink != want {
		x.bad("link-count", fmt.Sprintf("node %d (%v): link count %d, model %d", n.ID, n.Kind, e.nlink, want))
	}
}

// do executes one kernel-facing operation through the front end.
func (x *feExec) do(op vfsh.Op) {
	x.cur = op
	m := x.m
	step := vfsh.Step{Op: op}
	defer func() { x.hist = append(x.hist, step) }()
	d := m.Nodes[op.D]
	if !x.fe.usable(d) {
		// The front end cannot even address the directory; what it
		// answers then is checked by getattr below.
		st, _ := x.fe.getattr(d)
		step.Want, step.Got = vfsh.ESTALE, st
		x.status(vfsh.ESTALE, st)
		return
	}
	switch op.K {
	case "VirtualLookup":
		got, e := x.fe.lookup(d, op.N)
		r := m.Lookup(d, op.N, vfsh.EIO)
		step.Want, step.Got = r.Status, got
		if x.status(r.Status, got) && got == vfsh.OK {
			x.bind(r.Node, e)
		}
	case "VirtualOpenChild":
		if !op.Create {
			// open() of an existing name: lookup, then open the node.
			got, e := x.fe.lookup(d, op.N)
			r := m.Lookup(d, op.N, vfsh.EIO)
			step.Want, step.Got = r.Status, got
			if x.status(r.Status, got) && got == vfsh.OK {
				x.bind(r.Node, e)
				if r.Node.Kind == vfsh.KFile {
					st := x.fe.openExisting(d, op.N, r.Node, op.Trunc)
					x.status(vfsh.OK, st)
				}
			}
			return
		}
		got, e := x.fe.create(d, op.N, !op.Existing, op.Trunc)
		r := m.OpenChild(d, op.N, true, op.Existing, false)
		step.Want, step.Got = r.Status, got
		if x.status(r.Status, got) && got == vfsh.OK {
			x.bind(r.Node, e)
		}
	case "VirtualMkdir":
		got, e := x.fe.mkdir(d, op.N)
		r := m.Mkdir(d, op.N)
		step.Want, step.Got = r.Status, got
		if x.status(r.Status, got) && got == vfsh.OK {
			x.bind(r.Node, e)
		}
	case "VirtualMknod":
		if pre := x.fe.mknodPrecheck(op.Kind); pre != "" {
			got, _ := x.fe.mknod(d, op.N, op.Kind, op.Target)
			step.Want, step.Got = pre, got
			x.status(pre, got)
			return
		}
		got, e := x.fe.mknod(d, op.N, op.Kind, op.Target)
		r := m.Mknod(d, op.N, op.Kind, op.Target, false)
		step.Want, step.Got = r.Status, got
		if x.status(r.Status, got) && got == vfsh.OK {
			x.bind(r.Node, e)
		}
	case "VirtualLink":
		l := m.Nodes[op.L]
		if !x.fe.usable(l) {
			// Whether the handle of a fully unlinked leaf still resolves
			// depends on NFS open state (a closed file stays resolvable
			// until the open-owner's next request): not C13's business.
			step.Want, step.Got, step.Note = "-", "-", "skipped: leaf without links"
			return
		}
		got, e := x.fe.link(d, op.N, l)
		r := m.Link(d, op.N, l)
		step.Want, step.Got = r.Status, got
		if x.status(r.Status, got) && got == vfsh.OK {
			x.bind(l, e)
		}
	case "VirtualRename":
		d2 := m.Nodes[op.D2]
		if !x.fe.usable(d2) {
			st, _ := x.fe.getattr(d2)
			step.Want, step.Got = vfsh.ESTALE, st
			x.status(vfsh.ESTALE, st)
			return
		}
		got := x.fe.rename(d, op.N, d2, op.N2)
		r := m.Rename(d, op.N, d2, op.N2)
		step.Want, step.Got = r.Status, got
		x.status(r.Status, got)
	case "VirtualRemove":
		got, rmDir, rmLeaf := x.fe.remove(d, op.N, op.RmDir, op.RmLeaf)
		r := m.Remove(d, op.N, rmDir, rmLeaf, vfsh.EIO)
		step.Want, step.Got = r.Status, got
		x.status(r.Status, got)
	case "VirtualReadDir":
		var s *vfsh.Session
		if op.Sess > 0 {
			s = m.Sessions[op.Sess-1]
		} else {
			s = m.NewSession(d, op.PageSize, op.Locked)
		}
		got, entries, end := x.fe.readdir(d, s.Cookie, s.PageSize, s.Locked)
		x.calls[op.K+"/"+got]++
		step.Want, step.Got = vfsh.OK, got
		if pr, ok := x.fe.(pageResumer); ok && pr.directoryNotReached() {
			// Only "." and/or ".." fitted: the directory was not touched.
			x.status(vfsh.OK, got)
			s.Cookie = pr.resumeOffset()
			m.Sit["listing-page-ended-at-dot-entry"]++
			step.Note = "page ended at a dot entry"
			return
		}
		for _, rule := range m.Page(s, got, entries, end) {
			x.bad(rule, fmt.Sprintf("session %d dir %d page %d cookie %d entries %v", s.ID, d.ID, s.Pages, s.Cookie, entries))
		}
		if pr, ok := x.fe.(pageResumer); ok && len(entries) == 0 && !end && got == vfsh.OK {
			if off := pr.resumeOffset(); off != 0 {
				s.Cookie = off
				m.Sit["listing-page-ended-at-dot-entry"]++
			}
		}
		step.Note = fmt.Sprintf("session=%d pages=%d entries=%d end=%v", s.ID, s.Pages, len(entries), end)
	case "VirtualGetAttributes":
		got, e := x.fe.getattr(d)
		step.Want, step.Got = vfsh.OK, got
		if x.status(vfsh.OK, got) {
			x.bind(d, e)
		}
	default:
		panic("front end: unexpected operation " + op.K)
	}
}

// finalCompare lists and looks up everything reachable through the front end.
func (x *feExec) finalCompare(names []string) {
	var walk func(d *vfsh.Node, depth int)
	walk = func(d *vfsh.Node, depth int) {
		if depth > 12 || !x.fe.usable(d) {
			return
		}
		x.do(vfsh.Op{K: "VirtualReadDir", D: d.ID, PageSize: 100000, Why: "final"})
		for _, name := range names {
			x.do(vfsh.Op{K: "VirtualLookup", D: d.ID, N: name, Why: "final"})
		}
		for _, e := range append([]*vfsh.Entry(nil), d.Entries...) {
			if e.Node.IsDir() && e.Node.Bound {
				walk(e.Node, depth+1)
			}
		}
	}
	walk(x.m.Root, 0)
}

var finalNames = []string{"a", "b", "c", "A", "B", "._a", "._B"}

func runFrontEndCase(r *ev.Run, phase string, cfgIdx int, base vfsh.Config, i int) {
	cfg := base
	cfg.Allocator = "nfs"
	if phase == "fuse" {
		cfg.Allocator = "fuse"
	}
	phaseNo := map[string]uint64{"fuse": 2, "nfs40": 3, "nfs41": 4}[phase]
	rng := r.Rand(phaseNo, uint64(cfgIdx), uint64(i))
	steps := 50 + rng.IntN(201)
	r.Case("%s cfg=%d(%s) case=%d steps=%d", phase, cfgIdx, cfg, i, steps)

	env := vfsh.NewEnv(cfg)
	m := vfsh.NewModel(cfg, env.SymlinksShared())
	x := &feExec{r: r, phase: phase, m: m, calls: map[string]int{}, handles: map[*vfsh.Node]any{}}
	failed := false
	x.bad = func(rule, detail string) {
		if failed {
			return
		}
		failed = true
		h := x.hist
		if len(h) > 400 {
			h = h[len(h)-400:]
		}
		r.Violation("C13 "+phase+" "+rule+" op="+x.cur.K, fmt.Sprintf("cfg=%s case=%d op=%s: %s", cfg, i, x.cur, detail),
			witness{Seed: r.Seed(), Phase: phase, Cfg: cfgIdx, CfgName: cfg.String(), Case: i, Rule: rule, Detail: detail, Op: x.cur, History: append([]vfsh.Step(nil), h...)})
	}
	switch phase {
	case "fuse":
		x.fe = newFuseFrontEnd(env, x, r.Rand(phaseNo, uint64(cfgIdx), uint64(i), 99))
	default:
		x.fe = newNFSFrontEnd(env, x, phase == "nfs41")
	}
	if st, e := x.fe.getattr(m.Root); st != vfsh.OK {
		x.bad("root-not-addressable", st)
	} else {
		m.Root.Bound, m.Root.Ino = true, e.ino
	}
	gen := &vfsh.Gen{M: m, R: rng, P: vfsh.Profile{KernelOnly: true, NoBadTargets: true, UniqueTargets: phase == "fuse", MaxDirs: 8, MaxNames: 7}}
	// Two lazily fetched directories below the root (put there through the
	// worker-facing API, as bb_worker does with input roots): their fetchers
	// fail once or twice before they succeed, so that the front ends see a
	// failed materialisation (EIO) followed by a successful retry.
	for k := 0; k < 2; k++ {
		spec := gen.NewLazySpec(0)
		if spec.Failures == 0 {
			spec.Failures = 1 + k
		}
		name := fmt.Sprintf("lz%d", k)
		if err := env.Root.CreateChildren(map[path.Component]virtual.InitialChild{path.MustNewComponent(name): virtual.InitialChild{}.FromDirectory(env.NewFetcher(spec))}, false); err != nil {
			panic(err)
		}
		if r := m.CreateChildren(m.Root, []vfsh.NewChild{{Name: name, Kind: vfsh.KDir, Lazy: spec}}, false); r.Status != vfsh.OK {
			panic("model: cannot seed lazy directory")
		}
		x.do(vfsh.Op{K: "VirtualLookup", D: m.Root.ID, N: name, Why: "seed"})
	}
	hk, _ := x.fe.(housekeeper)
	for s := 0; s < steps && !failed; s++ {
		x.do(gen.Next())
		if hk != nil && !failed {
			hk.afterOp()
		}
	}
	if !failed {
		x.finalCompare(finalNames)
	}
	r.Count(phase+"_operations", len(x.hist))
	for k, n := range x.calls {
		r.Count(phase+" call "+k, n)
	}
	nontrivial := false
	for name, n := range m.Sit {
		r.SituationN(name, n)
		r.SituationN(phase+":"+name, n)
		nontrivial = true
	}
	hs := []any{phase, cfg.String()}
	for _, st := range x.hist {
		hs = append(hs, st.Op.K, st.Op.N, st.Got)
	}
	r.Hash(ev.HashOf(hs...), nontrivial)
	if i == 0 && cfgIdx == 3 && r.WantSample() {
		h := x.hist
		if len(h) > 40 {
			h = h[:40]
		}
		r.Sample(map[string]any{"phase": phase, "cfg": cfg.String(), "case": i, "history": h})
	}
}

// ---- FUSE -------------------------------------------------------------------------

type fuseFrontEnd struct {
	rfs re_fuse.RawFileSystem
	x   *feExec
	rng *rand.Rand
	// lookups counts the references the "kernel" holds on every node id.
	lookups        map[uint64]uint64
	lastResume     uint64
	lastNotReached bool
}

func newFuseFrontEnd(env *vfsh.Env, x *feExec, rng *rand.Rand) *fuseFrontEnd {
	return &fuseFrontEnd{
		rfs:     re_fuse.NewSimpleRawFileSystem(env.Root, env.FUSEAlloc.RegisterRemovalNotifier, re_fuse.AllowAuthenticator),
		x:       x,
		rng:     rng,
		lookups: map[uint64]uint64{},
	}
}

func (f *fuseFrontEnd) resumeOffset() uint64      { return f.lastResume }
func (f *fuseFrontEnd) directoryNotReached() bool { return f.lastNotReached }

// got records that the file system handed out one more reference to a node.
func (f *fuseFrontEnd) got(s fuse.Status, out *fuse.EntryOut) {
	if s == fuse.OK && out.NodeId != 0 {
		f.lookups[out.NodeId]++
	}
}

// afterOp plays the kernel dropping references: FORGET of some references of
// a node, or of all of them followed by a fresh LOOKUP through a directory
// that still names the node. A node nobody can name any more is gone for
// good after a complete FORGET and is no longer used.
func (f *fuseFrontEnd) afterOp() {
	if f.rng.IntN(4) != 0 {
		return
	}
	m := f.x.m
	var cands []*vfsh.Node
	for _, n := range m.Nodes {
		if n.Bound && n != m.Root && f.lookups[n.Ino] > 0 {
			cands = append(cands, n)
		}
	}
	if len(cands) == 0 {
		return
	}
	n := cands[f.rng.IntN(len(cands))]
	cnt := f.lookups[n.Ino]
	if cnt > 1 && f.rng.IntN(2) == 0 {
		k := 1 + uint64(f.rng.IntN(int(cnt-1)))
		f.rfs.Forget(n.Ino, k)
		f.lookups[n.Ino] -= k
		m.Sit["fuse-forget-partial"]++
		return
	}
	// Find a live, addressable directory that names the node.
	var parent *vfsh.Node
	var name string
	for _, d := range m.Nodes {
		if d.IsDir() && d.Bound && !d.Deleted && d.Lazy == nil && (d == m.Root || f.lookups[d.Ino] > 0) && d != n {
			for _, e := range d.Entries {
				if e.Node == n {
					parent, name = d, e.Name
				}
			}
		}
	}
	if parent == nil {
		return
	}
	// Other model nodes may share the node id (none here: unique symlink
	// targets), so all references can be dropped.
	f.rfs.Forget(n.Ino, cnt)
	delete(f.lookups, n.Ino)
	m.Sit["fuse-forget-complete-then-lookup"]++
	st, e := f.lookup(parent, name)
	if st != vfsh.OK || !e.ok || e.ino != n.Ino || e.kind != n.Kind {
		f.x.bad("lookup-after-forget", fmt.Sprintf("node %d (%q in dir %d): status %s ino %d kind %v, expected ino %d kind %v", n.ID, name, parent.ID, st, e.ino, e.kind, n.Ino, n.Kind))
	}
}

func (f *fuseFrontEnd) readlink(n *vfsh.Node) (string, string) {
	h := f.hdr(n)
	b, s := f.rfs.Readlink(nil, &h)
	return fuseStatusName(s), string(b)
}

func fuseStatusName(s fuse.Status) string {
	switch syscall.Errno(s) {
	case 0:
		return vfsh.OK
	case syscall.EIO:
		return vfsh.EIO
	case syscall.ENOENT:
		return vfsh.ENOENT
	case syscall.EEXIST:
		return vfsh.EEXIST
	case syscall.EISDIR:
		return vfsh.EISDIR
	case syscall.ENOTDIR:
		return vfsh.ENOTDIR
	case syscall.ENOTEMPTY:
		return vfsh.ENOTEMPTY
	case syscall.EPERM:
		return vfsh.EPERM
	case syscall.EXDEV:
		return vfsh.EXDEV
	case syscall.ESTALE:
		return vfsh.ESTALE
	case syscall.EOPNOTSUPP:
		return vfsh.ESYMLINK
	case syscall.EINVAL:
		return vfsh.EINVAL
	}
	return fmt.Sprintf("errno%d", int(s))
}

func modeKind(mode uint32) vfsh.Kind {
	switch mode & syscall.S_IFMT {
	case syscall.S_IFDIR:
		return vfsh.KDir
	case syscall.S_IFREG:
		return vfsh.KFile
	case syscall.S_IFLNK:
		return vfsh.KSymlink
	case syscall.S_IFIFO:
		return vfsh.KFIFO
	case syscall.S_IFSOCK:
		return vfsh.KSocket
	}
	return vfsh.KBlock
}

func (f *fuseFrontEnd) id(n *vfsh.Node) uint64 {
	if n == f.x.m.Root {
		return fuse.FUSE_ROOT_ID
	}
	return n.Ino
}

func (f *fuseFrontEnd) hdr(n *vfsh.Node) fuse.InHeader { return fuse.InHeader{NodeId: f.id(n)} }

func entryOf(out *fuse.EntryOut) entryInfo {
	return entryInfo{ino: out.Attr.Ino, nlink: out.Attr.Nlink, kind: modeKind(out.Attr.Mode), ok: out.NodeId == out.Attr.Ino && out.NodeId != 0}
}

func (f *fuseFrontEnd) usable(n *vfsh.Node) bool { return true }
func (f *fuseFrontEnd) mknodPrecheck(k vfsh.Kind) string {
	return map[bool]string{true: vfsh.EPERM}[k == vfsh.KBlock || k == vfsh.KFile]
}

func (f *fuseFrontEnd) lookup(d *vfsh.Node, name string) (string, entryInfo) {
	var out fuse.EntryOut
	h := f.hdr(d)
	s := f.rfs.Lookup(nil, &h, name, &out)
	f.got(s, &out)
	return fuseStatusName(s), entryOf(&out)
}

func (f *fuseFrontEnd) create(d *vfsh.Node, name string, excl, trunc bool) (string, entryInfo) {
	flags := uint32(syscall.O_RDWR | syscall.O_CREAT)
	if excl {
		flags |= syscall.O_EXCL
	}
	if trunc {
		flags |= syscall.O_TRUNC
	}
	var out fuse.CreateOut
	s := f.rfs.Create(nil, &fuse.CreateIn{InHeader: f.hdr(d), Flags: flags, Mode: 0o644}, name, &out)
	if s == fuse.OK {
		f.rfs.Release(nil, &fuse.ReleaseIn{InHeader: fuse.InHeader{NodeId: out.NodeId}, Flags: flags})
	}
	f.got(s, &out.EntryOut)
	return fuseStatusName(s), entryOf(&out.EntryOut)
}

func (f *fuseFrontEnd) openExisting(d *vfsh.Node, name string, n *vfsh.Node, trunc bool) string {
	flags := uint32(syscall.O_RDWR)
	if trunc {
		flags |= syscall.O_TRUNC
	}
	var out fuse.OpenOut
	s := f.rfs.Open(nil, &fuse.OpenIn{InHeader: f.hdr(n), Flags: flags}, &out)
	if s == fuse.OK {
		f.rfs.Release(nil, &fuse.ReleaseIn{InHeader: f.hdr(n), Flags: flags})
	}
	return fuseStatusName(s)
}

func (f *fuseFrontEnd) mkdir(d *vfsh.Node, name string) (string, entryInfo) {
	var out fuse.EntryOut
	s := f.rfs.Mkdir(nil, &fuse.MkdirIn{InHeader: f.hdr(d), Mode: 0o755}, name, &out)
	f.got(s, &out)
	return fuseStatusName(s), entryOf(&out)
}

func (f *fuseFrontEnd) mknod(d *vfsh.Node, name string, k vfsh.Kind, target string) (string, entryInfo) {
	var out fuse.EntryOut
	if k == vfsh.KSymlink {
		h := f.hdr(d)
		s := f.rfs.Symlink(nil, &h, target, name, &out)
		f.got(s, &out)
		return fuseStatusName(s), entryOf(&out)
	}
	mode := map[vfsh.Kind]uint32{vfsh.KFIFO: syscall.S_IFIFO, vfsh.KSocket: syscall.S_IFSOCK, vfsh.KBlock: syscall.S_IFBLK, vfsh.KFile: syscall.S_IFREG}[k]
	s := f.rfs.Mknod(nil, &fuse.MknodIn{InHeader: f.hdr(d), Mode: mode | 0o644}, name, &out)
	f.got(s, &out)
	return fuseStatusName(s), entryOf(&out)
}

func (f *fuseFrontEnd) link(d *vfsh.Node, name string, leaf *vfsh.Node) (string, entryInfo) {
	var out fuse.EntryOut
	s := f.rfs.Link(nil, &fuse.LinkIn{InHeader: f.hdr(d), Oldnodeid: f.id(leaf)}, name, &out)
	f.got(s, &out)
	return fuseStatusName(s), entryOf(&out)
}

func (f *fuseFrontEnd) rename(d *vfsh.Node, name string, d2 *vfsh.Node, name2 string) string {
	return fuseStatusName(f.rfs.Rename(nil, &fuse.RenameIn{InHeader: f.hdr(d), Newdir: f.id(d2)}, name, name2))
}

func (f *fuseFrontEnd) remove(d *vfsh.Node, name string, rmDir, rmLeaf bool) (string, bool, bool) {
	h := f.hdr(d)
	if rmDir && rmLeaf {
		// The kernel knows what the name refers to and picks the call.
		if e := f.x.m.Find(d, name); e != nil && e.Node.IsDir() {
			rmLeaf = false
		}
	}
	if rmLeaf {
		return fuseStatusName(f.rfs.Unlink(nil, &h, name)), false, true
	}
	return fuseStatusName(f.rfs.Rmdir(nil, &h, name)), true, false
}

type fuseDirList struct {
	limit      int
	countDots  bool // "." and ".." use up room of the page as well
	dots       int
	dotRefused bool
	lastDot    uint64
	entries    []vfsh.Reported
	refused    bool
	plus       []*fuse.EntryOut
}

func (l *fuseDirList) add(e fuse.DirEntry) bool {
	if e.Name == "." || e.Name == ".." {
		if l.countDots && l.dots >= l.limit {
			l.refused = true
			l.dotRefused = true
			return false
		}
		l.dots++
		l.lastDot = e.Off
		return true
	}
	used := len(l.entries)
	if l.countDots {
		used += l.dots
	}
	if used >= l.limit {
		l.refused = true
		return false
	}
	l.entries = append(l.entries, vfsh.Reported{Name: e.Name, NextCookie: e.Off, IsDir: e.Mode&syscall.S_IFMT == syscall.S_IFDIR, Ino: e.Ino})
	return true
}

func (l *fuseDirList) AddDirEntry(e fuse.DirEntry) bool { return l.add(e) }

func (l *fuseDirList) AddDirLookupEntry(e fuse.DirEntry) *fuse.EntryOut {
	if !l.add(e) {
		return nil
	}
	out := &fuse.EntryOut{}
	if e.Name != "." && e.Name != ".." {
		l.plus = append(l.plus, out)
	}
	return out
}

func (f *fuseFrontEnd) readdir(d *vfsh.Node, cookie uint64, limit int, plus bool) (string, []vfsh.Reported, bool) {
	l := &fuseDirList{limit: limit, countDots: f.rng.IntN(2) == 0}
	in := &fuse.ReadIn{InHeader: f.hdr(d), Offset: cookie}
	defer func() {
		f.lastResume = 0
		f.lastNotReached = l.dotRefused
		if len(l.entries) == 0 && l.dots > 0 {
			f.lastResume = l.lastDot
		}
		for _, out := range l.plus {
			f.got(fuse.OK, out)
		}
	}()
	var s fuse.Status
	if plus {
		s = f.rfs.ReadDirPlus(nil, in, l)
		for i, out := range l.plus {
			if out.NodeId != l.entries[i].Ino || out.Attr.Ino != l.entries[i].Ino {
				f.x.bad("readdirplus-entry-attributes-differ", fmt.Sprintf("%q: entry inode %d, attributes inode %d node id %d", l.entries[i].Name, l.entries[i].Ino, out.Attr.Ino, out.NodeId))
			}
		}
	} else {
		s = f.rfs.ReadDir(nil, in, l)
	}
	return fuseStatusName(s), l.entries, !l.refused
}

func (f *fuseFrontEnd) getattr(n *vfsh.Node) (string, entryInfo) {
	var out fuse.AttrOut
	s := f.rfs.GetAttr(nil, &fuse.GetAttrIn{InHeader: f.hdr(n)}, &out)
	if s == fuse.OK && n.IsDir() {
		// chmod/chown/truncate of a directory: accepted, refused, invalid.
		for _, c := range []struct {
			valid uint32
			want  string
		}{{fuse.FATTR_MODE, vfsh.OK}, {fuse.FATTR_UID, vfsh.EPERM}, {fuse.FATTR_GID, vfsh.EPERM}, {fuse.FATTR_SIZE, vfsh.EINVAL}} {
			if f.rng.IntN(3) != 0 {
				continue
			}
			in := &fuse.SetAttrIn{SetAttrInCommon: fuse.SetAttrInCommon{InHeader: f.hdr(n), Valid: c.valid, Mode: 0o700, Size: 1}}
			in.Uid, in.Gid = 1, 1
			var so fuse.AttrOut
			if got := fuseStatusName(f.rfs.SetAttr(nil, in, &so)); got != c.want {
				f.x.bad("status want="+c.want+" got="+got, fmt.Sprintf("SETATTR valid=%#x on directory node %d", c.valid, n.ID))
			}
			f.x.m.Sit["fuse-setattr-on-directory"]++
		}
	}
	return fuseStatusName(s), entryInfo{ino: out.Attr.Ino, nlink: out.Attr.Nlink, kind: modeKind(out.Attr.Mode), ok: true}
}

// (FUSE part ends here; the NFSv4 front end lives in nfs_frontend_test.go.)
