package c13

import (
	"context"
	"encoding/binary"
	"strings"
	"time"

	"github.com/buildbarn/bb-remote-execution/pkg/filesystem/virtual/nfsv4"
	"github.com/buildbarn/bb-storage/pkg/filesystem/path"
	"github.com/buildbarn/bb-storage/pkg/random"
	nfs "github.com/buildbarn/go-xdr/pkg/protocols/nfsv4"
	"github.com/buildbarn/go-xdr/pkg/protocols/rpcv2"

	"verif/internal/vfsh"
)

// nfsFrontEnd drives the tree through NFSv4.0 or NFSv4.1 COMPOUNDs with one
// registered client and one open-owner.
type nfsFrontEnd struct {
	x        *feExec
	prog     nfs.Nfs4Program
	minor    uint32
	client   uint64
	session  [16]byte
	slotSeq  uint32
	ownerSeq uint32
	ctx      context.Context
}

var nfsRebootVerifier = nfs.Verifier4{1, 2, 3, 4, 5, 6, 7, 8}

func newNFSFrontEnd(env *vfsh.Env, x *feExec, v41 bool) *nfsFrontEnd {
	f := &nfsFrontEnd{x: x, ctx: context.Background()}
	ofp := nfsv4.NewOpenedFilesPool(env.NFSAlloc.ResolveHandle)
	sec := []nfs.Secinfo4{&nfs.Secinfo4_default{Flavor: rpcv2.AUTH_NONE}}
	if v41 {
		f.minor = 1
		f.prog = nfsv4.NewNFS41Program(env.Root, ofp, nfs.ServerOwner4{SoMinorId: 1, SoMajorId: []byte("verif")}, []byte("scope"),
			&nfs.ChannelAttrs4{CaMaxrequestsize: 1 << 20, CaMaxresponsesize: 1 << 20, CaMaxresponsesizeCached: 1 << 16, CaMaxoperations: 100, CaMaxrequests: 16},
			random.NewFastSingleThreadedGenerator(), nfsRebootVerifier, env.Clock, 2*time.Minute, time.Minute, path.UNIXFormat, sec)
		res := f.raw(&nfs.NfsArgop4_OP_EXCHANGE_ID{OpexchangeId: nfs.ExchangeId4args{
			EiaClientowner: nfs.ClientOwner4{CoVerifier: nfs.Verifier4{1}, CoOwnerid: []byte("c13")}, EiaStateProtect: &nfs.StateProtect4A_SP4_NONE{}}})
		ok := res.Resarray[0].(*nfs.NfsResop4_OP_EXCHANGE_ID).OpexchangeId.(*nfs.ExchangeId4res_NFS4_OK)
		f.client = ok.EirResok4.EirClientid
		res = f.raw(&nfs.NfsArgop4_OP_CREATE_SESSION{OpcreateSession: nfs.CreateSession4args{CsaClientid: f.client, CsaSequence: ok.EirResok4.EirSequenceid,
			CsaForeChanAttrs: nfs.ChannelAttrs4{CaMaxrequestsize: 1 << 20, CaMaxresponsesize: 1 << 20, CaMaxresponsesizeCached: 1 << 16, CaMaxoperations: 64, CaMaxrequests: 1}}})
		f.session = res.Resarray[0].(*nfs.NfsResop4_OP_CREATE_SESSION).OpcreateSession.(*nfs.CreateSession4res_NFS4_OK).CsrResok4.CsrSessionid
		f.run(&nfs.NfsArgop4_OP_RECLAIM_COMPLETE{})
		return f
	}
	f.prog = nfsv4.NewNFS40Program(env.Root, ofp, random.NewFastSingleThreadedGenerator(), nfsRebootVerifier, [4]byte{9, 9, 9, 9},
		env.Clock, 2*time.Minute, time.Minute, path.UNIXFormat, sec)
	res := f.raw(&nfs.NfsArgop4_OP_SETCLIENTID{Opsetclientid: nfs.Setclientid4args{
		Client:   nfs.NfsClientId4{Verifier: nfs.Verifier4{1}, Id: []byte("c13")},
		Callback: nfs.CbClient4{CbProgram: 1, CbLocation: nfs.Clientaddr4{NaRNetid: "tcp", NaRAddr: "127.0.0.1.1.1"}}}})
	ok := res.Resarray[0].(*nfs.NfsResop4_OP_SETCLIENTID).Opsetclientid.(*nfs.Setclientid4res_NFS4_OK)
	f.client = ok.Resok4.Clientid
	f.raw(&nfs.NfsArgop4_OP_SETCLIENTID_CONFIRM{OpsetclientidConfirm: nfs.SetclientidConfirm4args{Clientid: f.client, SetclientidConfirm: ok.Resok4.SetclientidConfirm}})
	return f
}

func (f *nfsFrontEnd) raw(ops ...nfs.NfsArgop4) *nfs.Compound4res {
	res, err := f.prog.NfsV4Nfsproc4Compound(f.ctx, &nfs.Compound4args{Tag: "c13", Minorversion: f.minor, Argarray: ops})
	if err != nil {
		panic("c13: COMPOUND returned a Go error: " + err.Error())
	}
	return res
}

// run issues one COMPOUND; for 4.1 it is prefixed with SEQUENCE, whose result
// is stripped again.
func (f *nfsFrontEnd) run(ops ...nfs.NfsArgop4) *nfs.Compound4res {
	if f.minor == 0 {
		return f.raw(ops...)
	}
	f.slotSeq++
	all := append([]nfs.NfsArgop4{&nfs.NfsArgop4_OP_SEQUENCE{Opsequence: nfs.Sequence4args{SaSessionid: f.session, SaSequenceid: f.slotSeq, SaCachethis: false}}}, ops...)
	res := f.raw(all...)
	if len(res.Resarray) == 0 {
		panic("c13: empty 4.1 reply")
	}
	if _, ok := res.Resarray[0].(*nfs.NfsResop4_OP_SEQUENCE).Opsequence.(*nfs.Sequence4res_NFS4_OK); !ok {
		panic("c13: SEQUENCE failed: " + nfs.Nfsstat4_name[res.Status])
	}
	res.Resarray = res.Resarray[1:]
	return res
}

func nfsStatusName(s nfs.Nfsstat4) string {
	switch s {
	case nfs.NFS4_OK:
		return vfsh.OK
	case nfs.NFS4ERR_IO:
		return vfsh.EIO
	case nfs.NFS4ERR_NOENT:
		return vfsh.ENOENT
	case nfs.NFS4ERR_EXIST:
		return vfsh.EEXIST
	case nfs.NFS4ERR_ISDIR:
		return vfsh.EISDIR
	case nfs.NFS4ERR_NOTDIR:
		return vfsh.ENOTDIR
	case nfs.NFS4ERR_NOTEMPTY:
		return vfsh.ENOTEMPTY
	case nfs.NFS4ERR_PERM:
		return vfsh.EPERM
	case nfs.NFS4ERR_XDEV:
		return vfsh.EXDEV
	case nfs.NFS4ERR_STALE:
		return vfsh.ESTALE
	case nfs.NFS4ERR_SYMLINK:
		return vfsh.ESYMLINK
	case nfs.NFS4ERR_INVAL:
		return vfsh.EINVAL
	}
	return strings.TrimPrefix(nfs.Nfsstat4_name[s], "NFS4ERR_")
}

var (
	nfsNodeAttrs  = nfs.Bitmap4{1<<nfs.FATTR4_TYPE | 1<<nfs.FATTR4_FILEID, 1 << (nfs.FATTR4_NUMLINKS - 32)}
	nfsEntryAttrs = nfs.Bitmap4{1<<nfs.FATTR4_TYPE | 1<<nfs.FATTR4_FILEID}
)

func nfsKind(t uint32) vfsh.Kind {
	switch nfs.NfsFtype4(t) {
	case nfs.NF4DIR:
		return vfsh.KDir
	case nfs.NF4REG:
		return vfsh.KFile
	case nfs.NF4LNK:
		return vfsh.KSymlink
	case nfs.NF4FIFO:
		return vfsh.KFIFO
	case nfs.NF4SOCK:
		return vfsh.KSocket
	}
	return vfsh.KBlock
}

// decodeAttrs decodes {type, fileid[, numlinks]} from a fattr4.
func decodeAttrs(a *nfs.Fattr4) (kind vfsh.Kind, fileid uint64, nlink uint32, ok bool) {
	if len(a.Attrmask) == 0 {
		return 0, 0, 0, false
	}
	b := a.AttrVals
	mask := a.Attrmask[0]
	if mask&(1<<nfs.FATTR4_TYPE) == 0 || mask&(1<<nfs.FATTR4_FILEID) == 0 || len(b) < 12 {
		return 0, 0, 0, false
	}
	kind = nfsKind(binary.BigEndian.Uint32(b))
	fileid = binary.BigEndian.Uint64(b[4:])
	if len(a.Attrmask) > 1 && a.Attrmask[1]&(1<<(nfs.FATTR4_NUMLINKS-32)) != 0 && len(b) >= 16 {
		nlink = binary.BigEndian.Uint32(b[12:])
	}
	return kind, fileid, nlink, true
}

func (f *nfsFrontEnd) fh(n *vfsh.Node) nfs.NfsArgop4 {
	if n == f.x.m.Root {
		return &nfs.NfsArgop4_OP_PUTROOTFH{}
	}
	h, _ := f.x.handles[n].([]byte)
	return &nfs.NfsArgop4_OP_PUTFH{Opputfh: nfs.Putfh4args{Object: h}}
}

// tail appends GETFH + GETATTR and extracts the entry from a successful reply.
func (f *nfsFrontEnd) withEntry(ops ...nfs.NfsArgop4) (string, entryInfo) {
	ops = append(ops, &nfs.NfsArgop4_OP_GETFH{}, &nfs.NfsArgop4_OP_GETATTR{Opgetattr: nfs.Getattr4args{AttrRequest: nfsNodeAttrs}})
	res := f.run(ops...)
	if res.Status != nfs.NFS4_OK {
		return nfsStatusName(res.Status), entryInfo{}
	}
	return vfsh.OK, entryFromTail(res)
}

func entryFromTail(res *nfs.Compound4res) entryInfo {
	n := len(res.Resarray)
	gf, ok1 := res.Resarray[n-2].(*nfs.NfsResop4_OP_GETFH)
	ga, ok2 := res.Resarray[n-1].(*nfs.NfsResop4_OP_GETATTR)
	if !ok1 || !ok2 {
		return entryInfo{}
	}
	fhOK, ok1 := gf.Opgetfh.(*nfs.Getfh4res_NFS4_OK)
	gaOK, ok2 := ga.Opgetattr.(*nfs.Getattr4res_NFS4_OK)
	if !ok1 || !ok2 {
		return entryInfo{}
	}
	kind, fileid, nlink, ok := decodeAttrs(&gaOK.Resok4.ObjAttributes)
	return entryInfo{ino: fileid, nlink: nlink, kind: kind, ok: ok, h: []byte(fhOK.Resok4.Object)}
}

func (f *nfsFrontEnd) usable(n *vfsh.Node) bool {
	if n == f.x.m.Root {
		return true
	}
	if n.IsDir() {
		return !n.Deleted
	}
	return n.Nlink > 0
}

func (f *nfsFrontEnd) mknodPrecheck(k vfsh.Kind) string { return "" }

func (f *nfsFrontEnd) getattr(n *vfsh.Node) (string, entryInfo) {
	return f.withEntry(f.fh(n))
}

func (f *nfsFrontEnd) lookup(d *vfsh.Node, name string) (string, entryInfo) {
	return f.withEntry(f.fh(d), &nfs.NfsArgop4_OP_LOOKUP{Oplookup: nfs.Lookup4args{Objname: name}})
}

// open issues OPEN + GETFH + GETATTR and closes the file again.
func (f *nfsFrontEnd) open(d *vfsh.Node, name string, how nfs.Openflag4) (string, entryInfo) {
	open := &nfs.NfsArgop4_OP_OPEN{Opopen: nfs.Open4args{Seqid: f.ownerSeq, ShareAccess: nfs.OPEN4_SHARE_ACCESS_BOTH, ShareDeny: nfs.OPEN4_SHARE_DENY_NONE,
		Owner: nfs.OpenOwner4{Clientid: f.client, Owner: []byte("owner")}, Openhow: how, Claim: &nfs.OpenClaim4_CLAIM_NULL{File: name}}}
	res := f.run(f.fh(d), open, &nfs.NfsArgop4_OP_GETFH{}, &nfs.NfsArgop4_OP_GETATTR{Opgetattr: nfs.Getattr4args{AttrRequest: nfsNodeAttrs}})
	var openRes nfs.Open4res
	for _, r := range res.Resarray {
		if o, ok := r.(*nfs.NfsResop4_OP_OPEN); ok {
			openRes = o.Opopen
		}
	}
	if openRes == nil {
		// PUTFH failed.
		return nfsStatusName(res.Status), entryInfo{}
	}
	if f.minor == 0 {
		f.ownerSeq++
	}
	if res.Status != nfs.NFS4_OK {
		return nfsStatusName(res.Status), entryInfo{}
	}
	e := entryFromTail(res)
	okRes := openRes.(*nfs.Open4res_NFS4_OK)
	stateID := okRes.Resok4.Stateid
	h, _ := e.h.([]byte)
	putfh := &nfs.NfsArgop4_OP_PUTFH{Opputfh: nfs.Putfh4args{Object: h}}
	if f.minor == 0 && okRes.Resok4.Rflags&nfs.OPEN4_RESULT_CONFIRM != 0 {
		cres := f.run(putfh, &nfs.NfsArgop4_OP_OPEN_CONFIRM{OpopenConfirm: nfs.OpenConfirm4args{OpenStateid: stateID, Seqid: f.ownerSeq}})
		f.ownerSeq++
		if cres.Status != nfs.NFS4_OK {
			f.x.bad("nfs-open-confirm-failed", nfs.Nfsstat4_name[cres.Status])
			return vfsh.OK, e
		}
		stateID = cres.Resarray[1].(*nfs.NfsResop4_OP_OPEN_CONFIRM).OpopenConfirm.(*nfs.OpenConfirm4res_NFS4_OK).Resok4.OpenStateid
	}
	cres := f.run(putfh, &nfs.NfsArgop4_OP_CLOSE{Opclose: nfs.Close4args{Seqid: f.ownerSeq, OpenStateid: stateID}})
	if f.minor == 0 {
		f.ownerSeq++
	}
	if cres.Status != nfs.NFS4_OK {
		f.x.bad("nfs-close-failed", nfs.Nfsstat4_name[cres.Status])
	}
	return vfsh.OK, e
}

func (f *nfsFrontEnd) create(d *vfsh.Node, name string, excl, trunc bool) (string, entryInfo) {
	var attrs nfs.Fattr4
	if trunc {
		attrs = nfs.Fattr4{Attrmask: nfs.Bitmap4{1 << nfs.FATTR4_SIZE}, AttrVals: make([]byte, 8)}
	}
	if excl {
		return f.open(d, name, &nfs.Openflag4_OPEN4_CREATE{How: &nfs.Createhow4_GUARDED4{Createattrs: nfs.Fattr4{}}})
	}
	return f.open(d, name, &nfs.Openflag4_OPEN4_CREATE{How: &nfs.Createhow4_UNCHECKED4{Createattrs: attrs}})
}

func (f *nfsFrontEnd) openExisting(d *vfsh.Node, name string, n *vfsh.Node, trunc bool) string {
	st, _ := f.open(d, name, &nfs.Openflag4_default{})
	return st
}

func (f *nfsFrontEnd) mkdir(d *vfsh.Node, name string) (string, entryInfo) {
	return f.withEntry(f.fh(d), &nfs.NfsArgop4_OP_CREATE{Opcreate: nfs.Create4args{Objtype: &nfs.Createtype4_NF4DIR{}, Objname: name}})
}

func (f *nfsFrontEnd) mknod(d *vfsh.Node, name string, k vfsh.Kind, target string) (string, entryInfo) {
	var t nfs.Createtype4
	switch k {
	case vfsh.KFIFO:
		t = &nfs.Createtype4_NF4FIFO{}
	case vfsh.KSocket:
		t = &nfs.Createtype4_NF4SOCK{}
	case vfsh.KSymlink:
		t = &nfs.Createtype4_NF4LNK{Linkdata: []byte(target)}
	default:
		t = &nfs.Createtype4_NF4BLK{Devdata: nfs.Specdata4{Specdata1: 1, Specdata2: 2}}
	}
	return f.withEntry(f.fh(d), &nfs.NfsArgop4_OP_CREATE{Opcreate: nfs.Create4args{Objtype: t, Objname: name}})
}

func (f *nfsFrontEnd) link(d *vfsh.Node, name string, leaf *vfsh.Node) (string, entryInfo) {
	return f.withEntry(f.fh(leaf), &nfs.NfsArgop4_OP_SAVEFH{}, f.fh(d), &nfs.NfsArgop4_OP_LINK{Oplink: nfs.Link4args{Newname: name}}, &nfs.NfsArgop4_OP_RESTOREFH{})
}

func (f *nfsFrontEnd) rename(d *vfsh.Node, name string, d2 *vfsh.Node, name2 string) string {
	res := f.run(f.fh(d), &nfs.NfsArgop4_OP_SAVEFH{}, f.fh(d2), &nfs.NfsArgop4_OP_RENAME{Oprename: nfs.Rename4args{Oldname: name, Newname: name2}})
	return nfsStatusName(res.Status)
}

func (f *nfsFrontEnd) remove(d *vfsh.Node, name string, rmDir, rmLeaf bool) (string, bool, bool) {
	// REMOVE removes whatever the name refers to.
	res := f.run(f.fh(d), &nfs.NfsArgop4_OP_REMOVE{Opremove: nfs.Remove4args{Target: name}})
	return nfsStatusName(res.Status), true, true
}

func (f *nfsFrontEnd) readdir(d *vfsh.Node, cookie uint64, limit int, plus bool) (string, []vfsh.Reported, bool) {
	res := f.run(f.fh(d), &nfs.NfsArgop4_OP_READDIR{Opreaddir: nfs.Readdir4args{Cookie: cookie, Cookieverf: nfsRebootVerifier, Dircount: 1 << 16, Maxcount: 1 << 18, AttrRequest: nfsEntryAttrs}})
	if res.Status != nfs.NFS4_OK {
		return nfsStatusName(res.Status), nil, true
	}
	ok := res.Resarray[len(res.Resarray)-1].(*nfs.NfsResop4_OP_READDIR).Opreaddir.(*nfs.Readdir4res_NFS4_OK)
	var out []vfsh.Reported
	end := ok.Resok4.Reply.Eof
	for e := ok.Resok4.Reply.Entries; e != nil; e = e.Nextentry {
		if len(out) >= limit {
			// The client stops reading here and will resume from the
			// cookie of the last entry it consumed.
			end = false
			break
		}
		kind, fileid, _, decoded := decodeAttrs(&e.Attrs)
		if !decoded {
			f.x.bad("nfs-readdir-entry-without-attributes", e.Name)
		}
		out = append(out, vfsh.Reported{Name: e.Name, NextCookie: e.Cookie, IsDir: kind == vfsh.KDir, Ino: fileid})
	}
	return vfsh.OK, out, end
}
