package c13

import (
	"math/rand/v2"

	"verif/internal/vfsh"
)

// InstallHooks mixed into the direct histories.
//
// InstallHooks replaces the collaborators (file allocator, symlink factory,
// error logger, ...) of one directory and of every directory created below it
// afterwards. It is a worker-facing call that must not change anything the
// hierarchy shows: names, statuses, listings and change IDs stay what the
// reference model says. In particular a directory can still be moved between
// two directories whose hooks were installed by different calls (they belong
// to the same file system; only a different file system yields EXDEV).
//
// The calls are drawn from a PRNG of their own and do not touch the model, so
// the operation stream of the main generator is the same with and without
// them.

const (
	sitHooksRename       = "rename-directory-between-directories-with-different-hooks"
	sitHooksRenameOnto   = "rename-directory-onto-directory-between-directories-with-different-hooks"
	sitHooksCreateBelow  = "directory-created-below-installed-hooks"
	sitHooksOnRemovedDir = "hooks-installed-on-removed-directory"
)

var hookSituations = map[string]int{sitHooksRename: 40, sitHooksRenameOnto: 20, sitHooksCreateBelow: 40, sitHooksOnRemovedDir: 20}

// hookTracker mirrors which InstallHooks call governs every directory of the
// model: generation 0 is the root's construction, every InstallHooks call
// starts a new generation, and a directory inherits the generation its parent
// has at the moment it is created (for lazily fetched contents: the moment
// the parent is materialised), exactly like createNewDirectory() does.
type hookTracker struct {
	m    *vfsh.Model
	rng  *rand.Rand
	gen  map[int]int
	next int
}

func newHookTracker(m *vfsh.Model, rng *rand.Rand) *hookTracker {
	h := &hookTracker{m: m, rng: rng, gen: map[int]int{}, next: 1}
	for _, root := range m.Roots {
		// Roots of different file systems never share collaborators'
		// generation; directories cannot move between them anyway.
		h.gen[root.ID] = -1 - root.ID
	}
	h.adopt()
	return h
}

// adopt assigns a generation to every directory that appeared since the last
// call. A directory whose parent cannot be found any more (created and
// removed within one operation) gets a generation of its own.
func (h *hookTracker) adopt() {
	parent := map[*vfsh.Node]*vfsh.Node{}
	for _, d := range h.m.Nodes {
		if d.IsDir() {
			for _, e := range d.Entries {
				if e.Node.IsDir() {
					if _, known := h.gen[e.Node.ID]; !known {
						parent[e.Node] = d
					}
				}
			}
		}
	}
	for progress := true; progress; {
		progress = false
		for _, n := range h.m.Nodes {
			if !n.IsDir() {
				continue
			}
			if _, known := h.gen[n.ID]; known {
				continue
			}
			p := parent[n]
			if p == nil {
				h.gen[n.ID] = -1000000 - n.ID
				progress = true
				continue
			}
			if g, ok := h.gen[p.ID]; ok {
				h.gen[n.ID] = g
				if g > 0 {
					h.m.Sit[sitHooksCreateBelow]++
				}
				progress = true
			}
		}
	}
}

// maybeInstall returns an InstallHooks operation for a random bound directory
// (now and then a removed one), or false.
func (h *hookTracker) maybeInstall() (vfsh.Op, bool) {
	if h.rng.IntN(100) >= 7 {
		return vfsh.Op{}, false
	}
	var live, dead []*vfsh.Node
	for _, n := range h.m.Nodes {
		if n.IsDir() && n.Bound && n.FS == h.m.Root.FS {
			if n.Deleted {
				dead = append(dead, n)
			} else {
				live = append(live, n)
			}
		}
	}
	d := live[h.rng.IntN(len(live))]
	if len(dead) > 0 && h.rng.IntN(8) == 0 {
		d = dead[h.rng.IntN(len(dead))]
		h.m.Sit[sitHooksOnRemovedDir]++
	}
	return vfsh.Op{K: "InstallHooks", D: d.ID, Why: "hooks must not change what the hierarchy shows"}, true
}

func (h *hookTracker) installed(op vfsh.Op) {
	h.gen[op.D] = h.next
	h.next++
}

// renameCrossesHooks tells, before the operation runs, whether op moves a
// directory between two directories governed by different InstallHooks calls
// (onto: the destination name holds a directory as well).
func (h *hookTracker) renameCrossesHooks(op vfsh.Op) (crosses, onto bool) {
	if op.K != "VirtualRename" || op.D == op.D2 {
		return false, false
	}
	d, d2 := h.m.Nodes[op.D], h.m.Nodes[op.D2]
	if d.Lazy != nil || d2.Lazy != nil || d.FS != d2.FS || h.gen[d.ID] == h.gen[d2.ID] {
		return false, false
	}
	e := h.m.Find(d, op.N)
	if e == nil || !e.Node.IsDir() {
		return false, false
	}
	e2 := h.m.Find(d2, op.N2)
	return true, e2 != nil && e2.Node.IsDir() && e2.Node != e.Node
}
