package c13

import (
	"context"
	"fmt"
	"runtime"
	"sort"
	"strings"
	"sync"
	"sync/atomic"
	"time"

	"github.com/buildbarn/bb-remote-execution/pkg/filesystem/virtual"
	"github.com/buildbarn/bb-storage/pkg/filesystem/path"

	"verif/internal/ev"
	"verif/internal/vfsh"
)

// Gated scenarios: mutations INSIDE one call.
//
// Calls that need the lock of a child directory (VirtualReadDir / VirtualLookup
// with attributes that need it, VirtualRemove, VirtualRename onto a directory)
// may have to drop the parent's lock to obtain the child's (LockPile back-off)
// and must revalidate afterwards. The stepped histories never take that path:
// nothing happens between the pages of a listing while a call is in flight.
//
// Here the child directory D is lazily fetched by a fetcher the harness owns.
// A holder goroutine accesses D and parks inside FetchContents, i.e. while
// holding D's lock. The call under test is started, and once its goroutine is
// observed blocked on a mutex inside LockPile.Lock (goroutine dump: an event,
// not a delay) the driver detaches or renames D in the parent, optionally
// mutates other entries, and opens the gate. The results are judged by the
// same rules as everywhere else: a listing reports every entry that existed
// throughout exactly once, others at most once, with increasing cookies;
// lookup / remove / rename answer for what the name refers to when they return.

type gatedFetcher struct {
	reached chan struct{}
	gate    chan struct{}
	once    sync.Once
	leaf    virtual.LinkableLeaf // optional single child "inner"
}

func (f *gatedFetcher) FetchContents(virtual.FileReadMonitorFactory) (map[path.Component]virtual.InitialChild, error) {
	f.once.Do(func() { close(f.reached) })
	<-f.gate
	out := map[path.Component]virtual.InitialChild{}
	if f.leaf != nil {
		out[path.MustNewComponent("inner")] = virtual.InitialChild{}.FromLeaf(f.leaf)
	}
	return out, nil
}

func (f *gatedFetcher) VirtualApply(data any) bool { return false }

type gatedEntry struct {
	Name     string `json:"name"`
	Cookie   uint64 `json:"next_cookie"`
	IsDir    bool   `json:"is_dir"`
	Ino      uint64 `json:"ino"`
	AfterGap bool   `json:"after_gate,omitempty"`
}

type gatedReporter struct {
	mu      sync.Mutex
	limit   int
	entries []gatedEntry
	refused bool
	opened  *atomic.Bool
}

func (r *gatedReporter) ReportEntry(nextCookie uint64, name path.Component, child virtual.DirectoryChild, a *virtual.Attributes) bool {
	r.mu.Lock()
	defer r.mu.Unlock()
	if len(r.entries) >= r.limit {
		r.refused = true
		return false
	}
	d, _ := child.GetPair()
	r.entries = append(r.entries, gatedEntry{Name: name.String(), Cookie: nextCookie, IsDir: d != nil, Ino: a.GetInodeNumber(), AfterGap: r.opened != nil && r.opened.Load()})
	return true
}

func (r *gatedReporter) count() int {
	r.mu.Lock()
	defer r.mu.Unlock()
	return len(r.entries)
}

func goroutineID() string {
	var buf [64]byte
	s := strings.TrimPrefix(string(buf[:runtime.Stack(buf[:], false)]), "goroutine ")
	if i := strings.IndexByte(s, ' '); i > 0 {
		return s[:i]
	}
	return "?"
}

// waitParkedOnLockPile waits until goroutine id is blocked on a mutex inside
// LockPile.Lock (it has dropped the parent's lock and waits for the child's).
// It returns false if the goroutine finished first or never got there.
func waitParkedOnLockPile(id string, done <-chan struct{}) bool {
	header := "goroutine " + id + " ["
	buf := make([]byte, 1<<18)
	for start := time.Now(); time.Since(start) < 30*time.Second; {
		select {
		case <-done:
			return false
		default:
		}
		n := runtime.Stack(buf, true)
		if n == len(buf) {
			buf = make([]byte, 2*len(buf))
			continue
		}
		dump := string(buf[:n])
		if i := strings.Index(dump, header); i >= 0 {
			block := dump[i:]
			if j := strings.Index(block, "\n\n"); j >= 0 {
				block = block[:j]
			}
			if strings.HasPrefix(block[len(header):], "sync.Mutex.Lock") && strings.Contains(block, "pkg/sync.(*LockPile).Lock") {
				return true
			}
		}
		time.Sleep(50 * time.Microsecond)
	}
	return false
}

type gatedWitness struct {
	Seed    uint64       `json:"seed"`
	Phase   string       `json:"phase"`
	Cfg     int          `json:"cfg"`
	CfgName string       `json:"cfg_name"`
	Case    int          `json:"case"`
	Kind    string       `json:"kind"`
	Layout  []string     `json:"parent_entries_in_attach_order"`
	Script  []string     `json:"script"`
	Listing []gatedEntry `json:"reported,omitempty"`
	Rule    string       `json:"rule"`
	Detail  string       `json:"detail"`
}

func inoOf(n virtual.Node) uint64 {
	var a virtual.Attributes
	n.VirtualGetAttributes(context.Background(), vfsh.MaskBasic, &a)
	return a.GetInodeNumber()
}

func runGatedCase(r *ev.Run, cfgIdx int, base vfsh.Config, i int) {
	cfg := caseConfig(base, i)
	rng := r.Rand(5, uint64(cfgIdx), uint64(i))
	kind := []string{"readdir", "readdir", "readdir", "readdir", "readdir", "readdir", "readdir", "lookup", "remove", "rename-onto", "rename-source", "rename-source", "rename-source"}[rng.IntN(13)]
	r.Case("gated cfg=%d(%s) case=%d kind=%s", cfgIdx, cfg, i, kind)
	ctx := context.Background()
	env := vfsh.NewEnv(cfg)
	var script, layout []string
	var listing []gatedEntry
	failed := false
	bad := func(rule, detail string) {
		if failed {
			return
		}
		failed = true
		r.Violation("C13 gated-"+kind+" "+rule, fmt.Sprintf("cfg=%s case=%d: %s", cfg, i, detail),
			gatedWitness{Seed: r.Seed(), Phase: "gated", Cfg: cfgIdx, CfgName: cfg.String(), Case: i, Kind: kind, Layout: layout, Script: script, Listing: listing, Rule: rule, Detail: detail})
	}
	say := func(format string, args ...any) { script = append(script, fmt.Sprintf(format, args...)) }
	pcomp := path.MustNewComponent

	// The parent: the root or a directory below it; Q is a second directory
	// outside the parent (target of cross-directory renames).
	parent := env.Root
	if rng.IntN(2) == 0 {
		p, err := env.Root.CreateAndEnterPrepopulatedDirectory(pcomp("parent"))
		if err != nil {
			panic(err)
		}
		parent = p
	}
	other, err := env.Root.CreateAndEnterPrepopulatedDirectory(pcomp("other"))
	if err != nil {
		panic(err)
	}

	// Populate the parent one entry at a time, so that the cookie order is
	// the order of this list. D sits at position pos with >= 1 visible
	// entry in front of it.
	names := []string{"a", "B", "c", "D0", "e", "F", "g", "h"}
	rng.Shuffle(len(names), func(a, b int) { names[a], names[b] = names[b], names[a] })
	n := 3 + rng.IntN(4)
	pos := 1 + rng.IntN(n-1)
	type ent struct {
		name    string
		isDir   bool
		hidden  bool
		touched bool // detached / replaced by the driver
	}
	var ents []*ent
	if parent == env.Root {
		// The root also holds the second directory, created first.
		ents = append(ents, &ent{name: "other", isDir: true})
		layout = append(layout, "other/")
	}
	fetcher := &gatedFetcher{reached: make(chan struct{}), gate: make(chan struct{})}
	if kind != "rename-onto" && kind != "rename-source" && rng.IntN(2) == 0 {
		fetcher.leaf, _ = env.NewLeaf(vfsh.KFIFO, "")
	}
	dName := "Dir"
	for k := 0; k < n; k++ {
		if k == pos {
			if err := parent.CreateChildren(map[path.Component]virtual.InitialChild{pcomp(dName): virtual.InitialChild{}.FromDirectory(fetcher)}, false); err != nil {
				panic(err)
			}
			ents = append(ents, &ent{name: dName, isDir: true})
			layout = append(layout, dName+"/ (gated)")
			continue
		}
		name := names[k]
		c := rng.IntN(6)
		if k == 0 && c == 5 {
			c = 0 // the first entry is always visible
		}
		switch {
		case c < 3:
			leaf, _ := env.NewLeaf(vfsh.KFile, "")
			if err := parent.CreateChildren(map[path.Component]virtual.InitialChild{pcomp(name): virtual.InitialChild{}.FromLeaf(leaf)}, false); err != nil {
				panic(err)
			}
			ents = append(ents, &ent{name: name})
			layout = append(layout, name)
		case c < 5:
			var a virtual.Attributes
			if _, _, st := parent.VirtualMkdir(ctx, pcomp(name), &virtual.Attributes{}, vfsh.MaskBasic, &a); st != virtual.StatusOK {
				panic("mkdir failed")
			}
			ents = append(ents, &ent{name: name, isDir: true})
			layout = append(layout, name+"/")
		default:
			hname := "._" + name
			leaf, _ := env.NewLeaf(vfsh.KFile, "")
			if err := parent.CreateChildren(map[path.Component]virtual.InitialChild{pcomp(hname): virtual.InitialChild{}.FromLeaf(leaf)}, false); err != nil {
				panic(err)
			}
			ents = append(ents, &ent{name: hname, hidden: cfg.HiddenPattern})
			layout = append(layout, hname)
		}
	}
	if parent == env.Root {
		pos++
	}
	nInitial := len(ents)
	visibleBefore := 0
	for _, e := range ents[:pos] {
		if !e.hidden {
			visibleBefore++
		}
	}
	dChild, err := parent.LookupChild(pcomp(dName))
	if err != nil {
		panic(err)
	}
	d, _ := dChild.GetPair()
	dIno := inoOf(d)

	// The holder: takes D's lock and parks inside the fetcher.
	holderDone := make(chan struct{})
	holderOp := rng.IntN(4)
	go func() {
		defer close(holderDone)
		switch holderOp {
		case 0:
			d.ReadDir()
		case 1:
			d.LookupChild(pcomp("x"))
		case 2:
			var a virtual.Attributes
			d.VirtualLookup(ctx, pcomp("x"), vfsh.MaskBasic, &a)
		default:
			d.LookupAllChildren()
		}
	}()
	<-fetcher.reached
	say("holder(op %d) parked in FetchContents of %s while holding its lock", holderOp, dName)

	// Optional first page (single threaded), so that the call under test
	// starts from a non-zero cookie.
	var firstCookie uint64
	prefix := 0
	if kind == "readdir" && visibleBefore >= 2 && rng.IntN(2) == 0 {
		prefix = 1 + rng.IntN(visibleBefore-1)
		rep := &gatedReporter{limit: prefix}
		if st := parent.VirtualReadDir(ctx, 0, vfsh.MaskBasic, rep); st != virtual.StatusOK {
			bad("status", "first page: "+vfsh.StatusName(st))
		}
		listing = append(listing, rep.entries...)
		if len(rep.entries) > 0 {
			firstCookie = rep.entries[len(rep.entries)-1].Cookie
		}
		say("first page of %d entries without locked attributes; resume cookie %d", prefix, firstCookie)
		r.Situation("readdir-backoff-in-a-resumed-listing")
	}

	// The call under test.
	var opened atomic.Bool
	rep := &gatedReporter{limit: 1000, opened: &opened}
	if kind == "readdir" && rng.IntN(3) == 0 {
		rep.limit = visibleBefore - prefix + 1 + rng.IntN(3)
	}
	callDone := make(chan struct{})
	idCh := make(chan string, 1)
	var callStatus string
	var lookupChild virtual.DirectoryChild
	var lookupAttrs virtual.Attributes
	mover := "mover"
	var moverIno uint64
	if kind == "rename-onto" {
		var a virtual.Attributes
		md, _, st := other.VirtualMkdir(ctx, pcomp(mover), &virtual.Attributes{}, vfsh.MaskBasic, &a)
		if st != virtual.StatusOK {
			panic("mkdir mover")
		}
		moverIno = inoOf(md)
	}
	// rename-source: the entry that is renamed onto Dir lives in src (the
	// other directory, or the parent itself) and is changed by the driver
	// while the rename waits for Dir's lock.
	src := other
	srcSame := kind == "rename-source" && rng.IntN(2) == 0
	if srcSame {
		src = parent
	}
	makeEntry := func(d virtual.PrepopulatedDirectory, name string, dir bool) {
		if dir {
			var a virtual.Attributes
			if _, _, st := d.VirtualMkdir(ctx, pcomp(name), &virtual.Attributes{}, vfsh.MaskBasic, &a); st != virtual.StatusOK {
				panic("gated: mkdir " + name + ": " + vfsh.StatusName(st))
			}
			return
		}
		leaf, _ := env.NewLeaf(vfsh.KFile, "")
		if err := d.CreateChildren(map[path.Component]virtual.InitialChild{pcomp(name): virtual.InitialChild{}.FromLeaf(leaf)}, false); err != nil {
			panic(err)
		}
	}
	if kind == "rename-source" {
		initialDir := rng.IntN(3) != 0
		makeEntry(src, mover, initialDir)
		say("source %s/%s created as %s", map[bool]string{true: "parent", false: "other"}[srcSame], mover, map[bool]string{true: "directory", false: "file"}[initialDir])
	}
	go func() {
		defer close(callDone)
		idCh <- goroutineID()
		switch kind {
		case "readdir":
			callStatus = vfsh.StatusName(parent.VirtualReadDir(ctx, firstCookie, vfsh.MaskLocked, rep))
		case "lookup":
			var st virtual.Status
			lookupChild, st = parent.VirtualLookup(ctx, pcomp(dName), vfsh.MaskLocked, &lookupAttrs)
			callStatus = vfsh.StatusName(st)
		case "remove":
			_, st := parent.VirtualRemove(ctx, pcomp(dName), true, true)
			callStatus = vfsh.StatusName(st)
		case "rename-onto":
			_, _, st := other.VirtualRename(ctx, pcomp(mover), parent, pcomp(dName))
			callStatus = vfsh.StatusName(st)
		case "rename-source":
			_, _, st := src.VirtualRename(ctx, pcomp(mover), parent, pcomp(dName))
			callStatus = vfsh.StatusName(st)
		}
	}()
	id := <-idCh
	parked := waitParkedOnLockPile(id, callDone)
	if !parked {
		// D was the very first thing the call needed and it blocked
		// without backing off, or the call finished: open the gate and
		// judge what there is to judge.
		r.Count("gated_cases_without_backoff", 1)
	} else {
		say("%s call is blocked in LockPile.Lock on %s after reporting %d entries", kind, dName, rep.count())
		if kind == "readdir" && rep.count() != visibleBefore-prefix {
			bad("readdir-entries-before-contended-child", fmt.Sprintf("reported %d entries before blocking on %s, %d visible entries precede it after cookie %d", rep.count(), dName, visibleBefore-prefix, firstCookie))
		}
	}

	// The driver's mutations while the parent's lock is dropped.
	detach := "none"
	var bg sync.WaitGroup
	newFileAtD := false
	dNewParent, dNewName := parent, dName
	if parked && kind != "rename-source" {
		detach = []string{"rename-same-dir", "rename-same-dir", "rename-cross-dir", "RemoveAll", "CreateChildren-overwrite", "RemoveAllChildren", "none"}[rng.IntN(7)]
		if kind != "readdir" {
			detach = []string{"rename-same-dir", "rename-cross-dir", "RemoveAll", "CreateChildren-overwrite", "none", "none"}[rng.IntN(6)]
		}
		dEnt := ents[pos]
		switch detach {
		case "rename-same-dir":
			dNewName = "Moved"
			if _, _, st := parent.VirtualRename(ctx, pcomp(dName), parent, pcomp(dNewName)); st != virtual.StatusOK {
				bad("status", "driver rename: "+vfsh.StatusName(st))
			}
			dEnt.touched = true
			ents = append(ents, &ent{name: dNewName, isDir: true, touched: true})
		case "rename-cross-dir":
			dNewParent, dNewName = other, "Moved"
			if _, _, st := parent.VirtualRename(ctx, pcomp(dName), other, pcomp(dNewName)); st != virtual.StatusOK {
				bad("status", "driver rename: "+vfsh.StatusName(st))
			}
			dEnt.touched = true
		case "RemoveAll":
			// Detaches D under the parent's lock and then blocks on
			// D's lock until the gate opens.
			bg.Add(1)
			go func() { defer bg.Done(); parent.RemoveAll(pcomp(dName)) }()
			dEnt.touched = true
			dNewParent = nil
		case "CreateChildren-overwrite":
			leaf, _ := env.NewLeaf(vfsh.KFile, "")
			bg.Add(1)
			go func() {
				defer bg.Done()
				parent.CreateChildren(map[path.Component]virtual.InitialChild{pcomp(dName): virtual.InitialChild{}.FromLeaf(leaf)}, true)
			}()
			dEnt.touched = true
			dNewParent = nil
			newFileAtD = true
			ents = append(ents, &ent{name: dName, touched: true})
		case "RemoveAllChildren":
			bg.Add(1)
			go func() { defer bg.Done(); parent.RemoveAllChildren(false) }()
			for _, e := range ents {
				e.touched = true
			}
			dNewParent = nil
		}
		if detach == "RemoveAll" || detach == "CreateChildren-overwrite" || detach == "RemoveAllChildren" {
			// Wait for the detach itself (an event: the name stops
			// referring to D).
			for {
				c, err := parent.LookupChild(pcomp(dName))
				if err != nil {
					break
				}
				if cd, _ := c.GetPair(); cd == nil || inoOf(cd) != dIno {
					break
				}
				runtime.Gosched()
			}
		}
		say("driver: %s of %s", detach, dName)
		if detach != "none" {
			r.Situation("backoff-entry-detached-meanwhile:" + kind)
			if kind == "readdir" {
				r.Situation("readdir-backoff-entry-detached-meanwhile")
			}
		} else {
			r.Situation("backoff-entry-kept:" + kind)
			if kind == "readdir" {
				r.Situation("readdir-backoff-entry-kept")
			}
		}
		// Other entries: remove one already reported, remove one not
		// yet reported, add a new one.
		if kind == "readdir" && detach != "RemoveAllChildren" {
			if rng.IntN(2) == 0 {
				for _, e := range ents[:pos] {
					if !e.isDir && !e.touched {
						if _, st := parent.VirtualRemove(ctx, pcomp(e.name), false, true); st == virtual.StatusOK {
							e.touched = true
							say("driver: removed already listed %s", e.name)
						}
						break
					}
				}
			}
			if rng.IntN(2) == 0 && pos+1 < nInitial {
				for _, e := range ents[pos+1 : nInitial] {
					if !e.isDir && !e.touched {
						if _, st := parent.VirtualRemove(ctx, pcomp(e.name), false, true); st == virtual.StatusOK {
							e.touched = true
							say("driver: removed not yet listed %s", e.name)
						}
						break
					}
				}
			}
			if rng.IntN(2) == 0 {
				var a virtual.Attributes
				if _, _, st := parent.VirtualMkdir(ctx, pcomp("Added"), &virtual.Attributes{}, vfsh.MaskBasic, &a); st == virtual.StatusOK {
					ents = append(ents, &ent{name: "Added", isDir: true, touched: true})
					say("driver: added directory Added")
				}
			}
		}
	}
	// rename-source: change the SOURCE entry while the rename is parked, then
	// note what the source name refers to: that is what the rename must act
	// on once it resumes (nothing else changes until the gate opens).
	type nowEntry struct {
		exists bool
		isDir  bool
		ino    uint64
	}
	lookupNow := func(d virtual.PrepopulatedDirectory, name string) nowEntry {
		c, err := d.LookupChild(pcomp(name))
		if err != nil {
			return nowEntry{}
		}
		cd, cl := c.GetPair()
		if cd != nil {
			return nowEntry{true, true, inoOf(cd)}
		}
		return nowEntry{true, false, inoOf(cl)}
	}
	var srcNow nowEntry
	srcMutation := "-"
	if kind == "rename-source" {
		if parked {
			srcMutation = []string{"remove", "recreate", "swap", "keep"}[rng.IntN(4)]
			switch srcMutation {
			case "remove":
				if err := src.Remove(pcomp(mover)); err != nil {
					panic(err)
				}
			case "recreate":
				if err := src.Remove(pcomp(mover)); err != nil {
					panic(err)
				}
				makeEntry(src, mover, rng.IntN(2) == 0)
			case "swap":
				if _, _, st := src.VirtualRename(ctx, pcomp(mover), src, pcomp("away")); st != virtual.StatusOK {
					panic("gated: rename away: " + vfsh.StatusName(st))
				}
				makeEntry(src, "y2", rng.IntN(2) == 0)
				if _, _, st := src.VirtualRename(ctx, pcomp("y2"), src, pcomp(mover)); st != virtual.StatusOK {
					panic("gated: rename onto source name: " + vfsh.StatusName(st))
				}
			}
			where := map[bool]string{true: "same-directory", false: "cross-directory"}[srcSame]
			r.Situation("rename-source-changed-during-backoff:" + srcMutation + ":" + where)
			if srcMutation != "keep" {
				r.Situation("rename-source-changed-during-backoff")
			}
		}
		srcNow = lookupNow(src, mover)
		say("driver: source %s; the name now refers to %+v", srcMutation, srcNow)
	}
	opened.Store(true)
	close(fetcher.gate)
	say("gate opened")

	// Everything must come to rest.
	for _, ch := range []<-chan struct{}{callDone, holderDone} {
		select {
		case <-ch:
		case <-time.After(60 * time.Second):
			r.Inconclusive("gated case cfg=%d case=%d (%s): a call did not return within 60 s after the gate was opened", cfgIdx, i, kind)
			return
		}
	}
	bg.Wait()

	switch kind {
	case "readdir":
		if callStatus != vfsh.OK {
			bad("status", "VirtualReadDir returned "+callStatus)
		}
		listing = append(listing, rep.entries...)
		// Resume until the end of the directory.
		refused := rep.refused
		for pages := 0; refused && pages < 50; pages++ {
			next := &gatedReporter{limit: 1 + rng.IntN(3)}
			cookie := firstCookie
			if len(listing) > 0 {
				cookie = listing[len(listing)-1].Cookie
			}
			if st := parent.VirtualReadDir(ctx, cookie, vfsh.MaskLocked, next); st != virtual.StatusOK {
				bad("status", "resumed page: "+vfsh.StatusName(st))
			}
			listing = append(listing, next.entries...)
			refused = next.refused
		}
		seen := map[string]int{}
		var last uint64
		for k, e := range listing {
			seen[e.Name]++
			if k > 0 && e.Cookie <= last {
				bad("readdir-cookies-not-increasing", fmt.Sprintf("entry %q has cookie %d after cookie %d", e.Name, e.Cookie, last))
			}
			last = e.Cookie
		}
		known := map[string]*ent{}
		for _, e := range ents {
			known[e.name] = e
		}
		var names []string
		for name := range seen {
			names = append(names, name)
		}
		sort.Strings(names)
		for _, name := range names {
			e := known[name]
			switch {
			case e == nil:
				bad("readdir-reported-nonexistent-entry", fmt.Sprintf("%q was never in the directory", name))
			case e.hidden:
				bad("readdir-reported-hidden-leaf", name)
			case seen[name] > 1:
				bad("readdir-entry-reported-twice", fmt.Sprintf("%q reported %d times in one listing", name, seen[name]))
			}
		}
		for _, e := range ents {
			if !e.touched && !e.hidden && seen[e.name] == 0 {
				bad("readdir-missed-entry-present-throughout", fmt.Sprintf("%q existed throughout the listing and was not reported", e.name))
			}
		}
	case "lookup":
		// The answer must describe what the name refers to now.
		switch {
		case newFileAtD:
			if callStatus != vfsh.OK {
				bad("status want=OK got="+callStatus, "the name refers to a file again")
			} else if _, l := lookupChild.GetPair(); l == nil || lookupAttrs.GetInodeNumber() == dIno {
				bad("lookup-returned-detached-directory", "the name refers to a new file, the stale directory was returned")
			}
		case detach == "none":
			if callStatus != vfsh.OK || lookupAttrs.GetInodeNumber() != dIno {
				bad("status want=OK got="+callStatus, "directory still there")
			}
		default:
			if callStatus != vfsh.ENOENT {
				bad("status want=ENOENT got="+callStatus, fmt.Sprintf("%s was moved away or removed while the lookup waited for its lock", dName))
			}
		}
	case "remove":
		switch {
		case newFileAtD:
			if callStatus != vfsh.OK {
				bad("status want=OK got="+callStatus, "the name refers to a file now, which must be removed")
			} else if _, err := parent.LookupChild(pcomp(dName)); err == nil {
				bad("remove-did-not-remove", "name still resolves")
			}
		case detach == "none":
			// D holds the fetched child or nothing.
			want := vfsh.OK
			if fetcher.leaf != nil {
				want = vfsh.ENOTEMPTY
			}
			if callStatus != want {
				bad("status want="+want+" got="+callStatus, "")
			}
		default:
			if callStatus != vfsh.ENOENT {
				bad("status want=ENOENT got="+callStatus, fmt.Sprintf("%s was moved away or removed while the removal waited for its lock", dName))
			}
		}
	case "rename-source":
		want := vfsh.OK
		switch {
		case !srcNow.exists:
			want = vfsh.ENOENT
		case !srcNow.isDir:
			want = vfsh.EISDIR // a file cannot replace the directory Dir
		}
		if callStatus != want {
			bad("status want="+want+" got="+callStatus, fmt.Sprintf("source changed by %q while the rename waited; the source name refers to %+v", srcMutation, srcNow))
		}
		target := lookupNow(parent, dName)
		after := lookupNow(src, mover)
		if want == vfsh.OK {
			if !target.exists || target.ino != srcNow.ino {
				bad("rename-moved-another-object", fmt.Sprintf("target is %+v, the source name referred to %+v", target, srcNow))
			}
			if after.exists {
				bad("rename-left-the-source-name-behind", fmt.Sprintf("%+v", after))
			}
		} else {
			if !target.exists || target.ino != dIno {
				bad("failed-rename-changed-the-target", fmt.Sprintf("%+v", target))
			}
			if after != srcNow {
				bad("failed-rename-changed-the-source", fmt.Sprintf("before %+v after %+v", srcNow, after))
			}
		}
		// Listing and lookup of both directories must agree.
		for _, d := range []virtual.PrepopulatedDirectory{src, parent} {
			rep := &gatedReporter{limit: 1000}
			if st := d.VirtualReadDir(ctx, 0, vfsh.MaskLocked, rep); st != virtual.StatusOK {
				bad("status", "VirtualReadDir after the rename: "+vfsh.StatusName(st))
			}
			listed := map[string]int{}
			for _, e := range rep.entries {
				listed[e.Name]++
			}
			for name, n := range listed {
				if n > 1 {
					bad("readdir-entry-reported-twice", name)
				}
				if !lookupNow(d, name).exists {
					bad("listed-entry-cannot-be-looked-up", fmt.Sprintf("%q is listed but lookup says it does not exist", name))
				}
			}
			for _, name := range []string{mover, "away", "y2", dName} {
				if lookupNow(d, name).exists && listed[name] == 0 {
					bad("entry-missing-from-listing", fmt.Sprintf("%q can be looked up but is not listed", name))
				}
			}
		}
	case "rename-onto":
		// D was empty (or gone): the directory "mover" must now be at dName.
		if newFileAtD {
			if callStatus != vfsh.ENOTDIR {
				bad("status want=ENOTDIR got="+callStatus, "the name refers to a file now; a directory cannot replace it")
			}
		} else if callStatus != vfsh.OK {
			bad("status want=OK got="+callStatus, "rename of a directory onto a name that became free (or an empty directory)")
		} else if c, err := parent.LookupChild(pcomp(dName)); err != nil {
			bad("rename-target-missing", err.Error())
		} else if cd, _ := c.GetPair(); cd == nil || inoOf(cd) != moverIno {
			bad("rename-target-is-not-the-moved-directory", "")
		}
	}
	// A directory that was moved away must still be alive and reachable
	// under its new name.
	if !failed && dNewParent != nil && (detach == "rename-same-dir" || detach == "rename-cross-dir") {
		c, err := dNewParent.LookupChild(pcomp(dNewName))
		if err != nil {
			bad("moved-directory-lost", err.Error())
		} else if cd, _ := c.GetPair(); cd == nil || inoOf(cd) != dIno {
			bad("moved-directory-lost", "another node is at the new name")
		} else {
			var a virtual.Attributes
			if _, _, st := cd.VirtualMkdir(ctx, pcomp("probe"), &virtual.Attributes{}, vfsh.MaskBasic, &a); st != virtual.StatusOK {
				bad("moved-directory-was-deleted", "VirtualMkdir in the moved directory: "+vfsh.StatusName(st))
			}
		}
	}
	hs := []any{"gated", cfg.String(), kind, detach, pos, prefix, callStatus}
	for _, e := range listing {
		hs = append(hs, e.Name)
	}
	r.Hash(ev.HashOf(hs...), parked)
	r.Count("gated_cases", 1)
	if i == 1 && cfgIdx == 0 && r.WantSample() {
		r.Sample(map[string]any{"phase": "gated", "cfg": cfg.String(), "kind": kind, "layout": layout, "script": script, "reported": listing})
	}
}
