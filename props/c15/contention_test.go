package c15

import (
	"crypto/sha256"
	"encoding/hex"
	"fmt"
	"runtime"
	"sync"
	"sync/atomic"

	"github.com/buildbarn/bb-remote-execution/pkg/filesystem/pool"

	"verif/internal/ev"
)

// Quota must never be handed out twice, also not for a moment while several
// files of one pool are used concurrently. The harness cannot see the
// counters of the quota layer, but it can keep a LOWER bound of what has
// been handed out: heldFiles/heldBytes are increased only after a call that
// took quota has returned successfully and decreased before the call that
// gives it back is made. At every instant
//
//	held <= what the quota layer has really handed out <= configured maximum
//
// so observing held > maximum proves that quota was handed out twice,
// independent of scheduling.

// acquired records quota that a call which has just returned took.
func (e *env) acquired(files, bytes int64, after string) {
	if e.c.NoQuota {
		return
	}
	if files > 0 {
		if c := e.heldFiles.Add(files); c > int64(e.c.MaxFiles) {
			e.violate("quota-files-overcommitted after="+after, fmt.Sprintf("at least %d files are open at the same time, the quota is %d files", c, e.c.MaxFiles))
		}
	}
	if bytes > 0 {
		if c := e.heldBytes.Add(bytes); c > e.c.MaxBytes {
			e.violate("quota-bytes-overcommitted after="+after, fmt.Sprintf("open files hold at least %d bytes at the same time, the quota is %d bytes", c, e.c.MaxBytes))
		}
	}
}

// releasing records quota that the call about to be made gives back.
func (e *env) releasing(files, bytes int64) {
	if e.c.NoQuota {
		return
	}
	e.heldFiles.Add(-files)
	e.heldBytes.Add(-bytes)
}

// checkNothingHeld is a self-check of the bookkeeping above at the end of a
// round (every file closed).
func (e *env) checkNothingHeld() {
	if e.isAborted() || e.c.NoQuota {
		return
	}
	if f, b := e.heldFiles.Load(), e.heldBytes.Load(); f != 0 || b != 0 {
		panic(fmt.Sprintf("verif harness: quota lower bounds not back to zero after the round: files %d bytes %d", f, b))
	}
}

// runQuotaContentionRound lets many goroutines compete for a quota of very
// few files and bytes: each repeatedly creates a file (empty or with an
// initial size), grows, shrinks and closes it. Almost every call is decided
// while another goroutine's call on the same counters is in flight.
func runQuotaContentionRound(r *ev.Run, i int) {
	rng := r.Rand(4, uint64(i))
	c := cfg{Profile: "quota-contention", SS: 16, Capacity: 8}
	c.MaxFiles = 1 + i%3
	c.MaxBytes = []int64{1, 5, 64, 1000}[rng.IntN(4)]
	c.MaxLogical = c.MaxBytes
	goroutines := 4 + rng.IntN(9)
	c.Slots = goroutines
	c.Steps = 1000 + rng.IntN(1000)
	procs := []int{16, 4, 8}[i%3]
	r.Case("quota-contention round=%d goroutines=%d gomaxprocs=%d cfg=%+v", i, goroutines, procs, c)
	prev := runtime.GOMAXPROCS(procs)
	defer runtime.GOMAXPROCS(prev)

	e := newEnv(r, c, "quota-contention", i, rng)
	var granted, denied atomic.Int64
	var wg sync.WaitGroup
	start := make(chan struct{})
	for g := 0; g < goroutines; g++ {
		wrng := r.Rand(5, uint64(i), uint64(g))
		wg.Add(1)
		go func() {
			defer wg.Done()
			<-start
			fail := func(op string, err error) {
				e.violate("unexpected-error op="+op+" code="+errClass(err), err.Error())
			}
			for s := 0; s < c.Steps && !e.isAborted(); s++ {
				// Create, with or without an initial size.
				size := int64(0)
				if wrng.IntN(2) == 0 {
					size = 1 + wrng.Int64N(c.MaxBytes)
				}
				f, err := e.q.NewFile(pool.ZeroHoleSource, uint64(size))
				if err != nil {
					if !isQuotaErr(err, "quota reached") {
						fail("newfile", err)
						return
					}
					denied.Add(1)
					continue
				}
				e.acquired(1, size, "newfile")
				granted.Add(1)
				if wrng.IntN(8) == 0 {
					// Keep it for a while: the others are denied.
					runtime.Gosched()
				}
				// Grow and shrink a few times.
				for k := wrng.IntN(3); k > 0 && !e.isAborted(); k-- {
					to := wrng.Int64N(c.MaxBytes + 1)
					if to < size {
						e.releasing(0, size-to)
					}
					if err := f.Truncate(to); err != nil {
						if to <= size || !isQuotaErr(err, "File size quota reached") {
							fail("truncate", err)
							return
						}
						denied.Add(1)
						continue
					}
					if to > size {
						e.acquired(0, to-size, "truncate")
						granted.Add(1)
					}
					size = to
				}
				e.releasing(1, size)
				if err := f.Close(); err != nil {
					fail("close", err)
					return
				}
			}
		}()
	}
	close(start)
	wg.Wait()

	e.sit("quota-contention-round")
	if denied.Load() > 0 && granted.Load() > 0 {
		e.sit("quota-contention-denied")
	}
	e.checkNothingHeld()
	e.finalProofs()
	r.Count("quota_contention_granted", int(granted.Load()))
	r.Count("quota_contention_denied", int(denied.Load()))
	// The interleaving is not recorded; the round is identified by its
	// configuration.
	h := sha256.Sum256([]byte(fmt.Sprintf("quota-contention %d %+v %d", i, c, goroutines)))
	r.Hash(hex.EncodeToString(h[:12]), true)
}
