package c15

import (
	"crypto/sha256"
	"encoding/hex"
	"fmt"
	"io"
	"math/rand/v2"
	"runtime"
	"sync"

	"github.com/buildbarn/bb-storage/pkg/filesystem"

	"google.golang.org/grpc/codes"
	"google.golang.org/grpc/status"

	"verif/internal/ev"
)

// worker owns a few files of the shared pool. Quota and exhaustion
// decisions depend on the other workers and are therefore not predicted;
// the byte contents of the worker's own files are.
type worker struct {
	e     *env
	g     int
	rng   *rand.Rand
	files []*openFile
	log   []string
	stats struct{ ops, quotaDenied, exhausted, faults int }
}

func (w *worker) fail(rule, detail string) {
	w.e.mu.Lock()
	w.e.ops = append(w.e.ops, fmt.Sprintf("goroutine %d history: %v", w.g, w.log))
	w.e.mu.Unlock()
	w.e.violate(rule, detail)
}

func (w *worker) note(format string, args ...any) {
	w.log = append(w.log, fmt.Sprintf(format, args...))
	if len(w.log) > 80 {
		w.log = w.log[len(w.log)-80:]
	}
}

func (w *worker) verify(of *openFile, from, to int64, after string) {
	if from < 0 {
		from = 0
	}
	if to > of.m.size {
		to = of.m.size
	}
	if to <= from {
		return
	}
	buf := make([]byte, to-from)
	n, err := of.f.ReadAt(buf, from)
	if n != len(buf) || (err != nil && err != io.EOF) {
		w.fail("verify-read-failed after="+after, fmt.Sprintf("ReadAt(len %d, off %d) on file %d of size %d = (%d, %v)", len(buf), from, of.m.id, of.m.size, n, err))
		return
	}
	if o := of.m.matches(buf, from); o >= 0 {
		w.fail("read-differs-from-model after="+after, w.e.mismatchDetail(of, buf, from, o))
	}
}

func (w *worker) payload(n int) []byte {
	p := make([]byte, n)
	x := w.rng.Uint64() | 1
	for i := range p {
		x ^= x << 13
		x ^= x >> 7
		x ^= x << 17
		b := byte(x)
		if b == 0 || b == poisonByte {
			b = 0x5A
		}
		p[i] = b
	}
	return p
}

func (w *worker) step() {
	e := w.e
	ss := int64(e.c.SS)
	w.stats.ops++
	if len(w.files) == 0 || (len(w.files) < 3 && w.rng.IntN(10) == 0) {
		id := w.g*1000 + w.stats.ops
		size := int64(0)
		if w.rng.IntN(3) == 0 {
			size = w.rng.Int64N(3*ss + 1)
		}
		pattern := holePattern{zero: true}
		if size > 0 && w.rng.IntN(2) == 0 {
			pattern = holePattern{id: id, salt: w.rng.Uint64N(1 << 20), runLen: w.rng.Int64N(2 * ss)}
		}
		hs := &monHoleSource{pattern: pattern, limit: size, rep: e}
		f, err := e.q.NewFile(hs, uint64(size))
		w.note("newfile f%d size=%d -> %s", id, size, errClass(err))
		if err != nil {
			if !isQuotaErr(err, "quota reached") {
				w.fail("unexpected-error op=newfile code="+errClass(err), err.Error())
			}
			w.stats.quotaDenied++
			return
		}
		e.acquired(1, size, "newfile")
		of := &openFile{f: f, m: newFileModel(id, size, pattern, size, e.c.SS), hs: hs}
		w.files = append(w.files, of)
		w.verify(of, 0, size, "newfile")
		return
	}
	idx := w.rng.IntN(len(w.files))
	of := w.files[idx]
	m := of.m
	limit := e.c.MaxLogical / 2
	switch k := w.rng.IntN(100); {
	case k < 50:
		off := (w.rng.Int64N(limit/ss + 1)) * ss
		if w.rng.IntN(2) == 0 {
			off += w.rng.Int64N(ss) - ss/2
		}
		if off < 0 {
			off = 0
		}
		n := []int{1, int(ss), int(ss) + 1, 2*int(ss) - 1, w.rng.IntN(4*int(ss) + 1)}[w.rng.IntN(5)]
		if n > 1<<13 {
			n = 1 << 13
		}
		p := w.payload(n)
		got, err := of.f.WriteAt(p, off)
		w.note("write f%d off=%d len=%d -> %d,%s", m.id, off, n, got, errClass(err))
		if got < 0 || got > n || (err == nil && got != n) {
			w.fail("short-write-without-error", fmt.Sprintf("WriteAt(len %d, off %d) = (%d, %v)", n, off, got, err))
			return
		}
		if err != nil {
			switch {
			case isQuotaErr(err, "File size quota reached"):
				w.stats.quotaDenied++
			case status.Code(err) == codes.ResourceExhausted:
				w.stats.exhausted++
			case isInjected(err) && e.dev.concFaultEvery.Load() > 0:
				// One of this round's device write failures.
				w.stats.faults++
			default:
				w.fail("unexpected-error op=write code="+errClass(err), err.Error())
				return
			}
		}
		old := m.size
		m.write(p[:got], off)
		e.acquired(0, m.size-old, "write")
		w.verify(of, off-ss-1, off+int64(n)+ss+1, "write")
	case k < 65:
		off := w.rng.Int64N(m.size + 2)
		w.verify(of, off, off+w.rng.Int64N(3*ss+2), "read")
	case k < 82:
		size := w.rng.Int64N(limit + 1)
		if w.rng.IntN(2) == 0 {
			size = w.rng.Int64N(m.size + 1)
		}
		if size < m.size {
			e.releasing(0, m.size-size)
		}
		err := of.f.Truncate(size)
		w.note("truncate f%d size=%d (was %d) -> %s", m.id, size, m.size, errClass(err))
		if err != nil {
			if isInjected(err) && size < m.size && e.dev.concFaultEvery.Load() > 0 {
				// The device failed to zero the tail of the new
				// last sector: the file keeps its size and quota.
				w.stats.faults++
				e.acquired(0, m.size-size, "truncate/fault")
				m.failedShrink(size)
				w.verify(of, size-ss-1, m.size, "truncate/fault")
				return
			}
			if !isQuotaErr(err, "File size quota reached") || size <= m.size {
				w.fail("unexpected-error op=truncate code="+errClass(err), err.Error())
				return
			}
			w.stats.quotaDenied++
			return
		}
		old := m.size
		m.truncate(size)
		if size > old {
			e.acquired(0, size-old, "truncate")
		}
		w.verify(of, min(old, size)-ss-1, max(old, size), "truncate")
	case k < 90:
		off := w.rng.Int64N(m.size + 1)
		r, err := of.f.GetNextRegionOffset(off, filesystem.Data)
		if off >= m.size {
			if err != io.EOF {
				w.fail("seek-past-eof-not-eof type=data", fmt.Sprintf("GetNextRegionOffset(%d) on size %d = (%d, %v)", off, m.size, r, err))
			}
			return
		}
		end := r
		if err == io.EOF {
			end = m.size
		} else if err != nil || r < off || r >= m.size {
			w.fail("seek-result-out-of-range type=data", fmt.Sprintf("GetNextRegionOffset(%d, data) on size %d = (%d, %v)", off, m.size, r, err))
			return
		}
		if o := m.zeroOK(off, end); o >= 0 {
			w.fail("seek-data-skips-nonzero-bytes", fmt.Sprintf("GetNextRegionOffset(%d, data) = (%d, %v) but offset %d holds %#02x", off, r, err, o, m.content[o]))
		}
	default:
		w.verify(of, 0, m.size, "before-close")
		e.releasing(1, m.size)
		err := of.f.Close()
		w.note("close f%d -> %s", m.id, errClass(err))
		w.files = append(w.files[:idx], w.files[idx+1:]...)
		if err != nil || of.hs.closed.Load() != 1 {
			w.fail("unexpected-error op=close code="+errClass(err), fmt.Sprintf("Close = %v, hole source closed %d times", err, of.hs.closed.Load()))
		}
	}
}

func runConcurrentRound(r *ev.Run, i int) {
	rng := r.Rand(2, uint64(i))
	c := cfg{Profile: "concurrent"}
	c.SS = sectorSizes[i%len(sectorSizes)]
	c.Capacity = []int{3, 16, 64, 65, 130, 400}[rng.IntN(6)]
	if c.SS == 4096 {
		c.Capacity = []int{2, 5, 9, 16}[rng.IntN(4)]
	}
	total := int64(c.SS) * int64(c.Capacity)
	c.MaxLogical = min(4*total+3*int64(c.SS)+5, 1<<16)
	goroutines := 2 + rng.IntN(7)
	c.Slots = goroutines * 3
	c.MaxFiles = []int{goroutines, 2 * goroutines, 3 * goroutines}[rng.IntN(3)]
	c.MaxBytes = []int64{total / 2, 2 * total, 1 << 40}[rng.IntN(3)]
	if c.MaxBytes < 1 {
		c.MaxBytes = 1
	}
	c.Steps = 40 + rng.IntN(120)
	procs := []int{2, 4, 16}[i%3]
	r.Case("concurrent round=%d goroutines=%d gomaxprocs=%d cfg=%+v", i, goroutines, procs, c)
	prev := runtime.GOMAXPROCS(procs)
	defer runtime.GOMAXPROCS(prev)

	e := newEnv(r, c, "concurrent", i, rng)
	if i%2 == 1 {
		// Failure handling (freeing what a failed write allocated,
		// returning its quota) concurrently with the other files.
		e.dev.concFaultEvery.Store(int64(5 + rng.IntN(30)))
	}
	workers := make([]*worker, goroutines)
	var wg sync.WaitGroup
	start := make(chan struct{})
	for g := range workers {
		w := &worker{e: e, g: g, rng: r.Rand(3, uint64(i), uint64(g))}
		workers[g] = w
		wg.Add(1)
		go func() {
			defer wg.Done()
			<-start
			for s := 0; s < c.Steps && !e.isAborted(); s++ {
				w.step()
				if w.rng.IntN(4) == 0 {
					runtime.Gosched()
				}
			}
			for _, of := range w.files {
				if e.isAborted() {
					break
				}
				w.verify(of, 0, of.m.size, "end-of-round")
				e.releasing(1, of.m.size)
				if err := of.f.Close(); err != nil {
					w.fail("unexpected-error op=close code="+errClass(err), err.Error())
				}
			}
		}()
	}
	close(start)
	wg.Wait()

	// Quiescent: nothing is open any more.
	e.dev.concFaultEvery.Store(0)
	ops, denied, exhausted, faults := 0, 0, 0, 0
	h := sha256.New()
	for _, w := range workers {
		ops += w.stats.ops
		denied += w.stats.quotaDenied
		exhausted += w.stats.exhausted
		faults += w.stats.faults
		fmt.Fprintf(h, "%v\n", w.log)
	}
	e.sit("concurrent-round")
	if denied > 0 {
		e.sit("concurrent-quota-contention")
	}
	if exhausted > 0 {
		e.sit("concurrent-exhaustion")
	}
	if faults > 0 {
		e.sit("concurrent-failed-device-write")
	}
	e.checkNothingHeld()
	e.finalProofs()
	r.Count("concurrent_operations", ops)
	r.Count("device_reads", int(e.dev.reads.Load()))
	r.Count("device_writes", int(e.dev.writes.Load()))
	r.Count("sectors_allocated", int(e.mon.sectorsAllocated.Load()))
	r.Count("sectors_freed", int(e.mon.sectorsFreed.Load()))
	r.Hash(hex.EncodeToString(h.Sum(nil)[:12]), true)
}
